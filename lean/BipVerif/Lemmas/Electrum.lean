/-
Electrum v1/v2, brainwallet and SPL-token lemmas (C20).
Decimal rendering of naturals (`str(int)`) and its injectivity, the Electrum v1 child-key
decision tree, Electrum v2 as two/three SLIP-0010 steps, the PDA bump search.
`sha256`/`sha256d`/`scrypt`/`pbkdf2` and secp256k1 arithmetic are never unfolded.
-/
import BipVerif.Model.Electrum
import BipVerif.Lemmas.IntBytes

namespace BipVerif.Model.ElectrumLemmas
open BipVerif BipVerif.Prim BipVerif.Model

/-! ### strings → bytes -/

theorem byteArray_toList_loop (bs : ByteArray) (i : Nat) (r : List UInt8) :
    ByteArray.toList.loop bs i r = r.reverse ++ bs.data.toList.drop i := by
  have hsz : bs.data.toList.length = bs.size := by rw [Array.length_toList]; rfl
  induction h : bs.size - i generalizing i r with
  | zero =>
    unfold ByteArray.toList.loop
    have : ¬ i < bs.size := by omega
    rw [if_neg this]
    rw [List.drop_of_length_le (by omega)]; simp
  | succ n ih =>
    unfold ByteArray.toList.loop
    have hi : i < bs.size := by omega
    rw [if_pos hi, ih (i+1) _ (by omega)]
    have hl : i < bs.data.toList.length := by omega
    rw [List.drop_eq_getElem_cons hl]
    simp [ByteArray.get!, hi]

theorem byteArray_toList_eq (bs : ByteArray) : bs.toList = bs.data.toList := by
  unfold ByteArray.toList
  rw [byteArray_toList_loop]; simp

/-- `str.encode()` is injective (as a byte list) -/
theorem utf8_toList_inj {s t : String} (h : s.toUTF8.toList = t.toUTF8.toList) : s = t := by
  rw [byteArray_toList_eq, byteArray_toList_eq] at h
  exact String.toByteArray_inj.mp (ByteArray.ext (Array.toList_inj.mp h))

/-! ### decimal rendering -/

/-- value of a string of ASCII digits (`int(s)`) -/
def decVal (l : List Char) : Nat := l.foldl (fun acc c => acc * 10 + (c.toNat - 48)) 0

theorem decVal_append_singleton (l : List Char) (c : Char) :
    decVal (l ++ [c]) = decVal l * 10 + (c.toNat - 48) := by
  unfold decVal; rw [List.foldl_append]; rfl

/-- `int(str(n)) = n` -/
theorem decVal_toDigits (n : Nat) : decVal (Nat.toDigits 10 n) = n := by
  induction n using Nat.strong_induction_on with
  | _ n ih =>
    rw [Nat.toDigits_eq_if (by omega)]
    split
    · rename_i h
      show (0 * 10 + ((Nat.digitChar n).toNat - 48)) = n
      rw [Nat.toNat_digitChar_sub_48_of_lt_ten h]; omega
    · rename_i h
      rw [decVal_append_singleton, ih (n / 10) (by omega),
        Nat.toNat_digitChar_sub_48_of_lt_ten (Nat.mod_lt n (by omega))]
      omega

theorem toString_toList (n : Nat) : (toString n).toList = Nat.toDigits 10 n := by
  rw [Nat.toString_eq_repr, Nat.toList_repr]

/-- **`str` on naturals is injective** -/
theorem toString_nat_inj {a b : Nat} (h : toString a = toString b) : a = b := by
  have := congrArg String.toList h
  rw [toString_toList, toString_toList] at this
  rw [← decVal_toDigits a, ← decVal_toDigits b, this]

/-- decimal digits are not `':'` -/
theorem colon_not_mem_toDigits (n : Nat) : ':' ∉ Nat.toDigits 10 n := by
  intro h
  have := Nat.isDigit_of_mem_toDigits (by omega) (by omega) h
  revert this; decide

/-- splitting at the first separator is unambiguous -/
theorem append_cons_inj_of_not_mem {α} {x : α} :
    ∀ {l1 l2 r1 r2 : List α}, x ∉ l1 → x ∉ l2 → l1 ++ x :: r1 = l2 ++ x :: r2 → l1 = l2 ∧ r1 = r2
  | [], [], _, _, _, _, h => ⟨rfl, List.tail_eq_of_cons_eq h⟩
  | [], b :: l2, _, _, _, h2, h => by
    have := List.head_eq_of_cons_eq h
    exact absurd (this ▸ List.mem_cons_self) h2
  | a :: l1, [], _, _, h1, _, h => by
    have := List.head_eq_of_cons_eq h
    exact absurd (this ▸ List.mem_cons_self) h1
  | a :: l1, b :: l2, r1, r2, h1, h2, h => by
    have hh := List.head_eq_of_cons_eq h
    have ht := List.tail_eq_of_cons_eq h
    have := append_cons_inj_of_not_mem (fun m => h1 (List.mem_cons_of_mem _ m))
      (fun m => h2 (List.mem_cons_of_mem _ m)) ht
    exact ⟨by rw [hh, this.1], this.2⟩

/-- the text `f"{addr}:{change}:"` -/
def ev1PrefixStr (addr change : Nat) : String := toString addr ++ ":" ++ toString change ++ ":"

theorem ev1PrefixStr_toList (addr change : Nat) :
    (ev1PrefixStr addr change).toList
      = Nat.toDigits 10 addr ++ ':' :: (Nat.toDigits 10 change ++ [':']) := by
  unfold ev1PrefixStr
  simp only [String.toList_append, toString_toList]
  simp

/-- the rendering contains exactly two `':'` -/
theorem ev1PrefixStr_count (addr change : Nat) : (ev1PrefixStr addr change).toList.count ':' = 2 := by
  rw [ev1PrefixStr_toList]
  simp [List.count_append, List.count_eq_zero_of_not_mem (colon_not_mem_toDigits _)]

/-- **the prefix determines `(addr, change)`** -/
theorem ev1PrefixStr_inj {a c a' c' : Nat} (h : ev1PrefixStr a c = ev1PrefixStr a' c') :
    a = a' ∧ c = c' := by
  have h1 := congrArg String.toList h
  rw [ev1PrefixStr_toList, ev1PrefixStr_toList] at h1
  obtain ⟨h2, h3⟩ := append_cons_inj_of_not_mem (colon_not_mem_toDigits a)
    (colon_not_mem_toDigits a') h1
  obtain ⟨h4, _⟩ := append_cons_inj_of_not_mem (colon_not_mem_toDigits c)
    (colon_not_mem_toDigits c') h3
  constructor
  · rw [← decVal_toDigits a, ← decVal_toDigits a', h2]
  · rw [← decVal_toDigits c, ← decVal_toDigits c', h4]

/-- the byte string hashed by Electrum v1: `ascii(f"{addr}:{change}:") ‖ K` -/
def ev1Msg (addr change : Nat) (K : Bytes) : Bytes := (ev1PrefixStr addr change).toUTF8.toList ++ K

/-- for master keys of equal length (64 bytes in the library) the hashed message determines
`(addr, change, K)` -/
theorem ev1Msg_inj {a c a' c' : Nat} {K K' : Bytes} (hl : K.length = K'.length)
    (h : ev1Msg a c K = ev1Msg a' c' K') : a = a' ∧ c = c' ∧ K = K' := by
  unfold ev1Msg at h
  have hlen := congrArg List.length h
  rw [List.length_append, List.length_append] at hlen
  obtain ⟨h1, h2⟩ := List.append_inj h (by omega)
  obtain ⟨h3, h4⟩ := ev1PrefixStr_inj (utf8_toList_inj h1)
  exact ⟨h3, h4, h2⟩

/-! ### Electrum v1 -/

theorem uncompressedOf_eq (c : CurveT) (k : Bytes) :
    uncompressedOf c k = match pubUncompressed c k with
      | some u => .ok u
      | none => .error .value := by
  unfold uncompressedOf; cases pubUncompressed c k <;> rfl

theorem ev1Sequence_eq (w : Ev1) (change addr : Nat) :
    ev1Sequence w change addr = match pubUncompressed .secp256k1 w.pub with
      | some u => .ok (Bytes.toNatBE (sha256d (ev1Msg addr change (u.drop 1))))
      | none => .error .value := by
  unfold ev1Sequence
  rw [uncompressedOf_eq]
  cases pubUncompressed .secp256k1 w.pub <;> rfl

theorem ev1Sequence_error {w : Ev1} {change addr : Nat} {e : Err}
    (h : ev1Sequence w change addr = .error e) : e = .value := by
  rw [ev1Sequence_eq] at h
  split at h
  · cases h
  · exact (Except.error.inj h).symm

theorem ev1PrivateKey_eq (w : Ev1) (change addr : Nat) :
    ev1PrivateKey w change addr =
      match w.priv with
      | none => .error .value
      | some m =>
        if change > 2 ^ 32 - 1 ∨ addr > 2 ^ 32 - 1 then .error .value
        else match ev1Sequence w change addr with
          | .error e => .error e
          | .ok s =>
            match toBytesBE ((Bytes.toNatBE m + s) % Prim.secp256k1.n) 32 with
            | .error e => .error e
            | .ok k => if privValid .secp256k1 k = true then .ok k else .error .value := by
  unfold ev1PrivateKey
  dsimp only
  cases w.priv with
  | none => rfl
  | some m =>
    dsimp only
    have hd : ((decide (change > 2 ^ 32 - 1) || decide (addr > 2 ^ 32 - 1)) = true) ↔
        (change > 2 ^ 32 - 1 ∨ addr > 2 ^ 32 - 1) := by
      simp only [Bool.or_eq_true, decide_eq_true_eq]
    show (if (decide (change > 2 ^ 32 - 1) || decide (addr > 2 ^ 32 - 1)) = true then _ else _) = _
    by_cases hr : change > 2 ^ 32 - 1 ∨ addr > 2 ^ 32 - 1
    · rw [if_pos hr, if_pos (hd.mpr hr)]; rfl
    · rw [if_neg hr, if_neg (fun h => hr (hd.mp h))]
      simp only [bind, Except.bind, pure, Except.pure]
      cases ev1Sequence w change addr with
      | error e => rfl
      | ok s =>
        dsimp only
        cases toBytesBE ((Bytes.toNatBE m + s) % Prim.secp256k1.n) 32 with
        | error e => rfl
        | ok k =>
          dsimp only
          cases privValid .secp256k1 k <;> rfl

theorem secp_n_lt : Prim.secp256k1.n < 256 ^ 32 := by
  unfold Prim.secp256k1; norm_num

theorem secp_n_pos : 0 < Prim.secp256k1.n := by
  unfold Prim.secp256k1; norm_num

/-- `int.to_bytes(32)` of a value reduced modulo `n` never overflows -/
theorem toBytesBE_mod_n (v : Nat) :
    toBytesBE (v % Prim.secp256k1.n) 32 = .ok (Bytes.ofNatBE 32 (v % Prim.secp256k1.n)) :=
  toBytesBE_eq_ofNatBE (Nat.lt_trans (Nat.mod_lt _ secp_n_pos) secp_n_lt)

/-! ### Electrum v2 -/

theorem ev2Derive_nonmaster (segwit : Bool) (master : Node) (c i : Nat) (h : master.depth > 0) :
    ev2Derive segwit master c i = .error .value := by
  unfold ev2Derive
  dsimp only
  rw [if_pos h]; rfl

theorem ev2Derive_standard_eq (master : Node) (c i : Nat) (h : master.depth = 0) :
    ev2Derive false master c i =
      if c > 2 ^ 32 - 1 ∨ i > 2 ^ 32 - 1 then .error .path
      else slip10ChildKey master c >>= fun x => slip10ChildKey x i := by
  unfold ev2Derive
  dsimp only
  rw [if_neg (by omega)]
  simp only [Bool.false_eq_true, if_false, bind, Except.bind, pure, Except.pure]
  have hd : ((decide (c > 2 ^ 32 - 1) || decide (i > 2 ^ 32 - 1)) = true) ↔
      (c > 2 ^ 32 - 1 ∨ i > 2 ^ 32 - 1) := by
    simp only [Bool.or_eq_true, decide_eq_true_eq]
  by_cases hr : c > 2 ^ 32 - 1 ∨ i > 2 ^ 32 - 1
  · rw [if_pos hr, if_pos (hd.mpr hr)]; rfl
  · rw [if_neg hr, if_neg (fun h => hr (hd.mp h))]

theorem ev2Derive_segwit_eq (master : Node) (c i : Nat) (h : master.depth = 0) :
    ev2Derive true master c i =
      slip10ChildKey master (harden 0) >>= fun a =>
        if c > 2 ^ 32 - 1 ∨ i > 2 ^ 32 - 1 then .error .path
        else slip10ChildKey a c >>= fun x => slip10ChildKey x i := by
  unfold ev2Derive
  dsimp only
  rw [if_neg (by omega)]
  simp only [if_true, bind, Except.bind, pure, Except.pure]
  cases slip10ChildKey master (harden 0) with
  | error e => rfl
  | ok a =>
    dsimp only
    have hd : ((decide (c > 2 ^ 32 - 1) || decide (i > 2 ^ 32 - 1)) = true) ↔
        (c > 2 ^ 32 - 1 ∨ i > 2 ^ 32 - 1) := by
      simp only [Bool.or_eq_true, decide_eq_true_eq]
    by_cases hr : c > 2 ^ 32 - 1 ∨ i > 2 ^ 32 - 1
    · rw [if_pos hr, if_pos (hd.mpr hr)]; rfl
    · rw [if_neg hr, if_neg (fun h => hr (hd.mp h))]

/-! ### PDA search -/

theorem createPda_eq (seeds : List Bytes) (p : Bytes) :
    createPda seeds p =
      if pubValid .ed25519 (Prim.sha256 (seeds.flatten ++ p ++ "ProgramDerivedAddress".toUTF8.toList)) = true
      then none
      else some (Prim.sha256 (seeds.flatten ++ p ++ "ProgramDerivedAddress".toUTF8.toList)) := rfl

theorem createPda_some {seeds : List Bytes} {p d : Bytes} (h : createPda seeds p = some d) :
    pubValid .ed25519 d = false ∧ d.length = 32 ∧
      d = Prim.sha256 (seeds.flatten ++ p ++ "ProgramDerivedAddress".toUTF8.toList) := by
  rw [createPda_eq] at h
  split at h
  · cases h
  · rename_i hv
    cases Option.some.inj h
    exact ⟨by simpa using hv, sha256_length _, rfl⟩

/-- the loop with `fuel ≤ bump + 1`… tries bumps `bump, bump-1, …, bump-fuel+1` in this order and
stops at the first off-curve digest -/
theorem findPdaLoop_ok {seeds : List Bytes} {p : Bytes} :
    ∀ {fuel bump : Nat} {d : Bytes}, fuel ≤ bump → findPdaLoop seeds p fuel bump = .ok d →
      ∃ b, bump - fuel < b ∧ b ≤ bump ∧ createPda (seeds ++ [toBytesAuto b]) p = some d ∧
        ∀ b', b < b' → b' ≤ bump → createPda (seeds ++ [toBytesAuto b']) p = none
  | 0, _, _, _, h => by cases h
  | fuel+1, bump, d, hle, h => by
    unfold findPdaLoop at h
    cases hc : createPda (seeds ++ [toBytesAuto bump]) p with
    | some d' =>
      rw [hc] at h
      cases Except.ok.inj h
      exact ⟨bump, by omega, Nat.le_refl _, hc, fun b' h1 h2 => by omega⟩
    | none =>
      rw [hc] at h
      dsimp only at h
      obtain ⟨b, hb1, hb2, hb3, hb4⟩ := findPdaLoop_ok (fuel := fuel) (bump := bump - 1) (by omega) h
      refine ⟨b, by omega, by omega, hb3, fun b' h1 h2 => ?_⟩
      by_cases hb' : b' = bump
      · rw [hb']; exact hc
      · exact hb4 b' h1 (by omega)

theorem findPdaLoop_error {seeds : List Bytes} {p : Bytes} :
    ∀ {fuel bump : Nat} {e : Err}, findPdaLoop seeds p fuel bump = .error e → e = .value
  | 0, _, _, h => (Except.error.inj h).symm
  | fuel+1, bump, e, h => by
    unfold findPdaLoop at h
    cases hc : createPda (seeds ++ [toBytesAuto bump]) p with
    | some d' => rw [hc] at h; cases h
    | none => rw [hc] at h; exact findPdaLoop_error h

/-- the loop fails iff every tried bump gives an on-curve digest -/
theorem findPdaLoop_error_iff {seeds : List Bytes} {p : Bytes} :
    ∀ (fuel bump : Nat), fuel ≤ bump →
      (findPdaLoop seeds p fuel bump = .error .value ↔
        ∀ b, bump - fuel < b → b ≤ bump → createPda (seeds ++ [toBytesAuto b]) p = none)
  | 0, bump, _ => by
    constructor
    · intro _ b h1 h2; omega
    · intro _; rfl
  | fuel+1, bump, hle => by
    unfold findPdaLoop
    cases hc : createPda (seeds ++ [toBytesAuto bump]) p with
    | some d' =>
      dsimp only
      constructor
      · intro h; cases h
      · intro h
        have := h bump (by omega) (Nat.le_refl _)
        rw [hc] at this; cases this
    | none =>
      dsimp only
      rw [findPdaLoop_error_iff fuel (bump - 1) (by omega)]
      constructor
      · intro h b h1 h2
        by_cases hb : b = bump
        · rw [hb]; exact hc
        · exact h b (by omega) (by omega)
      · intro h b h1 h2
        exact h b (by omega) (by omega)

theorem findPda_eq (seeds : List Bytes) (prog : List Char) :
    findPda seeds prog =
      if seeds.length > 16 then .error .value
      else if seeds.any (fun s => s.length > 32) = true then .error .value
      else match solDecode prog with
        | .error e => .error e
        | .ok pb => match findPdaLoop seeds pb 255 255 with
          | .error e => .error e
          | .ok d => .ok (b58Encode btcAlphabet d) := by
  unfold findPda
  dsimp only
  by_cases h1 : seeds.length > 16
  · rw [if_pos h1, if_pos h1]; rfl
  · rw [if_neg h1, if_neg h1]
    by_cases h2 : seeds.any (fun s => decide (s.length > 32)) = true
    · rw [if_pos h2, if_pos h2]; rfl
    · rw [if_neg h2, if_neg h2]
      simp only [bind, Except.bind, pure, Except.pure]
      cases solDecode prog with
      | error e => rfl
      | ok pb =>
        dsimp only
        cases findPdaLoop seeds pb 255 255 <;> rfl

/-- for bumps below 256 the bump seed is the single byte `bump` -/
theorem toBytesAuto_byte (b : Nat) (h : b < 256) : toBytesAuto b = [UInt8.ofNat b] := by
  by_cases h0 : b = 0
  · subst h0; exact toBytesAuto_zero
  · rw [toBytesAuto_of_ne_zero h0]
    unfold natToBytesMin
    rw [digitsBE, dif_neg (by omega), digitsBE, dif_pos (Or.inl (by omega))]
    simp [Nat.mod_eq_of_lt h]

end BipVerif.Model.ElectrumLemmas
