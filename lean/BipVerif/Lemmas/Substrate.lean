/-
Substrate lemmas for C19: path tokeniser / printer round trips, junction chain codes, derivation
with the sr25519 oracle, SS58 addresses.  The sr25519 operations and BLAKE2b are opaque.
-/
import BipVerif.Model.Substrate
import BipVerif.Lemmas.IntBytes
import BipVerif.Lemmas.Bech32
import BipVerif.Lemmas.Scale
import BipVerif.Lemmas.SS58
import BipVerif.Lemmas.Path
import BipVerif.Lemmas.Slip10

namespace BipVerif.Model.SubstrateLemmas
open BipVerif BipVerif.Prim BipVerif.Model

/-! ## list helpers -/

theorem takeWhile_append_stop {α} (p : α → Bool) (a b : List α) (ha : ∀ x ∈ a, p x = true)
    (hb : ∀ x, b.head? = some x → p x = false) : (a ++ b).takeWhile p = a := by
  induction a with
  | nil =>
    cases b with
    | nil => rfl
    | cons y t => simp [hb y rfl]
  | cons x t ih =>
    rw [List.cons_append, List.takeWhile_cons, ha x (by simp)]
    simp only [if_true]
    rw [ih (fun y hy => ha y (by simp [hy]))]

theorem dropWhile_append_stop {α} (p : α → Bool) (a b : List α) (ha : ∀ x ∈ a, p x = true)
    (hb : ∀ x, b.head? = some x → p x = false) : (a ++ b).dropWhile p = b := by
  induction a with
  | nil =>
    cases b with
    | nil => rfl
    | cons y t => simp [hb y rfl]
  | cons x t ih =>
    rw [List.cons_append, List.dropWhile_cons, ha x (by simp)]
    simp only [if_true]
    exact ih (fun y hy => ha y (by simp [hy]))

/-! ## printing -/

/-- the slashes a junction is printed with -/
def slashes (hard : Bool) : List Char := if hard then ['/', '/'] else ['/']

theorem subPrintElem_eq (e : SubElem) : subPrintElem e = slashes e.hard ++ e.text := rfl

theorem subPrintPath_nil : subPrintPath [] = [] := rfl
theorem subPrintPath_cons (e : SubElem) (p : List SubElem) :
    subPrintPath (e :: p) = subPrintElem e ++ subPrintPath p := by
  unfold subPrintPath; simp

theorem slashes_all (h : Bool) : ∀ c ∈ slashes h, c = '/' := by
  cases h <;> simp [slashes]

theorem slashes_ne_nil (h : Bool) : slashes h ≠ [] := by cases h <;> simp [slashes]

theorem slashes_length (h : Bool) : (slashes h).length = if h then 2 else 1 := by cases h <;> rfl

theorem subPrintElem_head (e : SubElem) : (subPrintElem e).head? = some '/' := by
  rw [subPrintElem_eq]; cases e.hard <;> rfl

theorem subPrintPath_head (p : List SubElem) : ∀ x, (subPrintPath p).head? = some x → x = '/' := by
  intro x hx
  cases p with
  | nil => simp [subPrintPath_nil] at hx
  | cons e t =>
    rw [subPrintPath_cons, subPrintElem_eq, List.append_assoc] at hx
    cases hh : e.hard <;> simp [hh, slashes] at hx <;> exact hx.symm

/-- admissible junction: non-empty text without slashes -/
def GoodElem (e : SubElem) : Prop := e.text ≠ [] ∧ '/' ∉ e.text

/-! ## the tokeniser on printed paths -/

theorem go_succ (fuel : Nat) (s : List Char) (acc : List (List Char)) :
    subTokens.go (fuel + 1) s acc =
      if (s.dropWhile (· ≠ '/')).isEmpty then acc.reverse
      else if (((s.dropWhile (· ≠ '/')).dropWhile (· == '/')).takeWhile (· ≠ '/')).isEmpty then acc.reverse
      else subTokens.go fuel (((s.dropWhile (· ≠ '/')).dropWhile (· == '/')).dropWhile (· ≠ '/'))
        (((s.dropWhile (· ≠ '/')).takeWhile (· == '/') ++
          ((s.dropWhile (· ≠ '/')).dropWhile (· == '/')).takeWhile (· ≠ '/')) :: acc) := by
  rw [subTokens.go]

theorem go_nil (fuel : Nat) (acc : List (List Char)) : subTokens.go fuel [] acc = acc.reverse := by
  cases fuel with
  | zero => rfl
  | succ n => rw [go_succ]; rfl

/-- one printed junction followed by a printed path: the tokeniser peels off exactly the junction -/
theorem go_print_step (fuel : Nat) (e : SubElem) (he : GoodElem e) (p : List SubElem)
    (acc : List (List Char)) :
    subTokens.go (fuel + 1) (subPrintElem e ++ subPrintPath p) acc =
      subTokens.go fuel (subPrintPath p) (subPrintElem e :: acc) := by
  obtain ⟨hne, hns⟩ := he
  have hR := subPrintPath_head p
  have hs0 : (subPrintElem e ++ subPrintPath p).dropWhile (· ≠ '/') = subPrintElem e ++ subPrintPath p := by
    have := subPrintElem_head e
    cases hpe : subPrintElem e with
    | nil => rw [hpe] at this; simp at this
    | cons c t =>
      rw [hpe] at this
      simp only [List.head?_cons, Option.some.injEq] at this
      subst this
      simp
  have htext_all : ∀ c ∈ e.text, (decide (c ≠ '/')) = true := by
    intro c hc; simp only [ne_eq, decide_not, Bool.not_eq_eq_eq_not, Bool.not_true, decide_eq_false_iff_not]
    intro h; exact hns (h ▸ hc)
  have htext_head : ∀ x, (e.text ++ subPrintPath p).head? = some x → (x == '/') = false := by
    intro x hx
    cases ht : e.text with
    | nil => exact absurd ht hne
    | cons c t =>
      rw [ht] at hx; simp only [List.cons_append, List.head?_cons, Option.some.injEq] at hx
      subst hx
      simp only [beq_eq_false_iff_ne, ne_eq]
      intro h; exact hns (by rw [ht, h]; simp)
  have hR' : ∀ x, (subPrintPath p).head? = some x → (decide (x ≠ '/')) = false := by
    intro x hx; simp [hR x hx]
  have hsl_all : ∀ c ∈ slashes e.hard, (c == '/') = true := by
    intro c hc; simp [slashes_all _ c hc]
  have e1 : (subPrintElem e ++ subPrintPath p).takeWhile (· == '/') = slashes e.hard := by
    rw [subPrintElem_eq, List.append_assoc]
    exact takeWhile_append_stop _ _ _ hsl_all htext_head
  have e2 : (subPrintElem e ++ subPrintPath p).dropWhile (· == '/') = e.text ++ subPrintPath p := by
    rw [subPrintElem_eq, List.append_assoc]
    exact dropWhile_append_stop _ _ _ hsl_all htext_head
  have e3 : (e.text ++ subPrintPath p).takeWhile (· ≠ '/') = e.text :=
    takeWhile_append_stop _ _ _ htext_all hR'
  have e4 : (e.text ++ subPrintPath p).dropWhile (· ≠ '/') = subPrintPath p :=
    dropWhile_append_stop _ _ _ htext_all hR'
  rw [go_succ, hs0, e1, e2, e3, e4]
  have n1 : (subPrintElem e ++ subPrintPath p).isEmpty = false := by
    rw [subPrintElem_eq]; cases hh : e.hard <;> simp [slashes]
  have n2 : e.text.isEmpty = false := by
    cases ht : e.text with
    | nil => exact absurd ht hne
    | cons c t => rfl
  rw [n1, n2]
  simp only [Bool.false_eq_true, if_false]
  rfl

theorem go_print (p : List SubElem) (hp : ∀ e ∈ p, GoodElem e) (fuel : Nat) (hf : p.length < fuel)
    (acc : List (List Char)) :
    subTokens.go fuel (subPrintPath p) acc = acc.reverse ++ p.map subPrintElem := by
  induction p generalizing fuel acc with
  | nil => rw [subPrintPath_nil, go_nil]; simp
  | cons e t ih =>
    cases fuel with
    | zero => simp at hf
    | succ n =>
      rw [subPrintPath_cons, go_print_step n e (hp e (by simp)) t acc,
        ih (fun x hx => hp x (by simp [hx])) n (by simpa using hf)]
      simp

theorem length_le_subPrintPath (p : List SubElem) : p.length ≤ (subPrintPath p).length := by
  induction p with
  | nil => simp
  | cons e t ih =>
    rw [subPrintPath_cons, List.length_append, subPrintElem_eq, List.length_append, slashes_length]
    simp only [List.length_cons]
    split <;> omega

theorem subTokens_print (p : List SubElem) (hp : ∀ e ∈ p, GoodElem e) :
    subTokens (subPrintPath p) = p.map subPrintElem := by
  unfold subTokens
  rw [go_print p hp _ (by have := length_le_subPrintPath p; omega)]
  rfl

/-! ## `subElemOf` on a token `/…/body` -/

theorem subElemOf_shape (n : Nat) (body : List Char) (hn : 1 ≤ n) (hb : body ≠ []) (hs : '/' ∉ body) :
    subElemOf (List.replicate n '/' ++ body) =
      if n ≤ 2 then .ok { text := body, hard := decide (n ≥ 2) } else .error .path := by
  have hbody_head : ∀ x, body.head? = some x → (x == '/') = false := by
    intro x hx
    cases body with
    | nil => simp at hx
    | cons c t =>
      simp only [List.head?_cons, Option.some.injEq] at hx; subst hx
      simp only [beq_eq_false_iff_ne, ne_eq]; intro h; exact hs (by rw [h]; simp)
  have h1 : (List.replicate n '/' ++ body).takeWhile (· == '/') = List.replicate n '/' :=
    takeWhile_append_stop _ _ _ (by intro c hc; simp [(List.mem_replicate.mp hc).2]) hbody_head
  have h2 : (List.replicate n '/' ++ body).filter (· ≠ '/') = body := by
    rw [List.filter_append]
    have : (List.replicate n '/').filter (· ≠ '/') = [] := by
      rw [List.filter_eq_nil_iff]; intro c hc; simp [(List.mem_replicate.mp hc).2]
    rw [this, List.nil_append, List.filter_eq_self]
    intro c hc; simp only [ne_eq, decide_not, Bool.not_eq_eq_eq_not, Bool.not_true,
      decide_eq_false_iff_not]
    intro h; exact hs (h ▸ hc)
  have h3 : rfind (List.replicate n '/' ++ body) '/' = some (n - 1) := by
    obtain ⟨m, rfl⟩ : ∃ m, n = m + 1 := ⟨n - 1, by omega⟩
    rw [List.replicate_succ']
    have := rfind_append '/' (List.replicate m '/') body hs
    rw [this]; simp
  unfold subElemOf
  simp only [h1, h2, h3, List.length_replicate, Option.getD_some]
  have hbe : body.isEmpty = false := by
    cases body with
    | nil => exact absurd rfl hb
    | cons c t => rfl
  by_cases h2' : n ≤ 2
  · have : n - 1 < 2 := by omega
    simp [hn, this, hbe, h2']
    rfl
  · have : ¬ n - 1 < 2 := by omega
    simp [this, h2']
    rfl

theorem slashes_eq_replicate (h : Bool) : slashes h = List.replicate (if h then 2 else 1) '/' := by
  cases h <;> rfl

theorem subElemOf_print (e : SubElem) (he : GoodElem e) : subElemOf (subPrintElem e) = .ok e := by
  rw [subPrintElem_eq, slashes_eq_replicate,
    subElemOf_shape _ _ (by split <;> omega) he.1 he.2]
  cases e with
  | mk text hard => cases hard <;> simp

theorem mapM_subElemOf_print (p : List SubElem) (hp : ∀ e ∈ p, GoodElem e) :
    (p.map subPrintElem).mapM subElemOf = .ok p := by
  induction p with
  | nil => rfl
  | cons e t ih =>
    rw [List.map_cons, List.mapM_cons, subElemOf_print e (hp e (by simp)),
      ih (fun x hx => hp x (by simp [hx]))]
    rfl

/-- **parse_print** -/
theorem parse_print (p : List SubElem) (hp : ∀ e ∈ p, GoodElem e) :
    subParsePath (subPrintPath p) = .ok p := by
  unfold subParsePath
  have hhead : ¬ ((!(subPrintPath p).isEmpty && decide ((subPrintPath p).head? ≠ some '/')) = true) := by
    cases p with
    | nil => simp [subPrintPath_nil]
    | cons e t =>
      rw [subPrintPath_cons]
      have := subPrintElem_head e
      cases hpe : subPrintElem e with
      | nil => rw [hpe] at this; simp at this
      | cons c r => rw [hpe] at this; simp at this; simp [this]
  have hflat : ¬ ((subTokens (subPrintPath p)).flatten ≠ subPrintPath p) := by
    rw [subTokens_print p hp]; simp [subPrintPath]
  simp only [hhead, hflat, if_false]
  rw [subTokens_print p hp]
  exact mapM_subElemOf_print p hp

/-! ## the shape of tokens, `print_parse` -/

/-- what `re.findall(r"\/+[^/]+")` returns: at least one slash, then a non-empty slash-free body -/
def TokShape (t : List Char) : Prop :=
  ∃ n body, 1 ≤ n ∧ body ≠ [] ∧ '/' ∉ body ∧ t = List.replicate n '/' ++ body

theorem mem_takeWhile_imp' {α} (p : α → Bool) (l : List α) (x : α) (h : x ∈ l.takeWhile p) : p x = true := by
  induction l with
  | nil => simp at h
  | cons a t ih =>
    rw [List.takeWhile_cons] at h
    split at h
    · next hp =>
      rcases List.mem_cons.mp h with rfl | h'
      · exact hp
      · exact ih h'
    · simp at h

theorem takeWhile_ne_nil_of_head {α} (p : α → Bool) (l : List α) (x : α) (h : l.head? = some x)
    (hp : p x = true) : l.takeWhile p ≠ [] := by
  cases l with
  | nil => simp at h
  | cons a t =>
    simp only [List.head?_cons, Option.some.injEq] at h; subst h
    rw [List.takeWhile_cons, hp]; simp

theorem tokShape_of_step (s : List Char)
    (h1 : (s.dropWhile (· ≠ '/')).isEmpty = false)
    (h2 : (((s.dropWhile (· ≠ '/')).dropWhile (· == '/')).takeWhile (· ≠ '/')).isEmpty = false) :
    TokShape ((s.dropWhile (· ≠ '/')).takeWhile (· == '/') ++
          ((s.dropWhile (· ≠ '/')).dropWhile (· == '/')).takeWhile (· ≠ '/')) := by
  set s' := s.dropWhile (· ≠ '/') with hs'
  set body := (s'.dropWhile (· == '/')).takeWhile (· ≠ '/') with hbody
  refine ⟨(s'.takeWhile (· == '/')).length, body, ?_, ?_, ?_, ?_⟩
  · have hne : s' ≠ [] := by intro h; rw [h] at h1; simp at h1
    have hh := List.head?_dropWhile_not (· ≠ '/') s
    rw [← hs'] at hh
    cases hs : s' with
    | nil => exact absurd hs hne
    | cons c t =>
      rw [hs] at hh
      simp only [List.head?_cons, ne_eq, decide_not, Bool.not_eq_eq_eq_not, Bool.not_false,
        decide_eq_true_eq] at hh
      subst hh
      simp
  · intro h; rw [h] at h2; simp at h2
  · intro h
    have := mem_takeWhile_imp' _ _ _ h
    simp at this
  · congr 1
    rw [List.eq_replicate_iff]
    refine ⟨rfl, fun b hb => ?_⟩
    have := mem_takeWhile_imp' _ _ _ hb
    simpa using this

theorem go_shape (fuel : Nat) (s : List Char) (acc : List (List Char)) (hacc : ∀ t ∈ acc, TokShape t) :
    ∀ t ∈ subTokens.go fuel s acc, TokShape t := by
  induction fuel generalizing s acc with
  | zero => intro t ht; exact hacc t (by simpa [subTokens.go] using ht)
  | succ n ih =>
    rw [go_succ]
    split
    · intro t ht; exact hacc t (by simpa using ht)
    · next h1 =>
      split
      · intro t ht; exact hacc t (by simpa using ht)
      · next h2 =>
        apply ih
        intro t ht
        rcases List.mem_cons.mp ht with rfl | h'
        · exact tokShape_of_step s (by simpa using h1) (by simpa using h2)
        · exact hacc t h'

theorem subTokens_shape (s : List Char) : ∀ t ∈ subTokens s, TokShape t :=
  go_shape _ s [] (by simp)

/-- on a token, `SubstratePathElem(tok)` succeeds only for one or two slashes, and then printing
the element gives the token back; the element's text is non-empty and slash-free -/
theorem subElemOf_ok_of_shape (t : List Char) (ht : TokShape t) (e : SubElem) (h : subElemOf t = .ok e) :
    subPrintElem e = t ∧ GoodElem e := by
  obtain ⟨n, body, hn, hb, hs, rfl⟩ := ht
  rw [subElemOf_shape n body hn hb hs] at h
  split at h
  · next h2 =>
    cases h
    refine ⟨?_, hb, hs⟩
    rw [subPrintElem_eq, slashes_eq_replicate]
    simp only
    congr 2
    by_cases h' : n ≥ 2
    · simp [h']; omega
    · simp [h']; omega
  · cases h

theorem subElemOf_error (t : List Char) (e : Err) (h : subElemOf t = .error e) : e = .path := by
  unfold subElemOf at h
  simp only at h
  split at h
  · cases h
  · cases h; rfl

theorem mapM_subElemOf_ok (toks : List (List Char)) (ht : ∀ t ∈ toks, TokShape t) (p : List SubElem)
    (h : toks.mapM subElemOf = .ok p) : p.map subPrintElem = toks ∧ ∀ e ∈ p, GoodElem e := by
  induction toks generalizing p with
  | nil => rw [List.mapM_nil] at h; cases h; simp
  | cons t ts ih =>
    rw [List.mapM_cons] at h
    obtain ⟨e, he, h⟩ := (Slip10.bind_ok_iff _ _ _).mp h
    obtain ⟨es, hes, h⟩ := (Slip10.bind_ok_iff _ _ _).mp h
    cases h
    obtain ⟨a, b⟩ := subElemOf_ok_of_shape t (ht t (by simp)) e he
    obtain ⟨c, d⟩ := ih (fun x hx => ht x (by simp [hx])) es hes
    refine ⟨by rw [List.map_cons, a, c], ?_⟩
    intro x hx
    rcases List.mem_cons.mp hx with rfl | hx'
    · exact b
    · exact d x hx'

theorem subParsePath_eq (s : List Char) :
    subParsePath s =
      if (!s.isEmpty && decide (s.head? ≠ some '/')) = true then .error .path
      else if (subTokens s).flatten ≠ s then .error .path
      else (subTokens s).mapM subElemOf := by
  unfold subParsePath
  by_cases h1 : (!s.isEmpty && decide (s.head? ≠ some '/')) = true
  · simp only [h1, if_true]; rfl
  · by_cases h2 : (subTokens s).flatten = s
    · simp only [h1, h2, ne_eq, not_true_eq_false, if_false]; rfl
    · simp only [h1, h2, ne_eq, not_false_eq_true, if_true]; rfl

theorem subParsePath_ok (s : List Char) (p : List SubElem) (h : subParsePath s = .ok p) :
    (subTokens s).flatten = s ∧ (subTokens s).mapM subElemOf = .ok p := by
  rw [subParsePath_eq] at h
  split at h
  · cases h
  · split at h
    · cases h
    · next hflat => exact ⟨by simpa using hflat, h⟩

/-- **print_parse**: an accepted string is the printed form of its parse -/
theorem print_parse (s : List Char) (p : List SubElem) (h : subParsePath s = .ok p) :
    subPrintPath p = s ∧ ∀ e ∈ p, GoodElem e := by
  obtain ⟨hflat, hmap⟩ := subParsePath_ok s p h
  obtain ⟨a, b⟩ := mapM_subElemOf_ok _ (subTokens_shape s) p hmap
  refine ⟨?_, b⟩
  unfold subPrintPath; rw [a, hflat]

/-- **parse_error_kind** -/
theorem parse_error_kind (s : List Char) (e : Err) (h : subParsePath s = .error e) : e = .path := by
  rw [subParsePath_eq] at h
  split at h
  · cases h; rfl
  · split at h
    · cases h; rfl
    · exact mapM_error_of (P := fun e => e = .path) subElemOf_error _ h

/-- accepted strings are exactly the printed forms of admissible paths -/
theorem parse_ok_iff (s : List Char) (p : List SubElem) :
    subParsePath s = .ok p ↔ subPrintPath p = s ∧ ∀ e ∈ p, GoodElem e := by
  constructor
  · exact print_parse s p
  · rintro ⟨rfl, hp⟩; exact parse_print p hp

/-! ## junction chain codes -/

/-- final step of `ChainCode()`: hash if longer than 32 bytes, else zero-pad to 32 -/
def ccPad (enc : Bytes) : Bytes :=
  if enc.length > 32 then blake2b256 enc else enc ++ List.replicate (32 - enc.length) 0

theorem ccPad_length (enc : Bytes) : (ccPad enc).length = 32 := by
  unfold ccPad
  split
  · exact blake2b256_length _
  · rw [List.length_append, List.length_replicate]; omega

/-- `int.bit_length()` as the model computes it -/
def bitLen (v : Nat) : Nat := if v = 0 then 0 else Nat.log2 v + 1

/-- the integer width (`U8` … `U256`) picked for a numeric junction -/
def subWidth (v : Nat) : R Nat :=
  if bitLen v ≤ 8 then pure 1 else if bitLen v ≤ 16 then pure 2 else if bitLen v ≤ 32 then pure 4
  else if bitLen v ≤ 64 then pure 8 else if bitLen v ≤ 128 then pure 16 else if bitLen v ≤ 256 then pure 32
  else throw Err.path

theorem subChainCode_eq (e : SubElem) :
    subChainCode e =
      (match parseDecimal e.text with
        | some v => subWidth v >>= fun w => scaleUint v w
        | none => scaleBytes (String.ofList e.text).toUTF8.toList) >>= fun enc => .ok (ccPad enc) := by
  unfold subChainCode subWidth bitLen ccPad
  cases parseDecimal e.text with
  | none =>
    simp only [bind, Except.bind, pure, Except.pure]
    cases scaleBytes (String.ofList e.text).toUTF8.toList with
    | error err => rfl
    | ok enc => simp only []; split <;> rfl
  | some v =>
    simp only [bind, Except.bind, pure, Except.pure]
    split_ifs <;> first
      | rfl
      | (simp only []
         cases scaleUint v _ with
         | error err => rfl
         | ok enc => simp only []; split <;> rfl)

/-- **chainCode_length** -/
theorem chainCode_length (e : SubElem) (cc : Bytes) (h : subChainCode e = .ok cc) : cc.length = 32 := by
  rw [subChainCode_eq] at h
  obtain ⟨enc, _, h⟩ := (Slip10.bind_ok_iff _ _ _).mp h
  cases h; exact ccPad_length enc

theorem bitLen_le_iff (v k : Nat) : bitLen v ≤ k ↔ v < 2 ^ k := by
  unfold bitLen
  by_cases hv : v = 0
  · subst hv; simp
  · rw [if_neg hv]
    have := Nat.log2_lt (n := v) (k := k) hv
    omega

theorem toNatLE_append (a b : Bytes) :
    Bytes.toNatLE (a ++ b) = Bytes.toNatLE a + 256 ^ a.length * Bytes.toNatLE b := by
  unfold Bytes.toNatLE
  rw [List.reverse_append, toNatBE_append, List.length_reverse]; ring

theorem toNatLE_replicate_zero (n : Nat) : Bytes.toNatLE (List.replicate n 0) = 0 := by
  unfold Bytes.toNatLE; rw [List.reverse_replicate]; exact toNatBE_replicate_zero n

/-- zero padding on the right does not change the little-endian value: the padded fixed-width
encoding is the 32-byte encoding -/
theorem pad_eq_ofNatLE (b : Bytes) (hb : b.length ≤ 32) :
    b ++ List.replicate (32 - b.length) 0 = Bytes.ofNatLE 32 (Bytes.toNatLE b) := by
  apply toNatLE_inj_of_length_eq
  · rw [List.length_append, List.length_replicate, length_ofNatLE]; omega
  · rw [toNatLE_append, toNatLE_replicate_zero, Nat.mul_zero, Nat.add_zero, toNatLE_ofNatLE]
    exact Nat.lt_of_lt_of_le (toNatLE_lt b) (Nat.pow_le_pow_right (by norm_num) hb)

theorem subWidth_ok (v : Nat) (h : v < 2 ^ 256) :
    ∃ w, subWidth v = .ok w ∧ v < 256 ^ w ∧ w ≤ 32 ∧ w ∈ [1, 2, 4, 8, 16, 32] := by
  unfold subWidth
  simp only [bitLen_le_iff]
  split_ifs with h1 h2 h3 h4 h5
  · exact ⟨1, rfl, by norm_num; omega, by norm_num, by simp⟩
  · exact ⟨2, rfl, by norm_num; omega, by norm_num, by simp⟩
  · exact ⟨4, rfl, by norm_num; omega, by norm_num, by simp⟩
  · exact ⟨8, rfl, by norm_num; omega, by norm_num, by simp⟩
  · exact ⟨16, rfl, by norm_num; omega, by norm_num, by simp⟩
  · exact ⟨32, rfl, by norm_num; omega, by norm_num, by simp⟩

theorem subWidth_error (v : Nat) (h : 2 ^ 256 ≤ v) : subWidth v = .error .path := by
  unfold subWidth
  simp only [bitLen_le_iff]
  have : ¬ v < 2 ^ 8 := by omega
  have : ¬ v < 2 ^ 16 := by omega
  have : ¬ v < 2 ^ 32 := by omega
  have : ¬ v < 2 ^ 64 := by omega
  have : ¬ v < 2 ^ 128 := by omega
  have : ¬ v < 2 ^ 256 := by omega
  simp only [*, if_false]; rfl

/-- **numeric_cc_width_independent**: whichever of `U8 … U256` is chosen, the chain code of a
numeric junction is the 32-byte little-endian integer -/
theorem numeric_cc_width_independent (e : SubElem) (v : Nat) (hp : parseDecimal e.text = some v)
    (hv : v < 2 ^ 256) : subChainCode e = .ok (Bytes.ofNatLE 32 v) := by
  rw [subChainCode_eq, hp]
  obtain ⟨w, hw, hlt, hw32, _⟩ := subWidth_ok v hv
  obtain ⟨b, hb, hbl, hbv⟩ := scaleUint_roundtrip hlt
  simp only [hw, Slip10.bind_ok, hb]
  unfold ccPad
  rw [if_neg (by omega), pad_eq_ofNatLE b (by omega), hbv]

/-- **numeric_too_large_refused** -/
theorem numeric_too_large_refused (e : SubElem) (v : Nat) (hp : parseDecimal e.text = some v)
    (hv : 2 ^ 256 ≤ v) : subChainCode e = .error .path := by
  rw [subChainCode_eq, hp]
  simp only [subWidth_error v hv]
  rfl

/-- **text_cc_spec**: a non-numeric junction is SCALE-encoded as a byte string
(`compact(len) ‖ utf8`), then padded or hashed -/
theorem text_cc_spec (e : SubElem) (hp : parseDecimal e.text = none) :
    subChainCode e =
      (scaleCompact (String.ofList e.text).toUTF8.toList.length >>= fun c =>
        .ok (if c.length + (String.ofList e.text).toUTF8.toList.length ≤ 32
             then c ++ (String.ofList e.text).toUTF8.toList ++
               List.replicate (32 - (c.length + (String.ofList e.text).toUTF8.toList.length)) 0
             else blake2b256 (c ++ (String.ofList e.text).toUTF8.toList))) := by
  rw [subChainCode_eq, hp]
  unfold scaleBytes
  simp only [bind, Except.bind, pure, Except.pure]
  cases scaleCompact (String.ofList e.text).toUTF8.toList.length with
  | error err => rfl
  | ok c =>
    simp only [ccPad, List.length_append]
    by_cases h : c.length + (String.ofList e.text).toUTF8.toList.length ≤ 32
    · rw [if_neg (by omega), if_pos h]
    · rw [if_pos (by omega), if_neg h]

/-- short texts (UTF-8 length ≤ 31): one compact length byte `4·len`, the text, zero padding -/
theorem text_cc_short (e : SubElem) (hp : parseDecimal e.text = none)
    (hl : (String.ofList e.text).toUTF8.toList.length ≤ 31) :
    subChainCode e =
      .ok (UInt8.ofNat (4 * (String.ofList e.text).toUTF8.toList.length) ::
        (String.ofList e.text).toUTF8.toList ++
          List.replicate (31 - (String.ofList e.text).toUTF8.toList.length) 0) := by
  rw [text_cc_spec e hp, scaleCompact_mode0 (by omega)]
  simp only [Slip10.bind_ok, List.length_cons, List.length_nil]
  rw [if_pos (by omega)]
  congr 3
  omega

/-- long texts (UTF-8 length ≥ 32): BLAKE2b-256 of the SCALE encoding -/
theorem text_cc_long (e : SubElem) (hp : parseDecimal e.text = none)
    (hl : 32 ≤ (String.ofList e.text).toUTF8.toList.length) (c : Bytes)
    (hc : scaleCompact (String.ofList e.text).toUTF8.toList.length = .ok c) :
    subChainCode e = .ok (blake2b256 (c ++ (String.ofList e.text).toUTF8.toList)) := by
  have hc1 : 1 ≤ c.length := by rw [scaleCompact_length hc]; split_ifs <;> omega
  rw [text_cc_spec e hp, hc]
  simp only [Slip10.bind_ok]
  rw [if_neg (by omega)]

/-- error kinds of `ChainCode()`: `SubstratePathError` for numbers `≥ 2^256`; `ValueError` only for
texts of `≥ 2^536` bytes (SCALE compact overflow) -/
theorem chainCode_error (e : SubElem) (err : Err) (h : subChainCode e = .error err) :
    (err = .path ∧ ∃ v, parseDecimal e.text = some v ∧ 2 ^ 256 ≤ v) ∨
    (err = .value ∧ parseDecimal e.text = none ∧ 2 ^ 536 ≤ (String.ofList e.text).toUTF8.toList.length) := by
  cases hp : parseDecimal e.text with
  | some v =>
    left
    by_cases hv : v < 2 ^ 256
    · rw [numeric_cc_width_independent e v hp hv] at h; cases h
    · rw [numeric_too_large_refused e v hp (by omega)] at h; cases h
      exact ⟨rfl, v, rfl, by omega⟩
  | none =>
    right
    rw [text_cc_spec e hp] at h
    rcases (Slip10.bind_error_iff _ _ _).mp h with h1 | ⟨c, _, h2⟩
    · by_cases hb : (String.ofList e.text).toUTF8.toList.length < 2 ^ 536
      · obtain ⟨b, hb'⟩ := (scaleCompact_ok_iff _).mpr hb
        rw [hb'] at h1; cases h1
      · rw [scaleCompact_error (by omega)] at h1; cases h1
        exact ⟨rfl, rfl, by omega⟩
    · cases h2

/-! ## derivation -/

/-- **derive_append** -/
theorem derive_append (o : Oracle) (nd : SubNode) (p q : List SubElem) :
    subDerivePath o nd (p ++ q) = subDerivePath o nd p >>= fun x => subDerivePath o x q := by
  unfold subDerivePath; rw [List.foldlM_append]

theorem derive_nil (o : Oracle) (nd : SubNode) : subDerivePath o nd [] = .ok nd := rfl

theorem derive_cons (o : Oracle) (nd : SubNode) (e : SubElem) (p : List SubElem) :
    subDerivePath o nd (e :: p) = subChildKey o nd e >>= fun x => subDerivePath o x p := by
  unfold subDerivePath; rw [List.foldlM_cons]

/-- **hard_refused_on_public** -/
theorem hard_refused_on_public (o : Oracle) (nd : SubNode) (e : SubElem) (hp : nd.priv = none)
    (hh : e.hard = true) : subChildKey o nd e = .error .key := by
  unfold subChildKey; rw [hp]; simp only [hh, if_true]; rfl

theorem askOr_eq (o : Oracle) (fn : String) (inp : Bytes) :
    askOr o fn inp = match o.ask fn inp with | some b => .ok b | none => .error .oracleMiss := by
  unfold askOr; cases o.ask fn inp <;> rfl

/-- **soft_public_uses_public_oracle**: on a public-only node the soft junction only asks
`sr_softpub` with `cc ‖ pub` -/
theorem soft_public_uses_public_oracle (o : Oracle) (nd : SubNode) (e : SubElem) (hp : nd.priv = none)
    (hh : e.hard = false) :
    subChildKey o nd e =
      subChainCode e >>= fun cc => askOr o "sr_softpub" (cc ++ nd.pub) >>= fun r =>
        .ok { priv := none, pub := r, path := nd.path ++ [e] } := by
  unfold subChildKey; rw [hp]
  simp only [hh, Bool.false_eq_true, if_false, bind, Except.bind, pure, Except.pure]

/-- the private branch: `sr_hard` / `sr_soft` with `cc ‖ pub ‖ priv`, result `pub' ‖ priv'` -/
theorem childKey_private (o : Oracle) (nd : SubNode) (e : SubElem) (priv : Bytes) (hp : nd.priv = some priv) :
    subChildKey o nd e =
      subChainCode e >>= fun cc =>
        askOr o (if e.hard then "sr_hard" else "sr_soft") (cc ++ nd.pub ++ priv) >>= fun r =>
          .ok { priv := some (r.drop 32), pub := r.take 32, path := nd.path ++ [e] } := by
  unfold subChildKey; rw [hp]
  simp only [bind, Except.bind, pure, Except.pure]

/-- the oracle hypothesis: the public key of the privately soft-derived pair is what the public
soft derivation returns -/
def Sr25519SoftComm (o : Oracle) : Prop :=
  ∀ cc pub priv r, o.ask "sr_soft" (cc ++ pub ++ priv) = some r →
    o.ask "sr_softpub" (cc ++ pub) = some (r.take 32)

/-- neutered node -/
def SubNode.neuter (nd : SubNode) : SubNode := { nd with priv := none }

/-- **soft_comm**: under `Sr25519SoftComm`, soft derivation commutes with neutering -/
theorem soft_comm (o : Oracle) (ho : Sr25519SoftComm o) (nd c : SubNode) (e : SubElem) (priv : Bytes)
    (hp : nd.priv = some priv) (hh : e.hard = false) (h : subChildKey o nd e = .ok c) :
    subChildKey o (SubNode.neuter nd) e = .ok (SubNode.neuter c) := by
  rw [childKey_private o nd e priv hp] at h
  obtain ⟨cc, hcc, h⟩ := (Slip10.bind_ok_iff _ _ _).mp h
  obtain ⟨r, hr, h⟩ := (Slip10.bind_ok_iff _ _ _).mp h
  cases h
  rw [askOr_eq] at hr
  simp only [hh, Bool.false_eq_true, if_false] at hr
  cases hq : o.ask "sr_soft" (cc ++ nd.pub ++ priv) with
  | none => rw [hq] at hr; cases hr
  | some r' =>
    rw [hq] at hr; cases hr
    have := ho cc nd.pub priv r hq
    rw [soft_public_uses_public_oracle o (SubNode.neuter nd) e rfl hh, hcc]
    simp only [Slip10.bind_ok, SubNode.neuter, askOr_eq, this]

/-- the same along a whole soft path -/
theorem soft_comm_path (o : Oracle) (ho : Sr25519SoftComm o) (p : List SubElem)
    (hsoft : ∀ e ∈ p, e.hard = false) (nd c : SubNode) (priv : Bytes) (hp : nd.priv = some priv)
    (h : subDerivePath o nd p = .ok c) :
    subDerivePath o (SubNode.neuter nd) p = .ok (SubNode.neuter c) := by
  induction p generalizing nd priv with
  | nil => rw [derive_nil] at h ⊢; cases h; rfl
  | cons e t ih =>
    rw [derive_cons] at h ⊢
    obtain ⟨n1, h1, h2⟩ := (Slip10.bind_ok_iff _ _ _).mp h
    rw [soft_comm o ho nd n1 e priv hp (hsoft e (by simp)) h1, Slip10.bind_ok]
    have hn1 : ∃ q, n1.priv = some q := by
      rw [childKey_private o nd e priv hp] at h1
      obtain ⟨cc, _, h1⟩ := (Slip10.bind_ok_iff _ _ _).mp h1
      obtain ⟨r, _, h1⟩ := (Slip10.bind_ok_iff _ _ _).mp h1
      cases h1; exact ⟨_, rfl⟩
    obtain ⟨q, hq⟩ := hn1
    exact ih (fun x hx => hsoft x (by simp [hx])) n1 q hq h2

/-- the derived node records the path -/
theorem childKey_path (o : Oracle) (nd c : SubNode) (e : SubElem) (h : subChildKey o nd e = .ok c) :
    c.path = nd.path ++ [e] := by
  cases hp : nd.priv with
  | some priv =>
    rw [childKey_private o nd e priv hp] at h
    obtain ⟨cc, _, h⟩ := (Slip10.bind_ok_iff _ _ _).mp h
    obtain ⟨r, _, h⟩ := (Slip10.bind_ok_iff _ _ _).mp h
    cases h; rfl
  | none =>
    cases hh : e.hard
    · rw [soft_public_uses_public_oracle o nd e hp hh] at h
      obtain ⟨cc, _, h⟩ := (Slip10.bind_ok_iff _ _ _).mp h
      obtain ⟨r, _, h⟩ := (Slip10.bind_ok_iff _ _ _).mp h
      cases h; rfl
    · rw [hard_refused_on_public o nd e hp hh] at h; cases h

theorem derive_path (o : Oracle) (p : List SubElem) (nd c : SubNode) (h : subDerivePath o nd p = .ok c) :
    c.path = nd.path ++ p := by
  induction p generalizing nd with
  | nil => rw [derive_nil] at h; cases h; simp
  | cons e t ih =>
    rw [derive_cons] at h
    obtain ⟨n1, h1, h2⟩ := (Slip10.bind_ok_iff _ _ _).mp h
    rw [ih n1 h2, childKey_path o nd n1 e h1]; simp

/-! ## addresses -/

/-- **address_is_ss58** -/
theorem address_is_ss58 (fmt : Nat) (nd : SubNode) : subAddress fmt nd = ss58Encode blake2b512 nd.pub fmt := rfl

theorem address_decodes (fmt : Nat) (nd : SubNode) (hl : nd.pub.length = 32) (hf : fmt ≤ 16383)
    (h46 : fmt ≠ 46) (h47 : fmt ≠ 47) :
    (subAddress fmt nd >>= ss58Decode blake2b512) = .ok (fmt, nd.pub) :=
  ss58_decode_encode blake2b512 (fun x => by rw [blake2b512_length]; norm_num) nd.pub fmt hl hf h46 h47

theorem address_errors (fmt : Nat) (nd : SubNode)
    (h : nd.pub.length ≠ 32 ∨ 16383 < fmt ∨ fmt = 46 ∨ fmt = 47) :
    subAddress fmt nd = .error .value := by
  unfold subAddress ss58Encode
  by_cases h1 : nd.pub.length = 32
  · by_cases h2 : fmt > 16383
    · simp only [h1, ne_eq, not_true_eq_false, if_false, h2, if_true, bind, Except.bind]; rfl
    · have : fmt = 46 ∨ fmt = 47 := by omega
      have h3 : (fmt = 46 || fmt = 47) = true := by simpa using this
      simp only [h1, ne_eq, not_true_eq_false, if_false, h2, h3, if_true, bind, Except.bind]; rfl
  · simp only [h1, ne_eq, not_false_eq_true, if_true, bind, Except.bind]; rfl

end BipVerif.Model.SubstrateLemmas
