/-
Helper lemmas for the BIP-32 path parser/printer (`parsePath`, `printPath`, `derivePathWith`):
splitting on '/', blank stripping, decimal numerals, hardened markers, and the explicit family of
respellings of a path used by C06.
-/
import BipVerif.Model.Bip32

namespace BipVerif.Model
open BipVerif

/-! ### `splitOnChar` -/

theorem splitOnChar_go_append_sep (sep : Char) (a b cur : List Char) :
    splitOnChar.go sep (a ++ sep :: b) cur = splitOnChar.go sep a cur ++ splitOnChar.go sep b [] := by
  induction a generalizing cur with
  | nil => simp [splitOnChar.go]
  | cons c a ih =>
    by_cases h : c = sep
    · simp [splitOnChar.go, h, ih]
    · simp [splitOnChar.go, h, ih]

theorem splitOnChar_go_of_not_mem (sep : Char) (a cur : List Char) (h : sep ∉ a) :
    splitOnChar.go sep a cur = [cur.reverse ++ a] := by
  induction a generalizing cur with
  | nil => simp [splitOnChar.go]
  | cons c a ih =>
    have hc : c ≠ sep := fun e => h (by simp [e])
    have ha : sep ∉ a := fun e => h (by simp [e])
    simp [splitOnChar.go, hc, ih _ ha]

/-- splitting at a separator: the pieces of the left part followed by the pieces of the right part -/
theorem splitOnChar_append_sep (sep : Char) (a b : List Char) :
    splitOnChar sep (a ++ sep :: b) = splitOnChar sep a ++ splitOnChar sep b :=
  splitOnChar_go_append_sep sep a b []

theorem splitOnChar_of_not_mem (sep : Char) (a : List Char) (h : sep ∉ a) :
    splitOnChar sep a = [a] := by
  simpa [splitOnChar] using splitOnChar_go_of_not_mem sep a [] h

/-! ### tokens: the non-empty '/'-separated pieces -/

/-- the non-empty pieces of a path string (the list `parsePath` works on) -/
def pathTokens (s : List Char) : List (List Char) :=
  (splitOnChar '/' s).filter (fun e => !e.isEmpty)

theorem pathTokens_append_sep (a b : List Char) :
    pathTokens (a ++ '/' :: b) = pathTokens a ++ pathTokens b := by
  simp [pathTokens, splitOnChar_append_sep]

theorem pathTokens_of_not_mem (a : List Char) (h : '/' ∉ a) :
    pathTokens a = if a.isEmpty then [] else [a] := by
  simp only [pathTokens, splitOnChar_of_not_mem _ _ h]
  cases a <;> simp

theorem pathTokens_nil : pathTokens [] = [] := by
  simp [pathTokens_of_not_mem]

/-- removing one trailing '/' does not change the tokens -/
theorem pathTokens_strip_trailing (s : List Char) :
    pathTokens (if s.getLast? = some '/' then s.dropLast else s) = pathTokens s := by
  split
  · next h =>
    obtain ⟨ys, rfl⟩ := List.getLast?_eq_some_iff.mp h
    rw [List.dropLast_concat]
    have : ys ++ ['/'] = ys ++ '/' :: [] := rfl
    rw [this, pathTokens_append_sep, pathTokens_nil, List.append_nil]
  · rfl

/-- tokens of a '/'-joined list of '/'-free pieces: the non-empty pieces -/
theorem pathTokens_join (L : List (List Char)) (h : ∀ t ∈ L, '/' ∉ t) :
    pathTokens (L.intersperse ['/']).flatten = L.filter (fun e => !e.isEmpty) := by
  induction L with
  | nil => simp [pathTokens_nil]
  | cons t L ih =>
    cases L with
    | nil =>
      have ht := h t (by simp)
      simp only [List.intersperse_singleton, List.flatten_cons, List.flatten_nil, List.append_nil,
        pathTokens_of_not_mem _ ht]
      cases t <;> simp
    | cons t' L =>
      have ht := h t (by simp)
      have ih' := ih (fun x hx => h x (by simp [hx]))
      simp only [List.intersperse_cons_cons, List.flatten_cons, List.singleton_append,
        pathTokens_append_sep, ih', pathTokens_of_not_mem _ ht]
      cases t <;> simp

/-! ### `parsePath` in terms of tokens -/

/-- the second half of `parsePath`: parse every token, then the `Bip32Path` range check -/
def parseTokens (toks : List (List Char)) (abs : Bool) : R Path :=
  match toks.mapM parsePathElem with
  | .error e => .error e
  | .ok vals => if vals.any (fun v => v > 2 ^ 32 - 1) then .error .path else .ok ⟨vals, abs⟩

theorem parsePath_eq (s : List Char) :
    parsePath s = match pathTokens s with
      | ['m'] :: rest => parseTokens rest true
      | l => parseTokens l false := by
  unfold parsePath
  simp only [← pathTokens.eq_1, pathTokens_strip_trailing]
  generalize pathTokens s = l
  have key : ∀ (toks : List (List Char)) (abs : Bool),
      (do let vals ← toks.mapM parsePathElem
          if (vals.any fun v => decide (v > 2 ^ 32 - 1)) = true then do
            throw Err.path
            pure ({ elems := vals, absolute := abs } : Path)
          else pure { elems := vals, absolute := abs }) = parseTokens toks abs := by
    intro toks abs
    unfold parseTokens
    cases toks.mapM parsePathElem with
    | error e => rfl
    | ok vals =>
      simp only [bind, Except.bind]
      split <;> rfl
  split
  · exact key _ _
  · next h =>
    split
    · exact absurd rfl (h _)
    · exact key _ _

theorem parsePath_of_tokens_abs (s : List Char) (rest : List (List Char))
    (h : pathTokens s = ['m'] :: rest) : parsePath s = parseTokens rest true := by
  rw [parsePath_eq, h]
  rfl

theorem parsePath_of_tokens_rel (s : List Char) (h : (pathTokens s).head? ≠ some ['m']) :
    parsePath s = parseTokens (pathTokens s) false := by
  rw [parsePath_eq]
  split
  · next heq => simp [heq] at h
  · rfl

/-! ### error kinds and range -/

theorem mapM_except_error {α β ε} (f : α → Except ε β) (P : ε → Prop)
    (hf : ∀ x e, f x = .error e → P e) (l : List α) (e : ε) (h : l.mapM f = .error e) : P e := by
  induction l with
  | nil => simp [pure, Except.pure] at h
  | cons a t ih =>
    rw [List.mapM_cons] at h
    cases ha : f a with
    | error e' =>
      simp only [ha, bind, Except.bind] at h
      cases h; exact hf a _ ha
    | ok v =>
      cases ht : t.mapM f with
      | error e' =>
        simp only [ha, ht, bind, Except.bind] at h
        cases h; exact ih ht
      | ok vs => simp [ha, ht, bind, Except.bind, pure, Except.pure] at h

theorem parsePathElem_error (t : List Char) (e : Err) (h : parsePathElem t = .error e) : e = .path := by
  unfold parsePathElem at h
  simp only at h
  split at h
  · cases h
  · cases h; rfl

theorem parseTokens_error (toks : List (List Char)) (abs : Bool) (e : Err)
    (h : parseTokens toks abs = .error e) : e = .path := by
  unfold parseTokens at h
  split at h
  · next e' he =>
    cases h
    exact mapM_except_error parsePathElem (· = Err.path) parsePathElem_error toks _ he
  · split at h
    · cases h; rfl
    · cases h

theorem parseTokens_ok_range (toks : List (List Char)) (abs : Bool) (p : Path)
    (h : parseTokens toks abs = .ok p) : p.absolute = abs ∧ ∀ e ∈ p.elems, e < 2 ^ 32 := by
  unfold parseTokens at h
  split at h
  · cases h
  · split at h
    · cases h
    · next vals _ hany =>
      cases h
      refine ⟨rfl, ?_⟩
      intro e he
      simp only [List.any_eq_true, not_exists, not_and, decide_eq_true_eq] at hany
      have := hany e he
      omega

/-! ### blanks -/

theorem dropWhile_append_of_all {α} (p : α → Bool) (a b : List α) (h : ∀ c ∈ a, p c = true) :
    (a ++ b).dropWhile p = b.dropWhile p := by
  induction a with
  | nil => rfl
  | cons c a ih =>
    have hc := h c (by simp)
    simp [hc, ih (fun x hx => h x (by simp [hx]))]

theorem dropWhile_eq_nil_of_all {α} (p : α → Bool) (a : List α) (h : ∀ c ∈ a, p c = true) :
    a.dropWhile p = [] := by
  simpa using dropWhile_append_of_all p a [] h

theorem dropWhile_of_head {α} (p : α → Bool) (l : List α) (h : ∀ c, l.head? = some c → p c = false) :
    l.dropWhile p = l := by
  cases l with
  | nil => rfl
  | cons c l => simp [h c rfl]

/-- blanks around a body that neither starts nor ends with a blank are stripped exactly -/
theorem stripSpaces_pad (pre body post : List Char)
    (hpre : ∀ c ∈ pre, isSpaceChar c = true) (hpost : ∀ c ∈ post, isSpaceChar c = true)
    (hhead : ∀ c, body.head? = some c → isSpaceChar c = false)
    (hlast : ∀ c, body.getLast? = some c → isSpaceChar c = false) :
    stripSpaces (pre ++ body ++ post) = body := by
  unfold stripSpaces
  rw [List.append_assoc, dropWhile_append_of_all _ _ _ hpre]
  cases hb : body with
  | nil =>
    simp [dropWhile_eq_nil_of_all _ _ hpost]
  | cons c l =>
    rw [← hb]
    have h1 : (body ++ post).dropWhile isSpaceChar = body ++ post := by
      apply dropWhile_of_head
      intro d hd
      apply hhead
      simpa [hb] using hd
    rw [h1, List.reverse_append,
      dropWhile_append_of_all _ _ _ (fun x hx => hpost x (List.mem_reverse.mp hx))]
    have h2 : body.reverse.dropWhile isSpaceChar = body.reverse := by
      apply dropWhile_of_head
      intro d hd
      apply hlast
      simpa using hd
    rw [h2, List.reverse_reverse]

/-! ### decimal numerals -/

theorem isDigit_iff_toNat (c : Char) : c.isDigit = true ↔ 48 ≤ c.toNat ∧ c.toNat ≤ 57 := by
  simp [Char.isDigit, UInt32.le_iff_toNat_le]

theorem decimalDigit_of_isDigit (c : Char) (h : c.isDigit = true) :
    decimalDigit c = some (c.toNat - 48) := by
  have := (isDigit_iff_toNat c).mp h
  simp [decimalDigit, this]

theorem mapM_option_of_forall {α β} (f : α → Option β) (g : α → β) (l : List α)
    (h : ∀ x ∈ l, f x = some (g x)) : l.mapM f = some (l.map g) := by
  induction l with
  | nil => rfl
  | cons a t ih =>
    rw [List.mapM_cons, h a (by simp), ih (fun x hx => h x (by simp [hx]))]
    rfl

theorem foldl_digits_eq_ofDigitChars (l : List Char) (init : Nat) :
    (l.map (fun c => c.toNat - 48)).foldl (fun acc d => acc * 10 + d) init
      = Nat.ofDigitChars 10 l init := by
  induction l generalizing init with
  | nil => rfl
  | cons c l ih =>
    rw [Nat.ofDigitChars_cons, List.map_cons, List.foldl_cons, ih]
    congr 1
    simp [Nat.mul_comm]

/-- a non-empty string of ASCII digits is a decimal number with the usual value -/
theorem parseDecimal_of_isDigit (l : List Char) (hne : l ≠ []) (h : ∀ c ∈ l, c.isDigit = true) :
    parseDecimal l = some (Nat.ofDigitChars 10 l 0) := by
  unfold parseDecimal
  have : l.isEmpty = false := by cases l <;> simp_all
  rw [this, mapM_option_of_forall decimalDigit (fun c => c.toNat - 48) l
    (fun c hc => decimalDigit_of_isDigit c (h c hc))]
  simp [foldl_digits_eq_ofDigitChars]

theorem natToDec_eq (n : Nat) : natToDec n = Nat.toDigits 10 n := by
  simp [natToDec]

theorem natToDec_ne_nil (n : Nat) : natToDec n ≠ [] := by
  rw [natToDec_eq]; exact Nat.toDigits_ne_nil

theorem natToDec_isDigit (n : Nat) : ∀ c ∈ natToDec n, c.isDigit = true := by
  intro c hc
  rw [natToDec_eq] at hc
  exact Nat.isDigit_of_mem_toDigits (by decide) (by decide) hc

/-- the decimal numeral of `n`, with any number of leading zeros, parses back to `n` -/
theorem parseDecimal_zeros_natToDec (k n : Nat) :
    parseDecimal (List.replicate k '0' ++ natToDec n) = some n := by
  rw [parseDecimal_of_isDigit]
  · rw [Nat.ofDigitChars_append, Nat.ofDigitChars_replicate_zero, natToDec_eq]
    simp
  · simp [natToDec_ne_nil]
  · intro c hc
    rcases List.mem_append.mp hc with h | h
    · rw [(List.mem_replicate.mp h).2]; rfl
    · exact natToDec_isDigit n c h

theorem parseDecimal_natToDec (n : Nat) : parseDecimal (natToDec n) = some n := by
  simpa using parseDecimal_zeros_natToDec 0 n

theorem isDigit_ne_slash (c : Char) (h : c.isDigit = true) : c ≠ '/' := by
  rintro rfl; revert h; decide

theorem isDigit_not_space (c : Char) (h : c.isDigit = true) : isSpaceChar c = false := by
  have := (isDigit_iff_toNat c).mp h
  cases hs : isSpaceChar c with
  | false => rfl
  | true =>
    have hm : c.toNat ∈ Gen.spaceChars := by simpa [isSpaceChar] using hs
    simp only [Gen.spaceChars, List.mem_cons, List.not_mem_nil, or_false] at hm
    omega

/-- the printed numeral: non-empty, ASCII digits only (so no '/' and no blank), value `n` -/
theorem natToDec_spec (n : Nat) :
    natToDec n ≠ []
    ∧ (∀ c ∈ natToDec n, c.isDigit = true ∧ c ≠ '/' ∧ isSpaceChar c = false)
    ∧ parseDecimal (natToDec n) = some n :=
  ⟨natToDec_ne_nil n,
   fun c hc => have h := natToDec_isDigit n c hc; ⟨h, isDigit_ne_slash c h, isDigit_not_space c h⟩,
   parseDecimal_natToDec n⟩

/-! ### characters: digits, blanks, markers -/

theorem spaceChars_digitZeros_disjoint :
    ∀ n ∈ Gen.spaceChars, ∀ z ∈ Gen.digitZeros, ¬ (z ≤ n ∧ n < z + 10) := by decide

/-- a decimal digit (of any `Nd` block) lies in an `Nd` block -/
theorem decimalDigit_some (c : Char) (d : Nat) (h : decimalDigit c = some d) :
    ∃ z ∈ Gen.digitZeros, z ≤ c.toNat ∧ c.toNat < z + 10 := by
  unfold decimalDigit at h
  simp only at h
  split at h
  · next h48 => exact ⟨48, by decide, by omega⟩
  · split at h
    · next z hz =>
      have := List.find?_some hz
      exact ⟨z, List.mem_of_find?_eq_some hz, by simpa using this⟩
    · cases h

theorem decimalDigit_not_space (c : Char) (d : Nat) (h : decimalDigit c = some d) :
    isSpaceChar c = false := by
  obtain ⟨z, hz, hr⟩ := decimalDigit_some c d h
  cases hs : isSpaceChar c with
  | false => rfl
  | true =>
    have hm : c.toNat ∈ Gen.spaceChars := by simpa [isSpaceChar] using hs
    exact absurd hr (spaceChars_digitZeros_disjoint _ hm z hz)

theorem decimalDigit_toNat_ne (n : Nat) (hn : ∀ z ∈ Gen.digitZeros, ¬ (z ≤ n ∧ n < z + 10))
    (c : Char) (d : Nat) (h : decimalDigit c = some d) : c.toNat ≠ n := by
  obtain ⟨z, hz, hr⟩ := decimalDigit_some c d h
  intro e
  exact hn z hz (e ▸ hr)

theorem decimalDigit_ne_apos (c : Char) (d : Nat) (h : decimalDigit c = some d) : c ≠ '\'' := by
  intro e; exact decimalDigit_toNat_ne 39 (by decide) c d h (by rw [e]; rfl)

theorem decimalDigit_ne_h (c : Char) (d : Nat) (h : decimalDigit c = some d) : c ≠ 'h' := by
  intro e; exact decimalDigit_toNat_ne 104 (by decide) c d h (by rw [e]; rfl)

theorem decimalDigit_ne_p (c : Char) (d : Nat) (h : decimalDigit c = some d) : c ≠ 'p' := by
  intro e; exact decimalDigit_toNat_ne 112 (by decide) c d h (by rw [e]; rfl)

theorem decimalDigit_ne_m (c : Char) (d : Nat) (h : decimalDigit c = some d) : c ≠ 'm' := by
  intro e; exact decimalDigit_toNat_ne 109 (by decide) c d h (by rw [e]; rfl)

theorem decimalDigit_ne_slash (c : Char) (d : Nat) (h : decimalDigit c = some d) : c ≠ '/' := by
  intro e; exact decimalDigit_toNat_ne 47 (by decide) c d h (by rw [e]; rfl)

theorem isSpaceChar_ne_slash (c : Char) (h : isSpaceChar c = true) : c ≠ '/' := by
  rintro rfl; revert h; decide

theorem isSpaceChar_ne_m (c : Char) (h : isSpaceChar c = true) : c ≠ 'm' := by
  rintro rfl; revert h; decide

theorem mapM_option_some {α β} (f : α → Option β) (l : List α) (r : List β)
    (h : l.mapM f = some r) : ∀ x ∈ l, ∃ y, f x = some y := by
  induction l generalizing r with
  | nil => simp
  | cons a t ih =>
    rw [List.mapM_cons] at h
    cases ha : f a with
    | none => simp [ha] at h
    | some y =>
      cases ht : t.mapM f with
      | none => simp [ha, ht] at h
      | some ys =>
        intro x hx
        rcases List.mem_cons.mp hx with rfl | hx
        · exact ⟨y, ha⟩
        · exact ih ys ht x hx

/-- a decimal numeral is non-empty and consists of decimal digits -/
theorem parseDecimal_some (l : List Char) (v : Nat) (h : parseDecimal l = some v) :
    l ≠ [] ∧ ∀ c ∈ l, ∃ d, decimalDigit c = some d := by
  unfold parseDecimal at h
  split at h
  · cases h
  · next hne =>
    refine ⟨by rintro rfl; simp at hne, ?_⟩
    cases hm : l.mapM decimalDigit with
    | none => simp [hm] at h
    | some r => exact mapM_option_some _ _ _ hm

/-! ### one path element -/

/-- the three hardened markers accepted by the parser -/
inductive Marker | apos | h | p
  deriving DecidableEq, Repr

def Marker.char : Marker → Char
  | .apos => '\''
  | .h => 'h'
  | .p => 'p'

theorem Marker.char_not_space (m : Marker) : isSpaceChar m.char = false := by
  cases m <;> decide

theorem Marker.char_is_marker (m : Marker) :
    (m.char = '\'' || m.char = 'h' || m.char = 'p') = true := by
  cases m <;> decide

theorem Marker.char_ne_slash (m : Marker) : m.char ≠ '/' := by
  cases m <;> decide

/-- `parsePathElem` on an already stripped element -/
theorem parsePathElem_of_strip (t body : List Char) (h : stripSpaces t = body) :
    parsePathElem t =
      let hard := match body.getLast? with
        | some c => c = '\'' || c = 'h' || c = 'p'
        | none => false
      match parseDecimal (if hard then body.dropLast else body) with
      | some v => .ok (if hard then harden v else v)
      | none => .error .path := by
  unfold parsePathElem
  simp only [h]
  rfl

/-- a numeral without marker, surrounded by blanks, parses to its value -/
theorem parsePathElem_plain (pre body post : List Char) (v : Nat)
    (hpre : ∀ c ∈ pre, isSpaceChar c = true) (hpost : ∀ c ∈ post, isSpaceChar c = true)
    (hv : parseDecimal body = some v) : parsePathElem (pre ++ body ++ post) = .ok v := by
  obtain ⟨hne, hd⟩ := parseDecimal_some body v hv
  have hstrip : stripSpaces (pre ++ body ++ post) = body := by
    apply stripSpaces_pad _ _ _ hpre hpost
    · intro c hc
      obtain ⟨d, hd⟩ := hd c (List.mem_of_mem_head? hc)
      exact decimalDigit_not_space c d hd
    · intro c hc
      obtain ⟨d, hd⟩ := hd c (List.mem_of_getLast? hc)
      exact decimalDigit_not_space c d hd
  rw [parsePathElem_of_strip _ _ hstrip]
  obtain ⟨c, hc⟩ : ∃ c, body.getLast? = some c := by
    cases hl : body.getLast? with
    | none => exact absurd (List.getLast?_eq_none_iff.mp hl) hne
    | some c => exact ⟨c, rfl⟩
  obtain ⟨d, hcd⟩ := hd c (List.mem_of_getLast? hc)
  have hnm : (c = '\'' || c = 'h' || c = 'p') = false := by
    simp [decimalDigit_ne_apos c d hcd, decimalDigit_ne_h c d hcd, decimalDigit_ne_p c d hcd]
  simp [hc, hnm, hv]

/-- a numeral followed by a hardened marker, surrounded by blanks, parses to the hardened value -/
theorem parsePathElem_marked (pre body post : List Char) (m : Marker) (v : Nat)
    (hpre : ∀ c ∈ pre, isSpaceChar c = true) (hpost : ∀ c ∈ post, isSpaceChar c = true)
    (hv : parseDecimal body = some v) :
    parsePathElem (pre ++ (body ++ [m.char]) ++ post) = .ok (harden v) := by
  obtain ⟨hne, hd⟩ := parseDecimal_some body v hv
  have hstrip : stripSpaces (pre ++ (body ++ [m.char]) ++ post) = body ++ [m.char] := by
    apply stripSpaces_pad _ _ _ hpre hpost
    · intro c hc
      cases body with
      | nil => exact absurd rfl hne
      | cons b bs =>
        simp only [List.cons_append, List.head?_cons, Option.some.injEq] at hc
        obtain ⟨d, hd⟩ := hd b (by simp)
        exact hc ▸ decimalDigit_not_space b d hd
    · intro c hc
      rw [List.getLast?_concat] at hc
      cases hc
      exact m.char_not_space
  rw [parsePathElem_of_strip _ _ hstrip]
  simp [m.char_is_marker, hv]

/-! ### hardened indices -/

theorem isHardened_iff (e : Nat) : isHardened e = true ↔ (e / 2 ^ 31) % 2 = 1 := by
  simp only [isHardened, ge_iff_le, decide_eq_true_eq]
  omega

theorem harden_of_isHardened (e : Nat) (h : isHardened e = true) : harden e = e := by
  have := (isHardened_iff e).mp h
  simp [harden, this]

theorem harden_unharden (e : Nat) (h : isHardened e = true) : harden (unharden e) = e := by
  have h1 := (isHardened_iff e).mp h
  simp only [harden, unharden, h1, if_true]
  have : ((e - 2 ^ 31) / 2 ^ 31) % 2 ≠ 1 := by omega
  rw [if_neg this]
  omega

theorem lt_of_not_isHardened (e : Nat) (h : isHardened e = false) (hr : e < 2 ^ 32) : e < 2 ^ 31 := by
  simp only [isHardened, ge_iff_le, decide_eq_false_iff_not] at h
  omega

/-! ### numerals in other `Nd` blocks -/

theorem toNat_ofNat_valid (n : Nat) (h : n.isValidChar) : (Char.ofNat n).toNat = n := by
  rw [Char.ofNat, dif_pos h]; rfl

/-- `decimalDigit` as a function of the code point -/
def decimalDigitNat (n : Nat) : Option Nat :=
  if 48 ≤ n ∧ n ≤ 57 then some (n - 48)
  else match Gen.digitZeros.find? (fun z => z ≤ n ∧ n < z + 10) with
    | some z => some (n - z)
    | none => none

theorem decimalDigit_eq_nat (c : Char) : decimalDigit c = decimalDigitNat c.toNat := rfl

theorem digitZeros_valid :
    ∀ z ∈ Gen.digitZeros, ∀ d ∈ List.range 10, (z + d).isValidChar := by decide +kernel

theorem decimalDigitNat_block :
    ∀ z ∈ Gen.digitZeros, ∀ d ∈ List.range 10, decimalDigitNat (z + d) = some d := by
  decide +kernel

/-- the `d`-th character of every `Nd` block of the table is a decimal digit of value `d` -/
theorem decimalDigit_block (z : Nat) (hz : z ∈ Gen.digitZeros) (d : Nat) (hd : d < 10) :
    decimalDigit (Char.ofNat (z + d)) = some d := by
  have hd' : d ∈ List.range 10 := List.mem_range.mpr hd
  rw [decimalDigit_eq_nat, toNat_ofNat_valid _ (digitZeros_valid z hz d hd')]
  exact decimalDigitNat_block z hz d hd'

/-- the ASCII digit `c` written in the `k`-th `Nd` block of `Gen.digitZeros` (ASCII is block 0;
`k` out of range falls back to ASCII) -/
def digitInBlock (k : Nat) (c : Char) : Char :=
  Char.ofNat (Gen.digitZeros.getD k 48 + (c.toNat - 48))

/-- an ASCII numeral with the digit at position `i` moved to the `Nd` block number `blk i` -/
def respellDigits (blk : Nat → Nat) : List Char → List Char
  | [] => []
  | c :: cs => digitInBlock (blk 0) c :: respellDigits (fun i => blk (i + 1)) cs

theorem digitZeros_getD_mem (k : Nat) : Gen.digitZeros.getD k 48 ∈ Gen.digitZeros := by
  rw [List.getD_eq_getElem?_getD]
  cases h : Gen.digitZeros[k]? with
  | none => decide
  | some z => exact List.mem_of_getElem? h

theorem decimalDigit_digitInBlock (k : Nat) (c : Char) (h : c.isDigit = true) :
    decimalDigit (digitInBlock k c) = some (c.toNat - 48) := by
  have := (isDigit_iff_toNat c).mp h
  exact decimalDigit_block _ (digitZeros_getD_mem k) _ (by omega)

theorem digitInBlock_zero (c : Char) (h : c.isDigit = true) : digitInBlock 0 c = c := by
  have := (isDigit_iff_toNat c).mp h
  have h0 : Gen.digitZeros.getD 0 48 = 48 := rfl
  rw [digitInBlock, h0, show 48 + (c.toNat - 48) = c.toNat by omega, Char.ofNat_toNat]

theorem respellDigits_ascii (l : List Char) (h : ∀ c ∈ l, c.isDigit = true) :
    respellDigits (fun _ => 0) l = l := by
  induction l with
  | nil => rfl
  | cons c l ih =>
    rw [respellDigits, digitInBlock_zero c (h c (by simp)), ih (fun x hx => h x (by simp [hx]))]

theorem respellDigits_ne_nil (blk : Nat → Nat) (l : List Char) (h : l ≠ []) :
    respellDigits blk l ≠ [] := by
  cases l with
  | nil => exact absurd rfl h
  | cons c l => simp [respellDigits]

theorem mapM_decimalDigit_respellDigits (blk : Nat → Nat) (l : List Char)
    (h : ∀ c ∈ l, c.isDigit = true) :
    (respellDigits blk l).mapM decimalDigit = some (l.map (fun c => c.toNat - 48)) := by
  induction l generalizing blk with
  | nil => rfl
  | cons c l ih =>
    rw [respellDigits, List.mapM_cons, decimalDigit_digitInBlock _ c (h c (by simp)),
      ih _ (fun x hx => h x (by simp [hx]))]
    rfl

/-- a numeral keeps its value when its digits are moved to other `Nd` blocks -/
theorem parseDecimal_respellDigits (blk : Nat → Nat) (l : List Char) (hne : l ≠ [])
    (h : ∀ c ∈ l, c.isDigit = true) :
    parseDecimal (respellDigits blk l) = some (Nat.ofDigitChars 10 l 0) := by
  unfold parseDecimal
  have : (respellDigits blk l).isEmpty = false := by
    have := respellDigits_ne_nil blk l hne
    cases hl : respellDigits blk l <;> simp_all
  rw [this, mapM_decimalDigit_respellDigits blk l h]
  simp [foldl_digits_eq_ofDigitChars]

/-- the decimal numeral of `n`, with any number of leading zeros and every digit written in any `Nd`
block, parses back to `n` -/
theorem parseDecimal_respell_zeros_natToDec (blk : Nat → Nat) (k n : Nat) :
    parseDecimal (respellDigits blk (List.replicate k '0' ++ natToDec n)) = some n := by
  rw [parseDecimal_respellDigits]
  · rw [Nat.ofDigitChars_append, Nat.ofDigitChars_replicate_zero, natToDec_eq]
    simp
  · simp [natToDec_ne_nil]
  · intro c hc
    rcases List.mem_append.mp hc with h | h
    · rw [(List.mem_replicate.mp h).2]; rfl
    · exact natToDec_isDigit n c h

/-! ### spellings of one element -/

/-- how one index is written: `gap` extra '/' in front of it (besides the mandatory separator),
blanks `pre`/`post` around it, `zeros` leading ASCII zeros, the `i`-th digit of the numeral taken
from the `Nd` block number `blocks i` of `Gen.digitZeros` (0 = ASCII), and either no marker (the
numeral is the full index) or one of the three markers (the numeral is the index minus `2^31`, or,
with `full`, the full index again, which the parser also accepts). -/
structure ElemSpelling where
  gap : Nat := 0
  pre : List Char := []
  zeros : Nat := 0
  blocks : Nat → Nat := fun _ => 0
  marker : Option Marker := none
  full : Bool := false
  post : List Char := []

/-- the number written in the numeral -/
def ElemSpelling.numeralOf (σ : ElemSpelling) (e : Nat) : Nat :=
  match σ.marker with
  | some _ => if σ.full then e else unharden e
  | none => e

def ElemSpelling.markerChars (σ : ElemSpelling) : List Char :=
  match σ.marker with
  | some m => [m.char]
  | none => []

/-- the numeral of a spelt element -/
def ElemSpelling.numeral (σ : ElemSpelling) (e : Nat) : List Char :=
  respellDigits σ.blocks (List.replicate σ.zeros '0' ++ natToDec (σ.numeralOf e))

def spellElem (σ : ElemSpelling) (e : Nat) : List Char :=
  σ.pre ++ (σ.numeral e ++ σ.markerChars) ++ σ.post

/-- admissible spelling of the index `e`: the padding consists of blanks (`str.isspace()`), and a
marker is used only for a hardened index -/
structure ElemSpelling.Ok (σ : ElemSpelling) (e : Nat) : Prop where
  pre_blank : ∀ c ∈ σ.pre, isSpaceChar c = true
  post_blank : ∀ c ∈ σ.post, isSpaceChar c = true
  marker_hardened : σ.marker.isSome = true → isHardened e = true

theorem parseDecimal_numeral (σ : ElemSpelling) (e : Nat) :
    parseDecimal (σ.numeral e) = some (σ.numeralOf e) :=
  parseDecimal_respell_zeros_natToDec _ _ _

theorem parsePathElem_spellElem (σ : ElemSpelling) (e : Nat) (h : σ.Ok e) :
    parsePathElem (spellElem σ e) = .ok e := by
  have hnum := parseDecimal_numeral σ e
  unfold spellElem
  unfold ElemSpelling.markerChars
  unfold ElemSpelling.numeralOf at hnum
  cases hm : σ.marker with
  | none =>
    simp only [List.append_nil]
    rw [hm] at hnum
    exact parsePathElem_plain _ _ _ e h.pre_blank h.post_blank hnum
  | some m =>
    have hh := h.marker_hardened (by simp [hm])
    rw [hm] at hnum
    simp only at hnum ⊢
    rw [parsePathElem_marked _ _ _ m _ h.pre_blank h.post_blank hnum]
    split
    · rw [harden_of_isHardened e hh]
    · rw [harden_unharden e hh]

theorem slash_not_mem_spellElem (σ : ElemSpelling) (e : Nat) (h : σ.Ok e) : '/' ∉ spellElem σ e := by
  obtain ⟨_, hd⟩ := parseDecimal_some _ _ (parseDecimal_numeral σ e)
  unfold spellElem ElemSpelling.markerChars
  simp only [List.mem_append, not_or]
  refine ⟨⟨fun hc => isSpaceChar_ne_slash _ (h.pre_blank _ hc) rfl, ?_, ?_⟩,
    fun hc => isSpaceChar_ne_slash _ (h.post_blank _ hc) rfl⟩
  · intro hc
    obtain ⟨d, hd⟩ := hd _ hc
    exact decimalDigit_ne_slash _ d hd rfl
  · cases σ.marker with
    | none => simp
    | some m => simpa using fun e => m.char_ne_slash e.symm

theorem spellElem_has_digit (σ : ElemSpelling) (e : Nat) :
    ∃ c ∈ spellElem σ e, ∃ d, decimalDigit c = some d := by
  obtain ⟨hne, hd⟩ := parseDecimal_some _ _ (parseDecimal_numeral σ e)
  cases hl : σ.numeral e with
  | nil => exact absurd hl hne
  | cons c l =>
    exact ⟨c, by simp [spellElem, hl], hd c (by simp [hl])⟩

theorem spellElem_ne_nil (σ : ElemSpelling) (e : Nat) : spellElem σ e ≠ [] := by
  obtain ⟨c, hc, _⟩ := spellElem_has_digit σ e
  exact List.ne_nil_of_mem hc

theorem spellElem_ne_m (σ : ElemSpelling) (e : Nat) : spellElem σ e ≠ ['m'] := by
  obtain ⟨c, hc, d, hd⟩ := spellElem_has_digit σ e
  intro heq
  rw [heq] at hc
  exact decimalDigit_ne_m c d hd (by simpa using hc)

/-! ### spellings of a whole path -/

/-- element-wise admissibility (same length, each spelling admissible for its index) -/
inductive ElemsOk : List ElemSpelling → List Nat → Prop
  | nil : ElemsOk [] []
  | cons {σ e σs es} : σ.Ok e → ElemsOk σs es → ElemsOk (σ :: σs) (e :: es)

theorem elemsOk_of_forall (σs : List ElemSpelling) (es : List Nat) (hl : σs.length = es.length)
    (h : ∀ x ∈ σs.zip es, x.1.Ok x.2) : ElemsOk σs es := by
  induction σs generalizing es with
  | nil =>
    cases es with
    | nil => exact .nil
    | cons _ _ => simp at hl
  | cons σ σs ih =>
    cases es with
    | nil => simp at hl
    | cons e es =>
      exact .cons (h (σ, e) (by simp)) (ih es (by simpa using hl) (fun x hx => h x (by simp [hx])))

/-- a spelling of a whole path: `lead` extra '/' before the leading "m" (absolute paths only; for a
relative path the leading '/' are the `gap` of the first element), one spelling per element, and
`trail` trailing empty pieces (i.e. `trail` trailing '/'). -/
structure Spelling where
  lead : Nat := 0
  elems : List ElemSpelling
  trail : Nat := 0

/-- the '/'-separated pieces of the respelt path (empty pieces make the extra '/') -/
def spellPieces (σ : Spelling) (p : Path) : List (List Char) :=
  (if p.absolute then List.replicate σ.lead [] ++ [['m']] else [])
    ++ (List.zipWith (fun s e => List.replicate s.gap [] ++ [spellElem s e]) σ.elems p.elems).flatten
    ++ List.replicate σ.trail []

/-- the path `p` written with spelling `σ` -/
def respell (σ : Spelling) (p : Path) : List Char :=
  ((spellPieces σ p).intersperse ['/']).flatten

/-- admissible spelling of `p` -/
def Spelling.Ok (σ : Spelling) (p : Path) : Prop := ElemsOk σ.elems p.elems

theorem filter_nonempty_replicate_nil (k : Nat) :
    (List.replicate k ([] : List Char)).filter (fun e => !e.isEmpty) = [] := by
  simp

theorem slash_not_mem_replicate_nil (k : Nat) : ∀ t ∈ List.replicate k ([] : List Char), '/' ∉ t := by
  intro t ht
  rw [(List.mem_replicate.mp ht).2]
  simp

theorem elemPieces_props (σs : List ElemSpelling) (es : List Nat) (h : ElemsOk σs es) :
    (∀ t ∈ (List.zipWith (fun s e => List.replicate s.gap [] ++ [spellElem s e]) σs es).flatten,
        '/' ∉ t)
    ∧ ((List.zipWith (fun s e => List.replicate s.gap [] ++ [spellElem s e]) σs es).flatten.filter
        (fun e => !e.isEmpty) = List.zipWith spellElem σs es)
    ∧ (List.zipWith spellElem σs es).mapM parsePathElem = .ok es := by
  induction h with
  | nil => exact ⟨by simp, by simp, rfl⟩
  | @cons σ e σs es hσ _ ih =>
    obtain ⟨ih1, ih2, ih3⟩ := ih
    refine ⟨?_, ?_, ?_⟩
    · intro t ht
      simp only [List.zipWith_cons_cons, List.flatten_cons, List.mem_append, List.mem_singleton] at ht
      rcases ht with (ht | ht) | ht
      · exact slash_not_mem_replicate_nil _ t ht
      · rw [ht]; exact slash_not_mem_spellElem σ e hσ
      · exact ih1 t ht
    · simp only [List.zipWith_cons_cons, List.flatten_cons, List.filter_append,
        filter_nonempty_replicate_nil, List.nil_append, ih2]
      have : (spellElem σ e).isEmpty = false := by
        cases hs : spellElem σ e with
        | nil => exact absurd hs (spellElem_ne_nil σ e)
        | cons _ _ => rfl
      simp [this]
    · simp only [List.zipWith_cons_cons, List.mapM_cons, parsePathElem_spellElem σ e hσ, ih3]
      rfl

theorem parseTokens_ok (toks : List (List Char)) (es : List Nat) (abs : Bool)
    (hm : toks.mapM parsePathElem = .ok es) (hr : ∀ e ∈ es, e < 2 ^ 32) :
    parseTokens toks abs = .ok ⟨es, abs⟩ := by
  unfold parseTokens
  rw [hm]
  have : (es.any fun v => decide (v > 2 ^ 32 - 1)) = false := by
    rw [List.any_eq_false]
    intro x hx
    have := hr x hx
    simp only [gt_iff_lt, decide_eq_true_eq]
    omega
  simp [this]

theorem pathTokens_respell (σ : Spelling) (p : Path) (h : σ.Ok p) :
    pathTokens (respell σ p)
      = (if p.absolute then [['m']] else []) ++ List.zipWith spellElem σ.elems p.elems := by
  obtain ⟨h1, h2, _⟩ := elemPieces_props σ.elems p.elems h
  unfold respell
  rw [pathTokens_join]
  · unfold spellPieces
    rw [List.filter_append, List.filter_append, h2, filter_nonempty_replicate_nil, List.append_nil]
    congr 1
    split
    · rw [List.filter_append, filter_nonempty_replicate_nil]; rfl
    · rfl
  · intro t ht
    unfold spellPieces at ht
    simp only [List.mem_append] at ht
    rcases ht with (ht | ht) | ht
    · split at ht
      · rcases List.mem_append.mp ht with ht | ht
        · exact slash_not_mem_replicate_nil _ t ht
        · rw [List.mem_singleton.mp ht]; decide
      · simp at ht
    · exact h1 t ht
    · exact slash_not_mem_replicate_nil _ t ht

theorem parsePath_respell_eq (σ : Spelling) (p : Path) (h : σ.Ok p) :
    parsePath (respell σ p) = parseTokens (List.zipWith spellElem σ.elems p.elems) p.absolute := by
  have htok := pathTokens_respell σ p h
  obtain ⟨es, abs⟩ := p
  cases abs with
  | true => rw [parsePath_of_tokens_abs _ _ (by simpa using htok)]
  | false =>
    simp only [Bool.false_eq_true, if_false, List.nil_append] at htok
    rw [parsePath_of_tokens_rel, htok]
    rw [htok]
    have h' : ElemsOk σ.elems es := h
    generalize σ.elems = σs at h'
    cases h' with
    | nil => simp
    | cons hσ _ =>
      simp only [List.zipWith_cons_cons, List.head?_cons, ne_eq, Option.some.injEq]
      exact spellElem_ne_m _ _

/-- every admissible spelling of a path parses to that path -/
theorem parsePath_respell (σ : Spelling) (p : Path) (h : σ.Ok p) (hr : ∀ e ∈ p.elems, e < 2 ^ 32) :
    parsePath (respell σ p) = .ok p := by
  rw [parsePath_respell_eq σ p h]
  exact parseTokens_ok _ _ _ (elemPieces_props σ.elems p.elems h).2.2 hr

/-! ### the printer's spelling -/

/-- the spelling used by `printPath`: no padding, `'` for hardened indices -/
def canonElem (e : Nat) : ElemSpelling := { marker := if isHardened e then some .apos else none }

def canonSpelling (p : Path) : Spelling := { elems := p.elems.map canonElem }

theorem canonElem_ok (e : Nat) : (canonElem e).Ok e := by
  refine ⟨by simp [canonElem], by simp [canonElem], ?_⟩
  unfold canonElem
  split <;> simp_all

theorem spellElem_canonElem (e : Nat) :
    spellElem (canonElem e) e
      = if isHardened e then natToDec (unharden e) ++ ['\''] else natToDec e := by
  have hasc : ∀ n, respellDigits (fun _ => 0) (natToDec n) = natToDec n :=
    fun n => respellDigits_ascii _ (natToDec_isDigit n)
  unfold spellElem ElemSpelling.numeral ElemSpelling.numeralOf ElemSpelling.markerChars canonElem
  split <;> simp_all [Marker.char]

theorem canonSpelling_ok (p : Path) : (canonSpelling p).Ok p := by
  unfold Spelling.Ok canonSpelling
  simp only
  induction p.elems with
  | nil => exact .nil
  | cons e es ih => exact .cons (canonElem_ok e) ih

theorem canon_pieces (es : List Nat) :
    (List.zipWith (fun s e => List.replicate s.gap [] ++ [spellElem s e]) (es.map canonElem) es).flatten
      = es.map (fun e => if isHardened e then natToDec (unharden e) ++ ['\''] else natToDec e) := by
  induction es with
  | nil => rfl
  | cons e es ih =>
    simp only [List.map_cons, List.zipWith_cons_cons, List.flatten_cons, ih, spellElem_canonElem]
    rfl

theorem printPath_eq_respell (p : Path) : printPath p = respell (canonSpelling p) p := by
  unfold printPath respell spellPieces
  simp only [canonSpelling, canon_pieces, List.replicate_zero, List.nil_append, List.append_nil]

/-! ### rejections -/

theorem mapM_except_not_ok {α β ε} (f : α → Except ε β) (l : List α) (t : α) (e : ε)
    (ht : t ∈ l) (hf : f t = .error e) (r : List β) : l.mapM f ≠ .ok r := by
  induction l generalizing r with
  | nil => simp at ht
  | cons a l ih =>
    rw [List.mapM_cons]
    cases ha : f a with
    | error e' => simp [bind, Except.bind]
    | ok v =>
      rcases List.mem_cons.mp ht with rfl | ht
      · rw [hf] at ha; cases ha
      · cases hl : l.mapM f with
        | error e' => simp [bind, Except.bind]
        | ok vs => exact absurd hl (ih ht vs)

/-- one bad token makes the whole parse fail -/
theorem parseTokens_bad_token (toks : List (List Char)) (abs : Bool) (t : List Char) (e : Err)
    (ht : t ∈ toks) (hf : parsePathElem t = .error e) : parseTokens toks abs = .error .path := by
  cases h : parseTokens toks abs with
  | error e' => rw [parseTokens_error _ _ _ h]
  | ok p =>
    unfold parseTokens at h
    split at h
    · cases h
    · next vals hv => exact absurd hv (mapM_except_not_ok _ _ t e ht hf vals)

theorem parseTokens_out_of_range (toks : List (List Char)) (es : List Nat) (abs : Bool)
    (hm : toks.mapM parsePathElem = .ok es) (e : Nat) (he : e ∈ es) (hr : 2 ^ 32 ≤ e) :
    parseTokens toks abs = .error .path := by
  unfold parseTokens
  rw [hm]
  have : (es.any fun v => decide (v > 2 ^ 32 - 1)) = true := by
    rw [List.any_eq_true]
    exact ⟨e, he, by simp only [gt_iff_lt, decide_eq_true_eq]; omega⟩
  simp [this]

/-- an admissible spelling of a path with an index `≥ 2^32` is rejected -/
theorem parsePath_respell_out_of_range (σ : Spelling) (p : Path) (h : σ.Ok p)
    (e : Nat) (he : e ∈ p.elems) (hr : 2 ^ 32 ≤ e) : parsePath (respell σ p) = .error .path := by
  rw [parsePath_respell_eq σ p h]
  exact parseTokens_out_of_range _ _ _ (elemPieces_props σ.elems p.elems h).2.2 e he hr

/-- an element whose stripped text has a non-decimal character before its last character is
rejected (doubled markers, inner blanks, letters, signs, ...) -/
theorem parsePathElem_reject (t : List Char) (c : Char) (hc : c ∈ (stripSpaces t).dropLast)
    (hd : decimalDigit c = none) : parsePathElem t = .error .path := by
  rw [parsePathElem_of_strip t _ rfl]
  simp only
  have hnone : ∀ l : List Char, c ∈ l → parseDecimal l = none := by
    intro l hl
    cases hp : parseDecimal l with
    | none => rfl
    | some v =>
      obtain ⟨d, hd'⟩ := (parseDecimal_some l v hp).2 c hl
      rw [hd] at hd'; cases hd'
  have hmem : ∀ b : Bool, c ∈ (if b = true then (stripSpaces t).dropLast else stripSpaces t) := by
    intro b
    cases b
    · exact (List.dropLast_sublist _).subset hc
    · exact hc
  rw [hnone _ (hmem _)]

theorem Marker.char_not_decimal (m : Marker) : decimalDigit m.char = none := by
  cases m <;> decide +kernel

/-- a numeral followed by two markers is rejected -/
theorem parsePathElem_double_marker (pre body post : List Char) (m₁ m₂ : Marker) (v : Nat)
    (hpre : ∀ c ∈ pre, isSpaceChar c = true) (hpost : ∀ c ∈ post, isSpaceChar c = true)
    (hv : parseDecimal body = some v) :
    parsePathElem (pre ++ (body ++ [m₁.char, m₂.char]) ++ post) = .error .path := by
  obtain ⟨hne, hd⟩ := parseDecimal_some body v hv
  have hstrip : stripSpaces (pre ++ (body ++ [m₁.char, m₂.char]) ++ post)
      = body ++ [m₁.char, m₂.char] := by
    apply stripSpaces_pad _ _ _ hpre hpost
    · intro c hc
      cases body with
      | nil => exact absurd rfl hne
      | cons b bs =>
        simp only [List.cons_append, List.head?_cons, Option.some.injEq] at hc
        obtain ⟨d, hd⟩ := hd b (by simp)
        exact hc ▸ decimalDigit_not_space b d hd
    · intro c hc
      have : body ++ [m₁.char, m₂.char] = (body ++ [m₁.char]) ++ [m₂.char] := by simp
      rw [this, List.getLast?_concat] at hc
      cases hc
      exact m₂.char_not_space
  apply parsePathElem_reject _ m₁.char _ m₁.char_not_decimal
  rw [hstrip]
  have : body ++ [m₁.char, m₂.char] = (body ++ [m₁.char]) ++ [m₂.char] := by simp
  rw [this, List.dropLast_concat]
  simp

/-- a token that is not an index (and not the leading "m") makes the parse fail -/
theorem parsePath_bad_token (s t : List Char) (e : Err) (ht : t ∈ pathTokens s) (hm : t ≠ ['m'])
    (hbad : parsePathElem t = .error e) : parsePath s = .error .path := by
  rw [parsePath_eq]
  split
  · next rest heq =>
    rw [heq] at ht
    rcases List.mem_cons.mp ht with h | h
    · exact absurd h hm
    · exact parseTokens_bad_token _ _ t e h hbad
  · exact parseTokens_bad_token _ _ t e ht hbad

end BipVerif.Model
