/-
The ECDSA key layer of the model (`pubOfPriv`, `pubAddMulG`, `pubFromBytes`) is a faithful group
encoding of Mathlib's group of points of secp256k1 / NIST P-256: `EcdsaGroupModel` is instantiated
and `EcdsaLaw` / `EcdsaInfLaw` follow without hypotheses.
-/
import BipVerif.Lemmas.WGroup.Concrete
import BipVerif.Lemmas.Ecc

namespace BipVerif.WGroup
open BipVerif BipVerif.Prim BipVerif.Model WeierstrassCurve WeierstrassCurve.Affine

variable {c : WCurve}

/-! ## back from Mathlib points to `WPoint` -/

/-- The `WPoint` with canonical (reduced) coordinates of a Mathlib point. -/
def ofM : (W c).Point → WPoint
  | .zero => .inf
  | .some x y _ => .aff x.val y.val

theorem ofM_toM [Valid c] {P : WPoint} (hP : c.onCurve P = true) : ofM (toM (c := c) P) = P := by
  cases P with
  | inf => rfl
  | aff x y =>
    obtain ⟨hx, hy, -⟩ := (onCurve_aff_iff x y).mp hP
    rw [toM_aff hP]
    show WPoint.aff (x : ZMod c.p).val (y : ZMod c.p).val = _
    rw [ZMod.val_natCast, ZMod.val_natCast, Nat.mod_eq_of_lt hx, Nat.mod_eq_of_lt hy]

/-- compressed SEC1 encoding of a Mathlib point (`none` at the neutral element) -/
def enc (c : WCurve) (P : (W c).Point) : Option Bytes := c.compress (ofM P)

theorem compress_eq_none_iff (P : WPoint) : c.compress P = none ↔ P = .inf := by
  cases P <;> simp [WCurve.compress]

/-! ## square roots for `p ≡ 3 (mod 4)` and `decode ∘ compress = id` -/

theorem sqrt_spec [Valid c] (h34 : c.p % 4 = 3) {x y : ℕ} (h : c.onCurve (.aff x y) = true) :
    ∃ r, sqrtMod3mod4 (c.rhs x) c.p = some r ∧ r < c.p ∧
      ((r : ZMod c.p) = y ∨ (r : ZMod c.p) = -y) := by
  have hp := p_pos (c := c)
  have hrhs : c.rhs x = y * y % c.p := by
    simp only [WCurve.onCurve, Bool.and_eq_true, beq_iff_eq] at h
    exact h.2.symm
  have hrr : c.rhs x % c.p = c.rhs x := by rw [hrhs, Nat.mod_mod]
  have hcast : ((powMod (c.rhs x) ((c.p + 1) / 4) c.p : ℕ) : ZMod c.p) ^ 2 = (y : ZMod c.p) ^ 2 := by
    rw [cast_powMod, hrhs, cast_mod, Nat.cast_mul, ← pow_two, ← pow_mul, ← pow_mul]
    have : 2 * ((c.p + 1) / 4 * 2) = c.p + 1 := by omega
    rw [this, pow_succ, ZMod.pow_card, pow_two]
  refine ⟨powMod (c.rhs x) ((c.p + 1) / 4) c.p, ?_, powMod_lt _ _ hp, ?_⟩
  · unfold sqrtMod3mod4
    dsimp only
    rw [hrr, if_pos]
    have hlt : c.rhs x < c.p := by rw [hrhs]; exact Nat.mod_lt _ hp
    have hcr : ((c.rhs x : ℕ) : ZMod c.p) = (y : ZMod c.p) ^ 2 := by
      rw [hrhs, cast_mod, Nat.cast_mul, pow_two]
    rw [← natCast_inj_of_lt (Nat.mod_lt _ hp) hlt, cast_mod, Nat.cast_mul, ← pow_two, hcast, hcr]
  · have : ((powMod (c.rhs x) ((c.p + 1) / 4) c.p : ℕ) : ZMod c.p) ^ 2 - (y : ZMod c.p) ^ 2 = 0 :=
      sub_eq_zero.mpr hcast
    rw [sq_sub_sq] at this
    rcases mul_eq_zero.mp this with h | h
    · exact Or.inr (eq_neg_of_add_eq_zero_left h)
    · exact Or.inl (sub_eq_zero.mp h)

theorem uint8_parity (y : ℕ) :
    (UInt8.ofNat (2 + y % 2) = 2 ∨ UInt8.ofNat (2 + y % 2) = 3) ∧
      (UInt8.ofNat (2 + y % 2)).toNat % 2 = y % 2 := by
  rcases Nat.mod_two_eq_zero_or_one y with h | h <;> rw [h]
  · exact ⟨Or.inl rfl, rfl⟩
  · exact ⟨Or.inr rfl, rfl⟩

/-- `decode (compress (x, y)) = (x, y)` for on-curve points when `p ≡ 3 (mod 4)`. -/
theorem decode_compress_aff [Valid c] (h34 : c.p % 4 = 3) {x y : ℕ}
    (h : c.onCurve (.aff x y) = true) :
    c.decode (UInt8.ofNat (2 + y % 2) :: Bytes.ofNatBE c.coordLen x) = some (.aff x y) := by
  obtain ⟨hx, hy, -⟩ := (onCurve_aff_iff x y).mp h
  have hpl := EccLemmas.p_lt_pow_coordLen c
  have hxb : Bytes.toNatBE (Bytes.ofNatBE c.coordLen x) = x := toNatBE_ofNatBE (by omega)
  obtain ⟨r, hr, hrlt, hry⟩ := sqrt_spec h34 h
  obtain ⟨ht, hpar⟩ := uint8_parity y
  unfold WCurve.decode
  dsimp only
  rw [if_pos ⟨ht, length_ofNatBE _ _⟩, hxb, if_pos hx, hr]
  dsimp only
  rw [hpar]
  by_cases hry' : r = y
  · subst hry'
    rw [if_pos rfl, if_pos hrlt]
  · have hneg : (r : ZMod c.p) = -y := by
      rcases hry with h | h
      · exact absurd ((natCast_inj_of_lt hrlt hy).mp h) hry'
      · exact h
    have hdvd : c.p ∣ r + y := by
      rw [← ZMod.natCast_eq_zero_iff, Nat.cast_add, hneg, neg_add_cancel]
    obtain ⟨q, hq⟩ := hdvd
    have hq1 : q = 1 := by
      rcases q with _ | _ | q
      · exfalso
        have h0 : r + y = 0 := by rw [hq]; ring
        have hr0 : (r : ZMod c.p) = y := by
          have : r = 0 ∧ y = 0 := by omega
          rw [this.1, this.2]
        exact hry' ((natCast_inj_of_lt hrlt hy).mp hr0)
      · rfl
      · exfalso
        have : c.p * (q + 1 + 1) ≥ c.p * 2 := Nat.mul_le_mul_left _ (by omega)
        omega
    rw [hq1, mul_one] at hq
    have hpar2 : r % 2 ≠ y % 2 := by omega
    rw [if_neg hpar2]
    have : c.p - r = y := by omega
    rw [this, if_pos hy]

theorem decode_of_compress [Valid c] (h34 : c.p % 4 = 3) {Q : WPoint} {P : Bytes}
    (hQ : c.onCurve Q = true) (h : c.compress Q = some P) : c.decode P = some Q := by
  cases Q with
  | inf => cases h
  | aff x y =>
    simp only [WCurve.compress, Option.some.injEq] at h
    rw [← h]
    exact decode_compress_aff h34 hQ

/-! ## the group model -/

/-- `k • G` in the Mathlib group, read back, is the executable `mulG k`. -/
theorem ofM_nsmul_G [Valid c] (hG : c.onCurve c.G = true) (k : ℕ) :
    ofM (k • toM (c := c) c.G) = c.mulG k := by
  rw [← toM_mulG k hG, ofM_toM (onCurve_mulG k hG)]

theorem ofM_add_nsmul_G [Valid c] (hG : c.onCurve c.G = true) (k il : ℕ) :
    ofM (k • toM (c := c) c.G + il • toM (c := c) c.G) = c.add (c.mulG k) (c.mulG il) := by
  rw [← toM_mulG k hG, ← toM_mulG il hG, ← toM_add (onCurve_mulG k hG) (onCurve_mulG il hG),
    ofM_toM (onCurve_add (onCurve_mulG k hG) (onCurve_mulG il hG))]

/-- The ECDSA key layer of an ECDSA curve of the model is a faithful encoding of the Mathlib
group generated by `G`. -/
theorem ecdsaGroupModel_of (ct : CurveT) (hct : ct = .secp256k1 ∨ ct = .nist256p1) [Valid c]
    (hw : ct.wcurve = c) (h34 : c.p % 4 = 3) (hG : c.onCurve c.G = true)
    (hord : GroupModel.HasOrder (toM (c := c) c.G) ct.order) :
    GroupModel.EcdsaGroupModel ct (toM (c := c) c.G) (enc c) where
  order := hord
  enc_none := by
    intro k
    unfold enc
    rw [ofM_nsmul_G hG, compress_eq_none_iff, ← toM_eq_zero_iff (onCurve_mulG k hG), toM_mulG k hG]
  pub_of_priv := by
    intro k _
    unfold enc
    rw [ofM_nsmul_G hG, ← hw]
    rcases hct with rfl | rfl <;> rfl
  add_mul_g := by
    intro k P il h
    unfold enc at h ⊢
    rw [ofM_nsmul_G hG] at h
    rw [ofM_add_nsmul_G hG]
    have hd := decode_of_compress h34 (onCurve_mulG k hG) h
    unfold pubAddMulG
    rw [hw, hd]
  canon := by
    intro k P h
    unfold enc at h
    rw [ofM_nsmul_G hG] at h
    have hd := decode_of_compress h34 (onCurve_mulG k hG) h
    have hwd : wDecodePub ct P = some (c.mulG k) := by
      unfold wDecodePub
      rw [hw, hd]
    rcases hct with rfl | rfl
    · show (match wDecodePub .secp256k1 P with
        | some p => CurveT.secp256k1.wcurve.compress p | none => none) = some P
      rw [hwd, hw]; exact h
    · show (match wDecodePub .nist256p1 P with
        | some p => CurveT.nist256p1.wcurve.compress p | none => none) = some P
      rw [hwd, hw]; exact h

/-- **secp256k1**: the model's key layer is a faithful encoding of Mathlib's group of points. -/
theorem ecdsaGroupModel_secp256k1 :
    GroupModel.EcdsaGroupModel .secp256k1 secp256k1G (enc secp256k1) :=
  ecdsaGroupModel_of .secp256k1 (Or.inl rfl) rfl (by decide +kernel) secp256k1_G_onCurve
    secp256k1_hasOrder

/-- **NIST P-256**: the model's key layer is a faithful encoding of Mathlib's group of points. -/
theorem ecdsaGroupModel_nist256p1 :
    GroupModel.EcdsaGroupModel .nist256p1 nist256p1G (enc nist256p1) :=
  ecdsaGroupModel_of .nist256p1 (Or.inr rfl) rfl (by decide +kernel) nist256p1_G_onCurve
    nist256p1_hasOrder

/-- **`EcdsaLaw` for secp256k1, without hypotheses.** -/
theorem ecdsaLaw_secp256k1 : EcdsaLaw .secp256k1 :=
  GroupModel.ecdsaLaw_of_group_model ecdsaGroupModel_secp256k1

/-- **`EcdsaLaw` for NIST P-256, without hypotheses.** -/
theorem ecdsaLaw_nist256p1 : EcdsaLaw .nist256p1 :=
  GroupModel.ecdsaLaw_of_group_model ecdsaGroupModel_nist256p1

theorem ecdsaInfLaw_secp256k1 : EcdsaInfLaw .secp256k1 :=
  GroupModel.ecdsaInfLaw_of_group_model ecdsaGroupModel_secp256k1

theorem ecdsaInfLaw_nist256p1 : EcdsaInfLaw .nist256p1 :=
  GroupModel.ecdsaInfLaw_of_group_model ecdsaGroupModel_nist256p1

end BipVerif.WGroup
