/-
Instantiation for secp256k1 and NIST P-256: both are elliptic curves over their prime fields,
the base point lies on the curve, and it has order exactly `n` in Mathlib's group of points.
-/
import Mathlib.GroupTheory.OrderOfElement
import BipVerif.Lemmas.WGroup.Jacobian
import BipVerif.Lemmas.GroupModel

namespace BipVerif.WGroup
open BipVerif BipVerif.Prim WeierstrassCurve WeierstrassCurve.Affine

/-- If `n` is prime, `G` is a finite on-curve point and the executable `mulG n` returns
infinity, then `G` has order exactly `n` in the Mathlib group. -/
theorem hasOrder_of_prime {c : WCurve} [Valid c] (hG : c.onCurve c.G = true) (hn : c.n.Prime)
    (hnG : c.mulG c.n = .inf) : GroupModel.HasOrder (toM (c := c) c.G) c.n := by
  have h0 : c.n • toM (c := c) c.G = 0 := by rw [← toM_mulG _ hG, hnG]; rfl
  have hne : toM (c := c) c.G ≠ 0 := toM_aff_ne_zero (x := c.gx) (y := c.gy) hG
  have hord : addOrderOf (toM (c := c) c.G) = c.n := by
    rcases (Nat.dvd_prime hn).mp (addOrderOf_dvd_of_nsmul_eq_zero h0) with h | h
    · exact absurd (AddMonoid.addOrderOf_eq_one_iff.mp h) hne
    · exact h
  intro k
  rw [← hord]
  exact addOrderOf_dvd_iff_nsmul_eq_zero.symm

/-! ## secp256k1 -/

instance valid_secp256k1 : Valid secp256k1 where
  prime := Pratt.secp256k1_p_prime
  two_lt := by decide +kernel
  disc := by
    have h : ((4 * secp256k1.a ^ 3 + 27 * secp256k1.b ^ 2 : ℕ) : ZMod secp256k1.p) ≠ 0 := by
      rw [Ne, ZMod.natCast_eq_zero_iff]; decide +kernel
    simpa using h

theorem secp256k1_G_onCurve : secp256k1.onCurve secp256k1.G = true := by decide +kernel

theorem secp256k1_mulG_n : secp256k1.mulG secp256k1.n = .inf := by decide +kernel

/-- The secp256k1 base point as a Mathlib point. -/
noncomputable def secp256k1G : (W secp256k1).Point := toM secp256k1.G

theorem secp256k1_n_nsmul_G : secp256k1.n • secp256k1G = 0 := by
  unfold secp256k1G
  rw [← toM_mulG _ secp256k1_G_onCurve, secp256k1_mulG_n]; rfl

/-- **secp256k1**: `G` has order exactly `n` in Mathlib's group of points. -/
theorem secp256k1_hasOrder : GroupModel.HasOrder secp256k1G secp256k1.n :=
  hasOrder_of_prime secp256k1_G_onCurve Pratt.secp256k1_n_prime secp256k1_mulG_n

/-! ## NIST P-256 -/

instance valid_nist256p1 : Valid nist256p1 where
  prime := Pratt.nist256p1_p_prime
  two_lt := by decide +kernel
  disc := by
    have h : ((4 * nist256p1.a ^ 3 + 27 * nist256p1.b ^ 2 : ℕ) : ZMod nist256p1.p) ≠ 0 := by
      rw [Ne, ZMod.natCast_eq_zero_iff]; decide +kernel
    simpa using h

theorem nist256p1_G_onCurve : nist256p1.onCurve nist256p1.G = true := by decide +kernel

theorem nist256p1_mulG_n : nist256p1.mulG nist256p1.n = .inf := by decide +kernel

/-- The NIST P-256 base point as a Mathlib point. -/
noncomputable def nist256p1G : (W nist256p1).Point := toM nist256p1.G

theorem nist256p1_n_nsmul_G : nist256p1.n • nist256p1G = 0 := by
  unfold nist256p1G
  rw [← toM_mulG _ nist256p1_G_onCurve, nist256p1_mulG_n]; rfl

/-- **NIST P-256**: `G` has order exactly `n` in Mathlib's group of points. -/
theorem nist256p1_hasOrder : GroupModel.HasOrder nist256p1G nist256p1.n :=
  hasOrder_of_prime nist256p1_G_onCurve Pratt.nist256p1_n_prime nist256p1_mulG_n

end BipVerif.WGroup
