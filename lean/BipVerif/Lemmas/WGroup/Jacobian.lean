/-
Correctness of the Jacobian doubling / mixed addition and of the double-and-add loop
`WCurve.mul` with respect to Mathlib's group law.
-/
import BipVerif.Lemmas.WGroup.Basic

namespace BipVerif.WGroup
open BipVerif BipVerif.Prim WeierstrassCurve WeierstrassCurve.Affine
open BipVerif.Prim.WCurve (JPoint jInf)

variable {c : WCurve}

/-- The Jacobian triple `J` (reduced coordinates) represents the Mathlib point `P`:
`Z = 0 ↦ 0`, `Z ≠ 0 ↦ (X/Z², Y/Z³)`. -/
def JRep [Valid c] (J : JPoint) (P : (W c).Point) : Prop :=
  J.X < c.p ∧ J.Y < c.p ∧ J.Z < c.p ∧
    ((J.Z = 0 ∧ P = 0) ∨
      ∃ (x y : ZMod c.p) (h : (W c).Nonsingular x y), (J.Z : ZMod c.p) ≠ 0 ∧ P = Point.some x y h ∧
        (J.X : ZMod c.p) = x * (J.Z : ZMod c.p) ^ 2 ∧ (J.Y : ZMod c.p) = y * (J.Z : ZMod c.p) ^ 3)

theorem JRep.inf [Valid c] : JRep (c := c) jInf 0 := by
  have := Valid.two_lt (c := c)
  exact ⟨by show 1 < c.p; omega, by show 1 < c.p; omega, by show 0 < c.p; omega, Or.inl ⟨rfl, rfl⟩⟩

theorem JRep.some [Valid c] {J : JPoint} {x y : ZMod c.p} (h : (W c).Nonsingular x y)
    (hX : J.X < c.p) (hY : J.Y < c.p) (hZ : J.Z < c.p) (hz : (J.Z : ZMod c.p) ≠ 0)
    (eX : (J.X : ZMod c.p) = x * (J.Z : ZMod c.p) ^ 2)
    (eY : (J.Y : ZMod c.p) = y * (J.Z : ZMod c.p) ^ 3) : JRep J (Point.some x y h) :=
  ⟨hX, hY, hZ, Or.inr ⟨x, y, h, hz, rfl, eX, eY⟩⟩

theorem jDouble_eq (J : JPoint) :
    c.jDouble J =
      if J.Z = 0 ∨ J.Y = 0 then jInf
      else
        ⟨subMod ((3 * J.X * J.X + c.a * (J.Z * J.Z % c.p * (J.Z * J.Z % c.p) % c.p)) % c.p *
            ((3 * J.X * J.X + c.a * (J.Z * J.Z % c.p * (J.Z * J.Z % c.p) % c.p)) % c.p))
            (2 * (4 * J.X * (J.Y * J.Y % c.p) % c.p)) c.p,
          subMod ((3 * J.X * J.X + c.a * (J.Z * J.Z % c.p * (J.Z * J.Z % c.p) % c.p)) % c.p *
            subMod (4 * J.X * (J.Y * J.Y % c.p) % c.p)
              (subMod ((3 * J.X * J.X + c.a * (J.Z * J.Z % c.p * (J.Z * J.Z % c.p) % c.p)) % c.p *
                ((3 * J.X * J.X + c.a * (J.Z * J.Z % c.p * (J.Z * J.Z % c.p) % c.p)) % c.p))
                (2 * (4 * J.X * (J.Y * J.Y % c.p) % c.p)) c.p) c.p)
            (8 * (J.Y * J.Y % c.p * (J.Y * J.Y % c.p) % c.p)) c.p,
          2 * J.Y * J.Z % c.p⟩ := rfl

/-- **Jacobian doubling** computes `P + P`. -/
theorem jDouble_rep [Valid c] {J : JPoint} {P : (W c).Point} (h : JRep J P) :
    JRep (c.jDouble J) (P + P) := by
  obtain ⟨hX, hY, hZ, h⟩ := h
  have hp := p_pos (c := c)
  have h2 := two_ne_zero' (c := c)
  rw [jDouble_eq]
  rcases h with ⟨hz, rfl⟩ | ⟨x, y, hn, hz, rfl, eX, eY⟩
  · rw [if_pos (Or.inl hz), add_zero]; exact JRep.inf
  · by_cases hy0 : J.Y = 0
    · rw [if_pos (Or.inr hy0)]
      have hy : y = 0 := by
        have : y * (J.Z : ZMod c.p) ^ 3 = 0 := by rw [← eY, hy0, Nat.cast_zero]
        exact (mul_eq_zero.mp this).resolve_right (pow_ne_zero _ hz)
      rw [Point.add_self_of_Y_eq (by rw [W_negY, hy, neg_zero])]
      exact JRep.inf
    · have hzn : J.Z ≠ 0 := fun h => hz (by rw [h, Nat.cast_zero])
      rw [if_neg (by rintro (h | h); exacts [hzn h, hy0 h])]
      have hy : y ≠ 0 := by
        intro hy
        apply hy0
        rw [← natCast_eq_zero_of_lt hY, eY, hy, zero_mul]
      have hyn : y ≠ (W c).negY x y := by
        rw [W_negY]
        intro h
        have : (2 : ZMod c.p) * y = 0 := by linear_combination h
        rcases mul_eq_zero.mp this with h | h
        exacts [h2 h, hy h]
      rw [Point.add_self_of_Y_ne hyn]
      refine JRep.some _ (subMod_lt _ _ hp) (subMod_lt _ _ hp) (Nat.mod_lt _ hp) ?_ ?_ ?_
      · simp only [cast_mod, Nat.cast_mul, Nat.cast_ofNat, eY]
        exact mul_ne_zero (mul_ne_zero h2 (mul_ne_zero hy (pow_ne_zero _ hz))) hz
      · simp only [cast_subMod, cast_mod, Nat.cast_mul, Nat.cast_add, Nat.cast_ofNat, eX, eY]
        rw [slope_of_Y_ne rfl hyn]
        simp only [addX, W_negY, W_a₁, W_a₂, W_a₄, sub_neg_eq_add, ← two_mul]
        field_simp
        ring
      · simp only [cast_subMod, cast_mod, Nat.cast_mul, Nat.cast_add, Nat.cast_ofNat, eX, eY]
        rw [slope_of_Y_ne rfl hyn]
        simp only [addY, negAddY, addX, W_negY, W_a₁, W_a₂, W_a₄, sub_neg_eq_add, ← two_mul]
        field_simp
        ring

theorem jAddAff_eq (J : JPoint) (x2 y2 : ℕ) :
    c.jAddAff J x2 y2 =
      if J.Z = 0 then ⟨x2, y2, 1⟩
      else if x2 * (J.Z * J.Z % c.p) % c.p = J.X then
        (if y2 * (J.Z * J.Z % c.p * J.Z % c.p) % c.p = J.Y then c.jDouble J else jInf)
      else
        ⟨subMod (subMod (y2 * (J.Z * J.Z % c.p * J.Z % c.p) % c.p) J.Y c.p *
            subMod (y2 * (J.Z * J.Z % c.p * J.Z % c.p) % c.p) J.Y c.p)
            (subMod (x2 * (J.Z * J.Z % c.p) % c.p) J.X c.p *
              subMod (x2 * (J.Z * J.Z % c.p) % c.p) J.X c.p % c.p *
              subMod (x2 * (J.Z * J.Z % c.p) % c.p) J.X c.p % c.p +
              2 * (J.X * (subMod (x2 * (J.Z * J.Z % c.p) % c.p) J.X c.p *
                subMod (x2 * (J.Z * J.Z % c.p) % c.p) J.X c.p % c.p) % c.p)) c.p,
          subMod (subMod (y2 * (J.Z * J.Z % c.p * J.Z % c.p) % c.p) J.Y c.p *
            subMod (J.X * (subMod (x2 * (J.Z * J.Z % c.p) % c.p) J.X c.p *
                subMod (x2 * (J.Z * J.Z % c.p) % c.p) J.X c.p % c.p) % c.p)
              (subMod (subMod (y2 * (J.Z * J.Z % c.p * J.Z % c.p) % c.p) J.Y c.p *
                subMod (y2 * (J.Z * J.Z % c.p * J.Z % c.p) % c.p) J.Y c.p)
                (subMod (x2 * (J.Z * J.Z % c.p) % c.p) J.X c.p *
                  subMod (x2 * (J.Z * J.Z % c.p) % c.p) J.X c.p % c.p *
                  subMod (x2 * (J.Z * J.Z % c.p) % c.p) J.X c.p % c.p +
                  2 * (J.X * (subMod (x2 * (J.Z * J.Z % c.p) % c.p) J.X c.p *
                    subMod (x2 * (J.Z * J.Z % c.p) % c.p) J.X c.p % c.p) % c.p)) c.p) c.p)
            (J.Y * (subMod (x2 * (J.Z * J.Z % c.p) % c.p) J.X c.p *
              subMod (x2 * (J.Z * J.Z % c.p) % c.p) J.X c.p % c.p *
              subMod (x2 * (J.Z * J.Z % c.p) % c.p) J.X c.p % c.p)) c.p,
          J.Z * subMod (x2 * (J.Z * J.Z % c.p) % c.p) J.X c.p % c.p⟩ := rfl

/-- **Jacobian mixed addition** computes `P + (x2, y2)`. -/
theorem jAddAff_rep [Valid c] {J : JPoint} {P : (W c).Point} (h : JRep J P) {x2 y2 : ℕ}
    (hQ : c.onCurve (.aff x2 y2) = true) :
    JRep (c.jAddAff J x2 y2) (P + toM (.aff x2 y2)) := by
  obtain ⟨hx2, hy2, e2⟩ := (onCurve_aff_iff x2 y2).mp hQ
  have n2 := W_nonsingular e2
  have hJ := h
  obtain ⟨hX, hY, hZ, h⟩ := h
  have hp := p_pos (c := c)
  have hp2 := Valid.two_lt (c := c)
  rw [jAddAff_eq, toM_aff hQ]
  rcases h with ⟨hz, rfl⟩ | ⟨x1, y1, n1, hz, rfl, eX, eY⟩
  · rw [if_pos hz, zero_add]
    refine JRep.some _ hx2 hy2 (by show 1 < c.p; omega) ?_ ?_ ?_ <;> simp
  · have hzn : J.Z ≠ 0 := fun h => hz (by rw [h, Nat.cast_zero])
    rw [if_neg hzn]
    have hu : x2 * (J.Z * J.Z % c.p) % c.p = J.X ↔ (x2 : ZMod c.p) = x1 := by
      rw [← natCast_inj_of_lt (Nat.mod_lt _ hp) hX, eX]
      simp only [cast_mod, Nat.cast_mul]
      rw [← pow_two]
      exact mul_left_inj' (pow_ne_zero _ hz)
    have hs : y2 * (J.Z * J.Z % c.p * J.Z % c.p) % c.p = J.Y ↔ (y2 : ZMod c.p) = y1 := by
      rw [← natCast_inj_of_lt (Nat.mod_lt _ hp) hY, eY]
      simp only [cast_mod, Nat.cast_mul]
      rw [show (J.Z : ZMod c.p) * J.Z * J.Z = (J.Z : ZMod c.p) ^ 3 by ring]
      exact mul_left_inj' (pow_ne_zero _ hz)
    by_cases hxe : (x2 : ZMod c.p) = x1
    · rw [if_pos (hu.mpr hxe)]
      by_cases hye : (y2 : ZMod c.p) = y1
      · rw [if_pos (hs.mpr hye)]
        subst hxe hye
        exact jDouble_rep hJ
      · rw [if_neg (fun h => hye (hs.mp h))]
        have hy : y1 = (W c).negY x2 y2 := by
          rcases Y_eq_of_X_eq n1.1 n2.1 hxe.symm with h | h
          · exact absurd h.symm hye
          · exact h
        rw [Point.add_of_Y_eq hxe.symm hy]
        exact JRep.inf
    · rw [if_neg (fun h => hxe (hu.mp h))]
      have hxne : x1 ≠ (x2 : ZMod c.p) := fun h => hxe h.symm
      have hd : x1 - (x2 : ZMod c.p) ≠ 0 := sub_ne_zero.mpr hxne
      rw [Point.add_of_X_ne hxne]
      refine JRep.some _ (subMod_lt _ _ hp) (subMod_lt _ _ hp) (Nat.mod_lt _ hp) ?_ ?_ ?_
      · simp only [cast_subMod, cast_mod, Nat.cast_mul, eX]
        refine mul_ne_zero hz ?_
        rw [show (x2 : ZMod c.p) * ((J.Z : ZMod c.p) * J.Z) - x1 * (J.Z : ZMod c.p) ^ 2 =
          -((x1 - x2) * (J.Z : ZMod c.p) ^ 2) by ring]
        exact neg_ne_zero.mpr (mul_ne_zero hd (pow_ne_zero _ hz))
      · simp only [cast_subMod, cast_mod, Nat.cast_mul, Nat.cast_add, Nat.cast_ofNat, eX, eY]
        rw [slope_of_X_ne hxne]
        simp only [addX, W_a₁, W_a₂]
        field_simp
        ring
      · simp only [cast_subMod, cast_mod, Nat.cast_mul, Nat.cast_add, Nat.cast_ofNat, eX, eY]
        rw [slope_of_X_ne hxne]
        simp only [addY, negAddY, addX, W_negY, W_a₁, W_a₂]
        field_simp
        ring

/-- Conversion back to affine coordinates. -/
theorem jToAffine_rep [Valid c] {J : JPoint} {P : (W c).Point} (h : JRep J P) :
    c.onCurve (c.jToAffine J) = true ∧ toM (c.jToAffine J) = P := by
  obtain ⟨hX, hY, hZ, h⟩ := h
  have hp := p_pos (c := c)
  have hp2 := Valid.two_lt (c := c)
  unfold WCurve.jToAffine
  rcases h with ⟨hz, rfl⟩ | ⟨x, y, hn, hz, rfl, eX, eY⟩
  · rw [if_pos hz]; exact ⟨rfl, rfl⟩
  · have hzn : J.Z ≠ 0 := fun h => hz (by rw [h, Nat.cast_zero])
    rw [if_neg hzn]
    dsimp only
    have hx' : ((J.X * (invMod J.Z c.p * invMod J.Z c.p % c.p) % c.p : ℕ) : ZMod c.p) = x := by
      simp only [cast_mod, Nat.cast_mul, cast_invMod hp2, eX]
      field_simp
    have hy' : ((J.Y * (invMod J.Z c.p * invMod J.Z c.p % c.p * invMod J.Z c.p % c.p) % c.p : ℕ) :
        ZMod c.p) = y := by
      simp only [cast_mod, Nat.cast_mul, cast_invMod hp2, eY]
      field_simp
    exact ⟨onCurve_of_cast (Nat.mod_lt _ hp) (Nat.mod_lt _ hp) hx' hy' hn.1,
      toM_eq_some hx' hy' hn⟩

theorem mulLoop_succ (k x y i : ℕ) (acc : JPoint) :
    c.mulLoop k x y (i + 1) acc =
      c.mulLoop k x y i
        (if k / 2 ^ i % 2 = 1 then c.jAddAff (c.jDouble acc) x y else c.jDouble acc) := rfl

/-- Loop invariant of the MSB-first double-and-add. -/
theorem mulLoop_rep [Valid c] (k : ℕ) {x y : ℕ} (hQ : c.onCurve (.aff x y) = true) :
    ∀ (i : ℕ) (acc : JPoint) (A : (W c).Point), JRep acc A →
      JRep (c.mulLoop k x y i acc) (2 ^ i • A + (k % 2 ^ i) • toM (.aff x y))
  | 0, acc, A, h => by
    simpa [WCurve.mulLoop, Nat.mod_one] using h
  | i + 1, acc, A, h => by
    rw [mulLoop_succ]
    have hd := jDouble_rep h
    have hmod : k % 2 ^ (i + 1) = k % 2 ^ i + 2 ^ i * (k / 2 ^ i % 2) := Nat.mod_pow_succ
    by_cases hb : k / 2 ^ i % 2 = 1
    · rw [if_pos hb]
      have := mulLoop_rep k hQ i _ _ (jAddAff_rep hd hQ)
      convert this using 1
      rw [hmod, hb, mul_one, pow_succ, mul_nsmul, add_nsmul, nsmul_add, nsmul_add, two_nsmul]
      abel
    · rw [if_neg hb]
      have hb0 : k / 2 ^ i % 2 = 0 := by omega
      have := mulLoop_rep k hQ i _ _ hd
      convert this using 1
      rw [hmod, hb0, mul_zero, add_zero, pow_succ, mul_nsmul, two_nsmul, nsmul_add]

/-- **Correctness of `WCurve.mul`**: it is `k • P` in the Mathlib group. -/
theorem mul_correct [Valid c] (k : ℕ) {P : WPoint} (hP : c.onCurve P = true) :
    c.onCurve (c.mul k P) = true ∧ toM (c.mul k P) = k • toM (c := c) P := by
  cases P with
  | inf => exact ⟨rfl, by simp [WCurve.mul]⟩
  | aff x y =>
    unfold WCurve.mul
    dsimp only
    by_cases hk : k = 0
    · rw [if_pos hk, hk]; exact ⟨rfl, by simp⟩
    · rw [if_neg hk]
      obtain ⟨hx, hy, -⟩ := (onCurve_aff_iff x y).mp hP
      rw [Nat.mod_eq_of_lt hx, Nat.mod_eq_of_lt hy]
      have h := mulLoop_rep k hP (Nat.log2 k + 1) jInf 0 JRep.inf
      have hlt : k < 2 ^ (Nat.log2 k + 1) := by
        rw [Nat.log2_eq_log_two]; exact Nat.lt_pow_succ_log_self (by norm_num) k
      rw [nsmul_zero, zero_add, Nat.mod_eq_of_lt hlt] at h
      exact jToAffine_rep h

theorem onCurve_mul [Valid c] (k : ℕ) {P : WPoint} (hP : c.onCurve P = true) :
    c.onCurve (c.mul k P) = true := (mul_correct k hP).1

theorem toM_mul [Valid c] (k : ℕ) {P : WPoint} (hP : c.onCurve P = true) :
    toM (c.mul k P) = k • toM (c := c) P := (mul_correct k hP).2

theorem onCurve_mulG [Valid c] (k : ℕ) (hG : c.onCurve c.G = true) :
    c.onCurve (c.mulG k) = true := onCurve_mul k hG

theorem toM_mulG [Valid c] (k : ℕ) (hG : c.onCurve c.G = true) :
    toM (c.mulG k) = k • toM (c := c) c.G := toM_mul k hG

end BipVerif.WGroup
