/-
Connection of the executable short-Weierstrass arithmetic of `Prim/Weierstrass.lean` with
Mathlib's elliptic-curve group law (`WeierstrassCurve.Affine.Point`, an `AddCommGroup`).

This file: the Mathlib curve `W c`, cast lemmas for the modular primitives, the map `toM` from
`WPoint` to Mathlib points, and correctness of the affine law `WCurve.add`.
-/
import Mathlib.AlgebraicGeometry.EllipticCurve.Affine.Point
import Mathlib.FieldTheory.Finite.Basic
import Mathlib.Tactic.FieldSimp
import Mathlib.Tactic.LinearCombination
import BipVerif.Lemmas.Pratt

namespace BipVerif.WGroup
open BipVerif BipVerif.Prim WeierstrassCurve WeierstrassCurve.Affine

/-! ## cast lemmas for `Prim/Modular.lean` -/

section Casts
variable {p : ℕ}

theorem subMod_lt (a b : ℕ) (hp : 0 < p) : subMod a b p < p := Nat.mod_lt _ hp

theorem negMod_lt (a : ℕ) (hp : 0 < p) : negMod a p < p := Nat.mod_lt _ hp

theorem cast_mod (a : ℕ) : ((a % p : ℕ) : ZMod p) = a := ZMod.natCast_mod a p

theorem cast_subMod [NeZero p] (a b : ℕ) : ((subMod a b p : ℕ) : ZMod p) = a - b := by
  unfold subMod
  have hb : b % p ≤ p := (Nat.mod_lt _ (NeZero.pos p)).le
  rw [ZMod.natCast_mod, Nat.cast_add, ZMod.natCast_mod, Nat.cast_sub hb, ZMod.natCast_self,
    ZMod.natCast_mod]
  ring

theorem cast_negMod [NeZero p] (a : ℕ) : ((negMod a p : ℕ) : ZMod p) = -a := by
  unfold negMod
  have hb : a % p ≤ p := (Nat.mod_lt _ (NeZero.pos p)).le
  rw [ZMod.natCast_mod, Nat.cast_sub hb, ZMod.natCast_self, ZMod.natCast_mod]
  ring

theorem cast_powMod (b e : ℕ) : ((powMod b e p : ℕ) : ZMod p) = (b : ZMod p) ^ e := by
  have := (ZMod.natCast_eq_natCast_iff _ _ _).mpr (Pratt.powMod_modEq b e p)
  simpa using this

theorem powMod_lt (b e : ℕ) (hp : 0 < p) : powMod b e p < p := by
  unfold powMod
  suffices h : ∀ fuel b e acc, acc < p → powModAux p fuel b e acc < p from
    h _ _ _ _ (Nat.mod_lt _ hp)
  intro fuel
  induction fuel with
  | zero => intro b e acc h; simpa [powModAux] using h
  | succ n ih =>
    intro b e acc h
    unfold powModAux
    split
    · exact h
    · apply ih
      split
      · exact Nat.mod_lt _ hp
      · exact h

theorem invMod_lt (a : ℕ) (hp : 0 < p) : invMod a p < p := powMod_lt _ _ hp

/-- Fermat inverse: `a^(p-2) = a⁻¹` in `ZMod p` (`0⁻¹ = 0`), for an odd prime `p`. -/
theorem cast_invMod [Fact p.Prime] (hp2 : 2 < p) (a : ℕ) :
    ((invMod a p : ℕ) : ZMod p) = (a : ZMod p)⁻¹ := by
  unfold invMod
  rw [cast_powMod]
  by_cases ha : (a : ZMod p) = 0
  · rw [ha, inv_zero, zero_pow (by omega)]
  · have h1 : (a : ZMod p) ^ (p - 1) = 1 := ZMod.pow_card_sub_one_eq_one ha
    have h2 : (a : ZMod p) ^ (p - 2) * a = 1 := by
      rw [← pow_succ]
      have : p - 2 + 1 = p - 1 := by omega
      rw [this, h1]
    exact eq_inv_of_mul_eq_one_left h2

theorem natCast_inj_of_lt {a b : ℕ} (ha : a < p) (hb : b < p) :
    (a : ZMod p) = (b : ZMod p) ↔ a = b := by
  rw [ZMod.natCast_eq_natCast_iff', Nat.mod_eq_of_lt ha, Nat.mod_eq_of_lt hb]

theorem natCast_eq_zero_of_lt {a : ℕ} (ha : a < p) : (a : ZMod p) = 0 ↔ a = 0 := by
  rw [ZMod.natCast_eq_zero_iff]
  constructor
  · intro h
    exact Nat.eq_zero_of_dvd_of_lt h ha
  · rintro rfl; exact dvd_zero _

end Casts

/-! ## the Mathlib curve -/

/-- Hypotheses under which `c` is an elliptic curve over the prime field `F_p`. -/
class Valid (c : WCurve) : Prop where
  prime : c.p.Prime
  two_lt : 2 < c.p
  disc : (4 * (c.a : ZMod c.p) ^ 3 + 27 * (c.b : ZMod c.p) ^ 2) ≠ 0

instance (c : WCurve) [h : Valid c] : Fact c.p.Prime := ⟨h.prime⟩

/-- `y² = x³ + a·x + b` over `ZMod p` as a Mathlib Weierstrass curve. -/
def W (c : WCurve) : Affine (ZMod c.p) := ⟨0, 0, 0, (c.a : ZMod c.p), (c.b : ZMod c.p)⟩

variable {c : WCurve}

@[simp] theorem W_a₁ : (W c).a₁ = 0 := rfl
@[simp] theorem W_a₂ : (W c).a₂ = 0 := rfl
@[simp] theorem W_a₃ : (W c).a₃ = 0 := rfl
@[simp] theorem W_a₄ : (W c).a₄ = (c.a : ZMod c.p) := rfl
@[simp] theorem W_a₆ : (W c).a₆ = (c.b : ZMod c.p) := rfl

theorem p_pos [Valid c] : 0 < c.p := by have := Valid.two_lt (c := c); omega

theorem two_ne_zero' [Valid c] : (2 : ZMod c.p) ≠ 0 := by
  have h2 := Valid.two_lt (c := c)
  have : ((2 : ℕ) : ZMod c.p) ≠ 0 := by
    rw [Ne, ZMod.natCast_eq_zero_iff]
    intro h
    have := Nat.le_of_dvd (by norm_num) h
    omega
  simpa using this

theorem W_Δ : (W c).Δ = -16 * (4 * (c.a : ZMod c.p) ^ 3 + 27 * (c.b : ZMod c.p) ^ 2) := by
  simp only [WeierstrassCurve.Δ, WeierstrassCurve.b₂, WeierstrassCurve.b₄, WeierstrassCurve.b₆,
    WeierstrassCurve.b₈, W_a₁, W_a₂, W_a₃, W_a₄, W_a₆]
  ring

theorem W_Δ_ne_zero [Valid c] : (W c).Δ ≠ 0 := by
  rw [W_Δ]
  have h2 := two_ne_zero' (c := c)
  have h16 : (-16 : ZMod c.p) ≠ 0 := by
    have : (-16 : ZMod c.p) = -(2 ^ 4) := by norm_num
    rw [this]
    exact neg_ne_zero.mpr (pow_ne_zero _ h2)
  exact mul_ne_zero h16 Valid.disc

theorem W_equation_iff (x y : ZMod c.p) :
    (W c).Equation x y ↔ y ^ 2 = x ^ 3 + (c.a : ZMod c.p) * x + (c.b : ZMod c.p) := by
  rw [equation_iff]
  simp only [W_a₁, W_a₂, W_a₃, W_a₄, W_a₆]
  constructor <;> intro h <;> linear_combination h

theorem W_nonsingular [Valid c] {x y : ZMod c.p} (h : (W c).Equation x y) :
    (W c).Nonsingular x y :=
  (equation_iff_nonsingular_of_Δ_ne_zero W_Δ_ne_zero).mp h

@[simp] theorem W_negY (x y : ZMod c.p) : (W c).negY x y = -y := by
  simp [negY]

/-! ## the map to Mathlib points -/

open Classical in
/-- The Mathlib point of a `WPoint`; points whose (cast) coordinates do not satisfy the curve
equation are sent to `0` (all lemmas are about on-curve points). -/
noncomputable def toM [Valid c] : WPoint → (W c).Point
  | .inf => 0
  | .aff x y =>
    if h : (W c).Equation (x : ZMod c.p) (y : ZMod c.p) then .some _ _ (W_nonsingular h) else 0

@[simp] theorem toM_inf [Valid c] : toM (c := c) .inf = 0 := rfl

theorem toM_eq_some [Valid c] {x y : ℕ} {X Y : ZMod c.p} (hx : (x : ZMod c.p) = X)
    (hy : (y : ZMod c.p) = Y) (h : (W c).Nonsingular X Y) :
    toM (.aff x y) = Point.some X Y h := by
  subst hx hy
  simp only [toM]
  rw [dif_pos h.1]

theorem onCurve_aff_iff [Valid c] (x y : ℕ) :
    c.onCurve (.aff x y) = true ↔
      x < c.p ∧ y < c.p ∧ (W c).Equation (x : ZMod c.p) (y : ZMod c.p) := by
  simp only [WCurve.onCurve, WCurve.rhs, Bool.and_eq_true, decide_eq_true_eq, beq_iff_eq,
    and_assoc]
  refine and_congr_right fun _ => and_congr_right fun _ => ?_
  rw [W_equation_iff, ← ZMod.natCast_eq_natCast_iff']
  push_cast
  constructor <;> intro h <;> linear_combination h

theorem onCurve_of_equation [Valid c] {x y : ℕ} (hx : x < c.p) (hy : y < c.p)
    (h : (W c).Equation (x : ZMod c.p) (y : ZMod c.p)) : c.onCurve (.aff x y) = true :=
  (onCurve_aff_iff x y).mpr ⟨hx, hy, h⟩

theorem onCurve_of_cast [Valid c] {x y : ℕ} {X Y : ZMod c.p} (hx : x < c.p) (hy : y < c.p)
    (hX : (x : ZMod c.p) = X) (hY : (y : ZMod c.p) = Y) (h : (W c).Equation X Y) :
    c.onCurve (.aff x y) = true := by
  subst hX hY
  exact onCurve_of_equation hx hy h

theorem toM_aff [Valid c] {x y : ℕ} (h : c.onCurve (.aff x y) = true) :
    toM (.aff x y) = Point.some (x : ZMod c.p) (y : ZMod c.p)
      (W_nonsingular ((onCurve_aff_iff x y).mp h).2.2) :=
  toM_eq_some rfl rfl _

theorem toM_aff_ne_zero [Valid c] {x y : ℕ} (h : c.onCurve (.aff x y) = true) :
    toM (c := c) (.aff x y) ≠ 0 := by
  rw [toM_aff h]; exact Point.some_ne_zero _

theorem toM_eq_zero_iff [Valid c] {P : WPoint} (h : c.onCurve P = true) :
    toM (c := c) P = 0 ↔ P = .inf := by
  cases P with
  | inf => simp
  | aff x y => simp [toM_aff_ne_zero h]

/-- `toM` is injective on on-curve points. -/
theorem toM_injOn [Valid c] {P Q : WPoint} (hP : c.onCurve P = true) (hQ : c.onCurve Q = true)
    (h : toM (c := c) P = toM Q) : P = Q := by
  cases P with
  | inf =>
    cases Q with
    | inf => rfl
    | aff x y => exact absurd h.symm (toM_aff_ne_zero hQ)
  | aff x y =>
    cases Q with
    | inf => exact absurd h (toM_aff_ne_zero hP)
    | aff x' y' =>
      rw [toM_aff hP, toM_aff hQ] at h
      obtain ⟨hx, hy, -⟩ := (onCurve_aff_iff x y).mp hP
      obtain ⟨hx', hy', -⟩ := (onCurve_aff_iff x' y').mp hQ
      injection h with h1 h2
      rw [(natCast_inj_of_lt hx hx').mp h1, (natCast_inj_of_lt hy hy').mp h2]

/-! ## correctness of the affine law `WCurve.add` -/

theorem add_inf_left (Q : WPoint) : c.add .inf Q = Q := by
  cases Q <;> rfl

theorem add_inf_right (P : WPoint) : c.add P .inf = P := by
  cases P <;> rfl

/-- The slope computed by `WCurve.add`. -/
def addSlope (c : WCurve) (x1 y1 x2 y2 : ℕ) : ℕ :=
  if x1 = x2 then (3 * x1 * x1 + c.a) % c.p * invMod (2 * y1) c.p % c.p
  else subMod y2 y1 c.p * invMod (subMod x2 x1 c.p) c.p % c.p

theorem add_aff_aff (x1 y1 x2 y2 : ℕ) :
    c.add (.aff x1 y1) (.aff x2 y2) =
      if x1 = x2 ∧ (y1 + y2) % c.p = 0 then .inf
      else
        let l := addSlope c x1 y1 x2 y2
        let x3 := subMod (l * l) (x1 + x2) c.p
        .aff x3 (subMod (l * subMod x1 x3 c.p) y1 c.p) := rfl

theorem add_correct_aff [Valid c] {x1 y1 x2 y2 : ℕ} (hP : c.onCurve (.aff x1 y1) = true)
    (hQ : c.onCurve (.aff x2 y2) = true) :
    c.onCurve (c.add (.aff x1 y1) (.aff x2 y2)) = true ∧
      toM (c.add (.aff x1 y1) (.aff x2 y2)) = toM (c := c) (.aff x1 y1) + toM (.aff x2 y2) := by
  obtain ⟨hx1, hy1, h1⟩ := (onCurve_aff_iff x1 y1).mp hP
  obtain ⟨hx2, hy2, h2⟩ := (onCurve_aff_iff x2 y2).mp hQ
  have hp := p_pos (c := c)
  have hp2 := Valid.two_lt (c := c)
  have hcond : (x1 = x2 ∧ (y1 + y2) % c.p = 0) ↔
      ((x1 : ZMod c.p) = x2 ∧ (y1 : ZMod c.p) = (W c).negY x2 y2) := by
    rw [natCast_inj_of_lt hx1 hx2, W_negY, ← Nat.dvd_iff_mod_eq_zero,
      ← ZMod.natCast_eq_zero_iff, Nat.cast_add, eq_neg_iff_add_eq_zero]
  rw [toM_aff hP, toM_aff hQ, add_aff_aff]
  by_cases hc : x1 = x2 ∧ (y1 + y2) % c.p = 0
  · rw [if_pos hc]
    have hc' := hcond.mp hc
    exact ⟨rfl, by rw [toM_inf, Point.add_of_Y_eq hc'.1 hc'.2]⟩
  · rw [if_neg hc]
    have hc' : ¬((x1 : ZMod c.p) = x2 ∧ (y1 : ZMod c.p) = (W c).negY x2 y2) := fun h => hc (hcond.mpr h)
    have hl : ((addSlope c x1 y1 x2 y2 : ℕ) : ZMod c.p) = (W c).slope x1 x2 y1 y2 := by
      unfold addSlope
      by_cases hx : x1 = x2
      · have hy : (y1 : ZMod c.p) ≠ (W c).negY x2 y2 := fun h =>
          hc' ⟨by rw [hx], h⟩
        rw [if_pos hx, slope_of_Y_ne (by rw [hx]) hy]
        simp only [cast_mod, Nat.cast_mul, cast_invMod hp2, Nat.cast_add, W_negY, W_a₁, W_a₂,
          W_a₄, Nat.cast_ofNat]
        rw [div_eq_mul_inv]
        congr 1
        · ring
        · congr 1; ring
      · have hx' : (x1 : ZMod c.p) ≠ x2 := fun h => hx ((natCast_inj_of_lt hx1 hx2).mp h)
        rw [if_neg hx, slope_of_X_ne hx']
        simp only [cast_mod, Nat.cast_mul, cast_invMod hp2, cast_subMod]
        rw [← neg_sub (y1 : ZMod c.p), ← neg_sub (x1 : ZMod c.p), inv_neg, neg_mul_neg,
          div_eq_mul_inv]
    have n1 := W_nonsingular h1
    have n2 := W_nonsingular h2
    have hns := nonsingular_add n1 n2 hc'
    have hX : ((subMod (addSlope c x1 y1 x2 y2 * addSlope c x1 y1 x2 y2) (x1 + x2) c.p : ℕ) :
        ZMod c.p) = (W c).addX x1 x2 ((W c).slope x1 x2 y1 y2) := by
      rw [cast_subMod, Nat.cast_mul, Nat.cast_add, hl]
      simp only [addX, W_a₁, W_a₂]
      ring
    have hY : ((subMod (addSlope c x1 y1 x2 y2 *
        subMod x1 (subMod (addSlope c x1 y1 x2 y2 * addSlope c x1 y1 x2 y2) (x1 + x2) c.p) c.p)
          y1 c.p : ℕ) : ZMod c.p) =
        (W c).addY x1 x2 y1 ((W c).slope x1 x2 y1 y2) := by
      rw [cast_subMod, Nat.cast_mul, cast_subMod, hX, hl]
      simp only [addY, negAddY, W_negY]
      ring
    rw [Point.add_some hc']
    refine ⟨?_, toM_eq_some hX hY hns⟩
    exact onCurve_of_cast (subMod_lt _ _ hp) (subMod_lt _ _ hp) hX hY hns.1

/-- **Correctness of `WCurve.add`**: on on-curve points it is the Mathlib group law. -/
theorem add_correct [Valid c] {P Q : WPoint} (hP : c.onCurve P = true)
    (hQ : c.onCurve Q = true) :
    c.onCurve (c.add P Q) = true ∧ toM (c.add P Q) = toM (c := c) P + toM Q := by
  cases P with
  | inf => rw [add_inf_left]; exact ⟨hQ, by simp⟩
  | aff x1 y1 =>
    cases Q with
    | inf => rw [add_inf_right]; exact ⟨hP, by simp⟩
    | aff x2 y2 => exact add_correct_aff hP hQ

theorem onCurve_add [Valid c] {P Q : WPoint} (hP : c.onCurve P = true)
    (hQ : c.onCurve Q = true) : c.onCurve (c.add P Q) = true := (add_correct hP hQ).1

theorem toM_add [Valid c] {P Q : WPoint} (hP : c.onCurve P = true) (hQ : c.onCurve Q = true) :
    toM (c.add P Q) = toM (c := c) P + toM Q := (add_correct hP hQ).2

end BipVerif.WGroup
