/- Base32 (RFC 4648 via CPython `base64.b32encode/b32decode`) round trips:
standard alphabet, custom alphabet, with and without padding. -/
import BipVerif.Lemmas.Chunks
import BipVerif.Lemmas.IntBytes
import BipVerif.Lemmas.Base58
import BipVerif.Model.Base32

namespace BipVerif.Model
open BipVerif

/-! ### generic list helpers -/

theorem chunksOf_append_of_mod {α} (n : Nat) (hn : 0 < n) (l r : List α) (h : l.length % n = 0) :
    chunksOf n (l ++ r) = chunksOf n l ++ chunksOf n r := by
  revert h
  refine chunks_induction n hn (fun l => l.length % n = 0 → chunksOf n (l ++ r) = chunksOf n l ++ chunksOf n r)
    ?_ ?_ ?_ l
  · intro _; simp
  · intro l hne hlt hmod
    have := List.length_pos_iff.mpr hne
    rw [Nat.mod_eq_of_lt hlt] at hmod; omega
  · intro l1 l2 hl1 ih hmod
    have hmod2 : l2.length % n = 0 := by
      rw [List.length_append, hl1] at hmod
      rwa [Nat.add_mod_left] at hmod
    rw [List.append_assoc, chunksOf_append_of_length n hn l1 _ hl1, ih hmod2,
      chunksOf_append_of_length n hn l1 _ hl1, List.cons_append]

theorem chunksOf_length_eq {α} (n : Nat) (hn : 0 < n) (l : List α) (h : l.length % n = 0) :
    ∀ c ∈ chunksOf n l, c.length = n := by
  revert h
  refine chunks_induction n hn (fun l => l.length % n = 0 → ∀ c ∈ chunksOf n l, c.length = n)
    ?_ ?_ ?_ l
  · intro _ c hc; simp at hc
  · intro l hne hlt hmod
    have := List.length_pos_iff.mpr hne
    rw [Nat.mod_eq_of_lt hlt] at hmod; omega
  · intro l1 l2 hl1 ih hmod c hc
    have hmod2 : l2.length % n = 0 := by
      rw [List.length_append, hl1] at hmod
      rwa [Nat.add_mod_left] at hmod
    rw [chunksOf_append_of_length n hn l1 _ hl1] at hc
    rcases List.mem_cons.mp hc with rfl | hc
    · exact hl1
    · exact ih hmod2 c hc

theorem rstripChar_append_replicate (c : Char) (l : List Char) (p : Nat) (h : ∀ x ∈ l, x ≠ c) :
    rstripChar c (l ++ List.replicate p c) = l := by
  unfold rstripChar
  rw [List.reverse_append, List.reverse_replicate,
    List.dropWhile_append_of_pos (by intro a ha; simp [(List.mem_replicate.mp ha).2])]
  cases hr : l.reverse with
  | nil => simp [List.reverse_eq_nil_iff.mp hr]
  | cons a t =>
    have ha : a ∈ l := by rw [← List.mem_reverse, hr]; simp
    rw [List.dropWhile_cons_of_neg (by simpa using h a ha), ← hr, List.reverse_reverse]

/-! ### the eight 5-bit digits of a 40-bit quantum -/

def b32Digits (c : Nat) : List Nat :=
  (List.range 8).map fun i => (c >>> (5 * (7 - i))) &&& 31

def b32Quantum (c : Nat) : List Char := (b32Digits c).map fun d => b32Std.getD d '?'

theorem b32Digits_eq (c : Nat) : b32Digits c =
    [c / 2 ^ 35 % 32, c / 2 ^ 30 % 32, c / 2 ^ 25 % 32, c / 2 ^ 20 % 32, c / 2 ^ 15 % 32,
      c / 2 ^ 10 % 32, c / 2 ^ 5 % 32, c % 32] := by
  have h31 : ∀ x, x &&& 31 = x % 32 := fun x => Nat.and_two_pow_sub_one_eq_mod x 5
  have hr : List.range 8 = [0, 1, 2, 3, 4, 5, 6, 7] := by decide
  unfold b32Digits
  rw [hr]
  simp only [List.map_cons, List.map_nil, h31, Nat.shiftRight_eq_div_pow]
  simp

theorem b32Digits_lt (c : Nat) : ∀ d ∈ b32Digits c, d < 32 := by
  intro d hd; rw [b32Digits_eq] at hd
  simp only [List.mem_cons, List.not_mem_nil, or_false] at hd
  omega

theorem b32Digits_length (c : Nat) : (b32Digits c).length = 8 := by simp [b32Digits]

theorem b32Quantum_length (c : Nat) : (b32Quantum c).length = 8 := by
  simp [b32Quantum, b32Digits_length]

/-- value of the first `8 - p` digits -/
theorem ofDigitsBE_b32Digits_take (c p : Nat) (hc : c < 2 ^ 40) (hp : p ≤ 8) :
    ofDigitsBE 32 ((b32Digits c).take (8 - p)) = c / 32 ^ p := by
  rw [b32Digits_eq]
  interval_cases p <;> simp [ofDigitsBE] <;> omega

theorem ofDigitsBE_b32Digits (c : Nat) (hc : c < 2 ^ 40) : ofDigitsBE 32 (b32Digits c) = c := by
  have := ofDigitsBE_b32Digits_take c 0 hc (by omega)
  rw [List.take_of_length_le (by rw [b32Digits_length])] at this
  simpa using this

/-! ### the encoder, block by block -/

def b32Npad (k : Nat) : Nat := match k with | 1 => 6 | 2 => 4 | 3 => 3 | 4 => 1 | _ => 0

/-- encoding of the final partial block (`tail.length < 5`) -/
def b32Tail (tail : Bytes) : List Char :=
  if tail = [] then []
  else (b32Quantum (Bytes.toNatBE (tail ++ List.replicate (5 - tail.length) 0))).take
      (8 - b32Npad tail.length) ++ List.replicate (b32Npad tail.length) '='

def b32Block (blk : Bytes) : List Char := b32Quantum (Bytes.toNatBE blk)

theorem b32encodeStd_def (data : Bytes) :
    b32encodeStd data =
      let leftover := data.length % 5
      let s := if leftover ≠ 0 then data ++ List.replicate (5 - leftover) 0 else data
      let enc := (chunksOf 5 s).flatMap b32Block
      enc.take (enc.length - b32Npad leftover) ++ List.replicate (b32Npad leftover) '=' := by
  unfold b32encodeStd b32Block b32Quantum b32Digits b32Npad
  simp only [List.map_map]
  rfl

theorem flatMap_b32Block_length (bs : List Bytes) : (bs.flatMap b32Block).length = 8 * bs.length := by
  induction bs with
  | nil => rfl
  | cons a t ih =>
    rw [List.flatMap_cons, List.length_append, ih, b32Block, b32Quantum_length, List.length_cons]
    omega

theorem b32encodeStd_eq (full tail : Bytes) (hf : full.length % 5 = 0) (hk : tail.length < 5) :
    b32encodeStd (full ++ tail) = (chunksOf 5 full).flatMap b32Block ++ b32Tail tail := by
  rw [b32encodeStd_def]
  have hleft : (full ++ tail).length % 5 = tail.length := by
    rw [List.length_append]; omega
  simp only [hleft]
  by_cases ht : tail = []
  · subst ht
    simp [b32Tail, b32Npad]
  · have hpos : 0 < tail.length := List.length_pos_iff.mpr ht
    have hne : tail.length ≠ 0 := by omega
    simp only [hne, ne_eq, not_false_eq_true, if_true, b32Tail, ht, if_false]
    have hlast : (tail ++ List.replicate (5 - tail.length) 0).length = 5 := by
      simp; omega
    have hlastne : tail ++ List.replicate (5 - tail.length) 0 ≠ [] := by simp [ht]
    rw [List.append_assoc, chunksOf_append_of_mod 5 (by omega) full _ hf,
      chunksOf_of_length_le 5 (tail ++ List.replicate (5 - tail.length) 0) hlastne (by omega),
      List.flatMap_append]
    simp only [List.flatMap_cons, List.flatMap_nil, List.append_nil]
    have hnp : b32Npad tail.length ≤ 8 := by
      unfold b32Npad; split <;> omega
    rw [List.length_append, b32Block, b32Quantum_length,
      show ((chunksOf 5 full).flatMap b32Block).length + 8 - b32Npad tail.length
        = ((chunksOf 5 full).flatMap b32Block).length + (8 - b32Npad tail.length) by omega,
      List.take_append, List.append_assoc, List.take_of_length_le (by omega), Nat.add_sub_cancel_left]

/-! ### the decoder's accumulation of one quantum -/

def b32Acc (q : List Char) : R Nat :=
  q.foldlM (fun acc c => match b32Std.idxOf? c with
    | some i => pure (acc * 32 + i)
    | none => throw Err.value) 0

theorem b32Std_nodup : b32Std.Nodup := by decide
theorem b32Std_length : b32Std.length = 32 := by decide
theorem b32Std_ascii : ∀ c ∈ b32Std, c ≠ '=' ∧ c.toNat < 128 := by decide

theorem getD_default_irrel (alph : List Char) (d : Nat) (hd : d < alph.length) (x y : Char) :
    alph.getD d x = alph.getD d y := by
  simp [List.getD_eq_getElem?_getD, hd]

theorem b32Std_idxOf_getD (d : Nat) (hd : d < 32) : b32Std.idxOf? (b32Std.getD d '?') = some d := by
  rw [getD_default_irrel b32Std d (by rw [b32Std_length]; exact hd) '?' 'x']
  exact idxOf?_getD_of_nodup b32Std b32Std_nodup d (by rw [b32Std_length]; exact hd)

theorem b32Std_getD_mem (d : Nat) (hd : d < 32) : b32Std.getD d '?' ∈ b32Std := by
  have : d < b32Std.length := by rw [b32Std_length]; exact hd
  simp [List.getD_eq_getElem?_getD, this]

theorem b32_foldlM_map (ds : List Nat) (h : ∀ d ∈ ds, d < 32) (a : Nat) :
    (ds.map fun d => b32Std.getD d '?').foldlM (fun acc c => match b32Std.idxOf? c with
      | some i => (pure (acc * 32 + i) : R Nat)
      | none => throw Err.value) a = .ok (ds.foldl (fun acc d => acc * 32 + d) a) := by
  induction ds generalizing a with
  | nil => rfl
  | cons d t ih =>
    rw [List.map_cons, List.foldlM_cons, b32Std_idxOf_getD d (h d (by simp))]
    simp only [List.foldl_cons]
    exact ih (fun x hx => h x (by simp [hx])) _

theorem b32Acc_map (ds : List Nat) (h : ∀ d ∈ ds, d < 32) :
    b32Acc (ds.map fun d => b32Std.getD d '?') = .ok (ofDigitsBE 32 ds) :=
  b32_foldlM_map ds h 0

theorem b32Acc_quantum (c : Nat) (hc : c < 2 ^ 40) : b32Acc (b32Quantum c) = .ok c := by
  unfold b32Quantum
  rw [b32Acc_map _ (b32Digits_lt c), ofDigitsBE_b32Digits c hc]

theorem b32Acc_quantum_take (c p : Nat) (hc : c < 2 ^ 40) (hp : p ≤ 8) :
    b32Acc ((b32Quantum c).take (8 - p)) = .ok (c / 32 ^ p) := by
  unfold b32Quantum
  rw [← List.map_take, b32Acc_map _ (fun d hd => b32Digits_lt c d (List.mem_of_mem_take hd)),
    ofDigitsBE_b32Digits_take c p hc hp]

theorem toNatBE_lt_of_length_5 (b : Bytes) (hb : b.length = 5) : Bytes.toNatBE b < 2 ^ 40 := by
  have := toNatBE_lt b; rw [hb] at this; omega

theorem b32Acc_block (b : Bytes) (hb : b.length = 5) : b32Acc (b32Block b) = .ok (Bytes.toNatBE b) :=
  b32Acc_quantum _ (toNatBE_lt_of_length_5 b hb)

theorem mapM_b32Acc_blocks (blocks : List Bytes) (hb : ∀ b ∈ blocks, b.length = 5) :
    (blocks.map b32Block).mapM b32Acc = .ok (blocks.map Bytes.toNatBE) := by
  induction blocks with
  | nil => rfl
  | cons a t ih =>
    rw [List.map_cons, List.mapM_cons, b32Acc_block a (hb a (by simp)),
      ih (fun b h => hb b (by simp [h]))]
    rfl

theorem chunksOf_flatMap_blocks (blocks : List Bytes) (r : List Char) :
    chunksOf 8 (blocks.flatMap b32Block ++ r) = blocks.map b32Block ++ chunksOf 8 r := by
  induction blocks with
  | nil => simp
  | cons a t ih =>
    rw [List.flatMap_cons, List.append_assoc,
      chunksOf_append_of_length 8 (by omega) _ _ (by rw [b32Block, b32Quantum_length]), ih]
    rfl

theorem flatMap_ofNatBE_blocks (blocks : List Bytes) (hb : ∀ b ∈ blocks, b.length = 5) :
    (blocks.map Bytes.toNatBE).flatMap (fun acc => Bytes.ofNatBE 5 acc) = blocks.flatten := by
  induction blocks with
  | nil => rfl
  | cons a t ih =>
    have ha := hb a (by simp)
    have := ofNatBE_toNatBE a
    rw [ha] at this
    rw [List.map_cons, List.flatMap_cons, this, ih (fun b h => hb b (by simp [h])),
      List.flatten_cons]

theorem b32Quantum_mem (c : Nat) : ∀ x ∈ b32Quantum c, x ∈ b32Std := by
  intro x hx
  unfold b32Quantum at hx
  obtain ⟨d, hd, rfl⟩ := List.mem_map.mp hx
  exact b32Std_getD_mem d (b32Digits_lt c d hd)

theorem flatMap_b32Block_mem (blocks : List Bytes) : ∀ x ∈ blocks.flatMap b32Block, x ∈ b32Std := by
  intro x hx
  obtain ⟨b, _, hxb⟩ := List.mem_flatMap.mp hx
  exact b32Quantum_mem _ x hxb

theorem b32decodeStd_def (s : List Char) : b32decodeStd s = (do
    if s.any (fun c => c.toNat ≥ 128) then throw Err.value
    if s.length % 8 ≠ 0 then throw Err.value
    let l := s.length
    let s := rstripChar '=' s
    let padchars := l - s.length
    let accs ← (chunksOf 8 s).mapM b32Acc
    let decoded : Bytes := accs.flatMap fun acc => Bytes.ofNatBE 5 acc
    if !(padchars = 0 || padchars = 1 || padchars = 3 || padchars = 4 || padchars = 6) then
      throw Err.value
    if padchars ≠ 0 && !decoded.isEmpty then
      let acc := (accs.getLast?.getD 0) <<< (5 * padchars)
      let last := Bytes.ofNatBE 5 acc
      let leftover := (43 - 5 * padchars) / 8
      pure (dropLast decoded 5 ++ last.take leftover)
    else pure decoded) := rfl

theorem b32decodeStd_flat (s X : List Char) (p : Nat) (accs : List Nat)
    (hs : s = X ++ List.replicate p '=')
    (hascii : ∀ c ∈ s, c.toNat < 128) (hlen : s.length % 8 = 0)
    (hX : ∀ x ∈ X, x ≠ '=') (hacc : (chunksOf 8 X).mapM b32Acc = .ok accs)
    (hp : p = 0 ∨ p = 1 ∨ p = 3 ∨ p = 4 ∨ p = 6) :
    b32decodeStd s =
      if p ≠ 0 ∧ accs.flatMap (fun acc => Bytes.ofNatBE 5 acc) ≠ [] then
        .ok (dropLast (accs.flatMap (fun acc => Bytes.ofNatBE 5 acc)) 5
          ++ (Bytes.ofNatBE 5 ((accs.getLast?.getD 0) <<< (5 * p))).take ((43 - 5 * p) / 8))
      else .ok (accs.flatMap (fun acc => Bytes.ofNatBE 5 acc)) := by
  rw [b32decodeStd_def]
  have h1 : s.any (fun c => decide (c.toNat ≥ 128)) = false := by
    rw [List.any_eq_false]; intro c hc; have := hascii c hc; simp; omega
  have hstrip : rstripChar '=' s = X := by rw [hs]; exact rstripChar_append_replicate '=' X p hX
  have hpad : s.length - X.length = p := by rw [hs]; simp
  have hpv : (!(decide (p = 0) || decide (p = 1) || decide (p = 3) || decide (p = 4) || decide (p = 6))) = false := by
    rcases hp with h | h | h | h | h <;> subst h <;> rfl
  simp only [h1, hlen, hstrip, hpad, hacc, hpv, bind, Except.bind, Bool.false_eq_true, if_false, ne_eq,
    not_true_eq_false]
  by_cases hc : p ≠ 0 ∧ accs.flatMap (fun acc => Bytes.ofNatBE 5 acc) ≠ []
  · rw [if_pos hc, if_pos (by simpa using hc)]; rfl
  · rw [if_neg hc, if_neg (by simpa using hc)]; rfl

theorem b32_ascii_of_mem {s : List Char} (h : ∀ c ∈ s, c ∈ b32Std ∨ c = '=') :
    ∀ c ∈ s, c.toNat < 128 := by
  intro c hc
  rcases h c hc with h | rfl
  · exact (b32Std_ascii c h).2
  · decide

/-- decoding a string of full quanta -/
theorem b32decodeStd_blocks (blocks : List Bytes) (hb : ∀ b ∈ blocks, b.length = 5) :
    b32decodeStd (blocks.flatMap b32Block) = .ok blocks.flatten := by
  have hmem := flatMap_b32Block_mem blocks
  have hch : chunksOf 8 (blocks.flatMap b32Block) = blocks.map b32Block := by
    have := chunksOf_flatMap_blocks blocks []
    simpa using this
  rw [b32decodeStd_flat (blocks.flatMap b32Block) (blocks.flatMap b32Block) 0 (blocks.map Bytes.toNatBE)
    (by simp) (b32_ascii_of_mem (fun c hc => Or.inl (hmem c hc)))
    (by rw [flatMap_b32Block_length]; omega)
    (fun x hx => (b32Std_ascii x (hmem x hx)).1)
    (by rw [hch]; exact mapM_b32Acc_blocks blocks hb) (Or.inl rfl)]
  rw [if_neg (by simp), flatMap_ofNatBE_blocks blocks hb]

theorem b32Npad_cases {k : Nat} (h1 : 0 < k) (h5 : k < 5) :
    (k = 1 ∧ b32Npad k = 6) ∨ (k = 2 ∧ b32Npad k = 4) ∨ (k = 3 ∧ b32Npad k = 3)
      ∨ (k = 4 ∧ b32Npad k = 1) := by
  interval_cases k <;> simp [b32Npad]

/-- decoding full quanta followed by a padded partial quantum -/
theorem b32decodeStd_blocks_tail (blocks : List Bytes) (hb : ∀ b ∈ blocks, b.length = 5)
    (tail : Bytes) (ht : tail ≠ []) (hk : tail.length < 5) :
    b32decodeStd (blocks.flatMap b32Block ++ b32Tail tail) = .ok (blocks.flatten ++ tail) := by
  have hpos : 0 < tail.length := List.length_pos_iff.mpr ht
  set k := tail.length with hkdef
  set p := b32Npad k with hpdef
  set lastblk := tail ++ List.replicate (5 - k) 0 with hlb
  have hlblen : lastblk.length = 5 := by rw [hlb]; simp; omega
  set c := Bytes.toNatBE lastblk with hcdef
  have hc : c < 2 ^ 40 := toNatBE_lt_of_length_5 lastblk hlblen
  have hcval : c = Bytes.toNatBE tail * 256 ^ (5 - k) := by
    rw [hcdef, hlb, toNatBE_append, toNatBE_replicate_zero]; simp
  have htl := toNatBE_lt tail
  rw [← hkdef] at htl
  set T := (b32Quantum c).take (8 - p) with hT
  have hp8 : p ≤ 8 ∧ 0 < p ∧ (p = 0 ∨ p = 1 ∨ p = 3 ∨ p = 4 ∨ p = 6) ∧ (43 - 5 * p) / 8 = k
      ∧ (c / 32 ^ p) <<< (5 * p) = c := by
    rcases b32Npad_cases hpos hk with ⟨h1, h2⟩ | ⟨h1, h2⟩ | ⟨h1, h2⟩ | ⟨h1, h2⟩ <;>
      · rw [hpdef, h2]
        rw [h1] at hcval htl
        refine ⟨by omega, by omega, by omega, by omega, ?_⟩
        rw [Nat.shiftLeft_eq]; omega
  obtain ⟨hp8, hp0, hpv, hleft, hshift⟩ := hp8
  have htail : b32Tail tail = T ++ List.replicate p '=' := by
    unfold b32Tail; rw [if_neg ht]
  have hTlen : T.length = 8 - p := by
    rw [hT, List.length_take, b32Quantum_length]; omega
  have hTne : T ≠ [] := by
    intro e; rw [e] at hTlen; simp at hTlen
    rcases b32Npad_cases hpos hk with ⟨_, h2⟩ | ⟨_, h2⟩ | ⟨_, h2⟩ | ⟨_, h2⟩ <;> omega
  have hTmem : ∀ x ∈ T, x ∈ b32Std := fun x hx => b32Quantum_mem c x (List.mem_of_mem_take hx)
  have hBmem := flatMap_b32Block_mem blocks
  have hXmem : ∀ x ∈ blocks.flatMap b32Block ++ T, x ∈ b32Std := by
    intro x hx
    rcases List.mem_append.mp hx with h | h
    · exact hBmem x h
    · exact hTmem x h
  have hch : chunksOf 8 (blocks.flatMap b32Block ++ T) = blocks.map b32Block ++ [T] := by
    rw [chunksOf_flatMap_blocks, chunksOf_of_length_le 8 T hTne (by omega)]
  have hacc : (chunksOf 8 (blocks.flatMap b32Block ++ T)).mapM b32Acc
      = .ok (blocks.map Bytes.toNatBE ++ [c / 32 ^ p]) := by
    rw [hch, List.mapM_append, mapM_b32Acc_blocks blocks hb, List.mapM_cons,
      b32Acc_quantum_take c p hc hp8]
    rfl
  rw [htail, ← List.append_assoc]
  rw [b32decodeStd_flat _ (blocks.flatMap b32Block ++ T) p _ rfl
    (b32_ascii_of_mem (by
      intro x hx
      rcases List.mem_append.mp hx with h | h
      · exact Or.inl (hXmem x h)
      · exact Or.inr (List.mem_replicate.mp h).2))
    (by
      simp only [List.length_append, List.length_replicate, flatMap_b32Block_length, hTlen]; omega)
    (fun x hx => (b32Std_ascii x (hXmem x hx)).1) hacc hpv]
  have hdec : (blocks.map Bytes.toNatBE ++ [c / 32 ^ p]).flatMap (fun acc => Bytes.ofNatBE 5 acc)
      = blocks.flatten ++ Bytes.ofNatBE 5 (c / 32 ^ p) := by
    rw [List.flatMap_append, flatMap_ofNatBE_blocks blocks hb]; simp
  have hlast : (blocks.map Bytes.toNatBE ++ [c / 32 ^ p]).getLast?.getD 0 = c / 32 ^ p := by
    rw [List.getLast?_concat]; rfl
  rw [hdec, hlast, hshift, hleft]
  have hne : p ≠ 0 ∧ blocks.flatten ++ Bytes.ofNatBE 5 (c / 32 ^ p) ≠ [] := by
    refine ⟨by omega, ?_⟩
    intro e
    have := congrArg List.length e
    simp at this
  rw [if_pos hne, dropLast_append_of_length _ _ 5 (length_ofNatBE 5 _)]
  have hof : Bytes.ofNatBE 5 c = lastblk := by
    have := ofNatBE_toNatBE lastblk
    rwa [hlblen] at this
  rw [hof, hlb, List.take_left' hkdef.symm]

/-! ### the standard-alphabet round trip -/

theorem b32_split (data : Bytes) :
    ∃ full tail, data = full ++ tail ∧ full.length % 5 = 0 ∧ tail.length < 5 := by
  refine ⟨data.take (5 * (data.length / 5)), data.drop (5 * (data.length / 5)),
    (List.take_append_drop _ _).symm, ?_, ?_⟩
  · rw [List.length_take]; omega
  · rw [List.length_drop]; omega

theorem b32Tail_shape (tail : Bytes) (ht : tail ≠ []) (hk : tail.length < 5) :
    ∃ T p, b32Tail tail = T ++ List.replicate p '=' ∧ (∀ x ∈ T, x ∈ b32Std) ∧ T.length + p = 8
      ∧ 0 < p ∧ p < 8 := by
  have hpos : 0 < tail.length := List.length_pos_iff.mpr ht
  refine ⟨_, b32Npad tail.length, by unfold b32Tail; rw [if_neg ht],
    fun x hx => b32Quantum_mem _ x (List.mem_of_mem_take hx), ?_, ?_, ?_⟩
  · rw [List.length_take, b32Quantum_length]
    rcases b32Npad_cases hpos hk with ⟨_, h2⟩ | ⟨_, h2⟩ | ⟨_, h2⟩ | ⟨_, h2⟩ <;> omega
  · rcases b32Npad_cases hpos hk with ⟨_, h2⟩ | ⟨_, h2⟩ | ⟨_, h2⟩ | ⟨_, h2⟩ <;> omega
  · rcases b32Npad_cases hpos hk with ⟨_, h2⟩ | ⟨_, h2⟩ | ⟨_, h2⟩ | ⟨_, h2⟩ <;> omega

/-- shape of every encoding: alphabet symbols followed by fewer than 8 `=`; total length a
multiple of 8. -/
theorem b32encodeStd_shape (data : Bytes) :
    ∃ X p, b32encodeStd data = X ++ List.replicate p '=' ∧ (∀ x ∈ X, x ∈ b32Std)
      ∧ (X.length + p) % 8 = 0 ∧ p < 8 := by
  obtain ⟨full, tail, rfl, hf, hk⟩ := b32_split data
  rw [b32encodeStd_eq full tail hf hk]
  by_cases ht : tail = []
  · subst ht
    refine ⟨(chunksOf 5 full).flatMap b32Block, 0, by simp [b32Tail], flatMap_b32Block_mem _, ?_,
      by omega⟩
    rw [flatMap_b32Block_length]; omega
  · obtain ⟨T, p, hT, hmem, hlen, hp0, hp8⟩ := b32Tail_shape tail ht hk
    refine ⟨(chunksOf 5 full).flatMap b32Block ++ T, p, by rw [hT, List.append_assoc], ?_, ?_, hp8⟩
    · intro x hx
      rcases List.mem_append.mp hx with h | h
      · exact flatMap_b32Block_mem _ x h
      · exact hmem x h
    · rw [List.length_append, flatMap_b32Block_length]; omega

/-- `base64.b32decode(base64.b32encode(b)) == b` -/
theorem b32decodeStd_b32encodeStd (data : Bytes) : b32decodeStd (b32encodeStd data) = .ok data := by
  obtain ⟨full, tail, rfl, hf, hk⟩ := b32_split data
  rw [b32encodeStd_eq full tail hf hk]
  have hb := chunksOf_length_eq 5 (by omega) full hf
  have hfl := flatten_chunksOf 5 (by omega) full
  by_cases ht : tail = []
  · subst ht
    simp only [b32Tail, if_true, List.append_nil]
    rw [b32decodeStd_blocks _ hb, hfl]
  · rw [b32decodeStd_blocks_tail _ hb tail ht hk, hfl]

/-! ### padding helpers -/

theorem addPadding_of_mod (s : List Char) (h : s.length % 8 = 0) : addPadding s = s := by
  unfold addPadding; simp [h]

theorem addPadding_strip (X : List Char) (p : Nat) (h : (X.length + p) % 8 = 0) (hp : p < 8) :
    addPadding X = X ++ List.replicate p '=' := by
  unfold addPadding
  by_cases hp0 : p = 0
  · subst hp0
    have : X.length % 8 = 0 := by simpa using h
    simp [this]
  · have hw : X.length % 8 = 8 - p := by omega
    have hne : X.length % 8 ≠ 0 := by omega
    have h8 : 8 - X.length % 8 = p := by omega
    simp only [hne, ne_eq, not_false_eq_true, if_true, h8]

/-! ### alphabet translation -/

theorem translate_append (frm tgt : List Char) (a b : List Char) :
    translate frm tgt (a ++ b) = translate frm tgt a ++ translate frm tgt b := by
  unfold translate; rw [List.map_append]

theorem translate_length (frm tgt : List Char) (s : List Char) :
    (translate frm tgt s).length = s.length := by
  unfold translate; rw [List.length_map]

theorem translate_replicate_of_not_mem (frm tgt : List Char) (c : Char) (p : Nat) (h : c ∉ frm) :
    translate frm tgt (List.replicate p c) = List.replicate p c := by
  unfold translate
  rw [List.map_replicate]
  have : frm.idxOf? c = none := by
    rw [List.idxOf?, List.findIdx?_eq_none_iff]
    intro x hx; simp; rintro rfl; exact h hx
  rw [this]

theorem idxOf?_getElem_of_nodup (l : List Char) (hn : l.Nodup) (i : Nat) (hi : i < l.length) :
    l.idxOf? l[i] = some i := by
  have := idxOf?_getD_of_nodup l hn i hi
  rwa [show l.getD i 'x' = l[i] by simp [List.getD_eq_getElem?_getD, hi]] at this

/-- translating to another duplicate-free alphabet of the same size and back is the identity on
symbols of the source alphabet; and the image lies in the target alphabet. -/
theorem translate_translate (frm tgt : List Char) (hf : frm.Nodup) (ht : tgt.Nodup)
    (hl : frm.length = tgt.length) (s : List Char) (hs : ∀ x ∈ s, x ∈ frm) :
    translate tgt frm (translate frm tgt s) = s ∧ ∀ y ∈ translate frm tgt s, y ∈ tgt := by
  induction s with
  | nil => exact ⟨rfl, by simp [translate]⟩
  | cons x t ih =>
    obtain ⟨ih1, ih2⟩ := ih (fun y hy => hs y (by simp [hy]))
    obtain ⟨i, hi, hxi⟩ := List.mem_iff_getElem.mp (hs x (by simp))
    have hi' : i < tgt.length := by omega
    have h1 : frm.idxOf? x = some i := by rw [← hxi]; exact idxOf?_getElem_of_nodup frm hf i hi
    have h2 : tgt.getD i x = tgt[i] := by simp [List.getD_eq_getElem?_getD, hi']
    have h3 : tgt.idxOf? tgt[i] = some i := idxOf?_getElem_of_nodup tgt ht i hi'
    have h4 : frm.getD i tgt[i] = x := by simp [List.getD_eq_getElem?_getD, hi, hxi]
    have hcons : translate frm tgt (x :: t) = tgt[i] :: translate frm tgt t := by
      unfold translate; rw [List.map_cons, h1]; simp only [h2]
    rw [hcons]
    constructor
    · have : translate tgt frm (tgt[i] :: translate frm tgt t)
          = x :: translate tgt frm (translate frm tgt t) := by
        conv_lhs => unfold translate
        rw [List.map_cons, h3]; simp only [h4]; rfl
      rw [this, ih1]
    · intro y hy
      rcases List.mem_cons.mp hy with rfl | hy
      · exact List.getElem_mem hi'
      · exact ih2 y hy

/-! ### the library-level round trips -/

/-- admissible custom alphabets: 32 distinct symbols, none of them the padding character -/
def Base32AlphabetOk (a : List Char) : Prop := a.Nodup ∧ a.length = 32 ∧ '=' ∉ a

theorem base32Encode_shape (data : Bytes) (custom : Option (List Char))
    (hc : ∀ a, custom = some a → Base32AlphabetOk a) :
    ∃ X p, base32Encode data custom = X ++ List.replicate p '=' ∧ (∀ x ∈ X, x ≠ '=')
      ∧ (X.length + p) % 8 = 0 ∧ p < 8 := by
  obtain ⟨X, p, he, hX, hlen, hp⟩ := b32encodeStd_shape data
  unfold base32Encode
  cases custom with
  | none => exact ⟨X, p, he, fun x hx => (b32Std_ascii x (hX x hx)).1, hlen, hp⟩
  | some a =>
    obtain ⟨han, hal, haeq⟩ := hc a rfl
    obtain ⟨_, hmem⟩ := translate_translate b32Std a b32Std_nodup han (by rw [hal, b32Std_length]) X hX
    refine ⟨translate b32Std a X, p, ?_, ?_, by rw [translate_length]; exact hlen, hp⟩
    · simp only [he]
      rw [translate_append, translate_replicate_of_not_mem _ _ _ _ (by decide)]
    · intro x hx e; rw [e] at hx; exact haeq (hmem _ hx)

/-- the input of `b32decodeStd` inside `base32Decode`: re-padded, translated to the standard alphabet -/
def base32Pre (s : List Char) (custom : Option (List Char)) : List Char :=
  match custom with
  | some a => translate a b32Std (addPadding s)
  | none => addPadding s

/-- `base32Decode` in flat form: stdlib decoding followed by the canonical re-encoding check -/
theorem base32Decode_eq (s : List Char) (custom : Option (List Char)) :
    base32Decode s custom = match b32decodeStd (base32Pre s custom) with
      | .error e => .error e
      | .ok dec => if base32EncodeNoPad dec custom = rstripChar '=' s then .ok dec else .error .value := by
  unfold base32Decode base32Pre
  cases custom with
  | none =>
    simp only
    cases b32decodeStd (addPadding s) with
    | error e => rfl
    | ok dec =>
      simp only [bind, Except.bind]
      by_cases h : base32EncodeNoPad dec none = rstripChar '=' s
      · rw [if_pos h, if_neg (by simpa using h)]; rfl
      · rw [if_neg h, if_pos (by simpa using h)]; rfl
  | some a =>
    simp only
    cases b32decodeStd (translate a b32Std (addPadding s)) with
    | error e => rfl
    | ok dec =>
      simp only [bind, Except.bind]
      by_cases h : base32EncodeNoPad dec (some a) = rstripChar '=' s
      · rw [if_pos h, if_neg (by simpa using h)]; rfl
      · rw [if_neg h, if_pos (by simpa using h)]; rfl

/-- the stdlib decoder, applied to the re-padded and re-translated library encoding -/
theorem b32decodeStd_base32Pre_encode (data : Bytes) (custom : Option (List Char))
    (hc : ∀ a, custom = some a → Base32AlphabetOk a) :
    b32decodeStd (base32Pre (base32Encode data custom) custom) = .ok data := by
  obtain ⟨X, p, he, hX, hlen, hp⟩ := b32encodeStd_shape data
  unfold base32Pre base32Encode
  cases custom with
  | none =>
    simp only
    rw [addPadding_of_mod _ (by rw [he]; simpa using hlen)]
    exact b32decodeStd_b32encodeStd data
  | some a =>
    obtain ⟨han, hal, haeq⟩ := hc a rfl
    obtain ⟨hback, hmem⟩ :=
      translate_translate b32Std a b32Std_nodup han (by rw [hal, b32Std_length]) X hX
    simp only
    rw [addPadding_of_mod _ (by rw [translate_length, he]; simpa using hlen)]
    have : translate a b32Std (translate b32Std a (b32encodeStd data)) = b32encodeStd data := by
      rw [he, translate_append, translate_append, hback,
        translate_replicate_of_not_mem _ _ _ _ (by decide),
        translate_replicate_of_not_mem _ _ _ _ haeq]
    rw [this]
    exact b32decodeStd_b32encodeStd data

/-- decoding the padded encoding, standard or custom alphabet -/
theorem base32Decode_base32Encode (data : Bytes) (custom : Option (List Char))
    (hc : ∀ a, custom = some a → Base32AlphabetOk a) :
    base32Decode (base32Encode data custom) custom = .ok data := by
  rw [base32Decode_eq, b32decodeStd_base32Pre_encode data custom hc]
  simp only
  exact if_pos (show base32EncodeNoPad data custom = rstripChar '=' (base32Encode data custom) from rfl)

/-- decoding the unpadded encoding: `Decode` re-adds the padding that `EncodeNoPadding` stripped -/
theorem base32Decode_base32EncodeNoPad (data : Bytes) (custom : Option (List Char))
    (hc : ∀ a, custom = some a → Base32AlphabetOk a) :
    base32Decode (base32EncodeNoPad data custom) custom = .ok data := by
  obtain ⟨X, p, he, hX, hlen, hp⟩ := base32Encode_shape data custom hc
  have hstrip : base32EncodeNoPad data custom = X := by
    unfold base32EncodeNoPad; rw [he]; exact rstripChar_append_replicate '=' X p hX
  have hpad : addPadding X = base32Encode data custom := by
    rw [he]; exact addPadding_strip X p hlen hp
  have hfull := b32decodeStd_base32Pre_encode data custom hc
  have hmod : (base32Encode data custom).length % 8 = 0 := by rw [he]; simpa using hlen
  have hpre : base32Pre X custom = base32Pre (base32Encode data custom) custom := by
    unfold base32Pre
    rw [hpad, addPadding_of_mod _ hmod]
  have hXs : rstripChar '=' X = X := by
    have := rstripChar_append_replicate '=' X 0 hX
    simpa using this
  rw [base32Decode_eq, hstrip, hpre, hfull]
  simp only
  rw [hstrip, hXs, if_pos rfl]

/-! ### canonicity -/

/-- **Base32 canonicity**: every accepted string, minus its `=` padding, is the canonical unpadded
encoding of the decoded payload. -/
theorem base32_decode_canonical {s : List Char} {custom : Option (List Char)} {b : Bytes}
    (h : base32Decode s custom = .ok b) : base32EncodeNoPad b custom = rstripChar '=' s := by
  rw [base32Decode_eq] at h
  cases hd : b32decodeStd (base32Pre s custom) with
  | error e => rw [hd] at h; cases h
  | ok dec =>
    rw [hd] at h
    simp only at h
    by_cases hc : base32EncodeNoPad dec custom = rstripChar '=' s
    · rw [if_pos hc] at h
      cases h; exact hc
    · rw [if_neg hc] at h; cases h

/-- no two different unpadded spellings decode to the same payload. -/
theorem base32_decode_inj {s s' : List Char} {c : Option (List Char)} {b : Bytes}
    (h : base32Decode s c = .ok b) (h' : base32Decode s' c = .ok b) :
    rstripChar '=' s = rstripChar '=' s' := by
  rw [← base32_decode_canonical h, ← base32_decode_canonical h']

/-- the requested corollaries for the standard alphabet -/
theorem base32_decode_encode (b : Bytes) : base32Decode (base32Encode b none) none = .ok b :=
  base32Decode_base32Encode b none (by intro a h; cases h)

theorem base32_decode_encodeNoPad (b : Bytes) :
    base32Decode (base32EncodeNoPad b none) none = .ok b :=
  base32Decode_base32EncodeNoPad b none (by intro a h; cases h)

theorem base32_decode_encode_custom (b : Bytes) (a : List Char) (ha : Base32AlphabetOk a) :
    base32Decode (base32Encode b (some a)) (some a) = .ok b :=
  base32Decode_base32Encode b (some a) (by intro a' h; cases h; exact ha)

theorem base32_decode_encodeNoPad_custom (b : Bytes) (a : List Char) (ha : Base32AlphabetOk a) :
    base32Decode (base32EncodeNoPad b (some a)) (some a) = .ok b :=
  base32Decode_base32EncodeNoPad b (some a) (by intro a' h; cases h; exact ha)

end BipVerif.Model
