/- `chunksOf` (Python `[l[i:i+n] for i in range(0, len(l), n)]`): recursion equations,
flatten, behaviour on appends. -/
import Mathlib.Data.List.Basic
import BipVerif.Model.Basic

namespace BipVerif.Model

variable {α : Type _}

theorem chunksOf_go_fuel (n : Nat) (hn : 0 < n) (f1 f2 : Nat) (l : List α)
    (h1 : l.length ≤ f1) (h2 : l.length ≤ f2) : chunksOf.go n f1 l = chunksOf.go n f2 l := by
  induction f1 generalizing f2 l with
  | zero =>
    have : l = [] := List.length_eq_zero_iff.mp (by omega)
    subst this
    cases f2 <;> simp [chunksOf.go]
  | succ f1 ih =>
    cases f2 with
    | zero =>
      have : l = [] := List.length_eq_zero_iff.mp (by omega)
      subst this; simp [chunksOf.go]
    | succ f2 =>
      simp only [chunksOf.go]
      by_cases hl : l.isEmpty
      · simp [hl]
      · simp only [hl, Bool.false_eq_true, if_false, List.cons.injEq, true_and]
        have hpos : 0 < l.length := by
          cases l with
          | nil => simp at hl
          | cons a t => simp
        apply ih <;> rw [List.length_drop] <;> omega

@[simp] theorem chunksOf_nil (n : Nat) : chunksOf n ([] : List α) = [] := by
  unfold chunksOf; split <;> simp [chunksOf.go]

theorem chunksOf_of_ne_nil (n : Nat) (hn : 0 < n) (l : List α) (hl : l ≠ []) :
    chunksOf n l = l.take n :: chunksOf n (l.drop n) := by
  unfold chunksOf
  have hn' : n ≠ 0 := by omega
  simp only [hn', if_false]
  cases hlen : l.length with
  | zero => exact absurd (List.length_eq_zero_iff.mp hlen) hl
  | succ k =>
    have he : l.isEmpty = false := by
      cases l with
      | nil => exact absurd rfl hl
      | cons a t => rfl
    simp only [chunksOf.go, he, Bool.false_eq_true, if_false, List.cons.injEq, true_and]
    apply chunksOf_go_fuel n hn <;> rw [List.length_drop] <;> omega

/-- a full first block is split off -/
theorem chunksOf_append_of_length (n : Nat) (hn : 0 < n) (l1 l2 : List α) (h : l1.length = n) :
    chunksOf n (l1 ++ l2) = l1 :: chunksOf n l2 := by
  have hne : l1 ++ l2 ≠ [] := by
    intro e
    have := congrArg List.length e
    rw [List.length_append, List.length_nil] at this; omega
  rw [chunksOf_of_ne_nil n hn _ hne]
  simp [← h]

/-- a non-empty list no longer than the block size is a single chunk -/
theorem chunksOf_of_length_le (n : Nat) (l : List α) (hl : l ≠ []) (h : l.length ≤ n) :
    chunksOf n l = [l] := by
  have hpos : 0 < l.length := List.length_pos_iff.mpr hl
  rw [chunksOf_of_ne_nil n (by omega) l hl, List.take_of_length_le h, List.drop_of_length_le h,
    chunksOf_nil]

theorem flatten_chunksOf (n : Nat) (hn : 0 < n) (l : List α) : (chunksOf n l).flatten = l := by
  induction hk : l.length using Nat.strongRecOn generalizing l with
  | _ k ih =>
    by_cases hl : l = []
    · subst hl; simp
    · rw [chunksOf_of_ne_nil n hn l hl, List.flatten_cons]
      have hpos : 0 < l.length := List.length_pos_iff.mpr hl
      rw [ih (l.drop n).length (by rw [List.length_drop]; omega) _ rfl, List.take_append_drop]

/-- induction principle following the chunking -/
theorem chunks_induction (n : Nat) (hn : 0 < n) (P : List α → Prop) (hnil : P [])
    (hlast : ∀ l, l ≠ [] → l.length < n → P l)
    (hstep : ∀ l1 l2, l1.length = n → P l2 → P (l1 ++ l2)) : ∀ l, P l := by
  intro l
  induction hk : l.length using Nat.strongRecOn generalizing l with
  | _ k ih =>
    by_cases hl : l = []
    · subst hl; exact hnil
    · by_cases hlt : l.length < n
      · exact hlast l hl hlt
      · rw [← List.take_append_drop n l]
        apply hstep
        · rw [List.length_take]; omega
        · exact ih (l.drop n).length (by rw [List.length_drop]; omega) _ rfl

/-! ### Python `l[:-k]`, `l[-k:]` -/

theorem dropLast_append_of_length (a b : List α) (k : Nat) (h : b.length = k) :
    dropLast (a ++ b) k = a := by
  unfold dropLast; simp [h]

theorem takeLast_append_of_length (a b : List α) (k : Nat) (h : b.length = k) :
    takeLast (a ++ b) k = b := by
  unfold takeLast; simp [h]

theorem dropLast_append_takeLast (l : List α) (k : Nat) : dropLast l k ++ takeLast l k = l := by
  unfold dropLast takeLast; exact List.take_append_drop _ _

end BipVerif.Model
