/-
Error detection of the Bech32 / Bech32m / CashAddr checksums (substitution errors in the data part),
part 1: the generic reduction, and one / two substituted symbols.

BIP-173 promises "any error affecting at most 4 characters is detected" (strings ≤ 90 characters).
Proved in this file, on the model's own functions `bech32Verify` / `bchVerify`, for either Bech32
constant and ANY HRP:

  * Bech32(m): 1 substituted symbol is detected — for every length;
               2 substituted symbols — data part of at most 1023 symbols (the BCH code length;
               the HRP may be arbitrarily long; the bound is sharp, `x^1023 = 1`);
  * CashAddr:  1 substituted symbol (every length), 2 substituted symbols (data part ≤ 1025).

Three and four substituted symbols are in `BechDistanceVec.lean` (lane-parallel kernel evaluation).

Method.  The register is GF(2)-linear (`pmRun_linear`), so two equal-length strings that both verify
differ by an error vector `e` whose homogeneous syndrome `pmRun W G 0 e` is zero (`syndrome_zero`).
With errors `a, b, c, …` at distances `k2, k1, …` the syndrome is
`x^r (… x^k1 (x^k2 a ^^^ b) ^^^ c …)` where `x = (c ↦ pmStep W G c 0)` (`mulX`).  `x` has trivial
kernel on register states (32-case `decide`), so the trailing `x^r` is harmless and the last error
symbol never has to be enumerated: it suffices that the state before it is `≥ 32`
(`weight_one … weight_three`, `tail_one`, `tail_two`).  The facts "`x^k a ≥ 32`" are established by
kernel evaluation (`decide +kernel`) of a Bool-valued checker written with `Nat.rec` over a
table-driven copy of the step function (proved equal to `pmStep` on register states).

Scope: substitutions only (no insertions / deletions), errors in the data part (payload + checksum
symbols, as 5-bit values) only, same HRP and same checksum constant on both sides.
-/
import BipVerif.Lemmas.Polymod

namespace BipVerif.Model
open BipVerif

/-! ### Hamming distance and weight -/

/-- number of positions at which two symbol strings differ (positions beyond the shorter string are
ignored; all theorems below assume equal lengths). -/
def hamming : List Nat → List Nat → Nat
  | x :: a, y :: b => (if x = y then 0 else 1) + hamming a b
  | _, _ => 0

/-- number of non-zero symbols. -/
def weight : List Nat → Nat
  | [] => 0
  | x :: t => (if x = 0 then 0 else 1) + weight t

theorem xor_eq_zero_imp {a b : Nat} (h : a ^^^ b = 0) : a = b := by
  have : a ^^^ (a ^^^ b) = b := by rw [← Nat.xor_assoc, Nat.xor_self, Nat.zero_xor]
  rw [h, Nat.xor_zero] at this
  exact this

theorem xor_eq_zero_iff' {a b : Nat} : a ^^^ b = 0 ↔ a = b :=
  ⟨xor_eq_zero_imp, fun h => by rw [h, Nat.xor_self]⟩

theorem hamming_eq_weight : ∀ a b : List Nat, hamming a b = weight (List.zipWith (· ^^^ ·) a b) := by
  intro a
  induction a with
  | nil => intro b; simp [hamming, weight]
  | cons x a ih =>
    intro b
    cases b with
    | nil => simp [hamming, weight]
    | cons y b =>
      simp only [hamming, List.zipWith_cons_cons, weight, ih b, xor_eq_zero_iff']

theorem zipWith_xor_lt : ∀ a b : List Nat, (∀ x ∈ a, x < 32) → (∀ x ∈ b, x < 32) →
    ∀ x ∈ List.zipWith (· ^^^ ·) a b, x < 32 := by
  intro a
  induction a with
  | nil => intro b _ _ x hx; simp at hx
  | cons p a ih =>
    intro b ha hb x hx
    cases b with
    | nil => simp at hx
    | cons q b =>
      simp only [List.zipWith_cons_cons, List.mem_cons] at hx
      rcases hx with rfl | hx
      · exact Nat.xor_lt_two_pow (n := 5) (ha p (by simp)) (hb q (by simp))
      · exact ih b (fun y hy => ha y (by simp [hy])) (fun y hy => hb y (by simp [hy])) x hx

/-! ### generic theory: a linear register whose multiplication-by-`x` map has trivial kernel -/

/-- `k`-fold iterate. -/
def iter (f : Nat → Nat) : Nat → Nat → Nat
  | 0, c => c
  | k+1, c => iter f k (f c)

/-- multiplication by `x`: one register step with symbol 0. -/
def mulX (W : Nat) (G : Nat → Nat) (c : Nat) : Nat := pmStep W G c 0

/-- hypotheses on the feedback function. -/
structure LinReg (W : Nat) (G : Nat → Nat) : Prop where
  lin : ∀ x y, G (x ^^^ y) = G x ^^^ G y
  lt : ∀ x, G x < 2 ^ (W + 5)
  inj : ∀ c, c < 2 ^ (W + 5) → pmStep W G c 0 = 0 → c = 0

section Generic
variable {W : Nat} {G : Nat → Nat}

theorem le32_pow (W : Nat) : 32 ≤ 2 ^ (W + 5) := by
  have : (32 : Nat) = 2 ^ 5 := by norm_num
  rw [this]; exact Nat.pow_le_pow_right (by omega) (by omega)

theorem LinReg.G_zero (h : LinReg W G) : G 0 = 0 := by
  have := h.lin 0 0
  rw [Nat.xor_self, Nat.xor_self] at this
  exact this

theorem LinReg.mulX_zero (h : LinReg W G) : mulX W G 0 = 0 := by
  simp [mulX, pmStep, h.G_zero]

theorem pmStep_eq_mulX (c v : Nat) : pmStep W G c v = mulX W G c ^^^ v := pmStep_value W G c v

theorem LinReg.mulX_lt (h : LinReg W G) (c : Nat) : mulX W G c < 2 ^ (W + 5) :=
  pmStep_lt W G h.lt c 0 (Nat.two_pow_pos _)

theorem LinReg.iter_lt (h : LinReg W G) : ∀ k c, c < 2 ^ (W + 5) → iter (mulX W G) k c < 2 ^ (W + 5) := by
  intro k
  induction k with
  | zero => intro c hc; exact hc
  | succ k ih => intro c _; exact ih _ (h.mulX_lt c)

theorem LinReg.iter_ne_zero (h : LinReg W G) :
    ∀ k c, c < 2 ^ (W + 5) → c ≠ 0 → iter (mulX W G) k c ≠ 0 := by
  intro k
  induction k with
  | zero => intro c _ hc; exact hc
  | succ k ih =>
    intro c hlt hc
    exact ih _ (h.mulX_lt c) (fun h0 => hc (h.inj c hlt h0))

theorem pmRun_cons (c x : Nat) (t : List Nat) :
    pmRun W G c (x :: t) = pmRun W G (mulX W G c ^^^ x) t := by
  simp only [pmRun, List.foldl_cons, pmStep_eq_mulX]

theorem weight_cons_zero (t : List Nat) : weight (0 :: t) = weight t := by simp [weight]

theorem weight_cons_ne {x : Nat} (hx : x ≠ 0) (t : List Nat) : weight (x :: t) = weight t + 1 := by
  simp [weight, hx, Nat.add_comm]

/-- no error left: the state is only multiplied by `x`. -/
theorem pmRun_weight_zero : ∀ (e : List Nat) (c : Nat), weight e = 0 →
    pmRun W G c e = iter (mulX W G) e.length c := by
  intro e
  induction e with
  | nil => intro c _; rfl
  | cons x t ih =>
    intro c hw
    by_cases hx : x = 0
    · subst hx
      rw [weight_cons_zero] at hw
      rw [pmRun_cons, Nat.xor_zero, ih _ hw]
      rfl
    · rw [weight_cons_ne hx] at hw; omega

theorem LinReg.run_ne_zero_of_weight_zero (h : LinReg W G) (e : List Nat) (c : Nat)
    (hc : c < 2 ^ (W + 5)) (hne : c ≠ 0) (hw : weight e = 0) : pmRun W G c e ≠ 0 := by
  rw [pmRun_weight_zero e c hw]
  exact h.iter_ne_zero _ c hc hne

theorem LinReg.pmRun_zero_cons_zero (h : LinReg W G) (t : List Nat) :
    pmRun W G 0 (0 :: t) = pmRun W G 0 t := by
  rw [pmRun_cons, h.mulX_zero, Nat.xor_zero]

theorem LinReg.pmRun_zero_cons (h : LinReg W G) (x : Nat) (t : List Nat) :
    pmRun W G 0 (x :: t) = pmRun W G x t := by
  rw [pmRun_cons, h.mulX_zero, Nat.zero_xor]

/-- **one error** is never absorbed. -/
theorem LinReg.weight_one (h : LinReg W G) : ∀ e : List Nat, (∀ x ∈ e, x < 32) → weight e = 1 →
    pmRun W G 0 e ≠ 0 := by
  intro e
  induction e with
  | nil => intro _ hw; simp [weight] at hw
  | cons x t ih =>
    intro hlt hw
    by_cases hx : x = 0
    · subst hx
      rw [weight_cons_zero] at hw
      rw [h.pmRun_zero_cons_zero]
      exact ih (fun y hy => hlt y (by simp [hy])) hw
    · rw [weight_cons_ne hx] at hw
      rw [h.pmRun_zero_cons]
      exact h.run_ne_zero_of_weight_zero t x
        (Nat.lt_of_lt_of_le (hlt x (by simp)) (le32_pow W)) hx (by omega)

/-- one further error after state `c`, provided `x^k c ≥ 32` at every possible distance. -/
theorem LinReg.tail_one (h : LinReg W G) : ∀ (t : List Nat) (c : Nat), c < 2 ^ (W + 5) →
    (∀ x ∈ t, x < 32) → weight t = 1 →
    (∀ k, 1 ≤ k → k ≤ t.length → 32 ≤ iter (mulX W G) k c) → pmRun W G c t ≠ 0 := by
  intro t
  induction t with
  | nil => intro c _ _ hw; simp [weight] at hw
  | cons x t ih =>
    intro c hc hlt hw hK
    rw [pmRun_cons]
    by_cases hx : x = 0
    · subst hx
      rw [weight_cons_zero] at hw
      rw [Nat.xor_zero]
      exact ih _ (h.mulX_lt c) (fun y hy => hlt y (by simp [hy])) hw
        (fun k h1 h2 => hK (k + 1) (by omega) (by simp only [List.length_cons]; omega))
    · rw [weight_cons_ne hx] at hw
      have hx32 : x < 32 := hlt x (by simp)
      have h1 : 32 ≤ mulX W G c := hK 1 (by omega) (by simp)
      apply h.run_ne_zero_of_weight_zero t _
        (Nat.xor_lt_two_pow (h.mulX_lt c) (Nat.lt_of_lt_of_le hx32 (le32_pow W))) _ (by omega)
      intro h0
      have := xor_eq_zero_imp h0
      omega

/-- two further errors after state `c`. -/
theorem LinReg.tail_two (h : LinReg W G) : ∀ (t : List Nat) (c : Nat), c < 2 ^ (W + 5) →
    (∀ x ∈ t, x < 32) → weight t = 2 →
    (∀ k2 b k1, 1 ≤ k2 → 1 ≤ b → b < 32 → 1 ≤ k1 → k1 + k2 ≤ t.length →
      32 ≤ iter (mulX W G) k1 (iter (mulX W G) k2 c ^^^ b)) → pmRun W G c t ≠ 0 := by
  intro t
  induction t with
  | nil => intro c _ _ hw; simp [weight] at hw
  | cons x t ih =>
    intro c hc hlt hw hK
    rw [pmRun_cons]
    by_cases hx : x = 0
    · subst hx
      rw [weight_cons_zero] at hw
      rw [Nat.xor_zero]
      exact ih _ (h.mulX_lt c) (fun y hy => hlt y (by simp [hy])) hw
        (fun k2 b k1 h1 h2 h3 h4 h5 =>
          hK (k2 + 1) b k1 (by omega) h2 h3 h4 (by simp only [List.length_cons]; omega))
    · rw [weight_cons_ne hx] at hw
      have hx32 : x < 32 := hlt x (by simp)
      exact h.tail_one t _
        (Nat.xor_lt_two_pow (h.mulX_lt c) (Nat.lt_of_lt_of_le hx32 (le32_pow W)))
        (fun y hy => hlt y (by simp [hy])) (by omega)
        (fun k h1 h2 => hK 1 x k (by omega) (by omega) hx32 h1
          (by simp only [List.length_cons]; omega))

/-- **two errors**, given the order bound `x^k a ≥ 32` for `1 ≤ a < 32`, `1 ≤ k ≤ K`. -/
theorem LinReg.weight_two (h : LinReg W G) (K : Nat)
    (hK : ∀ a, 1 ≤ a → a < 32 → ∀ k, 1 ≤ k → k ≤ K → 32 ≤ iter (mulX W G) k a) :
    ∀ e : List Nat, (∀ x ∈ e, x < 32) → weight e = 2 → e.length ≤ K + 1 → pmRun W G 0 e ≠ 0 := by
  intro e
  induction e with
  | nil => intro _ hw; simp [weight] at hw
  | cons x t ih =>
    intro hlt hw hlen
    simp only [List.length_cons] at hlen
    by_cases hx : x = 0
    · subst hx
      rw [weight_cons_zero] at hw
      rw [h.pmRun_zero_cons_zero]
      exact ih (fun y hy => hlt y (by simp [hy])) hw (by omega)
    · rw [weight_cons_ne hx] at hw
      rw [h.pmRun_zero_cons]
      have hx32 : x < 32 := hlt x (by simp)
      exact h.tail_one t x (Nat.lt_of_lt_of_le hx32 (le32_pow W))
        (fun y hy => hlt y (by simp [hy])) (by omega)
        (fun k h1 h2 => hK x (by omega) hx32 k h1 (by omega))

/-- **three errors**, given `x^k1 (x^k2 a ^^^ b) ≥ 32` for all symbols `a, b` and distances with
`k1 + k2 ≤ N`. -/
theorem LinReg.weight_three (h : LinReg W G) (N : Nat)
    (hN : ∀ a, 1 ≤ a → a < 32 → ∀ k2 b k1, 1 ≤ k2 → 1 ≤ b → b < 32 → 1 ≤ k1 → k1 + k2 ≤ N →
      32 ≤ iter (mulX W G) k1 (iter (mulX W G) k2 a ^^^ b)) :
    ∀ e : List Nat, (∀ x ∈ e, x < 32) → weight e = 3 → e.length ≤ N + 1 → pmRun W G 0 e ≠ 0 := by
  intro e
  induction e with
  | nil => intro _ hw; simp [weight] at hw
  | cons x t ih =>
    intro hlt hw hlen
    simp only [List.length_cons] at hlen
    by_cases hx : x = 0
    · subst hx
      rw [weight_cons_zero] at hw
      rw [h.pmRun_zero_cons_zero]
      exact ih (fun y hy => hlt y (by simp [hy])) hw (by omega)
    · rw [weight_cons_ne hx] at hw
      rw [h.pmRun_zero_cons]
      have hx32 : x < 32 := hlt x (by simp)
      exact h.tail_two t x (Nat.lt_of_lt_of_le hx32 (le32_pow W))
        (fun y hy => hlt y (by simp [hy])) (by omega)
        (fun k2 b k1 h1 h2 h3 h4 h5 => hN x (by omega) hx32 k2 b k1 h1 h2 h3 h4 (by omega))

/-- two equal-length strings that lead the register from `s` to the same state differ by a vector
with zero homogeneous syndrome. -/
theorem LinReg.syndrome_zero (h : LinReg W G) (s : Nat) (d d' : List Nat)
    (hlen : d.length = d'.length) (heq : pmRun W G s d = pmRun W G s d') :
    pmRun W G 0 (List.zipWith (· ^^^ ·) d d') = 0 := by
  have := pmRun_linear W G h.lin d d' s s hlen
  rw [Nat.xor_self, heq, Nat.xor_self] at this
  exact this

/-- generic detection statement: strings at Hamming distance `w` cannot reach the same state if
every error vector of weight `w` (and admissible length) has a non-zero syndrome. -/
theorem LinReg.detect (h : LinReg W G) (s : Nat) (d d' : List Nat) (w : Nat)
    (hlen : d'.length = d.length) (hd : ∀ x ∈ d, x < 32) (hd' : ∀ x ∈ d', x < 32)
    (hh : hamming d d' = w)
    (hw : ∀ e : List Nat, (∀ x ∈ e, x < 32) → weight e = w → e.length = d.length →
      pmRun W G 0 e ≠ 0) :
    pmRun W G s d ≠ pmRun W G s d' := by
  intro heq
  refine hw _ (zipWith_xor_lt d d' hd hd') ?_ ?_ (h.syndrome_zero s d d' hlen.symm heq)
  · rw [← hamming_eq_weight]; exact hh
  · simp [hlen]

end Generic

/-! ### kernel-evaluated checkers

Written with `Nat.rec` / `Bool.rec` and raw `Nat` primitives so that one step costs the kernel as
little as possible.  `f` is the step function. -/

/-- `f^1 c, …, f^n c` are all `≥ 32`. -/
noncomputable def runOK (f : Nat → Nat) (n : Nat) : Nat → Bool :=
  Nat.rec (motive := fun _ => Nat → Bool) (fun _ => true)
    (fun _ ih c => Bool.rec false (ih (f c)) (Nat.ble (nat_lit 32) (f c))) n

/-- `runOK f n a` for `a = A, A-1, …, 1`. -/
noncomputable def loopA (f : Nat → Nat) (n : Nat) (A : Nat) : Bool :=
  Nat.rec (motive := fun _ => Bool) true
    (fun a ih => Bool.rec false ih (runOK f n (Nat.succ a))) A

theorem runOK_succ (f : Nat → Nat) (n c : Nat) :
    runOK f (n + 1) c = Bool.rec false (runOK f n (f c)) (Nat.ble 32 (f c)) := rfl

theorem loopA_succ (f : Nat → Nat) (n a : Nat) :
    loopA f n (a + 1) = Bool.rec false (loopA f n a) (runOK f n (a + 1)) := rfl

theorem boolrec_true {p q : Bool} (h : (Bool.rec false q p : Bool) = true) : p = true ∧ q = true := by
  cases p
  · exact absurd h (by simp)
  · exact ⟨rfl, h⟩

theorem runOK_spec (f : Nat → Nat) : ∀ n c, runOK f n c = true →
    ∀ k, 1 ≤ k → k ≤ n → 32 ≤ iter f k c := by
  intro n
  induction n with
  | zero => intro c _ k h1 h2; omega
  | succ n ih =>
    intro c h k h1 h2
    rw [runOK_succ] at h
    obtain ⟨hb, hr⟩ := boolrec_true h
    rw [Nat.ble_eq] at hb
    cases k with
    | zero => omega
    | succ j =>
      cases j with
      | zero => exact hb
      | succ i => exact ih (f c) hr (i + 1) (by omega) (by omega)

theorem loopA_spec (f : Nat → Nat) (n : Nat) : ∀ A, loopA f n A = true →
    ∀ a, 1 ≤ a → a ≤ A → ∀ k, 1 ≤ k → k ≤ n → 32 ≤ iter f k a := by
  intro A
  induction A with
  | zero => intro _ a h1 h2; omega
  | succ A ih =>
    intro h a h1 h2
    rw [loopA_succ] at h
    obtain ⟨hr, hrest⟩ := boolrec_true h
    by_cases ha : a = A + 1
    · subst ha; exact runOK_spec f n _ hr
    · exact ih hrest a h1 (by omega)

/-- iterates of two functions that agree on an invariant range. -/
theorem iter_congr (f g : Nat → Nat) (B : Nat) (hfg : ∀ c, c < B → f c = g c)
    (hg : ∀ c, g c < B) : ∀ k c, c < B → iter f k c = iter g k c := by
  intro k
  induction k with
  | zero => intro c _; rfl
  | succ k ih =>
    intro c hc
    show iter f k (f c) = iter g k (g c)
    rw [hfg c hc]
    exact ih _ (hg c)

section Transfer
variable {W : Nat} {G : Nat → Nat}

/-- order bound transferred from the fast step function to `mulX`. -/
theorem LinReg.order_of_loopA (h : LinReg W G) (f : Nat → Nat)
    (hf : ∀ c, c < 2 ^ (W + 5) → f c = mulX W G c) (K : Nat) (hchk : loopA f K 31 = true) :
    ∀ a, 1 ≤ a → a < 32 → ∀ k, 1 ≤ k → k ≤ K → 32 ≤ iter (mulX W G) k a := by
  intro a h1 h2 k h3 h4
  rw [← iter_congr f (mulX W G) _ hf h.mulX_lt k a (Nat.lt_of_lt_of_le h2 (le32_pow W))]
  exact loopA_spec f K 31 hchk a h1 (by omega) k h3 h4

end Transfer

/-! ### Bech32 / Bech32m -/

/-- the 32 feedback values `bech32G t`, 30 bits each, packed little-endian. -/
def bech32Tab : Nat :=
  3167683604786476680638170016535464146404290855852078075436333045420979488003856759205258223068348314308646418422881970373098666747689903520250114073904087460071030241203533025380733535767661150422370647467990783095421708366448033054046187301879149009129772515451912617532191595252879982592

/-- table-driven copy of `c ↦ pmStep 25 bech32G c 0`. -/
def bech32X (c : Nat) : Nat :=
  Nat.xor (Nat.shiftLeft (Nat.land c (nat_lit 33554431)) (nat_lit 5))
    (Nat.land (Nat.shiftRight bech32Tab (Nat.mul (nat_lit 30) (Nat.shiftRight c (nat_lit 25))))
      (nat_lit 1073741823))

theorem bech32Tab_spec : ∀ t, t < 32 → (bech32Tab >>> (30 * t)) &&& 1073741823 = bech32G t := by
  decide +kernel

theorem bech32G_low : ∀ t, t < 32 → bech32G t % 32 = 0 → t = 0 := by decide +kernel

theorem bech32X_eq (c : Nat) (hc : c < 2 ^ (25 + 5)) : bech32X c = mulX 25 bech32G c := by
  have ht : c >>> 25 < 32 := by
    rw [Nat.shiftRight_eq_div_pow]
    have : (2 : Nat) ^ 25 = 33554432 := by norm_num
    rw [this]
    have : (2 : Nat) ^ (25 + 5) = 1073741824 := by norm_num
    omega
  have hm : (2 : Nat) ^ 25 - 1 = 33554431 := by norm_num
  show ((c &&& 33554431) <<< 5) ^^^ ((bech32Tab >>> (30 * (c >>> 25))) &&& 1073741823) = _
  rw [bech32Tab_spec _ ht, mulX, pmStep, Nat.xor_zero, hm]

/-- multiplication by `x` has trivial kernel on 30-bit states. -/
theorem bech32_inj (c : Nat) (hc : c < 2 ^ (25 + 5)) (h : pmStep 25 bech32G c 0 = 0) : c = 0 := by
  have hpow : (2 : Nat) ^ 25 = 33554432 := by norm_num
  have ht : c >>> 25 < 32 := by
    rw [Nat.shiftRight_eq_div_pow, hpow]
    have : (2 : Nat) ^ (25 + 5) = 1073741824 := by norm_num
    omega
  unfold pmStep at h
  rw [Nat.xor_zero] at h
  have heq := xor_eq_zero_imp h
  rw [Nat.shiftLeft_eq] at heq
  have h0 : c >>> 25 = 0 := bech32G_low _ ht (by rw [← heq]; norm_num)
  have hG0 : bech32G 0 = 0 := by decide
  rw [h0, hG0, Nat.and_two_pow_sub_one_eq_mod, hpow] at heq
  rw [Nat.shiftRight_eq_div_pow, hpow] at h0
  omega

theorem bech32_linReg : LinReg 25 bech32G := ⟨bech32G_linear, bech32G_lt, bech32_inj⟩

/-- `x^k a ≥ 32` for `1 ≤ a ≤ 31`, `1 ≤ k ≤ 1022` (and `x^1023 = 1`: the bound is sharp). -/
theorem bech32_chk2 : loopA bech32X 1022 31 = true := by decide +kernel

theorem bech32_order : ∀ a, 1 ≤ a → a < 32 → ∀ k, 1 ≤ k → k ≤ 1022 →
    32 ≤ iter (mulX 25 bech32G) k a :=
  bech32_linReg.order_of_loopA bech32X bech32X_eq 1022 bech32_chk2

/-- verification in register form: the HRP only fixes the state `s` in which the data part starts. -/
theorem bech32Verify_iff (hrp : List Char) (d : List Nat) (m : Bool) :
    bech32Verify hrp d m = true ↔
      pmRun 25 bech32G (pmRun 25 bech32G 1 (bech32HrpExpand hrp)) d = bech32Const m := by
  unfold bech32Verify
  rw [beq_iff_eq, bech32PolyMod_eq, pmRun_append]

theorem bech32_detect (hrp : List Char) (d d' : List Nat) (m : Bool) (w : Nat)
    (hv : bech32Verify hrp d m = true) (hlen : d'.length = d.length)
    (hd : ∀ x ∈ d, x < 32) (hd' : ∀ x ∈ d', x < 32) (hh : hamming d d' = w)
    (hw : ∀ e : List Nat, (∀ x ∈ e, x < 32) → weight e = w → e.length = d.length →
      pmRun 25 bech32G 0 e ≠ 0) :
    bech32Verify hrp d' m = false := by
  rw [← Bool.not_eq_true]
  intro hv'
  rw [bech32Verify_iff] at hv hv'
  exact bech32_linReg.detect _ d d' w hlen hd hd' hh hw (hv.trans hv'.symm)

/-- **Bech32 / Bech32m: every single substitution in the data part is detected** (any length). -/
theorem bech32_detects_one (hrp : List Char) (d d' : List Nat) (m : Bool)
    (hv : bech32Verify hrp d m = true) (hlen : d'.length = d.length)
    (hd : ∀ x ∈ d, x < 32) (hd' : ∀ x ∈ d', x < 32) (hh : hamming d d' = 1) :
    bech32Verify hrp d' m = false :=
  bech32_detect hrp d d' m 1 hv hlen hd hd' hh (fun e he hw _ => bech32_linReg.weight_one e he hw)

/-- **Bech32 / Bech32m: every double substitution in a data part of ≤ 1023 symbols is detected.** -/
theorem bech32_detects_two (hrp : List Char) (d d' : List Nat) (m : Bool)
    (hv : bech32Verify hrp d m = true) (hlen : d'.length = d.length) (hL : d.length ≤ 1023)
    (hd : ∀ x ∈ d, x < 32) (hd' : ∀ x ∈ d', x < 32) (hh : hamming d d' = 2) :
    bech32Verify hrp d' m = false :=
  bech32_detect hrp d d' m 2 hv hlen hd hd' hh
    (fun e he hw hl => bech32_linReg.weight_two 1022 bech32_order e he hw (by omega))

/-! ### CashAddr (40-bit register) -/

/-- the 32 feedback values `bchG t`, 40 bits each, packed little-endian. -/
def bchTab : Nat :=
  13180924772676477296099278942544023427952803763720544632780973741817512057287691671195579153243828598736881838700745070649731136879230871377423035725936135984723307448250275196387686785402455291983313530816496768079468283468866822339125392247307975210150502100247083804041226133241750076500977521202023270467091170455658796744766026883871360108368608280333452340151426902664465193369600

/-- table-driven copy of `c ↦ pmStep 35 bchG c 0`. -/
def bchX (c : Nat) : Nat :=
  Nat.xor (Nat.shiftLeft (Nat.land c (nat_lit 34359738367)) (nat_lit 5))
    (Nat.land (Nat.shiftRight bchTab (Nat.mul (nat_lit 40) (Nat.shiftRight c (nat_lit 35))))
      (nat_lit 1099511627775))

theorem bchTab_spec : ∀ t, t < 32 → (bchTab >>> (40 * t)) &&& 1099511627775 = bchG t := by
  decide +kernel

theorem bchG_low : ∀ t, t < 32 → bchG t % 32 = 0 → t = 0 := by decide +kernel

theorem bchX_eq (c : Nat) (hc : c < 2 ^ (35 + 5)) : bchX c = mulX 35 bchG c := by
  have ht : c >>> 35 < 32 := by
    rw [Nat.shiftRight_eq_div_pow]
    have : (2 : Nat) ^ 35 = 34359738368 := by norm_num
    rw [this]
    have : (2 : Nat) ^ (35 + 5) = 1099511627776 := by norm_num
    omega
  have hm : (2 : Nat) ^ 35 - 1 = 34359738367 := by norm_num
  show ((c &&& 34359738367) <<< 5) ^^^ ((bchTab >>> (40 * (c >>> 35))) &&& 1099511627775) = _
  rw [bchTab_spec _ ht, mulX, pmStep, Nat.xor_zero, hm]

/-- multiplication by `x` has trivial kernel on 40-bit states. -/
theorem bch_inj (c : Nat) (hc : c < 2 ^ (35 + 5)) (h : pmStep 35 bchG c 0 = 0) : c = 0 := by
  have hpow : (2 : Nat) ^ 35 = 34359738368 := by norm_num
  have ht : c >>> 35 < 32 := by
    rw [Nat.shiftRight_eq_div_pow, hpow]
    have : (2 : Nat) ^ (35 + 5) = 1099511627776 := by norm_num
    omega
  unfold pmStep at h
  rw [Nat.xor_zero] at h
  have heq := xor_eq_zero_imp h
  rw [Nat.shiftLeft_eq] at heq
  have h0 : c >>> 35 = 0 := bchG_low _ ht (by rw [← heq]; norm_num)
  have hG0 : bchG 0 = 0 := by decide
  rw [h0, hG0, Nat.and_two_pow_sub_one_eq_mod, hpow] at heq
  rw [Nat.shiftRight_eq_div_pow, hpow] at h0
  omega

theorem bch_linReg : LinReg 35 bchG := ⟨bchG_linear, bchG_lt, bch_inj⟩

/-- `x^k a ≥ 32` for `1 ≤ a ≤ 31`, `1 ≤ k ≤ 1024` (and `x^1025 = 1`: the bound is sharp). -/
theorem bch_chk2 : loopA bchX 1024 31 = true := by decide +kernel

theorem bch_order : ∀ a, 1 ≤ a → a < 32 → ∀ k, 1 ≤ k → k ≤ 1024 →
    32 ≤ iter (mulX 35 bchG) k a :=
  bch_linReg.order_of_loopA bchX bchX_eq 1024 bch_chk2

theorem bchVerify_iff (hrp : List Char) (d : List Nat) :
    bchVerify hrp d = true ↔
      pmRun 35 bchG (pmRun 35 bchG 1 (bchHrpExpand hrp)) d = 1 := by
  unfold bchVerify
  rw [beq_iff_eq, bchPolyMod_eq, pmRun_append, xor_eq_zero_iff']

theorem bch_detect (hrp : List Char) (d d' : List Nat) (w : Nat)
    (hv : bchVerify hrp d = true) (hlen : d'.length = d.length)
    (hd : ∀ x ∈ d, x < 32) (hd' : ∀ x ∈ d', x < 32) (hh : hamming d d' = w)
    (hw : ∀ e : List Nat, (∀ x ∈ e, x < 32) → weight e = w → e.length = d.length →
      pmRun 35 bchG 0 e ≠ 0) :
    bchVerify hrp d' = false := by
  rw [← Bool.not_eq_true]
  intro hv'
  rw [bchVerify_iff] at hv hv'
  exact bch_linReg.detect _ d d' w hlen hd hd' hh hw (hv.trans hv'.symm)

/-- **CashAddr: every single substitution in the data part is detected** (any length). -/
theorem bch_detects_one (hrp : List Char) (d d' : List Nat)
    (hv : bchVerify hrp d = true) (hlen : d'.length = d.length)
    (hd : ∀ x ∈ d, x < 32) (hd' : ∀ x ∈ d', x < 32) (hh : hamming d d' = 1) :
    bchVerify hrp d' = false :=
  bch_detect hrp d d' 1 hv hlen hd hd' hh (fun e he hw _ => bch_linReg.weight_one e he hw)

/-- **CashAddr: every double substitution in a data part of ≤ 1025 symbols is detected.** -/
theorem bch_detects_two (hrp : List Char) (d d' : List Nat)
    (hv : bchVerify hrp d = true) (hlen : d'.length = d.length) (hL : d.length ≤ 1025)
    (hd : ∀ x ∈ d, x < 32) (hd' : ∀ x ∈ d', x < 32) (hh : hamming d d' = 2) :
    bchVerify hrp d' = false :=
  bch_detect hrp d d' 2 hv hlen hd hd' hh
    (fun e he hw hl => bch_linReg.weight_two 1024 bch_order e he hw (by omega))

end BipVerif.Model
