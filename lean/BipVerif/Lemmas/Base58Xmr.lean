/- Monero block-Base58 round trip: `xmrDecode (xmrEncode b) = .ok b` for every byte string. -/
import BipVerif.Lemmas.Chunks
import BipVerif.Lemmas.Base58Check

namespace BipVerif.Model
open BipVerif

/-- encoded length of a `k`-byte block -/
def xmrEncLen (k : Nat) : Nat := xmrBlockEncLens.getD k 0

/-- per-block encoder, as in `xmrEncode` -/
def xmrEncBlk (blk : Bytes) : List Char :=
  rjust (xmrBlockEncLens.getD blk.length 0) '1' (b58Encode btcAlphabet blk)

/-- per-block decoder, as in `xmrDecode` -/
def xmrDecBlk (lastDec : Nat) (blk : List Char) : R Bytes := do
  let d ← b58Decode btcAlphabet blk
  let k := if blk.length = 11 then 8 else lastDec
  if (d.dropWhile (· == 0)).length > k then throw .value
  pure (xmrUnPad d k)

/-- the per-block decoder without monadic plumbing -/
theorem xmrDecBlk_eq (lastDec : Nat) (blk : List Char) :
    xmrDecBlk lastDec blk = match b58Decode btcAlphabet blk with
      | .error e => .error e
      | .ok d =>
        if (d.dropWhile (· == 0)).length > (if blk.length = 11 then 8 else lastDec) then .error .value
        else .ok (xmrUnPad d (if blk.length = 11 then 8 else lastDec)) := by
  unfold xmrDecBlk
  cases b58Decode btcAlphabet blk with
  | error e => rfl
  | ok d =>
    simp only [bind, Except.bind]
    split <;> rfl

theorem xmrEncode_eq (data : Bytes) : xmrEncode data = (chunksOf 8 data).flatMap xmrEncBlk := rfl

theorem xmrDecode_eq (s : List Char) :
    xmrDecode s = match xmrBlockEncLens.idxOf? (s.length % 11) with
      | some i => (chunksOf 11 s).mapM (xmrDecBlk i) >>= fun decs => pure decs.flatten
      | none => throw .value := by
  unfold xmrDecode
  dsimp only
  cases h : xmrBlockEncLens.idxOf? (s.length % 11) <;> rfl

/-! ### numeric facts -/

/-- a `j`-byte value fits in `xmrEncLen j` Base58 digits -/
theorem xmr_fits : ∀ j : Fin 9, 256 ^ j.val ≤ 58 ^ xmrEncLen j.val := by decide

/-- leading zero bytes cost one symbol each, and the table grows by at least one per byte -/
theorem xmr_lens_mono : ∀ k z : Fin 9, z.val ≤ k.val → z.val + xmrEncLen (k.val - z.val) ≤ xmrEncLen k.val := by
  decide

theorem xmr_idxOf : ∀ k : Fin 9, xmrBlockEncLens.idxOf? (xmrEncLen k.val) = some k.val := by decide

theorem xmr_len_lt : ∀ k : Fin 8, 0 < k.val → 0 < xmrEncLen k.val ∧ xmrEncLen k.val < 11 := by decide

theorem btc_zero : btcAlphabet.getD 0 'x' = '1' := by decide

/-! ### one block -/

theorem dropWhile_length_le {α} (p : α → Bool) (l : List α) : (l.dropWhile p).length ≤ l.length := by
  induction l with
  | nil => simp
  | cons a t ih =>
    rw [List.dropWhile_cons]; split
    · simp only [List.length_cons]; omega
    · exact Nat.le_refl _

theorem leadingCount_replicate_append' {α} [BEq α] [LawfulBEq α] (x : α) (p : Nat) (l : List α) :
    leadingCount x (List.replicate p x ++ l) = p + leadingCount x l := by
  unfold leadingCount
  induction p with
  | zero => simp
  | succ p ih =>
    rw [List.replicate_succ, List.cons_append, List.takeWhile_cons]
    simp only [beq_self_eq_true, if_true, List.length_cons, ih]; omega

theorem b58Encode_zeros_append (alph : List Char) (p : Nat) (b : Bytes) :
    b58Encode alph (List.replicate p 0 ++ b)
      = List.replicate p (alph.getD 0 'x') ++ b58Encode alph b := by
  unfold b58Encode
  simp only
  rw [toNatBE_zeros_append, leadingCount_replicate_append', List.replicate_add, List.append_assoc]

theorem b58Encode_length (alph : List Char) (b : Bytes) :
    (b58Encode alph b).length
      = leadingCount (0 : UInt8) b + (Nat.digits 58 (Bytes.toNatBE b)).length := by
  unfold b58Encode
  simp only [List.length_append, List.length_replicate, List.length_map]
  rw [digitsBE_eq 58 (by omega)]; simp

theorem toNatBE_lt_of_leading (b : Bytes) :
    Bytes.toNatBE b < 256 ^ (b.length - leadingCount (0 : UInt8) b) := by
  have h := length_eq_leadingCount_add b
  have hs := split_leading (0 : UInt8) b
  have : Bytes.toNatBE b = Bytes.toNatBE (b.dropWhile (· == 0)) := by
    conv_lhs => rw [hs]
    exact toNatBE_zeros_append _ _
  rw [this]
  have := toNatBE_lt (b.dropWhile (· == 0))
  have he : b.length - leadingCount (0 : UInt8) b = (b.dropWhile (· == 0)).length := by omega
  rw [he]; exact this

theorem leadingCount_le_length {α} [BEq α] (x : α) (l : List α) : leadingCount x l ≤ l.length := by
  unfold leadingCount
  induction l with
  | nil => simp
  | cons a t ih =>
    rw [List.takeWhile_cons]
    split
    · simp only [List.length_cons]; omega
    · simp

/-- the Base58 encoding of a block of `k ≤ 8` bytes has at most `xmrEncLen k` symbols -/
theorem b58Encode_length_le (alph : List Char) (blk : Bytes) (hk : blk.length ≤ 8) :
    (b58Encode alph blk).length ≤ xmrEncLen blk.length := by
  rw [b58Encode_length]
  have hz := leadingCount_le_length (0 : UInt8) blk
  set z := leadingCount (0 : UInt8) blk with hzdef
  have hv := toNatBE_lt_of_leading blk
  rw [← hzdef] at hv
  have hfit := xmr_fits ⟨blk.length - z, by omega⟩
  have hmono := xmr_lens_mono ⟨blk.length, by omega⟩ ⟨z, by omega⟩ hz
  simp only at hfit hmono
  have hd : (Nat.digits 58 (Bytes.toNatBE blk)).length ≤ xmrEncLen (blk.length - z) :=
    (Nat.digits_length_le_iff (by omega) _).mpr (lt_of_lt_of_le hv hfit)
  omega

theorem xmrEncBlk_eq (blk : Bytes) :
    xmrEncBlk blk = b58Encode btcAlphabet
      (List.replicate (xmrEncLen blk.length - (b58Encode btcAlphabet blk).length) 0 ++ blk) := by
  rw [b58Encode_zeros_append, btc_zero]; rfl

theorem xmrEncBlk_length (blk : Bytes) (hk : blk.length ≤ 8) :
    (xmrEncBlk blk).length = xmrEncLen blk.length := by
  have := b58Encode_length_le btcAlphabet blk hk
  unfold xmrEncBlk rjust
  simp only [List.length_append, List.length_replicate]
  unfold xmrEncLen at this ⊢
  omega

theorem xmrUnPad_zeros_append (p : Nat) (blk : Bytes) :
    xmrUnPad (List.replicate p 0 ++ blk) blk.length = blk := by
  unfold xmrUnPad pySlice pyBound
  simp only [List.length_append, List.length_replicate]
  have h1 : ¬ ((↑(p + blk.length) : Int) - ↑blk.length < 0) := by omega
  have h2 : ¬ ((↑(p + blk.length) : Int) < 0) := by omega
  have h3 : ((↑(p + blk.length) : Int) - ↑blk.length).toNat = p := by omega
  have h4 : ¬ (p > p + blk.length) := by omega
  simp only [h1, h2, h3, h4, if_false, Int.toNat_natCast, gt_iff_lt, Nat.lt_irrefl]
  rw [List.take_of_length_le (by simp), List.drop_left' (by simp)]

theorem xmrDecBlk_xmrEncBlk (lastDec : Nat) (blk : Bytes) (hk : blk.length ≤ 8)
    (hl : blk.length < 8 → lastDec = blk.length) (hne : blk ≠ []) :
    xmrDecBlk lastDec (xmrEncBlk blk) = .ok blk := by
  rw [xmrDecBlk_eq, xmrEncBlk_length blk hk]
  rw [xmrEncBlk_eq, b58_decode_encode btcAlphabet btcAlphabet_nodup btcAlphabet_length]
  simp only
  have hsel : (if xmrEncLen blk.length = 11 then 8 else lastDec) = blk.length := by
    by_cases h8 : blk.length = 8
    · rw [h8]; rfl
    · have hpos : 0 < blk.length := List.length_pos_iff.mpr hne
      have := xmr_len_lt ⟨blk.length, by omega⟩ hpos
      simp only at this
      rw [if_neg (by omega), hl (by omega)]
  rw [hsel, xmrUnPad_zeros_append]
  have hdw : ¬ ((List.replicate (xmrEncLen blk.length - (b58Encode btcAlphabet blk).length) (0 : UInt8)
      ++ blk).dropWhile (· == 0)).length > blk.length := by
    rw [List.dropWhile_append_of_pos (by intro a ha; simp [(List.mem_replicate.mp ha).2])]
    have := dropWhile_length_le (· == (0 : UInt8)) blk
    omega
  rw [if_neg hdw]

/-! ### the whole string -/

theorem xmr_blocks (data : Bytes) :
    ∀ lastDec, (data.length % 8 ≠ 0 → lastDec = data.length % 8) →
      (xmrEncode data).length % 11 = xmrEncLen (data.length % 8) ∧
      (chunksOf 11 (xmrEncode data)).mapM (xmrDecBlk lastDec) = .ok (chunksOf 8 data) := by
  refine chunks_induction 8 (by omega) (fun data => ∀ lastDec,
      (data.length % 8 ≠ 0 → lastDec = data.length % 8) →
      (xmrEncode data).length % 11 = xmrEncLen (data.length % 8) ∧
      (chunksOf 11 (xmrEncode data)).mapM (xmrDecBlk lastDec) = .ok (chunksOf 8 data))
    ?_ ?_ ?_ data
  · intro lastDec _
    simp only [xmrEncode_eq, chunksOf_nil, List.flatMap_nil, List.length_nil, Nat.zero_mod,
      List.mapM_nil]
    exact ⟨rfl, rfl⟩
  · intro l hne hlt lastDec hld
    have hpos : 0 < l.length := List.length_pos_iff.mpr hne
    have hmod : l.length % 8 = l.length := Nat.mod_eq_of_lt hlt
    have henc : xmrEncode l = xmrEncBlk l := by
      rw [xmrEncode_eq, chunksOf_of_length_le 8 l hne (by omega)]; simp
    have hlen := xmrEncBlk_length l (by omega)
    have hrange := xmr_len_lt ⟨l.length, hlt⟩ hpos
    simp only at hrange
    rw [henc, hmod, hlen]
    refine ⟨Nat.mod_eq_of_lt hrange.2, ?_⟩
    have hne' : xmrEncBlk l ≠ [] := by
      intro e; rw [e] at hlen; simp at hlen; omega
    rw [chunksOf_of_length_le 11 _ hne' (by omega), chunksOf_of_length_le 8 l hne (by omega)]
    rw [List.mapM_cons, xmrDecBlk_xmrEncBlk lastDec l (by omega) (fun _ => by rw [hld (by omega), hmod]) hne]
    rfl
  · intro l1 l2 h8 ih lastDec hld
    have hlenmod : (l1 ++ l2).length % 8 = l2.length % 8 := by
      rw [List.length_append, h8]; omega
    rw [hlenmod] at hld ⊢
    obtain ⟨ih1, ih2⟩ := ih lastDec hld
    have hne1 : l1 ≠ [] := by intro e; rw [e] at h8; simp at h8
    have henc : xmrEncode (l1 ++ l2) = xmrEncBlk l1 ++ xmrEncode l2 := by
      rw [xmrEncode_eq, chunksOf_append_of_length 8 (by omega) l1 l2 h8, List.flatMap_cons,
        xmrEncode_eq]
    have hlen : (xmrEncBlk l1).length = 11 := by
      rw [xmrEncBlk_length l1 (by omega), h8]; rfl
    rw [henc]
    refine ⟨by rw [List.length_append, hlen, ← ih1]; omega, ?_⟩
    rw [chunksOf_append_of_length 11 (by omega) _ _ hlen,
      chunksOf_append_of_length 8 (by omega) l1 l2 h8, List.mapM_cons,
      xmrDecBlk_xmrEncBlk lastDec l1 (by omega) (fun h => by omega) hne1, ih2]
    rfl

/-- **Monero Base58 round trip** -/
theorem xmr_decode_encode (b : Bytes) : xmrDecode (xmrEncode b) = .ok b := by
  obtain ⟨h1, h2⟩ := xmr_blocks b (b.length % 8) (fun _ => rfl)
  rw [xmrDecode_eq, h1]
  have := xmr_idxOf ⟨b.length % 8, by omega⟩
  simp only at this
  rw [this]
  simp only [h2, bind, Except.bind, pure, Except.pure]
  rw [flatten_chunksOf 8 (by omega)]

/-! ### canonicity: every accepted string is the encoding of its payload -/

/-- a digit string of `L_k - z` Base58 digits without leading zero needs at least `k - z` bytes -/
theorem xmr_lens_lower : ∀ k z : Fin 9, z.val < k.val →
    256 ^ (k.val - z.val - 1) ≤ 58 ^ (xmrEncLen k.val - z.val - 1) := by decide

theorem xmr_lens_ge : ∀ k : Fin 9, k.val ≤ xmrEncLen k.val := by decide

theorem xmrUnPad_append_right (a b : Bytes) : xmrUnPad (a ++ b) b.length = b := by
  unfold xmrUnPad pySlice pyBound
  simp only [List.length_append]
  have h1 : ¬ ((↑(a.length + b.length) : Int) - ↑b.length < 0) := by omega
  have h2 : ¬ ((↑(a.length + b.length) : Int) < 0) := by omega
  have h3 : ((↑(a.length + b.length) : Int) - ↑b.length).toNat = a.length := by omega
  have h4 : ¬ (a.length > a.length + b.length) := by omega
  simp only [h1, h2, h3, h4, if_false, Int.toNat_natCast, gt_iff_lt, Nat.lt_irrefl]
  rw [List.take_of_length_le (by simp), List.drop_left' rfl]

theorem xmrUnPad_append_right' (d a b : Bytes) (k : Nat) (hd : d = a ++ b) (hk : b.length = k) :
    xmrUnPad d k = b := by
  subst hd; subst hk; exact xmrUnPad_append_right a b

theorem leadingCount_dropWhile (b : Bytes) : leadingCount (0 : UInt8) (b.dropWhile (· == 0)) = 0 := by
  have := leadingCount_replicate_append (0 : UInt8) 0 _ (dropWhile_head_ne (0 : UInt8) b)
  simpa using this

/-- the number of Base58 digits of a value bounds it from below -/
theorem pow_digits_pred_le (v : Nat) (h : 0 < (Nat.digits 58 v).length) :
    58 ^ ((Nat.digits 58 v).length - 1) ≤ v := by
  have hv : v ≠ 0 := by rintro rfl; simp at h
  have := Nat.base_pow_length_digits_le 58 v (by omega) hv
  have hs : (Nat.digits 58 v).length = ((Nat.digits 58 v).length - 1) + 1 := by omega
  rw [hs, Nat.pow_succ] at this
  omega

/-- one block: an accepted block string of the right length decodes to exactly `k` bytes whose
block encoding is the string. -/
theorem xmrDecBlk_canonical (lastDec k : Nat) (blk : List Char) (out : Bytes) (hk : k ≤ 8)
    (hL : blk.length = xmrEncLen k) (hsel : (if blk.length = 11 then 8 else lastDec) = k)
    (h : xmrDecBlk lastDec blk = .ok out) : out.length = k ∧ xmrEncBlk out = blk := by
  rw [xmrDecBlk_eq, hsel] at h
  cases hd : b58Decode btcAlphabet blk with
  | error e => rw [hd] at h; cases h
  | ok d =>
    rw [hd] at h
    simp only at h
    by_cases hgt : (d.dropWhile (· == 0)).length > k
    · rw [if_pos hgt] at h; cases h
    · rw [if_neg hgt] at h
      have hout : out = xmrUnPad d k := by cases h; rfl
      have henc := b58_encode_decode btcAlphabet btcAlphabet_nodup btcAlphabet_length blk d hd
      have hsplit := split_leading (0 : UInt8) d
      set z := leadingCount (0 : UInt8) d with hz
      set d' := d.dropWhile (· == 0) with hd'
      set E := b58Encode btcAlphabet d' with hE
      have hblk : blk = List.replicate z '1' ++ E := by
        rw [← henc, hsplit, b58Encode_zeros_append, btc_zero]
      have hElen : E.length = (Nat.digits 58 (Bytes.toNatBE d')).length := by
        rw [hE, b58Encode_length, hd', leadingCount_dropWhile]; omega
      have hLz : xmrEncLen k = z + E.length := by
        rw [← hL, hblk]; simp
      have hkL := xmr_lens_ge ⟨k, by omega⟩
      simp only at hkL
      -- the decoded bytes are not shorter than the block
      have hzm : k ≤ z + d'.length := by
        by_contra hlt
        have hzk : z < k := by omega
        have hpos : 0 < (Nat.digits 58 (Bytes.toNatBE d')).length := by omega
        have h1 := pow_digits_pred_le _ hpos
        have h2 := toNatBE_lt d'
        have h3 := xmr_lens_lower ⟨k, by omega⟩ ⟨z, by omega⟩ hzk
        simp only at h3
        have h4 : 256 ^ d'.length ≤ 256 ^ (k - z - 1) := Nat.pow_le_pow_right (by omega) (by omega)
        have h5 : (Nat.digits 58 (Bytes.toNatBE d')).length - 1 = xmrEncLen k - z - 1 := by omega
        rw [h5] at h1
        omega
      have hdsplit : d = List.replicate (z - (k - d'.length)) 0 ++ (List.replicate (k - d'.length) 0 ++ d') := by
        rw [← List.append_assoc, ← List.replicate_add,
          show z - (k - d'.length) + (k - d'.length) = z by omega]
        exact hsplit
      have hlen : (List.replicate (k - d'.length) (0 : UInt8) ++ d').length = k := by
        simp; omega
      have hout' : out = List.replicate (k - d'.length) 0 ++ d' := by
        rw [hout]
        exact xmrUnPad_append_right' _ _ _ k hdsplit hlen
      refine ⟨by rw [hout', hlen], ?_⟩
      rw [hout']
      unfold xmrEncBlk rjust
      rw [hlen, b58Encode_zeros_append, btc_zero, ← hE, hblk, ← List.append_assoc,
        ← List.replicate_add]
      congr 2
      simp only [List.length_append, List.length_replicate]
      unfold xmrEncLen at hLz
      omega

theorem mapM_cons_ok {α β} {f : α → R β} {a : α} {l : List α} {r : List β}
    (h : (a :: l).mapM f = .ok r) : ∃ b bs, f a = .ok b ∧ l.mapM f = .ok bs ∧ r = b :: bs := by
  rw [List.mapM_cons] at h
  cases hf : f a with
  | error e => rw [hf] at h; cases h
  | ok b =>
    cases hl : l.mapM f with
    | error e => rw [hf, hl] at h; cases h
    | ok bs =>
      rw [hf, hl] at h
      exact ⟨b, bs, rfl, rfl, by cases h; rfl⟩

/-- what a successful lookup of the last block's length means -/
theorem xmr_idxOf_inv {n i : Nat} (hn : n < 11) (h : xmrBlockEncLens.idxOf? n = some i) :
    i < 8 ∧ xmrEncLen i = n := by
  rw [List.idxOf?, List.findIdx?_eq_some_iff_getElem] at h
  obtain ⟨hlt, heq, _⟩ := h
  have hlen : xmrBlockEncLens.length = 9 := rfl
  have he : xmrEncLen i = n := by
    unfold xmrEncLen
    simp only [beq_iff_eq] at heq
    simp [List.getD_eq_getElem?_getD, hlt, heq]
  refine ⟨?_, he⟩
  by_contra h8
  have h8' : i = 8 := by omega
  subst h8'
  have : xmrEncLen 8 = 11 := rfl
  omega

theorem xmr_blocks_canonical (kl : Nat) (hkl : kl < 8) (s : List Char) :
    ∀ decs, s.length % 11 = xmrEncLen kl →
      (chunksOf 11 s).mapM (xmrDecBlk kl) = .ok decs → xmrEncode decs.flatten = s := by
  refine chunks_induction 11 (by omega) (fun s => ∀ decs, s.length % 11 = xmrEncLen kl →
      (chunksOf 11 s).mapM (xmrDecBlk kl) = .ok decs → xmrEncode decs.flatten = s) ?_ ?_ ?_ s
  · intro decs _ h
    rw [chunksOf_nil, List.mapM_nil] at h
    have : decs = [] := by cases h; rfl
    subst this
    rfl
  · intro l hne hlt decs hmod h
    have hpos : 0 < l.length := List.length_pos_iff.mpr hne
    rw [Nat.mod_eq_of_lt hlt] at hmod
    rw [chunksOf_of_length_le 11 l hne (by omega)] at h
    obtain ⟨out, bs, h1, h2, rfl⟩ := mapM_cons_ok h
    rw [List.mapM_nil] at h2
    have hbs : bs = [] := by cases h2; rfl
    subst hbs
    obtain ⟨hol, hoe⟩ := xmrDecBlk_canonical kl kl l out (by omega) hmod
      (by rw [if_neg (by omega)]) h1
    have hkl0 : kl ≠ 0 := by
      rintro rfl
      have : xmrEncLen 0 = 0 := rfl
      omega
    have hone : out ≠ [] := by
      intro e; rw [e] at hol; simp at hol; omega
    simp only [List.flatten_cons, List.flatten_nil, List.append_nil]
    rw [xmrEncode_eq, chunksOf_of_length_le 8 out hone (by omega)]
    simpa using hoe
  · intro l1 l2 h11 ih decs hmod h
    have hmod2 : l2.length % 11 = xmrEncLen kl := by
      rw [List.length_append, h11] at hmod
      rwa [Nat.add_mod_left] at hmod
    rw [chunksOf_append_of_length 11 (by omega) l1 l2 h11] at h
    obtain ⟨out, bs, h1, h2, rfl⟩ := mapM_cons_ok h
    obtain ⟨hol, hoe⟩ := xmrDecBlk_canonical kl 8 l1 out (by omega) (by rw [h11]; rfl)
      (by rw [if_pos h11]) h1
    have ih' := ih bs hmod2 h2
    rw [List.flatten_cons, xmrEncode_eq, chunksOf_append_of_length 8 (by omega) out _ hol,
      List.flatMap_cons, ← xmrEncode_eq, ih', hoe]

/-- **Monero Base58 canonicity**: every accepted string is the encoding of its payload. -/
theorem xmr_decode_canonical {s : List Char} {b : Bytes} (h : xmrDecode s = .ok b) :
    xmrEncode b = s := by
  rw [xmrDecode_eq] at h
  cases hi : xmrBlockEncLens.idxOf? (s.length % 11) with
  | none => rw [hi] at h; cases h
  | some kl =>
    rw [hi] at h
    simp only at h
    obtain ⟨hkl, hlen⟩ := xmr_idxOf_inv (Nat.mod_lt _ (by omega)) hi
    cases hm : (chunksOf 11 s).mapM (xmrDecBlk kl) with
    | error e => rw [hm] at h; cases h
    | ok decs =>
      rw [hm] at h
      have hb : b = decs.flatten := by cases h; rfl
      rw [hb]
      exact xmr_blocks_canonical kl hkl s decs hlen.symm hm

/-- decoding is injective on accepted strings. -/
theorem xmrDecode_inj {s t : List Char} {b : Bytes} (hs : xmrDecode s = .ok b)
    (ht : xmrDecode t = .ok b) : s = t := by
  rw [← xmr_decode_canonical hs, ← xmr_decode_canonical ht]

end BipVerif.Model
