/- Monero block-Base58 round trip: `xmrDecode (xmrEncode b) = .ok b` for every byte string. -/
import BipVerif.Lemmas.Chunks
import BipVerif.Lemmas.Base58Check

namespace BipVerif.Model
open BipVerif

/-- encoded length of a `k`-byte block -/
def xmrEncLen (k : Nat) : Nat := xmrBlockEncLens.getD k 0

/-- per-block encoder, as in `xmrEncode` -/
def xmrEncBlk (blk : Bytes) : List Char :=
  rjust (xmrBlockEncLens.getD blk.length 0) '1' (b58Encode btcAlphabet blk)

/-- per-block decoder, as in `xmrDecode` -/
def xmrDecBlk (lastDec : Nat) (blk : List Char) : R Bytes := do
  let d ← b58Decode btcAlphabet blk
  pure (xmrUnPad d (if blk.length = 11 then 8 else lastDec))

theorem xmrEncode_eq (data : Bytes) : xmrEncode data = (chunksOf 8 data).flatMap xmrEncBlk := rfl

theorem xmrDecode_eq (s : List Char) :
    xmrDecode s = match xmrBlockEncLens.idxOf? (s.length % 11) with
      | some i => (chunksOf 11 s).mapM (xmrDecBlk i) >>= fun decs => pure decs.flatten
      | none => throw .value := by
  unfold xmrDecode
  dsimp only
  cases h : xmrBlockEncLens.idxOf? (s.length % 11) <;> rfl

/-! ### numeric facts -/

/-- a `j`-byte value fits in `xmrEncLen j` Base58 digits -/
theorem xmr_fits : ∀ j : Fin 9, 256 ^ j.val ≤ 58 ^ xmrEncLen j.val := by decide

/-- leading zero bytes cost one symbol each, and the table grows by at least one per byte -/
theorem xmr_lens_mono : ∀ k z : Fin 9, z.val ≤ k.val → z.val + xmrEncLen (k.val - z.val) ≤ xmrEncLen k.val := by
  decide

theorem xmr_idxOf : ∀ k : Fin 9, xmrBlockEncLens.idxOf? (xmrEncLen k.val) = some k.val := by decide

theorem xmr_len_lt : ∀ k : Fin 8, 0 < k.val → 0 < xmrEncLen k.val ∧ xmrEncLen k.val < 11 := by decide

theorem btc_zero : btcAlphabet.getD 0 'x' = '1' := by decide

/-! ### one block -/

theorem leadingCount_replicate_append' {α} [BEq α] [LawfulBEq α] (x : α) (p : Nat) (l : List α) :
    leadingCount x (List.replicate p x ++ l) = p + leadingCount x l := by
  unfold leadingCount
  induction p with
  | zero => simp
  | succ p ih =>
    rw [List.replicate_succ, List.cons_append, List.takeWhile_cons]
    simp only [beq_self_eq_true, if_true, List.length_cons, ih]; omega

theorem b58Encode_zeros_append (alph : List Char) (p : Nat) (b : Bytes) :
    b58Encode alph (List.replicate p 0 ++ b)
      = List.replicate p (alph.getD 0 'x') ++ b58Encode alph b := by
  unfold b58Encode
  simp only
  rw [toNatBE_zeros_append, leadingCount_replicate_append', List.replicate_add, List.append_assoc]

theorem b58Encode_length (alph : List Char) (b : Bytes) :
    (b58Encode alph b).length
      = leadingCount (0 : UInt8) b + (Nat.digits 58 (Bytes.toNatBE b)).length := by
  unfold b58Encode
  simp only [List.length_append, List.length_replicate, List.length_map]
  rw [digitsBE_eq 58 (by omega)]; simp

theorem toNatBE_lt_of_leading (b : Bytes) :
    Bytes.toNatBE b < 256 ^ (b.length - leadingCount (0 : UInt8) b) := by
  have h := length_eq_leadingCount_add b
  have hs := split_leading (0 : UInt8) b
  have : Bytes.toNatBE b = Bytes.toNatBE (b.dropWhile (· == 0)) := by
    conv_lhs => rw [hs]
    exact toNatBE_zeros_append _ _
  rw [this]
  have := toNatBE_lt (b.dropWhile (· == 0))
  have he : b.length - leadingCount (0 : UInt8) b = (b.dropWhile (· == 0)).length := by omega
  rw [he]; exact this

theorem leadingCount_le_length {α} [BEq α] (x : α) (l : List α) : leadingCount x l ≤ l.length := by
  unfold leadingCount
  induction l with
  | nil => simp
  | cons a t ih =>
    rw [List.takeWhile_cons]
    split
    · simp only [List.length_cons]; omega
    · simp

/-- the Base58 encoding of a block of `k ≤ 8` bytes has at most `xmrEncLen k` symbols -/
theorem b58Encode_length_le (alph : List Char) (blk : Bytes) (hk : blk.length ≤ 8) :
    (b58Encode alph blk).length ≤ xmrEncLen blk.length := by
  rw [b58Encode_length]
  have hz := leadingCount_le_length (0 : UInt8) blk
  set z := leadingCount (0 : UInt8) blk with hzdef
  have hv := toNatBE_lt_of_leading blk
  rw [← hzdef] at hv
  have hfit := xmr_fits ⟨blk.length - z, by omega⟩
  have hmono := xmr_lens_mono ⟨blk.length, by omega⟩ ⟨z, by omega⟩ hz
  simp only at hfit hmono
  have hd : (Nat.digits 58 (Bytes.toNatBE blk)).length ≤ xmrEncLen (blk.length - z) :=
    (Nat.digits_length_le_iff (by omega) _).mpr (lt_of_lt_of_le hv hfit)
  omega

theorem xmrEncBlk_eq (blk : Bytes) :
    xmrEncBlk blk = b58Encode btcAlphabet
      (List.replicate (xmrEncLen blk.length - (b58Encode btcAlphabet blk).length) 0 ++ blk) := by
  rw [b58Encode_zeros_append, btc_zero]; rfl

theorem xmrEncBlk_length (blk : Bytes) (hk : blk.length ≤ 8) :
    (xmrEncBlk blk).length = xmrEncLen blk.length := by
  have := b58Encode_length_le btcAlphabet blk hk
  unfold xmrEncBlk rjust
  simp only [List.length_append, List.length_replicate]
  unfold xmrEncLen at this ⊢
  omega

theorem xmrUnPad_zeros_append (p : Nat) (blk : Bytes) :
    xmrUnPad (List.replicate p 0 ++ blk) blk.length = blk := by
  unfold xmrUnPad pySlice pyBound
  simp only [List.length_append, List.length_replicate]
  have h1 : ¬ ((↑(p + blk.length) : Int) - ↑blk.length < 0) := by omega
  have h2 : ¬ ((↑(p + blk.length) : Int) < 0) := by omega
  have h3 : ((↑(p + blk.length) : Int) - ↑blk.length).toNat = p := by omega
  have h4 : ¬ (p > p + blk.length) := by omega
  simp only [h1, h2, h3, h4, if_false, Int.toNat_natCast, gt_iff_lt, Nat.lt_irrefl]
  rw [List.take_of_length_le (by simp), List.drop_left' (by simp)]

theorem xmrDecBlk_xmrEncBlk (lastDec : Nat) (blk : Bytes) (hk : blk.length ≤ 8)
    (hl : blk.length < 8 → lastDec = blk.length) (hne : blk ≠ []) :
    xmrDecBlk lastDec (xmrEncBlk blk) = .ok blk := by
  unfold xmrDecBlk
  rw [xmrEncBlk_length blk hk]
  rw [xmrEncBlk_eq, b58_decode_encode btcAlphabet btcAlphabet_nodup btcAlphabet_length]
  simp only [bind, Except.bind, pure, Except.pure]
  have hsel : (if xmrEncLen blk.length = 11 then 8 else lastDec) = blk.length := by
    by_cases h8 : blk.length = 8
    · rw [h8]; rfl
    · have hpos : 0 < blk.length := List.length_pos_iff.mpr hne
      have := xmr_len_lt ⟨blk.length, by omega⟩ hpos
      simp only at this
      rw [if_neg (by omega), hl (by omega)]
  rw [hsel, xmrUnPad_zeros_append]

/-! ### the whole string -/

theorem xmr_blocks (data : Bytes) :
    ∀ lastDec, (data.length % 8 ≠ 0 → lastDec = data.length % 8) →
      (xmrEncode data).length % 11 = xmrEncLen (data.length % 8) ∧
      (chunksOf 11 (xmrEncode data)).mapM (xmrDecBlk lastDec) = .ok (chunksOf 8 data) := by
  refine chunks_induction 8 (by omega) (fun data => ∀ lastDec,
      (data.length % 8 ≠ 0 → lastDec = data.length % 8) →
      (xmrEncode data).length % 11 = xmrEncLen (data.length % 8) ∧
      (chunksOf 11 (xmrEncode data)).mapM (xmrDecBlk lastDec) = .ok (chunksOf 8 data))
    ?_ ?_ ?_ data
  · intro lastDec _
    simp only [xmrEncode_eq, chunksOf_nil, List.flatMap_nil, List.length_nil, Nat.zero_mod,
      List.mapM_nil]
    exact ⟨rfl, rfl⟩
  · intro l hne hlt lastDec hld
    have hpos : 0 < l.length := List.length_pos_iff.mpr hne
    have hmod : l.length % 8 = l.length := Nat.mod_eq_of_lt hlt
    have henc : xmrEncode l = xmrEncBlk l := by
      rw [xmrEncode_eq, chunksOf_of_length_le 8 l hne (by omega)]; simp
    have hlen := xmrEncBlk_length l (by omega)
    have hrange := xmr_len_lt ⟨l.length, hlt⟩ hpos
    simp only at hrange
    rw [henc, hmod, hlen]
    refine ⟨Nat.mod_eq_of_lt hrange.2, ?_⟩
    have hne' : xmrEncBlk l ≠ [] := by
      intro e; rw [e] at hlen; simp at hlen; omega
    rw [chunksOf_of_length_le 11 _ hne' (by omega), chunksOf_of_length_le 8 l hne (by omega)]
    rw [List.mapM_cons, xmrDecBlk_xmrEncBlk lastDec l (by omega) (fun _ => by rw [hld (by omega), hmod]) hne]
    rfl
  · intro l1 l2 h8 ih lastDec hld
    have hlenmod : (l1 ++ l2).length % 8 = l2.length % 8 := by
      rw [List.length_append, h8]; omega
    rw [hlenmod] at hld ⊢
    obtain ⟨ih1, ih2⟩ := ih lastDec hld
    have hne1 : l1 ≠ [] := by intro e; rw [e] at h8; simp at h8
    have henc : xmrEncode (l1 ++ l2) = xmrEncBlk l1 ++ xmrEncode l2 := by
      rw [xmrEncode_eq, chunksOf_append_of_length 8 (by omega) l1 l2 h8, List.flatMap_cons,
        xmrEncode_eq]
    have hlen : (xmrEncBlk l1).length = 11 := by
      rw [xmrEncBlk_length l1 (by omega), h8]; rfl
    rw [henc]
    refine ⟨by rw [List.length_append, hlen, ← ih1]; omega, ?_⟩
    rw [chunksOf_append_of_length 11 (by omega) _ _ hlen,
      chunksOf_append_of_length 8 (by omega) l1 l2 h8, List.mapM_cons,
      xmrDecBlk_xmrEncBlk lastDec l1 (by omega) (fun h => by omega) hne1, ih2]
    rfl

/-- **Monero Base58 round trip** -/
theorem xmr_decode_encode (b : Bytes) : xmrDecode (xmrEncode b) = .ok b := by
  obtain ⟨h1, h2⟩ := xmr_blocks b (b.length % 8) (fun _ => rfl)
  rw [xmrDecode_eq, h1]
  have := xmr_idxOf ⟨b.length % 8, by omega⟩
  simp only at this
  rw [this]
  simp only [h2, bind, Except.bind, pure, Except.pure]
  rw [flatten_chunksOf 8 (by omega)]

end BipVerif.Model
