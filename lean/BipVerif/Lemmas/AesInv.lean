/-
AES-256 of `Prim/Aes.lean`: single-block decryption inverts encryption, for every key (of any
length) and every 16-byte block.  The S-box tables and the GF(2^8) coefficient identities are
checked by kernel evaluation over the 256 byte values; everything else is structural
(`InvShiftRows ∘ ShiftRows`, linearity of `xtime`, `InvMixColumns ∘ MixColumns` column by column,
`AddRoundKey` is an involution, the inverse cipher undoes the rounds in reverse order with the
same key schedule).  Mathlib is used for the `interval_cases` tactic only.
-/
import Mathlib.Tactic.IntervalCases
import BipVerif.Prim.Aes

namespace BipVerif.AesInv
open BipVerif BipVerif.Prim BipVerif.Prim.Aes

/-! ### byte-level facts -/

/-- a Boolean property of bytes that the kernel checked on `0 … 255` holds for every byte -/
theorem forall_byte {P : UInt8 → Bool}
    (h : ((List.range 256).all fun n => P (UInt8.ofNat n)) = true) (x : UInt8) : P x = true := by
  have := List.all_eq_true.mp h x.toNat (List.mem_range.mpr (UInt8.toNat_lt x))
  rwa [UInt8.ofNat_toNat] at this

/-- the inverse S-box inverts the S-box -/
theorem invSub_sub (x : UInt8) : invSub (sub x) = x :=
  eq_of_beq (forall_byte (P := fun x => invSub (sub x) == x) (by decide +kernel) x)

theorem xtime_eq (x : UInt8) :
    xtime x = (x <<< 1) ^^^ (if x >>> 7 = 0 then 0 else 0x1b) :=
  eq_of_beq (forall_byte
    (P := fun x => xtime x == (x <<< 1) ^^^ (if x >>> 7 = 0 then 0 else 0x1b)) (by decide +kernel) x)

theorem shr7_cases (x : UInt8) : x >>> 7 = 0 ∨ x >>> 7 = 1 := by
  have := forall_byte (P := fun x => x >>> 7 == 0 || x >>> 7 == 1) (by decide +kernel) x
  simpa using this

/-- `xtime` (multiplication by `x` in GF(2^8)) is GF(2)-linear -/
theorem xtime_xor (x y : UInt8) : xtime (x ^^^ y) = xtime x ^^^ xtime y := by
  rw [xtime_eq, xtime_eq x, xtime_eq y, UInt8.shiftLeft_xor, UInt8.shiftRight_xor]
  have e : ∀ a b c d : UInt8, (a ^^^ b) ^^^ (c ^^^ d) = (a ^^^ c) ^^^ (b ^^^ d) := by
    intro a b c d; ac_rfl
  rw [e]
  congr 1
  rcases shr7_cases x with hx | hx <;> rcases shr7_cases y with hy | hy <;> rw [hx, hy] <;> decide

theorem mul9_xor (x y : UInt8) : mul9 (x ^^^ y) = mul9 x ^^^ mul9 y := by
  simp only [mul9, xtime_xor]; ac_rfl
theorem mul11_xor (x y : UInt8) : mul11 (x ^^^ y) = mul11 x ^^^ mul11 y := by
  simp only [mul11, xtime_xor]; ac_rfl
theorem mul13_xor (x y : UInt8) : mul13 (x ^^^ y) = mul13 x ^^^ mul13 y := by
  simp only [mul13, xtime_xor]; ac_rfl
theorem mul14_xor (x y : UInt8) : mul14 (x ^^^ y) = mul14 x ^^^ mul14 y := by
  simp only [mul14, xtime_xor]; ac_rfl

/-- `14·2 ⊕ 11 ⊕ 13 ⊕ 9·3 = 1` in GF(2^8) -/
theorem coeff_diag (a : UInt8) : mul14 (mul2 a) ^^^ mul11 a ^^^ mul13 a ^^^ mul9 (mul3 a) = a :=
  eq_of_beq (forall_byte
    (P := fun a => mul14 (mul2 a) ^^^ mul11 a ^^^ mul13 a ^^^ mul9 (mul3 a) == a) (by decide +kernel) a)

/-- `14·3 ⊕ 11·2 ⊕ 13 ⊕ 9 = 0` -/
theorem coeff_1 (b : UInt8) : mul14 (mul3 b) ^^^ mul11 (mul2 b) ^^^ mul13 b ^^^ mul9 b = 0 :=
  eq_of_beq (forall_byte
    (P := fun b => mul14 (mul3 b) ^^^ mul11 (mul2 b) ^^^ mul13 b ^^^ mul9 b == 0) (by decide +kernel) b)

/-- `14 ⊕ 11·3 ⊕ 13·2 ⊕ 9 = 0` -/
theorem coeff_2 (c : UInt8) : mul14 c ^^^ mul11 (mul3 c) ^^^ mul13 (mul2 c) ^^^ mul9 c = 0 :=
  eq_of_beq (forall_byte
    (P := fun c => mul14 c ^^^ mul11 (mul3 c) ^^^ mul13 (mul2 c) ^^^ mul9 c == 0) (by decide +kernel) c)

/-- `14 ⊕ 11 ⊕ 13·3 ⊕ 9·2 = 0` -/
theorem coeff_3 (d : UInt8) : mul14 d ^^^ mul11 d ^^^ mul13 (mul3 d) ^^^ mul9 (mul2 d) = 0 :=
  eq_of_beq (forall_byte
    (P := fun d => mul14 d ^^^ mul11 d ^^^ mul13 (mul3 d) ^^^ mul9 (mul2 d) == 0) (by decide +kernel) d)

/-- one row of `InvMixColumns ∘ MixColumns` on a column `(a, b, c, d)` read from that row on -/
theorem column_inv (a b c d : UInt8) :
    mul14 (mul2 a ^^^ mul3 b ^^^ c ^^^ d) ^^^ mul11 (mul2 b ^^^ mul3 c ^^^ d ^^^ a) ^^^
      mul13 (mul2 c ^^^ mul3 d ^^^ a ^^^ b) ^^^ mul9 (mul2 d ^^^ mul3 a ^^^ b ^^^ c) = a := by
  simp only [mul14_xor, mul11_xor, mul13_xor, mul9_xor]
  calc _ = (mul14 (mul2 a) ^^^ mul11 a ^^^ mul13 a ^^^ mul9 (mul3 a)) ^^^
            (mul14 (mul3 b) ^^^ mul11 (mul2 b) ^^^ mul13 b ^^^ mul9 b) ^^^
            (mul14 c ^^^ mul11 (mul3 c) ^^^ mul13 (mul2 c) ^^^ mul9 c) ^^^
            (mul14 d ^^^ mul11 d ^^^ mul13 (mul3 d) ^^^ mul9 (mul2 d)) := by ac_rfl
    _ = a := by
      rw [coeff_diag, coeff_1, coeff_2, coeff_3, UInt8.xor_zero, UInt8.xor_zero, UInt8.xor_zero]

theorem xor_xor_cancel (x k : UInt8) : x ^^^ k ^^^ k = x := by
  rw [UInt8.xor_assoc, UInt8.xor_self, UInt8.xor_zero]

/-! ### the 16-byte state -/

theorem getD_ofFn16 (f : Fin 16 → UInt8) (j : Nat) (h : j < 16) :
    (Array.ofFn f).getD j 0 = f ⟨j, h⟩ := by
  simp [h]

theorem getD_of_lt (s : St) (j : Nat) (h : j < s.size) : s.getD j 0 = s[j] := by
  simp [h]

theorem subBytes_size (s : St) : (subBytes s).size = 16 := by simp [subBytes]
theorem invSubBytes_size (s : St) : (invSubBytes s).size = 16 := by simp [invSubBytes]
theorem shiftRows_size (s : St) : (shiftRows s).size = 16 := by simp [shiftRows]
theorem invShiftRows_size (s : St) : (invShiftRows s).size = 16 := by simp [invShiftRows]
theorem mixColumns_size (s : St) : (mixColumns s).size = 16 := by simp [mixColumns]
theorem invMixColumns_size (s : St) : (invMixColumns s).size = 16 := by simp [invMixColumns]

theorem addRoundKey_getD (rk : Array UInt8) (r : Nat) (s : St) (j : Nat) (h : j < 16) :
    (addRoundKey rk r s).getD j 0 = s.getD j 0 ^^^ rk.getD (16 * r + j) 0 := by
  unfold addRoundKey; rw [getD_ofFn16 _ _ h]

theorem subBytes_getD (s : St) (j : Nat) (h : j < 16) :
    (subBytes s).getD j 0 = sub (s.getD j 0) := by
  unfold subBytes; rw [getD_ofFn16 _ _ h]

theorem shiftRows_getD (s : St) (j : Nat) (h : j < 16) :
    (shiftRows s).getD j 0 = s.getD (j % 4 + 4 * ((j / 4 + j % 4) % 4)) 0 := by
  unfold shiftRows; rw [getD_ofFn16 _ _ h]

theorem mixColumns_getD (s : St) (j : Nat) (h : j < 16) :
    (mixColumns s).getD j 0 =
      mul2 (s.getD (4 * (j / 4) + j % 4) 0) ^^^ mul3 (s.getD (4 * (j / 4) + (j % 4 + 1) % 4) 0) ^^^
        s.getD (4 * (j / 4) + (j % 4 + 2) % 4) 0 ^^^ s.getD (4 * (j / 4) + (j % 4 + 3) % 4) 0 := by
  unfold mixColumns; rw [getD_ofFn16 _ _ h]

/-- `AddRoundKey` is an involution -/
theorem addRoundKey_addRoundKey (rk : Array UInt8) (r : Nat) {s : St} (hs : s.size = 16) :
    addRoundKey rk r (addRoundKey rk r s) = s := by
  apply Array.ext (by rw [addRoundKey_size, hs])
  intro i h1 h2
  have hi : i < 16 := by rw [addRoundKey_size] at h1; exact h1
  rw [← getD_of_lt _ i h1, addRoundKey_getD _ _ _ _ hi, addRoundKey_getD _ _ _ _ hi,
    xor_xor_cancel, getD_of_lt _ i h2]

/-- `InvSubBytes ∘ SubBytes = id` -/
theorem invSubBytes_subBytes {s : St} (hs : s.size = 16) : invSubBytes (subBytes s) = s := by
  apply Array.ext (by rw [invSubBytes_size, hs])
  intro i h1 h2
  have hi : i < 16 := by rw [invSubBytes_size] at h1; exact h1
  rw [← getD_of_lt _ i h1]
  unfold invSubBytes
  rw [getD_ofFn16 _ _ hi]
  show invSub ((subBytes s).getD i 0) = _
  rw [subBytes_getD _ _ hi, invSub_sub, getD_of_lt _ i h2]

/-- `InvShiftRows ∘ ShiftRows = id` -/
theorem invShiftRows_shiftRows {s : St} (hs : s.size = 16) : invShiftRows (shiftRows s) = s := by
  apply Array.ext (by rw [invShiftRows_size, hs])
  intro i h1 h2
  have hi : i < 16 := by rw [invShiftRows_size] at h1; exact h1
  rw [← getD_of_lt _ i h1]
  unfold invShiftRows
  rw [getD_ofFn16 _ _ hi]
  show (shiftRows s).getD (i % 4 + 4 * ((i / 4 + 4 - i % 4) % 4)) 0 = _
  rw [shiftRows_getD _ _ (by omega)]
  have e : (i % 4 + 4 * ((i / 4 + 4 - i % 4) % 4)) % 4 +
      4 * (((i % 4 + 4 * ((i / 4 + 4 - i % 4) % 4)) / 4 +
        (i % 4 + 4 * ((i / 4 + 4 - i % 4) % 4)) % 4) % 4) = i := by omega
  rw [e, getD_of_lt _ i h2]

/-- `InvMixColumns ∘ MixColumns = id` -/
theorem invMixColumns_mixColumns {s : St} (hs : s.size = 16) :
    invMixColumns (mixColumns s) = s := by
  apply Array.ext (by rw [invMixColumns_size, hs])
  intro i h1 h2
  have hi : i < 16 := by rw [invMixColumns_size] at h1; exact h1
  rw [← getD_of_lt _ i h1, ← getD_of_lt _ i h2]
  unfold invMixColumns
  rw [getD_ofFn16 _ _ hi]
  show mul14 ((mixColumns s).getD (4 * (i / 4) + i % 4) 0) ^^^
      mul11 ((mixColumns s).getD (4 * (i / 4) + (i % 4 + 1) % 4) 0) ^^^
      mul13 ((mixColumns s).getD (4 * (i / 4) + (i % 4 + 2) % 4) 0) ^^^
      mul9 ((mixColumns s).getD (4 * (i / 4) + (i % 4 + 3) % 4) 0) = _
  clear h1 h2
  interval_cases i <;>
    simp only [Nat.reduceDiv, Nat.reduceMod, Nat.reduceMul, Nat.reduceAdd] <;>
    rw [mixColumns_getD _ _ (by decide), mixColumns_getD _ _ (by decide),
      mixColumns_getD _ _ (by decide), mixColumns_getD _ _ (by decide)] <;>
    simp only [Nat.reduceDiv, Nat.reduceMod, Nat.reduceMul, Nat.reduceAdd] <;>
    exact column_inv _ _ _ _

/-! ### rounds -/

theorem encRounds_size (rk : Array UInt8) (n r : Nat) {s : St} (hs : s.size = 16) :
    (encRounds rk n r s).size = 16 := by
  induction n generalizing r s with
  | zero => exact hs
  | succ n ih => exact ih (r + 1) (addRoundKey_size _ _ _)

/-- the last of `n + 1` encryption rounds, peeled off -/
theorem encRounds_succ_last (rk : Array UInt8) (n r : Nat) (s : St) :
    encRounds rk (n + 1) r s
      = addRoundKey rk (r + n) (mixColumns (shiftRows (subBytes (encRounds rk n r s)))) := by
  induction n generalizing r s with
  | zero => rfl
  | succ n ih =>
    show encRounds rk (n + 1) (r + 1) _ = _
    rw [ih (r + 1)]
    show _ = addRoundKey rk (r + (n + 1)) (mixColumns (shiftRows (subBytes
      (encRounds rk n (r + 1) (addRoundKey rk r (mixColumns (shiftRows (subBytes s))))))))
    rw [Nat.add_assoc, Nat.add_comm 1 n]

/-- `n` decryption rounds going down from round `r + n - 1` undo `n` encryption rounds going up
from round `r`, as seen through the `ShiftRows ∘ SubBytes` of the next round -/
theorem decRounds_encRounds (rk : Array UInt8) (n r : Nat) (s : St) :
    decRounds rk n (r + n - 1) (shiftRows (subBytes (encRounds rk n r s)))
      = shiftRows (subBytes s) := by
  induction n with
  | zero => rfl
  | succ n ih =>
    rw [encRounds_succ_last]
    show decRounds rk n (r + (n + 1) - 1 - 1) (invMixColumns (addRoundKey rk (r + (n + 1) - 1)
      (invSubBytes (invShiftRows (shiftRows (subBytes (addRoundKey rk (r + n)
        (mixColumns (shiftRows (subBytes (encRounds rk n r s))))))))))) = _
    rw [invShiftRows_shiftRows (subBytes_size _), invSubBytes_subBytes (addRoundKey_size _ _ _)]
    have e1 : r + (n + 1) - 1 = r + n := by omega
    rw [e1, addRoundKey_addRoundKey _ _ (mixColumns_size _),
      invMixColumns_mixColumns (shiftRows_size _)]
    exact ih

/-- the inverse cipher inverts the cipher on 16-byte states, for any round-key array -/
theorem decryptState_encryptState (rk : Array UInt8) {s : St} (hs : s.size = 16) :
    decryptState rk (encryptState rk s) = s := by
  unfold decryptState encryptState
  dsimp only
  rw [addRoundKey_addRoundKey _ _ (shiftRows_size _)]
  have h := decRounds_encRounds rk 13 1 (addRoundKey rk 0 s)
  rw [show (1 + 13 - 1 : Nat) = 13 from rfl] at h
  rw [h, invShiftRows_shiftRows (subBytes_size _), invSubBytes_subBytes (addRoundKey_size _ _ _),
    addRoundKey_addRoundKey _ _ hs]

/-! ### blocks -/

theorem loadBlock_toList {s : St} (hs : s.size = 16) : loadBlock s.toList = s := by
  apply Array.ext (by simp [loadBlock, hs])
  intro i h1 h2
  simp [loadBlock, h2]

theorem toList_loadBlock {b : Bytes} (hb : b.length = 16) : (loadBlock b).toList = b := by
  apply List.ext_getElem (by simp [loadBlock, hb])
  intro i h1 h2
  simp only [loadBlock, Array.toList_ofFn, List.getElem_ofFn]
  simp [h2]

/-- **AES-256 single-block decryption inverts encryption** (any key bytes, 16-byte block) -/
theorem aes256_decrypt_encrypt (k b : Bytes) (hb : b.length = 16) :
    aes256DecryptBlock k (aes256EncryptBlock k b) = b := by
  unfold aes256DecryptBlock aes256EncryptBlock
  rw [loadBlock_toList (encryptState_size _ _),
    decryptState_encryptState _ (by simp [loadBlock]), toList_loadBlock hb]

/-- non-vacuity: the cipher that was inverted is AES-256 — FIPS 197 appendix C.3, evaluated by
the kernel (key expansion included) -/
example : aes256EncryptBlock
    [0x00,0x01,0x02,0x03,0x04,0x05,0x06,0x07,0x08,0x09,0x0a,0x0b,0x0c,0x0d,0x0e,0x0f,
     0x10,0x11,0x12,0x13,0x14,0x15,0x16,0x17,0x18,0x19,0x1a,0x1b,0x1c,0x1d,0x1e,0x1f]
    [0x00,0x11,0x22,0x33,0x44,0x55,0x66,0x77,0x88,0x99,0xaa,0xbb,0xcc,0xdd,0xee,0xff]
    = [0x8e,0xa2,0xb7,0xca,0x51,0x67,0x45,0xbf,0xea,0xfc,0x49,0x90,0x4b,0x49,0x60,0x89] := by
  decide +kernel

end BipVerif.AesInv
