/-
C08 — constants pinned: table theorems re-checked on every run over the coin table regenerated
from /repo (`Gen.coinRows`) against the pinned registry (`Golden.coinRows`).
-/
import BipVerif.Gen.Coins
import BipVerif.Golden.Coins
import BipVerif.Model.Bip44

namespace BipVerif.Props.C08
open BipVerif BipVerif.Model

/-- every registered member is present with exactly its registered constants (SLIP-44 index, key and WIF
version bytes, address format and parameters, default path, curve, alias class); new members are allowed -/
theorem consts_eq_registry : ∀ g ∈ Golden.coinRows, g ∈ Gen.coinRows := by decide +kernel

theorem other_consts_eq_registry : ∀ g ∈ Golden.otherCoins, g ∈ Gen.otherCoins := by decide +kernel

/-- well-formedness of every configured member: version words are 4 bytes, the WIF version is one
byte, the BIP-32 class is known, the default path parses as a relative path -/
def rowWf (r : CoinRow) : Bool :=
  r.keyNetPub.length == 4 && r.keyNetPriv.length == 4 && (match r.wifNetVer with | some v => v.length == 1 | none => true)
    && (bip32ClassOf r.bip32).isSome
    && (match parsePath r.defPath.toList with | .ok p => !p.absolute | .error _ => false)
    && decide (r.coinIdx < 2 ^ 31)

theorem table_wf : ∀ r ∈ Gen.coinRows, rowWf r = true := by decide +kernel

/-- members denoting one configuration object (aliases) agree on every constant -/
theorem aliases_same_conf : ∀ a ∈ Gen.coinRows, ∀ b ∈ Gen.coinRows,
    a.family = b.family → a.confId = b.confId → a.variant = b.variant →
      { a with member := "" } = { b with member := "" } := by decide +kernel

end BipVerif.Props.C08
