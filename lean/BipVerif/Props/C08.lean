import BipVerif.Model.Bip44
namespace BipVerif.Props.C08
theorem placeholder : True := trivial
end BipVerif.Props.C08
