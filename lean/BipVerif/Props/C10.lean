import BipVerif.Model.Addr
namespace BipVerif.Props.C10
theorem placeholder : True := trivial
end BipVerif.Props.C10
