/-
C12 — the curve parameters of the library are the ones the model's arithmetic is proved about.
`Gen/Curves.lean` is regenerated on every run from the library's public accessors
(`EllipticCurveGetter.FromType(t).Order()`, `.Generator()`, the library's own point arithmetic for
`2G`, `3G`, `(n-1)G`, the key-class lengths).  The theorems below compare that table with `Prim/`:
same order, same generator, and the library's `2G`, `3G`, `(n-1)G` are the model's — so a changed
order constant, generator coordinate, or a point adapter that adds or multiplies wrongly on these
inputs breaks a kernel-checked theorem (the group-law theorems of `C12Group`/`C12Ed` then say what
the right value is for every other input).
-/
import BipVerif.Gen.Curves
import BipVerif.Prim.Weierstrass
import BipVerif.Prim.Edwards

namespace BipVerif.Props.C12Tables
open BipVerif BipVerif.Prim

/-- what the model says a table row must be -/
def wRow (name : String) (c : WCurve) : String × Nat × List (Nat × Nat) × Nat × Nat × Nat :=
  let xy : WPoint → Nat × Nat := fun P => match P with | .aff x y => (x, y) | .inf => (0, 0)
  (name, c.n, [xy c.G, xy (c.mulG 2), xy (c.mulG 3), xy (c.neg c.G)], 32, 33, 65)

def edRow (name : String) (pubLen : Nat) : String × Nat × List (Nat × Nat) × Nat × Nat × Nat :=
  let xy : EdPoint → Nat × Nat := fun P => (P.x, P.y)
  (name, edL, [xy edBase, xy (edMulBase 2), xy (edMulBase 3), xy (edNeg edBase)], 32, pubLen, pubLen)

/-- **every curve row of the library equals the model's** (order, G, 2G, 3G, −G = (n−1)G, lengths);
the ed25519 public-key classes carry a `0x00` prefix byte (33) except Monero's (32); extended
(Khovratovich–Law) private keys are 64 bytes -/
theorem curves_eq_model :
    Gen.curves =
      [edRow "ED25519" 33, edRow "ED25519_BLAKE2B" 33,
       (let r := edRow "ED25519_KHOLAW" 33; (r.1, r.2.1, r.2.2.1, 64, r.2.2.2.2.1, r.2.2.2.2.2)),
       edRow "ED25519_MONERO" 32, wRow "NIST256P1" nist256p1, wRow "SECP256K1" secp256k1] := by
  decide +kernel

/-- `(n-1)·G = −G` in the model too (so the fourth point of each row is a genuine multiple) -/
theorem neg_G_is_multiple :
    secp256k1.mulG (secp256k1.n - 1) = secp256k1.neg secp256k1.G ∧
    nist256p1.mulG (nist256p1.n - 1) = nist256p1.neg nist256p1.G ∧
    edMulBase (edL - 1) = edNeg edBase := by
  decide +kernel

end BipVerif.Props.C12Tables
