/-
C09 — the EOS and Ergo round trips without the key-layer hypothesis: `KeyCanon` ("the canonical
compressed key returned by `PublicKey.FromBytes` re-validates to itself", i.e. SEC1
`decode ∘ compress = id` on curve points) is a theorem for secp256k1 and P-256
(`Lemmas/KeyCanon.lean`, from the Mathlib group-law tie of `C12Group`).
-/
import BipVerif.Props.C09
import BipVerif.Lemmas.KeyCanon

namespace BipVerif.Props.C09Group
open BipVerif BipVerif.Model

theorem keyCanon_secp256k1 : KeyCanon .secp256k1 := KeyCanonProof.keyCanon_secp256k1
theorem keyCanon_nist256p1 : KeyCanon .nist256p1 := KeyCanonProof.keyCanon_nist256p1

/-- every point the SEC1 decoder returns (compressed, uncompressed, hybrid or raw input) is on the curve -/
theorem decoded_point_on_curve (ct : CurveT) (hp : 0 < ct.wcurve.p) {b : Bytes} {P : Prim.WPoint}
    (h : wDecodePub ct b = some P) : ct.wcurve.onCurve P = true :=
  KeyCanonProof.wDecodePub_onCurve ct hp h

/-- EOS: decoding the encoded address returns the canonical 33-byte key — no hypothesis -/
theorem eos_decode_encode (pfx : List Char) (pub : Bytes) (addr : List Char)
    (h : eosEncode pfx pub = .ok addr) :
    ∃ k, addrKey .secp256k1 pub = .ok k ∧ eosDecode pfx addr = .ok k :=
  C09.Eos.decode_encode keyCanon_secp256k1 pfx pub addr h

/-- Ergo P2PKH: likewise -/
theorem ergo_decode_encode (netType : Nat) (hnt : 1 + netType < 256) (pub : Bytes) (addr : List Char)
    (h : ergoEncode netType pub = .ok addr) :
    ∃ k, addrKey .secp256k1 pub = .ok k ∧ ergoDecode netType addr = .ok k :=
  C09.Ergo.decode_encode keyCanon_secp256k1 netType hnt pub addr h

end BipVerif.Props.C09Group
