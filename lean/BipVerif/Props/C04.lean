/-
C04 — public/private commutation of child key derivation.

Part B: `CKDpub ∘ N = N ∘ CKDpriv` for non-hardened indices (SLIP-0010 ECDSA curves and
BIP32-Ed25519), as equations between model results, under an explicit *law* about the key layer
(`EcdsaLaw`, `KholawLaw`): the group laws of the concrete 256-bit curves in `Prim` are out of scope
and are never unfolded.
Part C: each law holds in every abstract model in which public keys form a commutative group
whose base point has the curve order (Mathlib).

Deliberately *not* claimed: commutation for the Byron-legacy scheme (finding F-byron-pubder: the
byte-wise scalar reaches bit 255, which libsodium's no-clamp multiplication clears) and
commutation at a zero sum `(IL + k) ≡ 0 (mod n)` (see `zero_sum_asymmetry`: it is false there).
Property theorems only; lemmas in `BipVerif/Lemmas/{Slip10,Kholaw,GroupModel}.lean`.
-/
import BipVerif.Lemmas.GroupModel

namespace BipVerif.Props.C04
open BipVerif BipVerif.Prim BipVerif.Model BipVerif.GroupModel

/-! ## B.1 SLIP-0010, ECDSA curves -/

/-- The hypotheses of the commutation theorem, unfolded.
`EcdsaLaw c`: (`pub_add`) for valid keys `k`, `k'` with `k' = (il + k) mod n ≠ 0`, `il < n` and
`P = pubOfPriv k`: `pubAddMulG P il = pubOfPriv k'` and this is an actual key;
(`pub_canon`) `pubFromBytes` accepts `pubOfPriv k` unchanged.
`Node.Sound nd`: private node whose `pub` is the public key of its valid private key.
`NoZeroSum nd idx`: the `IL` at which the *public* re-hash loop stops does not make the child
private key zero. -/
theorem hypotheses_unfold (c : CurveT) (nd : Node) (idx : Nat) :
    (EcdsaLaw c ↔
      (∀ (k P : Bytes) (il : Nat) (k' : Bytes), privValid c k = true → pubOfPriv c k = some P →
        il < c.order → (il + Bytes.toNatBE k) % c.order ≠ 0 → privValid c k' = true →
        Bytes.toNatBE k' = (il + Bytes.toNatBE k) % c.order →
        ∃ P', pubOfPriv c k' = some P' ∧ pubAddMulG c P il = some P') ∧
      (∀ (k P : Bytes), privValid c k = true → pubOfPriv c k = some P → pubFromBytes c P = some P)) ∧
    (nd.Sound ↔ ∃ k, nd.priv = some k ∧ privValid nd.curve k = true ∧
      pubOfPriv nd.curve k = some nd.pub) ∧
    (NoZeroSum nd idx ↔ ∀ k il ir, nd.priv = some k →
      slip10Retry nd.curve.order nd.chainCode idx none 4096
        (hmacSha512Halves nd.chainCode (nd.pub ++ ser32 idx)) = .ok (il, ir) →
      (il + Bytes.toNatBE k) % nd.curve.order ≠ 0) :=
  ⟨⟨fun h => ⟨h.pub_add, h.pub_canon⟩, fun h => ⟨h.1, h.2⟩⟩, Iff.rfl, Iff.rfl⟩

/-- **commutation**: deriving the non-hardened child `idx` from the neutered parent gives the
neutered child — the same public key, chain code, depth, index and parent fingerprint, or the
same error — for ECDSA curves, under the key-layer law and `NoZeroSum`.  (Also for `idx ≥ 2^32`:
both sides raise `ValueError`.) -/
theorem ckdPub_comm (nd : Node) (law : EcdsaLaw nd.curve) (idx : Nat)
    (hc : nd.curve.isEcdsa = true) (hs : nd.Sound) (hh : isHardened idx = false)
    (hz : NoZeroSum nd idx) :
    slip10ChildKey nd.neuter idx = (slip10ChildKey nd idx).map Node.neuter :=
  Model.ckdPub_comm nd law idx hc hs hh hz

/-- the same, field by field, when the private side succeeds -/
theorem ckdPub_comm_fields (nd : Node) (law : EcdsaLaw nd.curve) (idx : Nat)
    (hc : nd.curve.isEcdsa = true) (hs : nd.Sound) (hh : isHardened idx = false)
    (hz : NoZeroSum nd idx) (c : Node) (hpriv : slip10ChildKey nd idx = .ok c) :
    ∃ c', slip10ChildKey nd.neuter idx = .ok c' ∧ c'.priv = none ∧ c'.pub = c.pub ∧
      c'.chainCode = c.chainCode ∧ c'.depth = c.depth ∧ c'.index = c.index ∧
      c'.parentFp = c.parentFp ∧ c'.curve = c.curve ∧ c'.scheme = c.scheme := by
  refine ⟨c.neuter, ?_, rfl, rfl, rfl, rfl, rfl, rfl, rfl, rfl⟩
  rw [Model.ckdPub_comm nd law idx hc hs hh hz, hpriv]; rfl

/-- the two re-hash loops side by side: where the public loop stops with a non-zero sum the
private loop stops too; where the public loop runs out of fuel so does the private one -/
theorem retry_agree (n : Nat) (cc : Bytes) (idx k fuel : Nat) (s : Bytes × Bytes) :
    (∀ il ir, slip10Retry n cc idx none fuel s = .ok (il, ir) → (il + k) % n ≠ 0 →
      slip10Retry n cc idx (some k) fuel s = .ok (il, ir)) ∧
    (∀ e, slip10Retry n cc idx none fuel s = .error e →
      slip10Retry n cc idx (some k) fuel s = .error e) :=
  ⟨fun il ir h hz => slip10Retry_none_ok_some n cc idx k fuel s il ir h hz,
   fun e h => slip10Retry_none_error_some n cc idx k fuel s e h⟩

/-- **asymmetry at a zero sum**: if the `IL` at which the public loop stops satisfies
`(IL + k) ≡ 0 (mod n)` then (given that the key layer maps the resulting point at infinity to
"no key", `EcdsaInfLaw`) the public side raises `Bip32KeyError`, whereas the private side
re-hashes from `HMAC(cc, 0x01 ‖ IR ‖ ser32 idx)` and never raises `Bip32KeyError`: the
commutation equation is false there. -/
theorem zero_sum_asymmetry (nd : Node) (ilaw : EcdsaInfLaw nd.curve) (k : Bytes) (idx il : Nat)
    (ir : Bytes) (hc : nd.curve.isEcdsa = true) (hp : nd.priv = some k)
    (hv : privValid nd.curve k = true) (hpub : pubOfPriv nd.curve k = some nd.pub)
    (hh : isHardened idx = false) (hi : idx < 2 ^ 32)
    (hr : slip10Retry nd.curve.order nd.chainCode idx none 4096
            (hmacSha512Halves nd.chainCode (nd.pub ++ ser32 idx)) = .ok (il, ir))
    (hz : (il + Bytes.toNatBE k) % nd.curve.order = 0) :
    slip10ChildKey nd.neuter idx = .error .key ∧
    (∃ f', f' < 4096 ∧
      slip10Retry nd.curve.order nd.chainCode idx (some (Bytes.toNatBE k)) 4096
          (hmacSha512Halves nd.chainCode (nd.pub ++ ser32 idx)) =
        slip10Retry nd.curve.order nd.chainCode idx (some (Bytes.toNatBE k)) f'
          (hmacSha512Halves nd.chainCode ([1] ++ ir ++ ser32 idx))) ∧
    slip10ChildKey nd idx ≠ .error .key ∧
    slip10ChildKey nd.neuter idx ≠ (slip10ChildKey nd idx).map Node.neuter := by
  obtain ⟨h1, ⟨f', hf, h2⟩, h3, h4⟩ :=
    Model.zero_sum_asymmetry nd ilaw k idx il ir hc hp hv hpub hh hi hr hz
  refine ⟨h1, ⟨f', hf, ?_⟩, h3, h4⟩
  have hdata : slip10PrivData nd k idx = nd.pub ++ ser32 idx := by
    unfold slip10PrivData; rw [hh]; rfl
  rw [hdata] at h2
  exact h2

/-- under both laws the zero-sum condition is exactly the obstruction: commutation at `(nd, idx)`
holds **iff** the public loop does not stop at a zero sum -/
theorem ckdPub_comm_iff (nd : Node) (law : EcdsaLaw nd.curve) (ilaw : EcdsaInfLaw nd.curve)
    (idx : Nat) (hc : nd.curve.isEcdsa = true) (hs : nd.Sound) (hh : isHardened idx = false)
    (hi : idx < 2 ^ 32) :
    slip10ChildKey nd.neuter idx = (slip10ChildKey nd idx).map Node.neuter ↔ NoZeroSum nd idx :=
  Model.ckdPub_comm_iff nd law ilaw idx hc hs hh hi

/-- `PathNoZeroSum nd l`: `NoZeroSum` at every node visited on the private side -/
theorem pathNoZeroSum_unfold (nd : Node) (i : Nat) (t : List Nat) :
    (PathNoZeroSum nd [] ↔ True) ∧
    (PathNoZeroSum nd (i :: t) ↔
      NoZeroSum nd i ∧ ∀ c, slip10ChildKey nd i = .ok c → PathNoZeroSum c t) :=
  ⟨Iff.rfl, Iff.rfl⟩

/-- **commutation along a path**: `DerivePath` commutes with neutering for every path without
hardened elements -/
theorem derivePath_comm (nd : Node) (law : EcdsaLaw nd.curve) (hc : nd.curve.isEcdsa = true)
    (p : Path) (hl : ∀ i ∈ p.elems, isHardened i = false) (hs : nd.Sound)
    (hz : PathNoZeroSum nd p.elems) :
    derivePathWith slip10ChildKey nd.neuter p =
      (derivePathWith slip10ChildKey nd p).map Node.neuter :=
  Model.derivePath_comm nd law hc p hl hs hz

/-- commutation from the master key: the master node is sound, so only the law and the
zero-sum condition remain -/
theorem master_derivePath_comm (c : CurveT) (law : EcdsaLaw c) (hc : c.isEcdsa = true)
    (seed : Bytes) (m : Node) (hm : slip10Master c seed = .ok m)
    (p : Path) (hl : ∀ i ∈ p.elems, isHardened i = false) (hz : PathNoZeroSum m p.elems) :
    derivePathWith slip10ChildKey m.neuter p =
      (derivePathWith slip10ChildKey m p).map Node.neuter := by
  have hcur : m.curve = c := (master_metadata c seed m hm).2.2.2.2.1
  exact Model.derivePath_comm m (hcur ▸ law) (hcur ▸ hc) p hl (master_sound c seed m hm) hz

/-- every node derived from a public-only node is public-only (no law needed) -/
theorem neuter_derive_public_only (nd : Node) (p : Path) (c : Node) (hp : nd.priv = none)
    (h : derivePathWith slip10ChildKey nd p = .ok c) : c.priv = none :=
  Model.neuter_derive_public_only nd p c hp h

/-! ## B.2 BIP32-Ed25519 (scheme `.kholaw`) -/

/-- the standard Khovratovich-Law scalar `8·zl[:28]` is below `2^227`, so libsodium's clearing of
bit 255 (`% 2^255` in the model's public side) is the identity on it -/
theorem kholaw_scalar_lt (zl : Bytes) :
    kholawPubScalar .kholaw zl < 2 ^ 227 ∧
      kholawPubScalar .kholaw zl % 2 ^ 255 = kholawPubScalar .kholaw zl :=
  ⟨Model.kholaw_scalar_lt zl, Model.kholaw_scalar_mod zl⟩

/-- `KholawLaw` unfolded (all scalars `< 2^255`) -/
theorem kholawLaw_unfold :
    KholawLaw ↔
      (∀ a b, a + b < 2 ^ 255 → edAdd (edMulBase a) (edMulBase b) = edMulBase (a + b)) ∧
      (∀ s, s < 2 ^ 255 → (edMulBase s = edIdentity ↔ s % edL = 0)) ∧
      (∀ s, s < 2 ^ 255 → edMulBase s ≠ edIdentity →
        edDecodeLenient (edEncode (edMulBase s)) = some (edMulBase s)) ∧
      (∀ s, s < 2 ^ 255 → edMulBase s ≠ edIdentity →
        edBytesOnCurve (edEncode (edMulBase s)) = some true) :=
  ⟨fun h => ⟨h.add_mul, h.mul_id, h.dec_enc, h.on_curve⟩, fun h => ⟨h.1, h.2.1, h.2.2.1, h.2.2.2⟩⟩

/-- **commutation, BIP32-Ed25519**: for scheme `.kholaw`, non-hardened `idx`, a private node
whose `pub` is the public key of its private key: the child of the neutered node is the neutered
child (or the same error — in particular `Bip32KeyError` on both sides when
`kL + 8·zl[:28] ≡ 0 (mod L)`).  Explicit range hypothesis: the child's left scalar stays below
`2^255`; `Z = HMAC-SHA512(cc, 0x02 ‖ A ‖ ser32LE idx)`.  Since the second library repair (the size
test of `_NewPrivateKeyLeftPart` went from `≥ 2^256` to `≥ 2^255`) this hypothesis says exactly that
the private side is not refused for size; without it the private side raises `Bip32KeyError` while
the public side, which cannot see `kL`, still returns a key — see `kholaw_ckdPub_comm_of_ok` for the
form without a range hypothesis. -/
theorem kholaw_ckdPub_comm (law : KholawLaw) (nd : Node) (k : Bytes) (idx : Nat)
    (hcur : nd.curve = .ed25519Kholaw) (hsch : nd.scheme = .kholaw)
    (hp : nd.priv = some k) (hpub : pubOfPriv .ed25519Kholaw k = some nd.pub)
    (hh : isHardened idx = false)
    (hrange : Bytes.toNatLE (k.take 32) +
        kholawPubScalar .kholaw
          ((hmacSha512 nd.chainCode ([2] ++ nd.pub.drop 1 ++ kholawIndexBytes nd.scheme idx)).take 32)
        < 2 ^ 255) :
    kholawChildKey nd.neuter idx = (kholawChildKey nd idx).map Node.neuter :=
  Model.kholaw_ckdPub_comm law nd k idx hcur hsch hp hpub hh hrange

/-- a sufficient, `Z`-independent form of the range hypothesis: `kL < 2^255 - 2^227` -/
theorem kholaw_ckdPub_comm_of_small (law : KholawLaw) (nd : Node) (k : Bytes) (idx : Nat)
    (hcur : nd.curve = .ed25519Kholaw) (hsch : nd.scheme = .kholaw)
    (hp : nd.priv = some k) (hpub : pubOfPriv .ed25519Kholaw k = some nd.pub)
    (hh : isHardened idx = false) (hk : Bytes.toNatLE (k.take 32) < 2 ^ 255 - 2 ^ 227) :
    kholawChildKey nd.neuter idx = (kholawChildKey nd idx).map Node.neuter := by
  refine Model.kholaw_ckdPub_comm law nd k idx hcur hsch hp hpub hh ?_
  have := Model.kholaw_scalar_lt ((kholawZ nd idx).take 32)
  omega

/-- **commutation, BIP32-Ed25519, success form** — no range hypothesis: whenever the private node
(any key, hand-supplied ones included) has a non-hardened child `c`, the neutered node has the child
`c.neuter`.  This is what the `2^255` bound of the second library repair buys: a successful new left
half is below `2^255`, the range in which libsodium's no-clamp multiplication (scalar mod `2^255`)
is the mathematical one, so the public key of the private child is the publicly derived child key.
Under the previous bound `2^256` a child sum in `[2^255, 2^256)` was accepted and its public key was
`(sum - 2^255)·B`, which differs from the publicly derived `sum·B` in every group model of the point
layer (`2^255 ≢ 0 (mod L)`), so no such statement held for hand-supplied parents with a large `kL`. -/
theorem kholaw_ckdPub_comm_of_ok (law : KholawLaw) (nd : Node) (k : Bytes) (idx : Nat)
    (hcur : nd.curve = .ed25519Kholaw) (hsch : nd.scheme = .kholaw)
    (hp : nd.priv = some k) (hpub : pubOfPriv .ed25519Kholaw k = some nd.pub)
    (hh : isHardened idx = false) (c : Node) (hc : kholawChildKey nd idx = .ok c) :
    kholawChildKey nd.neuter idx = .ok c.neuter :=
  Model.kholaw_ckdPub_comm_of_ok law nd k idx hcur hsch hp hpub hh c hc

/-- **Byron legacy is different** (F-byron-pubder, recorded finding — no commutation claimed): the
byte-wise scalar `8·zl` computed without carries reaches bit 255, and then the scalar the public
side really multiplies by (bit 255 cleared) is not congruent mod `L` to the one the private side
adds; by `pub_eq_iff` below the two sides then disagree in every group model. -/
theorem byron_scalar_mismatch :
    ∃ zl : Bytes, zl.length = 32 ∧ 2 ^ 255 ≤ kholawPubScalar .byronLegacy zl ∧
      (kholawPubScalar .byronLegacy zl % 2 ^ 255) % edL ≠ kholawPubScalar .byronLegacy zl % edL :=
  ⟨List.replicate 31 0 ++ [16], by decide, by decide, by decide⟩

/-! ## C. the laws hold in every abstract group model -/

section GroupModel
variable {G : Type*} [AddCommGroup G] {g : G} {n : ℕ}

/-- the child public key computed from the parent public point equals the public key of the child
private key: `pub((k + il) mod n) = pub k + il·G` -/
theorem mod_nsmul (hord : ∀ k : ℕ, k • g = 0 ↔ n ∣ k) (k il : ℕ) :
    ((k + il) % n) • g = k • g + il • g :=
  pub_add_mod hord k il

/-- `pub k` is the point at infinity iff `n ∣ k` (that is the hypothesis) and the public side
meets the point at infinity exactly when the private side meets the zero key -/
theorem zero_key_iff_infinity (hord : ∀ k : ℕ, k • g = 0 ↔ n ∣ k) (k il : ℕ) :
    ((k + il) % n ≠ 0 ↔ k • g + il • g ≠ 0) ∧ ((k + il) % n = 0 ↔ k • g + il • g = 0) :=
  ⟨nonzero_key_iff_finite hord k il, GroupModel.zero_key_iff_infinity hord k il⟩

/-- distinct residues give distinct public keys -/
theorem pub_eq_iff (hord : ∀ k : ℕ, k • g = 0 ↔ n ∣ k) (a b : ℕ) :
    a • g = b • g ↔ a % n = b % n :=
  GroupModel.pub_eq_iff hord a b

/-- Electrum v1: `pub((m + s) mod n) = pub m + s·G` -/
theorem electrumV1_pub (hord : ∀ k : ℕ, k • g = 0 ↔ n ∣ k) (m s : ℕ) :
    ((m + s) % n) • g = m • g + s • g :=
  GroupModel.electrumV1_pub hord m s

/-- Monero sub-address keys: `D = B + m·G = pub((b + m) mod n)` and `C = a·D = pub(a·d mod n)` -/
theorem monero_subaddr (hord : ∀ k : ℕ, k • g = 0 ↔ n ∣ k) (a b m : ℕ) :
    b • g + m • g = ((b + m) % n) • g ∧
      a • (b • g + m • g) = (a * ((b + m) % n) % n) • g :=
  GroupModel.monero_subaddr hord a b m

end GroupModel

/-- **`EcdsaLaw` from a group model**: if the ECDSA key layer of `c` is a faithful encoding of
*any* commutative group whose base point has order `c.order` (`EcdsaGroupModel`: `pubOfPriv`,
`pubAddMulG`, `pubFromBytes` commute with a partial encoding `enc` that is undefined exactly at
the neutral element), then both laws used in part B hold. -/
theorem ecdsaLaw_of_group_model {G : Type*} [AddCommGroup G] {c : CurveT} {g : G}
    {enc : G → Option Bytes} (M : EcdsaGroupModel c g enc) : EcdsaLaw c ∧ EcdsaInfLaw c :=
  ⟨GroupModel.ecdsaLaw_of_group_model M, GroupModel.ecdsaInfLaw_of_group_model M⟩

/-- the hypotheses of a faithful encoding, unfolded -/
theorem ecdsaGroupModel_unfold {G : Type*} [AddCommGroup G] (c : CurveT) (g : G)
    (enc : G → Option Bytes) :
    EcdsaGroupModel c g enc ↔
      (∀ k : ℕ, k • g = 0 ↔ c.order ∣ k) ∧
      (∀ k : ℕ, enc (k • g) = none ↔ k • g = 0) ∧
      (∀ k : Bytes, privValid c k = true → pubOfPriv c k = enc (Bytes.toNatBE k • g)) ∧
      (∀ (k : ℕ) (P : Bytes) (il : ℕ), enc (k • g) = some P →
        pubAddMulG c P il = enc (k • g + il • g)) ∧
      (∀ (k : ℕ) (P : Bytes), enc (k • g) = some P → pubFromBytes c P = some P) :=
  ⟨fun h => ⟨h.order, h.enc_none, h.pub_of_priv, h.add_mul_g, h.canon⟩,
   fun h => ⟨h.1, h.2.1, h.2.2.1, h.2.2.2.1, h.2.2.2.2⟩⟩

/-- **`KholawLaw` from a group model** of the Edwards point layer (`EdGroupModel`: base point of
order `L`, `edMulBase s = pt (s·B)` for `s < 2^255`, `edAdd` the group law, `decode ∘ encode = id`
and on-curve acceptance on non-identity multiples of `B`) -/
theorem kholawLaw_of_group_model {G : Type*} [AddCommGroup G] {B : G} {pt : G → EdPoint}
    (M : EdGroupModel B pt) : KholawLaw :=
  GroupModel.kholawLaw_of_group_model M

/-- commutation with the law discharged by a group model -/
theorem ckdPub_comm_of_group_model {G : Type*} [AddCommGroup G] (nd : Node) {g : G}
    {enc : G → Option Bytes} (M : EcdsaGroupModel nd.curve g enc) (idx : Nat)
    (hc : nd.curve.isEcdsa = true) (hs : nd.Sound) (hh : isHardened idx = false)
    (hz : NoZeroSum nd idx) :
    slip10ChildKey nd.neuter idx = (slip10ChildKey nd idx).map Node.neuter :=
  Model.ckdPub_comm nd (GroupModel.ecdsaLaw_of_group_model M) idx hc hs hh hz

/-- the purely abstract statement: a key layer built from any group with a base point of order
`n` (keys = non-neutral elements) satisfies the abstract law — the child public key computed
from the parent public key is the public key of the child private key when that key is non-zero,
and "no key" (point at infinity) exactly otherwise -/
theorem keyLayer_law {G : Type*} [AddCommGroup G] [DecidableEq G] {g : G} {n : ℕ}
    (hord : ∀ k : ℕ, k • g = 0 ↔ n ∣ k) :
    ∀ k P il, (KeyLayer.ofGroup g n).pubOfPriv k = some P →
      ((il + k) % n ≠ 0 →
        ∃ P', (KeyLayer.ofGroup g n).pubOfPriv ((il + k) % n) = some P' ∧
          (KeyLayer.ofGroup g n).pubAddMulG P il = some P') ∧
      ((il + k) % n = 0 → (KeyLayer.ofGroup g n).pubAddMulG P il = none) :=
  KeyLayer.ofGroup_law hord

/-- the group-model hypothesis is satisfiable for every `n`: `ℤ/n` with base point `1` -/
example (n : ℕ) : ∀ k : ℕ, k • (1 : ZMod n) = 0 ↔ n ∣ k := fun k => by
  rw [nsmul_eq_mul, mul_one]; exact ZMod.natCast_eq_zero_iff k n

/-- … hence a concrete law-abiding key layer exists for every order -/
example (n : ℕ) : (KeyLayer.ofGroup (1 : ZMod n) n).Law :=
  KeyLayer.ofGroup_law (fun k => by rw [nsmul_eq_mul, mul_one]; exact ZMod.natCast_eq_zero_iff k n)

end BipVerif.Props.C04
