import BipVerif.Model.Bip44
namespace BipVerif.Props.C04
theorem placeholder : True := trivial
end BipVerif.Props.C04
