/-
C13 — BIP-38 (encrypted private keys), both modes.  WIF is in `Props/C13Wif.lean`.
`scrypt`, `sha256d`, AES-256 and secp256k1 arithmetic are opaque: the AES inverse property and
the secp256k1 group law enter as explicit named hypotheses (checked by differential testing, C12).
Helper lemmas: `BipVerif/Lemmas/Bip38.lean` (no-EC mode), `BipVerif/Lemmas/Bip38Ec.lean` (EC mode).
-/
import BipVerif.Lemmas.Bip38
import BipVerif.Lemmas.Bip38Ec

namespace BipVerif.Props.C13
open BipVerif BipVerif.Prim BipVerif.Model BipVerif.Model.Bip38Lemmas

/-- AES-256 single-block decryption inverts encryption (hypothesis of the round-trip theorems) -/
def AesInv : Prop := ∀ k b : Bytes, k.length = 32 → b.length = 16 →
  aes256DecryptBlock k (aes256EncryptBlock k b) = b

/-! ### 2. layout of the no-EC ciphertext -/

/-- **layout**: 39 bytes `01 42 flag ‖ addresshash(4) ‖ block1(16) ‖ block2(16)` under Base58Check,
flag `e0` compressed / `c0` uncompressed; the address hash is that of the key's own P2PKH address -/
theorem noec_layout {priv pass : Bytes} {c : Bool} {s : List Char}
    (h : bip38NoEcEncrypt priv pass c = .ok s) :
    ∃ payload pub ah, b58CheckDecode sha256d btcAlphabet s = .ok payload ∧
      payload.length = 39 ∧ payload.take 2 = [0x01, 0x42] ∧
      payload[2]? = some (if c then 0xe0 else 0xc0) ∧
      secpPubOfPriv priv = .ok pub ∧ bip38AddrHash pub c = .ok ah ∧
      (payload.drop 3).take 4 = ah ∧
      (payload.drop 7).take 16 = noEcE1 priv pass ah ∧ ((payload.drop 7).take 16).length = 16 ∧
      payload.drop 23 = noEcE2 priv pass ah ∧ (payload.drop 23).length = 16 ∧
      s = b58CheckEncode sha256d btcAlphabet payload := by
  rw [bip38NoEcEncrypt_eq] at h
  split at h
  · cases h
  · rename_i pub hpub
    split at h
    · cases h
    · rename_i ah hah
      have hs := (Except.ok.inj h).symm
      obtain ⟨f0, f1, f2, f3, f4, f5⟩ := noEcPayload_fields priv pass c ah (bip38AddrHash_length hah)
      refine ⟨noEcPayload priv pass c ah, pub, ah, ?_, f0, f2, f1, hpub, hah, f3, f4, ?_, f5, ?_, hs⟩
      · rw [hs]; exact b58c_decode_encode _
      · rw [f4]; exact aes256EncryptBlock_length _ _
      · rw [f5]; exact aes256EncryptBlock_length _ _

/-- what the two blocks are: AES-256 under `derivedhalf2` of the key halves masked with
`derivedhalf1`, where the 64 derived bytes are `scrypt(pass, addresshash, 16384, 8, 8)` -/
theorem noec_blocks (priv pass ah : Bytes) :
    noEcE1 priv pass ah = aes256EncryptBlock ((scrypt pass ah 16384 8 8 64).drop 32)
      (xorBytes (priv.take 16) (((scrypt pass ah 16384 8 8 64).take 32).take 16)) ∧
    noEcE2 priv pass ah = aes256EncryptBlock ((scrypt pass ah 16384 8 8 64).drop 32)
      (xorBytes (priv.drop 16) (((scrypt pass ah 16384 8 8 64).take 32).drop 16)) := ⟨rfl, rfl⟩

/-- the encrypter refuses exactly what the key layer refuses, with `ValueError` -/
theorem noec_encrypt_errors {priv pass : Bytes} {c : Bool} {e : Err}
    (h : bip38NoEcEncrypt priv pass c = .error e) : e = .value := by
  rw [bip38NoEcEncrypt_eq] at h
  split at h
  · rename_i e' he; cases Except.error.inj h; exact secpPubOfPriv_error he
  · split at h
    · rename_i e' he; cases Except.error.inj h; exact bip38AddrHash_error he
    · cases h

/-! ### 3. round trip -/

/-- **decrypt ∘ encrypt** with the same passphrase returns the key and the compression mode -/
theorem noec_decrypt_encrypt (hAes : AesInv) {priv pass : Bytes} {c : Bool} {s : List Char}
    (h : bip38NoEcEncrypt priv pass c = .ok s) : bip38NoEcDecrypt s pass = .ok (priv, c) := by
  rw [bip38NoEcEncrypt_eq] at h
  split at h
  · cases h
  · rename_i pub hpub
    split at h
    · cases h
    · rename_i ah hah
      cases Except.ok.inj h
      rw [bip38NoEcDecrypt_eq, b58c_decode_encode]
      exact noEcParse_payload hAes priv pass c pub ah hpub hah

/-- encryption succeeds for every valid key whose public key can be computed (always the case
for valid keys: `privValid` + the key layer's `pubOfPriv`) -/
theorem noec_encrypt_ok_of_valid {priv pass pub : Bytes} {c : Bool}
    (hpub : secpPubOfPriv priv = .ok pub) {ah : Bytes} (hah : bip38AddrHash pub c = .ok ah) :
    ∃ s, bip38NoEcEncrypt priv pass c = .ok s := by
  rw [bip38NoEcEncrypt_eq, hpub]
  dsimp only
  rw [hah]
  exact ⟨_, rfl⟩

/-! ### 4. acceptance criterion -/

/-- **the standard's acceptance test**: whatever the passphrase, a key is returned only if the
address hash embedded in the ciphertext (bytes 3..7) equals the address hash recomputed from the
returned key in the returned mode; the returned key is a valid secp256k1 key -/
theorem noec_accept_implies_addrhash {s : List Char} {pass k : Bytes} {c : Bool}
    (h : bip38NoEcDecrypt s pass = .ok (k, c)) :
    ∃ payload pub, b58CheckDecode sha256d btcAlphabet s = .ok payload ∧
      payload.length = 39 ∧ payload.take 2 = [0x01, 0x42] ∧
      payload[2]? = some (if c then 0xe0 else 0xc0) ∧
      secpPubOfPriv k = .ok pub ∧ privValid .secp256k1 k = true ∧
      bip38AddrHash pub c = .ok ((payload.drop 3).take 4) := by
  rw [bip38NoEcDecrypt_eq] at h
  split at h
  · cases h
  · rename_i b hb
    obtain ⟨h1, h2, h3, _, pub, h5, h6⟩ := noEcParse_ok h
    exact ⟨b, pub, hb, h1, h2, h3, h5, (secpPubOfPriv_ok h5).1, h6⟩

/-- the flag byte must be `e0` or `c0`: any other value is refused -/
theorem noec_decrypt_flag {s : List Char} {pass b : Bytes} {flag : UInt8}
    (hb : b58CheckDecode sha256d btcAlphabet s = .ok b) (hflag : b[2]? = some flag)
    (hbad : flag ≠ 0xe0 ∧ flag ≠ 0xc0) : bip38NoEcDecrypt s pass = .error .value := by
  rw [bip38NoEcDecrypt_eq, hb]
  dsimp only
  unfold noEcParse
  split
  · rfl
  · rw [pyIdx_eq_ok hflag]
    dsimp only
    split
    · rfl
    · rw [if_pos (by simp [hbad.1, hbad.2])]

/-! ### 7. error kinds (no-EC) -/

/-- `Bip38NoEcDecrypter` fails only with `ValueError` or the Base58 checksum error: the index
access `b[2]` is dominated by the length-39 check -/
theorem noec_decrypt_errors {s : List Char} {pass : Bytes} {e : Err}
    (h : bip38NoEcDecrypt s pass = .error e) : e = .value ∨ e = .checksum := by
  rw [bip38NoEcDecrypt_eq] at h
  split at h
  · rename_i e' he; cases Except.error.inj h; exact b58c_error he
  · exact Or.inl (noEcParse_error h)

/-- the checksum error is exactly the Base58Check one -/
theorem noec_decrypt_checksum_iff (s : List Char) (pass : Bytes) :
    bip38NoEcDecrypt s pass = .error .checksum ↔
      b58CheckDecode sha256d btcAlphabet s = .error .checksum := by
  rw [bip38NoEcDecrypt_eq]
  constructor
  · intro h
    split at h
    · rename_i e' he; cases Except.error.inj h; exact he
    · have := noEcParse_error h; cases this
  · intro h; rw [h]


/-! ### 1. lot / sequence numbers -/

/-- the 4 bytes `be32(lot·4096 + seq)` determine `(lot, seq)` for `lot < 2^20`, `seq < 2^12` -/
theorem lotseq_pack_unpack {lot seq : Nat} (hl : lot ≤ 1048575) (hs : seq ≤ 4095) :
    let v := Bytes.toNatBE (Bytes.ofNatBE 4 (lot * 4096 + seq))
    v = lot * 4096 + seq ∧ v / 4096 = lot ∧ v % 4096 = seq ∧ v < 2 ^ 32 ∧
      (Bytes.ofNatBE 4 (lot * 4096 + seq)).length = 4 := by
  dsimp only
  rw [lotseq_value hl hs]
  refine ⟨rfl, by omega, by omega, by omega, length_ofNatBE _ _⟩

/-- injectivity of the packing -/
theorem lotseq_pack_injective {lot seq lot' seq' : Nat} (hl : lot ≤ 1048575) (hs : seq ≤ 4095)
    (hl' : lot' ≤ 1048575) (hs' : seq' ≤ 4095)
    (h : Bytes.ofNatBE 4 (lot * 4096 + seq) = Bytes.ofNatBE 4 (lot' * 4096 + seq')) :
    lot = lot' ∧ seq = seq' := by
  have h1 := lotseq_value hl hs
  have h2 := lotseq_value hl' hs'
  rw [h] at h1
  have : lot * 4096 + seq = lot' * 4096 + seq' := by rw [← h1, h2]
  omega

/-- out-of-range lot or sequence numbers are refused with `ValueError` -/
theorem intermediate_lotseq_range (pass salt : Bytes) (lot seq : Nat)
    (h : lot > 1048575 ∨ seq > 4095) :
    bip38Intermediate pass salt (some (lot, seq)) = .error .value := by
  cases h with
  | inl h => exact bip38Intermediate_lot_range pass salt lot seq h
  | inr h => exact bip38Intermediate_seq_range pass salt lot seq h

/-- the intermediate code: magic ‖ owner entropy ‖ pass point, where the owner entropy is
`salt[:4] ‖ be32(lot·4096+seq)` or the 8-byte salt, and the pass point is `passfactor·G` -/
theorem intermediate_layout {pass salt : Bytes} {ls : Option (Nat × Nat)} {ip : List Char}
    (h : bip38Intermediate pass salt ls = .ok ip) :
    (∀ lot seq, ls = some (lot, seq) → lot ≤ 1048575 ∧ seq ≤ 4095) ∧
    ∃ pp, secpMulG (Bytes.toNatBE (bip38PassFactor pass (ownerEntropy salt ls) ls.isSome)) = .ok pp ∧
      b58CheckDecode sha256d btcAlphabet ip
        = .ok ((if ls.isSome = true then magicLotSeq else magicNoLotSeq) ++ ownerEntropy salt ls ++ pp) := by
  obtain ⟨h1, pp, hpp, rfl⟩ := bip38Intermediate_ok h
  exact ⟨h1, pp, hpp, b58c_decode_encode _⟩

theorem ownerEntropy_def (salt : Bytes) :
    (∀ lot seq, ownerEntropy salt (some (lot, seq)) = salt.take 4 ++ Bytes.ofNatBE 4 (lot * 4096 + seq)) ∧
    ownerEntropy salt none = salt := ⟨fun _ _ => rfl, rfl⟩

/-! ### 5. EC-multiplied mode: flag byte and layout -/

/-- **layout and flag byte** of a generated key: 39 bytes `01 43 flag ‖ addresshash(4) ‖
ownerentropy(8) ‖ block1[0:8] ‖ block2(16)`; the flag byte is
`(32 if compressed) + (4 if the intermediate code carries lot/sequence)` -/
theorem ec_layout {ip : List Char} {seedb : Bytes} {c : Bool} {s : List Char}
    (h : bip38EcGenerate ip seedb c = .ok s) :
    ∃ payload b pp pt, b58CheckDecode sha256d btcAlphabet s = .ok payload ∧
      b58CheckDecode sha256d btcAlphabet ip = .ok b ∧ b.length = 49 ∧
      (b.take 8 = magicNoLotSeq ∨ b.take 8 = magicLotSeq) ∧
      payload.length = 39 ∧ payload.take 2 = [0x01, 0x43] ∧
      payload[2]? = some (UInt8.ofNat ((if c then 32 else 0) + (if b.take 8 = magicLotSeq then 4 else 0))) ∧
      addrKey .secp256k1 (b.drop 16) = .ok pp ∧
      secpMul pp (Bytes.toNatBE (sha256d seedb)) = .ok pt ∧
      bip38AddrHash pt c = .ok ((payload.drop 3).take 4) ∧
      (payload.drop 7).take 8 = (b.drop 8).take 8 ∧
      ((payload.drop 15).take 8).length = 8 ∧ (payload.drop 23).length = 16 := by
  obtain ⟨b, pp, pt, ah, hb, hlen, hpp, hm, hpt, hah, rfl⟩ := bip38EcGenerate_ok h
  have hoe : ((b.drop 8).take 8).length = 8 := by
    rw [List.length_take, List.length_drop, hlen]; rfl
  have hfl : ecFlagOf c (b.take 8) < 256 := by
    rw [ecFlagOf_eq]; exact (ecFlag_cases _ _).1
  obtain ⟨f0, f1, f2, f3, f4, f5, f6⟩ := ecPayload_fields (ecFlagOf c (b.take 8)) ah
    ((b.drop 8).take 8) (ecKey pp ah ((b.drop 8).take 8)) seedb hfl (bip38AddrHash_length hah) hoe
  refine ⟨_, b, pp, pt, b58c_decode_encode _, hb, hlen, hm, f0, f2, ?_, hpp, hpt, ?_, f4, ?_, ?_⟩
  · rw [f1]; rfl
  · rw [f3]; exact hah
  · rw [f5, List.length_take, ecE1_length]; rfl
  · rw [f6]; exact ecE2_length _ _

/-- the flag byte as a number: exactly bits 5 (compressed) and 2 (lot/sequence) -/
theorem ec_flagbyte (c l : Bool) :
    (UInt8.ofNat ((if c then 32 else 0) + (if l then 4 else 0))).toNat
      = (if c then 32 else 0) + (if l then 4 else 0) ∧
    (UInt8.ofNat ((if c then 32 else 0) + (if l then 4 else 0))).toNat / 32 % 2 = (if c then 1 else 0) ∧
    (UInt8.ofNat ((if c then 32 else 0) + (if l then 4 else 0))).toNat / 4 % 2 = (if l then 1 else 0) := by
  cases c <;> cases l <;> decide

/-- **the decrypter rejects every flag byte with other bits set**: only `00`, `04`, `20`, `24`
pass the flag test -/
theorem ec_decrypt_rejects_flag {s : List Char} {pass b : Bytes} {flag : UInt8}
    (hb : b58CheckDecode sha256d btcAlphabet s = .ok b) (hflag : b[2]? = some flag)
    (hbad : ¬ (flag.toNat = 0 ∨ flag.toNat = 4 ∨ flag.toNat = 32 ∨ flag.toNat = 36)) :
    bip38EcDecrypt s pass = .error .value :=
  bip38EcDecrypt_badflag hb hflag ((ecFlagBad_iff _).mpr hbad)

/-- what an accepted EC ciphertext looks like, and the standard's acceptance criterion: the
embedded address hash equals the one recomputed from the returned key -/
theorem ec_accept_implies_addrhash {s : List Char} {pass k : Bytes} {c : Bool}
    (h : bip38EcDecrypt s pass = .ok (k, c)) :
    ∃ payload flag pub, b58CheckDecode sha256d btcAlphabet s = .ok payload ∧
      payload.length = 39 ∧ payload.take 2 = [0x01, 0x43] ∧ payload[2]? = some flag ∧
      (flag.toNat = 0 ∨ flag.toNat = 4 ∨ flag.toNat = 32 ∨ flag.toNat = 36) ∧
      c = decide (flag.toNat / 32 % 2 = 1) ∧
      k.length = 32 ∧ privValid .secp256k1 k = true ∧ secpPubOfPriv k = .ok pub ∧
      bip38AddrHash pub c = .ok ((payload.drop 3).take 4) := by
  obtain ⟨b, flag, pp, pub, h1, h2, h3, h4, h5, h6, _, h8, h9, h10⟩ := bip38EcDecrypt_ok h
  refine ⟨b, flag, pub, h1, h2, h4, h3, ?_, h6, ?_, (secpPubOfPriv_ok h9).1, h9, h10⟩
  · by_contra hn; exact h5 ((ecFlagBad_iff _).mpr hn)
  · rw [h8]; exact length_ofNatBE _ _

/-! ### 6. EC-multiplied mode: decrypting a generated key -/

/-- key-layer hypothesis: a compressed point produced by the library re-validates to itself -/
def CompressCanon : Prop := ∀ (s : Nat) (p : Bytes), secpMulG s = .ok p → addrKey .secp256k1 p = .ok p

/-- group-law hypothesis for the point adapters: `b·(a·G) = (a·b mod n)·G`, including the refusal
of the point at infinity on both sides -/
def GroupLaw : Prop := ∀ a b : Nat,
  (secpMulG a >>= fun P => secpMul P b) = secpMulG (a * b % Prim.secp256k1.n)

/-- **decrypt ∘ generate** (same passphrase): the owner generates an intermediate code from
`pass` (salt and optional lot/sequence), anybody generates an encrypted key from it with the
random `seedb`; decrypting with `pass` returns the private key `passfactor · factorb mod n`
(32 bytes big-endian) and the compression mode. -/
theorem ec_decrypt_generated (hAes : AesInv) (hCanon : CompressCanon) (hGroup : GroupLaw)
    {pass salt seedb : Bytes} {ls : Option (Nat × Nat)} {ip enc : List Char} {c : Bool}
    (hI : bip38Intermediate pass salt ls = .ok ip)
    (hoe : (ownerEntropy salt ls).length = 8)
    (hG : bip38EcGenerate ip seedb c = .ok enc) (hseed : seedb.length = 24) :
    bip38EcDecrypt enc pass = .ok
      (Bytes.ofNatBE 32 (Bytes.toNatBE (bip38PassFactor pass (ownerEntropy salt ls) ls.isSome)
        * Bytes.toNatBE (sha256d seedb) % Prim.secp256k1.n), c) := by
  obtain ⟨_, pp0, hpp0, rfl⟩ := bip38Intermediate_ok hI
  generalize ownerEntropy salt ls = oe at *
  generalize ls.isSome = l at *
  obtain ⟨b, pp, pt, ah, hb, hlen, hpp, _, hpt, hah, rfl⟩ := bip38EcGenerate_ok hG
  rw [b58c_decode_encode] at hb
  have hb' := (Except.ok.inj hb).symm
  have hml := magic_length l
  have ft : b.take 8 = (if l = true then magicLotSeq else magicNoLotSeq) := by
    rw [hb', List.append_assoc]; exact take_append_len _ _ hml
  have fo : (b.drop 8).take 8 = oe := by
    rw [hb', List.append_assoc]; exact drop_take_mid _ _ _ hml hoe
  have fp : b.drop 16 = pp0 := by
    rw [hb']; exact drop_append_len _ _ (by rw [List.length_append, hml, hoe])
  rw [fp, hCanon _ _ hpp0] at hpp
  cases Except.ok.inj hpp
  rw [fo, ft, ecFlagOf_eq, magic_flag]
  have hgl : secpMulG (Bytes.toNatBE (bip38PassFactor pass oe l) * Bytes.toNatBE (sha256d seedb)
      % Prim.secp256k1.n) = .ok pt := by
    rw [← hGroup, hpp0, ok_bind]; exact hpt
  have hpub : secpPubOfPriv (Bytes.ofNatBE 32 (Bytes.toNatBE (bip38PassFactor pass oe l)
      * Bytes.toNatBE (sha256d seedb) % Prim.secp256k1.n)) = .ok pt := by
    rw [secpPubOfPriv_ofNatBE (Nat.mod_lt _ secp_n_pos)]; exact hgl
  exact ecDecrypt_payload hAes pass oe seedb ah pp0 pt c l (bip38AddrHash_length hah) hoe hseed
    hpp0 hpub hah

/-- the owner-entropy length hypothesis of `ec_decrypt_generated` holds for the salts the
library draws: at least 4 bytes with lot/sequence (it uses 4), exactly 8 without -/
theorem ownerEntropy_length (salt : Bytes) (ls : Option (Nat × Nat))
    (h : match ls with | some _ => 4 ≤ salt.length | none => salt.length = 8) :
    (ownerEntropy salt ls).length = 8 := by
  cases ls with
  | none => exact h
  | some p =>
    obtain ⟨lot, seq⟩ := p
    show (salt.take 4 ++ Bytes.ofNatBE 4 (lot * 4096 + seq)).length = 8
    rw [List.length_append, List.length_take, length_ofNatBE]
    have : 4 ≤ salt.length := h
    omega

/-! ### 7. error kinds (EC) -/

/-- `Bip38EcDecrypter` fails only with `ValueError` or the Base58 checksum error: `b[2]` is
dominated by the length-39 check and `to_bytes(32)` of a value below `n` cannot overflow -/
theorem ec_decrypt_errors {s : List Char} {pass : Bytes} {e : Err}
    (h : bip38EcDecrypt s pass = .error e) : e = .value ∨ e = .checksum :=
  bip38EcDecrypt_error h

end BipVerif.Props.C13
