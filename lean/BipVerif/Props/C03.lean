import BipVerif.Model.Bip44
namespace BipVerif.Props.C03
theorem placeholder : True := trivial
end BipVerif.Props.C03
