/-
C03 — BIP-32 / SLIP-0010 key derivation: everything that needs no curve algebra.
Re-hash loop, validity of derived private keys, child/master metadata, refusals, error classes,
depth of a derived path.  Property theorems only; the lemmas live in `BipVerif/Lemmas/Slip10.lean`
(and `Lemmas/Kholaw.lean` for the scheme-generic `childKey` dispatch).
The curve arithmetic, the hash functions and HMAC are opaque here (never unfolded).
-/
import BipVerif.Lemmas.Kholaw

namespace BipVerif.Props.C03
open BipVerif BipVerif.Prim BipVerif.Model

/-! ## 1. the SLIP-0010 re-hash loop -/

/-- whatever the loop returns is a valid `IL`: below `n`, and (private side, `kpar = some k`) the
child key `(IL + k) mod n` is not zero -/
theorem slip10Retry_spec (n : Nat) (cc : Bytes) (idx : Nat) (kpar : Option Nat) (fuel : Nat)
    (il ir : Bytes) (v : Nat) (ir' : Bytes)
    (h : slip10Retry n cc idx kpar fuel (il, ir) = .ok (v, ir')) :
    v < n ∧ (∀ k, kpar = some k → (v + k) % n ≠ 0) :=
  Model.slip10Retry_spec n cc idx kpar fuel il ir v ir' h

/-- one step of the loop.  Common case (plain BIP-32): `IL < n` and no zero sum ⇒ `(IL, IR)` is
returned at once.  Otherwise SLIP-0010's rule: continue with
`HMAC-SHA512(cc, 0x01 ‖ IR ‖ ser32 idx)`. -/
theorem slip10Retry_unfold (n : Nat) (cc : Bytes) (idx : Nat) (kpar : Option Nat) (fuel : Nat)
    (il ir : Bytes) :
    ((n ≤ Bytes.toNatBE il ∨ ∃ k, kpar = some k ∧ (Bytes.toNatBE il + k) % n = 0) →
      slip10Retry n cc idx kpar (fuel + 1) (il, ir) =
        slip10Retry n cc idx kpar fuel (hmacSha512Halves cc ([1] ++ ir ++ ser32 idx))) ∧
    (¬ (n ≤ Bytes.toNatBE il ∨ ∃ k, kpar = some k ∧ (Bytes.toNatBE il + k) % n = 0) →
      slip10Retry n cc idx kpar (fuel + 1) (il, ir) = .ok (Bytes.toNatBE il, ir)) ∧
    slip10Retry n cc idx kpar 0 (il, ir) = .error .fuel :=
  ⟨Model.slip10Retry_bad n cc idx kpar fuel il ir, Model.slip10Retry_good n cc idx kpar fuel il ir, rfl⟩

/-- the common case spelled out -/
theorem slip10Retry_common (n : Nat) (cc : Bytes) (idx : Nat) (kpar : Option Nat) (fuel : Nat)
    (il ir : Bytes) (hlt : Bytes.toNatBE il < n)
    (hnz : ∀ k, kpar = some k → (Bytes.toNatBE il + k) % n ≠ 0) :
    slip10Retry n cc idx kpar (fuel + 1) (il, ir) = .ok (Bytes.toNatBE il, ir) :=
  Model.slip10Retry_good n cc idx kpar fuel il ir
    (fun hb => hb.elim (fun h => absurd hlt (Nat.not_lt.mpr h)) (fun ⟨k, hk, hz⟩ => hnz k hk hz))

/-- the loop can only fail by exhausting its fuel (4096 iterations; never observed) -/
theorem slip10Retry_error (n : Nat) (cc : Bytes) (idx : Nat) (kpar : Option Nat) (fuel : Nat)
    (s : Bytes × Bytes) (e : Err) (h : slip10Retry n cc idx kpar fuel s = .error e) : e = .fuel :=
  Model.slip10Retry_error n cc idx kpar fuel s e h

/-! ## 2. derived private keys are valid -/

/-- ECDSA curves: the child private key is a valid private key (32 bytes, `0 < k' < n`) and the
child chain code has 32 bytes.  (No assumption on the parent key is needed.) -/
theorem ckdPriv_key_valid (nd : Node) (priv : Bytes) (idx : Nat) (h : nd.curve.isEcdsa = true)
    (k cc : Bytes) (hok : slip10CkdPriv nd priv idx = .ok (k, cc)) :
    privValid nd.curve k = true ∧ k.length = 32 ∧ 0 < Bytes.toNatBE k ∧
      Bytes.toNatBE k < nd.curve.order ∧ cc.length = 32 := by
  obtain ⟨hv, hcc⟩ := Model.ckdPriv_key_valid nd priv idx h k cc hok
  obtain ⟨h1, h2, h3⟩ := (privValid_ecdsa_iff _ h k).mp hv
  exact ⟨hv, h1, h2, h3, hcc⟩

/-- … and its value is `(IL + k_par) mod n` for the `IL` selected by the loop, with `IR` as chain
code -/
theorem ckdPriv_key_value (nd : Node) (priv : Bytes) (idx : Nat) (h : nd.curve.isEcdsa = true)
    (k cc : Bytes) (hok : slip10CkdPriv nd priv idx = .ok (k, cc)) :
    ∃ il, slip10Retry nd.curve.order nd.chainCode idx (some (Bytes.toNatBE priv)) 4096
              (hmacSha512Halves nd.chainCode
                (if isHardened idx then [0] ++ priv ++ ser32 idx else nd.pub ++ ser32 idx)) = .ok (il, cc) ∧
      Bytes.toNatBE k = (il + Bytes.toNatBE priv) % nd.curve.order :=
  Model.ckdPriv_key_value nd priv idx h k cc hok

/-- the ECDSA private derivation can fail only by fuel exhaustion (`n < 2^256`, so the 32-byte
conversion never overflows) -/
theorem ckdPriv_ecdsa_error (nd : Node) (priv : Bytes) (idx : Nat) (h : nd.curve.isEcdsa = true)
    (e : Err) (he : slip10CkdPriv nd priv idx = .error e) : e = .fuel :=
  Model.slip10CkdPriv_ecdsa_error nd priv idx h e he

/-- SLIP-0010 ed25519 (hardened): key and chain code are the two halves of one HMAC -/
theorem ckdPriv_ed25519 (nd : Node) (priv : Bytes) (idx : Nat) (h : nd.curve.isEcdsa = false)
    (hh : isHardened idx = true) :
    slip10CkdPriv nd priv idx = .ok (hmacSha512Halves nd.chainCode ([0] ++ priv ++ ser32 idx)) :=
  Model.slip10CkdPriv_ed nd priv idx h hh

/-! ## 3. metadata of a child -/

/-- depth, index, parent fingerprint, curve and scheme of a derived child; a child is private
exactly when its parent is -/
theorem child_metadata (nd : Node) (idx : Nat) (c : Node) (h : slip10ChildKey nd idx = .ok c) :
    c.depth = nd.depth + 1 ∧ c.index = idx ∧ idx < 2 ^ 32 ∧ c.parentFp = nd.fingerprint.take 4 ∧
      c.curve = nd.curve ∧ c.scheme = nd.scheme ∧ c.priv.isSome = nd.priv.isSome :=
  Model.child_metadata nd idx c h

/-- the fingerprint (`hash160(pub)[:4]`) has exactly 4 bytes, so `c.parentFp = nd.fingerprint` -/
theorem fingerprint_length (nd : Node) :
    nd.fingerprint.length = 4 ∧ nd.fingerprint.take 4 = nd.fingerprint :=
  ⟨Model.fingerprint_length nd, Model.fingerprint_take nd⟩

/-- a private child stores the public key of its own (valid) private key -/
theorem child_sound (nd : Node) (idx : Nat) (c : Node) (hp : nd.priv.isSome = true)
    (h : slip10ChildKey nd idx = .ok c) :
    ∃ k, c.priv = some k ∧ privValid c.curve k = true ∧ pubOfPriv c.curve k = some c.pub :=
  Model.slip10ChildKey_sound nd idx c hp h

/-! ## 4. refusals -/

/-- SLIP-0010 ed25519 / ed25519-blake2b (any non-ECDSA curve): non-hardened private derivation is
refused with `Bip32KeyError` -/
theorem ed25519_soft_refused (nd : Node) (priv : Bytes) (idx : Nat) (hc : nd.curve.isEcdsa = false)
    (hp : nd.priv = some priv) (hh : isHardened idx = false) (hi : idx < 2 ^ 32) :
    slip10ChildKey nd idx = .error .key :=
  Model.ed25519_soft_refused nd priv idx hc hp hh hi

/-- a public-only parent refuses hardened indices with `Bip32KeyError` (SLIP-0010 …) -/
theorem public_hardened_refused (nd : Node) (idx : Nat) (hp : nd.priv = none)
    (hh : isHardened idx = true) (hi : idx < 2 ^ 32) : slip10ChildKey nd idx = .error .key :=
  Model.public_hardened_refused nd idx hp hh hi

/-- … and so does every other scheme (`ChildKey` dispatch over SLIP-0010, BIP32-Ed25519,
Byron legacy) -/
theorem public_hardened_refused_any_scheme (nd : Node) (idx : Nat) (hp : nd.priv = none)
    (hh : isHardened idx = true) (hi : idx < 2 ^ 32) : childKey nd idx = .error .key :=
  Model.childKey_public_hardened_refused nd idx hp hh hi

/-- SLIP-0010 non-ECDSA curves have no public derivation at all -/
theorem ed25519_public_refused (nd : Node) (idx : Nat) (hc : nd.curve.isEcdsa = false)
    (hp : nd.priv = none) (hi : idx < 2 ^ 32) : slip10ChildKey nd idx = .error .key :=
  Model.ed25519_public_refused nd idx hc hp hi

/-- indices that do not fit 32 bits are refused with `ValueError`, before anything else -/
theorem index_range (nd : Node) (idx : Nat) (h : 2 ^ 32 ≤ idx) :
    slip10ChildKey nd idx = .error .value ∧ childKey nd idx = .error .value :=
  ⟨Model.slip10ChildKey_range nd idx h, Model.childKey_index_range nd idx h⟩

/-- a neutered node carries no private key (and is otherwise unchanged) -/
theorem neuter_has_no_private (nd : Node) :
    nd.neuter.priv = none ∧ nd.neuter.pub = nd.pub ∧ nd.neuter.chainCode = nd.chainCode ∧
      nd.neuter.depth = nd.depth ∧ nd.neuter.index = nd.index ∧ nd.neuter.parentFp = nd.parentFp ∧
      nd.neuter.fingerprint = nd.fingerprint :=
  ⟨rfl, rfl, rfl, rfl, rfl, rfl, rfl⟩

/-- the ECDSA private derivation never raises `Bip32KeyError` -/
theorem ckdPriv_never_key (nd : Node) (k : Bytes) (idx : Nat) (hc : nd.curve.isEcdsa = true)
    (hp : nd.priv = some k) : slip10ChildKey nd idx ≠ .error .key :=
  Model.ckdPriv_never_key nd k idx hc hp

/-! ## 5. master key -/

/-- `FromSeed` raises `ValueError` for seeds shorter than 16 bytes, and otherwise only when the key
layer refuses to compute the public key of the valid master key (`ValueError` since the repair of
the third-party exception leak; cannot happen on a curve whose key layer is total, see below) -/
theorem master_spec (c : CurveT) (seed : Bytes) :
    slip10Master c seed = .error .value ↔
      seed.length < 16 ∨
        (16 ≤ seed.length ∧ ∃ k cc, slip10MasterLoop c 4096 seed = .ok (k, cc) ∧ pubOfPriv c k = none) :=
  Model.master_spec c seed

/-- short seeds are always refused with `ValueError` -/
theorem master_short_seed (c : CurveT) (seed : Bytes) (h : seed.length < 16) :
    slip10Master c seed = .error .value :=
  (Model.master_spec c seed).mpr (Or.inl h)

/-- `ValueError` *exactly* for seeds shorter than 16 bytes when every valid private key has a
public key — by definition for the SLIP-0010 ed25519 classes -/
theorem master_spec_of_total (c : CurveT) (seed : Bytes) :
    ((∀ k, privValid c k = true → pubOfPriv c k ≠ none) →
      (slip10Master c seed = .error .value ↔ seed.length < 16)) ∧
    (c = .ed25519 ∨ c = .ed25519Blake2b →
      (slip10Master c seed = .error .value ↔ seed.length < 16)) :=
  ⟨Model.master_spec_of_total c seed, fun hc => Model.master_spec_ed c hc seed⟩

/-- all error classes of `FromSeed`; `Bip32KeyError` is impossible (the loop tested validity) -/
theorem master_errors (c : CurveT) (seed : Bytes) (e : Err) (h : slip10Master c seed = .error e) :
    (e = .value ∧ seed.length < 16) ∨ (16 ≤ seed.length ∧ (e = .fuel ∨ e = .value)) :=
  Model.master_errors c seed e h

/-- the master loop returns the first iterate of `I ↦ HMAC-SHA512(key_c, I)` (starting from the
seed) whose left half is a valid private key; `j` counts the rejected iterates -/
theorem masterLoop_spec (c : CurveT) (fuel : Nat) (data k cc : Bytes) :
    slip10MasterLoop c fuel data = .ok (k, cc) ↔
      ∃ j, j < fuel ∧ (∀ i, i < j → privValid c ((mstIter c (i + 1) data).take 32) = false) ∧
        privValid c ((mstIter c (j + 1) data).take 32) = true ∧
        k = (mstIter c (j + 1) data).take 32 ∧ cc = (mstIter c (j + 1) data).drop 32 := by
  rw [Model.slip10MasterLoop_ok_iff]
  simp only [mstValid_eq]

/-- `mstIter c j` is the `j`-fold iterate of HMAC with the curve's key -/
theorem mstIter_def (c : CurveT) (j : Nat) (seed : Bytes) :
    mstIter c 0 seed = seed ∧
      mstIter c (j + 1) seed = mstIter c j (hmacSha512 (slip10HmacKey c) seed) :=
  ⟨rfl, rfl⟩

/-- the master loop fails only by fuel exhaustion, exactly when all iterates are rejected -/
theorem masterLoop_error (c : CurveT) (fuel : Nat) (data : Bytes) (e : Err) :
    slip10MasterLoop c fuel data = .error e ↔
      e = .fuel ∧ ∀ i, i < fuel → privValid c ((mstIter c (i + 1) data).take 32) = false := by
  rw [Model.slip10MasterLoop_error_iff]
  simp only [mstValid_eq]

/-- for the SLIP-0010 ed25519 curves the first iterate is always accepted -/
theorem masterLoop_ed25519 (c : CurveT) (hc : c = .ed25519 ∨ c = .ed25519Blake2b) (fuel : Nat)
    (data : Bytes) :
    slip10MasterLoop c (fuel + 1) data = .ok (hmacSha512Halves (slip10HmacKey c) data) :=
  Model.slip10MasterLoop_ed c hc fuel data

/-- SLIP-0010 ed25519: `FromSeed` is total on seeds of ≥ 16 bytes, with `k = I_L`, `c = I_R` -/
theorem master_ed25519 (seed : Bytes) (hl : 16 ≤ seed.length) :
    slip10Master .ed25519 seed = .ok
      { curve := .ed25519, scheme := .slip10,
        priv := some (hmacSha512Halves (slip10HmacKey .ed25519) seed).1,
        pub := 0 :: edEncode (edMulBase (edClamp (sha512 (hmacSha512Halves (slip10HmacKey .ed25519) seed).1))),
        depth := 0, index := 0,
        chainCode := (hmacSha512Halves (slip10HmacKey .ed25519) seed).2, parentFp := [0, 0, 0, 0] } :=
  Model.master_ed25519 seed hl

/-- master node: depth 0, index 0, parent fingerprint `00000000`, key and chain code are the two
halves selected by the loop, the chain code has 32 bytes, the key is valid and `pub` is its
public key -/
theorem master_metadata (c : CurveT) (seed : Bytes) (nd : Node) (h : slip10Master c seed = .ok nd) :
    16 ≤ seed.length ∧ nd.depth = 0 ∧ nd.index = 0 ∧ nd.parentFp = [0, 0, 0, 0] ∧ nd.curve = c ∧
      nd.scheme = .slip10 ∧
      ∃ k cc, slip10MasterLoop c 4096 seed = .ok (k, cc) ∧ nd.priv = some k ∧ nd.chainCode = cc ∧
        cc.length = 32 ∧ privValid c k = true ∧ pubOfPriv c k = some nd.pub :=
  Model.master_metadata c seed nd h

/-! ## 6. paths -/

/-- `DerivePath` adds the number of path elements to the depth -/
theorem derive_depth (nd : Node) (p : Path) (c : Node)
    (h : derivePathWith slip10ChildKey nd p = .ok c) : c.depth = nd.depth + p.elems.length :=
  Model.derive_depth nd p c h

/-- `DerivePath` refuses an absolute path (`m/…`) on a non-master node with `ValueError`, and is a
left fold of `ChildKey` otherwise -/
theorem derivePath_unfold (child : Node → Nat → R Node) (nd : Node) (p : Path) :
    derivePathWith child nd p =
      if (nd.depth > 0 && p.absolute) = true then .error .value else p.elems.foldlM child nd :=
  Model.derivePathWith_eq child nd p

/-! ## 7. the depth limit

`ChildKey` increases the one-byte depth with `Bip32Depth.Increase()`, which refuses to go beyond
255 (`ValueError`), after the child key material has been computed and before the child object is
built. -/

/-- **no child of a depth-255 node exists**: at depth `≥ 255` every `ChildKey` call fails, for
every index and every key kind -/
theorem depth_limit (nd : Node) (idx : Nat) (hd : nd.depth ≥ 255) :
    (∃ e, slip10ChildKey nd idx = .error e) ∧ ¬ ∃ c, slip10ChildKey nd idx = .ok c :=
  ⟨Model.slip10ChildKey_depth_limit nd idx hd,
   fun ⟨c, hc⟩ => absurd (Model.slip10ChildKey_depth_lt nd idx c hc) (Nat.not_lt.mpr hd)⟩

/-- … with `ValueError`, whenever the key derivation itself goes through (otherwise the error of
the key derivation comes first) -/
theorem depth_limit_value (nd : Node) (idx : Nat) (hi : idx < 2 ^ 32) (hd : nd.depth ≥ 255) :
    (∀ priv x, nd.priv = some priv → slip10CkdPriv nd priv idx = .ok x →
      slip10ChildKey nd idx = .error .value) ∧
    (∀ x, nd.priv = none → isHardened idx = false → slip10CkdPub nd idx = .ok x →
      slip10ChildKey nd idx = .error .value) :=
  ⟨fun priv x hp hx => Model.slip10ChildKey_priv_depth_value nd idx priv x hi hp hd hx,
   fun x hp hh hx => Model.slip10ChildKey_pub_depth_value nd idx x hi hp hh hd hx⟩

/-- the same for every scheme (`ChildKey` dispatch over SLIP-0010, BIP32-Ed25519, Byron legacy) -/
theorem depth_limit_any_scheme (nd : Node) (idx : Nat) (hd : nd.depth ≥ 255) :
    (∃ e, childKey nd idx = .error e) ∧ ¬ ∃ c, childKey nd idx = .ok c :=
  ⟨Model.childKey_depth_limit nd idx hd,
   fun ⟨c, hc⟩ => absurd (Model.childKey_depth nd idx c hc).1 (Nat.not_lt.mpr hd)⟩

/-- a child exists only below the limit … -/
theorem child_parent_depth_lt (nd : Node) (idx : Nat) (c : Node) :
    (slip10ChildKey nd idx = .ok c → nd.depth < 255) ∧ (childKey nd idx = .ok c → nd.depth < 255) :=
  ⟨Model.slip10ChildKey_depth_lt nd idx c, fun h => (Model.childKey_depth nd idx c h).1⟩

/-- … hence the depth of every child fits the one byte it is serialised into -/
theorem child_depth_le (nd : Node) (idx : Nat) (c : Node) (h : slip10ChildKey nd idx = .ok c) :
    c.depth ≤ 255 :=
  Model.slip10ChildKey_depth_le nd idx c h

theorem child_depth_le_any_scheme (nd : Node) (idx : Nat) (c : Node) (h : childKey nd idx = .ok c) :
    c.depth = nd.depth + 1 ∧ c.depth ≤ 255 :=
  ⟨(Model.childKey_depth nd idx c h).2, Model.childKey_depth_le nd idx c h⟩

/-- `DerivePath` never returns a node whose depth does not fit one byte (any scheme) -/
theorem derive_depth_le (nd : Node) (p : Path) (c : Node) (hd : nd.depth ≤ 255)
    (h : derivePathWith childKey nd p = .ok c) : c.depth ≤ 255 :=
  Model.derivePathWith_depth_le childKey Model.childKey_depth_le nd p c hd h

/-- the SLIP-0010 instance, with the exact depth: a path is derivable only if it stays within the
limit -/
theorem derive_depth_le_slip10 (nd : Node) (p : Path) (c : Node) (hd : nd.depth ≤ 255)
    (h : derivePathWith slip10ChildKey nd p = .ok c) :
    c.depth ≤ 255 ∧ nd.depth + p.elems.length ≤ 255 :=
  ⟨Model.derivePathWith_depth_le slip10ChildKey Model.slip10ChildKey_depth_le nd p c hd h,
   Model.derive_depth_bound nd p c hd h⟩

/-- `DerivePath` (any scheme) adds the number of path elements to the depth -/
theorem derive_depth_any_scheme (nd : Node) (p : Path) (c : Node)
    (h : derivePathWith childKey nd p = .ok c) : c.depth = nd.depth + p.elems.length :=
  Model.derive_depth_any nd p c h

/-- consequently the extended-key serialisation of a derived node never fails on the depth byte -/
theorem derived_depth_serialisable (nd : Node) (p : Path) (c : Node) (hd : nd.depth ≤ 255)
    (h : derivePathWith childKey nd p = .ok c) : ∃ d, toBytesBE c.depth 1 = .ok d := by
  have hle := derive_depth_le nd p c hd h
  exact (toBytesBE_ok_iff _ _).mpr (by omega)

end BipVerif.Props.C03
