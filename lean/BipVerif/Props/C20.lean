import BipVerif.Model.Electrum
namespace BipVerif.Props.C20
theorem placeholder : True := trivial
end BipVerif.Props.C20
