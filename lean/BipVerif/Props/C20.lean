/-
C20 — Electrum v1/v2 wallets, brainwallets, SPL-token program-derived addresses.
Hashes (`sha256`, `sha256d`, `pbkdf2HmacSha512`, `scrypt`) and secp256k1 arithmetic are opaque.
Helper lemmas: `BipVerif/Lemmas/Electrum.lean`.
-/
import BipVerif.Lemmas.Electrum

namespace BipVerif.Props.C20
open BipVerif BipVerif.Prim BipVerif.Model BipVerif.Model.ElectrumLemmas

/-! ### 1. Electrum v1 child keys -/

/-- the sequence number is `int(sha256d(ascii("<addr>:<change>:") ‖ K))` with `K` the
uncompressed master public key without its `04` prefix -/
theorem ev1Sequence_spec (w : Ev1) (change addr : Nat) :
    ev1Sequence w change addr = match pubUncompressed .secp256k1 w.pub with
      | some u => .ok (Bytes.toNatBE (sha256d
          ((toString addr ++ ":" ++ toString change ++ ":").toUTF8.toList ++ u.drop 1)))
      | none => .error .value :=
  ev1Sequence_eq w change addr

/-- **child private key = (master + sequence) mod n**, 32 bytes big-endian -/
theorem electrumV1_child_spec {w : Ev1} {change addr : Nat} {k : Bytes}
    (h : ev1PrivateKey w change addr = .ok k) :
    ∃ m seq, w.priv = some m ∧ ev1Sequence w change addr = .ok seq ∧
      Bytes.toNatBE k = (Bytes.toNatBE m + seq) % Prim.secp256k1.n ∧ k.length = 32 ∧
      change ≤ 2 ^ 32 - 1 ∧ addr ≤ 2 ^ 32 - 1 ∧ privValid .secp256k1 k = true := by
  rw [ev1PrivateKey_eq] at h
  split at h
  · cases h
  · rename_i m hm
    split at h
    · cases h
    · rename_i hr
      split at h
      · cases h
      · rename_i seq hseq
        split at h
        · cases h
        · rename_i k' hk'
          split at h
          · rename_i hv
            cases Except.ok.inj h
            obtain ⟨h1, h2⟩ := toBytesBE_toNatBE hk'
            exact ⟨m, seq, hm, hseq, h1, h2, by omega, by omega, hv⟩
          · cases h

/-- the complete behaviour on a private wallet with in-range indices: the only failure left is
a zero child key -/
theorem electrumV1_child_total {w : Ev1} {change addr : Nat} {m : Bytes} {seq : Nat}
    (hm : w.priv = some m) (hc : change ≤ 2 ^ 32 - 1) (ha : addr ≤ 2 ^ 32 - 1)
    (hs : ev1Sequence w change addr = .ok seq) :
    ev1PrivateKey w change addr =
      if (Bytes.toNatBE m + seq) % Prim.secp256k1.n = 0 then .error .value
      else .ok (Bytes.ofNatBE 32 ((Bytes.toNatBE m + seq) % Prim.secp256k1.n)) := by
  rw [ev1PrivateKey_eq, hm]
  dsimp only
  rw [if_neg (by omega), hs]
  dsimp only
  rw [toBytesBE_mod_n]
  dsimp only
  have hlt := Nat.mod_lt (Bytes.toNatBE m + seq) secp_n_pos
  have hval : Bytes.toNatBE (Bytes.ofNatBE 32 ((Bytes.toNatBE m + seq) % Prim.secp256k1.n))
      = (Bytes.toNatBE m + seq) % Prim.secp256k1.n :=
    toNatBE_ofNatBE (Nat.lt_trans hlt secp_n_lt)
  by_cases h0 : (Bytes.toNatBE m + seq) % Prim.secp256k1.n = 0
  · rw [if_pos h0, if_neg]
    unfold privValid
    rw [hval, h0]; simp
  · rw [if_neg h0, if_pos]
    unfold privValid
    rw [hval]
    simp only [length_ofNatBE, decide_true, Bool.true_and, Bool.and_eq_true, decide_eq_true_eq]
    exact ⟨by omega, hlt⟩

/-- indices beyond 32 bits are refused -/
theorem electrumV1_index_range (w : Ev1) (change addr : Nat)
    (h : change > 2 ^ 32 - 1 ∨ addr > 2 ^ 32 - 1) : ev1PrivateKey w change addr = .error .value := by
  rw [ev1PrivateKey_eq]
  cases w.priv with
  | none => rfl
  | some m => dsimp only; rw [if_pos h]

/-- a public-only wallet has no private child keys -/
theorem electrumV1_public_only (w : Ev1) (change addr : Nat) (h : w.priv = none) :
    ev1PrivateKey w change addr = .error .value := by
  rw [ev1PrivateKey_eq, h]

/-- error kinds: only `ValueError` (in particular `to_bytes(32)` cannot overflow) -/
theorem electrumV1_errors {w : Ev1} {change addr : Nat} {e : Err}
    (h : ev1PrivateKey w change addr = .error e) : e = .value := by
  rw [ev1PrivateKey_eq] at h
  split at h
  · exact (Except.error.inj h).symm
  · split at h
    · exact (Except.error.inj h).symm
    · split at h
      · rename_i e' he
        cases Except.error.inj h
        exact ev1Sequence_error he
      · rw [toBytesBE_mod_n] at h
        dsimp only at h
        split at h
        · cases h
        · exact (Except.error.inj h).symm

/-! ### 2. the decimal index rendering is injective -/

/-- `str(n)` is injective on naturals -/
theorem dec_injective {a b : Nat} (h : toString a = toString b) : a = b := toString_nat_inj h

/-- … and `int(str(n)) = n` for the ASCII-digit reading -/
theorem dec_roundtrip (n : Nat) : decVal (toString n).toList = n := by
  rw [toString_toList]; exact decVal_toDigits n

/-- the prefix `"{addr}:{change}:"` consists of the two decimal renderings, each followed by `':'`,
and contains exactly two `':'` (digits are not `':'`) -/
theorem prefix_shape (addr change : Nat) :
    (toString addr ++ ":" ++ toString change ++ ":").toList
      = (toString addr).toList ++ ':' :: ((toString change).toList ++ [':']) ∧
    (toString addr ++ ":" ++ toString change ++ ":").toList.count ':' = 2 ∧
    ':' ∉ (toString addr).toList ∧ ':' ∉ (toString change).toList := by
  refine ⟨?_, ev1PrefixStr_count addr change, ?_, ?_⟩
  · have := ev1PrefixStr_toList addr change
    rw [toString_toList, toString_toList]; exact this
  · rw [toString_toList]; exact colon_not_mem_toDigits addr
  · rw [toString_toList]; exact colon_not_mem_toDigits change

/-- **the prefix determines `(addr, change)`** -/
theorem prefix_injective {a c a' c' : Nat}
    (h : toString a ++ ":" ++ toString c ++ ":" = toString a' ++ ":" ++ toString c' ++ ":") :
    a = a' ∧ c = c' := ev1PrefixStr_inj h

/-- the same at byte level and including the key: for master public keys of equal length the
hashed message determines the index pair and the key -/
theorem message_injective {a c a' c' : Nat} {K K' : Bytes} (hl : K.length = K'.length)
    (h : (toString a ++ ":" ++ toString c ++ ":").toUTF8.toList ++ K
       = (toString a' ++ ":" ++ toString c' ++ ":").toUTF8.toList ++ K') :
    a = a' ∧ c = c' ∧ K = K' := ev1Msg_inj hl h

/-! ### 3. Electrum v2 is BIP-32 -/

/-- standard wallets: `m/change/index` -/
theorem electrumV2_standard_is_bip32 (master : Node) (c i : Nat) (hd : master.depth = 0)
    (hc : c ≤ 2 ^ 32 - 1) (hi : i ≤ 2 ^ 32 - 1) :
    ev2Derive false master c i = (slip10ChildKey master c >>= fun x => slip10ChildKey x i) := by
  rw [ev2Derive_standard_eq master c i hd, if_neg (by omega)]

/-- segwit wallets: `m/0'/change/index` -/
theorem electrumV2_segwit_is_bip32 (master : Node) (c i : Nat) (hd : master.depth = 0)
    (hc : c ≤ 2 ^ 32 - 1) (hi : i ≤ 2 ^ 32 - 1) :
    ev2Derive true master c i =
      (slip10ChildKey master (harden 0) >>= fun a =>
        slip10ChildKey a c >>= fun x => slip10ChildKey x i) := by
  rw [ev2Derive_segwit_eq master c i hd]
  congr 1
  funext a
  rw [if_neg (by omega)]

/-- the same as path derivation -/
theorem electrumV2_standard_is_path (master : Node) (c i : Nat) (hd : master.depth = 0)
    (hc : c ≤ 2 ^ 32 - 1) (hi : i ≤ 2 ^ 32 - 1) :
    ev2Derive false master c i = derivePath master { elems := [c, i], absolute := true } := by
  rw [electrumV2_standard_is_bip32 master c i hd hc hi]
  unfold derivePath derivePathWith
  dsimp only
  rw [if_neg (by simp [hd])]
  simp only [List.foldlM_cons, List.foldlM_nil, bind, Except.bind, pure, Except.pure]
  cases slip10ChildKey master c with
  | error e => rfl
  | ok x => dsimp only; cases slip10ChildKey x i <;> rfl

theorem electrumV2_segwit_is_path (master : Node) (c i : Nat) (hd : master.depth = 0)
    (hc : c ≤ 2 ^ 32 - 1) (hi : i ≤ 2 ^ 32 - 1) :
    ev2Derive true master c i = derivePath master { elems := [harden 0, c, i], absolute := true } := by
  rw [electrumV2_segwit_is_bip32 master c i hd hc hi]
  unfold derivePath derivePathWith
  dsimp only
  rw [if_neg (by simp [hd])]
  simp only [List.foldlM_cons, List.foldlM_nil, bind, Except.bind, pure, Except.pure]
  cases slip10ChildKey master (harden 0) with
  | error e => rfl
  | ok a =>
    dsimp only
    cases slip10ChildKey a c with
    | error e => rfl
    | ok x => dsimp only; cases slip10ChildKey x i <;> rfl

/-- a non-master node is refused with `ValueError`, whatever the indices -/
theorem electrumV2_nonmaster (segwit : Bool) (master : Node) (c i : Nat) (h : master.depth > 0) :
    ev2Derive segwit master c i = .error .value := ev2Derive_nonmaster segwit master c i h

/-- out-of-range indices: `Bip32PathError` (standard wallets) -/
theorem electrumV2_standard_index_range (master : Node) (c i : Nat) (hd : master.depth = 0)
    (h : c > 2 ^ 32 - 1 ∨ i > 2 ^ 32 - 1) : ev2Derive false master c i = .error .path := by
  rw [ev2Derive_standard_eq master c i hd, if_pos h]

/-- out-of-range indices: `Bip32PathError` (segwit wallets; the account key `m/0'` is derived
first, so its failure — if any — takes precedence) -/
theorem electrumV2_segwit_index_range (master : Node) (c i : Nat) (hd : master.depth = 0)
    (h : c > 2 ^ 32 - 1 ∨ i > 2 ^ 32 - 1) {a : Node} (ha : slip10ChildKey master (harden 0) = .ok a) :
    ev2Derive true master c i = .error .path := by
  rw [ev2Derive_segwit_eq master c i hd, ha]
  show (if c > 2 ^ 32 - 1 ∨ i > 2 ^ 32 - 1 then _ else _) = _
  rw [if_pos h]

theorem electrumV2_segwit_account_error (master : Node) (c i : Nat) (hd : master.depth = 0)
    {e : Err} (ha : slip10ChildKey master (harden 0) = .error e) :
    ev2Derive true master c i = .error e := by
  rw [ev2Derive_segwit_eq master c i hd, ha]; rfl

/-! ### 4. brainwallets -/

theorem brainwallet_key_is_hash (p : Bytes) :
    brainKey .sha256 p = Prim.sha256 p ∧
    brainKey .doubleSha256 p = sha256d p ∧
    (∀ salt n, brainKey (.pbkdf2 salt n) p = pbkdf2HmacSha512 p salt n 32) ∧
    (∀ salt n r p', brainKey (.scrypt salt n r p') p = Prim.scrypt p salt n r p' 32) :=
  ⟨rfl, rfl, fun _ _ => rfl, fun _ _ _ _ => rfl⟩

/-- every algorithm yields a 32-byte key -/
theorem brainwallet_key_length (a : BrainAlgo) (p : Bytes) : (brainKey a p).length = 32 := by
  cases a with
  | sha256 => exact sha256_length p
  | doubleSha256 => exact sha256d_length p
  | pbkdf2 salt n => exact pbkdf2HmacSha512_length p salt n 32
  | scrypt salt n r p' => exact scrypt_length p salt n r p' 32

/-! ### 5. program-derived addresses -/

/-- an accepted PDA is the SHA-256 digest, 32 bytes, and not a valid ed25519 public key -/
theorem createPda_offcurve {s : List Bytes} {p d : Bytes} (h : createPda s p = some d) :
    pubValid .ed25519 d = false ∧ d.length = 32 := by
  obtain ⟨h1, h2, _⟩ := createPda_some h
  exact ⟨h1, h2⟩

theorem createPda_digest {s : List Bytes} {p d : Bytes} (h : createPda s p = some d) :
    d = Prim.sha256 (s.flatten ++ p ++ "ProgramDerivedAddress".toUTF8.toList) :=
  (createPda_some h).2.2

/-- **`FindPda`** returns the address for the first bump, counting down from 255, whose digest is
off the curve; all larger bumps were on the curve; bump 0 is never used -/
theorem findPda_spec {seeds : List Bytes} {prog a : List Char} (h : findPda seeds prog = .ok a) :
    ∃ progBytes b d, solDecode prog = .ok progBytes ∧ 1 ≤ b ∧ b ≤ 255 ∧
      createPda (seeds ++ [toBytesAuto b]) progBytes = some d ∧ a = b58Encode btcAlphabet d ∧
      (∀ b', b < b' → b' ≤ 255 → createPda (seeds ++ [toBytesAuto b']) progBytes = none) ∧
      seeds.length ≤ 16 ∧ (∀ s ∈ seeds, s.length ≤ 32) := by
  rw [findPda_eq] at h
  split at h
  · cases h
  · rename_i h16
    split at h
    · cases h
    · rename_i h32
      split at h
      · cases h
      · rename_i pb hpb
        split at h
        · cases h
        · rename_i d hd
          obtain ⟨b, hb1, hb2, hb3, hb4⟩ := findPdaLoop_ok (Nat.le_refl 255) hd
          refine ⟨pb, b, d, hpb, by omega, hb2, hb3, (Except.ok.inj h).symm, hb4, by omega, ?_⟩
          intro s hs
          by_contra hgt
          apply h32
          rw [List.any_eq_true]
          exact ⟨s, hs, by simpa using hgt⟩

/-- the bump seed appended to the seeds is the single byte `bump` -/
theorem findPda_bump_byte (b : Nat) (h : b ≤ 255) : toBytesAuto b = [UInt8.ofNat b] :=
  toBytesAuto_byte b (by omega)

/-- **at most 255 attempts**: the search fails (with `ValueError`) iff the bumps 255 … 1 are all
on the curve; bump 0 is not consulted -/
theorem findPda_bound (seeds : List Bytes) (p : Bytes) :
    findPdaLoop seeds p 255 255 = .error .value ↔
      ∀ b, 1 ≤ b → b ≤ 255 → createPda (seeds ++ [toBytesAuto b]) p = none := by
  rw [findPdaLoop_error_iff 255 255 (Nat.le_refl _)]
  constructor
  · intro h b h1 h2; exact h b (by omega) h2
  · intro h b h1 h2; exact h b (by omega) h2

/-- the loop has no other failure -/
theorem findPdaLoop_errors {seeds : List Bytes} {p : Bytes} {e : Err}
    (h : findPdaLoop seeds p 255 255 = .error e) : e = .value := findPdaLoop_error h

/-- too many / too long seeds are refused before anything is hashed -/
theorem findPda_seed_limits (seeds : List Bytes) (prog : List Char)
    (h : seeds.length > 16 ∨ ∃ s ∈ seeds, s.length > 32) : findPda seeds prog = .error .value := by
  rw [findPda_eq]
  by_cases h16 : seeds.length > 16
  · rw [if_pos h16]
  · rw [if_neg h16]
    cases h with
    | inl h => exact absurd h h16
    | inr h =>
      obtain ⟨s, hs, hl⟩ := h
      rw [if_pos]
      rw [List.any_eq_true]
      exact ⟨s, hs, by simpa using hl⟩

/-- **seed order of the associated token account**: wallet, token program, mint -/
theorem ata_seeds_order (w m t : List Char) :
    associatedTokenAddress w m t = (do
      let w' ← solDecode w
      let t' ← solDecode t
      let m' ← solDecode m
      findPda [w', t', m'] splDefaultProgram) := rfl

end BipVerif.Props.C20
