/-
C12 — the group-law half for ed25519: Mathlib has no Edwards curves, so the group is *constructed*
(`Lemmas/EdGroup/Curve.lean`: completeness of the twisted-Edwards addition law from "−1 is a square,
d is a non-square", closure, and associativity as a polynomial identity modulo the three curve
equations, checked by `linear_combination` with cofactors found by computer algebra) over
`ZMod (2^255-19)` — prime by a Pratt certificate, `d` a non-square by Euler's criterion evaluated
in the kernel — and the executable arithmetic of `Prim/Edwards.lean` (affine law, extended
coordinates, MSB-first double-and-add, RFC 8032 encoding/decoding with the p ≡ 5 (mod 8) square
root) is proved to compute in it.  `KholawLaw`, until now a hypothesis of C04/C18, is a theorem.
-/
import BipVerif.Lemmas.EdGroup

namespace BipVerif.Props.C12Ed
open BipVerif BipVerif.Prim BipVerif.Model BipVerif.EdGroup

/-! ### 0. the field and the curve constants -/

theorem p25519_prime : Nat.Prime edP := Pratt.p25519_prime
theorem edL_prime : Nat.Prime edL := Pratt.edL_prime

/-- `d` is a non-square and `-1` is a square modulo `p` — exactly what makes the addition law complete -/
theorem d_nonsquare (z : F) : z * z ≠ dF := dF_nonsq z
theorem minus_one_square : iF * iF = -1 := iF_sq

/-- completeness: the two denominators of the addition law never vanish on curve points -/
theorem add_denominators_ne_zero {x1 y1 x2 y2 : F} (e1 : edC.On x1 y1) (e2 : edC.On x2 y2) :
    1 + edC.d * x1 * x2 * y1 * y2 ≠ 0 ∧ 1 - edC.d * x1 * x2 * y1 * y2 ≠ 0 :=
  ⟨edC.one_add_t_ne e1 e2, edC.one_sub_t_ne e1 e2⟩

/-- the points of the curve form a commutative group under the Edwards law -/
noncomputable example : AddCommGroup EdPt := inferInstance

/-! ### 1. point addition and scalar multiplication equal reference group arithmetic -/

theorem toE_injective {P Q : EdPoint} (hP : edOnCurve P = true) (hQ : edOnCurve Q = true)
    (h : toE P = toE Q) : P = Q := toE_injOn hP hQ h

/-- `edAdd` stays on the curve and is the group law -/
theorem add_is_group_add {P Q : EdPoint} (hP : edOnCurve P = true) (hQ : edOnCurve Q = true) :
    edOnCurve (edAdd P Q) = true ∧ toE (edAdd P Q) = toE P + toE Q := edAdd_correct hP hQ

theorem neg_is_group_neg {P : EdPoint} (hP : edOnCurve P = true) :
    edOnCurve (edNeg P) = true ∧ toE (edNeg P) = -toE P := edNeg_correct hP

/-- the extended-coordinate double-and-add `edMul` is `k • ·` for every `k : ℕ` -/
theorem mul_is_nsmul (k : ℕ) {P : EdPoint} (hP : edOnCurve P = true) :
    toE (edMul k P) = k • toE P ∧ edOnCurve (edMul k P) = true := edMul_correct k hP

theorem mulBase_is_nsmul_B (k : ℕ) : toE (edMulBase k) = k • edB := toE_edMulBase k

/-- the group laws, stated on the executable functions themselves -/
theorem add_comm' {P Q : EdPoint} (hP : edOnCurve P = true) (hQ : edOnCurve Q = true) :
    edAdd P Q = edAdd Q P :=
  toE_injOn (edAdd_correct hP hQ).1 (edAdd_correct hQ hP).1
    (by rw [(edAdd_correct hP hQ).2, (edAdd_correct hQ hP).2, add_comm])

theorem add_assoc' {P Q R : EdPoint} (hP : edOnCurve P = true) (hQ : edOnCurve Q = true)
    (hR : edOnCurve R = true) : edAdd (edAdd P Q) R = edAdd P (edAdd Q R) := by
  have hPQ := edAdd_correct hP hQ
  have hQR := edAdd_correct hQ hR
  exact toE_injOn (edAdd_correct hPQ.1 hR).1 (edAdd_correct hP hQR.1).1
    (by rw [(edAdd_correct hPQ.1 hR).2, hPQ.2, (edAdd_correct hP hQR.1).2, hQR.2, add_assoc])

theorem mul_add_scalar (a b : ℕ) {P : EdPoint} (hP : edOnCurve P = true) :
    edMul (a + b) P = edAdd (edMul a P) (edMul b P) := by
  have ha := edMul_correct a hP
  have hb := edMul_correct b hP
  have hab := edMul_correct (a + b) hP
  exact toE_injOn hab.2 (edAdd_correct ha.2 hb.2).1
    (by rw [hab.1, (edAdd_correct ha.2 hb.2).2, ha.1, hb.1, add_nsmul])

theorem mul_mul_scalar (a b : ℕ) {P : EdPoint} (hP : edOnCurve P = true) :
    edMul a (edMul b P) = edMul (a * b) P := by
  have hb := edMul_correct b hP
  exact toE_injOn (edMul_correct a hb.2).2 (edMul_correct (a * b) hP).2
    (by rw [(edMul_correct a hb.2).1, hb.1, (edMul_correct (a * b) hP).1, mul_comm a b, mul_nsmul])

/-! ### 2. the base point -/

theorem base_onCurve : edOnCurve edBase = true := edBase_onCurve

/-- `B` has order exactly `L`: `k·B = 0 ↔ L ∣ k` -/
theorem base_order (k : ℕ) : k • edB = 0 ↔ edL ∣ k := edB_hasOrder k

/-- on the executable side: `k·B` is the identity `(0, 1)` exactly for multiples of `L` -/
theorem mulBase_identity_iff (k : ℕ) : edMulBase k = edIdentity ↔ edL ∣ k := by
  rw [← edB_hasOrder k, ← toE_edMulBase k, toE_eq_zero_iff (edOnCurve_edMulBase k)]

/-- scalars may be reduced modulo `L` -/
theorem mulBase_mod (k : ℕ) : edMulBase (k % edL) = edMulBase k :=
  toE_injOn (edOnCurve_edMulBase _) (edOnCurve_edMulBase _)
    (by rw [toE_edMulBase, toE_edMulBase, GroupModel.mod_nsmul edB_hasOrder])

/-! ### 3. encodings round-trip to the same point -/

/-- RFC 8032: decoding the 32-byte encoding of an on-curve point returns that point (correctness of
the x-recovery: `x² = (y²−1)/(dy²+1)`, the p ≡ 5 (mod 8) square root and the sign selection) -/
theorem decode_encode {P : EdPoint} (hP : edOnCurve P = true) :
    edDecodeLenient (edEncode P) = some P := edDecodeLenient_edEncode hP

theorem encoding_accepted_by_on_curve_test {P : EdPoint} (hP : edOnCurve P = true) :
    edBytesOnCurve (edEncode P) = some true := edBytesOnCurve_edEncode hP

/-! ### 4. the Edwards point layer is a faithful group model — no hypothesis left -/

theorem groupModel : GroupModel.EdGroupModel edB ofE := edGroupModel

/-- `KholawLaw` (the hypothesis of C04's and C18's BIP32-Ed25519 commutation theorems) holds -/
theorem kholawLaw : KholawLaw := EdGroup.kholawLaw

/-- non-vacuity: `1·B = B`, `2·B = B + B`, `(L+1)·B = B` evaluated by the kernel -/
example : edMulBase 1 = edBase := by decide +kernel
example : edMulBase 2 = edAdd edBase edBase := by decide +kernel
example : edMulBase (edL + 1) = edBase := by decide +kernel

/-! ### 5. the ed25519 key classes: the public key of a private key is accepted as it is -/

/-- an encoded on-curve point, with the library's `0x00` prefix, is accepted by the prefixed public-key
classes (ed25519, ed25519-blake2b, Khovratovich–Law) and is its own canonical form -/
theorem prefixed_pub_canonical (c : CurveT) (hc : c = .ed25519 ∨ c = .ed25519Blake2b ∨ c = .ed25519Kholaw)
    {P : EdPoint} (hP : edOnCurve P = true) :
    pubFromBytes c (0 :: edEncode P) = some (0 :: edEncode P) := by
  have hlen : (edEncode P).length = 32 := edEncode_length P
  have hstrip : edStripPrefix (0 :: edEncode P) = edEncode P := by
    unfold edStripPrefix; simp [hlen]
  have hon := edBytesOnCurve_edEncode hP
  rcases hc with rfl | rfl | rfl <;>
    simp [pubFromBytes, hstrip, hon, hlen]

/-- the Monero flavour carries no prefix -/
theorem monero_pub_canonical {P : EdPoint} (hP : edOnCurve P = true) :
    pubFromBytes .ed25519Monero (edEncode P) = some (edEncode P) := by
  have hlen : (edEncode P).length = 32 := edEncode_length P
  have hstrip : edStripPrefix (edEncode P) = edEncode P := by
    unfold edStripPrefix; simp [hlen]
  have hon := edBytesOnCurve_edEncode hP
  simp [pubFromBytes, hstrip, hon, hlen]

/-- **every ed25519 / ed25519-blake2b private key has a public key, it is `clamp(H(k))·B` encoded, and the
public-key class accepts it unchanged** -/
theorem ed25519_pub_of_priv (k : Bytes) :
    ∃ P, pubOfPriv .ed25519 k = some P ∧ pubFromBytes .ed25519 P = some P ∧
      P = 0 :: edEncode (edMulBase (edClamp (sha512 k))) :=
  ⟨_, rfl, prefixed_pub_canonical .ed25519 (Or.inl rfl) (edOnCurve_edMulBase _), rfl⟩

theorem ed25519Blake2b_pub_of_priv (k : Bytes) :
    ∃ P, pubOfPriv .ed25519Blake2b k = some P ∧ pubFromBytes .ed25519Blake2b P = some P ∧
      P = 0 :: edEncode (edMulBase (edClamp (blake2b512 k))) :=
  ⟨_, rfl, prefixed_pub_canonical .ed25519Blake2b (Or.inr (Or.inl rfl)) (edOnCurve_edMulBase _), rfl⟩

/-- a clamped scalar is never a multiple of `L` (it lies in `[2^254, 2^255)` and is a multiple of 8 … the
relevant fact here: it is below `8·L` and not `0`), so the public point is never the identity — stated
through the order theorem: the identity appears exactly at multiples of `L` -/
theorem clamped_pub_identity_iff (h : Bytes) :
    edMulBase (edClamp h) = edIdentity ↔ edL ∣ edClamp h := mulBase_identity_iff _

end BipVerif.Props.C12Ed
