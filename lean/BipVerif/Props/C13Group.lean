/-
C13 — the BIP-38 round trips without hypotheses.  The three named hypotheses of `Props/C13.lean`
are theorems:
* `CompressCanon`, `GroupLaw` (`Lemmas/Bip38Group.lean`): the executable secp256k1 arithmetic is
  Mathlib's elliptic-curve group law (`Props/C12Group.lean`) and `n` is prime;
* `AesInv` (`Lemmas/AesInv.lean`): the inverse cipher of `Prim/Aes.lean` inverts the cipher (S-box
  tables and GF(2^8) coefficients checked by the kernel, the rest structural).
`scrypt` and `sha256d` stay uninterpreted: the round trips hold whatever they compute.
-/
import BipVerif.Lemmas.Bip38Group
import BipVerif.Lemmas.AesInv

namespace BipVerif.Props.C13Group
open BipVerif BipVerif.Prim BipVerif.Model BipVerif.Model.Bip38Lemmas

/-- a compressed point produced by `secpMulG` re-validates to itself -/
theorem compressCanon : C13.CompressCanon := Bip38Group.compressCanon

/-- `b·(a·G) = (a·b mod n)·G` through the point adapters, refusals of infinity included -/
theorem groupLaw : C13.GroupLaw := Bip38Group.groupLaw

/-- AES-256 single-block decryption inverts encryption (the key length is not even needed) -/
theorem aesInv : C13.AesInv := fun k b _ hb => BipVerif.AesInv.aes256_decrypt_encrypt k b hb

/-- **decrypt ∘ generate** (same passphrase), with the AES inverse property as the only
hypothesis -/
theorem ec_decrypt_generated_of_aes (hAes : C13.AesInv)
    {pass salt seedb : Bytes} {ls : Option (Nat × Nat)} {ip enc : List Char} {c : Bool}
    (hI : bip38Intermediate pass salt ls = .ok ip)
    (hoe : (ownerEntropy salt ls).length = 8)
    (hG : bip38EcGenerate ip seedb c = .ok enc) (hseed : seedb.length = 24) :
    bip38EcDecrypt enc pass = .ok
      (Bytes.ofNatBE 32 (Bytes.toNatBE (bip38PassFactor pass (ownerEntropy salt ls) ls.isSome)
        * Bytes.toNatBE (sha256d seedb) % Prim.secp256k1.n), c) :=
  C13.ec_decrypt_generated hAes compressCanon groupLaw hI hoe hG hseed

/-- **decrypt ∘ generate** (same passphrase), no hypothesis left: the owner generates an
intermediate code from `pass` (salt and optional lot/sequence), anybody generates an encrypted key
from it with the random `seedb`; decrypting with `pass` returns the private key
`passfactor · factorb mod n` (32 bytes big-endian) and the compression mode. -/
theorem ec_decrypt_generated
    {pass salt seedb : Bytes} {ls : Option (Nat × Nat)} {ip enc : List Char} {c : Bool}
    (hI : bip38Intermediate pass salt ls = .ok ip)
    (hoe : (ownerEntropy salt ls).length = 8)
    (hG : bip38EcGenerate ip seedb c = .ok enc) (hseed : seedb.length = 24) :
    bip38EcDecrypt enc pass = .ok
      (Bytes.ofNatBE 32 (Bytes.toNatBE (bip38PassFactor pass (ownerEntropy salt ls) ls.isSome)
        * Bytes.toNatBE (sha256d seedb) % Prim.secp256k1.n), c) :=
  C13.ec_decrypt_generated aesInv compressCanon groupLaw hI hoe hG hseed

/-- **decrypt ∘ encrypt** (no-EC mode, same passphrase) returns the key and the compression mode;
no hypothesis left -/
theorem noec_decrypt_encrypt {priv pass : Bytes} {c : Bool} {s : List Char}
    (h : bip38NoEcEncrypt priv pass c = .ok s) : bip38NoEcDecrypt s pass = .ok (priv, c) :=
  C13.noec_decrypt_encrypt aesInv h

end BipVerif.Props.C13Group
