/-
C13 — the BIP-38 EC-multiplied round trip without curve hypotheses: `CompressCanon` and `GroupLaw`
of `Props/C13.lean` are theorems (`Lemmas/Bip38Group.lean`), because the executable secp256k1
arithmetic is Mathlib's elliptic-curve group law (`Props/C12Group.lean`) and `n` is prime.
-/
import BipVerif.Lemmas.Bip38Group

namespace BipVerif.Props.C13Group
open BipVerif BipVerif.Prim BipVerif.Model BipVerif.Model.Bip38Lemmas BipVerif.Props.C13

/-- a compressed point produced by `secpMulG` re-validates to itself -/
theorem compressCanon : CompressCanon := Bip38Group.compressCanon

/-- `b·(a·G) = (a·b mod n)·G` through the point adapters, refusals of infinity included -/
theorem groupLaw : GroupLaw := Bip38Group.groupLaw

/-- **decrypt ∘ generate** (same passphrase), with the AES inverse property as the only
hypothesis: the owner generates an intermediate code from `pass` (salt and optional lot/sequence),
anybody generates an encrypted key from it with the random `seedb`; decrypting with `pass`
returns the private key `passfactor · factorb mod n` (32 bytes big-endian) and the compression
mode. -/
theorem ec_decrypt_generated_of_aes (hAes : AesInv)
    {pass salt seedb : Bytes} {ls : Option (Nat × Nat)} {ip enc : List Char} {c : Bool}
    (hI : bip38Intermediate pass salt ls = .ok ip)
    (hoe : (ownerEntropy salt ls).length = 8)
    (hG : bip38EcGenerate ip seedb c = .ok enc) (hseed : seedb.length = 24) :
    bip38EcDecrypt enc pass = .ok
      (Bytes.ofNatBE 32 (Bytes.toNatBE (bip38PassFactor pass (ownerEntropy salt ls) ls.isSome)
        * Bytes.toNatBE (sha256d seedb) % Prim.secp256k1.n), c) :=
  C13.ec_decrypt_generated hAes compressCanon groupLaw hI hoe hG hseed

end BipVerif.Props.C13Group
