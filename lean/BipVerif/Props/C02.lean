import BipVerif.Model.Mnemonics
namespace BipVerif.Props.C02
theorem placeholder : True := trivial
end BipVerif.Props.C02
