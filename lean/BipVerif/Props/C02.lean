/-
C02 — mnemonic → seed.

The seed generators are literally the published formulas on the *validated* sentence:
* BIP-39: PBKDF2-HMAC-SHA512(password = normalised words joined by single spaces,
  salt = NFKD("mnemonic" ‖ passphrase), 2048 rounds, 64 bytes);
* Substrate: the same KDF with the *entropy* as password;
* Electrum v2: the BIP-39 formula (salt prefix "electrum") on a sentence that passed the version check;
* Electrum v1: 100000 rounds of `h ↦ SHA-256(h ‖ hex(entropy))` from `hex(entropy)`.
An invalid sentence never yields a seed (the decoder's error is propagated unchanged), the seed
length is fixed, and the seed only depends on the normalised sentence (whitespace / ASCII case of the
raw string are irrelevant).
-/
import BipVerif.Lemmas.Seed

namespace BipVerif.Props.C02
open BipVerif BipVerif.Prim BipVerif.Model BipVerif.Model.SeedLemmas

variable (H : Bytes → Bytes) (langs : List (List Nat)) (lang : Option (List Nat))

/-! ### BIP-39 -/

/-- the seed of a valid sentence is the published KDF formula -/
theorem seed_eq_kdf_definition (ws : List Nat) (salt : Bytes) (e : Bytes)
    (h : bip39Decode H langs lang ws = .ok e) :
    bip39Seed H langs lang ws salt = .ok (pbkdf2HmacSha512 (sentenceBytes ws) salt 2048 64) := by
  unfold bip39Seed
  rw [h]; rfl

/-- an invalid sentence never yields a seed; the decoder's error is the generator's error -/
theorem invalid_no_seed (ws : List Nat) (salt : Bytes) (e : Err)
    (h : bip39Decode H langs lang ws = .error e) :
    bip39Seed H langs lang ws salt = .error e := by
  unfold bip39Seed
  rw [h]; rfl

/-- a seed exists exactly for the sentences the decoder accepts, and then it is the formula -/
theorem seed_ok_iff (ws : List Nat) (salt s : Bytes) :
    bip39Seed H langs lang ws salt = .ok s ↔
      (∃ e, bip39Decode H langs lang ws = .ok e) ∧
        s = pbkdf2HmacSha512 (sentenceBytes ws) salt 2048 64 := by
  cases hd : bip39Decode H langs lang ws with
  | ok e =>
    rw [seed_eq_kdf_definition H langs lang ws salt e hd]
    constructor
    · intro h; cases h; exact ⟨⟨e, rfl⟩, rfl⟩
    · rintro ⟨_, rfl⟩; rfl
  | error e =>
    rw [invalid_no_seed H langs lang ws salt e hd]
    constructor
    · intro h; cases h
    · rintro ⟨⟨e', he'⟩, _⟩; cases he'

theorem seed_length (ws : List Nat) (salt s : Bytes)
    (h : bip39Seed H langs lang ws salt = .ok s) : s.length = 64 := by
  rw [((seed_ok_iff H langs lang ws salt s).1 h).2]
  exact pbkdf2HmacSha512_length _ _ _ _

/-! ### from the raw string -/

/-- `Bip39SeedGenerator(str)`: split / lower / NFKD, then the generator -/
def bip39SeedOfString (oracle : List (List Char × List Char)) (s : List Char) (salt : Bytes) :
    R Bytes := do
  let ws ← bip39Sentence oracle s
  bip39Seed H langs lang ws salt

/-- raw strings with the same normalisation (letter case, amount and kind of whitespace,
canonically equivalent spellings) give the identical seed — or the identical refusal -/
theorem seed_congr_sentence (oracle : List (List Char × List Char)) (s s' : List Char)
    (salt : Bytes) (h : bip39Sentence oracle s = bip39Sentence oracle s') :
    bip39SeedOfString H langs lang oracle s salt = bip39SeedOfString H langs lang oracle s' salt := by
  unfold bip39SeedOfString
  rw [h]

/-- the normalised sentence only depends on the tokens -/
theorem sentence_congr_tokens (oracle : List (List Char × List Char)) (s s' : List Char)
    (h : splitWs s = splitWs s') : bip39Sentence oracle s = bip39Sentence oracle s' := by
  unfold bip39Sentence
  rw [h]

/-- … and only on the normalised tokens -/
theorem sentence_congr_norm (oracle : List (List Char × List Char)) (s s' : List Char)
    (h : (splitWs s).mapM (normToken oracle) = (splitWs s').mapM (normToken oracle)) :
    bip39Sentence oracle s = bip39Sentence oracle s' := by
  unfold bip39Sentence
  rw [h]

/-! #### whitespace -/

/-- space, tab, newline, carriage return are whitespace for `str.split()` -/
theorem isSpace_ascii :
    splitWs.isSpace ' ' = true ∧ splitWs.isSpace '\t' = true ∧ splitWs.isSpace '\n' = true ∧
      splitWs.isSpace '\r' = true := by decide

/-- a run of ASCII blanks -/
def AsciiBlank (b : List Char) : Prop := ∀ c ∈ b, c = ' ' ∨ c = '\t' ∨ c = '\n' ∨ c = '\r'

theorem blank_of_asciiBlank {b : List Char} (h : AsciiBlank b) : Blank b := by
  intro c hc
  rcases h c hc with rfl | rfl | rfl | rfl
  · exact isSpace_ascii.1
  · exact isSpace_ascii.2.1
  · exact isSpace_ascii.2.2.1
  · exact isSpace_ascii.2.2.2

/-- leading spaces are ignored -/
theorem splitWs_leading_spaces (k : Nat) (s : List Char) :
    splitWs (List.replicate k ' ' ++ s) = splitWs s :=
  splitWs_blank_append (blank_replicate isSpace_ascii.1 k) s

/-- trailing spaces are ignored -/
theorem splitWs_trailing_spaces (k : Nat) (s : List Char) :
    splitWs (s ++ List.replicate k ' ') = splitWs s :=
  splitWs_append_blank (blank_replicate isSpace_ascii.1 k) s

/-- leading / trailing whitespace of any kind is ignored -/
theorem splitWs_strip (b b' s : List Char) (hb : Blank b) (hb' : Blank b') :
    splitWs (b ++ s ++ b') = splitWs s := by
  rw [splitWs_append_blank hb', splitWs_blank_append hb]

/-- one space between two parts is as good as `k+1` spaces -/
theorem splitWs_inner_spaces (k : Nat) (s s' : List Char) :
    splitWs (s ++ List.replicate (k + 1) ' ' ++ s') = splitWs (s ++ [' '] ++ s') :=
  splitWs_blank_run (b := [' ']) (b' := List.replicate k ' ')
    (blank_replicate isSpace_ascii.1 1) (by simp) (blank_replicate isSpace_ascii.1 k) s s'

/-- any non-empty whitespace run between two parts is as good as a single space -/
theorem splitWs_inner_blank {b : List Char} (hb : Blank b) (hne : b ≠ []) (s s' : List Char) :
    splitWs (s ++ b ++ s') = splitWs (s ++ [' '] ++ s') := by
  have h1 : Blank [' '] := blank_replicate isSpace_ascii.1 1
  unfold splitWs
  rw [List.append_assoc, List.append_assoc s [' '] s']
  apply go_congr_suffix s
  intro cur acc
  rw [go_blank hb hne, go_blank h1 (by simp)]

/-- **Structured statement**: optional leading blanks, a first word, (non-empty blank run, word)
pairs, optional trailing blanks — the tokens are exactly the words, whatever the blank runs are. -/
theorem splitWs_words (lead w0 : List Char) (items : List (List Char × List Char))
    (trail : List Char) (hl : Blank lead) (hw0 : BlankFree w0) (hne : w0 ≠ [])
    (hi : GoodItems items) (ht : Blank trail) :
    splitWs (lead ++ w0 ++ render items ++ trail) = w0 :: items.map (·.2) :=
  splitWs_sentence lead w0 items trail hl hw0 hne hi ht

/-- two renderings of the same words with arbitrary (legal) blank runs have the same tokens, hence
the same normalised sentence and the same seed -/
theorem seed_whitespace_irrelevant (oracle : List (List Char × List Char)) (salt : Bytes)
    (lead lead' w0 trail trail' : List Char) (items items' : List (List Char × List Char))
    (hl : Blank lead) (hl' : Blank lead') (hw0 : BlankFree w0) (hne : w0 ≠ [])
    (hi : GoodItems items) (hi' : GoodItems items') (ht : Blank trail) (ht' : Blank trail')
    (hsame : items.map (·.2) = items'.map (·.2)) :
    bip39SeedOfString H langs lang oracle (lead ++ w0 ++ render items ++ trail) salt
      = bip39SeedOfString H langs lang oracle (lead' ++ w0 ++ render items' ++ trail') salt := by
  apply seed_congr_sentence
  apply sentence_congr_tokens
  rw [splitWs_sentence lead w0 items trail hl hw0 hne hi ht,
    splitWs_sentence lead' w0 items' trail' hl' hw0 hne hi' ht', hsame]

/-! #### letter case -/

/-- ASCII tokens are normalised natively, by lower-casing -/
theorem normToken_ascii_eq (oracle : List (List Char × List Char)) (w : List Char)
    (h : ∀ c ∈ w, c.toNat < 128) : normToken oracle w = .ok (w.map asciiLower) :=
  normToken_ascii oracle h

/-- upper-casing an ASCII token does not change its normalisation (no oracle involved) -/
theorem normToken_upper (oracle : List (List Char × List Char)) (w : List Char)
    (h : ∀ c ∈ w, c.toNat < 128) : normToken oracle (w.map Char.toUpper) = normToken oracle w := by
  rw [normToken_ascii oracle h, normToken_ascii oracle]
  · rw [List.map_map]
    congr 1
    apply List.map_congr_left
    intro c hc
    exact (ascii_case (h c hc)).1
  · intro c hc
    obtain ⟨d, hd, rfl⟩ := List.mem_map.1 hc
    exact (ascii_case (h d hd)).2.2.1

/-- lower-casing neither -/
theorem normToken_lower (oracle : List (List Char × List Char)) (w : List Char)
    (h : ∀ c ∈ w, c.toNat < 128) : normToken oracle (w.map Char.toLower) = normToken oracle w := by
  rw [normToken_ascii oracle h, normToken_ascii oracle]
  · rw [List.map_map]
    congr 1
    apply List.map_congr_left
    intro c hc
    exact (ascii_case (h c hc)).2.1
  · intro c hc
    obtain ⟨d, hd, rfl⟩ := List.mem_map.1 hc
    exact (ascii_case (h d hd)).2.2.2

/-- any per-character mixture of cases: if two ASCII tokens agree after lower-casing they normalise
identically -/
theorem normToken_case_insensitive (oracle : List (List Char × List Char)) (w w' : List Char)
    (h : ∀ c ∈ w, c.toNat < 128) (h' : ∀ c ∈ w', c.toNat < 128)
    (heq : w.map Char.toLower = w'.map Char.toLower) : normToken oracle w = normToken oracle w' := by
  rw [← normToken_lower oracle w h, ← normToken_lower oracle w' h', heq]


/-- **Letter case of an ASCII sentence is irrelevant**: the normalised sentence of the upper-cased
string is that of the string -/
theorem sentence_upper (oracle : List (List Char × List Char)) (s : List Char)
    (h : ∀ c ∈ s, c.toNat < 128) :
    bip39Sentence oracle (s.map Char.toUpper) = bip39Sentence oracle s := by
  apply sentence_congr_norm
  rw [splitWs_map Char.toUpper s (fun c hc => (ascii_space (h c hc)).1)]
  apply mapM_map_congr
  intro t ht
  exact normToken_upper oracle t (splitWs_forall (fun c => c.toNat < 128) s h t ht)

theorem sentence_lower (oracle : List (List Char × List Char)) (s : List Char)
    (h : ∀ c ∈ s, c.toNat < 128) :
    bip39Sentence oracle (s.map Char.toLower) = bip39Sentence oracle s := by
  apply sentence_congr_norm
  rw [splitWs_map Char.toLower s (fun c hc => (ascii_space (h c hc)).2)]
  apply mapM_map_congr
  intro t ht
  exact normToken_lower oracle t (splitWs_forall (fun c => c.toNat < 128) s h t ht)

/-- two ASCII strings that differ only in letter case give the identical seed -/
theorem seed_case_irrelevant (oracle : List (List Char × List Char)) (salt : Bytes)
    (s s' : List Char) (h : ∀ c ∈ s, c.toNat < 128) (h' : ∀ c ∈ s', c.toNat < 128)
    (heq : s.map Char.toLower = s'.map Char.toLower) :
    bip39SeedOfString H langs lang oracle s salt = bip39SeedOfString H langs lang oracle s' salt := by
  apply seed_congr_sentence
  rw [← sentence_lower oracle s h, ← sentence_lower oracle s' h', heq]

/-! ### Substrate (password = entropy) -/

theorem substrate_seed_eq_kdf_definition (ws : List Nat) (salt ent : Bytes)
    (h : bip39Decode H langs lang ws = .ok ent) :
    substrateSeed H langs lang ws salt = .ok (pbkdf2HmacSha512 ent salt 2048 64) := by
  unfold substrateSeed
  rw [h]; rfl

theorem substrate_invalid_no_seed (ws : List Nat) (salt : Bytes) (e : Err)
    (h : bip39Decode H langs lang ws = .error e) :
    substrateSeed H langs lang ws salt = .error e := by
  unfold substrateSeed
  rw [h]; rfl

theorem substrate_seed_ok_iff (ws : List Nat) (salt s : Bytes) :
    substrateSeed H langs lang ws salt = .ok s ↔
      ∃ ent, bip39Decode H langs lang ws = .ok ent ∧ s = pbkdf2HmacSha512 ent salt 2048 64 := by
  cases hd : bip39Decode H langs lang ws with
  | ok e =>
    rw [substrate_seed_eq_kdf_definition H langs lang ws salt e hd]
    constructor
    · intro h; cases h; exact ⟨e, rfl, rfl⟩
    · rintro ⟨e', he', rfl⟩; cases he'; rfl
  | error e =>
    rw [substrate_invalid_no_seed H langs lang ws salt e hd]
    constructor
    · intro h; cases h
    · rintro ⟨e', he', _⟩; cases he'

theorem substrate_seed_length (ws : List Nat) (salt s : Bytes)
    (h : substrateSeed H langs lang ws salt = .ok s) : s.length = 64 := by
  obtain ⟨ent, _, rfl⟩ := (substrate_seed_ok_iff H langs lang ws salt s).1 h
  exact pbkdf2HmacSha512_length _ _ _ _

/-! ### Electrum v2 -/

/-- the checks `ElectrumV2SeedGenerator` performs before deriving -/
def V2Accepts (valid : List Nat → Bool) (ws : List Nat) : Prop :=
  (ws.length = 12 ∨ ws.length = 24) ∧ valid ws = true

theorem electrumV2_seed_eq_kdf_definition (valid : List Nat → Bool) (ws : List Nat)
    (salt e : Bytes) (hv : V2Accepts valid ws) (h : electrumV2DecodeIdx langs lang ws = .ok e) :
    electrumV2Seed valid langs lang ws salt
      = .ok (pbkdf2HmacSha512 (sentenceBytes ws) salt 2048 64) := by
  obtain ⟨hl, hv⟩ := hv
  have hl' : (decide (ws.length = 12) || decide (ws.length = 24)) = true := by
    rcases hl with hl | hl <;> simp [hl]
  unfold electrumV2Seed
  simp only [hl', hv, Bool.not_true, Bool.false_eq_true, if_false, h]
  rfl

/-- wrong word count or failed version check: refused with `ValueError` -/
theorem electrumV2_rejected_no_seed (valid : List Nat → Bool) (ws : List Nat) (salt : Bytes)
    (hv : ¬ V2Accepts valid ws) : electrumV2Seed valid langs lang ws salt = .error .value := by
  unfold electrumV2Seed
  by_cases hl : (decide (ws.length = 12) || decide (ws.length = 24)) = true
  · have hv' : valid ws = false := by
      cases hvv : valid ws with
      | false => rfl
      | true =>
        exfalso; apply hv
        refine ⟨?_, hvv⟩
        simpa using hl
    simp only [hl, hv', Bool.not_true, Bool.not_false, Bool.false_eq_true, if_false, if_true]
    rfl
  · have hl' : (decide (ws.length = 12) || decide (ws.length = 24)) = false := by
      simpa using hl
    simp only [hl', Bool.not_false, if_true]
    rfl

/-- a sentence the word decoder refuses never yields a seed; once the pre-checks pass the error is
the decoder's -/
theorem electrumV2_invalid_no_seed (valid : List Nat → Bool) (ws : List Nat) (salt : Bytes)
    (e : Err) (hv : V2Accepts valid ws) (h : electrumV2DecodeIdx langs lang ws = .error e) :
    electrumV2Seed valid langs lang ws salt = .error e := by
  obtain ⟨hl, hv⟩ := hv
  have hl' : (decide (ws.length = 12) || decide (ws.length = 24)) = true := by
    rcases hl with hl | hl <;> simp [hl]
  unfold electrumV2Seed
  simp only [hl', hv, Bool.not_true, Bool.false_eq_true, if_false, h]
  rfl

theorem electrumV2_seed_ok_iff (valid : List Nat → Bool) (ws : List Nat) (salt s : Bytes) :
    electrumV2Seed valid langs lang ws salt = .ok s ↔
      V2Accepts valid ws ∧ (∃ e, electrumV2DecodeIdx langs lang ws = .ok e) ∧
        s = pbkdf2HmacSha512 (sentenceBytes ws) salt 2048 64 := by
  by_cases hv : V2Accepts valid ws
  · cases hd : electrumV2DecodeIdx langs lang ws with
    | ok e =>
      rw [electrumV2_seed_eq_kdf_definition langs lang valid ws salt e hv hd]
      constructor
      · intro h; cases h; exact ⟨hv, ⟨e, rfl⟩, rfl⟩
      · rintro ⟨_, _, rfl⟩; rfl
    | error e =>
      rw [electrumV2_invalid_no_seed langs lang valid ws salt e hv hd]
      constructor
      · intro h; cases h
      · rintro ⟨_, ⟨e', he'⟩, _⟩; cases he'
  · rw [electrumV2_rejected_no_seed langs lang valid ws salt hv]
    constructor
    · intro h; cases h
    · rintro ⟨hv', _⟩; exact absurd hv' hv

/-- whatever goes wrong (count, version check, unknown word / language): no seed -/
theorem electrumV2_no_seed_of_decode_error (valid : List Nat → Bool) (ws : List Nat) (salt : Bytes)
    (e : Err) (h : electrumV2DecodeIdx langs lang ws = .error e) :
    ∃ e', electrumV2Seed valid langs lang ws salt = .error e' := by
  by_cases hv : V2Accepts valid ws
  · exact ⟨e, electrumV2_invalid_no_seed langs lang valid ws salt e hv h⟩
  · exact ⟨.value, electrumV2_rejected_no_seed langs lang valid ws salt hv⟩

theorem electrumV2_seed_length (valid : List Nat → Bool) (ws : List Nat) (salt s : Bytes)
    (h : electrumV2Seed valid langs lang ws salt = .ok s) : s.length = 64 := by
  rw [((electrumV2_seed_ok_iff langs lang valid ws salt s).1 h).2.2]
  exact pbkdf2HmacSha512_length _ _ _ _

/-! ### Electrum v1 -/

/-- the iterated hash of the old Electrum seed stretching -/
def v1Stretch (ent : Bytes) : Bytes :=
  let hexb : Bytes := (Bytes.toHex ent).toUTF8.toList
  (List.range 100000).foldl (fun h _ => sha256 (h ++ hexb)) hexb

theorem electrumV1_seed_eq_definition (wl ws : List Nat) (ent : Bytes)
    (h : electrumV1Decode wl ws = .ok ent) : electrumV1Seed wl ws = .ok (v1Stretch ent) := by
  unfold electrumV1Seed
  rw [h]; rfl

theorem electrumV1_invalid_no_seed (wl ws : List Nat) (e : Err)
    (h : electrumV1Decode wl ws = .error e) : electrumV1Seed wl ws = .error e := by
  unfold electrumV1Seed
  rw [h]; rfl

theorem electrumV1_seed_ok_iff (wl ws : List Nat) (s : Bytes) :
    electrumV1Seed wl ws = .ok s ↔ ∃ ent, electrumV1Decode wl ws = .ok ent ∧ s = v1Stretch ent := by
  cases hd : electrumV1Decode wl ws with
  | ok e =>
    rw [electrumV1_seed_eq_definition wl ws e hd]
    constructor
    · intro h; exact ⟨e, rfl, (Except.ok.inj h).symm⟩
    · rintro ⟨e', he', hs⟩; rw [hs]; cases he'; rfl
  | error e =>
    rw [electrumV1_invalid_no_seed wl ws e hd]
    constructor
    · intro h; cases h
    · rintro ⟨e', he', _⟩; cases he'

/-- at least one round: the result is a SHA-256 digest -/
theorem iter_sha256_length (x h0 : Bytes) (n : Nat) (hn : 1 ≤ n) :
    ((List.range n).foldl (fun h _ => sha256 (h ++ x)) h0).length = 32 := by
  obtain ⟨k, rfl⟩ : ∃ k, n = k + 1 := ⟨n - 1, by omega⟩
  rw [List.range_succ, List.foldl_append]
  exact sha256_length _

theorem v1Stretch_length (ent : Bytes) : (v1Stretch ent).length = 32 := by
  unfold v1Stretch
  exact iter_sha256_length _ _ _ (by omega)

theorem electrumV1Seed_length (wl ws : List Nat) (s : Bytes)
    (h : electrumV1Seed wl ws = .ok s) : s.length = 32 := by
  obtain ⟨ent, _, hs⟩ := (electrumV1_seed_ok_iff wl ws s).1 h
  rw [hs]
  exact v1Stretch_length ent

end BipVerif.Props.C02
