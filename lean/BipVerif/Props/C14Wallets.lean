/-
C14 for wallets, BIP-38 and Substrate: the error-kind theorems of C13/C16/C19/C20 restated as
"the failure is inside the documented family" (`Err.documented`).  Two models have a fuel-bounded
search (Kholaw / Byron-legacy master key); for those the statement is the honest disjunction.
-/
import BipVerif.Props.C13
import BipVerif.Props.C16
import BipVerif.Props.C18
import BipVerif.Props.C19
import BipVerif.Props.C20

namespace BipVerif.Props.C14Wallets
open BipVerif BipVerif.Model

private theorem doc_of_key_or_value {e : Err} (h : e = .key ∨ e = .value) : e.documented = true := by
  rcases h with h | h <;> subst h <;> rfl

private theorem doc_of_value_or_checksum {e : Err} (h : e = .value ∨ e = .checksum) : e.documented = true := by
  rcases h with h | h <;> subst h <;> rfl

/-! ### Monero -/

theorem monero_from_spend_key {k : Bytes} {e : Err} (h : xmrFromSpend k = .error e) : e.documented = true :=
  doc_of_key_or_value (C16.fromSpend_errors h)

theorem monero_from_seed {seed : Bytes} {e : Err} (h : xmrFromSeed seed = .error e) : e.documented = true :=
  doc_of_key_or_value (C16.fromSeed_errors h)

theorem monero_watch_only {v p : Bytes} {e : Err} (h : xmrWatchOnly v p = .error e) : e.documented = true :=
  doc_of_key_or_value (C16.watchOnly_errors h)

theorem monero_subaddress {w : XmrWallet} {minor major : Nat} {e : Err}
    (h : xmrSubaddrKeys w minor major = .error e) : e.documented = true := by
  have := C16.subaddrKeys_errors h; subst this; rfl

theorem monero_address {netVer : Bytes} {payId : Option Bytes} {spend view : Bytes} {e : Err}
    (h : xmrAddrEncode netVer payId spend view = .error e) : e.documented = true := by
  have := C16.addrEncode_errors h; subst this; rfl

/-! ### Substrate -/

theorem substrate_parse_path (s : List Char) (e : Err) (h : subParsePath s = .error e) : e.documented = true := by
  have := C19.parse_error_kind s e h; subst this; rfl

theorem substrate_chain_code (el : SubElem) (e : Err) (h : subChainCode el = .error e) : e.documented = true := by
  rcases C19.chainCode_error_kinds el e h with ⟨h1, _⟩ | ⟨h1, _⟩ <;> subst h1 <;> rfl

/-! ### Electrum, SPL -/

theorem electrum_v1_key {w : Ev1} {change addr : Nat} {e : Err}
    (h : ev1PrivateKey w change addr = .error e) : e.documented = true := by
  have := C20.electrumV1_errors h; subst this; rfl

theorem spl_find_pda {seeds : List Bytes} {p : Bytes} {e : Err}
    (h : findPdaLoop seeds p 255 255 = .error e) : e.documented = true := by
  have := C20.findPdaLoop_errors h; subst this; rfl

/-! ### BIP-38 -/

theorem bip38_encrypt_no_ec {priv pass : Bytes} {c : Bool} {e : Err}
    (h : bip38NoEcEncrypt priv pass c = .error e) : e.documented = true := by
  have := C13.noec_encrypt_errors h; subst this; rfl

theorem bip38_decrypt_no_ec {s : List Char} {pass : Bytes} {e : Err}
    (h : bip38NoEcDecrypt s pass = .error e) : e.documented = true :=
  doc_of_value_or_checksum (C13.noec_decrypt_errors h)

theorem bip38_decrypt_ec {s : List Char} {pass : Bytes} {e : Err}
    (h : bip38EcDecrypt s pass = .error e) : e.documented = true :=
  doc_of_value_or_checksum (C13.ec_decrypt_errors h)

/-! ### Cardano master keys (fuel-bounded searches: partial) -/

theorem cardano_kholaw_master_partial (seed : Bytes) (e : Err) (h : kholawMasterKey seed = .error e) :
    e.documented = true ∨ e = .fuel := by
  rcases C18.master_error_kinds_kholaw seed e h with ⟨h1, _⟩ | ⟨h1, _⟩
  · left; subst h1; rfl
  · right; exact h1

theorem cardano_byron_legacy_master_partial (seed : Bytes) (e : Err) (h : byronLegacyMasterKey seed = .error e) :
    e.documented = true ∨ e = .fuel := by
  rcases C18.master_error_kinds_byron_legacy seed e h with ⟨h1, _⟩ | ⟨h1, _⟩
  · left; subst h1; rfl
  · right; exact h1

end BipVerif.Props.C14Wallets
