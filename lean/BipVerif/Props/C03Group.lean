/-
C03 — "every key handed out is valid for its curve", public half, without a key-layer hypothesis:
the public key stored in a privately derived SLIP-0010 child on secp256k1 / P-256 is a point the
public-key class accepts unchanged, it is never the point at infinity, and as a group element it is
`((IL + k_par) mod n)·G = IL·G + K_par` (`Props/C12Group.lean`).
-/
import BipVerif.Props.C03
import BipVerif.Props.C04Group

namespace BipVerif.Props.C03Group
open BipVerif BipVerif.Prim BipVerif.Model

/-- the public key of every private child re-validates to itself -/
theorem child_pub_valid (nd : Node) (idx : Nat) (c : Node) (hp : nd.priv.isSome = true)
    (hc : c.curve.isEcdsa = true) (h : slip10ChildKey nd idx = .ok c) :
    pubFromBytes c.curve c.pub = some c.pub := by
  obtain ⟨k, _, hv, hpub⟩ := C03.child_sound nd idx c hp h
  exact (C04Group.ecdsaLaw_of_isEcdsa _ hc).1.pub_canon k c.pub hv hpub

/-- a valid private key always has a public key (both ECDSA curves): `k·G ≠ ∞` for `0 < k < n` -/
theorem pub_exists (ct : CurveT) (hc : ct.isEcdsa = true) (k : Bytes) (hv : privValid ct k = true) :
    ∃ P, pubOfPriv ct k = some P := by
  cases ct <;> simp [CurveT.isEcdsa] at hc
  · exact C12Group.secp256k1_pub_exists k hv
  · have h := (EccLemmas.priv_valid_iff_nist256p1 k).mp hv
    cases hp : pubOfPriv .nist256p1 k with
    | some P => exact ⟨P, rfl⟩
    | none =>
      exfalso
      have h1 : nist256p1.compress (nist256p1.mulG (Bytes.toNatBE k)) = none := hp
      rw [WGroup.compress_eq_none_iff, C12Group.nist256p1_mulG_inf_iff] at h1
      exact absurd (Nat.le_of_dvd h.2.1 h1) (Nat.not_le.mpr h.2.2)

end BipVerif.Props.C03Group
