/-
C10 (codecs) — error detection of the Bech32 / Bech32m / CashAddr checksums.

BIP-173: "any error affecting at most 4 characters is detected" (strings of at most 90 characters,
hence at most 88 data symbols).  Proved here, on the model's own `bech32Verify` / `bchVerify` (the
functions `_VerifyChecksum` is modelled by), for either Bech32 constant (`m = false`: Bech32,
`m = true`: Bech32m) and ANY HRP, for SUBSTITUTIONS IN THE DATA PART:

  * Bech32(m): 1 wrong symbol — every length;          2 wrong symbols — data part ≤ 1023 symbols;
               3 wrong symbols — data part ≤ 256;       4 wrong symbols — data part ≤ 89
               (`detects_up_to_four`: the BIP-173 guarantee; `min_distance_five`);
  * CashAddr:  1 wrong symbol — every length;  2 wrong symbols — data part ≤ 1025 symbols;
               3 wrong symbols — data part ≤ 113 (the longest CashAddr has 112).

"Data part" is everything after the separator: payload symbols AND checksum symbols, as 5-bit
values; `hamming d d'` counts the positions where the two equal-length data parts differ.

NOT covered: errors in the HRP, insertions / deletions (length changes), upper/lower-case errors, a
change of the checksum constant (Bech32 ↔ Bech32m), 3 wrong symbols beyond 256 (113) data symbols,
4 wrong symbols beyond 89 data symbols or for CashAddr, and the probabilistic statement about more
than 4 errors.  Property theorems only; the proofs live in `BipVerif/Lemmas/BechDistance.lean`
(reduction, 1–2 errors) and `BipVerif/Lemmas/BechDistanceVec.lean` (3–4 errors).
-/
import BipVerif.Lemmas.BechDistanceVec


namespace BipVerif.Props.C10Distance
open BipVerif BipVerif.Model

/-! ### Bech32 / Bech32m -/

/-- a valid string with exactly one substituted data symbol is rejected (any length). -/
theorem detects_one (hrp : List Char) (d d' : List Nat) (m : Bool) :
    bech32Verify hrp d m = true → d'.length = d.length → (∀ x ∈ d, x < 32) → (∀ x ∈ d', x < 32) →
    hamming d d' = 1 → bech32Verify hrp d' m = false :=
  fun hv hl hd hd' hh => bech32_detects_one hrp d d' m hv hl hd hd' hh

/-- a valid string with exactly two substituted data symbols is rejected (data part ≤ 1023). -/
theorem detects_two (hrp : List Char) (d d' : List Nat) (m : Bool) :
    bech32Verify hrp d m = true → d'.length = d.length → d.length ≤ 1023 →
    (∀ x ∈ d, x < 32) → (∀ x ∈ d', x < 32) →
    hamming d d' = 2 → bech32Verify hrp d' m = false :=
  fun hv hl hL hd hd' hh => bech32_detects_two hrp d d' m hv hl hL hd hd' hh

/-- a valid string with exactly three substituted data symbols is rejected (data part ≤ 256). -/
theorem detects_three (hrp : List Char) (d d' : List Nat) (m : Bool) :
    bech32Verify hrp d m = true → d'.length = d.length → d.length ≤ 256 →
    (∀ x ∈ d, x < 32) → (∀ x ∈ d', x < 32) →
    hamming d d' = 3 → bech32Verify hrp d' m = false :=
  fun hv hl hL hd hd' hh => bech32_detects_three hrp d d' m hv hl hL hd hd' hh

/-- a valid string with exactly four substituted data symbols is rejected (data part ≤ 89). -/
theorem detects_four (hrp : List Char) (d d' : List Nat) (m : Bool) :
    bech32Verify hrp d m = true → d'.length = d.length → d.length ≤ 89 →
    (∀ x ∈ d, x < 32) → (∀ x ∈ d', x < 32) →
    hamming d d' = 4 → bech32Verify hrp d' m = false :=
  fun hv hl hL hd hd' hh => bech32_detects_four hrp d d' m hv hl hL hd hd' hh

/-- **the BIP-173 guarantee** (substitutions in the data part): between 1 and 4 wrong symbols in a
data part of at most 89 symbols are always detected. -/
theorem detects_up_to_four (hrp : List Char) (d d' : List Nat) (m : Bool)
    (hv : bech32Verify hrp d m = true) (hl : d'.length = d.length) (hL : d.length ≤ 89)
    (hd : ∀ x ∈ d, x < 32) (hd' : ∀ x ∈ d', x < 32)
    (h1 : 1 ≤ hamming d d') (h4 : hamming d d' ≤ 4) : bech32Verify hrp d' m = false := by
  have h : hamming d d' = 1 ∨ hamming d d' = 2 ∨ hamming d d' = 3 ∨ hamming d d' = 4 := by omega
  rcases h with h | h | h | h
  · exact detects_one hrp d d' m hv hl hd hd' h
  · exact detects_two hrp d d' m hv hl (by omega) hd hd' h
  · exact detects_three hrp d d' m hv hl (by omega) hd hd' h
  · exact detects_four hrp d d' m hv hl hL hd hd' h

/-- contrapositive reading: two valid equal-length data parts (≤ 89 symbols) under the same HRP and
constant that differ at all differ in at least 5 positions. -/
theorem min_distance_five (hrp : List Char) (d d' : List Nat) (m : Bool)
    (hv : bech32Verify hrp d m = true) (hv' : bech32Verify hrp d' m = true)
    (hl : d'.length = d.length) (hL : d.length ≤ 89)
    (hd : ∀ x ∈ d, x < 32) (hd' : ∀ x ∈ d', x < 32) (hne : hamming d d' ≠ 0) :
    5 ≤ hamming d d' := by
  by_contra hlt
  have := detects_up_to_four hrp d d' m hv hl hL hd hd' (by omega) (by omega)
  rw [hv'] at this
  exact absurd this (by simp)

/-- `hamming` is zero only for equal strings (so `hamming d d' ≠ 0` above just says `d ≠ d'`). -/
theorem hamming_eq_zero : ∀ d d' : List Nat, d'.length = d.length → hamming d d' = 0 → d = d' := by
  intro d
  induction d with
  | nil => intro d' hl _; exact (List.eq_nil_of_length_eq_zero hl).symm
  | cons x d ih =>
    intro d' hl h
    cases d' with
    | nil => simp at hl
    | cons y d' =>
      simp only [hamming] at h
      by_cases hxy : x = y
      · subst hxy
        rw [ih d' (by simpa using hl) (by simpa using h)]
      · simp [hxy] at h

/-! #### the hypotheses are satisfiable -/

/-- BIP-173 vector `a12uel5l` (Bech32): `2uel5l` ↦ `[10,28,25,31,20,31]`; one symbol changed. -/
example : bech32Verify ['a'] [10, 28, 25, 31, 20, 31] false = true
    ∧ hamming [10, 28, 25, 31, 20, 31] [10, 28, 25, 30, 20, 31] = 1 := by decide +kernel

example : bech32Verify ['a'] [10, 28, 25, 30, 20, 31] false = false :=
  detects_one ['a'] [10, 28, 25, 31, 20, 31] _ false (by decide +kernel) rfl (by decide) (by decide)
    (by decide)

/-- BIP-350 vector `a1lqfn3a` (Bech32m): `lqfn3a` ↦ `[31,0,9,19,17,29]`; two symbols changed. -/
example : bech32Verify ['a'] [31, 0, 9, 19, 17, 29] true = true
    ∧ hamming [31, 0, 9, 19, 17, 29] [3, 0, 9, 19, 17, 28] = 2 := by decide +kernel

example : bech32Verify ['a'] [3, 0, 9, 19, 17, 28] true = false :=
  detects_two ['a'] [31, 0, 9, 19, 17, 29] _ true (by decide +kernel) rfl (by decide) (by decide)
    (by decide) (by decide)

/-- BIP-173 P2WPKH vector `bc1qw508d6qejxtdg4y5r3zarvary0c5xw7kv8f3t4`; three symbols changed
(witness version, one program symbol, one checksum symbol). -/
def p2wpkh : List Nat :=
  [0, 14, 20, 15, 7, 13, 26, 0, 25, 18, 6, 11, 13, 8, 21, 4, 20, 3, 17, 2, 29, 3, 12, 29, 3, 4, 15,
    24, 20, 6, 14, 30, 22, 12, 7, 9, 17, 11, 21]
def p2wpkh' : List Nat :=
  [1, 14, 20, 15, 7, 13, 26, 0, 25, 18, 6, 11, 13, 8, 21, 4, 20, 3, 17, 2, 29, 3, 12, 29, 3, 5, 15,
    24, 20, 6, 14, 30, 22, 12, 7, 9, 17, 11, 22]

example : bech32Verify ['b', 'c'] p2wpkh false = true ∧ hamming p2wpkh p2wpkh' = 3 := by
  decide +kernel

example : bech32Verify ['b', 'c'] p2wpkh' false = false :=
  detects_three ['b', 'c'] p2wpkh p2wpkh' false (by decide +kernel) rfl (by decide) (by decide)
    (by decide) (by decide +kernel)

/-- the same vector with four symbols changed. -/
def p2wpkh4 : List Nat :=
  [1, 14, 20, 15, 7, 13, 26, 0, 25, 18, 6, 11, 13, 8, 21, 4, 20, 3, 17, 2, 29, 3, 12, 29, 3, 5, 15,
    24, 20, 6, 14, 30, 22, 12, 7, 9, 0, 11, 22]

example : bech32Verify ['b', 'c'] p2wpkh false = true ∧ hamming p2wpkh p2wpkh4 = 4 := by
  decide +kernel

example : bech32Verify ['b', 'c'] p2wpkh4 false = false :=
  detects_four ['b', 'c'] p2wpkh p2wpkh4 false (by decide +kernel) rfl (by decide) (by decide)
    (by decide) (by decide +kernel)

/-! ### CashAddr -/

/-- a valid CashAddr string with exactly one substituted data symbol is rejected (any length). -/
theorem cashaddr_detects_one (hrp : List Char) (d d' : List Nat) :
    bchVerify hrp d = true → d'.length = d.length → (∀ x ∈ d, x < 32) → (∀ x ∈ d', x < 32) →
    hamming d d' = 1 → bchVerify hrp d' = false :=
  fun hv hl hd hd' hh => bch_detects_one hrp d d' hv hl hd hd' hh

/-- a valid CashAddr string with exactly two substituted data symbols is rejected (≤ 1025). -/
theorem cashaddr_detects_two (hrp : List Char) (d d' : List Nat) :
    bchVerify hrp d = true → d'.length = d.length → d.length ≤ 1025 →
    (∀ x ∈ d, x < 32) → (∀ x ∈ d', x < 32) →
    hamming d d' = 2 → bchVerify hrp d' = false :=
  fun hv hl hL hd hd' hh => bch_detects_two hrp d d' hv hl hL hd hd' hh

/-- a valid CashAddr string with exactly three substituted data symbols is rejected (≤ 113). -/
theorem cashaddr_detects_three (hrp : List Char) (d d' : List Nat) :
    bchVerify hrp d = true → d'.length = d.length → d.length ≤ 113 →
    (∀ x ∈ d, x < 32) → (∀ x ∈ d', x < 32) →
    hamming d d' = 3 → bchVerify hrp d' = false :=
  fun hv hl hL hd hd' hh => bch_detects_three hrp d d' hv hl hL hd hd' hh

/-- CashAddr specification vector `bitcoincash:qpm2qsznhks23z7629mms6s4cwef74vcwvy22gdx6a`;
two symbols changed. -/
def cashVec : List Nat :=
  [0, 1, 27, 10, 0, 16, 2, 19, 23, 22, 16, 10, 17, 2, 30, 26, 10, 5, 27, 27, 16, 26, 16, 21, 24, 14,
    25, 9, 30, 21, 12, 24, 14, 12, 4, 10, 10, 8, 13, 6, 26, 29]
def cashVec' : List Nat :=
  [0, 1, 27, 10, 0, 16, 2, 19, 23, 22, 16, 10, 17, 2, 30, 26, 10, 5, 27, 27, 16, 26, 16, 21, 24, 14,
    25, 9, 30, 21, 12, 24, 14, 12, 4, 11, 10, 8, 13, 6, 26, 0]

example : bchVerify "bitcoincash".toList cashVec = true ∧ hamming cashVec cashVec' = 2 := by
  decide +kernel

example : bchVerify "bitcoincash".toList cashVec' = false :=
  cashaddr_detects_two _ cashVec cashVec' (by decide +kernel) rfl (by decide) (by decide)
    (by decide) (by decide +kernel)

end BipVerif.Props.C10Distance
