/-
C10 (addresses) — the address decoders are *sound*: an accepted address is exactly (for Bech32:
after the decoder's own lower-casing) the text the encoder side produces for the returned payload,
and the payload has the format's length.  Hence no payload has two accepted spellings in these
formats, and nothing accepted is truncated, re-padded or re-prefixed.
Property theorems only; proofs in `BipVerif/Lemmas/AddrSound.lean`.

Four decoder leniencies of the *code* were found while proving these statements (the models
followed the code, so the first versions of the theorems below had to be stated in a weakened form
and the gap was exhibited by a witness theorem); each was reproduced against /repo, repaired there,
and the models and theorems now state the strict property:
* Nano: the three pad bytes in front of the key were dropped unchecked (16 accepted spellings per
  key: `nano_1pu7p5n3…` and `nano_4pu7p5n3…` decoded to the same key) — now `nano_decode_sound`;
* Nimiq: the decoded hash length was not checked (`NQ51000G40Q40L30E209185GQ38E1U8124G=` decoded
  to 19 bytes) — now `nim_decode_sound`;
* P2WPKH: a 32-byte version-0 program (a P2WSH address) was accepted — now `p2wpkh_decode_sound`
  has `h.length = 20`;
* Monero: a decoder called with a payment id accepted a standard address and ignored the id — now
  `xmr_decode_sound` ties the payload shape to `payId`.
-/
import BipVerif.Lemmas.AddrSound

namespace BipVerif.Props.C10Addr
open BipVerif BipVerif.Model BipVerif.Prim

/-! ### Base58Check family -/

theorem p2pkh_decode_sound (netVer : Bytes) (alph : List Char) (hn : alph.Nodup)
    (hl : alph.length = 58) (addr : List Char) (h : Bytes)
    (hd : p2pkhDecode netVer alph addr = .ok h) :
    addr = b58CheckEncode sha256d alph (netVer ++ h) ∧ h.length = 20 :=
  p2pkhDecode_sound hn hl hd

/-- P2SH and Ripple are instances (Bitcoin / Ripple alphabet) -/
theorem p2sh_decode_sound (netVer : Bytes) (addr : List Char) (h : Bytes)
    (hd : p2pkhDecode netVer btcAlphabet addr = .ok h) :
    addr = b58CheckEncode sha256d btcAlphabet (netVer ++ h) ∧ h.length = 20 :=
  p2pkhDecode_sound btcAlphabet_nodup btcAlphabet_length hd

theorem xrp_decode_sound (netVer : Bytes) (addr : List Char) (h : Bytes)
    (hd : p2pkhDecode netVer xrpAlphabet addr = .ok h) :
    addr = b58CheckEncode sha256d xrpAlphabet (netVer ++ h) ∧ h.length = 20 :=
  p2pkhDecode_sound xrpAlphabet_nodup xrpAlphabet_length hd

theorem xtz_decode_sound (pfx : Bytes) (addr : List Char) (h : Bytes)
    (hd : xtzDecode pfx addr = .ok h) :
    addr = b58CheckEncode sha256d btcAlphabet (pfx ++ h) ∧ h.length = 20 :=
  xtzDecode_sound hd

theorem trx_decode_sound (pfx : Bytes) (addr : List Char) (h : Bytes)
    (hd : trxDecode pfx addr = .ok h) :
    addr = b58CheckEncode sha256d btcAlphabet (pfx ++ h) ∧ h.length = 20 :=
  trxDecode_sound hd

/-- acceptance forces a one-byte version -/
theorem neo_decode_sound (ver : Bytes) (addr : List Char) (h : Bytes)
    (hd : neoDecode ver addr = .ok h) :
    ∃ v, ver = [v] ∧ addr = b58CheckEncode sha256d btcAlphabet ([v] ++ h) ∧ h.length = 20 :=
  neoDecode_sound hd

/-! ### Base58 with own checksums: the returned key is valid and the text is its encoding -/

theorem eos_decode_sound (pfx addr : List Char) (k : Bytes) (hd : eosDecode pfx addr = .ok k) :
    addr = pfx ++ b58Encode btcAlphabet (k ++ (ripemd160 k).take 4) ∧ k.length = 33 ∧
      pubValid .secp256k1 k = true :=
  eosDecode_sound hd

theorem ergo_decode_sound (netType : Nat) (addr : List Char) (k : Bytes)
    (hd : ergoDecode netType addr = .ok k) :
    addr = b58Encode btcAlphabet ((toBytesAuto (1 + netType) ++ k) ++
        (blake2b256 (toBytesAuto (1 + netType) ++ k)).take 4) ∧
      (toBytesAuto (1 + netType) ++ k).length = 34 ∧ pubValid .secp256k1 k = true :=
  ergoDecode_sound hd

theorem sol_decode_sound (addr : List Char) (k : Bytes) (hd : solDecode addr = .ok k) :
    addr = b58Encode btcAlphabet k ∧ k.length = 32 ∧ pubValid .ed25519 k = true :=
  solDecode_sound hd

/-! ### Bech32 family

`addr.flatMap asciiCase.lower` is the decoder's own lower-casing of the input (an all-upper-case
spelling is accepted by Bech32 by design; mixed case is not). -/

/-- **no second spelling at the bit level**: if the 5-bit symbols of a Bech32 data part regroup into bytes at all, then those bytes
regroup (with padding) into exactly those symbols — so a payload spelled with a whole extra all-zero symbol, with non-zero padding bits or
with a dropped symbol is never accepted -/
theorem regroup_canonical (data conv : List Nat) (hlt : ∀ x ∈ data, x < 32) (h : fromBase32 data = .ok conv) :
    toBase32 conv = .ok data := by
  obtain ⟨h1, h2⟩ := regroup_of_fromBase32 hlt h
  unfold toBase32
  rw [convertBits_pad 8 5 (by omega) conv (by simpa using h2), h1]
  rfl

/-- the three refused spellings on a one-byte payload `ff` (canonical symbols `[31, 28]`) -/
theorem regroup_noncanonical_refused :
    fromBase32 [31, 28] = .ok [255] ∧ fromBase32 [31, 28, 0] = .error .value ∧ fromBase32 [31, 29] = .error .value ∧
      fromBase32 [31] = .error .value := by decide

/-- the byte-level codec fact behind the family: the 5→8 regrouping without padding is only
accepted when the 8→5 regrouping with padding gives the symbols back -/
theorem bech32_decode_sound (U : CaseOracle) (hrp addr : List Char) (b : Bytes)
    (h : bech32Decode U hrp addr = .ok b) : bech32Encode hrp b = .ok (addr.flatMap U.lower) :=
  bech32Decode_sound U h

theorem segwit_decode_sound (U : CaseOracle) (hrp addr : List Char) (v : Nat) (prog : Bytes)
    (h : segwitDecode U hrp addr = .ok (v, prog)) :
    segwitEncode hrp v prog = .ok (addr.flatMap U.lower) ∧ v ≤ 16 ∧ 2 ≤ prog.length ∧
      prog.length ≤ 40 ∧ (v = 0 → prog.length = 20 ∨ prog.length = 32) :=
  segwitDecode_sound U h

theorem cashaddr_decode_sound (U : CaseOracle) (hrp addr : List Char) (nv d : Bytes)
    (h : bchDecode U hrp addr = .ok (nv, d)) :
    bchEncode hrp nv d = .ok (addr.flatMap U.lower) ∧ nv.length = 1 :=
  bchDecode_sound U h

/-- Cosmos; also the decoder of Zilliqa -/
theorem atom_decode_sound (hrp addr : List Char) (b : Bytes) (hd : atomDecode hrp addr = .ok b) :
    bech32Encode hrp b = .ok (addr.flatMap asciiCase.lower) ∧ b.length = 20 :=
  atomDecode_sound hd

theorem avax_decode_sound (pfx hrp addr : List Char) (b : Bytes)
    (hd : avaxDecode pfx hrp addr = .ok b) :
    ∃ a, addr = pfx ++ a ∧ bech32Encode hrp b = .ok (a.flatMap asciiCase.lower) ∧ b.length = 20 :=
  avaxDecode_sound hd

theorem inj_decode_sound (hrp addr : List Char) (b : Bytes) (hd : injDecode hrp addr = .ok b) :
    bech32Encode hrp b = .ok (addr.flatMap asciiCase.lower) ∧ b.length = 20 :=
  injDecode_sound hd

/-- OKEx Chain / Harmony One -/
theorem ethBech32_decode_sound (hrp addr : List Char) (b : Bytes)
    (hd : ethBech32Decode hrp addr = .ok b) :
    bech32Encode hrp b = .ok (addr.flatMap asciiCase.lower) ∧ b.length = 20 :=
  ethBech32Decode_sound hd

theorem egld_decode_sound (hrp addr : List Char) (b : Bytes) (hd : egldDecode hrp addr = .ok b) :
    bech32Encode hrp b = .ok (addr.flatMap asciiCase.lower) ∧ b.length = 32 ∧
      pubValid .ed25519 b = true :=
  egldDecode_sound hd

theorem p2wpkh_decode_sound (hrp addr : List Char) (h : Bytes) (hd : p2wpkhDecode hrp addr = .ok h) :
    segwitEncode hrp 0 h = .ok (addr.flatMap asciiCase.lower) ∧ h.length = 20 :=
  p2wpkhDecode_sound hd

theorem p2tr_decode_sound (hrp addr : List Char) (t : Bytes) (hd : p2trDecode hrp addr = .ok t) :
    segwitEncode hrp 1 t = .ok (addr.flatMap asciiCase.lower) ∧ t.length = 32 :=
  p2trDecode_sound hd

/-- Bitcoin Cash P2PKH and P2SH (one decoder) -/
theorem bch_decode_sound (hrp : List Char) (netVer : Bytes) (addr : List Char) (h : Bytes)
    (hd : bchAddrDecode hrp netVer addr = .ok h) :
    bchEncode hrp netVer h = .ok (addr.flatMap asciiCase.lower) ∧ h.length = 20 ∧
      netVer.length = 1 :=
  bchAddrDecode_sound hd

/-! ### further formats where the codec canonicity lemma applies directly -/

theorem algo_decode_sound (addr : List Char) (k : Bytes) (hd : algoDecodeAddr addr = .ok k) :
    addr = base32EncodeNoPad (k ++ takeLast (sha512_256 k) 4) none ∧ k.length = 32 ∧
      pubValid .ed25519 k = true :=
  algoDecode_sound hd

theorem substrateEd_decode_sound (fmt : Nat) (addr : List Char) (k : Bytes)
    (hd : substrateEdDecode fmt addr = .ok k) :
    ss58Encode blake2b512 k fmt = .ok addr ∧ k.length = 32 ∧ pubValid .ed25519 k = true :=
  substrateEdDecode_sound hd

/-! ### Ethereum: EIP-55 is canonical -/

/-- with the checksum check on, the only accepted spelling of a payload is its EIP-55 casing -/
theorem eth_decode_sound (pfx addr : List Char) (b : Bytes) (hd : ethDecode pfx false addr = .ok b) :
    addr = pfx ++ ethChecksumEncode (hexOfBytes b) ∧ b.length = 20 :=
  ethDecode_sound_checksum hd

/-- with `skip_chksum_enc` the text is canonical up to letter case only -/
theorem eth_decode_sound_nochecksum (pfx addr : List Char) (b : Bytes)
    (hd : ethDecode pfx true addr = .ok b) :
    ∃ a, addr = pfx ++ a ∧ a.flatMap asciiCase.lower = hexOfBytes b ∧ b.length = 20 :=
  ethDecode_sound_nochecksum hd

/-! ### Monero, Stellar, Filecoin -/

/-- an accepted address is the canonical text of `netVer ‖ s ‖ v ‖ payId` (with `payId = none` for
a standard address), the returned bytes are `s ‖ v`, both keys are valid, and a payment id is 8 bytes -/
theorem xmr_decode_sound (netVer : Bytes) (payId : Option Bytes) (addr : List Char) (sv : Bytes)
    (hd : xmrAddrDecode netVer payId addr = .ok sv) :
    ∃ s v, sv = s ++ v ∧ s.length = 32 ∧ v.length = 32 ∧
      pubValid .ed25519Monero s = true ∧ pubValid .ed25519Monero v = true ∧
      (∀ pid, payId = some pid → pid.length = 8) ∧
      addr = xmrEncode ((netVer ++ s ++ v ++ payId.getD []) ++
        (keccak256 (netVer ++ s ++ v ++ payId.getD [])).take 4) :=
  xmrAddrDecode_sound hd

theorem xlm_decode_sound (addrType : Nat) (addr : List Char) (k : Bytes)
    (hd : xlmDecode addrType addr = .ok k) :
    ∃ t : UInt8, t.toNat = addrType ∧
      addr = base32EncodeNoPad (([t] ++ k) ++ xlmCrc ([t] ++ k)) none ∧
      k.length = 32 ∧ pubValid .ed25519 k = true :=
  xlmDecode_sound hd

theorem fil_decode_sound (pfx addr : List Char) (h : Bytes) (hd : filDecode pfx addr = .ok h) :
    addr = pfx ++ ['1'] ++ base32EncodeNoPad (h ++ blake2b32 ([1] ++ h)) (some filAlphabet) ∧
      h.length = 20 :=
  filDecode_sound hd

/-! ### hex-text addresses: canonical up to letter case -/

theorem sui_decode_sound (pfx addr : List Char) (b : Bytes) (hd : suiDecode pfx addr = .ok b) :
    ∃ a, addr = pfx ++ a ∧ a.flatMap asciiCase.lower = hexOfBytes b ∧ b.length = 32 :=
  suiDecode_sound hd

theorem icx_decode_sound (pfx addr : List Char) (b : Bytes) (hd : icxDecode pfx addr = .ok b) :
    ∃ a, addr = pfx ++ a ∧ a.flatMap asciiCase.lower = hexOfBytes b ∧ b.length = 20 :=
  icxDecode_sound hd

theorem near_decode_sound (addr : List Char) (b : Bytes) (hd : nearDecode addr = .ok b) :
    addr.flatMap asciiCase.lower = hexOfBytes b ∧ b.length = 32 ∧ pubValid .ed25519 b = true :=
  nearDecode_sound hd

/-- Aptos: up to letter case and leading zeros (re-padded by design) -/
theorem aptos_decode_sound (pfx addr : List Char) (b : Bytes) (hd : aptosDecode pfx addr = .ok b) :
    ∃ a, addr = pfx ++ a ∧ a.length ≤ 64 ∧
      (List.replicate (64 - a.length) '0' ++ a).flatMap asciiCase.lower = hexOfBytes b ∧
      b.length = 32 :=
  aptosDecode_sound hd

/-! ### Nano and Nimiq (strict since the repairs) -/

theorem nano_decode_sound (pfx addr : List Char) (k : Bytes) (hd : nanoDecode pfx addr = .ok k) :
    addr = pfx ++ (base32EncodeNoPad ([0, 0, 0] ++ k ++ (blake2b40 k).reverse)
        (some nanoAlphabet)).drop 4 ∧
      k.length = 32 ∧ pubValid .ed25519Blake2b k = true :=
  nanoDecode_sound hd

/-- canonical up to spaces, which the decoder removes wherever they are (by design) -/
theorem nim_decode_sound (isD : Char → Bool) (pfx addr : List Char) (b : Bytes)
    (hd : nimDecode isD pfx addr = .ok b) :
    addr.filter (· ≠ ' ') = pfx ++ nimChecksum isD (base32EncodeNoPad b (some nimAlphabet)) ++
        base32EncodeNoPad b (some nimAlphabet) ∧ b.length = 20 :=
  nimDecode_sound hd

/-- the Base32 fact behind the strict statements for Stellar, Nano and Nimiq: a payload of whole
5-byte quanta leaves no room for `=` padding, so the accepted text is the encoding itself -/
theorem base32_decode_canonical_whole_quanta (s : List Char) (custom : Option (List Char))
    (hc : ∀ a, custom = some a → Base32AlphabetOk a) (b : Bytes)
    (h : base32Decode s custom = .ok b) (h5 : b.length % 5 = 0) :
    base32EncodeNoPad b custom = s :=
  base32_decode_canonical_full hc h h5

/-! ### `encode (decode addr) = addr` for the formats whose payload is the (ed25519 / Monero) key -/

theorem sol_encode_decode (addr : List Char) (k : Bytes) (h : solDecode addr = .ok k) :
    solEncode k = .ok addr := Model.sol_encode_decode h

theorem near_encode_decode (addr : List Char) (k : Bytes) (h : nearDecode addr = .ok k) :
    nearEncode k = .ok (addr.flatMap asciiCase.lower) := Model.near_encode_decode h

theorem egld_encode_decode (hrp addr : List Char) (k : Bytes) (h : egldDecode hrp addr = .ok k) :
    egldEncode hrp k = .ok (addr.flatMap asciiCase.lower) := Model.egld_encode_decode h

theorem algo_encode_decode (addr : List Char) (k : Bytes) (h : algoDecodeAddr addr = .ok k) :
    algoEncodeAddr k = .ok addr := Model.algo_encode_decode h

theorem xlm_encode_decode (addrType : Nat) (addr : List Char) (k : Bytes)
    (h : xlmDecode addrType addr = .ok k) : xlmEncode addrType k = .ok addr :=
  Model.xlm_encode_decode h

theorem nano_encode_decode (pfx addr : List Char) (k : Bytes) (h : nanoDecode pfx addr = .ok k) :
    nanoEncode pfx k = .ok addr := Model.nano_encode_decode h

theorem substrateEd_encode_decode (fmt : Nat) (addr : List Char) (k : Bytes)
    (h : substrateEdDecode fmt addr = .ok k) : substrateEdEncode fmt k = .ok addr :=
  Model.substrateEd_encode_decode h

theorem xmr_encode_decode (netVer : Bytes) (payId : Option Bytes) (addr : List Char) (sv : Bytes)
    (h : xmrAddrDecode netVer payId addr = .ok sv) :
    ∃ s v, sv = s ++ v ∧ xmrAddrEncode netVer payId s v = .ok addr :=
  Model.xmr_encode_decode h

end BipVerif.Props.C10Addr
