import BipVerif.Model.Mnemonics
namespace BipVerif.Props.C01
theorem placeholder : True := trivial
end BipVerif.Props.C01
