/-
C01 — BIP-39 mnemonic codec (`Bip39MnemonicEncoder.Encode`, `Bip39MnemonicDecoder.Decode`,
`DecodeWithChecksum`, language auto-detection).  The encoder computes the BIP-39 definition (the
11-bit groups of `entropy ‖ first len/4 bits of the hash`), decoder and encoder are mutually
inverse bijections between the admissible entropies and the accepted sentences, the decoder accepts
exactly the sentences of the definition and raises `ValueError` / `MnemonicChecksumError` only.
Property theorems only; the proofs live in `BipVerif/Lemmas/Bip39.lean`.

Standing hypotheses: `H` is any hash with 32-byte output (SHA-256 in the library); `wl` is any list
of 2048 word codes without repetition; a sentence is the list of its word codes.
-/
import BipVerif.Lemmas.Bip39

namespace BipVerif.Props.C01
open BipVerif BipVerif.Model

/-! ### 1. the encoder is total on the five entropy sizes and refuses every other size -/

/-- 16/20/24/28/32 bytes give a sentence of `(8·len + len/4) / 11` = 12/15/18/21/24 words of `wl` -/
theorem encode_ok (H : Bytes → Bytes) (hH : ∀ x, (H x).length = 32) (wl : List Nat)
    (hwl : wl.length = 2048) (ent : Bytes) (hlen : bip39EntLens.contains ent.length = true) :
    ∃ ws, bip39Encode H wl ent = .ok ws
      ∧ ws.length = (ent.length * 8 + ent.length / 4) / 11 ∧ ∀ w ∈ ws, w ∈ wl :=
  bip39Encode_ok H hH wl hwl ent hlen

/-- the word count is one of 12, 15, 18, 21, 24 -/
theorem encode_word_count (H : Bytes → Bytes) (hH : ∀ x, (H x).length = 32) (wl : List Nat)
    (hwl : wl.length = 2048) (ent : Bytes) (ws : List Nat) (h : bip39Encode H wl ent = .ok ws) :
    bip39WordNums.contains ws.length = true ∧ ws.length * 4 = ent.length * 3 :=
  bip39Encode_word_count H hH wl hwl ent ws h

/-- every other entropy length is a `ValueError` (whatever the word list and hash) -/
theorem encode_bad_length (H : Bytes → Bytes) (wl : List Nat) (ent : Bytes)
    (hlen : bip39EntLens.contains ent.length = false) : bip39Encode H wl ent = .error .value :=
  bip39Encode_error H wl ent hlen

/-! ### 2. the encoder computes the BIP-39 definition -/

/-- word `i` of the sentence is `wl[g i]`, `g i` the `i`-th 11-bit group (most significant first) of
the integer `E · 2^cs + ⌊hash / 2^(256-cs)⌋`: the entropy followed by the first `cs = len/4` bits
of its hash. -/
theorem encode_spec (H : Bytes → Bytes) (hH : ∀ x, (H x).length = 32) (wl : List Nat)
    (hwl : wl.length = 2048) (ent : Bytes) (ws : List Nat) (h : bip39Encode H wl ent = .ok ws)
    (i : Nat) (hi : i < ws.length) :
    ws[i]? = wl[(Bytes.toNatBE ent * 2 ^ (ent.length / 4)
                  + Bytes.toNatBE (H ent) / 2 ^ (256 - ent.length / 4))
                / 2 ^ (11 * (ws.length - 1 - i)) % 2048]? := by
  obtain ⟨hl, hg⟩ := bip39Encode_getElem? H hH wl hwl ent ws h
  rw [hg i hi, hl]; rfl

/-- the same in closed form -/
theorem encode_eq (H : Bytes → Bytes) (hH : ∀ x, (H x).length = 32) (wl : List Nat)
    (hwl : wl.length = 2048) (ent : Bytes) (hlen : bip39EntLens.contains ent.length = true) :
    bip39Encode H wl ent
      = .ok ((List.range ((ent.length * 8 + ent.length / 4) / 11)).map fun i =>
          wl.getD ((Bytes.toNatBE ent * 2 ^ (ent.length / 4)
                      + Bytes.toNatBE (H ent) / 2 ^ (256 - ent.length / 4))
                    / 2 ^ (11 * ((ent.length * 8 + ent.length / 4) / 11 - 1 - i)) % 2048) 0) :=
  bip39Encode_eq H hH wl (by omega) ent hlen

/-! ### 3. decode ∘ encode = id -/

theorem decode_encode (H : Bytes → Bytes) (hH : ∀ x, (H x).length = 32) (wl : List Nat)
    (hwl : wl.length = 2048) (hnd : wl.Nodup) (langs : List (List Nat)) (ent : Bytes)
    (hlen : bip39EntLens.contains ent.length = true) :
    (bip39Encode H wl ent >>= bip39Decode H langs (some wl)) = .ok ent :=
  bip39_decode_encode H hH wl hwl hnd langs ent hlen

/-! ### 4. error kinds of the decoder -/

/-- the decoder fails with `ValueError` or `MnemonicChecksumError` only — in particular
`int.to_bytes` never overflows and no `IndexError`/`KeyError` escapes — for an explicit language or
auto-detection, provided no word list has more than 2048 entries. -/
theorem decode_error_kinds (H : Bytes → Bytes) (hH : ∀ x, (H x).length = 32)
    (langs : List (List Nat)) (hlangs : ∀ L ∈ langs, L.length ≤ 2048) (lang : Option (List Nat))
    (hlang : ∀ L, lang = some L → L.length ≤ 2048) (ws : List Nat) (e : Err)
    (h : bip39Decode H langs lang ws = .error e) : e = .value ∨ e = .checksum :=
  bip39Decode_error_kind H hH langs hlangs lang hlang ws e h

/-- a word count outside {12, 15, 18, 21, 24}: `ValueError` (any language argument) -/
theorem decode_bad_count (H : Bytes → Bytes) (langs : List (List Nat)) (lang : Option (List Nat))
    (ws : List Nat) (h : bip39WordNums.contains ws.length = false) :
    bip39Decode H langs lang ws = .error .value :=
  bip39Decode_count_error H langs lang ws h

/-- a word that is not in the given list: `ValueError` -/
theorem decode_unknown_word (H : Bytes → Bytes) (langs : List (List Nat)) (wl ws : List Nat)
    (h : ∃ w ∈ ws, w ∉ wl) : bip39Decode H langs (some wl) ws = .error .value :=
  bip39Decode_word_error H langs wl ws h

/-- legal count, all words known, but the last `cs` bits are not the first `cs` bits of the hash of
the entropy bytes `e'` (the `4·cs`-byte big-endian form of the leading bits):
`MnemonicChecksumError` -/
theorem decode_bad_checksum (H : Bytes → Bytes) (hH : ∀ x, (H x).length = 32)
    (langs : List (List Nat)) (wl : List Nat) (hwl : wl.length = 2048) (ws : List Nat)
    (hcount : bip39WordNums.contains ws.length = true) (hall : ∀ w ∈ ws, w ∈ wl) (e' : Bytes)
    (he1 : e'.length = ws.length * 11 / 33 * 4)
    (he2 : Bytes.toNatBE e' = ofDigitsBE 2048 (ws.map (wl.idxOf ·)) / 2 ^ (ws.length * 11 / 33))
    (hck : ofDigitsBE 2048 (ws.map (wl.idxOf ·)) % 2 ^ (ws.length * 11 / 33)
        ≠ Bytes.toNatBE (H e') / 2 ^ (256 - ws.length * 11 / 33)) :
    bip39Decode H langs (some wl) ws = .error .checksum :=
  bip39Decode_checksum_error H hH langs wl (by omega) ws hcount hall e' he1 he2 hck

/-! ### 5. accept-iff -/

/-- the decoder returns `e` exactly when the word count is legal, every word is in the list, and
with `B` the integer whose base-2048 digits are the word indexes and `cs = 11·n/33`: `e` is the
`4·cs`-byte big-endian form of `⌊B / 2^cs⌋` and the low `cs` bits of `B` are the first `cs` bits of
`H e`. -/
theorem decode_ok_iff (H : Bytes → Bytes) (hH : ∀ x, (H x).length = 32) (langs : List (List Nat))
    (wl : List Nat) (hwl : wl.length = 2048) (ws : List Nat) (e : Bytes) :
    bip39Decode H langs (some wl) ws = .ok e ↔
      bip39WordNums.contains ws.length = true ∧ (∀ w ∈ ws, w ∈ wl)
      ∧ e.length = ws.length * 11 / 33 * 4
      ∧ Bytes.toNatBE e = ofDigitsBE 2048 (ws.map (wl.idxOf ·)) / 2 ^ (ws.length * 11 / 33)
      ∧ ofDigitsBE 2048 (ws.map (wl.idxOf ·)) % 2 ^ (ws.length * 11 / 33)
          = Bytes.toNatBE (H e) / 2 ^ (256 - ws.length * 11 / 33) := by
  rw [bip39Decode_some_eq H hH langs wl (by omega)]
  exact bip39DecodeSpec_ok_iff H wl (by omega) ws e

/-! ### 6. encode ∘ decode = id: the accepted sentences are exactly the encoder's outputs -/

theorem encode_decode (H : Bytes → Bytes) (hH : ∀ x, (H x).length = 32) (wl : List Nat)
    (hwl : wl.length = 2048) (langs : List (List Nat)) (ws : List Nat) (e : Bytes)
    (h : bip39Decode H langs (some wl) ws = .ok e) : bip39Encode H wl e = .ok ws :=
  bip39_encode_decode H hH wl hwl langs ws e h

/-- hence: a sentence is accepted iff it is the encoding of an (admissible) entropy -/
theorem decode_ok_iff_encode (H : Bytes → Bytes) (hH : ∀ x, (H x).length = 32) (wl : List Nat)
    (hwl : wl.length = 2048) (hnd : wl.Nodup) (langs : List (List Nat)) (ws : List Nat) (e : Bytes) :
    bip39Decode H langs (some wl) ws = .ok e ↔ bip39Encode H wl e = .ok ws :=
  bip39_decode_iff_encode H hH wl hwl hnd langs ws e

/-! ### 7. language auto-detection -/

/-- `_FindLanguageGeneric` returns the first language of the list that contains every word -/
theorem findLanguage_first (pre post : List (List Nat)) (L ws : List Nat)
    (hL : ∀ w ∈ ws, w ∈ L) (hpre : ∀ M ∈ pre, ∃ w ∈ ws, w ∉ M) :
    findLanguage (pre ++ L :: post) ws = .ok L :=
  Model.findLanguage_first pre post L ws hL hpre

/-- so decoding without a language is decoding with that first language … -/
theorem decode_autodetect_first (H : Bytes → Bytes) (pre post : List (List Nat)) (L ws : List Nat)
    (hL : ∀ w ∈ ws, w ∈ L) (hpre : ∀ M ∈ pre, ∃ w ∈ ws, w ∉ M) :
    bip39Decode H (pre ++ L :: post) none ws = bip39Decode H (pre ++ L :: post) (some L) ws :=
  bip39Decode_none_first H pre post L ws hL hpre

/-- … and a `ValueError` when no language contains every word -/
theorem decode_autodetect_none (H : Bytes → Bytes) (langs : List (List Nat)) (ws : List Nat)
    (h : ∀ M ∈ langs, ∃ w ∈ ws, w ∉ M) : bip39Decode H langs none ws = .error .value :=
  bip39Decode_none_nolang H langs ws h

/-- unconditional form: auto-detection is `find?` over the language list -/
theorem decode_autodetect_eq (H : Bytes → Bytes) (langs : List (List Nat)) (ws : List Nat) :
    bip39Decode H langs none ws
      = match langs.find? (fun L => ws.all (fun w => L.contains w)) with
        | some L => bip39Decode H langs (some L) ws
        | none => .error .value :=
  bip39Decode_none_find H langs ws

/-- round trip with auto-detection: if no language *before* `wl` contains every word of the
sentence, the entropy comes back. -/
theorem decode_encode_autodetect (H : Bytes → Bytes) (hH : ∀ x, (H x).length = 32)
    (wl : List Nat) (hwl : wl.length = 2048) (hnd : wl.Nodup) (pre post : List (List Nat))
    (ent : Bytes) (hlen : bip39EntLens.contains ent.length = true)
    (hpre : ∀ ws, bip39Encode H wl ent = .ok ws → ∀ M ∈ pre, ∃ w ∈ ws, w ∉ M) :
    (bip39Encode H wl ent >>= bip39Decode H (pre ++ wl :: post) none) = .ok ent :=
  bip39_decode_encode_autodetect H hH wl hwl hnd pre post ent hlen hpre

/-- the same when an earlier language may contain every word, provided it has them at the same
indexes as `wl` (Chinese simplified / traditional). -/
theorem decode_encode_autodetect_idx (H : Bytes → Bytes) (hH : ∀ x, (H x).length = 32)
    (wl : List Nat) (hwl : wl.length = 2048) (hnd : wl.Nodup) (pre post : List (List Nat))
    (ent : Bytes) (hlen : bip39EntLens.contains ent.length = true)
    (hpre : ∀ ws, bip39Encode H wl ent = .ok ws → ∀ M ∈ pre,
      (∃ w ∈ ws, w ∉ M) ∨ (M.length ≤ 2048 ∧ ∀ w ∈ ws, M.idxOf w = wl.idxOf w)) :
    (bip39Encode H wl ent >>= bip39Decode H (pre ++ wl :: post) none) = .ok ent :=
  bip39_decode_encode_autodetect_idx H hH wl hwl hnd pre post ent hlen hpre

/-- two word lists holding the words of a sentence at the same indexes decode it alike -/
theorem decode_same_index (H : Bytes → Bytes) (hH : ∀ x, (H x).length = 32)
    (langs : List (List Nat)) (L wl : List Nat) (hL : L.length ≤ 2048) (hwl : wl.length ≤ 2048)
    (ws : List Nat) (hallL : ∀ w ∈ ws, w ∈ L) (hall : ∀ w ∈ ws, w ∈ wl)
    (hidx : ∀ w ∈ ws, L.idxOf w = wl.idxOf w) :
    bip39Decode H langs (some L) ws = bip39Decode H langs (some wl) ws :=
  bip39Decode_same_index H hH langs L wl hL hwl ws hallL hall hidx

/-! ### 8. `DecodeWithChecksum` -/

/-- on success the result is the whole bit string `B` (entropy and checksum) as a big-endian
integer on `⌈33·cs / 8⌉` bytes, and `Decode` succeeds on the same sentence. -/
theorem decodeWithChecksum_spec (H : Bytes → Bytes) (hH : ∀ x, (H x).length = 32)
    (langs : List (List Nat)) (wl : List Nat) (hwl : wl.length = 2048) (ws : List Nat) (r : Bytes)
    (h : bip39DecodeWithChecksum H langs (some wl) ws = .ok r) :
    (∃ e, bip39Decode H langs (some wl) ws = .ok e)
      ∧ r.length = (33 * (ws.length * 11 / 33) + 7) / 8
      ∧ Bytes.toNatBE r = ofDigitsBE 2048 (ws.map (wl.idxOf ·)) :=
  bip39DecodeWithChecksum_ok H hH langs wl (by omega) ws r h

/-- it fails exactly when (and how) `Decode` fails -/
theorem decodeWithChecksum_eq (H : Bytes → Bytes) (hH : ∀ x, (H x).length = 32)
    (langs : List (List Nat)) (wl : List Nat) (hwl : wl.length = 2048) (ws : List Nat) :
    bip39DecodeWithChecksum H langs (some wl) ws
      = match bip39Decode H langs (some wl) ws with
        | .ok _ => .ok (Bytes.ofNatBE ((11 * ws.length + 7) / 8)
            (ofDigitsBE 2048 (ws.map (wl.idxOf ·))))
        | .error e => .error e :=
  bip39DecodeWithChecksum_some_eq H hH langs wl (by omega) ws

theorem decodeWithChecksum_autodetect_first (H : Bytes → Bytes) (pre post : List (List Nat))
    (L ws : List Nat) (hL : ∀ w ∈ ws, w ∈ L) (hpre : ∀ M ∈ pre, ∃ w ∈ ws, w ∉ M) :
    bip39DecodeWithChecksum H (pre ++ L :: post) none ws
      = bip39DecodeWithChecksum H (pre ++ L :: post) (some L) ws :=
  bip39DecodeWithChecksum_none_first H pre post L ws hL hpre

/-! ### non-vacuity: the standing hypotheses are satisfiable -/

example (ent : Bytes) (hlen : bip39EntLens.contains ent.length = true) :
    (bip39Encode (fun _ => List.replicate 32 0) (List.range 2048) ent
      >>= bip39Decode (fun _ => List.replicate 32 0) [] (some (List.range 2048))) = .ok ent :=
  decode_encode _ (fun _ => List.length_replicate ..) _ List.length_range List.nodup_range [] ent hlen

end BipVerif.Props.C01
