/-
C17 — Monero / Electrum-v1 / Algorand / Electrum-v2 mnemonic codecs: round trips, canonicity
of accepted phrases, word counts and error classes.  Property theorems only; the helper lemmas
live in `BipVerif/Lemmas/Mnemonics*.lean`.
-/
import BipVerif.Lemmas.MnemonicsV2

namespace BipVerif.Props.C17
open BipVerif BipVerif.Model

/-! ## 1. chunk arithmetic (`BytesChunkToWords` / `WordsToBytesChunk`) -/

/-- the Monero / Electrum-v1 list size satisfies the size hypothesis used below -/
theorem cube_1626 : 2 ^ 32 ≤ 1626 ^ 3 := by norm_num

/-- a 32-bit chunk value survives the trip through its three word indices -/
theorem chunk_roundtrip {n x : Nat} (hn : 0 < n) (hcube : 2 ^ 32 ≤ n ^ 3) (hx : x < 2 ^ 32) :
    (match chunkToIdx n x with
      | [a, b, c] => idxToChunk n a b c
      | _ => .error .fuel) = .ok x := by
  rw [chunkToIdx_eq]
  exact (idxToChunk_ok_iff _ _ _ _ _).mpr ⟨(packIdx_chunkToIdx hn hcube hx).symm, hx⟩

/-- all three indices are valid word-list positions -/
theorem chunk_idx_lt {n : Nat} (hn : 0 < n) (x : Nat) :
    (chunkToIdx n x).length = 3 ∧ ∀ i ∈ chunkToIdx n x, i < n :=
  ⟨rfl, chunkToIdx_lt hn x⟩

/-- an index triple accepted by `idxToChunk` is the triple produced from its value -/
theorem chunk_canonical {n a b c x : Nat} (ha : a < n) (hb : b < n) (hc : c < n)
    (h : idxToChunk n a b c = .ok x) : chunkToIdx n x = [a, b, c] ∧ x < 2 ^ 32 := by
  obtain ⟨h1, h2⟩ := (idxToChunk_ok_iff _ _ _ _ _).mp h
  exact ⟨h1 ▸ chunkToIdx_packIdx ha hb hc, h2⟩

/-- `idxToChunk` fails only with `ValueError`, exactly when the packed value needs more than
32 bits -/
theorem idxToChunk_error (n a b c : Nat) (e : Err) :
    idxToChunk n a b c = .error e ↔
      e = .value ∧
      2 ^ 32 ≤ a + n * ((b % n + n - a % n) % n) + n * n * ((c % n + n - b % n) % n) :=
  idxToChunk_error_iff n a b c e

/-- … and succeeds with that packed value otherwise -/
theorem idxToChunk_ok (n a b c x : Nat) :
    idxToChunk n a b c = .ok x ↔
      x = a + n * ((b % n + n - a % n) % n) + n * n * ((c % n + n - b % n) % n) ∧ x < 2 ^ 32 :=
  idxToChunk_ok_iff n a b c x

/-! ## 2. Monero -/

section Monero
variable (crc : Bytes → Nat) (langs : List (List Nat × Nat)) (wl : List Nat) (k : Nat)

/-- the encoder is total on 16/32-byte entropies and produces 12/24 (+1 with checksum) words -/
theorem monero_encode_wordcount (hlen : wl.length = 1626) (ck : Bool) (ent : Bytes)
    (h : ent.length = 16 ∨ ent.length = 32) :
    ∃ ws, moneroEncode crc wl k ck ent = .ok ws ∧
      ws.length = ent.length / 4 * 3 + (if ck then 1 else 0) := by
  have hpos : 0 < wl.length := by omega
  rw [moneroEncode_eq crc wl k ck ent h, chunksEncode_ok wl hpos true ent, ok_bind]
  have hl : (encIdx wl.length true ent).length = ent.length / 4 * 3 := by
    rw [encIdx_length _ _ (ent.length / 4) ent (by omega)]; omega
  cases ck
  · exact ⟨_, rfl, by simp [hl]⟩
  · have hne : (encIdx wl.length true ent).map (fun i => wl.getD i 0) ≠ [] := by
      intro e; have := congrArg List.length e
      rw [List.length_map, hl] at this; simp at this; omega
    rw [if_pos rfl, moneroChecksumWord_eq crc k _ hne, ok_bind]
    exact ⟨_, rfl, by simp [hl]⟩

theorem monero_encode_bad_length (ck : Bool) (ent : Bytes)
    (h : ¬ (ent.length = 16 ∨ ent.length = 32)) : moneroEncode crc wl k ck ent = .error .value :=
  moneroEncode_bad_length crc wl k ck ent h

/-- **round trip** -/
theorem monero_decode_encode (hlen : wl.length = 1626) (hnd : wl.Nodup) (ck : Bool) (ent : Bytes)
    (h : ent.length = 16 ∨ ent.length = 32) :
    (moneroEncode crc wl k ck ent >>= moneroDecode crc langs (some (wl, k))) = .ok ent := by
  have hpos : 0 < wl.length := by omega
  have hcube : 2 ^ 32 ≤ wl.length ^ 3 := by rw [hlen]; norm_num
  rw [moneroEncode_eq crc wl k ck ent h, chunksEncode_ok wl hpos true ent, ok_bind]
  have hl : (encIdx wl.length true ent).length = ent.length / 4 * 3 := by
    rw [encIdx_length _ _ (ent.length / 4) ent (by omega)]; omega
  have hdec := chunksDecode_encIdx wl hnd hpos hcube true (ent.length / 4) ent (by omega)
  set ws0 := (encIdx wl.length true ent).map (fun i => wl.getD i 0) with hws0
  have hl0 : ws0.length = ent.length / 4 * 3 := by rw [hws0, List.length_map, hl]
  cases ck
  · simp only [Bool.false_eq_true, if_false, pure_eq_ok, ok_bind]
    rw [moneroDecode_eq crc langs _ ws0 (by omega), moneroLang_some, ok_bind]
    unfold moneroBody
    rw [if_neg (by omega)]
    exact hdec
  · have hne : ws0 ≠ [] := by
      intro e; have := congrArg List.length e
      rw [hl0] at this; simp at this; omega
    rw [if_pos rfl, moneroChecksumWord_eq crc k _ hne]
    simp only [pure_eq_ok, ok_bind]
    set c := ws0.getD (crc (ws0.flatMap (wordPrefixBytes k)) % ws0.length) 0
    have hl1 : (ws0 ++ [c]).length = ent.length / 4 * 3 + 1 := by simp [hl0]
    rw [moneroDecode_eq crc langs _ _ (by omega), moneroLang_some, ok_bind]
    unfold moneroBody
    rw [if_pos (by omega), dropLast_append_of_length ws0 [c] 1 rfl, moneroChecksumWord_eq crc k _ hne,
      ok_bind]
    have hlast : (ws0 ++ [c]).getLast? = some c := by simp
    rw [if_neg (by rw [hlast]; exact fun h => h rfl), chunksDecode_append_short wl true ws0 [c] (by omega) (by simp)]
    exact hdec

/-- **canonicity**: every accepted phrase is exactly the encoding of its decoding (with the
checksum word iff it had 13/25 words) -/
theorem monero_decode_canonical (hpos : 0 < wl.length) (ws : List Nat) (e : Bytes)
    (h : moneroDecode crc langs (some (wl, k)) ws = .ok e) :
    (e.length = 16 ∨ e.length = 32) ∧
      moneroEncode crc wl k (decide (ws.length = 13 ∨ ws.length = 25)) e = .ok ws := by
  by_cases hcount : ws.length = 12 ∨ ws.length = 13 ∨ ws.length = 24 ∨ ws.length = 25
  swap
  · rw [moneroDecode_bad_count crc langs _ ws hcount] at h; cases h
  rw [moneroDecode_eq crc langs _ ws hcount, moneroLang_some, ok_bind] at h
  unfold moneroBody at h
  by_cases hc : ws.length = 13 ∨ ws.length = 25
  · rw [if_pos hc, bind_eq_ok_iff] at h
    obtain ⟨c, hck, h⟩ := h
    by_cases hlast : ws.getLast? = some c
    swap
    · rw [if_pos hlast] at h; cases h
    rw [if_neg (by simpa using hlast)] at h
    obtain ⟨h1, h2⟩ := chunksDecode_canonical wl true ws e h
    have hel : e.length = 16 ∨ e.length = 32 := by omega
    refine ⟨hel, ?_⟩
    have htake : ws.take (ws.length / 3 * 3) = dropLast ws 1 := by
      unfold dropLast; congr 1; omega
    rw [moneroEncode_eq crc wl k _ e hel, chunksEncode_ok wl hpos true e, ok_bind, h2, htake,
      if_pos (by simpa using hc), hck, ok_bind]
    have : dropLast ws 1 = ws.dropLast := by unfold dropLast; rw [List.dropLast_eq_take]
    rw [this, pure_eq_ok, List.dropLast_append_getLast? c (by simp [hlast])]
  · rw [if_neg hc] at h
    obtain ⟨h1, h2⟩ := chunksDecode_canonical wl true ws e h
    have hel : e.length = 16 ∨ e.length = 32 := by omega
    refine ⟨hel, ?_⟩
    have htake : ws.take (ws.length / 3 * 3) = ws := by
      apply List.take_of_length_le; omega
    rw [moneroEncode_eq crc wl k _ e hel, chunksEncode_ok wl hpos true e, ok_bind, h2, htake,
      if_neg (by simpa using hc)]
    rfl

/-- what the decoder does once the word count is legal and the language is given -/
theorem monero_decode_eq (ws : List Nat)
    (hcount : ws.length = 12 ∨ ws.length = 13 ∨ ws.length = 24 ∨ ws.length = 25) :
    moneroDecode crc langs (some (wl, k)) ws =
      if ws.length = 13 ∨ ws.length = 25 then
        moneroChecksumWord crc k (dropLast ws 1) >>= fun ck =>
          if ws.getLast? ≠ some ck then .error .checksum else chunksDecode wl true ws
      else chunksDecode wl true ws := by
  rw [moneroDecode_eq crc langs _ ws hcount, moneroLang_some, ok_bind]; rfl

/-- **error classes**: whatever the language argument, only `ValueError` and
`MnemonicChecksumError` can come out (the `.fuel`, `.assert` and `.index` branches are dead) -/
theorem monero_decode_errors (lang : Option (List Nat × Nat)) (ws : List Nat) (e : Err)
    (h : moneroDecode crc langs lang ws = .error e) : e = .value ∨ e = .checksum := by
  by_cases hcount : ws.length = 12 ∨ ws.length = 13 ∨ ws.length = 24 ∨ ws.length = 25
  · rw [moneroDecode_eq crc langs lang ws hcount, bind_eq_error_iff] at h
    rcases h with h | ⟨l, _, h⟩
    · exact Or.inl (moneroLang_error h)
    · exact moneroBody_error (by omega) h
  · rw [moneroDecode_bad_count crc langs lang ws hcount] at h; cases h; exact Or.inl rfl

/-- wrong word count ⇒ `ValueError` -/
theorem monero_decode_bad_count (lang : Option (List Nat × Nat)) (ws : List Nat)
    (h : ¬ (ws.length = 12 ∨ ws.length = 13 ∨ ws.length = 24 ∨ ws.length = 25)) :
    moneroDecode crc langs lang ws = .error .value :=
  moneroDecode_bad_count crc langs lang ws h

/-- the checksum is verified before any word is looked up -/
theorem monero_decode_checksum_first (ws : List Nat) (c : Nat)
    (hc : ws.length = 13 ∨ ws.length = 25)
    (hck : moneroChecksumWord crc k (dropLast ws 1) = .ok c) (hne : ws.getLast? ≠ some c) :
    moneroDecode crc langs (some (wl, k)) ws = .error .checksum := by
  rw [monero_decode_eq crc langs wl k ws (by omega), if_pos hc, hck, ok_bind, if_pos hne]

/-- a word outside the (given) language: `MnemonicChecksumError` if the phrase carries a
checksum word and it does not match, `ValueError` otherwise -/
theorem monero_decode_unknown_word (ws : List Nat)
    (hcount : ws.length = 12 ∨ ws.length = 13 ∨ ws.length = 24 ∨ ws.length = 25)
    (hw : ∃ w ∈ ws, w ∉ wl) :
    moneroDecode crc langs (some (wl, k)) ws = .error
      (if (ws.length = 13 ∨ ws.length = 25) ∧
          ws.getLast? ≠ (moneroChecksumWord crc k (dropLast ws 1)).toOption
        then .checksum else .value) := by
  rw [monero_decode_eq crc langs wl k ws hcount]
  obtain ⟨w, hw, hnot⟩ := hw
  by_cases hc : ws.length = 13 ∨ ws.length = 25
  · rw [if_pos hc, moneroChecksumWord_eq crc k _ (dropLast_one_ne_nil (by omega)), ok_bind]
    set c := (dropLast ws 1).getD
      (crc ((dropLast ws 1).flatMap (wordPrefixBytes k)) % (dropLast ws 1).length) 0 with hcdef
    have hcm : c ∈ dropLast ws 1 :=
      moneroChecksumWord_mem (moneroChecksumWord_eq crc k _ (dropLast_one_ne_nil (by omega)))
    by_cases hlast : ws.getLast? = some c
    · rw [if_neg (by simpa using hlast), if_neg (by simp [Except.toOption, hlast])]
      apply chunksDecode_of_not_mem
      have htake : ws.take (ws.length / 3 * 3) = dropLast ws 1 := by
        unfold dropLast; congr 1; omega
      rw [htake]
      have hsplit : dropLast ws 1 ++ [c] = ws := by
        have : dropLast ws 1 = ws.dropLast := by unfold dropLast; rw [List.dropLast_eq_take]
        rw [this, List.dropLast_append_getLast? c (by simp [hlast])]
      rw [← hsplit, List.mem_append] at hw
      rcases hw with hw | hw
      · exact ⟨w, hw, hnot⟩
      · simp only [List.mem_singleton] at hw; rw [hw] at hnot; exact ⟨c, hcm, hnot⟩
    · rw [if_pos hlast, if_pos ⟨hc, by simpa [Except.toOption] using hlast⟩]
  · rw [if_neg hc, if_neg (fun h => hc h.1)]
    apply chunksDecode_of_not_mem
    have htake : ws.take (ws.length / 3 * 3) = ws := by
      apply List.take_of_length_le; omega
    rw [htake]; exact ⟨w, hw, hnot⟩

/-- encoder errors: only `ValueError` (wrong entropy length) -/
theorem monero_encode_errors (hlen : wl.length = 1626) (ck : Bool) (ent : Bytes) (e : Err)
    (h : moneroEncode crc wl k ck ent = .error e) :
    e = .value ∧ ¬ (ent.length = 16 ∨ ent.length = 32) := by
  by_cases hl : ent.length = 16 ∨ ent.length = 32
  · obtain ⟨ws, hws, _⟩ := monero_encode_wordcount crc wl k hlen ck ent hl
    rw [hws] at h; cases h
  · rw [moneroEncode_bad_length crc wl k ck ent hl] at h; cases h; exact ⟨rfl, hl⟩

/-- language auto-detection: the first language containing every word is used, `ValueError` if
there is none (after the word-count check) -/
theorem monero_decode_autodetect (ws : List Nat)
    (hcount : ws.length = 12 ∨ ws.length = 13 ∨ ws.length = 24 ∨ ws.length = 25) :
    moneroDecode crc langs none ws =
      match langs.find? (fun l => ws.all (fun w => l.1.contains w)) with
      | some l => moneroDecode crc langs (some l) ws
      | none => .error .value := by
  rw [moneroDecode_eq crc langs none ws hcount]
  unfold moneroLang
  simp only []
  cases hf : langs.find? (fun l => ws.all (fun w => l.1.contains w)) with
  | some l => simp only []; rw [moneroDecode_eq crc langs (some l) ws hcount]; rfl
  | none => rfl

end Monero

/-! ## 3. Electrum v1 -/

section ElectrumV1
variable (wl : List Nat)

theorem v1_encode_eq (ent : Bytes) :
    electrumV1Encode wl ent = if ent.length ≠ 16 then .error .value else chunksEncode wl false ent := by
  unfold electrumV1Encode
  by_cases h : ent.length ≠ 16
  · simp only [if_pos h]; rfl
  · simp only [if_neg h]

theorem v1_decode_eq (ws : List Nat) :
    electrumV1Decode wl ws = if ws.length ≠ 12 then .error .value else chunksDecode wl false ws := by
  unfold electrumV1Decode
  by_cases h : ws.length ≠ 12
  · simp only [if_pos h]; rfl
  · simp only [if_neg h]

/-- the encoder is total on 16-byte entropies and produces 12 words; other lengths are refused -/
theorem v1_encode_wordcount (hlen : wl.length = 1626) (ent : Bytes) (h : ent.length = 16) :
    ∃ ws, electrumV1Encode wl ent = .ok ws ∧ ws.length = 12 := by
  rw [v1_encode_eq, if_neg (by omega), chunksEncode_ok wl (by omega) false ent]
  exact ⟨_, rfl, by rw [List.length_map, encIdx_length _ _ 4 ent (by omega)]⟩

theorem v1_encode_bad_length (ent : Bytes) (h : ent.length ≠ 16) :
    electrumV1Encode wl ent = .error .value := by
  rw [v1_encode_eq, if_pos h]

/-- **round trip** -/
theorem v1_decode_encode (hlen : wl.length = 1626) (hnd : wl.Nodup) (ent : Bytes)
    (h : ent.length = 16) : (electrumV1Encode wl ent >>= electrumV1Decode wl) = .ok ent := by
  have hpos : 0 < wl.length := by omega
  have hcube : 2 ^ 32 ≤ wl.length ^ 3 := by rw [hlen]; norm_num
  rw [v1_encode_eq, if_neg (by omega), chunksEncode_ok wl hpos false ent, ok_bind, v1_decode_eq,
    if_neg (by rw [List.length_map, encIdx_length _ _ 4 ent (by omega)]; omega)]
  exact chunksDecode_encIdx wl hnd hpos hcube false 4 ent (by omega)

/-- **canonicity** -/
theorem v1_decode_canonical (hpos : 0 < wl.length) (ws : List Nat) (e : Bytes)
    (h : electrumV1Decode wl ws = .ok e) : e.length = 16 ∧ electrumV1Encode wl e = .ok ws := by
  rw [v1_decode_eq] at h
  by_cases hc : ws.length ≠ 12
  · rw [if_pos hc] at h; cases h
  rw [if_neg hc] at h
  obtain ⟨h1, h2⟩ := chunksDecode_canonical wl false ws e h
  have hel : e.length = 16 := by omega
  refine ⟨hel, ?_⟩
  have htake : ws.take (ws.length / 3 * 3) = ws := by apply List.take_of_length_le; omega
  rw [v1_encode_eq, if_neg (by omega), chunksEncode_ok wl hpos false e, h2, htake]

/-- **error classes**: only `ValueError` -/
theorem v1_decode_errors (ws : List Nat) (e : Err) (h : electrumV1Decode wl ws = .error e) :
    e = .value := by
  rw [v1_decode_eq] at h
  by_cases hc : ws.length ≠ 12
  · rw [if_pos hc] at h; cases h; rfl
  · rw [if_neg hc] at h; exact chunksDecode_error wl false ws e h

theorem v1_decode_bad_count (ws : List Nat) (h : ws.length ≠ 12) :
    electrumV1Decode wl ws = .error .value := by
  rw [v1_decode_eq, if_pos h]

theorem v1_decode_unknown_word (ws : List Nat) (hw : ∃ w ∈ ws, w ∉ wl) :
    electrumV1Decode wl ws = .error .value := by
  rw [v1_decode_eq]
  by_cases hc : ws.length ≠ 12
  · rw [if_pos hc]
  · rw [if_neg hc]
    apply chunksDecode_of_not_mem
    have htake : ws.take (ws.length / 3 * 3) = ws := by apply List.take_of_length_le; omega
    rw [htake]; exact hw

/-- encoder errors: only `ValueError` (for a non-empty word list) -/
theorem v1_encode_errors (hpos : 0 < wl.length) (ent : Bytes) (e : Err)
    (h : electrumV1Encode wl ent = .error e) : e = .value := by
  rw [v1_encode_eq] at h
  by_cases hc : ent.length ≠ 16
  · rw [if_pos hc] at h; cases h; rfl
  · rw [if_neg hc, chunksEncode_ok wl hpos false ent] at h; cases h

end ElectrumV1

/-! ## 4. Algorand -/

section Algorand

/-- `ConvertBits` 8 → 11 on a byte string: the `⌈8·len/11⌉` least significant base-2048 digits
(least significant first) of the little-endian value of the bytes.  `leDigits t cnt N` is
characterised by `leDigits_length`, `leDigits_lt` and `valLE_leDigits` / `valLE_leDigits_mod`
(`valLE t = Nat.ofDigits (2^t)`). -/
theorem algo_convertBits_8_11 (b : Bytes) :
    algoConvertBits (b.map UInt8.toNat) 8 11
      = some (leDigits 11 ((8 * b.length + 10) / 11) (Bytes.toNatLE b)) := by
  rw [algoConvertBits_eq 8 11 (by omega) _ (by
    intro v hv
    rw [List.mem_map] at hv
    obtain ⟨x, _, rfl⟩ := hv
    exact x.toNat_lt), List.length_map, valLE_bytes]
  have e : 8 * b.length + 11 - 1 = 8 * b.length + 10 := by omega
  rw [e]

/-- `ConvertBits` 11 → 8 on word indices: the `⌈11·len/8⌉` little-endian bytes of the
little-endian base-2048 value of the indices -/
theorem algo_convertBits_11_8 (idxs : List Nat) (h : ∀ i ∈ idxs, i < 2048) :
    algoConvertBits idxs 11 8
      = some (leDigits 8 ((11 * idxs.length + 7) / 8) (Nat.ofDigits 2048 idxs)) := by
  rw [algoConvertBits_eq 11 8 (by omega) _ h, valLE_eq_ofDigits]; rfl

/-- the digit lists above are the unique ones with the right length, range and value -/
theorem leDigits_spec (t cnt N : Nat) :
    (leDigits t cnt N).length = cnt ∧ (∀ d ∈ leDigits t cnt N, d < 2 ^ t) ∧
      Nat.ofDigits (2 ^ t) (leDigits t cnt N) = N % 2 ^ (t * cnt) :=
  ⟨leDigits_length t cnt N, leDigits_lt t cnt N, by
    rw [← valLE_eq_ofDigits, valLE_leDigits_mod]⟩

/-- an out-of-range group is refused -/
theorem algo_convertBits_none (f t : Nat) (data : List Nat) (h : ∃ v ∈ data, 2 ^ f ≤ v) :
    algoConvertBits data f t = none :=
  algoConvertBits_none f t data h

variable (H : Bytes → Bytes) (langs : List (List Nat)) (wl : List Nat)

/-- the encoder is total on 32-byte entropies and produces 25 words -/
theorem algo_encode_wordcount (hlen : wl.length = 2048) (hH : ∀ x, (H x).length = 32)
    (ent : Bytes) (h : ent.length = 32) :
    ∃ ws, algoEncode H wl ent = .ok ws ∧ ws.length = 25 := by
  rw [algoEncode_eq H wl ent h, algoChecksumIdx_eq H ent (by rw [hH]; omega), ok_bind,
    mapM_pyIdx wl _ (by
      intro i hi
      rw [List.mem_append] at hi
      rcases hi with hi | hi
      · have := leDigits_lt 11 24 _ i hi; omega
      · simp only [List.mem_singleton] at hi
        have : Bytes.toNatLE ((H ent).take 2) % 2048 < 2048 := Nat.mod_lt _ (by omega)
        omega)]
  exact ⟨_, rfl, by simp⟩

theorem algo_encode_bad_length (ent : Bytes) (h : ent.length ≠ 32) :
    algoEncode H wl ent = .error .value :=
  algoEncode_bad_length H wl ent h

/-- **round trip** -/
theorem algo_decode_encode (hlen : wl.length = 2048) (hnd : wl.Nodup)
    (hH : ∀ x, (H x).length = 32) (ent : Bytes) (h : ent.length = 32) :
    (algoEncode H wl ent >>= algoDecode H langs (some wl)) = .ok ent := by
  have hH2 : ∀ x, 2 ≤ (H x).length := fun x => by rw [hH]; omega
  set V := Bytes.toNatLE ent with hV
  set c := Bytes.toNatLE ((H ent).take 2) % 2048 with hc
  have hc_lt : c < 2048 := Nat.mod_lt _ (by omega)
  have hVlt : V < 2 ^ 256 := by
    have := toNatLE_lt ent; rw [h] at this
    calc V < 256 ^ 32 := this
      _ = 2 ^ 256 := by norm_num
  have hidx : ∀ i ∈ leDigits 11 24 V ++ [c], i < wl.length := by
    intro i hi
    rw [List.mem_append] at hi
    rcases hi with hi | hi
    · have := leDigits_lt 11 24 _ i hi; omega
    · simp only [List.mem_singleton] at hi; omega
  rw [algoEncode_eq H wl ent h, algoChecksumIdx_eq H ent (hH2 _), ok_bind, mapM_pyIdx wl _ hidx,
    ok_bind, algoDecode_eq, if_neg (by simp), pickLang_some, ok_bind,
    mapM_wordIdx_map wl hnd _ hidx, ok_bind,
    algoTail_eq H _ (by simp) (fun i hi => by have := hidx i hi; omega),
    dropLast_append_of_length _ [c] 1 rfl, valLE_leDigits 11 24 V
      (by
        apply Nat.lt_of_lt_of_le hVlt
        apply Nat.pow_le_pow_right <;> omega),
    if_neg (by omega)]
  have hent : Bytes.ofNatLE 32 V = ent := by rw [← h]; exact ofNatLE_toNatLE ent
  have hlast : (leDigits 11 24 V ++ [c]).getLast? = some c := by simp
  rw [hent, algoChecksumIdx_eq H ent (hH2 _), ok_bind, ← hc, hlast, if_neg (fun h => h rfl)]

/-- **canonicity**: an accepted phrase is exactly the encoding of its decoding.  (This needs the
decoder's "33rd byte is zero" check: 24 words carry 264 bits.) -/
theorem algo_decode_canonical (hlen : wl.length = 2048) (hH : ∀ x, (H x).length = 32)
    (ws : List Nat) (e : Bytes) (h : algoDecode H langs (some wl) ws = .ok e) :
    e.length = 32 ∧ algoEncode H wl e = .ok ws := by
  have hH2 : ∀ x, 2 ≤ (H x).length := fun x => by rw [hH]; omega
  rw [algoDecode_eq] at h
  by_cases hcount : ws.length ≠ 25
  · rw [if_pos hcount] at h; cases h
  rw [if_neg hcount, pickLang_some, ok_bind, bind_eq_ok_iff] at h
  obtain ⟨idxs, hidxs, h⟩ := h
  obtain ⟨hlt, hws⟩ := mapM_wordIdx_ok_mn wl ws idxs hidxs
  have hl : idxs.length = 25 := by rw [mapM_wordIdx_length hidxs]; omega
  have hlt' : ∀ i ∈ idxs, i < 2048 := fun i hi => by have := hlt i hi; omega
  rw [algoTail_eq H idxs hl hlt'] at h
  set V := valLE 11 (dropLast idxs 1) with hV
  by_cases hbig : 2 ^ 256 ≤ V
  · rw [if_pos hbig] at h; cases h
  rw [if_neg hbig, algoChecksumIdx_eq H _ (hH2 _), ok_bind] at h
  set c := Bytes.toNatLE ((H (Bytes.ofNatLE 32 V)).take 2) % 2048 with hc
  by_cases hck : some c ≠ idxs.getLast?
  · rw [if_pos hck] at h; cases h
  rw [if_neg hck] at h
  cases h
  have hel : (Bytes.ofNatLE 32 V).length = 32 := length_ofNatLE 32 V
  refine ⟨hel, ?_⟩
  have hval : Bytes.toNatLE (Bytes.ofNatLE 32 V) = V := toNatLE_ofNatLE (by
    calc V < 2 ^ 256 := by omega
      _ = 256 ^ 32 := by norm_num)
  have hdl : (dropLast idxs 1).length = 24 := by unfold dropLast; rw [List.length_take]; omega
  have hdig : leDigits 11 24 V = dropLast idxs 1 := by
    rw [← hdl]
    apply leDigits_valLE
    intro i hi; unfold dropLast at hi; exact hlt' i (List.mem_of_mem_take hi)
  have hsplit : dropLast idxs 1 ++ [c] = idxs := by
    have : dropLast idxs 1 = idxs.dropLast := by unfold dropLast; rw [List.dropLast_eq_take]
    have hck' : idxs.getLast? = some c := by
      by_contra hne; exact hck (fun h' => hne h'.symm)
    rw [this, List.dropLast_append_getLast? c (by simp [hck'])]
  rw [algoEncode_eq H wl _ hel, algoChecksumIdx_eq H _ (hH2 _), ok_bind, hval, hdig, ← hc, hsplit,
    mapM_pyIdx wl idxs hlt, hws]

/-- what the decoder does, in arithmetic terms -/
theorem algo_decode_eq (hlen : wl.length = 2048) (ws : List Nat) :
    algoDecode H langs (some wl) ws =
      if ws.length ≠ 25 then .error .value else
        ws.mapM (wordIdx wl) >>= fun idxs =>
          if 2 ^ 256 ≤ Nat.ofDigits 2048 (dropLast idxs 1) then .error .value
          else algoChecksumIdx H (Bytes.ofNatLE 32 (Nat.ofDigits 2048 (dropLast idxs 1))) >>= fun ck =>
            if some ck ≠ idxs.getLast? then .error .checksum
            else .ok (Bytes.ofNatLE 32 (Nat.ofDigits 2048 (dropLast idxs 1))) := by
  rw [algoDecode_eq]
  by_cases hcount : ws.length ≠ 25
  · rw [if_pos hcount, if_pos hcount]
  rw [if_neg hcount, if_neg hcount, pickLang_some, ok_bind]
  cases hidxs : ws.mapM (wordIdx wl) with
  | error e => rfl
  | ok idxs =>
    obtain ⟨hlt, _⟩ := mapM_wordIdx_ok_mn wl ws idxs hidxs
    have hl : idxs.length = 25 := by rw [mapM_wordIdx_length hidxs]; omega
    rw [ok_bind, ok_bind, algoTail_eq H idxs hl (fun i hi => by have := hlt i hi; omega),
      valLE_eq_ofDigits]
    rfl

/-- **error classes**: only `ValueError` / `MnemonicChecksumError` (the `.assert` branches of
`ConvertBits` and of the checksum are dead, no `IndexError`) -/
theorem algo_decode_errors (hH : ∀ x, (H x).length = 32) (lang : Option (List Nat))
    (hlang : ∀ l, lang = some l → l.length ≤ 2048) (hlangs : ∀ l ∈ langs, l.length ≤ 2048)
    (ws : List Nat) (e : Err) (h : algoDecode H langs lang ws = .error e) :
    e = .value ∨ e = .checksum := by
  have hH2 : ∀ x, 2 ≤ (H x).length := fun x => by rw [hH]; omega
  rw [algoDecode_eq] at h
  by_cases hcount : ws.length ≠ 25
  · rw [if_pos hcount] at h; cases h; exact Or.inl rfl
  rw [if_neg hcount, bind_eq_error_iff] at h
  rcases h with h | ⟨l, hl, h⟩
  · exact Or.inl (pickLang_error h)
  have hl2048 : l.length ≤ 2048 := by
    cases lang with
    | some l' => rw [pickLang_some] at hl; cases hl; exact hlang l rfl
    | none => exact hlangs l (pickLang_mem hl)
  rw [bind_eq_error_iff] at h
  rcases h with h | ⟨idxs, hidxs, h⟩
  · exact Or.inl (mapM_wordIdx_error_mn l ws e h).1
  obtain ⟨hlt, _⟩ := mapM_wordIdx_ok_mn l ws idxs hidxs
  exact algoTail_error hH2 (by rw [mapM_wordIdx_length hidxs]; omega)
    (fun i hi => by have := hlt i hi; omega) h

/-- language auto-detection -/
theorem algo_decode_autodetect (ws : List Nat) (hcount : ws.length = 25) :
    algoDecode H langs none ws =
      (findLanguage langs ws >>= fun l => algoDecode H langs (some l) ws) := by
  rw [algoDecode_eq, if_neg (by omega)]
  unfold pickLang
  simp only []
  cases hf : findLanguage langs ws with
  | error e => rfl
  | ok l => rw [ok_bind, ok_bind, algoDecode_eq, if_neg (by omega)]; rfl

theorem algo_decode_bad_count (lang : Option (List Nat)) (ws : List Nat) (h : ws.length ≠ 25) :
    algoDecode H langs lang ws = .error .value := by
  rw [algoDecode_eq, if_pos h]

theorem algo_decode_unknown_word (ws : List Nat) (hw : ∃ w ∈ ws, w ∉ wl) :
    algoDecode H langs (some wl) ws = .error .value := by
  rw [algoDecode_eq]
  by_cases hcount : ws.length ≠ 25
  · rw [if_pos hcount]
  · rw [if_neg hcount, pickLang_some, ok_bind, mapM_wordIdx_of_not_mem wl ws hw]; rfl

/-- encoder errors: only `ValueError` -/
theorem algo_encode_errors (hlen : wl.length = 2048) (hH : ∀ x, (H x).length = 32) (ent : Bytes)
    (e : Err) (h : algoEncode H wl ent = .error e) : e = .value := by
  by_cases hl : ent.length = 32
  · obtain ⟨ws, hws, _⟩ := algo_encode_wordcount H wl hlen hH ent hl
    rw [hws] at h; cases h
  · rw [algoEncode_bad_length H wl ent hl] at h; cases h; rfl

end Algorand

/-! ## 5. Electrum v2 -/

section ElectrumV2
variable (langs : List (List Nat)) (wl : List Nat)

/-- `AreEntropyBitsEnough` as a numeric range -/
theorem v2_bits_enough_iff (v : Nat) :
    v2BitsEnough v = true ↔ (2048 ^ 11 ≤ v ∧ v < 2048 ^ 12) ∨ (2048 ^ 23 ≤ v ∧ v < 2048 ^ 24) := by
  rw [pow2048_11, pow2048_12, pow2048_23, pow2048_24]; exact v2BitsEnough_iff v

/-- the encoder succeeds exactly on values with enough bits, and fails with `ValueError`
otherwise -/
theorem v2_encode_ok_iff (hlen : wl.length = 2048) (ent : Bytes) :
    (∃ ws, electrumV2EncodeIdx wl ent = .ok ws) ↔ v2BitsEnough (Bytes.toNatBE ent) = true := by
  rw [v2Encode_eq]
  by_cases h : v2BitsEnough (Bytes.toNatBE ent) = true
  · rw [if_pos h, mapM_pyIdx wl _ (digitsLE_lt _ (by omega) _)]
    exact ⟨fun _ => h, fun _ => ⟨_, rfl⟩⟩
  · rw [if_neg h]
    exact ⟨fun hex => (by obtain ⟨ws, hws⟩ := hex; cases hws), fun h' => absurd h' h⟩

theorem v2_encode_errors (hlen : wl.length = 2048) (ent : Bytes) (e : Err)
    (h : electrumV2EncodeIdx wl ent = .error e) :
    e = .value ∧ v2BitsEnough (Bytes.toNatBE ent) = false := by
  rw [v2Encode_eq] at h
  by_cases hb : v2BitsEnough (Bytes.toNatBE ent) = true
  · rw [if_pos hb, mapM_pyIdx wl _ (digitsLE_lt _ (by omega) _)] at h; cases h
  · rw [if_neg hb] at h; cases h; exact ⟨rfl, by simpa using hb⟩

/-- 12 or 24 words -/
theorem v2_encode_wordcount (hlen : wl.length = 2048) (ent : Bytes) (ws : List Nat)
    (h : electrumV2EncodeIdx wl ent = .ok ws) : ws.length = 12 ∨ ws.length = 24 := by
  rw [v2Encode_eq] at h
  by_cases hb : v2BitsEnough (Bytes.toNatBE ent) = true
  · rw [if_pos hb] at h
    obtain ⟨_, hws⟩ := mapM_pyIdx_ok wl _ ws h
    rw [hws, List.length_map, hlen]
    exact digitsLE_length_of_bits hb
  · rw [if_neg hb] at h; cases h

/-- **round trip** (through the value: the decoder returns the minimal big-endian bytes, so
leading zero bytes of `ent` are dropped) -/
theorem v2_decode_encode (hlen : wl.length = 2048) (hnd : wl.Nodup) (ent : Bytes) (ws : List Nat)
    (h : electrumV2EncodeIdx wl ent = .ok ws) :
    electrumV2DecodeIdx langs (some wl) ws = .ok (toBytesAuto (Bytes.toNatBE ent)) := by
  rw [v2Encode_eq] at h
  by_cases hb : v2BitsEnough (Bytes.toNatBE ent) = true
  swap
  · rw [if_neg hb] at h; cases h
  rw [if_pos hb] at h
  obtain ⟨hlt, hws⟩ := mapM_pyIdx_ok wl _ ws h
  rw [v2Decode_eq, pickLang_some, ok_bind, hws, mapM_wordIdx_map wl hnd _ hlt, ok_bind]
  unfold digitsLE
  rw [List.reverse_reverse, ofDigitsBE_digitsBE _ (by omega)]
  rfl

/-- … and exactly `ent` when it has no leading zero byte -/
theorem v2_decode_encode_minimal (hlen : wl.length = 2048) (hnd : wl.Nodup) (ent : Bytes)
    (ws : List Nat) (h : electrumV2EncodeIdx wl ent = .ok ws) (h0 : ent.head? ≠ some 0) :
    electrumV2DecodeIdx langs (some wl) ws = .ok ent := by
  rw [v2_decode_encode langs wl hlen hnd ent ws h]
  have hb := (v2_encode_ok_iff wl hlen ent).mp ⟨ws, h⟩
  have hv : Bytes.toNatBE ent ≠ 0 := by
    intro hz; rw [hz] at hb; exact absurd hb (by decide)
  rw [toBytesAuto_of_ne_zero hv, natToBytesMin_toNatBE]
  congr 1
  cases ent with
  | nil => rfl
  | cons a t =>
    have : (a == 0) = false := by
      apply Bool.eq_false_iff.mpr
      intro e; apply h0; simp [eq_of_beq e]
    simp [this]

/-- decoder errors: only `ValueError`, whatever the language argument -/
theorem v2_decode_errors (lang : Option (List Nat)) (ws : List Nat) (e : Err)
    (h : electrumV2DecodeIdx langs lang ws = .error e) : e = .value := by
  rw [v2Decode_eq, bind_eq_error_iff] at h
  rcases h with h | ⟨l, _, h⟩
  · exact pickLang_error h
  rw [bind_eq_error_iff] at h
  rcases h with h | ⟨idxs, _, h⟩
  · exact (mapM_wordIdx_error_mn l ws e h).1
  · cases h

/-- language auto-detection -/
theorem v2_decode_autodetect (ws : List Nat) :
    electrumV2DecodeIdx langs none ws =
      (findLanguage langs ws >>= fun l => electrumV2DecodeIdx langs (some l) ws) := by
  rw [v2Decode_eq]
  unfold pickLang
  simp only []
  cases hf : findLanguage langs ws with
  | error e => rfl
  | ok l => rw [ok_bind, ok_bind, v2Decode_eq]; rfl

theorem v2_decode_unknown_word (ws : List Nat) (hw : ∃ w ∈ ws, w ∉ wl) :
    electrumV2DecodeIdx langs (some wl) ws = .error .value := by
  rw [v2Decode_eq, pickLang_some, ok_bind, mapM_wordIdx_of_not_mem wl ws hw]; rfl

/-- what the decoder computes -/
theorem v2_decode_ok_iff (ws : List Nat) (e : Bytes) :
    electrumV2DecodeIdx langs (some wl) ws = .ok e ↔
      (∀ w ∈ ws, w ∈ wl) ∧
      e = toBytesAuto (ofDigitsBE wl.length ((ws.map (fun w => wl.idxOf w)).reverse)) := by
  rw [v2Decode_eq, pickLang_some, ok_bind]
  constructor
  · intro h
    rw [bind_eq_ok_iff] at h
    obtain ⟨idxs, hidxs, h⟩ := h
    cases h
    refine ⟨?_, by rw [mapM_wordIdx_eq_map_idxOf hidxs]⟩
    intro w hw
    by_contra hnot
    rw [mapM_wordIdx_of_not_mem wl ws ⟨w, hw, hnot⟩] at hidxs; cases hidxs
  · rintro ⟨hmem, rfl⟩
    cases hidxs : ws.mapM (wordIdx wl) with
    | error err =>
      obtain ⟨_, w, hw, hnot⟩ := mapM_wordIdx_error_mn wl ws err hidxs
      exact absurd (hmem w hw) hnot
    | ok idxs => rw [mapM_wordIdx_eq_map_idxOf hidxs]; rfl

/-- **canonicity, corrected**: an accepted phrase whose value has enough bits re-encodes to
itself *provided its last word is not the word of index 0*.  (Without the proviso the statement
is false, see `v2_noncanonical_exists`.) -/
theorem v2_decode_canonical_of_bits (hlen : wl.length = 2048) (ws : List Nat) (e : Bytes)
    (h : electrumV2DecodeIdx langs (some wl) ws = .ok e)
    (hb : v2BitsEnough (Bytes.toNatBE e) = true)
    (hlast : ∀ w, ws.getLast? = some w → wl.idxOf w ≠ 0) :
    electrumV2EncodeIdx wl e = .ok ws := by
  rw [v2Decode_eq, pickLang_some, ok_bind, bind_eq_ok_iff] at h
  obtain ⟨idxs, hidxs, h⟩ := h
  cases h
  obtain ⟨hlt, hws⟩ := mapM_wordIdx_ok_mn wl ws idxs hidxs
  have hl0 : idxs.getLast? ≠ some 0 := by
    rw [mapM_wordIdx_getLast hidxs]
    intro hc
    cases hw : ws.getLast? with
    | none => rw [hw] at hc; cases hc
    | some w =>
      rw [hw] at hc
      simp only [Option.map_some, Option.some.injEq] at hc
      exact hlast w hw hc
  rw [v2Encode_eq, if_pos hb, toNatBE_toBytesAuto,
    digitsLE_ofDigitsBE_reverse _ (by omega) idxs hlt hl0, mapM_pyIdx wl idxs hlt, hws]

/-- the exact condition for an accepted phrase to be the encoding of its decoding -/
theorem v2_decode_canonical_iff (hlen : wl.length = 2048) (hnd : wl.Nodup) (ws : List Nat)
    (e : Bytes) (h : electrumV2DecodeIdx langs (some wl) ws = .ok e) :
    electrumV2EncodeIdx wl e = .ok ws ↔
      v2BitsEnough (Bytes.toNatBE e) = true ∧ ∀ w, ws.getLast? = some w → wl.idxOf w ≠ 0 := by
  constructor
  · intro henc
    have hb := (v2_encode_ok_iff wl hlen e).mp ⟨ws, henc⟩
    refine ⟨hb, ?_⟩
    rw [v2Encode_eq, if_pos hb] at henc
    obtain ⟨hlt, hws⟩ := mapM_pyIdx_ok wl _ ws henc
    intro w hw hz
    rw [hws, List.getLast?_map] at hw
    cases hd : (digitsLE wl.length (Bytes.toNatBE e)).getLast? with
    | none => rw [hd] at hw; cases hw
    | some d =>
      rw [hd] at hw
      simp only [Option.map_some, Option.some.injEq] at hw
      have hdlt := hlt d (List.mem_of_getLast? hd)
      have hidx := (wordIdx_ok_iff_idxOf wl _ d).mp (wordIdx_getD wl hnd d hdlt)
      rw [hw, hz] at hidx
      have := digitsLE_getLast_ne_zero wl.length (by omega) (Bytes.toNatBE e)
      rw [hd, ← hidx.2] at this
      exact this rfl
  · rintro ⟨hb, hlast⟩
    exact v2_decode_canonical_of_bits langs wl hlen ws e h hb hlast

/-- when the last word has index 0 the decoded value has fewer base-2048 digits than the
phrase has words … -/
theorem v2_last_zero_value_lt (hlen : wl.length = 2048) (ws : List Nat) (e : Bytes) (w : Nat)
    (h : electrumV2DecodeIdx langs (some wl) ws = .ok e)
    (hw : ws.getLast? = some w) (hz : wl.idxOf w = 0) :
    Bytes.toNatBE e < 2048 ^ (ws.length - 1) := by
  rw [v2Decode_eq, pickLang_some, ok_bind, bind_eq_ok_iff] at h
  obtain ⟨idxs, hidxs, h⟩ := h
  cases h
  obtain ⟨hlt, _⟩ := mapM_wordIdx_ok_mn wl ws idxs hidxs
  have hl := mapM_wordIdx_length hidxs
  have hlast : idxs.getLast? = some 0 := by rw [mapM_wordIdx_getLast hidxs, hw]; simp [hz]
  have hsplit : idxs.dropLast ++ [0] = idxs := List.dropLast_append_getLast? 0 (by simp [hlast])
  rw [toNatBE_toBytesAuto, ← hsplit, List.reverse_append, List.reverse_singleton,
    List.singleton_append, ofDigitsBE_cons_zero, hlen, ← hl]
  have := ofDigitsBE_lt_mn 2048 (by omega) idxs.dropLast.reverse (by
    intro d hd
    have := hlt d (List.mem_of_mem_dropLast (List.mem_reverse.mp hd)); omega)
  simpa using this

/-- … hence the phrase is accepted but is not the encoding of anything -/
theorem v2_last_zero_not_reencodable (hlen : wl.length = 2048) (hnd : wl.Nodup) (ws : List Nat)
    (e : Bytes) (w : Nat) (h : electrumV2DecodeIdx langs (some wl) ws = .ok e)
    (hw : ws.getLast? = some w) (hz : wl.idxOf w = 0) :
    electrumV2EncodeIdx wl e ≠ .ok ws := by
  intro henc
  exact ((v2_decode_canonical_iff langs wl hlen hnd ws e h).mp henc).2 w hw hz

/-- appending the word of index 0 to an accepted phrase gives another accepted phrase with the
same decoding: `electrumV2DecodeIdx` is not injective -/
theorem v2_append_zero_word (hlen : wl.length = 2048) (hnd : wl.Nodup) (ws : List Nat) (e : Bytes)
    (h : electrumV2DecodeIdx langs (some wl) ws = .ok e) :
    electrumV2DecodeIdx langs (some wl) (ws ++ [wl.getD 0 0]) = .ok e := by
  rw [v2Decode_eq, pickLang_some, ok_bind, bind_eq_ok_iff] at h
  obtain ⟨idxs, hidxs, h⟩ := h
  cases h
  have h0 : [wl.getD 0 0].mapM (wordIdx wl) = .ok [0] := by
    rw [List.mapM_cons, wordIdx_getD wl hnd 0 (by omega)]; rfl
  rw [v2Decode_eq, pickLang_some, ok_bind, List.mapM_append, hidxs, h0]
  simp only [ok_bind, pure_eq_ok, List.reverse_append, List.reverse_singleton,
    List.singleton_append, ofDigitsBE_cons_zero]

/-- **the uncorrected canonicity statement is false**: there is an accepted phrase whose value
has enough bits and which is not the encoding of its decoding -/
theorem v2_noncanonical_exists (hlen : wl.length = 2048) (hnd : wl.Nodup) :
    ∃ (ws : List Nat) (e : Bytes), electrumV2DecodeIdx langs (some wl) ws = .ok e ∧
      v2BitsEnough (Bytes.toNatBE e) = true ∧ electrumV2EncodeIdx wl e ≠ .ok ws := by
  have hb : v2BitsEnough (Bytes.toNatBE (toBytesAuto (2 ^ 121))) = true := by
    rw [toNatBE_toBytesAuto, v2BitsEnough_iff]
    exact Or.inl ⟨Nat.le_refl _, Nat.pow_lt_pow_right (by omega) (by omega)⟩
  obtain ⟨ws, hws⟩ := (v2_encode_ok_iff wl hlen _).mpr hb
  have hdec := v2_decode_encode langs wl hlen hnd _ ws hws
  rw [toNatBE_toBytesAuto] at hdec
  refine ⟨ws ++ [wl.getD 0 0], toBytesAuto (2 ^ 121),
    v2_append_zero_word langs wl hlen hnd ws _ hdec, hb, ?_⟩
  rw [hws]
  intro he
  have := congrArg List.length (Except.ok.inj he)
  simp at this

end ElectrumV2

end BipVerif.Props.C17
