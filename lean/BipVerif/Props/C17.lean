import BipVerif.Model.Mnemonics
namespace BipVerif.Props.C17
theorem placeholder : True := trivial
end BipVerif.Props.C17
