import BipVerif.Model.Bip32
namespace BipVerif.Props.C06
theorem placeholder : True := trivial
end BipVerif.Props.C06
