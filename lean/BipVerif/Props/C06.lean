/-
C06 — BIP-32 paths: derivation along a path is the chain of child derivations (compositional),
the parser accepts every spelling of a path and inverts the printer, and it fails only with
`Bip32PathError` and never returns an index outside `[0, 2^32)`.
-/
import BipVerif.Lemmas.Path

namespace BipVerif.Props.C06
open BipVerif BipVerif.Model

/-! ### derivation -/

/-- deriving a relative path is the left-to-right chain of `ChildKey` calls -/
theorem derive_eq_child_chain (child : Node → Nat → R Node) (nd : Node) (p : List Nat) :
    derivePathWith child nd ⟨p, false⟩ = p.foldlM child nd := by
  simp [derivePathWith]

/-- on a depth-0 (master) node an absolute path derives like the relative one -/
theorem derive_absolute_on_master (child : Node → Nat → R Node) (nd : Node) (h : nd.depth = 0)
    (p : List Nat) (a : Bool) : derivePathWith child nd ⟨p, a⟩ = p.foldlM child nd := by
  simp [derivePathWith, h]

/-- an absolute path is refused on any non-master node, whatever the path -/
theorem absolute_refused_on_child (child : Node → Nat → R Node) (nd : Node) (p : List Nat)
    (h : nd.depth > 0) : derivePathWith child nd ⟨p, true⟩ = .error .value := by
  simp [derivePathWith, h]
  rfl

/-- **compositionality**: deriving `p ++ q` is deriving `p` and then `q` from the result -/
theorem derive_append (child : Node → Nat → R Node) (nd : Node) (p q : List Nat) :
    derivePathWith child nd ⟨p ++ q, false⟩
      = derivePathWith child nd ⟨p, false⟩ >>= fun x => derivePathWith child x ⟨q, false⟩ := by
  simp only [derive_eq_child_chain, List.foldlM_append]

/-- compositionality for an absolute path on a master node (the tail is relative) -/
theorem derive_append_absolute (child : Node → Nat → R Node) (nd : Node) (h : nd.depth = 0)
    (p q : List Nat) :
    derivePathWith child nd ⟨p ++ q, true⟩
      = derivePathWith child nd ⟨p, true⟩ >>= fun x => derivePathWith child x ⟨q, false⟩ := by
  simp only [derive_eq_child_chain, derive_absolute_on_master _ _ h, List.foldlM_append]

/-! ### printing and parsing -/

/-- **the parser inverts the printer** on every path whose indices fit in 32 bits (including the
empty relative path `""` and the empty absolute path `"m"`) -/
theorem parse_print (p : Path) (hr : ∀ e ∈ p.elems, e < 2 ^ 32) :
    parsePath (printPath p) = .ok p := by
  rw [printPath_eq_respell]
  exact parsePath_respell _ _ (canonSpelling_ok p) hr

/-- **spelling independence**: every member of the family `respell σ p` of spellings of `p`
(`Model.Spelling`: per element a marker `'`/`h`/`p` on the index minus `2^31` or on the full index,
or no marker on the full index; `gap` extra '/' before each element; blanks with `str.isspace()`
around each element; leading zeros; every digit written in ASCII or in any other Unicode `Nd` block;
`trail` trailing '/'; for absolute paths a leading "m" after `lead` extra '/') parses to `p`. -/
theorem spelling_independent (σ : Spelling) (p : Path) (hσ : σ.Ok p)
    (hr : ∀ e ∈ p.elems, e < 2 ^ 32) : parsePath (respell σ p) = .ok p :=
  parsePath_respell σ p hσ hr

/-- two admissible spellings of the same path parse alike -/
theorem spelling_independent' (σ τ : Spelling) (p : Path) (hσ : σ.Ok p) (hτ : τ.Ok p)
    (hr : ∀ e ∈ p.elems, e < 2 ^ 32) : parsePath (respell σ p) = parsePath (respell τ p) := by
  rw [parsePath_respell σ p hσ hr, parsePath_respell τ p hτ hr]

/-! ### parser failures and range -/

/-- the parser fails with `Bip32PathError` only -/
theorem parse_error_kind (s : List Char) (e : Err) (h : parsePath s = .error e) : e = .path := by
  rw [parsePath_eq] at h
  split at h <;> exact parseTokens_error _ _ _ h

/-- a '/'-delimited piece that is not an index (`parsePathElem` fails on it: not a decimal number,
doubled marker, only blanks, ...) makes the whole parse fail, wherever it stands -/
theorem parse_rejects_bad_element (a t b : List Char) (e : Err) (hne : t ≠ []) (hs : '/' ∉ t)
    (hm : t ≠ ['m']) (hbad : parsePathElem t = .error e) :
    parsePath (a ++ '/' :: (t ++ '/' :: b)) = .error .path := by
  apply parsePath_bad_token _ t e _ hm hbad
  rw [pathTokens_append_sep, pathTokens_append_sep, pathTokens_of_not_mem t hs]
  cases t with
  | nil => exact absurd rfl hne
  | cons c t => simp

/-- the range hypothesis of `spelling_independent` is necessary: any admissible spelling of a path
with an index `≥ 2^32` is rejected -/
theorem parse_rejects_out_of_range (σ : Spelling) (p : Path) (hσ : σ.Ok p) (e : Nat)
    (he : e ∈ p.elems) (hr : 2 ^ 32 ≤ e) : parsePath (respell σ p) = .error .path :=
  parsePath_respell_out_of_range σ p hσ e he hr

/-- every index of a parsed path fits in 32 bits -/
theorem parse_ok_range (s : List Char) (p : Path) (h : parsePath s = .ok p) :
    ∀ e ∈ p.elems, e < 2 ^ 32 := by
  rw [parsePath_eq] at h
  split at h <;> exact (parseTokens_ok_range _ _ _ h).2

end BipVerif.Props.C06
