import BipVerif.Model.Substrate
namespace BipVerif.Props.C19
theorem placeholder : True := trivial
end BipVerif.Props.C19
