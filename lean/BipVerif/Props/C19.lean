/-
C19 — Substrate: the path parser and printer are mutually inverse, junction chain codes are the
32-byte values the Substrate convention prescribes, derivation composes along paths, public-only
nodes refuse hard junctions, and addresses are SS58.
Property theorems only; proofs in `BipVerif/Lemmas/Substrate.lean`.  sr25519 is an oracle table;
the only fact assumed about it is the explicit hypothesis `Sr25519SoftComm`.
-/
import BipVerif.Lemmas.Substrate

namespace BipVerif.Props.C19
open BipVerif BipVerif.Prim BipVerif.Model BipVerif.Model.SubstrateLemmas

/-! ### 1. parser / printer -/

/-- for junctions with non-empty, slash-free texts -/
theorem parse_print (p : List SubElem) (hp : ∀ e ∈ p, e.text ≠ [] ∧ '/' ∉ e.text) :
    subParsePath (subPrintPath p) = .ok p :=
  SubstrateLemmas.parse_print p hp

/-- accepted strings are printed forms (and the parsed junctions are non-empty and slash-free) -/
theorem print_parse (s : List Char) (p : List SubElem) (h : subParsePath s = .ok p) :
    subPrintPath p = s ∧ ∀ e ∈ p, e.text ≠ [] ∧ '/' ∉ e.text :=
  SubstrateLemmas.print_parse s p h

theorem parse_ok_iff (s : List Char) (p : List SubElem) :
    subParsePath s = .ok p ↔ subPrintPath p = s ∧ ∀ e ∈ p, e.text ≠ [] ∧ '/' ∉ e.text :=
  SubstrateLemmas.parse_ok_iff s p

theorem parse_error_kind (s : List Char) (e : Err) (h : subParsePath s = .error e) : e = .path :=
  SubstrateLemmas.parse_error_kind s e h

/-- a path element string: one or two slashes are accepted, three or more are refused -/
theorem elem_slash_count (n : Nat) (body : List Char) (hn : 1 ≤ n) (hb : body ≠ []) (hs : '/' ∉ body) :
    subElemOf (List.replicate n '/' ++ body) =
      if n ≤ 2 then .ok { text := body, hard := decide (n ≥ 2) } else .error .path :=
  subElemOf_shape n body hn hb hs

/-! ### 2–4. chain codes -/

theorem chainCode_length (e : SubElem) (cc : Bytes) (h : subChainCode e = .ok cc) : cc.length = 32 :=
  SubstrateLemmas.chainCode_length e cc h

theorem numeric_cc_width_independent (e : SubElem) (v : Nat) (hp : parseDecimal e.text = some v)
    (hv : v < 2 ^ 256) : subChainCode e = .ok (Bytes.ofNatLE 32 v) :=
  SubstrateLemmas.numeric_cc_width_independent e v hp hv

theorem numeric_too_large_refused (e : SubElem) (v : Nat) (hp : parseDecimal e.text = some v)
    (hv : 2 ^ 256 ≤ v) : subChainCode e = .error .path :=
  SubstrateLemmas.numeric_too_large_refused e v hp hv

/-- non-decimal text with UTF-8 bytes `b`: `compact(|b|) ‖ b` zero-padded to 32 bytes when
`compactLen + |b| ≤ 32`, else its BLAKE2b-256 -/
theorem text_cc_spec (e : SubElem) (hp : parseDecimal e.text = none) :
    subChainCode e =
      (scaleCompact (String.ofList e.text).toUTF8.toList.length >>= fun c =>
        .ok (if c.length + (String.ofList e.text).toUTF8.toList.length ≤ 32
             then c ++ (String.ofList e.text).toUTF8.toList ++
               List.replicate (32 - (c.length + (String.ofList e.text).toUTF8.toList.length)) 0
             else blake2b256 (c ++ (String.ofList e.text).toUTF8.toList))) :=
  SubstrateLemmas.text_cc_spec e hp

theorem text_cc_short (e : SubElem) (hp : parseDecimal e.text = none)
    (hl : (String.ofList e.text).toUTF8.toList.length ≤ 31) :
    subChainCode e =
      .ok (UInt8.ofNat (4 * (String.ofList e.text).toUTF8.toList.length) ::
        (String.ofList e.text).toUTF8.toList ++
          List.replicate (31 - (String.ofList e.text).toUTF8.toList.length) 0) :=
  SubstrateLemmas.text_cc_short e hp hl

theorem text_cc_long (e : SubElem) (hp : parseDecimal e.text = none)
    (hl : 32 ≤ (String.ofList e.text).toUTF8.toList.length) (c : Bytes)
    (hc : scaleCompact (String.ofList e.text).toUTF8.toList.length = .ok c) :
    subChainCode e = .ok (blake2b256 (c ++ (String.ofList e.text).toUTF8.toList)) :=
  SubstrateLemmas.text_cc_long e hp hl c hc

theorem chainCode_error_kinds (e : SubElem) (err : Err) (h : subChainCode e = .error err) :
    (err = .path ∧ ∃ v, parseDecimal e.text = some v ∧ 2 ^ 256 ≤ v) ∨
    (err = .value ∧ parseDecimal e.text = none ∧ 2 ^ 536 ≤ (String.ofList e.text).toUTF8.toList.length) :=
  chainCode_error e err h

/-! ### 5. derivation -/

theorem derive_append (o : Oracle) (nd : SubNode) (p q : List SubElem) :
    subDerivePath o nd (p ++ q) = subDerivePath o nd p >>= fun x => subDerivePath o x q :=
  SubstrateLemmas.derive_append o nd p q

theorem hard_refused_on_public (o : Oracle) (nd : SubNode) (e : SubElem) (hp : nd.priv = none)
    (hh : e.hard = true) : subChildKey o nd e = .error .key :=
  SubstrateLemmas.hard_refused_on_public o nd e hp hh

theorem soft_public_uses_public_oracle (o : Oracle) (nd : SubNode) (e : SubElem) (hp : nd.priv = none)
    (hh : e.hard = false) :
    subChildKey o nd e =
      subChainCode e >>= fun cc => askOr o "sr_softpub" (cc ++ nd.pub) >>= fun r =>
        .ok { priv := none, pub := r, path := nd.path ++ [e] } :=
  SubstrateLemmas.soft_public_uses_public_oracle o nd e hp hh

/-- under the oracle hypothesis, private soft derivation followed by neutering equals public soft
derivation of the neutered node (same public key, same recorded path) -/
theorem soft_comm (o : Oracle)
    (ho : ∀ cc pub priv r, o.ask "sr_soft" (cc ++ pub ++ priv) = some r →
      o.ask "sr_softpub" (cc ++ pub) = some (r.take 32))
    (nd c : SubNode) (e : SubElem) (priv : Bytes)
    (hp : nd.priv = some priv) (hh : e.hard = false) (h : subChildKey o nd e = .ok c) :
    subChildKey o { nd with priv := none } e = .ok { c with priv := none } :=
  SubstrateLemmas.soft_comm o ho nd c e priv hp hh h

theorem soft_comm_path (o : Oracle)
    (ho : ∀ cc pub priv r, o.ask "sr_soft" (cc ++ pub ++ priv) = some r →
      o.ask "sr_softpub" (cc ++ pub) = some (r.take 32))
    (p : List SubElem) (hsoft : ∀ e ∈ p, e.hard = false) (nd c : SubNode) (priv : Bytes)
    (hp : nd.priv = some priv) (h : subDerivePath o nd p = .ok c) :
    subDerivePath o { nd with priv := none } p = .ok { c with priv := none } :=
  SubstrateLemmas.soft_comm_path o ho p hsoft nd c priv hp h

theorem derive_records_path (o : Oracle) (p : List SubElem) (nd c : SubNode)
    (h : subDerivePath o nd p = .ok c) : c.path = nd.path ++ p :=
  derive_path o p nd c h

/-! ### 6. addresses -/

theorem address_is_ss58 (fmt : Nat) (nd : SubNode) :
    subAddress fmt nd = ss58Encode blake2b512 nd.pub fmt := rfl

theorem address_decodes (fmt : Nat) (nd : SubNode) (hl : nd.pub.length = 32) (hf : fmt ≤ 16383)
    (h46 : fmt ≠ 46) (h47 : fmt ≠ 47) :
    (subAddress fmt nd >>= ss58Decode blake2b512) = .ok (fmt, nd.pub) :=
  SubstrateLemmas.address_decodes fmt nd hl hf h46 h47

theorem address_refused (fmt : Nat) (nd : SubNode)
    (h : nd.pub.length ≠ 32 ∨ 16383 < fmt ∨ fmt = 46 ∨ fmt = 47) :
    subAddress fmt nd = .error .value :=
  address_errors fmt nd h

end BipVerif.Props.C19
