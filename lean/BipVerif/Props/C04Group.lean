/-
C04 — watch-only derivation on the two ECDSA curves **without** the key-layer hypothesis:
`EcdsaLaw`/`EcdsaInfLaw` are theorems for secp256k1 and NIST P-256 (`Props/C12Group.lean`, via
Mathlib's group law), so the commutation theorems of `Props/C04.lean` hold for the executable
model as it stands.  What remains as a hypothesis is only `NoZeroSum` (the 2^-256 event in which
the public side meets the point at infinity; `ckdPub_comm_iff_*` shows it is exactly the obstruction).
-/
import BipVerif.Props.C04
import BipVerif.Props.C12Group

namespace BipVerif.Props.C04Group
open BipVerif BipVerif.Prim BipVerif.Model BipVerif.GroupModel

/-- the law for whichever ECDSA curve the node is on -/
theorem ecdsaLaw_of_isEcdsa (c : CurveT) (hc : c.isEcdsa = true) : EcdsaLaw c ∧ EcdsaInfLaw c := by
  cases c <;> simp [CurveT.isEcdsa] at hc
  · exact ⟨C12Group.ecdsaLaw_secp256k1, C12Group.ecdsaInfLaw_secp256k1⟩
  · exact ⟨C12Group.ecdsaLaw_nist256p1, C12Group.ecdsaInfLaw_nist256p1⟩

/-- **commutation, unconditional in the arithmetic**: deriving the non-hardened child from the
neutered parent gives the neutered child (same public key, chain code, depth, index, parent
fingerprint, or the same error) on secp256k1 and P-256 -/
theorem ckdPub_comm (nd : Node) (idx : Nat) (hc : nd.curve.isEcdsa = true) (hs : nd.Sound)
    (hh : isHardened idx = false) (hz : NoZeroSum nd idx) :
    slip10ChildKey nd.neuter idx = (slip10ChildKey nd idx).map Node.neuter :=
  C04.ckdPub_comm nd (ecdsaLaw_of_isEcdsa _ hc).1 idx hc hs hh hz

/-- commutation holds **iff** the public loop does not stop at a zero sum -/
theorem ckdPub_comm_iff (nd : Node) (idx : Nat) (hc : nd.curve.isEcdsa = true) (hs : nd.Sound)
    (hh : isHardened idx = false) (hi : idx < 2 ^ 32) :
    slip10ChildKey nd.neuter idx = (slip10ChildKey nd idx).map Node.neuter ↔ NoZeroSum nd idx :=
  C04.ckdPub_comm_iff nd (ecdsaLaw_of_isEcdsa _ hc).1 (ecdsaLaw_of_isEcdsa _ hc).2 idx hc hs hh hi

/-- along any path without hardened elements -/
theorem derivePath_comm (nd : Node) (hc : nd.curve.isEcdsa = true) (p : Path)
    (hl : ∀ i ∈ p.elems, isHardened i = false) (hs : nd.Sound) (hz : PathNoZeroSum nd p.elems) :
    derivePathWith slip10ChildKey nd.neuter p =
      (derivePathWith slip10ChildKey nd p).map Node.neuter :=
  C04.derivePath_comm nd (ecdsaLaw_of_isEcdsa _ hc).1 hc p hl hs hz

/-- from the master key of any seed -/
theorem master_derivePath_comm (c : CurveT) (hc : c.isEcdsa = true) (seed : Bytes) (m : Node)
    (hm : slip10Master c seed = .ok m) (p : Path) (hl : ∀ i ∈ p.elems, isHardened i = false)
    (hz : PathNoZeroSum m p.elems) :
    derivePathWith slip10ChildKey m.neuter p =
      (derivePathWith slip10ChildKey m p).map Node.neuter :=
  C04.master_derivePath_comm c (ecdsaLaw_of_isEcdsa _ hc).1 hc seed m hm p hl hz

end BipVerif.Props.C04Group
