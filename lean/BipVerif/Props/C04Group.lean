/-
C04 — watch-only derivation on the two ECDSA curves **without** the key-layer hypothesis:
`EcdsaLaw`/`EcdsaInfLaw` are theorems for secp256k1 and NIST P-256 (`Props/C12Group.lean`, via
Mathlib's group law), so the commutation theorems of `Props/C04.lean` hold for the executable
model as it stands.  What remains as a hypothesis is only `NoZeroSum` (the 2^-256 event in which
the public side meets the point at infinity; `ckdPub_comm_iff_*` shows it is exactly the obstruction).
-/
import BipVerif.Props.C04
import BipVerif.Props.C12Group
import BipVerif.Props.C12Ed

namespace BipVerif.Props.C04Group
open BipVerif BipVerif.Prim BipVerif.Model BipVerif.GroupModel

/-- the law for whichever ECDSA curve the node is on -/
theorem ecdsaLaw_of_isEcdsa (c : CurveT) (hc : c.isEcdsa = true) : EcdsaLaw c ∧ EcdsaInfLaw c := by
  cases c <;> simp [CurveT.isEcdsa] at hc
  · exact ⟨C12Group.ecdsaLaw_secp256k1, C12Group.ecdsaInfLaw_secp256k1⟩
  · exact ⟨C12Group.ecdsaLaw_nist256p1, C12Group.ecdsaInfLaw_nist256p1⟩

/-- **commutation, unconditional in the arithmetic**: deriving the non-hardened child from the
neutered parent gives the neutered child (same public key, chain code, depth, index, parent
fingerprint, or the same error) on secp256k1 and P-256 -/
theorem ckdPub_comm (nd : Node) (idx : Nat) (hc : nd.curve.isEcdsa = true) (hs : nd.Sound)
    (hh : isHardened idx = false) (hz : NoZeroSum nd idx) :
    slip10ChildKey nd.neuter idx = (slip10ChildKey nd idx).map Node.neuter :=
  C04.ckdPub_comm nd (ecdsaLaw_of_isEcdsa _ hc).1 idx hc hs hh hz

/-- commutation holds **iff** the public loop does not stop at a zero sum -/
theorem ckdPub_comm_iff (nd : Node) (idx : Nat) (hc : nd.curve.isEcdsa = true) (hs : nd.Sound)
    (hh : isHardened idx = false) (hi : idx < 2 ^ 32) :
    slip10ChildKey nd.neuter idx = (slip10ChildKey nd idx).map Node.neuter ↔ NoZeroSum nd idx :=
  C04.ckdPub_comm_iff nd (ecdsaLaw_of_isEcdsa _ hc).1 (ecdsaLaw_of_isEcdsa _ hc).2 idx hc hs hh hi

/-- along any path without hardened elements -/
theorem derivePath_comm (nd : Node) (hc : nd.curve.isEcdsa = true) (p : Path)
    (hl : ∀ i ∈ p.elems, isHardened i = false) (hs : nd.Sound) (hz : PathNoZeroSum nd p.elems) :
    derivePathWith slip10ChildKey nd.neuter p =
      (derivePathWith slip10ChildKey nd p).map Node.neuter :=
  C04.derivePath_comm nd (ecdsaLaw_of_isEcdsa _ hc).1 hc p hl hs hz

/-- from the master key of any seed -/
theorem master_derivePath_comm (c : CurveT) (hc : c.isEcdsa = true) (seed : Bytes) (m : Node)
    (hm : slip10Master c seed = .ok m) (p : Path) (hl : ∀ i ∈ p.elems, isHardened i = false)
    (hz : PathNoZeroSum m p.elems) :
    derivePathWith slip10ChildKey m.neuter p =
      (derivePathWith slip10ChildKey m p).map Node.neuter :=
  C04.master_derivePath_comm c (ecdsaLaw_of_isEcdsa _ hc).1 hc seed m hm p hl hz

/-! ### BIP32-Ed25519 (Khovratovich–Law, Cardano Icarus/Ledger): `KholawLaw` is a theorem
(`Props/C12Ed.lean`: the Edwards arithmetic of `Prim` is a group in which `B` has order `L`) -/

/-- commutation under the explicit range hypothesis on the child's left scalar -/
theorem kholaw_ckdPub_comm (nd : Node) (k : Bytes) (idx : Nat)
    (hcur : nd.curve = .ed25519Kholaw) (hsch : nd.scheme = .kholaw)
    (hp : nd.priv = some k) (hpub : pubOfPriv .ed25519Kholaw k = some nd.pub)
    (hh : isHardened idx = false)
    (hrange : Bytes.toNatLE (k.take 32) +
        kholawPubScalar .kholaw
          ((hmacSha512 nd.chainCode ([2] ++ nd.pub.drop 1 ++ kholawIndexBytes nd.scheme idx)).take 32)
        < 2 ^ 255) :
    kholawChildKey nd.neuter idx = (kholawChildKey nd idx).map Node.neuter :=
  C04.kholaw_ckdPub_comm C12Ed.kholawLaw nd k idx hcur hsch hp hpub hh hrange

/-- **success form, no hypothesis about the arithmetic and none about the size of `kL`**: whenever
the private node has a non-hardened child `c`, the watch-only node has the child `c.neuter` -/
theorem kholaw_ckdPub_comm_of_ok (nd : Node) (k : Bytes) (idx : Nat)
    (hcur : nd.curve = .ed25519Kholaw) (hsch : nd.scheme = .kholaw)
    (hp : nd.priv = some k) (hpub : pubOfPriv .ed25519Kholaw k = some nd.pub)
    (hh : isHardened idx = false) (c : Node) (hc : kholawChildKey nd idx = .ok c) :
    kholawChildKey nd.neuter idx = .ok c.neuter :=
  C04.kholaw_ckdPub_comm_of_ok C12Ed.kholawLaw nd k idx hcur hsch hp hpub hh c hc

/-- Electrum v1 (secp256k1): the public key of `(m + s) mod n` is `m·G + s·G`, on the executable
functions -/
theorem electrumV1_pub_secp256k1 (m s : ℕ) :
    secp256k1.mulG ((m + s) % secp256k1.n) = secp256k1.add (secp256k1.mulG m) (secp256k1.mulG s) := by
  have hG := C12Group.secp256k1_G_onCurve
  refine WGroup.toM_injOn (WGroup.onCurve_mulG _ hG)
    (WGroup.onCurve_add (WGroup.onCurve_mulG m hG) (WGroup.onCurve_mulG s hG)) ?_
  rw [WGroup.toM_mulG _ hG, WGroup.toM_add (WGroup.onCurve_mulG m hG) (WGroup.onCurve_mulG s hG),
    WGroup.toM_mulG m hG, WGroup.toM_mulG s hG]
  exact GroupModel.electrumV1_pub WGroup.secp256k1_hasOrder m s

/-- Monero sub-address keys on the executable Edwards functions: `D = B_spend + m·B` is the public
key of `(b + m) mod L`, and `C = a·D` the public key of `a·((b+m) mod L) mod L` -/
theorem monero_subaddr_ed (a b m : ℕ) :
    edAdd (edMulBase b) (edMulBase m) = edMulBase ((b + m) % edL) ∧
      edMul a (edAdd (edMulBase b) (edMulBase m)) = edMulBase (a * ((b + m) % edL) % edL) := by
  have hb := EdGroup.edOnCurve_edMulBase b
  have hm := EdGroup.edOnCurve_edMulBase m
  have hadd := EdGroup.edAdd_correct hb hm
  have h := GroupModel.monero_subaddr EdGroup.edB_hasOrder a b m
  constructor
  · refine EdGroup.toE_injOn hadd.1 (EdGroup.edOnCurve_edMulBase _) ?_
    rw [hadd.2, EdGroup.toE_edMulBase, EdGroup.toE_edMulBase, EdGroup.toE_edMulBase]
    exact h.1
  · have hmul := EdGroup.edMul_correct a hadd.1
    refine EdGroup.toE_injOn hmul.2 (EdGroup.edOnCurve_edMulBase _) ?_
    rw [hmul.1, hadd.2, EdGroup.toE_edMulBase, EdGroup.toE_edMulBase, EdGroup.toE_edMulBase]
    exact h.2

end BipVerif.Props.C04Group
