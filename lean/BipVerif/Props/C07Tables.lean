/-
C07 — "purpose and coin type fixed by the standard and the coin": the hierarchy constants of every
registered coin (SLIP-44 coin type, default path, BIP-32 class) in the table regenerated from /repo on
this run equal the pinned registry.  Only the fields the hierarchy discipline depends on are projected,
so a change to an address or version constant (C08's business) does not touch this theorem.
-/
import BipVerif.Gen.Coins
import BipVerif.Golden.Coins

namespace BipVerif.Props.C07Tables
open BipVerif BipVerif.Model

/-- the fields of a coin row the BIP-44 level discipline reads -/
def hier (r : CoinRow) : String × String × String × Nat × String × String :=
  (r.family, r.member, r.variant, r.coinIdx, r.defPath, r.bip32)

/-- every registered member is configured with its registered coin type, default path and key scheme -/
theorem coin_types_registered : ∀ g ∈ Golden.coinRows.map hier, g ∈ Gen.coinRows.map hier := by
  decide +kernel

/-- the registry is not empty (the statement above is not vacuous) -/
theorem registry_nonempty : Golden.coinRows ≠ [] := by decide

end BipVerif.Props.C07Tables
