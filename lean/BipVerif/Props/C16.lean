import BipVerif.Model.Monero
namespace BipVerif.Props.C16
theorem placeholder : True := trivial
end BipVerif.Props.C16
