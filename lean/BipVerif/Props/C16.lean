/-
C16 — Monero wallets: scalar reduction, key derivation from the spend key / seed, sub-address
derivation, watch-only wallets, address codec round trip, error kinds.
`keccak256` and the Edwards arithmetic (`edMulBase`, `edAdd`, `edMul`) are opaque here: no theorem
unfolds them, and none needs a hypothesis about them (the key-canonicity facts asked for in the
work order turned out to be provable from the key layer's own definitions).  The only facts used
about the arithmetic are that `edAdd` returns reduced coordinates and the point-by-point check that
the eight small-order points fail the subgroup test of `edMulNoclamp`.
The sub-address step `C = a·D` is libsodium's `crypto_scalarmult_ed25519_noclamp` (`edMulNoclamp`):
it refuses a `D` that is the identity or lies outside the prime-order subgroup (`L·D ≠ (0,1)`), and
an identity product.
Helper lemmas: `BipVerif/Lemmas/Monero.lean`.
-/
import BipVerif.Lemmas.Monero

namespace BipVerif.Props.C16
open BipVerif BipVerif.Prim BipVerif.Model BipVerif.Model.MoneroLemmas

/-! ### 1. `sc_reduce` -/

/-- the reduced scalar is below the group order … -/
theorem scReduce_lt (b : Bytes) : Bytes.toNatLE (scReduce b) < edL := MoneroLemmas.scReduce_lt b

/-- … occupies 32 bytes … -/
theorem scReduce_length (b : Bytes) : (scReduce b).length = 32 := MoneroLemmas.scReduce_length b

/-- … is congruent to the input … -/
theorem scReduce_value (b : Bytes) : Bytes.toNatLE (scReduce b) = Bytes.toNatLE b % edL :=
  MoneroLemmas.scReduce_toNatLE b

/-- … and is therefore always a valid Monero private key. -/
theorem scReduce_valid (b : Bytes) : privValid .ed25519Monero (scReduce b) = true :=
  MoneroLemmas.scReduce_valid b

/-- reduction fixes valid keys (so `FromSeed` on a reduced 32-byte seed uses the seed itself) -/
theorem scReduce_fixes_valid (k : Bytes) (h : privValid .ed25519Monero k = true) : scReduce k = k :=
  MoneroLemmas.scReduce_of_valid k h

/-! ### 2. key derivation -/

/-- **the private view key is the reduced Keccak-256 of the private spend key** -/
theorem view_is_reduced_keccak_of_spend {k : Bytes} {w : XmrWallet} (h : xmrFromSpend k = .ok w) :
    w.privView = scReduce (keccak256 k) ∧ w.privSpend = some k := by
  obtain ⟨_, h2, h3, _, _⟩ := xmrFromSpend_ok h
  exact ⟨h3, h2⟩

/-- the complete success characterisation of `FromPrivateSpendKey` -/
theorem fromSpend_spec {k : Bytes} {w : XmrWallet} (h : xmrFromSpend k = .ok w) :
    privValid .ed25519Monero k = true ∧
    w.privSpend = some k ∧
    w.privView = scReduce (keccak256 k) ∧
    w.pubSpend = edEncode (edMulBase (edNoClampScalar k)) ∧
    w.pubView = edEncode (edMulBase (edNoClampScalar (scReduce (keccak256 k)))) ∧
    edMulBase (edNoClampScalar k) ≠ edIdentity ∧
    edMulBase (edNoClampScalar (scReduce (keccak256 k))) ≠ edIdentity := by
  obtain ⟨h1, h2, h3, h4, h5⟩ := xmrFromSpend_ok h
  obtain ⟨_, a2, a3⟩ := xmrPubOfPriv_ok h4
  rw [h3] at h5
  obtain ⟨_, b2, b3⟩ := xmrPubOfPriv_ok h5
  exact ⟨h1, h2, h3, a3, b3, a2, b2⟩

/-- `FromSeed`: a 32-byte seed is reduced directly, any other seed is hashed first -/
theorem fromSeed_spec (seed : Bytes) :
    xmrFromSeed seed = xmrFromSpend (scReduce (if seed.length = 32 then seed else keccak256 seed)) :=
  rfl

/-- `FromBip44PrivateKey`: the spend key is the reduced Keccak-256 of the BIP-44 private key -/
theorem fromBip44_spec (k : Bytes) : xmrFromBip44Priv k = xmrFromSpend (scReduce (keccak256 k)) := rfl

/-- wallets built from a seed: the spend key is the reduced seed (hash) -/
theorem fromSeed_keys {seed : Bytes} {w : XmrWallet} (h : xmrFromSeed seed = .ok w) :
    w.privSpend = some (scReduce (if seed.length = 32 then seed else keccak256 seed)) ∧
    w.privView = scReduce (keccak256 (scReduce (if seed.length = 32 then seed else keccak256 seed))) := by
  rw [fromSeed_spec] at h
  obtain ⟨h1, h2⟩ := view_is_reduced_keccak_of_spend h
  exact ⟨h2, h1⟩

/-! ### 3. sub-address (0,0) and index range -/

theorem subaddr_zero_is_primary_keys (w : XmrWallet) :
    xmrSubaddrKeys w 0 0 = .ok (w.pubSpend, w.pubView) := xmrSubaddrKeys_zero w

theorem subaddr_zero_is_primary (w : XmrWallet) (nv snv : Bytes) :
    xmrSubaddress w nv snv 0 0 = xmrPrimaryAddress w nv := by
  unfold xmrSubaddress
  rw [if_pos (by simp)]

/-- indices beyond 32 bits are refused with `ValueError` -/
theorem subaddr_index_range (w : XmrWallet) (minor major : Nat)
    (h : minor > 2 ^ 32 - 1 ∨ major > 2 ^ 32 - 1) :
    xmrSubaddrKeys w minor major = .error .value := by
  cases h with
  | inl h => exact xmrSubaddrKeys_minor_range w minor major h
  | inr h => exact xmrSubaddrKeys_major_range w minor major h

theorem subaddress_index_range (w : XmrWallet) (nv snv : Bytes) (minor major : Nat)
    (h : minor > 2 ^ 32 - 1 ∨ major > 2 ^ 32 - 1) :
    xmrSubaddress w nv snv minor major = .error .value := by
  unfold xmrSubaddress
  have h0 : ¬ (decide (minor = 0) && decide (major = 0)) = true := by
    simp only [Bool.and_eq_true, decide_eq_true_eq]; omega
  rw [if_neg h0, subaddr_index_range w minor major h]
  rfl

/-- the derivation for `(major, minor) ≠ (0,0)`:
`m = sc_reduce(keccak("SubAddr\0" ‖ a ‖ le32 major ‖ le32 minor))`, `D = B + m·G`, `C = a·D`.
A successful derivation has moreover checked that `D` is a non-identity point of the prime-order
subgroup (`L·D = (0,1)`), as libsodium's `crypto_scalarmult_ed25519_noclamp` demands. -/
theorem subaddr_keys_spec (w : XmrWallet) (minor major : Nat) (hm : minor ≤ 2 ^ 32 - 1)
    (hM : major ≤ 2 ^ 32 - 1) (hne : ¬ (minor = 0 ∧ major = 0)) {s v : Bytes}
    (h : xmrSubaddrKeys w minor major = .ok (s, v)) :
    ∃ b, edDecodeLenient w.pubSpend = some b ∧
      let m := Bytes.toNatLE (scReduce (keccak256 (subaddrMsg w.privView major minor)))
      m ≠ 0 ∧ m < edL ∧
      s = edEncode (edAdd b (edMulBase m)) ∧
      v = edEncode (edMul (Bytes.toNatLE w.privView % 2 ^ 255) (edAdd b (edMulBase m))) ∧
      edMul (Bytes.toNatLE w.privView % 2 ^ 255) (edAdd b (edMulBase m)) ≠ edIdentity ∧
      edAdd b (edMulBase m) ≠ edIdentity ∧
      edMul edL (edAdd b (edMulBase m)) = edIdentity ∧
      edMulNoclamp (Bytes.toNatLE w.privView % 2 ^ 255) (edAdd b (edMulBase m)) =
        some (edMul (Bytes.toNatLE w.privView % 2 ^ 255) (edAdd b (edMulBase m))) := by
  rw [xmrSubaddrKeys_eq w minor major hm hM hne] at h
  split at h
  · cases h
  · rename_i b hb
    refine ⟨b, hb, ?_⟩
    dsimp only at h ⊢
    split at h
    · cases h
    · rename_i hm0
      split at h
      · cases h
      · rename_i c hc
        have := Except.ok.inj h
        simp only [Prod.mk.injEq] at this
        obtain ⟨c1, c2, c3, c4⟩ := (edMulNoclamp_eq_some_iff _ _ _).mp hc
        rw [edNorm_edAdd] at c1
        rw [Nat.mod_mod] at c3 c4
        subst c4
        exact ⟨hm0, MoneroLemmas.scReduce_lt _, this.1.symm, this.2.symm, c3, c1, c2, hc⟩

/-- the success case restated on the libsodium primitive: with `D = B + m·G`, the derivation
succeeds exactly when `edMulNoclamp a D` does, and then returns `(enc D, enc C)` -/
theorem subaddr_keys_of_noclamp (w : XmrWallet) (minor major : Nat) (hm : minor ≤ 2 ^ 32 - 1)
    (hM : major ≤ 2 ^ 32 - 1) (hne : ¬ (minor = 0 ∧ major = 0)) {b C : EdPoint}
    (hb : edDecodeLenient w.pubSpend = some b)
    (hm0 : Bytes.toNatLE (scReduce (keccak256 (subaddrMsg w.privView major minor))) ≠ 0)
    (hC : edMulNoclamp (Bytes.toNatLE w.privView % 2 ^ 255)
      (edAdd b (edMulBase (Bytes.toNatLE (scReduce (keccak256 (subaddrMsg w.privView major minor))))))
        = some C) :
    xmrSubaddrKeys w minor major =
      .ok (edEncode (edAdd b (edMulBase
        (Bytes.toNatLE (scReduce (keccak256 (subaddrMsg w.privView major minor)))))), edEncode C) := by
  rw [xmrSubaddrKeys_eq w minor major hm hM hne, hb]
  dsimp only
  rw [if_neg hm0, hC]

/-- … in particular when `D` is a non-identity point of the prime-order subgroup and `a·D` is not
the identity (the hypotheses under which the model before the repair already succeeded) -/
theorem subaddr_keys_of_subgroup (w : XmrWallet) (minor major : Nat) (hm : minor ≤ 2 ^ 32 - 1)
    (hM : major ≤ 2 ^ 32 - 1) (hne : ¬ (minor = 0 ∧ major = 0)) {b : EdPoint}
    (hb : edDecodeLenient w.pubSpend = some b)
    (hm0 : Bytes.toNatLE (scReduce (keccak256 (subaddrMsg w.privView major minor))) ≠ 0)
    (hD : edAdd b (edMulBase (Bytes.toNatLE (scReduce (keccak256 (subaddrMsg w.privView major minor)))))
      ≠ edIdentity)
    (hL : edMul edL (edAdd b (edMulBase
      (Bytes.toNatLE (scReduce (keccak256 (subaddrMsg w.privView major minor)))))) = edIdentity)
    (hC : edMul (Bytes.toNatLE w.privView % 2 ^ 255) (edAdd b (edMulBase
      (Bytes.toNatLE (scReduce (keccak256 (subaddrMsg w.privView major minor)))))) ≠ edIdentity) :
    xmrSubaddrKeys w minor major =
      .ok (edEncode (edAdd b (edMulBase
            (Bytes.toNatLE (scReduce (keccak256 (subaddrMsg w.privView major minor)))))),
           edEncode (edMul (Bytes.toNatLE w.privView % 2 ^ 255) (edAdd b (edMulBase
            (Bytes.toNatLE (scReduce (keccak256 (subaddrMsg w.privView major minor)))))))) := by
  apply subaddr_keys_of_noclamp w minor major hm hM hne hb hm0
  rw [edMulNoclamp_eq_some_iff, edNorm_edAdd, Nat.mod_mod]
  exact ⟨hD, hL, hC, rfl⟩

/-- **a sub-address spend point outside the prime-order subgroup is refused** (libsodium's
`crypto_scalarmult_ed25519_noclamp` returns `-1`, bip_utils raises `ValueError`): when
`D = B + m·G` is the identity or `L·D ≠ (0,1)` — e.g. a public spend key with a small-order
component handed to a watch-only wallet — no keys are produced, whatever the view key. -/
theorem subaddr_refused_off_subgroup (w : XmrWallet) (minor major : Nat) (hm : minor ≤ 2 ^ 32 - 1)
    (hM : major ≤ 2 ^ 32 - 1) (hne : ¬ (minor = 0 ∧ major = 0)) {b : EdPoint}
    (hb : edDecodeLenient w.pubSpend = some b)
    (hD : edAdd b (edMulBase (Bytes.toNatLE (scReduce (keccak256 (subaddrMsg w.privView major minor)))))
        = edIdentity ∨
      edMul edL (edAdd b (edMulBase
        (Bytes.toNatLE (scReduce (keccak256 (subaddrMsg w.privView major minor)))))) ≠ edIdentity) :
    xmrSubaddrKeys w minor major = .error .value := by
  rw [xmrSubaddrKeys_eq w minor major hm hM hne, hb]
  dsimp only
  split
  · rfl
  · rw [edMulNoclamp_off_subgroup _ (by rw [edNorm_edAdd]; exact hD)]

/-- the same at address level -/
theorem subaddress_refused_off_subgroup (w : XmrWallet) (nv snv : Bytes) (minor major : Nat)
    (hm : minor ≤ 2 ^ 32 - 1) (hM : major ≤ 2 ^ 32 - 1) (hne : ¬ (minor = 0 ∧ major = 0))
    {b : EdPoint} (hb : edDecodeLenient w.pubSpend = some b)
    (hD : edAdd b (edMulBase (Bytes.toNatLE (scReduce (keccak256 (subaddrMsg w.privView major minor)))))
        = edIdentity ∨
      edMul edL (edAdd b (edMulBase
        (Bytes.toNatLE (scReduce (keccak256 (subaddrMsg w.privView major minor)))))) ≠ edIdentity) :
    xmrSubaddress w nv snv minor major = .error .value := by
  unfold xmrSubaddress
  have h0 : ¬ (decide (minor = 0) && decide (major = 0)) = true := by
    simp only [Bool.and_eq_true, decide_eq_true_eq]; exact hne
  rw [if_neg h0, subaddr_refused_off_subgroup w minor major hm hM hne hb hD]
  rfl

/-- no point of small order is ever accepted as the operand of `a·D` / `Ed25519Point.__mul__`:
`L` is odd, so the subgroup test fails for orders 2, 4 and 8 (and the identity is refused first) -/
theorem noclamp_refuses_small_order (k : Nat) {T : EdPoint} (h : T ∈ edSmallOrder) :
    edMulNoclamp k T = none := edMulNoclamp_small_order k h

/-- exact acceptance condition of the libsodium primitive -/
theorem noclamp_spec (k : Nat) (P r : EdPoint) :
    edMulNoclamp k P = some r ↔
      edNorm P ≠ edIdentity ∧ edMul edL P = edIdentity ∧
        edMul (k % 2 ^ 255) P ≠ edIdentity ∧ r = edMul (k % 2 ^ 255) P :=
  edMulNoclamp_eq_some_iff k P r

/-! ### 4. the hashed index encoding is injective -/

/-- `"SubAddr" ‖ 0 ‖ a ‖ le32 major ‖ le32 minor` determines `(a, major, minor)` for view keys of
equal length (in particular for a fixed 32-byte view key) and indices in `[0, 2^32)`. -/
theorem subaddr_index_injective {a a' : Bytes} {major minor major' minor' : Nat}
    (hl : a.length = a'.length)
    (hM : major < 2 ^ 32) (hm : minor < 2 ^ 32) (hM' : major' < 2 ^ 32) (hm' : minor' < 2 ^ 32)
    (h : "SubAddr".toUTF8.toList ++ [0] ++ a ++ Bytes.ofNatLE 4 major ++ Bytes.ofNatLE 4 minor
       = "SubAddr".toUTF8.toList ++ [0] ++ a' ++ Bytes.ofNatLE 4 major' ++ Bytes.ofNatLE 4 minor') :
    a = a' ∧ major = major' ∧ minor = minor' :=
  subaddrMsg_inj hl hM hm hM' hm' h

/-- the message really is the one hashed by the model (ties `subaddrMsg` to the text above) -/
theorem subaddrMsg_def (a : Bytes) (major minor : Nat) :
    subaddrMsg a major minor
      = "SubAddr".toUTF8.toList ++ [0] ++ a ++ Bytes.ofNatLE 4 major ++ Bytes.ofNatLE 4 minor := rfl

/-! ### 5. watch-only wallets -/

/-- a watch-only wallet built from the view key and public spend key of a full wallet carries the
same three address-relevant fields.  (No key-layer hypothesis is needed: the public spend key of
a full wallet is a 32-byte encoding, and the Monero key parser returns 32-byte inputs unchanged.) -/
theorem watchOnly_same_keys {k : Bytes} {full wo : XmrWallet} (hf : xmrFromSpend k = .ok full)
    (hw : xmrWatchOnly full.privView full.pubSpend = .ok wo) :
    wo.privView = full.privView ∧ wo.pubSpend = full.pubSpend ∧ wo.pubView = full.pubView := by
  obtain ⟨_, _, _, f4, f5⟩ := xmrFromSpend_ok hf
  obtain ⟨_, _, w3, w4, w5⟩ := xmrWatchOnly_ok hw
  refine ⟨w3, pubFromBytes_monero_of_length (xmrPubOfPriv_length f4) w4, ?_⟩
  rw [f5] at w5
  exact (Except.ok.inj w5).symm

/-- existence: when the full wallet's public spend key re-validates (key-layer fact), the
watch-only constructor succeeds and returns the full wallet minus the private spend key -/
theorem watchOnly_of_full {k : Bytes} {full : XmrWallet} (hf : xmrFromSpend k = .ok full)
    (hcanon : pubFromBytes .ed25519Monero full.pubSpend = some full.pubSpend) :
    xmrWatchOnly full.privView full.pubSpend = .ok { full with privSpend := none } := by
  obtain ⟨_, _, f3, _, f5⟩ := xmrFromSpend_ok hf
  rw [xmrWatchOnly_eq, if_pos (by rw [f3]; exact MoneroLemmas.scReduce_valid _), hcanon]
  dsimp only
  rw [f5]

/-- **a watch-only wallet produces exactly the addresses of the full wallet** -/
theorem watchOnly_same_addresses {k : Bytes} {full wo : XmrWallet} (hf : xmrFromSpend k = .ok full)
    (hw : xmrWatchOnly full.privView full.pubSpend = .ok wo) :
    (∀ nv, xmrPrimaryAddress wo nv = xmrPrimaryAddress full nv) ∧
    (∀ nv snv minor major, xmrSubaddress wo nv snv minor major = xmrSubaddress full nv snv minor major) ∧
    (∀ minor major, xmrSubaddrKeys wo minor major = xmrSubaddrKeys full minor major) ∧
    (∀ nv pid, xmrIntegratedAddress wo nv pid = xmrIntegratedAddress full nv pid) := by
  obtain ⟨h1, h2, h3⟩ := watchOnly_same_keys hf hw
  have hv : addrView wo = addrView full := by unfold addrView; rw [h1, h2, h3]
  exact ⟨fun nv => xmrPrimaryAddress_congr hv nv,
    fun nv snv mi ma => xmrSubaddress_congr hv nv snv mi ma,
    fun mi ma => xmrSubaddrKeys_congr hv mi ma,
    fun nv pid => xmrIntegratedAddress_congr hv nv pid⟩

/-- the address functions read only `(privView, pubSpend, pubView)` -/
theorem addresses_depend_on_view_fields {w w' : XmrWallet} (hv : w.privView = w'.privView)
    (hs : w.pubSpend = w'.pubSpend) (hp : w.pubView = w'.pubView) :
    (∀ nv, xmrPrimaryAddress w nv = xmrPrimaryAddress w' nv) ∧
    (∀ nv snv minor major, xmrSubaddress w nv snv minor major = xmrSubaddress w' nv snv minor major) ∧
    (∀ minor major, xmrSubaddrKeys w minor major = xmrSubaddrKeys w' minor major) ∧
    (∀ nv pid, xmrIntegratedAddress w nv pid = xmrIntegratedAddress w' nv pid) := by
  have h : addrView w = addrView w' := by unfold addrView; rw [hv, hs, hp]
  exact ⟨fun nv => xmrPrimaryAddress_congr h nv,
    fun nv snv mi ma => xmrSubaddress_congr h nv snv mi ma,
    fun mi ma => xmrSubaddrKeys_congr h mi ma,
    fun nv pid => xmrIntegratedAddress_congr h nv pid⟩

/-- a watch-only wallet has no private spend key: asking for it is a `MoneroKeyError` -/
theorem watchOnly_private_spend_refused {v p : Bytes} {w : XmrWallet}
    (h : xmrWatchOnly v p = .ok w) : xmrPrivateSpend w = .error .key := by
  obtain ⟨_, h2, _⟩ := xmrWatchOnly_ok h
  unfold xmrPrivateSpend
  rw [h2]
  rfl

/-- … whereas a full wallet hands it out -/
theorem full_private_spend {k : Bytes} {w : XmrWallet} (h : xmrFromSpend k = .ok w) :
    xmrPrivateSpend w = .ok k := by
  obtain ⟨_, h2, _⟩ := xmrFromSpend_ok h
  unfold xmrPrivateSpend
  rw [h2]
  rfl

/-! ### 6. address codec -/

/-- **decode ∘ encode**: every address the encoder produces (standard, sub-address or integrated,
any network-version bytes) decodes to the concatenation of the two canonical public keys.  The
key-canonicity facts (32 bytes, canonical keys re-validate) are proved, not assumed. -/
theorem addr_decode_encode {netVer : Bytes} {payId : Option Bytes} {spend view : Bytes}
    {a : List Char} (h : xmrAddrEncode netVer payId spend view = .ok a) :
    ∃ s v, addrKey .ed25519Monero spend = .ok s ∧ addrKey .ed25519Monero view = .ok v ∧
      s.length = 32 ∧ v.length = 32 ∧ xmrAddrDecode netVer payId a = .ok (s ++ v) := by
  obtain ⟨hp, s, v, hs, hv, rfl⟩ := xmrAddrEncode_ok h
  have hs' := (addrKey_ok_iff _ _ _).mp hs
  have hv' := (addrKey_ok_iff _ _ _).mp hv
  have ls := (pubFromBytes_monero_some hs').2.1
  have lv := (pubFromBytes_monero_some hv').2.1
  refine ⟨s, v, hs, hv, ls, lv, ?_⟩
  apply xmrAddrDecode_payload netVer payId s v ls lv _ _ hp
  · unfold pubValid; rw [pubFromBytes_monero_idem hs']; rfl
  · unfold pubValid; rw [pubFromBytes_monero_idem hv']; rfl

/-- the form asked for in the work order (hypotheses there are redundant but harmless) -/
theorem addr_decode_encode' {netVer : Bytes} {payId : Option Bytes} {spend view s v : Bytes}
    {a : List Char} (hs : addrKey .ed25519Monero spend = .ok s)
    (hv : addrKey .ed25519Monero view = .ok v)
    (h : xmrAddrEncode netVer payId spend view = .ok a) :
    xmrAddrDecode netVer payId a = .ok (s ++ v) := by
  obtain ⟨s', v', hs', hv', _, _, hd⟩ := addr_decode_encode h
  rw [hs] at hs'; rw [hv] at hv'
  cases Except.ok.inj hs'; cases Except.ok.inj hv'
  exact hd

/-- wallet-level corollary: the primary address of a wallet decodes to its two public keys
whenever these re-validate (always the case for constructor-built wallets, see
`watchOnly_of_full` for the same hypothesis) -/
theorem primary_address_decodes {w : XmrWallet} {nv : Bytes} {a : List Char}
    (hs : pubFromBytes .ed25519Monero w.pubSpend = some w.pubSpend)
    (hv : pubFromBytes .ed25519Monero w.pubView = some w.pubView)
    (h : xmrPrimaryAddress w nv = .ok a) : xmrAddrDecode nv none a = .ok (w.pubSpend ++ w.pubView) :=
  addr_decode_encode' ((addrKey_ok_iff _ _ _).mpr hs) ((addrKey_ok_iff _ _ _).mpr hv) h

/-- the encoder refuses payment ids that are not 8 bytes long -/
theorem addr_encode_payid_length (netVer p spend view : Bytes) (h : p.length ≠ 8) :
    xmrAddrEncode netVer (some p) spend view = .error .value := by
  unfold xmrAddrEncode
  dsimp only
  rw [if_pos h]
  rfl

/-- standard and integrated decoders are mutually exclusive (model after the repair of finding
F-xmrint-std): an address accepted without payment id is refused, with `ValueError`, by a decoder
that expects one — the expected id is no longer ignored -/
theorem addr_decode_standard_refused_by_integrated {netVer : Bytes} {a : List Char} {r : Bytes}
    (pid : Bytes) (h : xmrAddrDecode netVer none a = .ok r) :
    xmrAddrDecode netVer (some pid) a = .error .value := xmrAddrDecode_none_some pid h

/-- the payload length a decoder has checked: 64 bytes without, 72 with payment id -/
theorem addr_decode_payload_length {netVer : Bytes} {payId : Option Bytes} {a : List Char} {r : Bytes}
    (h : xmrAddrDecode netVer payId a = .ok r) :
    ∃ dec p, xmrDecode a = .ok dec ∧ removePrefix (dropLast dec 4) netVer = .ok p ∧
      p.length = (match payId with | none => 64 | some _ => 72) := xmrAddrDecode_length h

/-! ### 7. error kinds -/

theorem fromSpend_errors {k : Bytes} {e : Err} (h : xmrFromSpend k = .error e) :
    e = .key ∨ e = .value := xmrFromSpend_error h

theorem fromSeed_errors {seed : Bytes} {e : Err} (h : xmrFromSeed seed = .error e) :
    e = .key ∨ e = .value := xmrFromSpend_error h

/-- sharper: after `sc_reduce` the key checks cannot fail, so `FromSeed` fails only with the
plain `ValueError` of a zero scalar (identity public key) -/
theorem fromSeed_errors_value {seed : Bytes} {e : Err} (h : xmrFromSeed seed = .error e) :
    e = .value := by
  rw [fromSeed_spec, xmrFromSpend_eq, if_pos (MoneroLemmas.scReduce_valid _)] at h
  have aux : ∀ b e', xmrPubOfPriv (scReduce b) = .error e' → e' = .value := by
    intro b e' he
    rw [xmrPubOfPriv_eq, if_pos (MoneroLemmas.scReduce_valid _)] at he
    split at he
    · exact (Except.error.inj he).symm
    · cases he
  split at h
  · rename_i e' he
    cases Except.error.inj h
    exact aux _ _ he
  · split at h
    · rename_i e' he
      cases Except.error.inj h
      exact aux _ _ he
    · cases h

theorem watchOnly_errors {v p : Bytes} {e : Err} (h : xmrWatchOnly v p = .error e) :
    e = .key ∨ e = .value := xmrWatchOnly_error h

theorem subaddrKeys_errors {w : XmrWallet} {minor major : Nat} {e : Err}
    (h : xmrSubaddrKeys w minor major = .error e) : e = .value := xmrSubaddrKeys_error h

theorem addrEncode_errors {netVer : Bytes} {payId : Option Bytes} {spend view : Bytes} {e : Err}
    (h : xmrAddrEncode netVer payId spend view = .error e) : e = .value := xmrAddrEncode_error h

/-- an invalid private spend key is a `MoneroKeyError` -/
theorem fromSpend_invalid_key (k : Bytes) (h : privValid .ed25519Monero k = false) :
    xmrFromSpend k = .error .key := by
  rw [xmrFromSpend_eq, if_neg (by rw [h]; decide)]

end BipVerif.Props.C16
