/-
C05 — "every coin's version bytes": the extended-key version bytes of every registered coin (every
member of the BIP-44/49/84/86/CIP-1852 enumerations, including the alternate-version toggle rows) in
the table regenerated from /repo on this run equal the pinned registry.  Only the version bytes are
projected, so changes to other constants (C07/C08's business) do not touch this theorem.
-/
import BipVerif.Gen.Coins
import BipVerif.Golden.Coins

namespace BipVerif.Props.C05Tables
open BipVerif BipVerif.Model

/-- the fields of a coin row that extended-key serialisation reads -/
def vers (r : CoinRow) : String × String × String × List Nat × List Nat :=
  (r.family, r.member, r.variant, r.keyNetPub, r.keyNetPriv)

/-- every registered member (and toggle variant) is configured with its registered xpub/xprv version bytes -/
theorem key_net_versions_registered : ∀ g ∈ Golden.coinRows.map vers, g ∈ Gen.coinRows.map vers := by
  decide +kernel

/-- version words are four bytes and the public and private words of one row differ (a parsed key is public or private, never both) -/
theorem key_net_versions_wf : ∀ r ∈ Gen.coinRows, r.keyNetPub.length = 4 ∧ r.keyNetPriv.length = 4 ∧ r.keyNetPub ≠ r.keyNetPriv := by
  decide +kernel

end BipVerif.Props.C05Tables
