import BipVerif.Model.Basic
namespace BipVerif.Props.C14
theorem placeholder : True := trivial
end BipVerif.Props.C14
