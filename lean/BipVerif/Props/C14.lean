/-
C14 — only the documented exception family escapes.

For every modelled entry point that has an error-kind theorem this file states the uniform
corollary

    entry args = .error e → e.documented = true

(`Err.documented`: `ValueError` and subclasses, the checksum errors, the key errors, the path
errors, `Bip44DepthError`).  In particular no `IndexError`, `KeyError`, `OverflowError`,
`AssertionError`, third-party exception or modelling artefact (`.fuel`) comes out.  The proofs are the
error-kind theorems of the other property modules and of `Lemmas/Escape.lean`; nothing is
re-proved here.  Entries whose modelled bound (`.fuel`) cannot be excluded without a hash assumption
are named `…_partial`; one `TypeError` entry is listed separately.
-/
import BipVerif.Props.C01
import BipVerif.Props.C02
import BipVerif.Props.C03
import BipVerif.Props.C05
import BipVerif.Props.C06
import BipVerif.Props.C07
import BipVerif.Props.C10Codec
import BipVerif.Props.C11
import BipVerif.Props.C13Wif
import BipVerif.Props.C17
import BipVerif.Lemmas.Escape

namespace BipVerif.Props.C14
open BipVerif BipVerif.Prim BipVerif.Model BipVerif.Model.EscapeLemmas

/-! ### the five documented classes -/

theorem doc_value {e : Err} (h : e = .value) : e.documented = true := by subst h; rfl
theorem doc_checksum {e : Err} (h : e = .checksum) : e.documented = true := by subst h; rfl
theorem doc_key {e : Err} (h : e = .key) : e.documented = true := by subst h; rfl
theorem doc_path {e : Err} (h : e = .path) : e.documented = true := by subst h; rfl
theorem doc_depth {e : Err} (h : e = .depth) : e.documented = true := by subst h; rfl

theorem doc_value_or_checksum {e : Err} (h : e = .value ∨ e = .checksum) :
    e.documented = true := by
  rcases h with rfl | rfl <;> rfl

theorem doc_key_value_checksum {e : Err} (h : e = .key ∨ e = .value ∨ e = .checksum) :
    e.documented = true := by
  rcases h with rfl | rfl | rfl <;> rfl

/-- what is *not* documented -/
theorem undocumented_list (e : Err) :
    e.documented = false ↔
      e = .type ∨ e = .index ∨ e = .keyErr ∨ e = .overflow ∨ e = .attr ∨ e = .assert ∨
        e = .thirdParty ∨ e = .oracleMiss ∨ e = .fuel := by
  cases e <;> simp [Err.documented]

/-- if `x` failed with `e'`, every error of `x` is `e'` -/
theorem doc_of_eq {α} {x : R α} {e e' : Err} (hx : x = .error e') (hd : e'.documented = true)
    (h : x = .error e) : e.documented = true := by
  rw [hx] at h; cases h; exact hd

/-! ## 1. mnemonics -/

/-- `Bip39MnemonicDecoder.Decode`: `ValueError` / `MnemonicChecksumError` only -/
theorem bip39_decode (H : Bytes → Bytes) (hH : ∀ x, (H x).length = 32) (langs : List (List Nat))
    (hlangs : ∀ L ∈ langs, L.length ≤ 2048) (lang : Option (List Nat))
    (hlang : ∀ L, lang = some L → L.length ≤ 2048) (ws : List Nat) (e : Err)
    (h : bip39Decode H langs lang ws = .error e) : e.documented = true :=
  doc_value_or_checksum (C01.decode_error_kinds H hH langs hlangs lang hlang ws e h)

/-- `Bip39MnemonicEncoder.Encode` (2048-word list): `ValueError` only, the list index is in range -/
theorem bip39_encode (H : Bytes → Bytes) (hH : ∀ x, (H x).length = 32) (wl : List Nat)
    (hwl : wl.length = 2048) (ent : Bytes) (e : Err) (h : bip39Encode H wl ent = .error e) :
    e.documented = true :=
  doc_value (bip39Encode_error_kind H hH wl hwl h)

/-- `MoneroMnemonicDecoder.Decode` -/
theorem monero_decode (crc : Bytes → Nat) (langs : List (List Nat × Nat))
    (lang : Option (List Nat × Nat)) (ws : List Nat) (e : Err)
    (h : moneroDecode crc langs lang ws = .error e) : e.documented = true :=
  doc_value_or_checksum (C17.monero_decode_errors crc langs lang ws e h)

/-- `MoneroMnemonicEncoder.Encode*` (1626-word list) -/
theorem monero_encode (crc : Bytes → Nat) (wl : List Nat) (k : Nat) (hlen : wl.length = 1626)
    (ck : Bool) (ent : Bytes) (e : Err) (h : moneroEncode crc wl k ck ent = .error e) :
    e.documented = true :=
  doc_value (C17.monero_encode_errors crc wl k hlen ck ent e h).1

/-- `ElectrumV1MnemonicDecoder.Decode` -/
theorem electrumV1_decode (wl ws : List Nat) (e : Err) (h : electrumV1Decode wl ws = .error e) :
    e.documented = true :=
  doc_value (C17.v1_decode_errors wl ws e h)

/-- `ElectrumV1MnemonicEncoder.Encode` -/
theorem electrumV1_encode (wl : List Nat) (hpos : 0 < wl.length) (ent : Bytes) (e : Err)
    (h : electrumV1Encode wl ent = .error e) : e.documented = true :=
  doc_value (C17.v1_encode_errors wl hpos ent e h)

/-- `AlgorandMnemonicDecoder.Decode` -/
theorem algorand_decode (H : Bytes → Bytes) (langs : List (List Nat))
    (hH : ∀ x, (H x).length = 32) (lang : Option (List Nat))
    (hlang : ∀ l, lang = some l → l.length ≤ 2048) (hlangs : ∀ l ∈ langs, l.length ≤ 2048)
    (ws : List Nat) (e : Err) (h : algoDecode H langs lang ws = .error e) : e.documented = true :=
  doc_value_or_checksum (C17.algo_decode_errors H langs hH lang hlang hlangs ws e h)

/-- `AlgorandMnemonicEncoder.Encode` -/
theorem algorand_encode (H : Bytes → Bytes) (wl : List Nat) (hlen : wl.length = 2048)
    (hH : ∀ x, (H x).length = 32) (ent : Bytes) (e : Err) (h : algoEncode H wl ent = .error e) :
    e.documented = true :=
  doc_value (C17.algo_encode_errors H wl hlen hH ent e h)

/-- `ElectrumV2MnemonicDecoder.Decode` (word → index part) -/
theorem electrumV2_decode (langs : List (List Nat)) (lang : Option (List Nat)) (ws : List Nat)
    (e : Err) (h : electrumV2DecodeIdx langs lang ws = .error e) : e.documented = true :=
  doc_value (C17.v2_decode_errors langs lang ws e h)

/-- `ElectrumV2MnemonicEncoder.Encode` (entropy → words part) -/
theorem electrumV2_encode (wl : List Nat) (hlen : wl.length = 2048) (ent : Bytes) (e : Err)
    (h : electrumV2EncodeIdx wl ent = .error e) : e.documented = true :=
  doc_value (C17.v2_encode_errors wl hlen ent e h).1

/-- `MnemonicUtils.WordsToBytesChunk` (repaired arithmetic) -/
theorem words_to_chunk (n a b c : Nat) (e : Err) (h : idxToChunk n a b c = .error e) :
    e.documented = true :=
  doc_value ((C17.idxToChunk_error n a b c e).1 h).1

/-! ## 2. seed generators -/

/-- `Bip39SeedGenerator`: the errors are the decoder's -/
theorem bip39_seed (H : Bytes → Bytes) (hH : ∀ x, (H x).length = 32) (langs : List (List Nat))
    (hlangs : ∀ L ∈ langs, L.length ≤ 2048) (lang : Option (List Nat))
    (hlang : ∀ L, lang = some L → L.length ≤ 2048) (ws : List Nat) (salt : Bytes) (e : Err)
    (h : bip39Seed H langs lang ws salt = .error e) : e.documented = true := by
  cases hd : bip39Decode H langs lang ws with
  | ok ent => rw [C02.seed_eq_kdf_definition H langs lang ws salt ent hd] at h; cases h
  | error e' =>
    rw [C02.invalid_no_seed H langs lang ws salt e' hd] at h
    cases h
    exact bip39_decode H hH langs hlangs lang hlang ws e hd

/-- `SubstrateBip39SeedGenerator` -/
theorem substrate_seed (H : Bytes → Bytes) (hH : ∀ x, (H x).length = 32)
    (langs : List (List Nat)) (hlangs : ∀ L ∈ langs, L.length ≤ 2048) (lang : Option (List Nat))
    (hlang : ∀ L, lang = some L → L.length ≤ 2048) (ws : List Nat) (salt : Bytes) (e : Err)
    (h : substrateSeed H langs lang ws salt = .error e) : e.documented = true := by
  cases hd : bip39Decode H langs lang ws with
  | ok ent => rw [C02.substrate_seed_eq_kdf_definition H langs lang ws salt ent hd] at h; cases h
  | error e' =>
    rw [C02.substrate_invalid_no_seed H langs lang ws salt e' hd] at h
    cases h
    exact bip39_decode H hH langs hlangs lang hlang ws e hd

/-- `ElectrumV1SeedGenerator` -/
theorem electrumV1_seed (wl ws : List Nat) (e : Err) (h : electrumV1Seed wl ws = .error e) :
    e.documented = true := by
  cases hd : electrumV1Decode wl ws with
  | ok ent => rw [C02.electrumV1_seed_eq_definition wl ws ent hd] at h; cases h
  | error e' =>
    rw [C02.electrumV1_invalid_no_seed wl ws e' hd] at h
    cases h
    exact electrumV1_decode wl ws e hd

/-- `ElectrumV2SeedGenerator`: `ValueError` only -/
theorem electrumV2_seed (valid : List Nat → Bool) (langs : List (List Nat))
    (lang : Option (List Nat)) (ws : List Nat) (salt : Bytes) (e : Err)
    (h : electrumV2Seed valid langs lang ws salt = .error e) : e.documented = true := by
  by_cases hv : C02.V2Accepts valid ws
  · cases hd : electrumV2DecodeIdx langs lang ws with
    | ok ent =>
      rw [C02.electrumV2_seed_eq_kdf_definition langs lang valid ws salt ent hv hd] at h; cases h
    | error e' =>
      rw [C02.electrumV2_invalid_no_seed langs lang valid ws salt e' hv hd] at h
      cases h
      exact electrumV2_decode langs lang ws e hd
  · rw [C02.electrumV2_rejected_no_seed langs lang valid ws salt hv] at h
    cases h; rfl

/-! ## 3. extended keys, WIF -/

/-- `Bip32KeyDeserializer.DeserializeKey`: key error, Base58 `ValueError`, checksum error -/
theorem deserialize_key (H : Bytes → Bytes) (kv : KeyNetVer) (s : List Char) (e : Err)
    (h : deserializeKey H kv s = .error e) : e.documented = true :=
  doc_key_value_checksum (C05.deser_error_kinds H kv s e h)

/-- `Bip32Base.FromExtendedKey` -/
theorem from_extended_key (H : Bytes → Bytes) (c : CurveT) (sch : Scheme) (kv : KeyNetVer)
    (s : List Char) (e : Err) (h : fromExtendedKey H c sch kv s = .error e) :
    e.documented = true :=
  doc_key_value_checksum (C05.fromExtendedKey_error_kinds H c sch kv s e h)

/-- `Bip32KeySerializer`: within the ranges every node satisfies (depth < 256, index < 2³²)
serialisation never fails (outside them `int.to_bytes` overflows — `C05.serializeKey_error_iff`) -/
theorem serialize_key_total (H : Bytes → Bytes) (ver : Bytes) (depth : Nat) (fp : Bytes) (idx : Nat)
    (cc key : Bytes) (hd : depth < 256) (hi : idx < 2 ^ 32) (e : Err) :
    serializeKey H ver depth fp idx cc key ≠ .error e := by
  intro h
  exact ((C05.serializeKey_error_iff H ver depth fp idx cc key e).1 h).2 ⟨hd, hi⟩

/-- `WifDecoder.Decode` -/
theorem wif_decode (H : Bytes → Bytes) (s : List Char) (v : UInt8) (e : Err)
    (h : wifDecode H s v = .error e) : e.documented = true :=
  doc_value_or_checksum (C13Wif.wif_decode_errors H s v e h)

/-- `WifEncoder.Encode` -/
theorem wif_encode (H : Bytes → Bytes) (priv netVer : Bytes) (c : Bool) (e : Err)
    (h : wifEncode H priv netVer c = .error e) : e.documented = true :=
  doc_value (wifEncode_error h)

/-! ## 4. paths -/

/-- `Bip32PathParser.Parse`: `Bip32PathError` only -/
theorem parse_path (s : List Char) (e : Err) (h : parsePath s = .error e) : e.documented = true :=
  doc_path (C06.parse_error_kind s e h)

/-- one path element -/
theorem parse_path_elem (t : List Char) (e : Err) (h : parsePathElem t = .error e) :
    e.documented = true :=
  doc_path (parsePathElem_error t e h)

/-- `SubstratePathParser.Parse`: `SubstratePathError` only -/
theorem substrate_parse_path (s : List Char) (e : Err) (h : subParsePath s = .error e) :
    e.documented = true :=
  doc_path (subParsePath_error h)

/-- `SubstratePathElem(elem)` -/
theorem substrate_path_elem (t : List Char) (e : Err) (h : subElemOf t = .error e) :
    e.documented = true :=
  doc_path (subElemOf_error h)

/-- an absolute path on a non-master node is refused with `ValueError` -/
theorem derive_absolute_on_child (child : Node → Nat → R Node) (nd : Node) (p : List Nat)
    (hd : nd.depth > 0) (e : Err)
    (h : derivePathWith child nd { elems := p, absolute := true } = .error e) :
    e.documented = true :=
  doc_of_eq (C06.absolute_refused_on_child child nd p hd) rfl h

/-! ## 5. master keys and child keys (SLIP-0010 / BIP-32) -/

/-- `FromSeed`, SLIP-0010 ed25519 curves: `ValueError` only (the retry loop accepts at once) -/
theorem master_ed25519 (c : CurveT) (hc : c = .ed25519 ∨ c = .ed25519Blake2b) (seed : Bytes)
    (e : Err) (h : slip10Master c seed = .error e) : e.documented = true := by
  rw [slip10Master_eq] at h
  by_cases hl : seed.length < 16
  · rw [if_pos hl] at h; cases h; rfl
  · rw [if_neg hl, show (4096 : Nat) = 4095 + 1 from rfl, C03.masterLoop_ed25519 c hc 4095 seed] at h
    replace h : nodeOfPriv c .slip10 (hmacSha512Halves (slip10HmacKey c) seed).1 0 0
        (hmacSha512Halves (slip10HmacKey c) seed).2 [0, 0, 0, 0] = .error e := h
    rcases nodeOfPriv_error _ _ _ _ _ _ _ _ h with ⟨he, _⟩ | ⟨he, _⟩
    · exact doc_key he
    · exact doc_value he

/-- `FromSeed`, any curve.  **Partial**: for the ECDSA curves the model bounds the
"`I_L` is not a valid key, hash again" loop by 4096 rounds and reports exhaustion as `.fuel`; that
this never happens (`C03.masterLoop_error`: all 4096 iterates of HMAC-SHA512 would have to be
rejected) is a property of the hash, not provable here.  Everything else is `ValueError`. -/
theorem master_partial (c : CurveT) (seed : Bytes) (e : Err) (h : slip10Master c seed = .error e) :
    e.documented = true ∨ e = .fuel := by
  rcases C03.master_errors c seed e h with ⟨he, _⟩ | ⟨_, he | he⟩
  · exact Or.inl (doc_value he)
  · exact Or.inr he
  · exact Or.inl (doc_value he)

/-- SLIP-0010 ed25519: a non-hardened child of a private node is refused with the key error -/
theorem child_ed25519_soft (nd : Node) (priv : Bytes) (idx : Nat) (hc : nd.curve.isEcdsa = false)
    (hp : nd.priv = some priv) (hh : isHardened idx = false) (hi : idx < 2 ^ 32) (e : Err)
    (h : slip10ChildKey nd idx = .error e) : e.documented = true :=
  doc_of_eq (C03.ed25519_soft_refused nd priv idx hc hp hh hi) rfl h

/-- a hardened child of a public-only node is refused with the key error (SLIP-0010 classes) -/
theorem child_public_hardened (nd : Node) (idx : Nat) (hp : nd.priv = none)
    (hh : isHardened idx = true) (hi : idx < 2 ^ 32) (e : Err)
    (h : slip10ChildKey nd idx = .error e) : e.documented = true :=
  doc_of_eq (C03.public_hardened_refused nd idx hp hh hi) rfl h

/-- … and for every derivation scheme (Kholaw / Byron included) -/
theorem child_public_hardened_any_scheme (nd : Node) (idx : Nat) (hp : nd.priv = none)
    (hh : isHardened idx = true) (hi : idx < 2 ^ 32) (e : Err) (h : childKey nd idx = .error e) :
    e.documented = true :=
  doc_of_eq (C03.public_hardened_refused_any_scheme nd idx hp hh hi) rfl h

/-- ed25519 has no public derivation at all -/
theorem child_ed25519_public (nd : Node) (idx : Nat) (hc : nd.curve.isEcdsa = false)
    (hp : nd.priv = none) (hi : idx < 2 ^ 32) (e : Err) (h : slip10ChildKey nd idx = .error e) :
    e.documented = true :=
  doc_of_eq (C03.ed25519_public_refused nd idx hc hp hi) rfl h

/-- an index ≥ 2³² is refused with `ValueError` (the `Bip32KeyIndex` constructor) -/
theorem child_index_range (nd : Node) (idx : Nat) (hi : 2 ^ 32 ≤ idx) (e : Err) :
    (slip10ChildKey nd idx = .error e → e.documented = true) ∧
      (childKey nd idx = .error e → e.documented = true) :=
  ⟨doc_of_eq (C03.index_range nd idx hi).1 rfl, doc_of_eq (C03.index_range nd idx hi).2 rfl⟩

/-- private ECDSA derivation never raises the key error; its only modelled failure is the bounded
retry loop.  **Partial** for the same reason as `master_partial`: `.fuel` stands for "the SLIP-0010
re-hash loop did not terminate within the modelled bound". -/
theorem child_private_ecdsa_partial (nd : Node) (priv : Bytes) (idx : Nat)
    (hc : nd.curve.isEcdsa = true) (e : Err) (h : slip10CkdPriv nd priv idx = .error e) :
    e.documented = true ∨ e = .fuel :=
  Or.inr (C03.ckdPriv_ecdsa_error nd priv idx hc e h)

/-! ## 6. BIP-44 hierarchy -/

/-- a step at the wrong level: `Bip44DepthError` -/
theorem bip44_wrong_level (purpose coinIdx : Nat) (defPath : Path) (nd : Node) (op : B44Op)
    (L : Nat) (hl : op.level = some L) (ht : op.typeOk = true) (hd : nd.depth ≠ L) (e : Err)
    (h : b44Step purpose coinIdx defPath nd op = .error e) : e.documented = true :=
  doc_of_eq (C07.step_level_error_uniform purpose coinIdx defPath nd op L hl ht hd) rfl h

/-- the constructors (`FromSeed`, `FromExtendedKey`, … of `Bip44Base`) either accept the node or
raise `Bip44DepthError` -/
theorem bip44_ctor (nd : Node) (e : Err) (h : b44Admit nd = .error e) : e.documented = true := by
  rcases C07.ctor_total nd with h' | h'
  · rw [h'] at h; cases h
  · exact doc_of_eq h' rfl h

/-- public-only node, hardened level: key error -/
theorem bip44_public_hardened (purpose coinIdx : Nat) (defPath : Path) (nd : Node)
    (hp : nd.priv = none) (e : Err) :
    (nd.depth = 0 → purpose < 2 ^ 32 →
        b44Step purpose coinIdx defPath nd .purpose = .error e → e.documented = true) ∧
    (nd.depth = 1 → coinIdx < 2 ^ 32 →
        b44Step purpose coinIdx defPath nd .coin = .error e → e.documented = true) ∧
    (∀ i, nd.depth = 2 → i < 2 ^ 32 →
        b44Step purpose coinIdx defPath nd (.account i) = .error e → e.documented = true) := by
  obtain ⟨h1, h2, h3⟩ := C07.step_public_hardened_refused purpose coinIdx defPath nd hp
  exact ⟨fun hd hi => doc_of_eq (h1 hd hi) rfl, fun hd hi => doc_of_eq (h2 hd hi) rfl,
    fun i hd hi => doc_of_eq (h3 i hd hi) rfl⟩

/-- public-only node on a curve without public derivation: change / address steps raise the key error -/
theorem bip44_public_no_pubderivation (purpose coinIdx : Nat) (defPath : Path) (nd : Node)
    (op : B44Op) (idx : Nat) (hp : nd.priv = none) (hs : pubDerivationSupported nd = false)
    (hidx : b44ChildIdx purpose coinIdx false op = some idx) (ht : op.typeOk = true)
    (hl : op.level = some nd.depth) (hi : idx < 2 ^ 32) (e : Err)
    (h : b44Step purpose coinIdx defPath nd op = .error e) : e.documented = true :=
  doc_of_eq (C07.step_public_ed25519_refused purpose coinIdx defPath nd op idx hp hs hidx ht hl hi)
    rfl h

/-- an index ≥ 2³² at the right level: `ValueError` -/
theorem bip44_index_range (purpose coinIdx : Nat) (defPath : Path) (nd : Node) (op : B44Op)
    (idx : Nat) (hidx : b44ChildIdx purpose coinIdx (pubDerivationSupported nd) op = some idx)
    (ht : op.typeOk = true) (hl : op.level = some nd.depth) (hi : 2 ^ 32 ≤ idx) (e : Err)
    (h : b44Step purpose coinIdx defPath nd op = .error e) : e.documented = true :=
  doc_of_eq (C07.step_index_out_of_range purpose coinIdx defPath nd op idx hidx ht hl hi) rfl h

/-- **Not in the documented family**: `Change(x)` with `x` not a `Bip44Changes` member raises
`TypeError` (this is what the docstring announces, but `TypeError` is outside the C14 family by
definition; recorded so that the list of escaping classes is complete). -/
theorem bip44_change_type_is_type_error (purpose coinIdx : Nat) (defPath : Path) (nd : Node)
    (c : Nat) (hc : c > 1) (e : Err)
    (h : b44Step purpose coinIdx defPath nd (.change c) = .error e) :
    e = .type ∧ e.documented = false := by
  rw [C07.step_change_type_error purpose coinIdx defPath nd c hc] at h
  cases h; exact ⟨rfl, rfl⟩

/-! ## 7. codecs -/

/-- `Base58Decoder.Decode` (any alphabet): `ValueError` only -/
theorem base58_decode (alph s : List Char) (e : Err) (h : b58Decode alph s = .error e) :
    e.documented = true :=
  doc_value (XK.b58Decode_error alph s e h)

/-- `Base58Decoder.CheckDecode`: `ValueError` / `Base58ChecksumError` -/
theorem base58_check_decode (H : Bytes → Bytes) (alph s : List Char) (e : Err)
    (h : b58CheckDecode H alph s = .error e) : e.documented = true :=
  doc_value_or_checksum (XK.b58CheckDecode_error H alph s e h)

/-- `Base58XmrDecoder.Decode`: `ValueError` only -/
theorem base58_xmr_decode (s : List Char) (e : Err) (h : xmrDecode s = .error e) :
    e.documented = true :=
  doc_value (xmrDecode_error h)

/-- `Base32Decoder.Decode` (standard or custom alphabet): `ValueError` only -/
theorem base32_decode (s : List Char) (custom : Option (List Char)) (e : Err)
    (h : base32Decode s custom = .error e) : e.documented = true :=
  doc_value (base32Decode_error h)

/-- `Bech32BaseUtils._DecodeBech32` (all three flavours, any case oracle) -/
theorem bech_decode_raw (U : CaseOracle) (k : BechKind) (s : List Char) (e : Err)
    (h : bechDecodeRaw U k s = .error e) : e.documented = true :=
  doc_value_or_checksum (bechDecodeRaw_error h)

/-- `Bech32Decoder.Decode` -/
theorem bech32_decode (U : CaseOracle) (hrp addr : List Char) (e : Err)
    (h : bech32Decode U hrp addr = .error e) : e.documented = true :=
  doc_value_or_checksum (bech32Decode_error h)

/-- `SegwitBech32Decoder.Decode`: the `data[0]` read cannot raise `IndexError` (an accepted raw
string has a non-empty data part) -/
theorem segwit_decode (U : CaseOracle) (hrp addr : List Char) (e : Err)
    (h : segwitDecode U hrp addr = .error e) : e.documented = true :=
  doc_value_or_checksum (segwitDecode_error h)

theorem segwit_decode_no_index_error (U : CaseOracle) (hrp addr : List Char) :
    segwitDecode U hrp addr ≠ .error .index := by
  intro h
  rcases segwitDecode_error h with h | h <;> cases h

/-- `BchBech32Decoder.Decode`: the `conv[0]` read cannot raise `IndexError` (regrouping a non-empty
data part into bytes either fails with `ValueError` or yields at least one byte) -/
theorem bch_decode (U : CaseOracle) (hrp addr : List Char) (e : Err)
    (h : bchDecode U hrp addr = .error e) : e.documented = true :=
  doc_value_or_checksum (bchDecode_error h)

theorem bch_decode_no_index_error (U : CaseOracle) (hrp addr : List Char) :
    bchDecode U hrp addr ≠ .error .index := by
  intro h
  rcases bchDecode_error h with h | h <;> cases h

/-- `SS58Decoder.Decode` -/
theorem ss58_decode (H : Bytes → Bytes) (s : List Char) (e : Err)
    (h : ss58Decode H s = .error e) : e.documented = true :=
  doc_value_or_checksum (C10Codec.ss58_decode_errors H s e h)

/-- `SS58Encoder.Encode` -/
theorem ss58_encode (H : Bytes → Bytes) (data : Bytes) (fmt : Nat) (e : Err)
    (h : ss58Encode H data fmt = .error e) : e.documented = true :=
  doc_value (ss58Encode_error h)

/-- `SubstrateScaleCUintEncoder.Encode`: `ValueError` only — none of the four `int.to_bytes`
calls can overflow -/
theorem scale_compact (v : Nat) (e : Err) (h : scaleCompact v = .error e) : e.documented = true :=
  doc_value (scaleCompact_error_kind h)

theorem scale_compact_no_overflow (v : Nat) : scaleCompact v ≠ .error .overflow := by
  intro h
  cases scaleCompact_error_kind h

/-- `SubstrateScaleUintEncoder` (fixed width): `ValueError` only -/
theorem scale_uint (v n : Nat) (e : Err) (h : scaleUint v n = .error e) : e.documented = true :=
  doc_value (scaleUint_error_kind h)

/-- `SubstrateScaleBytesEncoder.Encode` -/
theorem scale_bytes (b : Bytes) (e : Err) (h : scaleBytes b = .error e) : e.documented = true :=
  doc_value (scaleBytes_error_kind h)

/-- `SubstratePathElem.ChainCode()`: `SubstratePathError` (number wider than 256 bits) or
`ValueError` -/
theorem substrate_chain_code (el : SubElem) (e : Err) (h : subChainCode el = .error e) :
    e.documented = true := by
  rcases subChainCode_error h with h | h
  · exact doc_path h
  · exact doc_value h

/-- `CborIndefiniteLenArrayDecoder.Decode` over the integer `loads`: `ValueError` only — the scan
index strictly increases, so the modelled fuel (length + 1) is never exhausted -/
theorem cbor_indef_decode (enc : Bytes) (e : Err)
    (h : cborIndefDecode cborLoadsUint enc = .error e) : e.documented = true :=
  doc_value (cborIndefDecode_error cborLoadsUint (fun _ _ he => cborLoadsUint_error he) h)

theorem cbor_indef_decode_no_fuel (enc : Bytes) :
    cborIndefDecode cborLoadsUint enc ≠ .error .fuel := by
  intro h
  cases cborIndefDecode_error cborLoadsUint (fun _ _ he => cborLoadsUint_error he) h

/-- the same for any item decoder whose own errors are documented: nothing new is introduced by
the loop -/
theorem cbor_indef_decode_any (loads : Bytes → R CborItem)
    (hl : ∀ b e, loads b = .error e → e = .value) (enc : Bytes) (e : Err)
    (h : cborIndefDecode loads enc = .error e) : e.documented = true :=
  doc_value (cborIndefDecode_error loads hl h)

end BipVerif.Props.C14
