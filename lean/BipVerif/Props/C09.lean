import BipVerif.Model.Addr
namespace BipVerif.Props.C09
theorem placeholder : True := trivial
end BipVerif.Props.C09
