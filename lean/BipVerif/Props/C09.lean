/-
C09 — address encoders and decoders agree: for every format, whatever the encoder outputs for a
public key is accepted by the decoder, which returns the format's payload (written out below);
invalid key bytes (and the other documented parameter errors) are refused by the encoder with
`ValueError`; and the decoders only ever raise `ValueError` (checksum errors are converted, no
`IndexError` can escape — the C14 clause for address decoders).

Property theorems only; proofs are in `BipVerif/Lemmas/Addr*.lean`.

Reading guide.
* `addrKey c pub = .ok k`: the key layer accepted `pub` and `k` is its canonical encoding
  (33-byte SEC1-compressed for secp256k1 / nist256p1; `0x00 ‖ 32 bytes` for the ed25519 flavours,
  so `k.drop 1` is the raw 32-byte key; bare 32 bytes for Monero).
* `uncompressedOf .secp256k1 k = .ok u`: `u` is the 65-byte uncompressed form.
* Hashes and curve arithmetic are opaque: only output lengths are used.
* Key-layer hypothesis `KeyCanon c` ("canonical ECDSA keys re-validate") is explicit where a decoder
  re-validates a secp256k1 key (EOS, Ergo); it is checked by differential testing, not proved.
  For the ed25519 flavours the corresponding fact is proved (`addrKey_ed_inv`).
* Parameter well-formedness: `ValidHrp hrp` for Bech32 HRPs; a Base58 alphabet is 58 distinct
  symbols; one-byte version for Neo / CashAddr; `addrType < 256` for Stellar; `1 + netType < 256`
  for Ergo; a Nimiq prefix without spaces.  Net-version / prefix bytes are arbitrary.
-/
import BipVerif.Lemmas.AddrBase58
import BipVerif.Lemmas.AddrBech32
import BipVerif.Lemmas.AddrEth
import BipVerif.Lemmas.AddrBase32
import BipVerif.Lemmas.AddrMisc
import BipVerif.Lemmas.AddrEnc

namespace BipVerif.Props.C09
open BipVerif BipVerif.Model BipVerif.Prim

/-! ## Bitcoin family -/

namespace P2pkh
/-- payload: `hash160` of the compressed or the uncompressed key -/
theorem decode_encode (netVer : Bytes) (alph : List Char) (hn : alph.Nodup) (hl : alph.length = 58)
    (compressed : Bool) (pub : Bytes) (addr : List Char)
    (h : p2pkhEncode netVer alph compressed pub = .ok addr) :
    ∃ k kb, addrKey .secp256k1 pub = .ok k ∧
      (if compressed then kb = k else uncompressedOf .secp256k1 k = .ok kb) ∧
      p2pkhDecode netVer alph addr = .ok (hash160 kb) :=
  p2pkh_decode_encode netVer alph hn hl compressed pub addr h

theorem encode_error_kind (netVer : Bytes) (alph : List Char) (compressed : Bool) (pub : Bytes)
    (e : Err) (h : p2pkhEncode netVer alph compressed pub = .error e) : e = .value :=
  (p2pkhEncode_ov netVer alph compressed pub).h e h

theorem decode_error_kind (netVer : Bytes) (alph addr : List Char) (e : Err)
    (h : p2pkhDecode netVer alph addr = .error e) : e = .value :=
  (p2pkhDecode_ov netVer alph addr).h e h
end P2pkh

namespace Xrp
/-- Ripple = P2PKH over the Ripple alphabet, compressed key -/
theorem decode_encode (netVer : Bytes) (pub : Bytes) (addr : List Char)
    (h : p2pkhEncode netVer xrpAlphabet true pub = .ok addr) :
    ∃ k, addrKey .secp256k1 pub = .ok k ∧ p2pkhDecode netVer xrpAlphabet addr = .ok (hash160 k) := by
  obtain ⟨k, kb, hk, hkb, hd⟩ :=
    p2pkh_decode_encode netVer xrpAlphabet xrpAlphabet_nodup xrpAlphabet_length true pub addr h
  have hkb' : kb = k := by simpa using hkb
  rw [hkb'] at hd
  exact ⟨k, hk, hd⟩

theorem encode_error_kind (netVer pub : Bytes) (e : Err)
    (h : p2pkhEncode netVer xrpAlphabet true pub = .error e) : e = .value :=
  (p2pkhEncode_ov netVer xrpAlphabet true pub).h e h

theorem decode_error_kind (netVer : Bytes) (addr : List Char) (e : Err)
    (h : p2pkhDecode netVer xrpAlphabet addr = .error e) : e = .value :=
  (p2pkhDecode_ov netVer xrpAlphabet addr).h e h
end Xrp

namespace P2sh
/-- payload: `hash160 (0x0014 ‖ hash160 k)`; decoded by the P2PKH decoder with the script net version -/
theorem decode_encode (netVer pub : Bytes) (addr : List Char) (h : p2shEncode netVer pub = .ok addr) :
    ∃ k, addrKey .secp256k1 pub = .ok k ∧
      p2pkhDecode netVer btcAlphabet addr = .ok (p2shScriptHash k) :=
  p2sh_decode_encode netVer pub addr h

theorem encode_error_kind (netVer pub : Bytes) (e : Err) (h : p2shEncode netVer pub = .error e) :
    e = .value := (p2shEncode_ov netVer pub).h e h

theorem decode_error_kind (netVer : Bytes) (addr : List Char) (e : Err)
    (h : p2pkhDecode netVer btcAlphabet addr = .error e) : e = .value :=
  (p2pkhDecode_ov netVer btcAlphabet addr).h e h
end P2sh

namespace BchP2pkh
theorem decode_encode (hrp : List Char) (hv : ValidHrp hrp) (netVer : UInt8) (pub : Bytes)
    (addr : List Char) (h : bchP2pkhEncode hrp [netVer] pub = .ok addr) :
    ∃ k, addrKey .secp256k1 pub = .ok k ∧ bchAddrDecode hrp [netVer] addr = .ok (hash160 k) :=
  bchP2pkh_decode_encode hrp hv netVer pub addr h

theorem encode_error_kind (hrp : List Char) (netVer pub : Bytes) (e : Err)
    (h : bchP2pkhEncode hrp netVer pub = .error e) : e = .value :=
  (bchP2pkhEncode_ov hrp netVer pub).h e h

theorem decode_error_kind (hrp : List Char) (netVer : Bytes) (addr : List Char) (e : Err)
    (h : bchAddrDecode hrp netVer addr = .error e) : e = .value :=
  (bchAddrDecode_ov hrp netVer addr).h e h
end BchP2pkh

namespace BchP2sh
theorem decode_encode (hrp : List Char) (hv : ValidHrp hrp) (netVer : UInt8) (pub : Bytes)
    (addr : List Char) (h : bchP2shEncode hrp [netVer] pub = .ok addr) :
    ∃ k, addrKey .secp256k1 pub = .ok k ∧ bchAddrDecode hrp [netVer] addr = .ok (p2shScriptHash k) :=
  bchP2sh_decode_encode hrp hv netVer pub addr h

theorem encode_error_kind (hrp : List Char) (netVer pub : Bytes) (e : Err)
    (h : bchP2shEncode hrp netVer pub = .error e) : e = .value :=
  (bchP2shEncode_ov hrp netVer pub).h e h

theorem decode_error_kind (hrp : List Char) (netVer : Bytes) (addr : List Char) (e : Err)
    (h : bchAddrDecode hrp netVer addr = .error e) : e = .value :=
  (bchAddrDecode_ov hrp netVer addr).h e h
end BchP2sh

namespace P2wpkh
theorem decode_encode (hrp : List Char) (hv : ValidHrp hrp) (pub : Bytes) (addr : List Char)
    (h : p2wpkhEncode hrp pub = .ok addr) :
    ∃ k, addrKey .secp256k1 pub = .ok k ∧ p2wpkhDecode hrp addr = .ok (hash160 k) :=
  p2wpkh_decode_encode hrp hv pub addr h

theorem encode_error_kind (hrp : List Char) (pub : Bytes) (e : Err)
    (h : p2wpkhEncode hrp pub = .error e) : e = .value := (p2wpkhEncode_ov hrp pub).h e h

/-- includes: `data[0]` of the SegWit decoder cannot raise `IndexError` -/
theorem decode_error_kind (hrp addr : List Char) (e : Err)
    (h : p2wpkhDecode hrp addr = .error e) : e = .value := (p2wpkhDecode_ov hrp addr).h e h
end P2wpkh

namespace P2tr
/-- payload: the 32-byte x coordinate of the BIP-341 tweaked key (`p2trTweak k`) -/
theorem decode_encode (hrp : List Char) (hv : ValidHrp hrp) (pub : Bytes) (addr : List Char)
    (h : p2trEncode hrp pub = .ok addr) :
    ∃ k t, addrKey .secp256k1 pub = .ok k ∧ p2trTweak k = .ok t ∧ t.length = 32 ∧
      p2trDecode hrp addr = .ok t :=
  p2tr_decode_encode hrp hv pub addr h

/-- invalid keys — and a tweak landing on the point at infinity / an x that does not lift — are
`ValueError` -/
theorem encode_error_kind (hrp : List Char) (pub : Bytes) (e : Err)
    (h : p2trEncode hrp pub = .error e) : e = .value := (p2trEncode_ov hrp pub).h e h

theorem decode_error_kind (hrp addr : List Char) (e : Err)
    (h : p2trDecode hrp addr = .error e) : e = .value := (p2trDecode_ov hrp addr).h e h
end P2tr

/-! ## Cosmos family -/

namespace Atom
theorem decode_encode (hrp : List Char) (hv : ValidHrp hrp) (pub : Bytes) (addr : List Char)
    (h : atomEncode hrp pub = .ok addr) :
    ∃ k, addrKey .secp256k1 pub = .ok k ∧ atomDecode hrp addr = .ok (hash160 k) :=
  atom_decode_encode hrp hv pub addr h

theorem encode_error_kind (hrp : List Char) (pub : Bytes) (e : Err)
    (h : atomEncode hrp pub = .error e) : e = .value := (atomEncode_ov hrp pub).h e h

theorem decode_error_kind (hrp addr : List Char) (e : Err)
    (h : atomDecode hrp addr = .error e) : e = .value := (atomDecode_ov hrp addr).h e h
end Atom

namespace Avax
/-- Avalanche P-chain / X-chain: `pfx` is `"P-"` / `"X-"` (any prefix text) -/
theorem decode_encode (pfx hrp : List Char) (hv : ValidHrp hrp) (pub : Bytes) (addr : List Char)
    (h : avaxEncode pfx hrp pub = .ok addr) :
    ∃ k, addrKey .secp256k1 pub = .ok k ∧ avaxDecode pfx hrp addr = .ok (hash160 k) :=
  avax_decode_encode pfx hrp hv pub addr h

theorem encode_error_kind (pfx hrp : List Char) (pub : Bytes) (e : Err)
    (h : avaxEncode pfx hrp pub = .error e) : e = .value := (avaxEncode_ov pfx hrp pub).h e h

theorem decode_error_kind (pfx hrp addr : List Char) (e : Err)
    (h : avaxDecode pfx hrp addr = .error e) : e = .value := (avaxDecode_ov pfx hrp addr).h e h
end Avax

namespace Zil
/-- payload: the last 20 bytes of `sha256 k`; decoded by the Cosmos decoder -/
theorem decode_encode (hrp : List Char) (hv : ValidHrp hrp) (pub : Bytes) (addr : List Char)
    (h : zilEncode hrp pub = .ok addr) :
    ∃ k, addrKey .secp256k1 pub = .ok k ∧ atomDecode hrp addr = .ok (takeLast (sha256 k) 20) :=
  zil_decode_encode hrp hv pub addr h

theorem encode_error_kind (hrp : List Char) (pub : Bytes) (e : Err)
    (h : zilEncode hrp pub = .error e) : e = .value := (zilEncode_ov hrp pub).h e h

theorem decode_error_kind (hrp addr : List Char) (e : Err)
    (h : atomDecode hrp addr = .error e) : e = .value := (atomDecode_ov hrp addr).h e h
end Zil

namespace Egld
/-- payload: the raw 32-byte ed25519 key -/
theorem decode_encode (hrp : List Char) (hv : ValidHrp hrp) (pub : Bytes) (addr : List Char)
    (h : egldEncode hrp pub = .ok addr) :
    ∃ k, addrKey .ed25519 pub = .ok k ∧ egldDecode hrp addr = .ok (k.drop 1) :=
  egld_decode_encode hrp hv pub addr h

theorem encode_error_kind (hrp : List Char) (pub : Bytes) (e : Err)
    (h : egldEncode hrp pub = .error e) : e = .value := (egldEncode_ov hrp pub).h e h

theorem decode_error_kind (hrp addr : List Char) (e : Err)
    (h : egldDecode hrp addr = .error e) : e = .value := (egldDecode_ov hrp addr).h e h
end Egld

/-! ## Ethereum family

The payload is the 20 address bytes `b = keccak256(u[1:])[12:]`; `ethRaw k` is their lower-case
hex text. -/

namespace Eth
/-- with or without EIP-55 checksum casing (`skipChk`, the same flag on both sides) -/
theorem decode_encode (pfx : List Char) (skipChk : Bool) (pub : Bytes) (addr : List Char)
    (h : ethEncode pfx skipChk pub = .ok addr) :
    ∃ k u, addrKey .secp256k1 pub = .ok k ∧ uncompressedOf .secp256k1 k = .ok u ∧
      ethRaw k = .ok (hexOfBytes ((keccak256 (u.drop 1)).drop 12)) ∧
      ethDecode pfx skipChk addr = .ok ((keccak256 (u.drop 1)).drop 12) := by
  obtain ⟨k, u, hk, hu, hd⟩ := eth_decode_encode pfx skipChk pub addr h
  refine ⟨k, u, hk, hu, ?_, hd⟩
  unfold ethRaw
  rw [bind_ok_eq hu]
  exact congrArg Except.ok (hexOfBytes_drop _ 12)

/-- EIP-55 casing is idempotent on lower-case hex text (what makes the decoder accept the
encoder's output) -/
theorem checksum_idempotent (b : Bytes) :
    ethChecksumEncode (ethChecksumEncode (hexOfBytes b)) = ethChecksumEncode (hexOfBytes b) :=
  ethChecksumEncode_idem _ (hexOfBytes_lowerHex b)

theorem encode_error_kind (pfx : List Char) (skipChk : Bool) (pub : Bytes) (e : Err)
    (h : ethEncode pfx skipChk pub = .error e) : e = .value := (ethEncode_ov pfx skipChk pub).h e h

theorem decode_error_kind (pfx : List Char) (skipChk : Bool) (addr : List Char) (e : Err)
    (h : ethDecode pfx skipChk addr = .error e) : e = .value := (ethDecode_ov pfx skipChk addr).h e h
end Eth

namespace Trx
theorem decode_encode (pfx pub : Bytes) (addr : List Char) (h : trxEncode pfx pub = .ok addr) :
    ∃ k u, addrKey .secp256k1 pub = .ok k ∧ uncompressedOf .secp256k1 k = .ok u ∧
      trxDecode pfx addr = .ok ((keccak256 (u.drop 1)).drop 12) :=
  trx_decode_encode pfx pub addr h

theorem encode_error_kind (pfx pub : Bytes) (e : Err) (h : trxEncode pfx pub = .error e) :
    e = .value := (trxEncode_ov pfx pub).h e h

theorem decode_error_kind (pfx : Bytes) (addr : List Char) (e : Err)
    (h : trxDecode pfx addr = .error e) : e = .value := (trxDecode_ov pfx addr).h e h
end Trx

namespace EthBech32
/-- OKEx Chain and Harmony One -/
theorem decode_encode (hrp : List Char) (hv : ValidHrp hrp) (pub : Bytes) (addr : List Char)
    (h : ethBech32Encode hrp pub = .ok addr) :
    ∃ k u, addrKey .secp256k1 pub = .ok k ∧ uncompressedOf .secp256k1 k = .ok u ∧
      ethBech32Decode hrp addr = .ok ((keccak256 (u.drop 1)).drop 12) :=
  ethBech32_decode_encode hrp hv pub addr h

theorem encode_error_kind (hrp : List Char) (pub : Bytes) (e : Err)
    (h : ethBech32Encode hrp pub = .error e) : e = .value := (ethBech32Encode_ov hrp pub).h e h

theorem decode_error_kind (hrp addr : List Char) (e : Err)
    (h : ethBech32Decode hrp addr = .error e) : e = .value := (ethBech32Decode_ov hrp addr).h e h
end EthBech32

namespace Inj
/-- Injective: same encoder, its own decoder -/
theorem decode_encode (hrp : List Char) (hv : ValidHrp hrp) (pub : Bytes) (addr : List Char)
    (h : ethBech32Encode hrp pub = .ok addr) :
    ∃ k u, addrKey .secp256k1 pub = .ok k ∧ uncompressedOf .secp256k1 k = .ok u ∧
      injDecode hrp addr = .ok ((keccak256 (u.drop 1)).drop 12) :=
  inj_decode_encode hrp hv pub addr h

theorem encode_error_kind (hrp : List Char) (pub : Bytes) (e : Err)
    (h : ethBech32Encode hrp pub = .error e) : e = .value := (ethBech32Encode_ov hrp pub).h e h

theorem decode_error_kind (hrp addr : List Char) (e : Err)
    (h : injDecode hrp addr = .error e) : e = .value := (injDecode_ov hrp addr).h e h
end Inj

/-! ## hashed hex addresses -/

namespace Icx
theorem decode_encode (pfx : List Char) (pub : Bytes) (addr : List Char)
    (h : icxEncode pfx pub = .ok addr) :
    ∃ k u, addrKey .secp256k1 pub = .ok k ∧ uncompressedOf .secp256k1 k = .ok u ∧
      icxDecode pfx addr = .ok (takeLast (sha3_256 (u.drop 1)) 20) :=
  icx_decode_encode pfx pub addr h

theorem encode_error_kind (pfx : List Char) (pub : Bytes) (e : Err)
    (h : icxEncode pfx pub = .error e) : e = .value := (icxEncode_ov pfx pub).h e h

theorem decode_error_kind (pfx addr : List Char) (e : Err)
    (h : icxDecode pfx addr = .error e) : e = .value := (icxDecode_ov pfx addr).h e h
end Icx

namespace Sui
theorem decode_encode (pfx : List Char) (pub : Bytes) (addr : List Char)
    (h : suiEncode pfx pub = .ok addr) :
    ∃ k, addrKey .ed25519 pub = .ok k ∧ suiDecode pfx addr = .ok (blake2b256 ([0] ++ k.drop 1)) :=
  sui_decode_encode pfx pub addr h

theorem encode_error_kind (pfx : List Char) (pub : Bytes) (e : Err)
    (h : suiEncode pfx pub = .error e) : e = .value := (suiEncode_ov pfx pub).h e h

theorem decode_error_kind (pfx addr : List Char) (e : Err)
    (h : suiDecode pfx addr = .error e) : e = .value := (suiDecode_ov pfx addr).h e h
end Sui

namespace Aptos
/-- with and without trimming of leading `0` characters: the decoder re-pads to 64 characters -/
theorem decode_encode (pfx : List Char) (trim : Bool) (pub : Bytes) (addr : List Char)
    (h : aptosEncode pfx trim pub = .ok addr) :
    ∃ k, addrKey .ed25519 pub = .ok k ∧ aptosDecode pfx addr = .ok (sha3_256 (k.drop 1 ++ [0])) :=
  aptos_decode_encode pfx trim pub addr h

/-- the trimmed and the untrimmed spelling decode to the same bytes -/
theorem decode_trimmed (pfx : List Char) (b : Bytes) (hb : b.length = 32) :
    aptosDecode pfx (pfx ++ (hexOfBytes b).dropWhile (· == '0')) = .ok b ∧
      aptosDecode pfx (pfx ++ hexOfBytes b) = .ok b :=
  ⟨aptosDecode_canon pfx true b hb, aptosDecode_canon pfx false b hb⟩

theorem encode_error_kind (pfx : List Char) (trim : Bool) (pub : Bytes) (e : Err)
    (h : aptosEncode pfx trim pub = .error e) : e = .value := (aptosEncode_ov pfx trim pub).h e h

theorem decode_error_kind (pfx addr : List Char) (e : Err)
    (h : aptosDecode pfx addr = .error e) : e = .value := (aptosDecode_ov pfx addr).h e h
end Aptos

namespace Near
theorem decode_encode (pub : Bytes) (addr : List Char) (h : nearEncode pub = .ok addr) :
    ∃ k, addrKey .ed25519 pub = .ok k ∧ nearDecode addr = .ok (k.drop 1) :=
  near_decode_encode pub addr h

theorem encode_error_kind (pub : Bytes) (e : Err) (h : nearEncode pub = .error e) : e = .value :=
  (nearEncode_ov pub).h e h

theorem decode_error_kind (addr : List Char) (e : Err) (h : nearDecode addr = .error e) :
    e = .value := (nearDecode_ov addr).h e h
end Near

/-! ## Base58 with own checksums -/

namespace Eos
/-- payload: the 33-byte compressed key (re-validated by the decoder: `KeyCanon`) -/
theorem decode_encode (hK : KeyCanon .secp256k1) (pfx : List Char) (pub : Bytes) (addr : List Char)
    (h : eosEncode pfx pub = .ok addr) :
    ∃ k, addrKey .secp256k1 pub = .ok k ∧ eosDecode pfx addr = .ok k :=
  eos_decode_encode hK pfx pub addr h

theorem encode_error_kind (pfx : List Char) (pub : Bytes) (e : Err)
    (h : eosEncode pfx pub = .error e) : e = .value := (eosEncode_ov pfx pub).h e h

theorem decode_error_kind (pfx addr : List Char) (e : Err)
    (h : eosDecode pfx addr = .error e) : e = .value := (eosDecode_ov pfx addr).h e h
end Eos

namespace Ergo
theorem decode_encode (hK : KeyCanon .secp256k1) (netType : Nat) (hnt : 1 + netType < 256)
    (pub : Bytes) (addr : List Char) (h : ergoEncode netType pub = .ok addr) :
    ∃ k, addrKey .secp256k1 pub = .ok k ∧ ergoDecode netType addr = .ok k :=
  ergo_decode_encode hK netType hnt pub addr h

theorem encode_error_kind (netType : Nat) (pub : Bytes) (e : Err)
    (h : ergoEncode netType pub = .error e) : e = .value := (ergoEncode_ov netType pub).h e h

theorem decode_error_kind (netType : Nat) (addr : List Char) (e : Err)
    (h : ergoDecode netType addr = .error e) : e = .value := (ergoDecode_ov netType addr).h e h
end Ergo

namespace Sol
theorem decode_encode (pub : Bytes) (addr : List Char) (h : solEncode pub = .ok addr) :
    ∃ k, addrKey .ed25519 pub = .ok k ∧ solDecode addr = .ok (k.drop 1) :=
  sol_decode_encode pub addr h

theorem encode_error_kind (pub : Bytes) (e : Err) (h : solEncode pub = .error e) : e = .value :=
  (solEncode_ov pub).h e h

theorem decode_error_kind (addr : List Char) (e : Err) (h : solDecode addr = .error e) :
    e = .value := (solDecode_ov addr).h e h
end Sol

namespace Xtz
theorem decode_encode (pfx pub : Bytes) (addr : List Char) (h : xtzEncode pfx pub = .ok addr) :
    ∃ k, addrKey .ed25519 pub = .ok k ∧ xtzDecode pfx addr = .ok (blake2b160 (k.drop 1)) :=
  xtz_decode_encode pfx pub addr h

theorem encode_error_kind (pfx pub : Bytes) (e : Err) (h : xtzEncode pfx pub = .error e) :
    e = .value := (xtzEncode_ov pfx pub).h e h

theorem decode_error_kind (pfx : Bytes) (addr : List Char) (e : Err)
    (h : xtzDecode pfx addr = .error e) : e = .value := (xtzDecode_ov pfx addr).h e h
end Xtz

namespace Neo
/-- one-byte version; `pfx` / `sfx` are the script bytes around the key (Neo legacy / N3) -/
theorem decode_encode (ver : UInt8) (pfx sfx pub : Bytes) (addr : List Char)
    (h : neoEncode [ver] pfx sfx pub = .ok addr) :
    ∃ k, addrKey .nist256p1 pub = .ok k ∧
      neoDecode [ver] addr = .ok (hash160 (pfx ++ k ++ sfx)) :=
  neo_decode_encode ver pfx sfx pub addr h

theorem encode_error_kind (ver pfx sfx pub : Bytes) (e : Err)
    (h : neoEncode ver pfx sfx pub = .error e) : e = .value := (neoEncode_ov ver pfx sfx pub).h e h

/-- `dec[0]` is dominated by the length check: no `IndexError`, whatever `ver` is -/
theorem decode_error_kind (ver : Bytes) (addr : List Char) (e : Err)
    (h : neoDecode ver addr = .error e) : e = .value := (neoDecode_ov ver addr).h e h
end Neo

/-! ## Base32 family -/

namespace Algo
theorem decode_encode (pub : Bytes) (addr : List Char) (h : algoEncodeAddr pub = .ok addr) :
    ∃ k, addrKey .ed25519 pub = .ok k ∧ algoDecodeAddr addr = .ok (k.drop 1) :=
  algo_decode_encode pub addr h

theorem encode_error_kind (pub : Bytes) (e : Err) (h : algoEncodeAddr pub = .error e) :
    e = .value := (algoEncodeAddr_ov pub).h e h

theorem decode_error_kind (addr : List Char) (e : Err) (h : algoDecodeAddr addr = .error e) :
    e = .value := (algoDecodeAddr_ov addr).h e h
end Algo

namespace Xlm
/-- `addrType` 48 (public key) / 144 (private key); any one-byte type -/
theorem decode_encode (addrType : Nat) (ht : addrType < 256) (pub : Bytes) (addr : List Char)
    (h : xlmEncode addrType pub = .ok addr) :
    ∃ k, addrKey .ed25519 pub = .ok k ∧ xlmDecode addrType addr = .ok (k.drop 1) :=
  xlm_decode_encode addrType ht pub addr h

theorem encode_error_kind (addrType : Nat) (pub : Bytes) (e : Err)
    (h : xlmEncode addrType pub = .error e) : e = .value := (xlmEncode_ov addrType pub).h e h

/-- `payload[0]` is dominated by the length check: no `IndexError` -/
theorem decode_error_kind (addrType : Nat) (addr : List Char) (e : Err)
    (h : xlmDecode addrType addr = .error e) : e = .value := (xlmDecode_ov addrType addr).h e h
end Xlm

namespace Fil
/-- payload: `blake2b160` of the uncompressed key -/
theorem decode_encode (pfx : List Char) (pub : Bytes) (addr : List Char)
    (h : filEncode pfx pub = .ok addr) :
    ∃ k u, addrKey .secp256k1 pub = .ok k ∧ uncompressedOf .secp256k1 k = .ok u ∧
      filDecode pfx addr = .ok (blake2b160 u) :=
  fil_decode_encode pfx pub addr h

theorem encode_error_kind (pfx : List Char) (pub : Bytes) (e : Err)
    (h : filEncode pfx pub = .error e) : e = .value := (filEncode_ov pfx pub).h e h

theorem decode_error_kind (pfx addr : List Char) (e : Err)
    (h : filDecode pfx addr = .error e) : e = .value := (filDecode_ov pfx addr).h e h
end Fil

namespace Nano
theorem decode_encode (pfx : List Char) (pub : Bytes) (addr : List Char)
    (h : nanoEncode pfx pub = .ok addr) :
    ∃ k, addrKey .ed25519Blake2b pub = .ok k ∧ nanoDecode pfx addr = .ok (k.drop 1) :=
  nano_decode_encode pfx pub addr h

theorem encode_error_kind (pfx : List Char) (pub : Bytes) (e : Err)
    (h : nanoEncode pfx pub = .error e) : e = .value := (nanoEncode_ov pfx pub).h e h

theorem decode_error_kind (pfx addr : List Char) (e : Err)
    (h : nanoDecode pfx addr = .error e) : e = .value := (nanoDecode_ov pfx addr).h e h
end Nano

namespace Nim
/-- payload: the first 20 bytes of `blake2b256` of the raw key.  `isDigitNonAscii` is the decoder's
`str.isdigit` oracle for non-ASCII characters (arbitrary: it is never consulted on encoder output);
the prefix (`"NQ"`) must not contain spaces, which the decoder strips. -/
theorem decode_encode (isDigitNonAscii : Char → Bool) (pfx : List Char) (hp : ∀ c ∈ pfx, c ≠ ' ')
    (pub : Bytes) (addr : List Char) (h : nimEncode pfx pub = .ok addr) :
    ∃ k, addrKey .ed25519 pub = .ok k ∧
      nimDecode isDigitNonAscii pfx addr = .ok ((blake2b256 (k.drop 1)).take 20) :=
  nim_decode_encode isDigitNonAscii pfx hp pub addr h

theorem encode_error_kind (pfx : List Char) (pub : Bytes) (e : Err)
    (h : nimEncode pfx pub = .error e) : e = .value := (nimEncode_ov pfx pub).h e h

theorem decode_error_kind (isDigitNonAscii : Char → Bool) (pfx addr : List Char) (e : Err)
    (h : nimDecode isDigitNonAscii pfx addr = .error e) : e = .value :=
  (nimDecode_ov isDigitNonAscii pfx addr).h e h
end Nim

/-! ## Substrate and Monero -/

namespace SubstrateEd
/-- no side condition on the SS58 format: a successful encoding certifies `fmt ≤ 16383`,
`fmt ≠ 46, 47` -/
theorem decode_encode (fmt : Nat) (pub : Bytes) (addr : List Char)
    (h : substrateEdEncode fmt pub = .ok addr) :
    ∃ k, addrKey .ed25519 pub = .ok k ∧ substrateEdDecode fmt addr = .ok (k.drop 1) :=
  substrateEd_decode_encode fmt pub addr h

/-- invalid key, format `> 16383`, reserved format 46 / 47: all `ValueError` -/
theorem encode_error_kind (fmt : Nat) (pub : Bytes) (e : Err)
    (h : substrateEdEncode fmt pub = .error e) : e = .value := (substrateEdEncode_ov fmt pub).h e h

theorem decode_error_kind (fmt : Nat) (addr : List Char) (e : Err)
    (h : substrateEdDecode fmt addr = .error e) : e = .value := (substrateEdDecode_ov fmt addr).h e h
end SubstrateEd

namespace Xmr
/-- standard (`payId = none`) and integrated (`payId = some pid`) addresses; payload `s ‖ v`.
A successful integrated encoding certifies the 8-byte payment id. -/
theorem decode_encode (netVer : Bytes) (payId : Option Bytes) (spend view : Bytes)
    (addr : List Char) (h : xmrAddrEncode netVer payId spend view = .ok addr) :
    ∃ s v, addrKey .ed25519Monero spend = .ok s ∧ addrKey .ed25519Monero view = .ok v ∧
      xmrAddrDecode netVer payId addr = .ok (s ++ v) :=
  xmr_decode_encode_addr netVer payId spend view addr h

/-- invalid keys and a payment id that is not 8 bytes long: `ValueError` -/
theorem encode_error_kind (netVer : Bytes) (payId : Option Bytes) (spend view : Bytes) (e : Err)
    (h : xmrAddrEncode netVer payId spend view = .error e) : e = .value :=
  (xmrAddrEncode_ov netVer payId spend view).h e h

theorem decode_error_kind (netVer : Bytes) (payId : Option Bytes) (addr : List Char) (e : Err)
    (h : xmrAddrDecode netVer payId addr = .error e) : e = .value :=
  (xmrAddrDecode_ov netVer payId addr).h e h
end Xmr

/-! ## key layer facts used above (proved) -/

/-- ed25519 flavours: the canonical key is `0x00 ‖ k32`, and the bare 32-byte form re-validates -/
theorem ed_key_canonical (c : CurveT) (hc : c.isEdPrefixed = true) (pub k : Bytes)
    (h : addrKey c pub = .ok k) :
    k.length = 33 ∧ (k.drop 1).length = 32 ∧ k = 0 :: k.drop 1 ∧
      pubFromBytes c (k.drop 1) = some k ∧ pubValid c (k.drop 1) = true :=
  addrKey_ed_inv hc h

theorem monero_key_canonical (pub k : Bytes) (h : addrKey .ed25519Monero pub = .ok k) :
    k.length = 32 ∧ pubFromBytes .ed25519Monero k = some k ∧ pubValid .ed25519Monero k = true :=
  addrKey_monero_inv h

theorem secp_key_length (pub k : Bytes) (h : addrKey .secp256k1 pub = .ok k) : k.length = 33 :=
  addrKey_secp_length h

/-! ## the encoder side, format by format

`encode_invalid_key`: key bytes refused by the key layer are refused by the encoder with
`ValueError`.  `encode_ok…`: on an accepted key the encoder succeeds and outputs the text written
out in the statement (non-vacuity of the round trips above); decompression and the Taproot tweak
are curve arithmetic and enter as hypotheses.  The remaining parameter errors (`encode_bad_…`)
are `ValueError` as well.  (`ethAddrBytes u = (keccak256 (u.drop 1)).drop 12`.) -/

section EncoderSide
variable {pub k u : Bytes}

theorem P2pkh.encode_invalid_key (nv : Bytes) (alph : List Char) (compressed : Bool) (pub : Bytes) (h : pubFromBytes .secp256k1 pub = none) :
    p2pkhEncode nv alph compressed pub = .error .value :=
  p2pkhEncode_invalid_key nv alph compressed pub h

theorem P2sh.encode_invalid_key (nv : Bytes) (pub : Bytes) (h : pubFromBytes .secp256k1 pub = none) :
    p2shEncode nv pub = .error .value :=
  p2shEncode_invalid_key nv pub h

theorem BchP2pkh.encode_invalid_key (hrp : List Char) (nv : Bytes) (pub : Bytes) (h : pubFromBytes .secp256k1 pub = none) :
    bchP2pkhEncode hrp nv pub = .error .value :=
  bchP2pkhEncode_invalid_key hrp nv pub h

theorem BchP2sh.encode_invalid_key (hrp : List Char) (nv : Bytes) (pub : Bytes) (h : pubFromBytes .secp256k1 pub = none) :
    bchP2shEncode hrp nv pub = .error .value :=
  bchP2shEncode_invalid_key hrp nv pub h

theorem P2wpkh.encode_invalid_key (hrp : List Char) (pub : Bytes) (h : pubFromBytes .secp256k1 pub = none) :
    p2wpkhEncode hrp pub = .error .value :=
  p2wpkhEncode_invalid_key hrp pub h

theorem P2tr.encode_invalid_key (hrp : List Char) (pub : Bytes) (h : pubFromBytes .secp256k1 pub = none) :
    p2trEncode hrp pub = .error .value :=
  p2trEncode_invalid_key hrp pub h

theorem Atom.encode_invalid_key (hrp : List Char) (pub : Bytes) (h : pubFromBytes .secp256k1 pub = none) :
    atomEncode hrp pub = .error .value :=
  atomEncode_invalid_key hrp pub h

theorem Avax.encode_invalid_key (pfx hrp : List Char) (pub : Bytes) (h : pubFromBytes .secp256k1 pub = none) :
    avaxEncode pfx hrp pub = .error .value :=
  avaxEncode_invalid_key pfx hrp pub h

theorem Eth.encode_invalid_key (pfx : List Char) (skipChk : Bool) (pub : Bytes) (h : pubFromBytes .secp256k1 pub = none) :
    ethEncode pfx skipChk pub = .error .value :=
  ethEncode_invalid_key pfx skipChk pub h

theorem EthBech32.encode_invalid_key (hrp : List Char) (pub : Bytes) (h : pubFromBytes .secp256k1 pub = none) :
    ethBech32Encode hrp pub = .error .value :=
  ethBech32Encode_invalid_key hrp pub h

theorem Trx.encode_invalid_key (pfx : Bytes) (pub : Bytes) (h : pubFromBytes .secp256k1 pub = none) :
    trxEncode pfx pub = .error .value :=
  trxEncode_invalid_key pfx pub h

theorem Aptos.encode_invalid_key (pfx : List Char) (trim : Bool) (pub : Bytes) (h : pubFromBytes .ed25519 pub = none) :
    aptosEncode pfx trim pub = .error .value :=
  aptosEncode_invalid_key pfx trim pub h

theorem Sui.encode_invalid_key (pfx : List Char) (pub : Bytes) (h : pubFromBytes .ed25519 pub = none) :
    suiEncode pfx pub = .error .value :=
  suiEncode_invalid_key pfx pub h

theorem Icx.encode_invalid_key (pfx : List Char) (pub : Bytes) (h : pubFromBytes .secp256k1 pub = none) :
    icxEncode pfx pub = .error .value :=
  icxEncode_invalid_key pfx pub h

theorem Near.encode_invalid_key (pub : Bytes) (h : pubFromBytes .ed25519 pub = none) :
    nearEncode pub = .error .value :=
  nearEncode_invalid_key pub h

theorem Eos.encode_invalid_key (pfx : List Char) (pub : Bytes) (h : pubFromBytes .secp256k1 pub = none) :
    eosEncode pfx pub = .error .value :=
  eosEncode_invalid_key pfx pub h

theorem Ergo.encode_invalid_key (netType : Nat) (pub : Bytes) (h : pubFromBytes .secp256k1 pub = none) :
    ergoEncode netType pub = .error .value :=
  ergoEncode_invalid_key netType pub h

theorem Sol.encode_invalid_key (pub : Bytes) (h : pubFromBytes .ed25519 pub = none) :
    solEncode pub = .error .value :=
  solEncode_invalid_key pub h

theorem Xtz.encode_invalid_key (pfx : Bytes) (pub : Bytes) (h : pubFromBytes .ed25519 pub = none) :
    xtzEncode pfx pub = .error .value :=
  xtzEncode_invalid_key pfx pub h

theorem Neo.encode_invalid_key (ver pfx sfx : Bytes) (pub : Bytes) (h : pubFromBytes .nist256p1 pub = none) :
    neoEncode ver pfx sfx pub = .error .value :=
  neoEncode_invalid_key ver pfx sfx pub h

theorem Algo.encode_invalid_key (pub : Bytes) (h : pubFromBytes .ed25519 pub = none) :
    algoEncodeAddr pub = .error .value :=
  algoEncodeAddr_invalid_key pub h

theorem Xlm.encode_invalid_key (addrType : Nat) (pub : Bytes) (h : pubFromBytes .ed25519 pub = none) :
    xlmEncode addrType pub = .error .value :=
  xlmEncode_invalid_key addrType pub h

theorem Fil.encode_invalid_key (pfx : List Char) (pub : Bytes) (h : pubFromBytes .secp256k1 pub = none) :
    filEncode pfx pub = .error .value :=
  filEncode_invalid_key pfx pub h

theorem Nano.encode_invalid_key (pfx : List Char) (pub : Bytes) (h : pubFromBytes .ed25519Blake2b pub = none) :
    nanoEncode pfx pub = .error .value :=
  nanoEncode_invalid_key pfx pub h

theorem Nim.encode_invalid_key (pfx : List Char) (pub : Bytes) (h : pubFromBytes .ed25519 pub = none) :
    nimEncode pfx pub = .error .value :=
  nimEncode_invalid_key pfx pub h

theorem Egld.encode_invalid_key (hrp : List Char) (pub : Bytes) (h : pubFromBytes .ed25519 pub = none) :
    egldEncode hrp pub = .error .value :=
  egldEncode_invalid_key hrp pub h

theorem Zil.encode_invalid_key (hrp : List Char) (pub : Bytes) (h : pubFromBytes .secp256k1 pub = none) :
    zilEncode hrp pub = .error .value :=
  zilEncode_invalid_key hrp pub h

theorem SubstrateEd.encode_invalid_key (fmt : Nat) (pub : Bytes) (h : pubFromBytes .ed25519 pub = none) :
    substrateEdEncode fmt pub = .error .value :=
  substrateEdEncode_invalid_key fmt pub h

theorem Xmr.encode_invalid_spend_key (netVer : Bytes) (payId : Option Bytes) (spend view : Bytes)
    (h : pubFromBytes .ed25519Monero spend = none) :
    xmrAddrEncode netVer payId spend view = .error .value :=
  xmrAddrEncode_invalid_spend netVer payId spend view h

theorem Xmr.encode_invalid_view_key (netVer : Bytes) (payId : Option Bytes) (spend view : Bytes)
    (h : pubFromBytes .ed25519Monero view = none) :
    xmrAddrEncode netVer payId spend view = .error .value :=
  xmrAddrEncode_invalid_view netVer payId spend view h

theorem Xmr.encode_bad_payment_id (netVer pid spend view : Bytes) (h : pid.length ≠ 8) :
    xmrAddrEncode netVer (some pid) spend view = .error .value :=
  xmrAddrEncode_bad_payment_id netVer pid spend view h

theorem SubstrateEd.encode_bad_format (fmt : Nat) (pub : Bytes)
    (h : fmt > 16383 ∨ fmt = 46 ∨ fmt = 47) :
    substrateEdEncode fmt pub = .error .value :=
  substrateEdEncode_bad_format fmt pub h

theorem P2pkh.encode_ok (nv : Bytes) (alph : List Char) (hk : addrKey .secp256k1 pub = .ok k) :
    p2pkhEncode nv alph true pub = .ok (b58CheckEncode sha256d alph (nv ++ hash160 k)) :=
  p2pkhEncode_of_key nv alph hk

theorem P2pkh.encode_ok_uncompressed (nv : Bytes) (alph : List Char)
    (hk : addrKey .secp256k1 pub = .ok k) (hu : uncompressedOf .secp256k1 k = .ok u) :
    p2pkhEncode nv alph false pub = .ok (b58CheckEncode sha256d alph (nv ++ hash160 u)) :=
  p2pkhEncode_of_key_uncompressed nv alph hk hu

theorem P2sh.encode_ok (nv : Bytes) (hk : addrKey .secp256k1 pub = .ok k) :
    p2shEncode nv pub = .ok (b58CheckEncode sha256d btcAlphabet (nv ++ p2shScriptHash k)) :=
  p2shEncode_of_key nv hk

theorem BchP2pkh.encode_ok (hrp : List Char) (nv : Bytes) (hk : addrKey .secp256k1 pub = .ok k) :
    bchP2pkhEncode hrp nv pub
      = .ok (bechEncodeRaw .bch hrp (regroup 8 5 (bytesToNats (nv ++ hash160 k)))) :=
  bchP2pkhEncode_of_key hrp nv hk

theorem BchP2sh.encode_ok (hrp : List Char) (nv : Bytes) (hk : addrKey .secp256k1 pub = .ok k) :
    bchP2shEncode hrp nv pub
      = .ok (bechEncodeRaw .bch hrp (regroup 8 5 (bytesToNats (nv ++ p2shScriptHash k)))) :=
  bchP2shEncode_of_key hrp nv hk

theorem P2wpkh.encode_ok (hrp : List Char) (hk : addrKey .secp256k1 pub = .ok k) :
    p2wpkhEncode hrp pub
      = .ok (bechEncodeRaw .segwit hrp (0 :: regroup 8 5 (bytesToNats (hash160 k)))) :=
  p2wpkhEncode_of_key hrp hk

theorem P2tr.encode_ok (hrp : List Char) {t : Bytes} (hk : addrKey .secp256k1 pub = .ok k)
    (ht : p2trTweak k = .ok t) :
    p2trEncode hrp pub = .ok (bechEncodeRaw .segwit hrp (1 :: regroup 8 5 (bytesToNats t))) :=
  p2trEncode_of_key hrp hk ht

theorem Atom.encode_ok (hrp : List Char) (hk : addrKey .secp256k1 pub = .ok k) :
    atomEncode hrp pub = .ok (bechEncodeRaw .bech32 hrp (regroup 8 5 (bytesToNats (hash160 k)))) :=
  atomEncode_of_key hrp hk

theorem Avax.encode_ok (pfx hrp : List Char) (hk : addrKey .secp256k1 pub = .ok k) :
    avaxEncode pfx hrp pub
      = .ok (pfx ++ bechEncodeRaw .bech32 hrp (regroup 8 5 (bytesToNats (hash160 k)))) :=
  avaxEncode_of_key pfx hrp hk

theorem Zil.encode_ok (hrp : List Char) (hk : addrKey .secp256k1 pub = .ok k) :
    zilEncode hrp pub
      = .ok (bechEncodeRaw .bech32 hrp (regroup 8 5 (bytesToNats (takeLast (sha256 k) 20)))) :=
  zilEncode_of_key hrp hk

theorem Egld.encode_ok (hrp : List Char) (hk : addrKey .ed25519 pub = .ok k) :
    egldEncode hrp pub = .ok (bechEncodeRaw .bech32 hrp (regroup 8 5 (bytesToNats (k.drop 1)))) :=
  egldEncode_of_key hrp hk

theorem Eth.encode_ok (pfx : List Char) (skipChk : Bool) (hk : addrKey .secp256k1 pub = .ok k)
    (hu : uncompressedOf .secp256k1 k = .ok u) :
    ethEncode pfx skipChk pub = .ok (pfx ++ (if skipChk then hexOfBytes (ethAddrBytes u)
      else ethChecksumEncode (hexOfBytes (ethAddrBytes u)))) :=
  ethEncode_of_key pfx skipChk hk hu

theorem Trx.encode_ok (pfx : Bytes) (hk : addrKey .secp256k1 pub = .ok k)
    (hu : uncompressedOf .secp256k1 k = .ok u) :
    trxEncode pfx pub = .ok (b58CheckEncode sha256d btcAlphabet (pfx ++ ethAddrBytes u)) :=
  trxEncode_of_key pfx hk hu

theorem EthBech32.encode_ok (hrp : List Char) (hk : addrKey .secp256k1 pub = .ok k)
    (hu : uncompressedOf .secp256k1 k = .ok u) :
    ethBech32Encode hrp pub
      = .ok (bechEncodeRaw .bech32 hrp (regroup 8 5 (bytesToNats (ethAddrBytes u)))) :=
  ethBech32Encode_of_key hrp hk hu

theorem Icx.encode_ok (pfx : List Char) (hk : addrKey .secp256k1 pub = .ok k)
    (hu : uncompressedOf .secp256k1 k = .ok u) :
    icxEncode pfx pub = .ok (pfx ++ hexOfBytes (takeLast (sha3_256 (u.drop 1)) 20)) :=
  icxEncode_of_key pfx hk hu

theorem Fil.encode_ok (pfx : List Char) (hk : addrKey .secp256k1 pub = .ok k)
    (hu : uncompressedOf .secp256k1 k = .ok u) :
    filEncode pfx pub = .ok (pfx ++ ['1'] ++
      base32EncodeNoPad (blake2b160 u ++ blake2b32 ([1] ++ blake2b160 u)) (some filAlphabet)) :=
  filEncode_of_key pfx hk hu

theorem Aptos.encode_ok (pfx : List Char) (trim : Bool) (hk : addrKey .ed25519 pub = .ok k) :
    aptosEncode pfx trim pub = .ok (pfx ++ (if trim
      then (hexOfBytes (sha3_256 (k.drop 1 ++ [0]))).dropWhile (· == '0')
      else hexOfBytes (sha3_256 (k.drop 1 ++ [0])))) :=
  aptosEncode_of_key pfx trim hk

theorem Sui.encode_ok (pfx : List Char) (hk : addrKey .ed25519 pub = .ok k) :
    suiEncode pfx pub = .ok (pfx ++ hexOfBytes (blake2b256 ([0] ++ k.drop 1))) :=
  suiEncode_of_key pfx hk

theorem Near.encode_ok (hk : addrKey .ed25519 pub = .ok k) :
    nearEncode pub = .ok (hexOfBytes (k.drop 1)) :=
  nearEncode_of_key hk

theorem Eos.encode_ok (pfx : List Char) (hk : addrKey .secp256k1 pub = .ok k) :
    eosEncode pfx pub = .ok (pfx ++ b58Encode btcAlphabet (k ++ (ripemd160 k).take 4)) :=
  eosEncode_of_key pfx hk

theorem Ergo.encode_ok (netType : Nat) (hk : addrKey .secp256k1 pub = .ok k) :
    ergoEncode netType pub = .ok (b58Encode btcAlphabet ((toBytesAuto (1 + netType) ++ k) ++
      (blake2b256 (toBytesAuto (1 + netType) ++ k)).take 4)) :=
  ergoEncode_of_key netType hk

theorem Sol.encode_ok (hk : addrKey .ed25519 pub = .ok k) :
    solEncode pub = .ok (b58Encode btcAlphabet (k.drop 1)) :=
  solEncode_of_key hk

theorem Xtz.encode_ok (pfx : Bytes) (hk : addrKey .ed25519 pub = .ok k) :
    xtzEncode pfx pub = .ok (b58CheckEncode sha256d btcAlphabet (pfx ++ blake2b160 (k.drop 1))) :=
  xtzEncode_of_key pfx hk

theorem Neo.encode_ok (ver pfx sfx : Bytes) (hk : addrKey .nist256p1 pub = .ok k) :
    neoEncode ver pfx sfx pub
      = .ok (b58CheckEncode sha256d btcAlphabet (ver ++ hash160 (pfx ++ k ++ sfx))) :=
  neoEncode_of_key ver pfx sfx hk

theorem Algo.encode_ok (hk : addrKey .ed25519 pub = .ok k) :
    algoEncodeAddr pub
      = .ok (base32EncodeNoPad (k.drop 1 ++ takeLast (sha512_256 (k.drop 1)) 4) none) :=
  algoEncodeAddr_of_key hk

theorem Xlm.encode_ok (addrType : Nat) (hk : addrKey .ed25519 pub = .ok k) :
    xlmEncode addrType pub = .ok (base32EncodeNoPad ((toBytesAuto addrType ++ k.drop 1) ++
      xlmCrc (toBytesAuto addrType ++ k.drop 1)) none) :=
  xlmEncode_of_key addrType hk

theorem Nano.encode_ok (pfx : List Char) (hk : addrKey .ed25519Blake2b pub = .ok k) :
    nanoEncode pfx pub = .ok (pfx ++ (base32EncodeNoPad
      ([0, 0, 0] ++ k.drop 1 ++ (blake2b40 (k.drop 1)).reverse) (some nanoAlphabet)).drop 4) :=
  nanoEncode_of_key pfx hk

theorem Nim.encode_ok (pfx : List Char) (hk : addrKey .ed25519 pub = .ok k) :
    nimEncode pfx pub = .ok (
      let enc := base32EncodeNoPad ((blake2b256 (k.drop 1)).take 20) (some nimAlphabet)
      pfx ++ nimChecksum (fun _ => false) enc ++ [' '] ++
        ((chunksOf 4 enc).intersperse [' ']).flatten) :=
  nimEncode_of_key pfx hk

theorem SubstrateEd.encode_ok (fmt : Nat) (hf : fmt ≤ 16383) (h46 : fmt ≠ 46) (h47 : fmt ≠ 47)
    (hk : addrKey .ed25519 pub = .ok k) :
    substrateEdEncode fmt pub = .ok (b58Encode btcAlphabet
      ((ss58FormatBytes fmt ++ k.drop 1) ++ ss58Checksum blake2b512 (ss58FormatBytes fmt ++ k.drop 1))) :=
  substrateEdEncode_of_key fmt hf h46 h47 hk

theorem Xmr.encode_ok (netVer : Bytes) {spend view s v : Bytes}
    (hs : addrKey .ed25519Monero spend = .ok s) (hv : addrKey .ed25519Monero view = .ok v) :
    xmrAddrEncode netVer none spend view
      = .ok (xmrEncode ((netVer ++ s ++ v ++ []) ++ (keccak256 (netVer ++ s ++ v ++ [])).take 4)) :=
  xmrAddrEncode_of_keys netVer hs hv

theorem Xmr.encode_ok_integrated (netVer pid : Bytes) (hp : pid.length = 8)
    {spend view s v : Bytes}
    (hs : addrKey .ed25519Monero spend = .ok s) (hv : addrKey .ed25519Monero view = .ok v) :
    xmrAddrEncode netVer (some pid) spend view
      = .ok (xmrEncode ((netVer ++ s ++ v ++ pid) ++ (keccak256 (netVer ++ s ++ v ++ pid)).take 4)) :=
  xmrAddrEncode_of_keys_int netVer pid hp hs hv

end EncoderSide

end BipVerif.Props.C09
