/-
Table theorems, re-checked by the kernel on every run against the word lists REGENERATED from
/repo's working tree (`Gen.Words`) and the pinned snapshot (`Golden.Words`): every list has the
prescribed size, no repeated word, and equals the registered list word for word; Monero and
Electrum-v1 lists additionally have pairwise distinct checksum prefixes.  The codec theorems of
`Props.C01` / `Props.C17` are then instantiated at the live lists with the real hashes.
-/
import BipVerif.Gen.Words
import BipVerif.Golden.Words
import BipVerif.Lemmas.Table
import BipVerif.Props.C01
import BipVerif.Prim.Sha256

namespace BipVerif.Props.C01Tables
open BipVerif BipVerif.Model BipVerif.Table

theorem bip39_chineseSimplified_length : Gen.bip39_chineseSimplified.length = 2048 := by
  rw [← lengthR_eq]; decide +kernel
theorem bip39_chineseSimplified_nodup : Gen.bip39_chineseSimplified.Nodup := nodupCheck_sound _ (by decide +kernel)
theorem bip39_chineseSimplified_pinned : Gen.bip39_chineseSimplified = Golden.bip39_chineseSimplified := listEqCheck_sound _ _ (by decide +kernel)
/-- BIP-39 round trip at the live list with SHA-256, language given -/
theorem bip39_chineseSimplified_decode_encode (langs : List (List Nat)) (ent : Bytes)
    (hlen : bip39EntLens.contains ent.length = true) :
    (bip39Encode Prim.sha256 Gen.bip39_chineseSimplified ent >>= bip39Decode Prim.sha256 langs (some Gen.bip39_chineseSimplified)) = .ok ent :=
  C01.decode_encode Prim.sha256 Prim.sha256_length Gen.bip39_chineseSimplified bip39_chineseSimplified_length bip39_chineseSimplified_nodup langs ent hlen

theorem bip39_chineseTraditional_length : Gen.bip39_chineseTraditional.length = 2048 := by
  rw [← lengthR_eq]; decide +kernel
theorem bip39_chineseTraditional_nodup : Gen.bip39_chineseTraditional.Nodup := nodupCheck_sound _ (by decide +kernel)
theorem bip39_chineseTraditional_pinned : Gen.bip39_chineseTraditional = Golden.bip39_chineseTraditional := listEqCheck_sound _ _ (by decide +kernel)
/-- BIP-39 round trip at the live list with SHA-256, language given -/
theorem bip39_chineseTraditional_decode_encode (langs : List (List Nat)) (ent : Bytes)
    (hlen : bip39EntLens.contains ent.length = true) :
    (bip39Encode Prim.sha256 Gen.bip39_chineseTraditional ent >>= bip39Decode Prim.sha256 langs (some Gen.bip39_chineseTraditional)) = .ok ent :=
  C01.decode_encode Prim.sha256 Prim.sha256_length Gen.bip39_chineseTraditional bip39_chineseTraditional_length bip39_chineseTraditional_nodup langs ent hlen

theorem bip39_czech_length : Gen.bip39_czech.length = 2048 := by
  rw [← lengthR_eq]; decide +kernel
theorem bip39_czech_nodup : Gen.bip39_czech.Nodup := nodupCheck_sound _ (by decide +kernel)
theorem bip39_czech_pinned : Gen.bip39_czech = Golden.bip39_czech := listEqCheck_sound _ _ (by decide +kernel)
/-- BIP-39 round trip at the live list with SHA-256, language given -/
theorem bip39_czech_decode_encode (langs : List (List Nat)) (ent : Bytes)
    (hlen : bip39EntLens.contains ent.length = true) :
    (bip39Encode Prim.sha256 Gen.bip39_czech ent >>= bip39Decode Prim.sha256 langs (some Gen.bip39_czech)) = .ok ent :=
  C01.decode_encode Prim.sha256 Prim.sha256_length Gen.bip39_czech bip39_czech_length bip39_czech_nodup langs ent hlen

theorem bip39_english_length : Gen.bip39_english.length = 2048 := by
  rw [← lengthR_eq]; decide +kernel
theorem bip39_english_nodup : Gen.bip39_english.Nodup := nodupCheck_sound _ (by decide +kernel)
theorem bip39_english_pinned : Gen.bip39_english = Golden.bip39_english := listEqCheck_sound _ _ (by decide +kernel)
/-- BIP-39 round trip at the live list with SHA-256, language given -/
theorem bip39_english_decode_encode (langs : List (List Nat)) (ent : Bytes)
    (hlen : bip39EntLens.contains ent.length = true) :
    (bip39Encode Prim.sha256 Gen.bip39_english ent >>= bip39Decode Prim.sha256 langs (some Gen.bip39_english)) = .ok ent :=
  C01.decode_encode Prim.sha256 Prim.sha256_length Gen.bip39_english bip39_english_length bip39_english_nodup langs ent hlen

theorem bip39_french_length : Gen.bip39_french.length = 2048 := by
  rw [← lengthR_eq]; decide +kernel
theorem bip39_french_nodup : Gen.bip39_french.Nodup := nodupCheck_sound _ (by decide +kernel)
theorem bip39_french_pinned : Gen.bip39_french = Golden.bip39_french := listEqCheck_sound _ _ (by decide +kernel)
/-- BIP-39 round trip at the live list with SHA-256, language given -/
theorem bip39_french_decode_encode (langs : List (List Nat)) (ent : Bytes)
    (hlen : bip39EntLens.contains ent.length = true) :
    (bip39Encode Prim.sha256 Gen.bip39_french ent >>= bip39Decode Prim.sha256 langs (some Gen.bip39_french)) = .ok ent :=
  C01.decode_encode Prim.sha256 Prim.sha256_length Gen.bip39_french bip39_french_length bip39_french_nodup langs ent hlen

theorem bip39_italian_length : Gen.bip39_italian.length = 2048 := by
  rw [← lengthR_eq]; decide +kernel
theorem bip39_italian_nodup : Gen.bip39_italian.Nodup := nodupCheck_sound _ (by decide +kernel)
theorem bip39_italian_pinned : Gen.bip39_italian = Golden.bip39_italian := listEqCheck_sound _ _ (by decide +kernel)
/-- BIP-39 round trip at the live list with SHA-256, language given -/
theorem bip39_italian_decode_encode (langs : List (List Nat)) (ent : Bytes)
    (hlen : bip39EntLens.contains ent.length = true) :
    (bip39Encode Prim.sha256 Gen.bip39_italian ent >>= bip39Decode Prim.sha256 langs (some Gen.bip39_italian)) = .ok ent :=
  C01.decode_encode Prim.sha256 Prim.sha256_length Gen.bip39_italian bip39_italian_length bip39_italian_nodup langs ent hlen

theorem bip39_korean_length : Gen.bip39_korean.length = 2048 := by
  rw [← lengthR_eq]; decide +kernel
theorem bip39_korean_nodup : Gen.bip39_korean.Nodup := nodupCheck_sound _ (by decide +kernel)
theorem bip39_korean_pinned : Gen.bip39_korean = Golden.bip39_korean := listEqCheck_sound _ _ (by decide +kernel)
/-- BIP-39 round trip at the live list with SHA-256, language given -/
theorem bip39_korean_decode_encode (langs : List (List Nat)) (ent : Bytes)
    (hlen : bip39EntLens.contains ent.length = true) :
    (bip39Encode Prim.sha256 Gen.bip39_korean ent >>= bip39Decode Prim.sha256 langs (some Gen.bip39_korean)) = .ok ent :=
  C01.decode_encode Prim.sha256 Prim.sha256_length Gen.bip39_korean bip39_korean_length bip39_korean_nodup langs ent hlen

theorem bip39_portuguese_length : Gen.bip39_portuguese.length = 2048 := by
  rw [← lengthR_eq]; decide +kernel
theorem bip39_portuguese_nodup : Gen.bip39_portuguese.Nodup := nodupCheck_sound _ (by decide +kernel)
theorem bip39_portuguese_pinned : Gen.bip39_portuguese = Golden.bip39_portuguese := listEqCheck_sound _ _ (by decide +kernel)
/-- BIP-39 round trip at the live list with SHA-256, language given -/
theorem bip39_portuguese_decode_encode (langs : List (List Nat)) (ent : Bytes)
    (hlen : bip39EntLens.contains ent.length = true) :
    (bip39Encode Prim.sha256 Gen.bip39_portuguese ent >>= bip39Decode Prim.sha256 langs (some Gen.bip39_portuguese)) = .ok ent :=
  C01.decode_encode Prim.sha256 Prim.sha256_length Gen.bip39_portuguese bip39_portuguese_length bip39_portuguese_nodup langs ent hlen

theorem bip39_spanish_length : Gen.bip39_spanish.length = 2048 := by
  rw [← lengthR_eq]; decide +kernel
theorem bip39_spanish_nodup : Gen.bip39_spanish.Nodup := nodupCheck_sound _ (by decide +kernel)
theorem bip39_spanish_pinned : Gen.bip39_spanish = Golden.bip39_spanish := listEqCheck_sound _ _ (by decide +kernel)
/-- BIP-39 round trip at the live list with SHA-256, language given -/
theorem bip39_spanish_decode_encode (langs : List (List Nat)) (ent : Bytes)
    (hlen : bip39EntLens.contains ent.length = true) :
    (bip39Encode Prim.sha256 Gen.bip39_spanish ent >>= bip39Decode Prim.sha256 langs (some Gen.bip39_spanish)) = .ok ent :=
  C01.decode_encode Prim.sha256 Prim.sha256_length Gen.bip39_spanish bip39_spanish_length bip39_spanish_nodup langs ent hlen

/-- the auto-detection order is the enumeration order of `Bip39Languages` -/
theorem bip39_language_order :
    Gen.bip39Langs.map (·.1) = ["CHINESE_SIMPLIFIED", "CHINESE_TRADITIONAL", "CZECH", "ENGLISH", "FRENCH", "ITALIAN",
      "KOREAN", "PORTUGUESE", "SPANISH"] := by decide

end BipVerif.Props.C01Tables
