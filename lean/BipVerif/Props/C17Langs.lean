/-
C17 — Electrum v2 and the word lists of languages it does not define.  The library's auto-detection walks all nine BIP-39 lists in
enumeration order and (since the F-ev2-foreign-language repair) refuses a result outside {simplified Chinese, English, Portuguese, Spanish};
the model detects over those four lists only.  The two are the same function because of the table facts proved here on the lists
regenerated from /repo on every run: a list of an undefined language shares no word with a defined list that comes AFTER it in detection
order (a sentence readable in both would be detected as the undefined one and refused, although a defined list reads it).  The only
overlaps that exist (English/French, simplified/traditional Chinese — `C01Tables`) have the defined list first.
-/
import BipVerif.Gen.Words
import BipVerif.Lemmas.Table

namespace BipVerif.Props.C17Langs
open BipVerif BipVerif.Table

/-- no word in common: the concatenation has no duplicates -/
def Disjoint' (a b : List Nat) : Prop := (a ++ b).Nodup

theorem disjoint_of_nodup {a b : List Nat} (h : Disjoint' a b) : ∀ w ∈ a, w ∉ b := by
  intro w ha hb
  exact (List.nodup_append.mp h).2.2 w ha w hb rfl

/-- detection order: CS, CT, CZECH, EN, FR, IT, KO, PT, ES.  Undefined lists vs. the defined lists that follow them: -/
theorem traditionalChinese_vs_later_defined :
    Disjoint' Gen.bip39_chineseTraditional Gen.bip39_english ∧ Disjoint' Gen.bip39_chineseTraditional Gen.bip39_portuguese ∧
    Disjoint' Gen.bip39_chineseTraditional Gen.bip39_spanish :=
  ⟨nodupCheck_sound _ (by decide +kernel), nodupCheck_sound _ (by decide +kernel), nodupCheck_sound _ (by decide +kernel)⟩

theorem czech_vs_later_defined :
    Disjoint' Gen.bip39_czech Gen.bip39_english ∧ Disjoint' Gen.bip39_czech Gen.bip39_portuguese ∧ Disjoint' Gen.bip39_czech Gen.bip39_spanish :=
  ⟨nodupCheck_sound _ (by decide +kernel), nodupCheck_sound _ (by decide +kernel), nodupCheck_sound _ (by decide +kernel)⟩

theorem french_vs_later_defined :
    Disjoint' Gen.bip39_french Gen.bip39_portuguese ∧ Disjoint' Gen.bip39_french Gen.bip39_spanish :=
  ⟨nodupCheck_sound _ (by decide +kernel), nodupCheck_sound _ (by decide +kernel)⟩

theorem italian_vs_later_defined :
    Disjoint' Gen.bip39_italian Gen.bip39_portuguese ∧ Disjoint' Gen.bip39_italian Gen.bip39_spanish :=
  ⟨nodupCheck_sound _ (by decide +kernel), nodupCheck_sound _ (by decide +kernel)⟩

theorem korean_vs_later_defined :
    Disjoint' Gen.bip39_korean Gen.bip39_portuguese ∧ Disjoint' Gen.bip39_korean Gen.bip39_spanish :=
  ⟨nodupCheck_sound _ (by decide +kernel), nodupCheck_sound _ (by decide +kernel)⟩

end BipVerif.Props.C17Langs
