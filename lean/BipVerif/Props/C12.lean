import BipVerif.Model.Ecc
namespace BipVerif.Props.C12
theorem placeholder : True := trivial
end BipVerif.Props.C12
