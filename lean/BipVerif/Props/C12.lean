/-
C12 — elliptic-curve key classes, adapter layer only: which byte strings are private keys, the
canonical form `FromBytes` returns for public keys, the optional `0x00` prefix of the ed25519
classes, RFC 8032 clamping, SEC1 uncompressed/hybrid/raw parsing.  Curve arithmetic (scalar
multiplication, square roots, the Edwards on-curve test) is opaque — it is differentially tested.
Proofs in `BipVerif/Lemmas/Ecc.lean`.
-/
import BipVerif.Lemmas.Ecc

namespace BipVerif.Props.C12
open BipVerif BipVerif.Prim BipVerif.Model BipVerif.Model.EccLemmas

/-! ### 1. private keys -/

theorem priv_valid_iff_secp256k1 (b : Bytes) :
    privValid .secp256k1 b = true ↔
      b.length = 32 ∧ 0 < Bytes.toNatBE b ∧ Bytes.toNatBE b < CurveT.secp256k1.order :=
  EccLemmas.priv_valid_iff_secp256k1 b

theorem priv_valid_iff_nist256p1 (b : Bytes) :
    privValid .nist256p1 b = true ↔
      b.length = 32 ∧ 0 < Bytes.toNatBE b ∧ Bytes.toNatBE b < CurveT.nist256p1.order :=
  EccLemmas.priv_valid_iff_nist256p1 b

theorem priv_valid_iff_ed25519 (b : Bytes) : privValid .ed25519 b = true ↔ b.length = 32 :=
  EccLemmas.priv_valid_iff_ed25519 b

theorem priv_valid_iff_ed25519Blake2b (b : Bytes) : privValid .ed25519Blake2b b = true ↔ b.length = 32 :=
  EccLemmas.priv_valid_iff_ed25519Blake2b b

theorem priv_valid_iff_kholaw (b : Bytes) : privValid .ed25519Kholaw b = true ↔ b.length = 64 :=
  EccLemmas.priv_valid_iff_kholaw b

theorem priv_valid_iff_monero (b : Bytes) :
    privValid .ed25519Monero b = true ↔ b.length = 32 ∧ Bytes.toNatLE b < edL :=
  EccLemmas.priv_valid_iff_monero b

theorem wrong_length_refused (c : CurveT) (b : Bytes) (h : b.length ≠ c.privLen) :
    privValid c b = false :=
  EccLemmas.wrong_length_refused c b h

/-! ### 2. canonical public key length -/

theorem pubFromBytes_length (c : CurveT) (b k : Bytes) (h : pubFromBytes c b = some k) :
    k.length = if c = .ed25519Monero then 32 else 33 :=
  EccLemmas.pubFromBytes_length c b k h

theorem pubOfPriv_length (c : CurveT) (priv k : Bytes) (h : pubOfPriv c priv = some k) :
    k.length = if c = .ed25519Monero then 32 else 33 :=
  EccLemmas.pubOfPriv_length c priv k h

theorem compress_aff_length (c : CurveT) (x y : Nat) :
    (c.wcurve.compress (.aff x y)).map List.length = some 33 :=
  EccLemmas.compress_aff_length c x y

theorem coordLen_eq_32 (c : CurveT) : c.wcurve.coordLen = 32 := wcurve_coordLen c

/-- accepted input lengths: 33 / 65 for secp256k1 (libsecp256k1); 33 / 64 / 65 for NIST P-256
(python-ecdsa also takes the raw `x ‖ y` form) -/
theorem pubFromBytes_ecdsa_input_length (c : CurveT) (hc : c = .secp256k1 ∨ c = .nist256p1) (b k : Bytes)
    (h : pubFromBytes c b = some k) :
    b.length = 33 ∨ b.length = 65 ∨ (c = .nist256p1 ∧ b.length = 64) :=
  pubFromBytes_ecdsa_length c hc b k h

theorem pubFromBytes_secp256k1_input_length (b k : Bytes) (h : pubFromBytes .secp256k1 b = some k) :
    b.length = 33 ∨ b.length = 65 :=
  pubFromBytes_secp256k1_length b k h

theorem pubFromBytes_nist256p1_input_length (b k : Bytes) (h : pubFromBytes .nist256p1 b = some k) :
    b.length = 33 ∨ b.length = 64 ∨ b.length = 65 :=
  pubFromBytes_nist256p1_length b k h

/-! ### 3. ed25519 prefix handling -/

theorem ed_strip_prefix (c : CurveT)
    (hc : c = .ed25519 ∨ c = .ed25519Blake2b ∨ c = .ed25519Kholaw ∨ c = .ed25519Monero)
    (k : Bytes) (hk : k.length = 32) : pubFromBytes c (0 :: k) = pubFromBytes c k :=
  EccLemmas.ed_strip_prefix c hc k hk

theorem pubFromBytes_idempotent_ed (c : CurveT)
    (hc : c = .ed25519 ∨ c = .ed25519Blake2b ∨ c = .ed25519Kholaw ∨ c = .ed25519Monero)
    (b k : Bytes) (h : pubFromBytes c b = some k) : pubFromBytes c k = some k :=
  EccLemmas.pubFromBytes_idempotent_ed c hc b k h

theorem pubFromBytes_ed_input_length (c : CurveT)
    (hc : c = .ed25519 ∨ c = .ed25519Blake2b ∨ c = .ed25519Kholaw ∨ c = .ed25519Monero)
    (b k : Bytes) (h : pubFromBytes c b = some k) :
    b.length = 32 ∨ (b.length = 33 ∧ b.head? = some 0) :=
  EccLemmas.pubFromBytes_ed_input_length c hc b k h

/-! ### 4. clamping -/

theorem edClamp_spec (h : Bytes) : edClamp h % 8 = 0 ∧ 2 ^ 254 ≤ edClamp h ∧ edClamp h < 2 ^ 255 :=
  EccLemmas.edClamp_spec h

theorem edClamp_eq (h : Bytes) :
    edClamp h = Bytes.toNatLE (h.take 32) % 2 ^ 254 - Bytes.toNatLE (h.take 32) % 8 + 2 ^ 254 :=
  EccLemmas.edClamp_eq h

theorem edNoClampScalar_lt (b : Bytes) : edNoClampScalar b < 2 ^ 255 := EccLemmas.edNoClampScalar_lt b

/-! ### 5. SEC1 without curve arithmetic -/

/-- `decode (04 ‖ x ‖ y) = (x, y)` whenever `(x, y)` satisfies the curve equation with reduced
coordinates (any short-Weierstrass parameters) -/
theorem sec1_uncompressed_roundtrip (c : WCurve) (x y : Nat) (h : c.onCurve (.aff x y) = true) :
    (c.uncompressed (.aff x y)).bind c.decode = some (.aff x y) :=
  EccLemmas.sec1_uncompressed_roundtrip c x y h

theorem sec1_uncompressed_sound (c : WCurve) (rest : Bytes) (P : WPoint)
    (h : c.decode (4 :: rest) = some P) : c.onCurve P = true ∧ c.uncompressed P = some (4 :: rest) :=
  decode_04_sound c rest P h

theorem sec1_compress_parity (c : CurveT) (x y : Nat) :
    c.wcurve.compress (.aff x y) = some (UInt8.ofNat (2 + y % 2) :: Bytes.ofNatBE 32 x) ∧
    (UInt8.ofNat (2 + y % 2)).toNat = 2 + y % 2 ∧
    (x < 2 ^ 256 → Bytes.toNatBE (Bytes.ofNatBE 32 x) = x) :=
  EccLemmas.sec1_compress_parity c x y

theorem pubFromBytes_uncompressed (c : CurveT) (hc : c = .secp256k1 ∨ c = .nist256p1) (x y : Nat)
    (h : c.wcurve.onCurve (.aff x y) = true) :
    pubFromBytes c (4 :: Bytes.ofNatBE 32 x ++ Bytes.ofNatBE 32 y) =
      some (UInt8.ofNat (2 + y % 2) :: Bytes.ofNatBE 32 x) :=
  EccLemmas.pubFromBytes_uncompressed c hc x y h

theorem hybrid_secp256k1 (x y : Nat) (pfx : UInt8) (hp : pfx = 6 ∨ pfx = 7)
    (h : Prim.secp256k1.onCurve (.aff x y) = true) :
    wDecodePub .secp256k1 (pfx :: Bytes.ofNatBE 32 x ++ Bytes.ofNatBE 32 y) =
      if (y % 2 = 1) = (pfx = 7) then some (.aff x y) else none :=
  EccLemmas.hybrid_secp256k1 x y pfx hp h

/-- python-ecdsa accepts the hybrid encodings under the same parity rule as libsecp256k1 -/
theorem hybrid_nist256p1 (x y : Nat) (pfx : UInt8) (hp : pfx = 6 ∨ pfx = 7)
    (h : Prim.nist256p1.onCurve (.aff x y) = true) :
    wDecodePub .nist256p1 (pfx :: Bytes.ofNatBE 32 x ++ Bytes.ofNatBE 32 y) =
      if (y % 2 = 1) = (pfx = 7) then some (.aff x y) else none :=
  EccLemmas.hybrid_nist256p1 x y pfx hp h

/-- both curves at once -/
theorem hybrid_ecdsa (c : CurveT) (hc : c = .secp256k1 ∨ c = .nist256p1) (x y : Nat) (pfx : UInt8)
    (hp : pfx = 6 ∨ pfx = 7) (h : c.wcurve.onCurve (.aff x y) = true) :
    wDecodePub c (pfx :: Bytes.ofNatBE 32 x ++ Bytes.ofNatBE 32 y) =
      if (y % 2 = 1) = (pfx = 7) then some (.aff x y) else none :=
  EccLemmas.hybrid_ecdsa c hc x y pfx hp h

/-- python-ecdsa accepts the raw 64-byte `x ‖ y` of an on-curve point (`onCurve` includes `x, y < p`) -/
theorem raw_nist256p1 (x y : Nat) (h : Prim.nist256p1.onCurve (.aff x y) = true) :
    wDecodePub .nist256p1 (Bytes.ofNatBE 32 x ++ Bytes.ofNatBE 32 y) = some (.aff x y) :=
  EccLemmas.raw_nist256p1 x y h

theorem pubFromBytes_raw_nist256p1 (x y : Nat) (h : Prim.nist256p1.onCurve (.aff x y) = true) :
    pubFromBytes .nist256p1 (Bytes.ofNatBE 32 x ++ Bytes.ofNatBE 32 y) =
      some (UInt8.ofNat (2 + y % 2) :: Bytes.ofNatBE 32 x) :=
  EccLemmas.pubFromBytes_raw_nist256p1 x y h

/-- libsecp256k1 refuses every 64-byte input -/
theorem raw_secp256k1_refused (b : Bytes) (hb : b.length = 64) : pubFromBytes .secp256k1 b = none :=
  EccLemmas.raw_secp256k1_refused b hb

end BipVerif.Props.C12
