/-
Table theorems for the Monero and Electrum-v1 word lists (regenerated from /repo on every run):
1626 entries, no repeated word, equal to the pinned list, and pairwise distinct `k`-code-point
prefixes (what makes the Monero checksum word well defined).
-/
import BipVerif.Gen.Words
import BipVerif.Golden.Words
import BipVerif.Lemmas.Table

namespace BipVerif.Props.C17Tables
open BipVerif BipVerif.Table

theorem monero_chineseSimplified_length : Gen.monero_chineseSimplified.length = 1626 := by
  rw [← lengthR_eq]; decide +kernel
theorem monero_chineseSimplified_nodup : Gen.monero_chineseSimplified.Nodup := nodupCheck_sound _ (by decide +kernel)
theorem monero_chineseSimplified_pinned : Gen.monero_chineseSimplified = Golden.monero_chineseSimplified := listEqCheck_sound _ _ (by decide +kernel)
theorem monero_chineseSimplified_prefix_unique :
    (Gen.monero_chineseSimplified.map (fun w => utf8Prefix 1 (wordBytesNat w))).Nodup := prefixNodupCheck_sound 1 _ (by decide +kernel)

theorem monero_dutch_length : Gen.monero_dutch.length = 1626 := by
  rw [← lengthR_eq]; decide +kernel
theorem monero_dutch_nodup : Gen.monero_dutch.Nodup := nodupCheck_sound _ (by decide +kernel)
theorem monero_dutch_pinned : Gen.monero_dutch = Golden.monero_dutch := listEqCheck_sound _ _ (by decide +kernel)
theorem monero_dutch_prefix_unique :
    (Gen.monero_dutch.map (fun w => utf8Prefix 4 (wordBytesNat w))).Nodup := prefixNodupCheck_sound 4 _ (by decide +kernel)

theorem monero_english_length : Gen.monero_english.length = 1626 := by
  rw [← lengthR_eq]; decide +kernel
theorem monero_english_nodup : Gen.monero_english.Nodup := nodupCheck_sound _ (by decide +kernel)
theorem monero_english_pinned : Gen.monero_english = Golden.monero_english := listEqCheck_sound _ _ (by decide +kernel)
theorem monero_english_prefix_unique :
    (Gen.monero_english.map (fun w => utf8Prefix 3 (wordBytesNat w))).Nodup := prefixNodupCheck_sound 3 _ (by decide +kernel)

theorem monero_french_length : Gen.monero_french.length = 1626 := by
  rw [← lengthR_eq]; decide +kernel
theorem monero_french_nodup : Gen.monero_french.Nodup := nodupCheck_sound _ (by decide +kernel)
theorem monero_french_pinned : Gen.monero_french = Golden.monero_french := listEqCheck_sound _ _ (by decide +kernel)
theorem monero_french_prefix_unique :
    (Gen.monero_french.map (fun w => utf8Prefix 4 (wordBytesNat w))).Nodup := prefixNodupCheck_sound 4 _ (by decide +kernel)

theorem monero_german_length : Gen.monero_german.length = 1626 := by
  rw [← lengthR_eq]; decide +kernel
theorem monero_german_nodup : Gen.monero_german.Nodup := nodupCheck_sound _ (by decide +kernel)
theorem monero_german_pinned : Gen.monero_german = Golden.monero_german := listEqCheck_sound _ _ (by decide +kernel)
theorem monero_german_prefix_unique :
    (Gen.monero_german.map (fun w => utf8Prefix 4 (wordBytesNat w))).Nodup := prefixNodupCheck_sound 4 _ (by decide +kernel)

theorem monero_italian_length : Gen.monero_italian.length = 1626 := by
  rw [← lengthR_eq]; decide +kernel
theorem monero_italian_nodup : Gen.monero_italian.Nodup := nodupCheck_sound _ (by decide +kernel)
theorem monero_italian_pinned : Gen.monero_italian = Golden.monero_italian := listEqCheck_sound _ _ (by decide +kernel)
theorem monero_italian_prefix_unique :
    (Gen.monero_italian.map (fun w => utf8Prefix 4 (wordBytesNat w))).Nodup := prefixNodupCheck_sound 4 _ (by decide +kernel)

theorem monero_japanese_length : Gen.monero_japanese.length = 1626 := by
  rw [← lengthR_eq]; decide +kernel
theorem monero_japanese_nodup : Gen.monero_japanese.Nodup := nodupCheck_sound _ (by decide +kernel)
theorem monero_japanese_pinned : Gen.monero_japanese = Golden.monero_japanese := listEqCheck_sound _ _ (by decide +kernel)
theorem monero_japanese_prefix_unique :
    (Gen.monero_japanese.map (fun w => utf8Prefix 4 (wordBytesNat w))).Nodup := prefixNodupCheck_sound 4 _ (by decide +kernel)

theorem monero_portuguese_length : Gen.monero_portuguese.length = 1626 := by
  rw [← lengthR_eq]; decide +kernel
theorem monero_portuguese_nodup : Gen.monero_portuguese.Nodup := nodupCheck_sound _ (by decide +kernel)
theorem monero_portuguese_pinned : Gen.monero_portuguese = Golden.monero_portuguese := listEqCheck_sound _ _ (by decide +kernel)
theorem monero_portuguese_prefix_unique :
    (Gen.monero_portuguese.map (fun w => utf8Prefix 4 (wordBytesNat w))).Nodup := prefixNodupCheck_sound 4 _ (by decide +kernel)

theorem monero_spanish_length : Gen.monero_spanish.length = 1626 := by
  rw [← lengthR_eq]; decide +kernel
theorem monero_spanish_nodup : Gen.monero_spanish.Nodup := nodupCheck_sound _ (by decide +kernel)
theorem monero_spanish_pinned : Gen.monero_spanish = Golden.monero_spanish := listEqCheck_sound _ _ (by decide +kernel)
theorem monero_spanish_prefix_unique :
    (Gen.monero_spanish.map (fun w => utf8Prefix 4 (wordBytesNat w))).Nodup := prefixNodupCheck_sound 4 _ (by decide +kernel)

theorem monero_russian_length : Gen.monero_russian.length = 1626 := by
  rw [← lengthR_eq]; decide +kernel
theorem monero_russian_nodup : Gen.monero_russian.Nodup := nodupCheck_sound _ (by decide +kernel)
theorem monero_russian_pinned : Gen.monero_russian = Golden.monero_russian := listEqCheck_sound _ _ (by decide +kernel)
theorem monero_russian_prefix_unique :
    (Gen.monero_russian.map (fun w => utf8Prefix 4 (wordBytesNat w))).Nodup := prefixNodupCheck_sound 4 _ (by decide +kernel)

theorem electrumV1_english_length : Gen.electrumV1_english.length = 1626 := by
  rw [← lengthR_eq]; decide +kernel
theorem electrumV1_english_nodup : Gen.electrumV1_english.Nodup := nodupCheck_sound _ (by decide +kernel)
theorem electrumV1_english_pinned : Gen.electrumV1_english = Golden.electrumV1_english :=
  listEqCheck_sound _ _ (by decide +kernel)

/-- the unique-prefix lengths the library uses, per language -/
theorem monero_prefix_lengths :
    Gen.moneroPrefixLen = [("CHINESE_SIMPLIFIED", 1), ("DUTCH", 4), ("ENGLISH", 3), ("FRENCH", 4), ("GERMAN", 4),
      ("ITALIAN", 4), ("JAPANESE", 4), ("PORTUGUESE", 4), ("RUSSIAN", 4), ("SPANISH", 4)] := by decide

end BipVerif.Props.C17Tables
