/-
C05 — extended-key serialisation (`xpub`/`xprv` strings): layout, parse∘print = id,
print∘parse = id (canonicity), complete error split, `FromExtendedKey` facts.
All statements are for an arbitrary checksum hash `H` with at least 4 output bytes
(the library's `H` is `sha256d`, 32 bytes).  Helper lemmas: `BipVerif/Lemmas/ExtKey.lean`.
-/
import BipVerif.Lemmas.ExtKey

namespace BipVerif.Props.C05
open BipVerif BipVerif.Model

/-! ### 1. layout -/

/-- the serialiser succeeds exactly when depth fits one byte and the index four. -/
theorem serializeKey_ok_iff (H : Bytes → Bytes) (ver : Bytes) (depth : Nat) (fp : Bytes) (idx : Nat)
    (cc key : Bytes) :
    (∃ s, serializeKey H ver depth fp idx cc key = .ok s) ↔ depth < 256 ∧ idx < 2 ^ 32 := by
  constructor
  · rintro ⟨s, hs⟩
    by_contra hn
    rw [XK.serializeKey_overflow H ver depth fp idx cc key hn] at hs; cases hs
  · rintro ⟨hd, hi⟩; exact ⟨_, XK.serializeKey_eq H ver depth fp idx cc key hd hi⟩

/-- … and otherwise raises `OverflowError` (never anything else). -/
theorem serializeKey_error_iff (H : Bytes → Bytes) (ver : Bytes) (depth : Nat) (fp : Bytes) (idx : Nat)
    (cc key : Bytes) (e : Err) :
    serializeKey H ver depth fp idx cc key = .error e ↔ e = .overflow ∧ ¬ (depth < 256 ∧ idx < 2 ^ 32) := by
  by_cases h : depth < 256 ∧ idx < 2 ^ 32
  · rw [XK.serializeKey_eq H ver depth fp idx cc key h.1 h.2]
    constructor
    · intro he; cases he
    · rintro ⟨_, hn⟩; exact absurd h hn
  · rw [XK.serializeKey_overflow H ver depth fp idx cc key h]
    constructor
    · intro he; exact ⟨(Except.error.inj he).symm, h⟩
    · rintro ⟨rfl, _⟩; rfl

/-- **layout**: a produced string Base58Check-decodes to
`ver ‖ depth(1) ‖ fp(4) ‖ index(4, big endian) ‖ chain code(32) ‖ key` at offsets
0/4/5/9/13/45, total `45 + key.length` bytes (78 for a 33-byte key). -/
theorem ser_layout (H : Bytes → Bytes) (hH : ∀ x, (H x).length ≥ 4) (ver : Bytes) (depth : Nat)
    (fp : Bytes) (idx : Nat) (cc key : Bytes) (s : List Char)
    (hv : ver.length = 4) (hfp : fp.length = 4) (hcc : cc.length = 32)
    (h : serializeKey H ver depth fp idx cc key = .ok s) :
    depth ≤ 255 ∧ idx < 2 ^ 32 ∧
    ∃ payload : Bytes,
      payload = ver ++ [UInt8.ofNat depth] ++ fp ++ Bytes.ofNatBE 4 idx ++ cc ++ key ∧
      b58CheckDecode H btcAlphabet s = .ok payload ∧
      payload.length = 45 + key.length ∧
      payload.take 4 = ver ∧
      payload[4]? = some (UInt8.ofNat depth) ∧
      (payload.drop 5).take 4 = fp ∧
      (payload.drop 9).take 4 = Bytes.ofNatBE 4 idx ∧
      (payload.drop 13).take 32 = cc ∧
      payload.drop 45 = key := by
  have hok := (serializeKey_ok_iff H ver depth fp idx cc key).mp ⟨s, h⟩
  obtain ⟨hd, hi⟩ := hok
  rw [XK.serializeKey_eq H ver depth fp idx cc key hd hi] at h
  have hs := (Except.ok.inj h).symm
  have hi4 := XK.ofNatBE_length 4 idx
  have hlen := XK.extPayload_length ver (UInt8.ofNat depth) fp (Bytes.ofNatBE 4 idx) cc key hv hfp hi4 hcc
  refine ⟨by omega, hi, XK.extPayload ver (UInt8.ofNat depth) fp (Bytes.ofNatBE 4 idx) cc key, rfl, ?_,
    hlen, XK.extPayload_take4 _ _ _ _ _ _ hv, ?_, XK.extPayload_fp _ _ _ _ _ _ hv hfp,
    XK.extPayload_idx _ _ _ _ _ _ hv hfp hi4, XK.extPayload_cc _ _ _ _ _ _ hv hfp hi4 hcc,
    XK.extPayload_key _ _ _ _ _ _ hv hfp hi4 hcc⟩
  · rw [hs]; exact XK.b58CheckDecode_btc_encode H hH _
  · have := XK.extPayload_get4 ver (UInt8.ofNat depth) fp (Bytes.ofNatBE 4 idx) cc key hv
    have h4 : 4 < (XK.extPayload ver (UInt8.ofNat depth) fp (Bytes.ofNatBE 4 idx) cc key).length := by
      rw [hlen]; omega
    rw [List.getD_eq_getElem?_getD, List.getElem?_eq_getElem h4] at this
    rw [List.getElem?_eq_getElem h4]
    exact congrArg some this

/-! ### 2. parse ∘ print = id -/

/-- public keys (33-byte key, 78-byte payload). -/
theorem deser_ser_pub (H : Bytes → Bytes) (hH : ∀ x, (H x).length ≥ 4) (kv : KeyNetVer)
    (hpub : kv.pub.length = 4) (depth idx : Nat) (fp cc key : Bytes)
    (hd : depth ≤ 255) (hi : idx < 2 ^ 32) (hfp : fp.length = 4) (hcc : cc.length = 32)
    (hkey : key.length = 33) :
    (serializeKey H kv.pub depth fp idx cc key >>= deserializeKey H kv)
      = .ok ⟨key, depth, idx, cc, fp, true⟩ := by
  have hi4 := XK.ofNatBE_length 4 idx
  rw [XK.serializeKey_eq H kv.pub depth fp idx cc key (by omega) hi]
  show deserializeKey H kv _ = _
  rw [XK.deserializeKey_eq, XK.b58CheckDecode_btc_encode H hH]
  show XK.parsePayload kv _ = _
  rw [XK.parsePayload_pub kv _ (XK.extPayload_take4 _ _ _ _ _ _ hpub),
    XK.extPayload_length _ _ _ _ _ _ hpub hfp hi4 hcc, if_pos (by omega),
    XK.fieldsPub_extPayload _ _ _ _ _ _ hpub hfp hi4 hcc, XK.toNatBE_ofNatBE,
    UInt8.toNat_ofNat', Nat.mod_eq_of_lt (show depth < 2 ^ 8 by omega),
    Nat.mod_eq_of_lt (show idx < 256 ^ 4 by norm_num at hi ⊢; exact hi)]

/-- private keys: 32-byte key (78-byte payload) or 64-byte key (110-byte payload), written
behind a zero pad byte. Needs distinguishable version bytes. -/
theorem deser_ser_priv (H : Bytes → Bytes) (hH : ∀ x, (H x).length ≥ 4) (kv : KeyNetVer)
    (hpriv : kv.priv.length = 4) (hne : kv.pub ≠ kv.priv) (depth idx : Nat) (fp cc k : Bytes)
    (hd : depth ≤ 255) (hi : idx < 2 ^ 32) (hfp : fp.length = 4) (hcc : cc.length = 32)
    (hk : k.length = 32 ∨ k.length = 64) :
    (serializeKey H kv.priv depth fp idx cc ([0] ++ k) >>= deserializeKey H kv)
      = .ok ⟨k, depth, idx, cc, fp, false⟩ := by
  have hi4 := XK.ofNatBE_length 4 idx
  rw [XK.serializeKey_eq H kv.priv depth fp idx cc _ (by omega) hi]
  show deserializeKey H kv _ = _
  rw [XK.deserializeKey_eq, XK.b58CheckDecode_btc_encode H hH]
  show XK.parsePayload kv (XK.extPayload _ _ _ _ _ (0 :: k)) = _
  have ht := XK.extPayload_take4 kv.priv (UInt8.ofNat depth) fp (Bytes.ofNatBE 4 idx) cc (0 :: k) hpriv
  obtain ⟨hf, hpad⟩ := XK.fieldsPriv_extPayload kv.priv (UInt8.ofNat depth) fp (Bytes.ofNatBE 4 idx) cc 0 k
    hpriv hfp hi4 hcc
  rw [XK.parsePayload_priv kv _ (by rw [ht]; exact fun e => hne e.symm) ht,
    XK.extPayload_length _ _ _ _ _ _ hpriv hfp hi4 hcc,
    if_pos (by simp only [List.length_cons]; omega), if_pos hpad, hf, XK.toNatBE_ofNatBE,
    UInt8.toNat_ofNat', Nat.mod_eq_of_lt (show depth < 2 ^ 8 by omega),
    Nat.mod_eq_of_lt (show idx < 256 ^ 4 by norm_num at hi ⊢; exact hi)]

/-- **parse ∘ print = id**, both key kinds, under the hypotheses of the design document. -/
theorem deser_ser (H : Bytes → Bytes) (hH : ∀ x, (H x).length ≥ 4) (kv : KeyNetVer)
    (hpub : kv.pub.length = 4) (hpriv : kv.priv.length = 4) (hne : kv.pub ≠ kv.priv)
    (depth idx : Nat) (fp cc : Bytes) (hd : depth ≤ 255) (hi : idx < 2 ^ 32)
    (hfp : fp.length = 4) (hcc : cc.length = 32) :
    (∀ key : Bytes, key.length = 33 →
      (serializeKey H kv.pub depth fp idx cc key >>= deserializeKey H kv)
        = .ok ⟨key, depth, idx, cc, fp, true⟩) ∧
    (∀ k : Bytes, k.length = 32 ∨ k.length = 64 →
      (serializeKey H kv.priv depth fp idx cc ([0] ++ k) >>= deserializeKey H kv)
        = .ok ⟨k, depth, idx, cc, fp, false⟩) :=
  ⟨fun key hkey => deser_ser_pub H hH kv hpub depth idx fp cc key hd hi hfp hcc hkey,
   fun k hk => deser_ser_priv H hH kv hpriv hne depth idx fp cc k hd hi hfp hcc hk⟩

/-- `ToExtended` of a node's public key parses back to the node's fields. -/
theorem toExtendedPub_deser (H : Bytes → Bytes) (hH : ∀ x, (H x).length ≥ 4) (kv : KeyNetVer)
    (hpub : kv.pub.length = 4) (n : Node) (hd : n.depth ≤ 255) (hi : n.index < 2 ^ 32)
    (hfp : n.parentFp.length = 4) (hcc : n.chainCode.length = 32) (hkey : n.pub.length = 33) :
    (n.toExtendedPub H kv >>= deserializeKey H kv)
      = .ok ⟨n.pub, n.depth, n.index, n.chainCode, n.parentFp, true⟩ :=
  deser_ser_pub H hH kv hpub n.depth n.index n.parentFp n.chainCode n.pub hd hi hfp hcc hkey

/-- `ToExtended` of a node's private key parses back to the node's fields. -/
theorem toExtendedPriv_deser (H : Bytes → Bytes) (hH : ∀ x, (H x).length ≥ 4) (kv : KeyNetVer)
    (hpriv : kv.priv.length = 4) (hne : kv.pub ≠ kv.priv) (n : Node) (k : Bytes)
    (hpk : n.priv = some k) (hd : n.depth ≤ 255) (hi : n.index < 2 ^ 32)
    (hfp : n.parentFp.length = 4) (hcc : n.chainCode.length = 32)
    (hk : k.length = 32 ∨ k.length = 64) :
    (n.toExtendedPriv H kv >>= deserializeKey H kv)
      = .ok ⟨k, n.depth, n.index, n.chainCode, n.parentFp, false⟩ := by
  unfold Node.toExtendedPriv
  rw [hpk]
  exact deser_ser_priv H hH kv hpriv hne n.depth n.index n.parentFp n.chainCode k hd hi hfp hcc hk

/-- a public-only node has no extended private key (`Bip32KeyError`). -/
theorem toExtendedPriv_public_only (H : Bytes → Bytes) (kv : KeyNetVer) (n : Node)
    (h : n.priv = none) : n.toExtendedPriv H kv = .error .key := by
  unfold Node.toExtendedPriv; rw [h]; rfl

/-! ### 3. what is accepted, and the complete error split -/

/-- **acceptance**: the string Base58Check-decodes to a payload that starts with the version
of `d.isPublic`, has 78 bytes (public) or 78/110 bytes (private, pad byte 0 at offset 45), and
`d` is read off the fixed offsets. -/
theorem deser_ok_iff (H : Bytes → Bytes) (kv : KeyNetVer) (s : List Char) (d : DeserKey) :
    deserializeKey H kv s = .ok d ↔
      ∃ ser, b58CheckDecode H btcAlphabet s = .ok ser ∧
        ((ser.take 4 = kv.pub ∧ ser.length = 78 ∧
            d = ⟨ser.drop 45, (ser.getD 4 0).toNat, Bytes.toNatBE ((ser.drop 9).take 4),
                  (ser.drop 13).take 32, (ser.drop 5).take 4, true⟩) ∨
         (ser.take 4 ≠ kv.pub ∧ ser.take 4 = kv.priv ∧ (ser.length = 78 ∨ ser.length = 110) ∧
            ser.getD 45 1 = 0 ∧
            d = ⟨ser.drop 46, (ser.getD 4 0).toNat, Bytes.toNatBE ((ser.drop 9).take 4),
                  (ser.drop 13).take 32, (ser.drop 5).take 4, false⟩)) := by
  rw [XK.deserializeKey_eq]
  cases hdec : b58CheckDecode H btcAlphabet s with
  | error e => simp [bind, Except.bind]
  | ok ser =>
    show XK.parsePayload kv ser = .ok d ↔ _
    rw [XK.parsePayload_ok_iff]
    simp [XK.fieldsPub, XK.fieldsPriv]

/-- the version found in an accepted string matches `isPublic`, and the field widths. -/
theorem deser_ok_shape (H : Bytes → Bytes) (kv : KeyNetVer) (s : List Char) (d : DeserKey)
    (h : deserializeKey H kv s = .ok d) :
    ∃ ser, b58CheckDecode H btcAlphabet s = .ok ser ∧
      ser.take 4 = (if d.isPublic then kv.pub else kv.priv) ∧
      (if d.isPublic then ser.length = 78 else (ser.length = 78 ∨ ser.length = 110) ∧ ser[45]? = some 0) ∧
      d.depth ≤ 255 ∧ d.index < 2 ^ 32 ∧ d.chainCode.length = 32 ∧ d.parentFp.length = 4 ∧
      d.keyBytes.length = (if d.isPublic then 33 else ser.length - 46) := by
  obtain ⟨ser, hdec, hcase⟩ := (deser_ok_iff H kv s d).mp h
  refine ⟨ser, hdec, ?_⟩
  have hidx : ∀ l : Bytes, l.length = 4 → Bytes.toNatBE l < 2 ^ 32 := by
    intro l hl; have := XK.toNatBE_lt l; rw [hl] at this; norm_num at this ⊢; exact this
  rcases hcase with ⟨h1, h2, rfl⟩ | ⟨h0, h1, h2, h3, rfl⟩
  · refine ⟨h1, h2, ?_, hidx _ (by simp; omega), by simp; omega, by simp; omega, by simp; omega⟩
    have := (ser.getD 4 0).toNat_lt; simp only; omega
  · have h45 : 45 < ser.length := by omega
    refine ⟨h1, ⟨h2, ?_⟩, ?_, hidx _ (by simp; omega), by simp; omega, by simp; omega, by simp⟩
    · rw [List.getD_eq_getElem?_getD, List.getElem?_eq_getElem h45] at h3
      rw [List.getElem?_eq_getElem h45]; exact congrArg some h3
    · have := (ser.getD 4 0).toNat_lt; simp only; omega

/-- **error split**: only `Bip32KeyError`, `ValueError` (Base58 alphabet) or the checksum error
can escape — in particular no `IndexError`. -/
theorem deser_error_kinds (H : Bytes → Bytes) (kv : KeyNetVer) (s : List Char) (e : Err)
    (h : deserializeKey H kv s = .error e) : e = .key ∨ e = .value ∨ e = .checksum := by
  rw [XK.deserializeKey_eq] at h
  cases hdec : b58CheckDecode H btcAlphabet s with
  | error e' =>
    rw [hdec] at h
    have : e' = e := Except.error.inj h
    subst this
    exact Or.inr (XK.b58CheckDecode_error H btcAlphabet s e' hdec)
  | ok ser =>
    rw [hdec] at h
    exact Or.inl (XK.parsePayload_error kv ser e h)

/-- `ValueError` ⇔ some character is outside the Base58 alphabet. -/
theorem deser_error_value_iff (H : Bytes → Bytes) (kv : KeyNetVer) (s : List Char) :
    deserializeKey H kv s = .error .value ↔ ¬ ∀ c ∈ s, c ∈ btcAlphabet := by
  rw [← XK.b58CheckDecode_value_iff H, XK.deserializeKey_eq]
  cases hdec : b58CheckDecode H btcAlphabet s with
  | error e' => simp [bind, Except.bind]
  | ok ser =>
    constructor
    · intro h; have := XK.parsePayload_error kv ser _ h; cases this
    · intro h; cases h

/-- checksum error ⇔ the string is Base58 but its last four bytes are not the hash prefix. -/
theorem deser_error_checksum_iff (H : Bytes → Bytes) (kv : KeyNetVer) (s : List Char) :
    deserializeKey H kv s = .error .checksum ↔
      ∃ dec, b58Decode btcAlphabet s = .ok dec ∧ takeLast dec 4 ≠ (H (dropLast dec 4)).take 4 := by
  rw [← XK.b58CheckDecode_checksum_iff H, XK.deserializeKey_eq]
  cases hdec : b58CheckDecode H btcAlphabet s with
  | error e' => simp [bind, Except.bind]
  | ok ser =>
    constructor
    · intro h; have := XK.parsePayload_error kv ser _ h; cases this
    · intro h; cases h

/-- `Bip32KeyError` ⇔ the checksummed payload has an unknown version, a wrong length for its
version, or (private) a non-zero pad byte. -/
theorem deser_error_key_iff (H : Bytes → Bytes) (kv : KeyNetVer) (s : List Char) :
    deserializeKey H kv s = .error .key ↔
      ∃ ser, b58CheckDecode H btcAlphabet s = .ok ser ∧
        ((ser.take 4 ≠ kv.pub ∧ ser.take 4 ≠ kv.priv) ∨
         (ser.take 4 = kv.pub ∧ ser.length ≠ 78) ∨
         (ser.take 4 ≠ kv.pub ∧ ser.take 4 = kv.priv ∧ ¬ (ser.length = 78 ∨ ser.length = 110)) ∨
         (ser.take 4 ≠ kv.pub ∧ ser.take 4 = kv.priv ∧ (ser.length = 78 ∨ ser.length = 110) ∧
            ser.getD 45 1 ≠ 0)) := by
  rw [XK.deserializeKey_eq]
  cases hdec : b58CheckDecode H btcAlphabet s with
  | error e' =>
    have := XK.b58CheckDecode_error H btcAlphabet s e' hdec
    rcases this with rfl | rfl <;> simp [bind, Except.bind]
  | ok ser =>
    show XK.parsePayload kv ser = .error .key ↔ _
    rw [XK.parsePayload_key_iff]
    simp

/-! ### 4. print ∘ parse = id (canonicity) -/

/-- every accepted string is *the* serialisation of what it parses to. -/
theorem ser_deser (H : Bytes → Bytes) (hH : ∀ x, (H x).length ≥ 4) (kv : KeyNetVer) (s : List Char)
    (d : DeserKey) (h : deserializeKey H kv s = .ok d) :
    serializeKey H (if d.isPublic then kv.pub else kv.priv) d.depth d.parentFp d.index d.chainCode
      (if d.isPublic then d.keyBytes else [0] ++ d.keyBytes) = .ok s := by
  obtain ⟨ser, hdec, hcase⟩ := (deser_ok_iff H kv s d).mp h
  have hb58 := (XK.b58CheckDecode_ok_iff H btcAlphabet hH s ser).mp hdec
  have hcanon : b58CheckEncode H btcAlphabet ser = s :=
    XK.b58_encode_decode btcAlphabet XK.btcAlphabet_length s _ hb58
  have hlen : 78 ≤ ser.length := by
    rcases hcase with ⟨_, h2, _⟩ | ⟨_, _, h2, _⟩ <;> omega
  have hdepth : (ser.getD 4 0).toNat < 256 := (ser.getD 4 0).toNat_lt
  have hi4 : ((ser.drop 9).take 4).length = 4 := by simp; omega
  have hidx : Bytes.toNatBE ((ser.drop 9).take 4) < 2 ^ 32 := by
    have := XK.toNatBE_lt ((ser.drop 9).take 4); rw [hi4] at this; norm_num at this ⊢; exact this
  have hre := XK.extPayload_reassemble ser (by omega)
  have hofnat : Bytes.ofNatBE 4 (Bytes.toNatBE ((ser.drop 9).take 4)) = (ser.drop 9).take 4 := by
    have := XK.ofNatBE_toNatBE ((ser.drop 9).take 4); rwa [hi4] at this
  rcases hcase with ⟨h1, _, rfl⟩ | ⟨_, h1, _, h3, rfl⟩
  · simp only [if_true]
    rw [XK.serializeKey_eq H _ _ _ _ _ _ hdepth hidx, UInt8.ofNat_toNat, hofnat, ← h1, hre, hcanon]
  · simp only [Bool.false_eq_true, if_false]
    have hkey : [0] ++ ser.drop 46 = ser.drop 45 := by
      have h45 : 45 < ser.length := by omega
      rw [List.getD_eq_getElem?_getD, List.getElem?_eq_getElem h45] at h3
      have h3' : ser[45] = 0 := by simpa using h3
      rw [List.drop_eq_getElem_cons h45, h3']; rfl
    rw [XK.serializeKey_eq H _ _ _ _ _ _ hdepth hidx, UInt8.ofNat_toNat, hofnat, hkey, ← h1, hre, hcanon]

/-- consequently the parser is injective: two accepted strings with the same parse are equal. -/
theorem deser_inj (H : Bytes → Bytes) (hH : ∀ x, (H x).length ≥ 4) (kv : KeyNetVer) (s t : List Char)
    (d : DeserKey) (hs : deserializeKey H kv s = .ok d) (ht : deserializeKey H kv t = .ok d) :
    s = t := by
  have h1 := ser_deser H hH kv s d hs
  have h2 := ser_deser H hH kv t d ht
  rw [h1] at h2; exact Except.ok.inj h2

/-! ### 5. `FromExtendedKey` -/

/-- a depth-0 (master) key with a non-zero parent fingerprint or index is refused. -/
theorem fromExtendedKey_depth0 (H : Bytes → Bytes) (c : CurveT) (sch : Scheme) (kv : KeyNetVer)
    (s : List Char) (d : DeserKey) (h : deserializeKey H kv s = .ok d) (h0 : d.depth = 0)
    (hbad : d.parentFp ≠ [0,0,0,0] ∨ d.index ≠ 0) :
    fromExtendedKey H c sch kv s = .error .key := by
  rw [XK.fromExtendedKey_eq, h]
  show XK.nodeOfDeser c sch d = _
  unfold XK.nodeOfDeser
  rw [if_pos ⟨h0, hbad⟩]

/-- invalid public key bytes are refused with `Bip32KeyError`. -/
theorem fromExtendedKey_invalid_pub (H : Bytes → Bytes) (c : CurveT) (sch : Scheme) (kv : KeyNetVer)
    (s : List Char) (d : DeserKey) (h : deserializeKey H kv s = .ok d) (hp : d.isPublic = true)
    (hbad : pubFromBytes c d.keyBytes = none) :
    fromExtendedKey H c sch kv s = .error .key := by
  rw [XK.fromExtendedKey_eq, h]
  show XK.nodeOfDeser c sch d = _
  unfold XK.nodeOfDeser
  by_cases hroot : d.depth = 0 ∧ (d.parentFp ≠ [0,0,0,0] ∨ d.index ≠ 0)
  · rw [if_pos hroot]
  · rw [if_neg hroot, if_pos hp, XK.nodeOfPub_eq, hbad]

/-- invalid private key bytes are refused with `Bip32KeyError`. -/
theorem fromExtendedKey_invalid_priv (H : Bytes → Bytes) (c : CurveT) (sch : Scheme) (kv : KeyNetVer)
    (s : List Char) (d : DeserKey) (h : deserializeKey H kv s = .ok d) (hp : d.isPublic = false)
    (hbad : privValid c d.keyBytes = false) :
    fromExtendedKey H c sch kv s = .error .key := by
  rw [XK.fromExtendedKey_eq, h]
  show XK.nodeOfDeser c sch d = _
  unfold XK.nodeOfDeser
  by_cases hroot : d.depth = 0 ∧ (d.parentFp ≠ [0,0,0,0] ∨ d.index ≠ 0)
  · rw [if_pos hroot]
  · rw [if_neg hroot, if_neg (by simp [hp]), XK.nodeOfPriv_eq, if_pos hbad]

/-- on success the node carries exactly the parsed fields, the key was valid, and a depth-0
key had zero fingerprint and index. -/
theorem fromExtendedKey_ok (H : Bytes → Bytes) (c : CurveT) (sch : Scheme) (kv : KeyNetVer)
    (s : List Char) (n : Node) (h : fromExtendedKey H c sch kv s = .ok n) :
    ∃ d, deserializeKey H kv s = .ok d ∧
      n.depth = d.depth ∧ n.index = d.index ∧ n.chainCode = d.chainCode ∧ n.parentFp = d.parentFp ∧
      n.curve = c ∧ n.scheme = sch ∧
      (d.depth = 0 → d.parentFp = [0,0,0,0] ∧ d.index = 0) ∧
      (if d.isPublic then n.priv = none ∧ pubFromBytes c d.keyBytes = some n.pub
       else n.priv = some d.keyBytes ∧ privValid c d.keyBytes = true ∧
            pubOfPriv c d.keyBytes = some n.pub) := by
  rw [XK.fromExtendedKey_eq] at h
  cases hd : deserializeKey H kv s with
  | error e => rw [hd] at h; cases h
  | ok d =>
    rw [hd] at h
    replace h : XK.nodeOfDeser c sch d = .ok n := h
    obtain ⟨ser, _, _, _, _, _, _, hfp, _⟩ := deser_ok_shape H kv s d hd
    have hfp4 : d.parentFp.take 4 = d.parentFp := List.take_of_length_le (by omega)
    refine ⟨d, rfl, ?_⟩
    unfold XK.nodeOfDeser at h
    split at h
    · cases h
    · rename_i hroot
      have hroot' : d.depth = 0 → d.parentFp = [0,0,0,0] ∧ d.index = 0 := by
        intro h0
        by_contra hc
        apply hroot
        refine ⟨h0, ?_⟩
        by_cases h1 : d.parentFp = [0,0,0,0]
        · right; intro h2; exact hc ⟨h1, h2⟩
        · left; exact h1
      cases hp : d.isPublic
      · rw [hp, if_neg (by simp), XK.nodeOfPriv_eq] at h
        split at h
        · cases h
        · rename_i hv
          cases hpub : pubOfPriv c d.keyBytes with
          | none => rw [hpub] at h; cases h
          | some pub =>
            rw [hpub] at h
            cases h
            refine ⟨rfl, rfl, rfl, hfp4, rfl, rfl, hroot', ?_⟩
            rw [if_neg (by simp)]
            exact ⟨rfl, by simpa using hv, rfl⟩
      · rw [hp, if_pos rfl, XK.nodeOfPub_eq] at h
        cases hpub : pubFromBytes c d.keyBytes with
        | none => rw [hpub] at h; cases h
        | some pub =>
          rw [hpub] at h
          cases h
          refine ⟨rfl, rfl, rfl, hfp4, rfl, rfl, hroot', ?_⟩
          rw [if_pos rfl]
          exact ⟨rfl, rfl⟩

/-- error kinds of `FromExtendedKey`: those of the parser (a degenerate Kholaw key whose public key
would be the identity point is refused with the value error). -/
theorem fromExtendedKey_error_kinds (H : Bytes → Bytes) (c : CurveT) (sch : Scheme) (kv : KeyNetVer)
    (s : List Char) (e : Err) (h : fromExtendedKey H c sch kv s = .error e) :
    e = .key ∨ e = .value ∨ e = .checksum := by
  rw [XK.fromExtendedKey_eq] at h
  cases hd : deserializeKey H kv s with
  | error e' =>
    rw [hd] at h
    have : e' = e := Except.error.inj h
    subst this
    rcases deser_error_kinds H kv s e' hd with h | h | h <;> simp [h]
  | ok d =>
    rw [hd] at h
    replace h : XK.nodeOfDeser c sch d = .error e := h
    unfold XK.nodeOfDeser at h
    split at h
    · exact Or.inl (Except.error.inj h).symm
    · split at h
      · rw [XK.nodeOfPub_eq] at h
        split at h
        · cases h
        · exact Or.inl (Except.error.inj h).symm
      · rw [XK.nodeOfPriv_eq] at h
        split at h
        · exact Or.inl (Except.error.inj h).symm
        · split at h
          · cases h
          · exact Or.inr (Or.inl (Except.error.inj h).symm)

/-! ### the library's instance: `H` = double SHA-256 -/

theorem sha256d_ge4 : ∀ x, (Prim.sha256d x).length ≥ 4 := by
  intro x; rw [Prim.sha256d_length]; omega

theorem deser_ser_sha256d (kv : KeyNetVer)
    (hpub : kv.pub.length = 4) (hpriv : kv.priv.length = 4) (hne : kv.pub ≠ kv.priv)
    (depth idx : Nat) (fp cc : Bytes) (hd : depth ≤ 255) (hi : idx < 2 ^ 32)
    (hfp : fp.length = 4) (hcc : cc.length = 32) :
    (∀ key : Bytes, key.length = 33 →
      (serializeKey Prim.sha256d kv.pub depth fp idx cc key >>= deserializeKey Prim.sha256d kv)
        = .ok ⟨key, depth, idx, cc, fp, true⟩) ∧
    (∀ k : Bytes, k.length = 32 ∨ k.length = 64 →
      (serializeKey Prim.sha256d kv.priv depth fp idx cc ([0] ++ k) >>= deserializeKey Prim.sha256d kv)
        = .ok ⟨k, depth, idx, cc, fp, false⟩) :=
  deser_ser Prim.sha256d sha256d_ge4 kv hpub hpriv hne depth idx fp cc hd hi hfp hcc

theorem ser_deser_sha256d (kv : KeyNetVer) (s : List Char) (d : DeserKey)
    (h : deserializeKey Prim.sha256d kv s = .ok d) :
    serializeKey Prim.sha256d (if d.isPublic then kv.pub else kv.priv) d.depth d.parentFp d.index
      d.chainCode (if d.isPublic then d.keyBytes else [0] ++ d.keyBytes) = .ok s :=
  ser_deser Prim.sha256d sha256d_ge4 kv s d h

end BipVerif.Props.C05
