import BipVerif.Model.Bip32
namespace BipVerif.Props.C05
theorem placeholder : True := trivial
end BipVerif.Props.C05
