/-
C10 (codecs) — decoders are *sound and canonical*: whatever a decoder accepts is exactly the
encoder's output for the decoded value, so no payload has two accepted spellings and no accepted
text is silently truncated, re-padded or re-prefixed.  These are the converse directions of the
round trips in `C11`.  Property theorems only; the proofs live in `BipVerif/Lemmas/*`.
-/
import BipVerif.Lemmas.Base58Check
import BipVerif.Lemmas.Base58Xmr
import BipVerif.Lemmas.SS58
import BipVerif.Lemmas.Base32
import BipVerif.Lemmas.Bech32

namespace BipVerif.Props.C10Codec
open BipVerif BipVerif.Model

/-! ### Base58 / Base58Check -/

/-- plain Base58 (any duplicate-free 58-symbol alphabet): an accepted string is the encoding of its
decoding. -/
theorem base58_decode_canonical (alph : List Char) (hn : alph.Nodup) (hl : alph.length = 58)
    (s : List Char) (b : Bytes) (h : b58Decode alph s = .ok b) : b58Encode alph b = s :=
  b58_encode_decode alph hn hl s b h

/-- Base58Check, whatever the checksum hash is: an accepted string is the Base58Check encoding of
the returned payload. -/
theorem b58check_decode_canonical (H : Bytes → Bytes) (alph : List Char) (hn : alph.Nodup)
    (hl : alph.length = 58) (s : List Char) (d : Bytes) (h : b58CheckDecode H alph s = .ok d) :
    b58CheckEncode H alph d = s :=
  b58Check_encode_decode H alph hn hl s d h

theorem b58check_btc_decode_canonical (H : Bytes → Bytes) (s : List Char) (d : Bytes)
    (h : b58CheckDecode H btcAlphabet s = .ok d) : b58CheckEncode H btcAlphabet d = s :=
  b58Check_encode_decode H btcAlphabet btcAlphabet_nodup btcAlphabet_length s d h

/-! ### Monero block Base58 -/

/-- every accepted Monero-Base58 string is the encoding of its payload (after the repair: a block
whose value does not fit its byte count is refused instead of being truncated). -/
theorem xmr_base58_decode_canonical (s : List Char) (b : Bytes) (h : xmrDecode s = .ok b) :
    xmrEncode b = s :=
  xmr_decode_canonical h

/-- hence no payload has two accepted spellings. -/
theorem xmr_base58_decode_injective (s t : List Char) (b : Bytes) (hs : xmrDecode s = .ok b)
    (ht : xmrDecode t = .ok b) : s = t :=
  xmrDecode_inj hs ht

/-! ### SS58 -/

/-- every accepted SS58 address is the encoding of the decoded (format, payload) — the strictness
guards of the repaired decoder (reserved first bytes `0x80..`, two-byte prefixes of formats `≤ 63`)
are exactly what makes this hold. -/
theorem ss58_decode_canonical (H : Bytes → Bytes) (hH : ∀ x, (H x).length ≥ 2) (s : List Char)
    (fmt : Nat) (data : Bytes) (h : ss58Decode H s = .ok (fmt, data)) :
    ss58Encode H data fmt = .ok s :=
  Model.ss58_decode_canonical H hH h

/-- the hypothesis on the hash is not needed. -/
theorem ss58_decode_canonical_anyhash (H : Bytes → Bytes) (s : List Char) (fmt : Nat) (data : Bytes)
    (h : ss58Decode H s = .ok (fmt, data)) : ss58Encode H data fmt = .ok s :=
  ss58_decode_canonical' H h

/-- an accepted address has an admissible, non-reserved format and a 32-byte payload. -/
theorem ss58_decode_range (H : Bytes → Bytes) (s : List Char) (fmt : Nat) (data : Bytes)
    (h : ss58Decode H s = .ok (fmt, data)) :
    fmt ≤ 16383 ∧ fmt ≠ 46 ∧ fmt ≠ 47 ∧ data.length = 32 := by
  obtain ⟨_, _, a, b, c, d, _⟩ := ss58Decode_ok_inv h
  exact ⟨a, b, c, d⟩

/-- the decoder fails only with `ValueError` or `SS58ChecksumError` (never `IndexError`). -/
theorem ss58_decode_errors (H : Bytes → Bytes) (s : List Char) (e : Err)
    (h : ss58Decode H s = .error e) : e = .value ∨ e = .checksum :=
  Model.ss58_decode_errors H h

theorem ss58_decode_no_index_error (H : Bytes → Bytes) (s : List Char) :
    ss58Decode H s ≠ .error .index := by
  intro h
  rcases Model.ss58_decode_errors H h with h | h <;> cases h

/-! ### Base32 -/

/-- every accepted string, minus its `=` padding, is the canonical unpadded encoding of its payload
(standard or custom alphabet). -/
theorem base32_decode_canonical (s : List Char) (custom : Option (List Char)) (b : Bytes)
    (h : base32Decode s custom = .ok b) : base32EncodeNoPad b custom = rstripChar '=' s :=
  Model.base32_decode_canonical h

/-- no two different unpadded spellings decode to one payload. -/
theorem base32_decode_injective (s s' : List Char) (c : Option (List Char)) (b : Bytes)
    (h : base32Decode s c = .ok b) (h' : base32Decode s' c = .ok b) :
    rstripChar '=' s = rstripChar '=' s' :=
  base32_decode_inj h h'

/-! ### Bech32 / Bech32m (SegWit) / CashAddr -/

/-- round trip of the raw coder (from `Lemmas/Bech32.lean`). -/
theorem bech_raw_roundtrip (k : BechKind) (hrp : List Char) (data : List Nat) (hv : ValidHrp hrp)
    (hd : ∀ x ∈ data, x < 32) (hne : data ≠ []) :
    bechDecodeRaw asciiCase k (bechEncodeRaw k hrp data) = .ok (hrp, data) :=
  bechDecodeRaw_encodeRaw k hrp data hv hd hne

/-- data followed by its checksum verifies … -/
theorem bech_verify_checksum (k : BechKind) (hrp : List Char) (data : List Nat) (hne : data ≠ []) :
    k.verify hrp (data ++ k.checksum hrp data) = true :=
  verify_checksum k hrp data hne

/-- … and only the checksum does: trailing symbols that make the string verify are the checksum. -/
theorem bech_verify_unique (k : BechKind) (hrp : List Char) (data t : List Nat) (hne : data ≠ [])
    (hl : t.length = k.ckLen) (ht : ∀ x ∈ t, x < 32) (h : k.verify hrp (data ++ t) = true) :
    t = k.checksum hrp data :=
  verify_unique k hrp data t hne hl ht h

/-- soundness of the raw decoder for the three flavours: an accepted string, lower-cased, is the
encoding of its parse. -/
theorem bech_decode_sound (k : BechKind) (s hrp : List Char) (data : List Nat)
    (h : bechDecodeRaw asciiCase k s = .ok (hrp, data)) :
    bechEncodeRaw k hrp data = s.flatMap asciiCase.lower :=
  Model.bech_decode_sound k h

/-- the public coders' round trips (from `Lemmas/Bech32.lean`). -/
theorem bech32_roundtrip (hrp : List Char) (hv : ValidHrp hrp) (b : Bytes) (hb : b ≠ []) :
    (bech32Encode hrp b >>= bech32Decode asciiCase hrp) = .ok b :=
  bech32_decode_encode hrp hv b hb

theorem segwit_roundtrip (hrp : List Char) (hv : ValidHrp hrp) (witVer : Nat) (prog : Bytes)
    (hw : witVer ≤ 16) (h2 : 2 ≤ prog.length) (h40 : prog.length ≤ 40)
    (h0 : witVer = 0 → prog.length = 20 ∨ prog.length = 32) :
    (segwitEncode hrp witVer prog >>= segwitDecode asciiCase hrp) = .ok (witVer, prog) :=
  segwit_decode_encode hrp hv witVer prog hw h2 h40 h0

theorem cashaddr_roundtrip (hrp : List Char) (hv : ValidHrp hrp) (nv : UInt8) (data : Bytes) :
    (bchEncode hrp [nv] data >>= bchDecode asciiCase hrp) = .ok ([nv], data) :=
  bch_decode_encode hrp hv nv data

/-! ### non-vacuity -/

example : xmrDecode "1111111111z".toList = .ok [0, 0, 0, 0, 0, 0, 0, 57] := by decide +kernel
example : xmrDecode "zz".toList = .error .value := by decide +kernel

/-- **alphabet**: a string accepted by any decoder of the Bech32 family (Bech32, Bech32m/SegWit, CashAddr) is pure ASCII,
whatever the Unicode case tables say — in particular the Kelvin sign, which `str.lower()` maps to `k`, is never accepted -/
theorem bech_accepted_is_ascii (U : CaseOracle) (k : BechKind) {s : List Char} {r : List Char × List Nat}
    (h : bechDecodeRaw U k s = .ok r) : ∀ c ∈ s, c.toNat < 128 := by
  intro c hc
  by_contra hn
  have hany : (s.any fun c => decide (c.toNat ≥ 128)) = true :=
    List.any_eq_true.mpr ⟨c, hc, by simpa using Nat.le_of_not_lt hn⟩
  unfold bechDecodeRaw at h
  simp only [hany, if_true] at h
  cases h

/-- the witness that used to be accepted: `…K…` spelled with U+212A is refused -/
example : bechDecodeRaw asciiCase .bech32 ("A12UEL5L".toList ++ [Char.ofNat 0x212A]) = .error .value := by decide +kernel

end BipVerif.Props.C10Codec
