/-
C07 — BIP-44/49/84/86/CIP-1852 hierarchy (`Bip44Base`): level discipline of the five derivation
methods and `DeriveDefaultPath`, the child numbers they ask for, the depth/public-only invariant of
wrapped objects along arbitrary op sequences, refinement of the canonical
purpose/coin/account/change/address sequence to plain BIP-32 path derivation, `DeriveDefaultPath`
as the manual sequence, and the behaviour of public-only objects.

All cryptography is opaque: the proofs use only which record fields `ChildKey` sets and the
refusals that precede any cryptographic computation (`Lemmas/Bip32Nodes.lean`).

Vocabulary (from `Lemmas/Bip44.lean`): `Inv nd := nd.depth ≤ 5 ∧ (nd.isPublicOnly → 3 ≤ nd.depth)`;
`B44Op.level` (0,1,2,3,4 for purpose/coin/account/change/addrIdx, 0 for deriveDefault);
`B44Op.typeOk` (`change c` needs `c ≤ 1`); `b44ChildIdx purpose coinIdx psup op` the child number of
a single-level op; `NeuterSafe` "every `.neuter` reached by the run happens at depth ≥ 3".
-/
import BipVerif.Lemmas.Bip44

namespace BipVerif.Props.C07
open BipVerif BipVerif.Model

variable (purpose coinIdx : Nat) (defPath : Path)

/-! ### 1. level discipline -/

/-- uniform statement: a well-typed derivation op applied to an object that is not at the op's
level fails with `Bip44DepthError` -/
theorem step_level_error_uniform (nd : Node) (op : B44Op) (L : Nat) (hl : op.level = some L)
    (ht : op.typeOk = true) (hd : nd.depth ≠ L) :
    b44Step purpose coinIdx defPath nd op = .error .depth := by
  cases op with
  | deriveDefault =>
    cases hl
    rw [b44Step_deriveDefault, if_pos hd]
  | neuter => cases hl
  | reimportX => cases hl
  | reimportRaw d => cases hl
  | purpose | coin | account _ | change _ | addrIdx _ =>
    rw [b44Step_child purpose coinIdx defPath nd _ _ rfl]
    have : ¬ some L = some nd.depth := fun e => hd (Option.some.inj e).symm
    simp [ht, hl, this]

/-- **level discipline**, spelled out per method -/
theorem step_level_error (nd : Node) :
    (nd.depth ≠ 0 → b44Step purpose coinIdx defPath nd .purpose = .error .depth) ∧
    (nd.depth ≠ 1 → b44Step purpose coinIdx defPath nd .coin = .error .depth) ∧
    (∀ i, nd.depth ≠ 2 → b44Step purpose coinIdx defPath nd (.account i) = .error .depth) ∧
    (∀ c, c ≤ 1 → nd.depth ≠ 3 → b44Step purpose coinIdx defPath nd (.change c) = .error .depth) ∧
    (∀ i, nd.depth ≠ 4 → b44Step purpose coinIdx defPath nd (.addrIdx i) = .error .depth) ∧
    (nd.depth ≠ 0 → b44Step purpose coinIdx defPath nd .deriveDefault = .error .depth) :=
  ⟨step_level_error_uniform purpose coinIdx defPath nd _ 0 rfl rfl,
   step_level_error_uniform purpose coinIdx defPath nd _ 1 rfl rfl,
   fun _ => step_level_error_uniform purpose coinIdx defPath nd _ 2 rfl rfl,
   fun c hc => step_level_error_uniform purpose coinIdx defPath nd _ 3 rfl
     (by simp [B44Op.typeOk, hc]),
   fun _ => step_level_error_uniform purpose coinIdx defPath nd _ 4 rfl rfl,
   step_level_error_uniform purpose coinIdx defPath nd _ 0 rfl rfl⟩

/-- the `Bip44Changes` enum check precedes the level check: `TypeError` at every level -/
theorem step_change_type_error (nd : Node) (c : Nat) (hc : c > 1) :
    b44Step purpose coinIdx defPath nd (.change c) = .error .type := by
  rw [b44Step_child purpose coinIdx defPath nd _ _ rfl]
  have : ¬ c ≤ 1 := by omega
  simp [B44Op.typeOk, this]

/-! ### 2. successful steps -/

/-- uniform statement: a successful single-level op was applied at its level with a well-typed
argument, and the result is the `ChildKey` at the prescribed child number -/
theorem step_ok_child (nd nd' : Node) (op : B44Op) (idx : Nat)
    (hi : b44ChildIdx purpose coinIdx (pubDerivationSupported nd) op = some idx)
    (h : b44Step purpose coinIdx defPath nd op = .ok nd') :
    op.typeOk = true ∧ op.level = some nd.depth ∧ childKey nd idx = .ok nd' ∧
      nd'.depth = nd.depth + 1 ∧ nd'.index = idx ∧ nd'.curve = nd.curve ∧ nd'.scheme = nd.scheme ∧
      nd'.parentFp = nd.fingerprint.take 4 ∧ nd'.isPublicOnly = nd.isPublicOnly ∧ idx < 2 ^ 32 := by
  obtain ⟨ht, hl, hck, _⟩ := b44Step_child_ok hi h
  have hc := childKey_ok hck
  exact ⟨ht, hl, hck, hc.depth, hc.index, hc.curve, hc.scheme, hc.parentFp, hc.isPublicOnly, hc.idx_lt⟩

/-- **depth, curve, scheme and child number of a successful derivation**, per method: the child
number is `purpose'`, `coin'`, `account'`, and `change` / `address_index` non-hardened where the
derivator supports public derivation and hardened elsewhere -/
theorem step_ok_depth (nd nd' : Node) :
    (b44Step purpose coinIdx defPath nd .purpose = .ok nd' →
      nd.depth = 0 ∧ nd'.depth = nd.depth + 1 ∧ nd'.curve = nd.curve ∧ nd'.scheme = nd.scheme ∧
        nd'.index = harden purpose) ∧
    (b44Step purpose coinIdx defPath nd .coin = .ok nd' →
      nd.depth = 1 ∧ nd'.depth = nd.depth + 1 ∧ nd'.curve = nd.curve ∧ nd'.scheme = nd.scheme ∧
        nd'.index = harden coinIdx) ∧
    (∀ i, b44Step purpose coinIdx defPath nd (.account i) = .ok nd' →
      nd.depth = 2 ∧ nd'.depth = nd.depth + 1 ∧ nd'.curve = nd.curve ∧ nd'.scheme = nd.scheme ∧
        nd'.index = harden i) ∧
    (∀ c, b44Step purpose coinIdx defPath nd (.change c) = .ok nd' →
      c ≤ 1 ∧ nd.depth = 3 ∧ nd'.depth = nd.depth + 1 ∧ nd'.curve = nd.curve ∧
        nd'.scheme = nd.scheme ∧
        nd'.index = if pubDerivationSupported nd then c else harden c) ∧
    (∀ i, b44Step purpose coinIdx defPath nd (.addrIdx i) = .ok nd' →
      nd.depth = 4 ∧ nd'.depth = nd.depth + 1 ∧ nd'.curve = nd.curve ∧ nd'.scheme = nd.scheme ∧
        nd'.index = if pubDerivationSupported nd then i else harden i) := by
  refine ⟨fun h => ?_, fun h => ?_, fun i h => ?_, fun c h => ?_, fun i h => ?_⟩
  · obtain ⟨_, hl, _, hd, hi, hc, hs, _⟩ := step_ok_child purpose coinIdx defPath nd nd' _ _ rfl h
    exact ⟨(Option.some.inj hl).symm, hd, hc, hs, hi⟩
  · obtain ⟨_, hl, _, hd, hi, hc, hs, _⟩ := step_ok_child purpose coinIdx defPath nd nd' _ _ rfl h
    exact ⟨(Option.some.inj hl).symm, hd, hc, hs, hi⟩
  · obtain ⟨_, hl, _, hd, hi, hc, hs, _⟩ := step_ok_child purpose coinIdx defPath nd nd' _ _ rfl h
    exact ⟨(Option.some.inj hl).symm, hd, hc, hs, hi⟩
  · obtain ⟨ht, hl, _, hd, hi, hc, hs, _⟩ := step_ok_child purpose coinIdx defPath nd nd' _ _ rfl h
    exact ⟨by simpa [B44Op.typeOk] using ht, (Option.some.inj hl).symm, hd, hc, hs, hi⟩
  · obtain ⟨_, hl, _, hd, hi, hc, hs, _⟩ := step_ok_child purpose coinIdx defPath nd nd' _ _ rfl h
    exact ⟨(Option.some.inj hl).symm, hd, hc, hs, hi⟩

/-- a successful `DeriveDefaultPath` (relative default path) starts at a master node and lands
`2 + |default path|` levels down on the same curve and scheme; its child number is the last
element of the default path (`coin'` for an empty default path) -/
theorem step_ok_depth_deriveDefault (nd nd' : Node) (hrel : defPath.absolute = false)
    (h : b44Step purpose coinIdx defPath nd .deriveDefault = .ok nd') :
    nd.depth = 0 ∧ nd'.depth = 2 + defPath.elems.length ∧ nd'.curve = nd.curve ∧
      nd'.scheme = nd.scheme ∧ nd'.index = defPath.elems.getLast?.getD (harden coinIdx) ∧
      nd'.isPublicOnly = nd.isPublicOnly ∧ Inv nd' := by
  have hinv : Inv nd' := b44Step_inv (by simp) h
  rw [b44Step_deriveDefault] at h
  split at h
  · cases h
  · rename_i h0
    have h0 : nd.depth = 0 := by simpa using h0
    obtain ⟨a, ha, h⟩ := R.bind_eq_ok.1 h
    obtain ⟨b, hb, h⟩ := R.bind_eq_ok.1 h
    obtain ⟨r, hr, h⟩ := R.bind_eq_ok.1 h
    obtain ⟨rfl, _⟩ := (b44Admit_ok_iff r nd').1 h
    have hca := childKey_ok (b44Child_ok_iff.1 ha).1
    have hcb := childKey_ok (b44Child_ok_iff.1 hb).1
    rw [derivePathWith_of_relative _ _ _ hrel] at hr
    obtain ⟨h1, h2, h3, h4, h5, _⟩ := foldlM_childKey_ok _ _ _ hr
    refine ⟨h0, ?_, h2.trans (hcb.curve.trans hca.curve), h3.trans (hcb.scheme.trans hca.scheme),
      by rw [h5, hcb.index], h4.trans (hcb.isPublicOnly.trans hca.isPublicOnly), hinv⟩
    rw [h1, hcb.depth, hca.depth, h0]

/-- an absolute default path can never be derived (the path is applied to a depth-2 object) -/
theorem step_deriveDefault_absolute (nd nd' : Node) (habs : defPath.absolute = true) :
    b44Step purpose coinIdx defPath nd .deriveDefault ≠ .ok nd' := by
  intro h
  rw [b44Step_deriveDefault] at h
  split at h
  · cases h
  · obtain ⟨a, ha, h⟩ := R.bind_eq_ok.1 h
    obtain ⟨b, hb, h⟩ := R.bind_eq_ok.1 h
    obtain ⟨r, hr, h⟩ := R.bind_eq_ok.1 h
    have hcb := childKey_ok (b44Child_ok_iff.1 hb).1
    have : b.depth > 0 := by rw [hcb.depth]; omega
    simp [derivePathWith, habs, this] at hr
    cases hr

/-- public-derivation support depends on curve and scheme only, hence is constant along every
successful derivation step (single-level or default path) -/
theorem step_preserves_pubDerivation (nd nd' : Node) (op : B44Op)
    (h : b44Step purpose coinIdx defPath nd op = .ok nd') :
    pubDerivationSupported nd' = pubDerivationSupported nd := by
  suffices hcs : nd'.curve = nd.curve ∧ nd'.scheme = nd.scheme from
    pubDerivationSupported_congr hcs.1 hcs.2
  cases op with
  | purpose | coin | account _ | change _ | addrIdx _ =>
    obtain ⟨_, _, _, _, _, hc, hs, _⟩ := step_ok_child purpose coinIdx defPath nd nd' _ _ rfl h
    exact ⟨hc, hs⟩
  | deriveDefault =>
    by_cases hrel : defPath.absolute = false
    · obtain ⟨_, _, hc, hs, _⟩ := step_ok_depth_deriveDefault purpose coinIdx defPath nd nd' hrel h
      exact ⟨hc, hs⟩
    · exact absurd h (step_deriveDefault_absolute purpose coinIdx defPath nd nd' (by simpa using hrel))
  | neuter => cases h; exact ⟨rfl, rfl⟩
  | reimportX =>
    obtain ⟨rfl, _⟩ := (b44Admit_ok_iff nd nd').1 h
    exact ⟨rfl, rfl⟩
  | reimportRaw d =>
    obtain ⟨rfl, _⟩ := (b44Admit_ok_iff _ nd').1 h
    exact ⟨rfl, rfl⟩

/-! ### 3. the invariant -/

/-- **constructor admissibility**: `Bip44Base.__init__` accepts exactly the private objects of depth
≤ 5 and the public-only objects of depth 3..5, and returns the object unchanged -/
theorem ctor_admissible_iff (nd nd' : Node) :
    b44Admit nd = .ok nd' ↔
      nd' = nd ∧ (if nd.isPublicOnly then 3 ≤ nd.depth ∧ nd.depth ≤ 5 else nd.depth ≤ 5) := by
  rw [b44Admit_ok_iff, inv_iff_ctor]

/-- … and every refusal is a `Bip44DepthError` -/
theorem ctor_inadmissible (nd : Node)
    (h : ¬ (if nd.isPublicOnly then 3 ≤ nd.depth ∧ nd.depth ≤ 5 else nd.depth ≤ 5)) :
    b44Admit nd = .error .depth :=
  b44Admit_of_not_inv (fun hi => h ((inv_iff_ctor nd).1 hi))

theorem ctor_total (nd : Node) : b44Admit nd = .ok nd ∨ b44Admit nd = .error .depth := by
  rw [b44Admit_eq]; split <;> simp

/-- every successful constructor, derivation or re-import passes the admissibility check;
`ConvertToPublic` on the wrapped object is the only op that does not -/
theorem step_inv (nd nd' : Node) (op : B44Op) (hn : op ≠ .neuter)
    (h : b44Step purpose coinIdx defPath nd op = .ok nd') : Inv nd' :=
  b44Step_inv hn h

/-- `.neuter` always succeeds; it keeps the invariant exactly from the account level down -/
theorem step_neuter (nd : Node) :
    b44Step purpose coinIdx defPath nd .neuter = .ok nd.neuter ∧
      (Inv nd.neuter ↔ 3 ≤ nd.depth ∧ nd.depth ≤ 5) :=
  ⟨rfl, inv_neuter_iff nd⟩

/-- **invariant over every op sequence**: if every `.neuter` the run reaches is applied at depth ≥ 3,
the final object has depth ≤ 5 and is public-only only from the account level down -/
theorem run_invariant (nd nd' : Node) (ops : List B44Op) (hi : Inv nd)
    (hs : NeuterSafe purpose coinIdx defPath nd ops)
    (h : b44Run purpose coinIdx defPath nd ops = .ok nd') : Inv nd' :=
  b44Run_inv purpose coinIdx defPath ops nd nd' hi hs h

/-- in particular for every op sequence without `.neuter` -/
theorem run_invariant_no_neuter (nd nd' : Node) (ops : List B44Op) (hi : Inv nd)
    (hs : B44Op.neuter ∉ ops) (h : b44Run purpose coinIdx defPath nd ops = .ok nd') : Inv nd' :=
  b44Run_inv purpose coinIdx defPath ops nd nd' hi
    (neuterSafe_of_not_mem purpose coinIdx defPath ops nd hs) h

/-- the side condition is necessary: `.neuter` above the account level breaks the invariant -/
theorem neuter_breaks_invariant (nd : Node) (h : nd.depth < 3) :
    b44Run purpose coinIdx defPath nd [.neuter] = .ok nd.neuter ∧ ¬ Inv nd.neuter := by
  refine ⟨rfl, fun hi => ?_⟩
  have := (inv_neuter_iff nd).1 hi
  omega

/-! ### 4. refinement to plain BIP-32 derivation -/

/-- general form: along any level-consistent sequence of well-typed single-level ops (starting at
any depth, from any node) the hierarchy object computes plain `ChildKey` chaining — same node on
success, same error at the same step on failure -/
theorem run_eq_plain_derivation (nd : Node) (ops : List B44Op) (idxs : List Nat)
    (h : LevelSeq purpose coinIdx (pubDerivationSupported nd) nd.depth ops idxs) :
    b44Run purpose coinIdx defPath nd ops = derivePathWith childKey nd ⟨idxs, false⟩ := by
  rw [derivePathWith_relative]
  exact b44Run_levelSeq purpose coinIdx defPath ops idxs nd h

/-- **the canonical sequence and each of its prefixes, from a master node**: the run *equals* plain
derivation along `purpose'/coin'/account'/change/address_index` (as values of `R Node`) -/
theorem keys_eq_plain_derivation (nd : Node) (h0 : nd.depth = 0) (a c i k : Nat)
    (hc : c ≤ 1 ∨ k ≤ 3) :
    b44Run purpose coinIdx defPath nd
        ([B44Op.purpose, .coin, .account a, .change c, .addrIdx i].take k) =
      derivePathWith childKey nd
        ⟨[harden purpose, harden coinIdx, harden a,
          if pubDerivationSupported nd then c else harden c,
          if pubDerivationSupported nd then i else harden i].take k, false⟩ := by
  apply run_eq_plain_derivation
  rw [h0]
  rcases k with _ | _ | _ | _ | _ | _ | k
  · simp [LevelSeq]
  · simp [LevelSeq, b44ChildIdx, B44Op.typeOk, B44Op.level]
  · simp [LevelSeq, b44ChildIdx, B44Op.typeOk, B44Op.level]
  · simp [LevelSeq, b44ChildIdx, B44Op.typeOk, B44Op.level]
  · have : c ≤ 1 := by omega
    simp [LevelSeq, b44ChildIdx, B44Op.typeOk, B44Op.level, this]
  · have : c ≤ 1 := by omega
    simp [LevelSeq, b44ChildIdx, B44Op.typeOk, B44Op.level, this]
  · have : c ≤ 1 := by omega
    simp [LevelSeq, b44ChildIdx, B44Op.typeOk, B44Op.level, this]

/-- forward direction without any hypothesis on the node or on `c`: whenever the run of a prefix of
the canonical sequence succeeds, plain derivation along the prescribed indices gives the same node -/
theorem keys_eq_plain_derivation_of_ok (nd nd' : Node) (a c i k : Nat)
    (h : b44Run purpose coinIdx defPath nd
        ([B44Op.purpose, .coin, .account a, .change c, .addrIdx i].take k) = .ok nd') :
    derivePathWith childKey nd
        ⟨[harden purpose, harden coinIdx, harden a,
          if pubDerivationSupported nd then c else harden c,
          if pubDerivationSupported nd then i else harden i].take k, false⟩ = .ok nd' := by
  rw [← h]
  symm
  apply run_eq_plain_derivation
  apply levelSeq_of_run_ok purpose coinIdx defPath _ _ nd nd' _ h
  rcases k with _ | _ | _ | _ | _ | _ | k <;> simp [IdxSeq, b44ChildIdx]

/-- converse: from a master node, with a well-typed change value, a successful plain derivation is
what the run returns -/
theorem keys_eq_plain_derivation_conv (nd nd' : Node) (h0 : nd.depth = 0) (a c i k : Nat)
    (hc : c ≤ 1 ∨ k ≤ 3)
    (h : derivePathWith childKey nd
        ⟨[harden purpose, harden coinIdx, harden a,
          if pubDerivationSupported nd then c else harden c,
          if pubDerivationSupported nd then i else harden i].take k, false⟩ = .ok nd') :
    b44Run purpose coinIdx defPath nd
        ([B44Op.purpose, .coin, .account a, .change c, .addrIdx i].take k) = .ok nd' := by
  rw [keys_eq_plain_derivation purpose coinIdx defPath nd h0 a c i k hc, h]

/-! ### 5. `DeriveDefaultPath` -/

/-- `DeriveDefaultPath` on a master node is `Purpose().Coin()` followed by `DerivePath(default)`
and the constructor check -/
theorem defaultPath_unfold (nd : Node) (h0 : nd.depth = 0) :
    b44Step purpose coinIdx defPath nd .deriveDefault =
      (b44Step purpose coinIdx defPath nd .purpose >>= fun a =>
        b44Step purpose coinIdx defPath a .coin >>= fun b =>
          derivePathWith childKey b defPath >>= b44Admit) := by
  rw [b44Step_deriveDefault, if_neg (by simp [h0]),
    b44Step_child purpose coinIdx defPath nd .purpose _ rfl]
  simp only [B44Op.typeOk, B44Op.level, h0, Bool.true_eq_false, if_false, ne_eq, not_true_eq_false]
  apply R.bind_congr_ok
  intro a ha
  have hca := childKey_ok (b44Child_ok_iff.1 ha).1
  rw [b44Step_child purpose coinIdx defPath a .coin _ rfl]
  simp [B44Op.typeOk, B44Op.level, hca.depth, h0]

/-- on a master node, a relative default path of at most three levels is plain derivation along
`purpose'/coin'/default path` -/
theorem defaultPath_eq_plain (nd : Node) (h0 : nd.depth = 0) (hrel : defPath.absolute = false)
    (hlen : defPath.elems.length ≤ 3) :
    b44Step purpose coinIdx defPath nd .deriveDefault =
      derivePathWith childKey nd ⟨harden purpose :: harden coinIdx :: defPath.elems, false⟩ := by
  rw [derivePathWith_relative]
  exact b44Step_deriveDefault_eq_plain purpose coinIdx defPath nd h0 hrel hlen

/-- **`DeriveDefaultPath` is the manual sequence** `Purpose().Coin().Account(a).Change(c).AddressIndex(i)`
when the default path is `a'/c/i` on derivators with public derivation, resp. `a'/c'/i'` on the
others (uniformly: `a'/ci/ii` with the child numbers of item 2) -/
theorem defaultPath_eq_manual (nd : Node) (h0 : nd.depth = 0) (a c i : Nat) (hc : c ≤ 1) :
    b44Step purpose coinIdx
        ⟨[harden a, if pubDerivationSupported nd then c else harden c,
          if pubDerivationSupported nd then i else harden i], false⟩ nd .deriveDefault =
      b44Run purpose coinIdx defPath nd [.purpose, .coin, .account a, .change c, .addrIdx i] := by
  rw [defaultPath_eq_plain purpose coinIdx _ nd h0 rfl (by simp)]
  exact (keys_eq_plain_derivation purpose coinIdx defPath nd h0 a c i 5 (Or.inl hc)).symm

theorem defaultPath_eq_manual_pub (nd : Node) (h0 : nd.depth = 0) (a c i : Nat) (hc : c ≤ 1)
    (hp : pubDerivationSupported nd = true) :
    b44Step purpose coinIdx ⟨[harden a, c, i], false⟩ nd .deriveDefault =
      b44Run purpose coinIdx defPath nd [.purpose, .coin, .account a, .change c, .addrIdx i] := by
  have := defaultPath_eq_manual purpose coinIdx defPath nd h0 a c i hc
  simpa [hp] using this

theorem defaultPath_eq_manual_nopub (nd : Node) (h0 : nd.depth = 0) (a c i : Nat) (hc : c ≤ 1)
    (hp : pubDerivationSupported nd = false) :
    b44Step purpose coinIdx ⟨[harden a, harden c, harden i], false⟩ nd .deriveDefault =
      b44Run purpose coinIdx defPath nd [.purpose, .coin, .account a, .change c, .addrIdx i] := by
  have := defaultPath_eq_manual purpose coinIdx defPath nd h0 a c i hc
  simpa [hp] using this

/-! ### 6. public-only objects -/

/-- at its own level every well-typed single-level op *is* `ChildKey` at the prescribed index, for
every node (private or public-only): the constructor check after it never fires -/
theorem step_eq_childKey (nd : Node) (op : B44Op) (idx : Nat)
    (hi : b44ChildIdx purpose coinIdx (pubDerivationSupported nd) op = some idx)
    (ht : op.typeOk = true) (hl : op.level = some nd.depth) :
    b44Step purpose coinIdx defPath nd op = childKey nd idx :=
  b44Step_eq_childKey purpose coinIdx defPath nd op idx hi ht hl

/-- **public-only objects above the account level** (reachable only through `.neuter`) refuse
`Purpose`/`Coin`/`Account` at the matching level with `Bip32KeyError` (indices within 32 bits) -/
theorem step_public_hardened_refused (nd : Node) (hp : nd.priv = none) :
    (nd.depth = 0 → purpose < 2 ^ 32 →
      b44Step purpose coinIdx defPath nd .purpose = .error .key) ∧
    (nd.depth = 1 → coinIdx < 2 ^ 32 →
      b44Step purpose coinIdx defPath nd .coin = .error .key) ∧
    (∀ i, nd.depth = 2 → i < 2 ^ 32 →
      b44Step purpose coinIdx defPath nd (.account i) = .error .key) := by
  refine ⟨fun h hi => ?_, fun h hi => ?_, fun i h hi => ?_⟩
  · rw [b44Step_eq_childKey purpose coinIdx defPath nd _ _ rfl rfl (by simp [B44Op.level, h])]
    exact childKey_pub_hardened nd _ hp (harden_lt _ hi) (isHardened_harden _)
  · rw [b44Step_eq_childKey purpose coinIdx defPath nd _ _ rfl rfl (by simp [B44Op.level, h])]
    exact childKey_pub_hardened nd _ hp (harden_lt _ hi) (isHardened_harden _)
  · rw [b44Step_eq_childKey purpose coinIdx defPath nd _ _ rfl rfl (by simp [B44Op.level, h])]
    exact childKey_pub_hardened nd _ hp (harden_lt _ hi) (isHardened_harden _)

/-- with public derivation support, `Change`/`AddressIndex` at their level succeed or fail exactly as
`ChildKey` at the plain (non-hardened) index does — for public-only and private objects alike -/
theorem step_public_change_addr (nd : Node) (hs : pubDerivationSupported nd = true) :
    (∀ c, c ≤ 1 → nd.depth = 3 →
      b44Step purpose coinIdx defPath nd (.change c) = childKey nd c) ∧
    (∀ i, nd.depth = 4 → b44Step purpose coinIdx defPath nd (.addrIdx i) = childKey nd i) := by
  refine ⟨fun c hc h => ?_, fun i h => ?_⟩
  · rw [b44Step_eq_childKey purpose coinIdx defPath nd _ _ rfl (by simp [B44Op.typeOk, hc])
      (by simp [B44Op.level, h])]
    simp [hs]
  · rw [b44Step_eq_childKey purpose coinIdx defPath nd _ _ rfl rfl (by simp [B44Op.level, h])]
    simp [hs]

/-- without public derivation support (SLIP-0010 ed25519 curves) a public-only object refuses
`Change`/`AddressIndex` at their level with `Bip32KeyError`: the index is hardened -/
theorem step_public_change_addr_refused (nd : Node) (hp : nd.priv = none)
    (hs : pubDerivationSupported nd = false) :
    (∀ c, c ≤ 1 → nd.depth = 3 →
      b44Step purpose coinIdx defPath nd (.change c) = .error .key) ∧
    (∀ i, i < 2 ^ 32 → nd.depth = 4 →
      b44Step purpose coinIdx defPath nd (.addrIdx i) = .error .key) := by
  refine ⟨fun c hc h => ?_, fun i hi h => ?_⟩
  · rw [b44Step_eq_childKey purpose coinIdx defPath nd _ _ rfl (by simp [B44Op.typeOk, hc])
      (by simp [B44Op.level, h])]
    simp only [hs, Bool.false_eq_true, if_false]
    exact childKey_pub_hardened nd _ hp (harden_lt _ (by omega)) (isHardened_harden _)
  · rw [b44Step_eq_childKey purpose coinIdx defPath nd _ _ rfl rfl (by simp [B44Op.level, h])]
    simp only [hs, Bool.false_eq_true, if_false]
    exact childKey_pub_hardened nd _ hp (harden_lt _ hi) (isHardened_harden _)

/-- the 32-bit range check of `Bip32KeyIndex` comes first: an out-of-range index at the matching
level is a `ValueError`, whatever the key material (this is why the refusals above need the
`< 2^32` hypotheses) -/
theorem step_index_out_of_range (nd : Node) (op : B44Op) (idx : Nat)
    (hi : b44ChildIdx purpose coinIdx (pubDerivationSupported nd) op = some idx)
    (ht : op.typeOk = true) (hl : op.level = some nd.depth) (hr : 2 ^ 32 ≤ idx) :
    b44Step purpose coinIdx defPath nd op = .error .value := by
  rw [b44Step_eq_childKey purpose coinIdx defPath nd op idx hi ht hl]
  exact childKey_idx_ge nd idx hr

/-- SLIP-0010 ed25519 curves never derive from a public-only object, at any level, with any
in-range index: `Bip32KeyError` -/
theorem step_public_ed25519_refused (nd : Node) (op : B44Op) (idx : Nat) (hp : nd.priv = none)
    (hs : pubDerivationSupported nd = false)
    (hi : b44ChildIdx purpose coinIdx false op = some idx)
    (ht : op.typeOk = true) (hl : op.level = some nd.depth) (hr : idx < 2 ^ 32) :
    b44Step purpose coinIdx defPath nd op = .error .key := by
  rw [b44Step_eq_childKey purpose coinIdx defPath nd op idx (by rw [hs]; exact hi) ht hl]
  obtain ⟨h1, h2⟩ := (pubDerivationSupported_false_iff nd).1 hs
  exact childKey_slip10_ed_pub nd idx h1 h2 hp hr

end BipVerif.Props.C07
