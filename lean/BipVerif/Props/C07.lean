import BipVerif.Model.Bip44
namespace BipVerif.Props.C07
theorem placeholder : True := trivial
end BipVerif.Props.C07
