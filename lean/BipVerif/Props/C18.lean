/-
C18 — Cardano: master key generators (Khovratovich-Law, Icarus, Byron legacy) produce clamped
BIP32-Ed25519 keys; child keys follow the BIP32-Ed25519 formulas (and the Byron-legacy variants);
Shelley and Byron addresses decode back to what was encoded.
Property theorems only; the proofs live in `BipVerif/Lemmas/Cardano.lean`.
Hashes, PBKDF2, the AEAD and curve arithmetic are opaque (only output lengths are used; the AEAD
enters through the explicit hypothesis `AeadLaw`).
-/
import BipVerif.Lemmas.Cardano
import BipVerif.Lemmas.Ecc
import BipVerif.Driver.Cardano

namespace BipVerif.Props.C18
open BipVerif BipVerif.Prim BipVerif.Model BipVerif.Model.CardanoLemmas

/-! ### 1. bit tweaking -/

/-- mask `0x80` (Khovratovich-Law, Byron legacy): same length; byte 0 loses its 3 low bits;
byte 31: bit 7 clear, bit 6 set, bits 0–5 unchanged; all other bytes unchanged -/
theorem tweak_bits_128 (k : Bytes) (hk : 32 ≤ k.length) :
    (tweakMasterBits 128 k).length = k.length ∧
    ((tweakMasterBits 128 k).getD 0 0).toNat % 8 = 0 ∧
    ((tweakMasterBits 128 k).getD 0 0).toNat / 8 = (k.getD 0 0).toNat / 8 ∧
    64 ≤ ((tweakMasterBits 128 k).getD 31 0).toNat ∧ ((tweakMasterBits 128 k).getD 31 0).toNat < 128 ∧
    ((tweakMasterBits 128 k).getD 31 0).toNat % 64 = (k.getD 31 0).toNat % 64 ∧
    ((tweakMasterBits 128 k).getD 31 0).toNat &&& 32 = (k.getD 31 0).toNat &&& 32 ∧
    ∀ j, j ≠ 0 → j ≠ 31 → (tweakMasterBits 128 k).getD j 0 = k.getD j 0 :=
  CardanoLemmas.tweak_bits_128 k hk

/-- mask `0xE0` (Icarus): byte 31 has bits 7 and 5 clear, bit 6 set (`64 ≤ · < 96`), bits 0–4
unchanged -/
theorem tweak_bits_224 (k : Bytes) (hk : 32 ≤ k.length) :
    (tweakMasterBits 224 k).length = k.length ∧
    ((tweakMasterBits 224 k).getD 0 0).toNat % 8 = 0 ∧
    ((tweakMasterBits 224 k).getD 0 0).toNat / 8 = (k.getD 0 0).toNat / 8 ∧
    64 ≤ ((tweakMasterBits 224 k).getD 31 0).toNat ∧ ((tweakMasterBits 224 k).getD 31 0).toNat < 96 ∧
    ((tweakMasterBits 224 k).getD 31 0).toNat % 32 = (k.getD 31 0).toNat % 32 ∧
    ∀ j, j ≠ 0 → j ≠ 31 → (tweakMasterBits 224 k).getD j 0 = k.getD j 0 :=
  CardanoLemmas.tweak_bits_224 k hk

/-- any mask: the byte-level formula -/
theorem tweak_bits (mask : Nat) (k : Bytes) (hk : 32 ≤ k.length) :
    (tweakMasterBits mask k).length = k.length ∧
    ((tweakMasterBits mask k).getD 0 0).toNat % 8 = 0 ∧
    ((tweakMasterBits mask k).getD 0 0).toNat / 8 = (k.getD 0 0).toNat / 8 ∧
    ((tweakMasterBits mask k).getD 31 0).toNat =
      (((k.getD 31 0).toNat % 256 - ((k.getD 31 0).toNat &&& mask)) ||| 64) % 256 ∧
    ∀ j, j ≠ 0 → j ≠ 31 → (tweakMasterBits mask k).getD j 0 = k.getD j 0 :=
  CardanoLemmas.tweak_bits mask k hk

/-! ### 2. master keys are clamped -/

/-- Khovratovich-Law: `kL % 8 = 0`, `2^254 ≤ kL < 2^255`, bit 253 clear; 64-byte key; 32-byte chain code -/
theorem master_clamped_kholaw (seed k cc : Bytes) (h : kholawMasterKey seed = .ok (k, cc)) :
    Bytes.toNatLE (k.take 32) % 8 = 0 ∧ 2 ^ 254 ≤ Bytes.toNatLE (k.take 32) ∧
    Bytes.toNatLE (k.take 32) < 2 ^ 255 ∧ Bytes.toNatLE (k.take 32) / 2 ^ 253 % 2 = 0 ∧
    k.length = 64 ∧ cc.length = 32 ∧ 16 ≤ seed.length := by
  obtain ⟨a, b, c, d, _⟩ := kholawMasterKey_ok seed k cc h
  exact ⟨d.low, d.ge254, d.lt255, d.bit253, b, c, a⟩

theorem master_clamped_icarus (seed k cc : Bytes) (h : icarusMasterKey seed = .ok (k, cc)) :
    Bytes.toNatLE (k.take 32) % 8 = 0 ∧ 2 ^ 254 ≤ Bytes.toNatLE (k.take 32) ∧
    Bytes.toNatLE (k.take 32) < 2 ^ 255 ∧ Bytes.toNatLE (k.take 32) / 2 ^ 253 % 2 = 0 ∧
    k.length = 64 ∧ cc.length = 32 ∧ 16 ≤ seed.length := by
  obtain ⟨a, b, c, d⟩ := icarusMasterKey_ok seed k cc h
  exact ⟨d.low, d.ge254, d.lt255, d.bit253, b, c, a⟩

theorem master_clamped_byron_legacy (seed k cc : Bytes) (h : byronLegacyMasterKey seed = .ok (k, cc)) :
    Bytes.toNatLE (k.take 32) % 8 = 0 ∧ 2 ^ 254 ≤ Bytes.toNatLE (k.take 32) ∧
    Bytes.toNatLE (k.take 32) < 2 ^ 255 ∧ Bytes.toNatLE (k.take 32) / 2 ^ 253 % 2 = 0 ∧
    k.length = 64 ∧ cc.length = 32 ∧ seed.length = 32 := by
  obtain ⟨a, b, c, d⟩ := byronLegacyMasterKey_ok seed k cc h
  exact ⟨d.low, d.ge254, d.lt255, d.bit253, b, c, a⟩

/-- the Khovratovich-Law chain code is `HMAC-SHA256(key, 0x01 ‖ seed)` -/
theorem master_kholaw_chain_code (seed k cc : Bytes) (h : kholawMasterKey seed = .ok (k, cc)) :
    cc = hmacSha256 kholawHmacKey ([1] ++ seed) := (kholawMasterKey_ok seed k cc h).2.2.2.2

/-- seed-length errors -/
theorem master_seed_too_short_kholaw (seed : Bytes) (h : seed.length < 16) :
    kholawMasterKey seed = .error .value := kholawMasterKey_short seed h
theorem master_seed_too_short_icarus (seed : Bytes) (h : seed.length < 16) :
    icarusMasterKey seed = .error .value := icarusMasterKey_short seed h
theorem master_seed_wrong_length_byron_legacy (seed : Bytes) (h : seed.length ≠ 32) :
    byronLegacyMasterKey seed = .error .value := byronLegacyMasterKey_badlen seed h

/-- no other error class (except the never-observed fuel exhaustion of the model's re-hash loop) -/
theorem master_error_kinds_kholaw (seed : Bytes) (e : Err) (h : kholawMasterKey seed = .error e) :
    (e = .value ∧ seed.length < 16) ∨ (e = .fuel ∧ 16 ≤ seed.length) := kholawMasterKey_error seed e h
theorem master_icarus_total (seed : Bytes) (h : 16 ≤ seed.length) :
    ∃ k cc, icarusMasterKey seed = .ok (k, cc) := icarusMasterKey_total seed h
theorem master_error_kinds_byron_legacy (seed : Bytes) (e : Err) (h : byronLegacyMasterKey seed = .error e) :
    (e = .value ∧ seed.length ≠ 32) ∨ (e = .fuel ∧ seed.length = 32) :=
  byronLegacyMasterKey_error seed e h

/-! ### 3. child keys -/

/-- BIP32-Ed25519: `kL' = 8·zL[:28] + kL` as a 32-byte little-endian integer -/
theorem kholaw_child_left_spec (zl kl r : Bytes) (h : kholawNewLeft .kholaw zl kl = .ok r) :
    Bytes.toNatLE r = Bytes.toNatLE (zl.take 28) * 8 + Bytes.toNatLE kl ∧ r.length = 32 :=
  CardanoLemmas.kholaw_child_left_spec zl kl r h

/-- it fails with `Bip32KeyError` iff the sum is `≡ 0 (mod L)` or is `≥ 2^255` (bit 255 set, or
more than 32 bytes).  History of this second case: originally a sum `≥ 2^256` raised `OverflowError`;
the first library fix refused `≥ 2^256` with `Bip32KeyError`; the second one lowered the bound to
`2^255`, the range of scalars of libsodium's no-clamp base-point multiplication … -/
theorem kholaw_child_left_key_iff (zl kl : Bytes) :
    kholawNewLeft .kholaw zl kl = .error .key ↔
      (Bytes.toNatLE (zl.take 28) * 8 + Bytes.toNatLE kl) % edL = 0 ∨
        2 ^ 255 ≤ Bytes.toNatLE (zl.take 28) * 8 + Bytes.toNatLE kl :=
  CardanoLemmas.kholaw_child_left_key_iff zl kl

/-- … and never with `OverflowError`: a sum `≥ 2^255` (a fortiori `≥ 2^256`) is refused before
`int.to_bytes` is reached -/
theorem kholaw_child_left_never_overflow (zl kl : Bytes) :
    kholawNewLeft .kholaw zl kl ≠ .error .overflow :=
  CardanoLemmas.kholaw_child_left_never_overflow zl kl

/-- both reasons can hold at once: the sum `8·L` is `≥ 2^255` and `≡ 0 (mod L)`, reported as
`Bip32KeyError` (witness `zL = L - 2^252 + 1`, `kL = 2^255 - 8`; the theorem keeps the name it had
when the bound was `2^256` and the witness `16·L`) -/
theorem kholaw_child_left_key_above_2_256 :
    ∃ zl kl : Bytes, zl.length = 32 ∧ kl.length = 32 ∧
      2 ^ 255 ≤ Bytes.toNatLE (zl.take 28) * 8 + Bytes.toNatLE kl ∧
      (Bytes.toNatLE (zl.take 28) * 8 + Bytes.toNatLE kl) % edL = 0 ∧
      kholawNewLeft .kholaw zl kl = .error .key :=
  CardanoLemmas.kholaw_child_left_key_above_2_256

/-- the size refusal on its own: a sum `≥ 2^255` that is not a multiple of `L` is reported as
`Bip32KeyError` (witness: `zL = 1`, `kL = 2^255 - 8`, sum exactly `2^255` — a sum the library
accepted until the second fix; sums `≥ 2^256` were `OverflowError` before the first one) -/
theorem kholaw_child_left_key_size_only :
    ∃ zl kl : Bytes, zl.length = 32 ∧ kl.length = 32 ∧
      2 ^ 255 ≤ Bytes.toNatLE (zl.take 28) * 8 + Bytes.toNatLE kl ∧
      (Bytes.toNatLE (zl.take 28) * 8 + Bytes.toNatLE kl) % edL ≠ 0 ∧
      kholawNewLeft .kholaw zl kl = .error .key :=
  CardanoLemmas.kholaw_child_left_key_size_only

/-- the same witness read from the parent's side: a hand-supplied parent scalar that is a multiple
of 8 and below `2^255` but has bit 253 set (no master key generator produces one) can meet the size
refusal at its first child; this is why the chain theorems below assume `kL < 2^254 + 2^253` (what
`master_clamped_*` give) and no longer just `kL < 2^255` -/
theorem kholaw_size_refusal_below_2_255 :
    ∃ zl kl : Bytes, zl.length = 32 ∧ kl.length = 32 ∧ Bytes.toNatLE kl < 2 ^ 255 ∧
      8 ∣ Bytes.toNatLE kl ∧
      (Bytes.toNatLE (zl.take 28) * 8 + Bytes.toNatLE kl) % edL ≠ 0 ∧
      2 ^ 255 ≤ Bytes.toNatLE (zl.take 28) * 8 + Bytes.toNatLE kl ∧
      kholawNewLeft .kholaw zl kl = .error .key :=
  CardanoLemmas.kholaw_size_refusal_below_2_255

/-- it succeeds iff the sum is `≢ 0 (mod L)` and below `2^255` (`2^256` before the second fix) -/
theorem kholaw_child_left_ok_iff (zl kl : Bytes) :
    (∃ r, kholawNewLeft .kholaw zl kl = .ok r) ↔
      (Bytes.toNatLE (zl.take 28) * 8 + Bytes.toNatLE kl) % edL ≠ 0 ∧
        Bytes.toNatLE (zl.take 28) * 8 + Bytes.toNatLE kl < 2 ^ 255 :=
  CardanoLemmas.kholaw_child_left_ok_iff zl kl

/-- **the point of the `2^255` bound**: a successful new left half `r` has bit 255 clear.  libsodium's
no-clamp base-point multiplication takes its 32-byte scalar mod `2^255` (`edNoClampScalar`), so with
`r < 2^255` the public key of the private child is the true multiple `r·B = (kL + 8·zL[:28])·B` —
the same point the public derivation computes as `A + (8·zL[:28])·B`.  Private and public derivation
therefore agree for every parent key, hand-supplied ones included (with the earlier bound `2^256` a
parent with a large `kL` could get a child with bit 255 set, whose public key was `(r - 2^255)·B`). -/
theorem new_left_below_2_255 (zl kl r : Bytes) (h : kholawNewLeft .kholaw zl kl = .ok r) :
    Bytes.toNatLE r < 2 ^ 255 :=
  CardanoLemmas.kholaw_child_left_lt_2_255 zl kl r h

/-- … hence the scalar libsodium multiplies by is the stored left half itself, whatever 32 bytes
`kr` are appended as the right half (`Scheme` has no separate Icarus constructor: Cardano Icarus
derivation is scheme `.kholaw` too, only its master key generator differs) -/
theorem new_left_no_clamp_scalar (zl kl r kr : Bytes) (h : kholawNewLeft .kholaw zl kl = .ok r) :
    edNoClampScalar (r ++ kr) = Bytes.toNatLE r ∧
      edNoClampScalar (r ++ kr) = Bytes.toNatLE (zl.take 28) * 8 + Bytes.toNatLE kl := by
  obtain ⟨hv, hl⟩ := CardanoLemmas.kholaw_child_left_spec zl kl r h
  have ht : (r ++ kr).take 32 = r := by rw [← hl]; exact List.take_left
  have he := EccLemmas.edNoClampScalar_eq (r ++ kr)
    (by rw [ht]; exact CardanoLemmas.kholaw_child_left_lt_2_255 zl kl r h)
  rw [ht] at he
  exact ⟨he, by rw [he, hv]⟩

/-- the same on real nodes: every child `c` that `ChildKey` derives from a private Khovratovich-Law
(or Icarus) node — nothing is assumed about the parent key — holds a private key `k'` whose left
half is below `2^255`, so the no-clamp scalar is that left half and the child's public key is the
encoding of `kL'·B` -/
theorem child_key_left_below_2_255 (nd c : Node) (idx : Nat) (k : Bytes)
    (hs : nd.scheme = .kholaw) (hp : nd.priv = some k) (h : kholawChildKey nd idx = .ok c) :
    ∃ k', c.priv = some k' ∧ Bytes.toNatLE (k'.take 32) < 2 ^ 255 ∧
      edNoClampScalar k' = Bytes.toNatLE (k'.take 32) ∧
      pubOfPriv .ed25519Kholaw k' =
        (if edMulBase (Bytes.toNatLE (k'.take 32)) = edIdentity then none
         else some (0 :: edEncode (edMulBase (Bytes.toNatLE (k'.take 32))))) :=
  CardanoLemmas.kholawChildKey_kholaw_child_lt_2_255 nd c idx k hs hp h

/-- and private/public commutation in its success form: under the point-layer law `KholawLaw` (see
C04), whenever a private `.kholaw` node whose `pub` belongs to its private key has a non-hardened
child `c`, the neutered node has the child `c.neuter` — no range hypothesis on `kL` is needed any
more, the size test implies it -/
theorem child_key_public_agrees (law : KholawLaw) (nd : Node) (k : Bytes) (idx : Nat)
    (hcur : nd.curve = .ed25519Kholaw) (hsch : nd.scheme = .kholaw)
    (hp : nd.priv = some k) (hpub : pubOfPriv .ed25519Kholaw k = some nd.pub)
    (hh : isHardened idx = false) (c : Node) (hc : kholawChildKey nd idx = .ok c) :
    kholawChildKey nd.neuter idx = .ok c.neuter :=
  Model.kholaw_ckdPub_comm_of_ok law nd k idx hcur hsch hp hpub hh c hc

/-- the only error class of the left half is `Bip32KeyError` -/
theorem kholaw_child_left_error_kinds (zl kl : Bytes) (e : Err)
    (h : kholawNewLeft .kholaw zl kl = .error e) : e = .key :=
  kholaw_child_left_errors zl kl e h

/-- multiples of 8 stay multiples of 8; each level adds less than `2^227` (the last clause dates
from the `2^256` bound; by `new_left_below_2_255` its conclusion now holds unconditionally) -/
theorem kholaw_child_invariant (zl kl r : Bytes) (h : kholawNewLeft .kholaw zl kl = .ok r) :
    (8 ∣ Bytes.toNatLE kl → 8 ∣ Bytes.toNatLE r) ∧
    Bytes.toNatLE kl ≤ Bytes.toNatLE r ∧
    Bytes.toNatLE r < Bytes.toNatLE kl + 2 ^ 227 ∧
    (Bytes.toNatLE kl < 2 ^ 255 - 2 ^ 227 → Bytes.toNatLE r < 2 ^ 255) :=
  CardanoLemmas.kholaw_child_invariant zl kl r h

/-- after `d` levels from a master scalar `< 2^255`: `kL < 2^255 + d·2^227` -/
theorem kholaw_depth_bound (zs : List Bytes) (kl r : Bytes) (hm : Bytes.toNatLE kl < 2 ^ 255)
    (h : kholawLeftChain zs kl = .ok r) : Bytes.toNatLE r < 2 ^ 255 + zs.length * 2 ^ 227 :=
  kholaw_depth_bound_master zs kl r hm h

/-- a chain that succeeds ends `< 2^255` (it was `< 2^256` under the earlier bound, and then needed
the depth limit; now every successful level is below `2^255` by the size test itself, so `hd` is
kept only for the callers) … -/
theorem kholaw_depth_bound_256 (zs : List Bytes) (kl r : Bytes) (hm : Bytes.toNatLE kl < 2 ^ 255)
    (hd : zs.length ≤ 255) (h : kholawLeftChain zs kl = .ok r) : Bytes.toNatLE r < 2 ^ 255 :=
  CardanoLemmas.kholaw_depth_bound_256 zs kl r hm hd h

/-- … and the size refusal (sum `≥ 2^255`, `Bip32KeyError`; before the second library fix: sum
`≥ 2^256`, and `OverflowError` before the first) never happens along a chain of at most 255 levels
from a master scalar, i.e. from `kL < 2^254 + 2^253` (bit 255 clear, bit 253 clear, as
`master_clamped_kholaw` / `master_clamped_icarus` give): at every level — after any prefix `pre` of
the chain that succeeded with `r`, for the next `z` — the sum `8·z[:28] + r` is below `2^255`.
The hypothesis was `kL < 2^255` for the `2^256` bound; for the `2^255` bound that is not enough
(`kholaw_size_refusal_below_2_255`), the invariant `kL < kL₀ + d·2^227` needs the `2^253` of room
a master key leaves. -/
theorem kholaw_no_overflow (zs : List Bytes) (kl : Bytes)
    (hm : Bytes.toNatLE kl < 2 ^ 254 + 2 ^ 253)
    (hd : zs.length ≤ 255)
    (pre : List Bytes) (z : Bytes) (post : List Bytes) (hzs : zs = pre ++ z :: post) (r : Bytes)
    (hr : kholawLeftChain pre kl = .ok r) :
    Bytes.toNatLE (z.take 28) * 8 + Bytes.toNatLE r < 2 ^ 255 :=
  kholaw_no_overflow_master zs kl hm hd pre z post hzs r hr

/-- so such a chain fails only with `Bip32KeyError`, at a level whose sum is `≡ 0 (mod L)` -/
theorem kholaw_chain_error (zs : List Bytes) (kl : Bytes)
    (hm : Bytes.toNatLE kl < 2 ^ 254 + 2 ^ 253)
    (hd : zs.length ≤ 255) (e : Err) (h : kholawLeftChain zs kl = .error e) :
    e = .key ∧ ∃ pre z post r, zs = pre ++ z :: post ∧ kholawLeftChain pre kl = .ok r ∧
      (Bytes.toNatLE (z.take 28) * 8 + Bytes.toNatLE r) % edL = 0 ∧
      Bytes.toNatLE (z.take 28) * 8 + Bytes.toNatLE r < 2 ^ 255 :=
  kholaw_chain_error_master zs kl hm hd e h

/-- the general form: any start scalar and any chain with `kL + d·2^227 ≤ 2^255` -/
theorem kholaw_no_overflow_general (zs : List Bytes) (kl : Bytes)
    (hm : Bytes.toNatLE kl + zs.length * 2 ^ 227 ≤ 2 ^ 255)
    (pre : List Bytes) (z : Bytes) (post : List Bytes) (hzs : zs = pre ++ z :: post) (r : Bytes)
    (hr : kholawLeftChain pre kl = .ok r) :
    Bytes.toNatLE (z.take 28) * 8 + Bytes.toNatLE r < 2 ^ 255 :=
  CardanoLemmas.kholaw_no_overflow zs kl hm pre z post hzs r hr

/-- the same on real nodes: a Khovratovich-Law master built by `kholawMasterKey` / `icarusMasterKey`
followed by any derivation path of at most 255 indices never meets the size refusal.  At every node
`n` reached by a prefix `pre` of the path (private, with key `k'`), the left half the next step
(index `i`) computes is below `2^255` — the bound of the second library fix; a master scalar is
below `2^254 + 2^253` and 255 levels add less than `255·2^227 < 2^253` — so that step's `CKDpriv`
can fail only with `Bip32KeyError` and only because the new left half is `≡ 0 (mod L)`
(`ckdZ n k' i` is the HMAC output `Z` of that step). -/
theorem kholaw_master_path_no_overflow (seed : Bytes) (m : Node)
    (h : kholawMaster .kholaw kholawMasterKey seed = .ok m) (l : List Nat) (hl : l.length ≤ 255)
    (pre : List Nat) (i : Nat) (post : List Nat) (hsplit : l = pre ++ i :: post) (n : Node)
    (hn : pre.foldlM kholawChildKey m = .ok n) :
    ∃ k', n.priv = some k' ∧ n.scheme = .kholaw ∧
      (Bytes.toNatLE (((ckdZ n k' i).take 32).take 28) * 8 + Bytes.toNatLE (k'.take 32)) < 2 ^ 255 ∧
      ∀ e, kholawCkdPriv n k' i = .error e ↔
        e = .key ∧ (Bytes.toNatLE (((ckdZ n k' i).take 32).take 28) * 8 + Bytes.toNatLE (k'.take 32)) % edL = 0 :=
  CardanoLemmas.kholaw_master_path_no_overflow kholawMasterKey seed m
    (fun k cc hg => (kholawMasterKey_ok seed k cc hg).2.2.2.1) h l hl pre i post hsplit n hn

/-- the same for an Icarus master -/
theorem icarus_master_path_no_overflow (seed : Bytes) (m : Node)
    (h : kholawMaster .kholaw icarusMasterKey seed = .ok m) (l : List Nat) (hl : l.length ≤ 255)
    (pre : List Nat) (i : Nat) (post : List Nat) (hsplit : l = pre ++ i :: post) (n : Node)
    (hn : pre.foldlM kholawChildKey m = .ok n) :
    ∃ k', n.priv = some k' ∧ n.scheme = .kholaw ∧
      (Bytes.toNatLE (((ckdZ n k' i).take 32).take 28) * 8 + Bytes.toNatLE (k'.take 32)) < 2 ^ 255 ∧
      ∀ e, kholawCkdPriv n k' i = .error e ↔
        e = .key ∧ (Bytes.toNatLE (((ckdZ n k' i).take 32).take 28) * 8 + Bytes.toNatLE (k'.take 32)) % edL = 0 :=
  CardanoLemmas.kholaw_master_path_no_overflow icarusMasterKey seed m
    (fun k cc hg => (icarusMasterKey_ok seed k cc hg).2.2.2) h l hl pre i post hsplit n hn

/-- and `OverflowError` is never raised along any path (of any length) from such masters -/
theorem kholaw_master_path_never_overflow (seed : Bytes) (m : Node)
    (h : kholawMaster .kholaw kholawMasterKey seed = .ok m) (l : List Nat) :
    l.foldlM kholawChildKey m ≠ .error .overflow :=
  CardanoLemmas.kholaw_master_path_never_overflow kholawMasterKey seed m h l

theorem icarus_master_path_never_overflow (seed : Bytes) (m : Node)
    (h : kholawMaster .kholaw icarusMasterKey seed = .ok m) (l : List Nat) :
    l.foldlM kholawChildKey m ≠ .error .overflow :=
  CardanoLemmas.kholaw_master_path_never_overflow icarusMasterKey seed m h l

/-- node level growth bound and divisibility along a whole path -/
theorem kholaw_path_bound (l : List Nat) (nd c : Node) (k : Bytes)
    (hs : nd.scheme = .kholaw) (hp : nd.priv = some k) (h : l.foldlM kholawChildKey nd = .ok c) :
    ∃ k', c.priv = some k' ∧ c.scheme = .kholaw ∧
      Bytes.toNatLE (k.take 32) ≤ Bytes.toNatLE (k'.take 32) ∧
      Bytes.toNatLE (k'.take 32) < Bytes.toNatLE (k.take 32) + l.length * 2 ^ 227 + 1 ∧
      (8 ∣ Bytes.toNatLE (k.take 32) → 8 ∣ Bytes.toNatLE (k'.take 32)) :=
  CardanoLemmas.kholaw_path_bound l nd c k hs hp h

/-- Byron legacy: `(8 ⊙ zL + kL) mod L` with byte-wise (carry-less) multiplication; never fails -/
theorem legacy_variant_spec (zl kl r : Bytes) (h : kholawNewLeft .byronLegacy zl kl = .ok r) :
    Bytes.toNatLE r = (Bytes.toNatLE (mulNoCarry8 zl) + Bytes.toNatLE kl) % edL ∧ r.length = 32 :=
  CardanoLemmas.legacy_variant_spec zl kl r h

theorem legacy_variant_total (zl kl : Bytes) : ∃ r, kholawNewLeft .byronLegacy zl kl = .ok r :=
  CardanoLemmas.legacy_variant_total zl kl

theorem legacy_mul_bytewise (b : Bytes) (i : Nat) :
    (mulNoCarry8 b).length = b.length ∧
    ((mulNoCarry8 b).getD i 0).toNat = (b.getD i 0).toNat * 8 % 256 :=
  ⟨mulNoCarry8_length b, mulNoCarry8_getD b i⟩

/-- right halves: `(zR + kR) mod 2^256` vs byte-wise addition -/
theorem kholaw_right_spec (zr kr : Bytes) :
    ∃ r, kholawNewRight .kholaw zr kr = .ok r ∧
      Bytes.toNatLE r = (Bytes.toNatLE zr + Bytes.toNatLE kr) % 2 ^ 256 ∧ r.length = 32 :=
  CardanoLemmas.kholaw_right_spec zr kr

theorem legacy_right_spec (zr kr : Bytes) :
    kholawNewRight .byronLegacy zr kr = .ok (addNoCarry zr kr) ∧
    (addNoCarry zr kr).length = min zr.length kr.length ∧
    ∀ i, i < zr.length → i < kr.length →
      ((addNoCarry zr kr).getD i 0).toNat = ((zr.getD i 0).toNat + (kr.getD i 0).toNat) % 256 :=
  CardanoLemmas.legacy_right_spec zr kr

theorem legacy_right_not_modular :
    ∃ zr kr : Bytes, zr.length = 32 ∧ kr.length = 32 ∧
      Bytes.toNatLE (addNoCarry zr kr) ≠ (Bytes.toNatLE zr + Bytes.toNatLE kr) % 2 ^ 256 :=
  CardanoLemmas.legacy_right_not_modular

/-- index serialisation: 4 bytes, little-endian (Khovratovich-Law/Icarus) vs big-endian (legacy) -/
theorem index_bytes_spec (s : Scheme) (idx : Nat) :
    (kholawIndexBytes s idx).length = 4 ∧
    (s = .byronLegacy → kholawIndexBytes s idx = Bytes.ofNatBE 4 idx) ∧
    (s ≠ .byronLegacy → kholawIndexBytes s idx = Bytes.ofNatLE 4 idx) ∧
    (idx < 2 ^ 32 → s = .byronLegacy → Bytes.toNatBE (kholawIndexBytes s idx) = idx) ∧
    (idx < 2 ^ 32 → s ≠ .byronLegacy → Bytes.toNatLE (kholawIndexBytes s idx) = idx) :=
  kholawIndexBytes_spec s idx

/-! ### 4. Shelley -/

/-- payment address: Bech32 of `netTag ‖ H(pub) ‖ H(stake)` (57 bytes); decodes to the two hashes.
`k`, `s` are the validated (33-byte, `0x00`-prefixed) keys. -/
theorem shelley_decode_encode (hrp : List Char) (hv : ValidHrp hrp) (netTag : Nat) (hn : netTag ≤ 15)
    (pub stake : Bytes) (a : List Char) (h : shelleyEncode hrp netTag pub stake = .ok a) :
    ∃ k s, addrKey .ed25519 pub = .ok k ∧ addrKey .ed25519 stake = .ok s ∧
      bech32Encode hrp ([UInt8.ofNat netTag] ++ blake2b224 (k.drop 1) ++ blake2b224 (s.drop 1)) = .ok a ∧
      shelleyDecode hrp netTag a = .ok (blake2b224 (k.drop 1) ++ blake2b224 (s.drop 1)) :=
  CardanoLemmas.shelley_decode_encode hrp hv netTag (by omega) pub stake a h

/-- staking address: header `0xE0 + netTag`, 29-byte payload -/
theorem staking_decode_encode (hrp : List Char) (hv : ValidHrp hrp) (netTag : Nat) (hn : netTag ≤ 15)
    (pub : Bytes) (a : List Char) (h : shelleyStakingEncode hrp netTag pub = .ok a) :
    ∃ k, addrKey .ed25519 pub = .ok k ∧
      bech32Encode hrp ([UInt8.ofNat (0xE0 + netTag)] ++ blake2b224 (k.drop 1)) = .ok a ∧
      shelleyStakingDecode hrp netTag a = .ok (blake2b224 (k.drop 1)) :=
  CardanoLemmas.staking_decode_encode hrp hv netTag (by omega) pub a h

/-! ### 5. Byron -/

/-- `82 d8 18 ‖ bytes(payload) ‖ uint(crc32 payload)` with payload `83 58 1c ‖ rootHash ‖ attrs ‖ 00` -/
theorem byron_addr_structure (pub cc : Bytes) (hdEnc : Option Bytes) :
    byronAddrBytes pub cc hdEnc =
      [0x82, 0xd8, 0x18] ++ cborBytesItem (byronPayload pub cc hdEnc) ++
        cborHead 0 (crc32 (byronPayload pub cc hdEnc)) ∧
    cborUint (crc32 (byronPayload pub cc hdEnc)) = .ok (cborHead 0 (crc32 (byronPayload pub cc hdEnc))) ∧
    byronPayload pub cc hdEnc =
      [0x83, 0x58, 0x1c] ++ byronRootHash pub cc hdEnc ++ byronAttrs hdEnc ++ [0x00] :=
  CardanoLemmas.byron_addr_structure pub cc hdEnc

/-- decode ∘ encode = root hash ‖ encrypted path (stated for any `pub`, `cc`; in particular the
32-byte ones) -/
theorem byron_decode_encode (pub cc : Bytes) (hdEnc : Option Bytes)
    (hl : (hdEnc.getD []).length < 2 ^ 16) :
    byronDecode (b58Encode btcAlphabet (byronAddrBytes pub cc hdEnc)) =
      .ok (blake2b224 (sha3_256 (byronRoot pub cc hdEnc)) ++ hdEnc.getD []) :=
  CardanoLemmas.byron_decode_encode pub cc hdEnc (by omega)

/-- the CRC is really checked: any other trailing CRC value is refused with `ValueError` -/
theorem byron_crc_verifies (payload : Bytes) (crc : Nat) (hp : payload.length < 2 ^ 64)
    (hc : crc < 2 ^ 64) (hne : crc ≠ crc32 payload) :
    byronDecode (b58Encode btcAlphabet
      (cborHead 4 2 ++ (cborHead 6 24 ++ cborBytesItem payload) ++ cborHead 0 crc)) = .error .value :=
  byron_crc_mismatch payload crc hp hc hne

theorem byron_icarus_decode_encode (pub cc : Bytes) (a : List Char) (h : byronIcarusEncode pub cc = .ok a) :
    ∃ k, pubFromBytes .ed25519 pub = some k ∧ byronDecode a = .ok (byronRootHash (k.drop 1) cc none) :=
  CardanoLemmas.byron_icarus_decode_encode pub cc a h

/-- without an HD-path key the legacy encoder is the Icarus encoder -/
theorem byron_legacy_encode_no_key (aead : Aead) (pub cc : Bytes) (path : List Nat) :
    byronLegacyEncode aead pub cc path none = byronIcarusEncode pub cc :=
  byronLegacyEncode_none aead pub cc path

/-- Byron-legacy addresses decode to `rootHash ‖ AEAD(cbor path)` -/
theorem byron_legacy_decode_encode (aead : Aead) (pub cc : Bytes) (path : List Nat) (key : Bytes)
    (a : List Char) (h : byronLegacyEncode aead pub cc path (some key) = .ok a)
    (hlen : ∀ p, (aead key byronNonce [] p).length + 200 < 2 ^ 64) :
    ∃ k plain, pubFromBytes .ed25519 pub = some k ∧ cborIndefEncode path = .ok plain ∧
      key.length = 32 ∧ cc.length = 32 ∧
      byronDecode a = .ok (byronRootHash (k.drop 1) cc (some (aead key byronNonce [] plain)) ++
        aead key byronNonce [] plain) :=
  CardanoLemmas.byron_legacy_decode_encode aead pub cc path key a h hlen

/-- path recovery under the AEAD law (`dec (ct[:-16]) (ct[-16:]) = plaintext`, `|ct| = |p| + 16`) -/
theorem byron_path_recover (aead : Aead) (dec : AeadDec) (law : AeadLaw aead dec) (master : Node)
    (first second : Nat) (addr : List Char)
    (h : byronLegacyAddress aead master first second = .ok addr) :
    byronRecoverPathWith dec master addr = .ok [harden first, harden second] :=
  CardanoLemmas.byron_path_recover aead dec law master first second addr h

/-- the AEAD law is a theorem for the reference ChaCha20-Poly1305 of `Prim` (xor with a key stream
is an involution; the tag is recomputed from the same ciphertext; the tag has 16 bytes) … -/
theorem chacha_aead_law : AeadLaw chachaAead chacha20Poly1305Decrypt := chacha_aeadLaw

theorem chacha20_involutive (key : Bytes) (counter : Nat) (nonce data : Bytes) :
    chacha20Xor key counter nonce (chacha20Xor key counter nonce data) = data :=
  chacha20Xor_involutive key counter nonce data

/-- … the driver's AEAD and path recovery are these very functions … -/
theorem driver_aead_eq : Driver.chachaAead = chachaAead := by
  funext key nonce aad plain
  simp only [Driver.chachaAead, chachaAead, chacha20Poly1305Encrypt]
theorem driver_recover_eq (master : Node) (addr : List Char) :
    Driver.byronRecoverPath master addr = byronRecoverPathWith chacha20Poly1305Decrypt master addr := by
  unfold Driver.byronRecoverPath byronRecoverPathWith
  rfl

/-- … hence, with no hypothesis: the wallet's own addresses give the derivation path back -/
theorem byron_path_recover_chacha (master : Node) (first second : Nat) (addr : List Char)
    (h : byronLegacyAddress Driver.chachaAead master first second = .ok addr) :
    Driver.byronRecoverPath master addr = .ok [harden first, harden second] := by
  rw [driver_recover_eq]; rw [driver_aead_eq] at h
  exact CardanoLemmas.byron_path_recover_chacha master first second addr h

end BipVerif.Props.C18
