import BipVerif.Model.Cardano
namespace BipVerif.Props.C18
theorem placeholder : True := trivial
end BipVerif.Props.C18
