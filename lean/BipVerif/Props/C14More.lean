/-
C14, completion — census of the model driver against the error-kind theorems, and the theorems for
every model entry point on untrusted text / bytes that had none.

Census of the 85 driver operations (`Driver/*.lean`; 82 in `allOps` + 3 in `substrateOpsO`).
"where" = the theorem bounding the error kinds of the model function the operation runs
(C14 = Props/C14.lean, C14A = Props/C14Addr.lean, C14W = Props/C14Wallets.lean, NEW = this file,
total = the model function has no error, Option = returns `Option`, no error kind to bound).

  op            | model function(s) on untrusted input            | where
  --------------+-------------------------------------------------+---------------------------------------
  Driver/Codec.lean (27)
  b58enc        | b58Encode                                       | total
  b58dec        | b58Decode                                       | C14.base58_decode
  b58chkenc     | b58CheckEncode                                  | total
  b58chkdec     | b58CheckDecode                                  | C14.base58_check_decode
  ss58enc       | ss58Encode                                      | C14.ss58_encode
  ss58dec       | ss58Decode                                      | C14.ss58_decode
  xmrenc        | xmrEncode                                       | total
  xmrdec        | xmrDecode                                       | C14.base58_xmr_decode
  convbits      | convertBits                                     | Option
  b32enc        | base32Encode                                    | total
  b32encnp      | base32EncodeNoPad                               | total
  b32dec        | base32Decode                                    | C14.base32_decode
  bech32enc     | bech32Encode                                    | NEW bech32_encode
  bech32dec     | bech32Decode                                    | C14.bech32_decode
  segwitenc     | segwitEncode                                    | NEW segwit_encode
  segwitdec     | segwitDecode                                    | C14.segwit_decode
  bchenc        | bchEncode                                       | NEW bch_encode
  bchdec        | bchDecode                                       | C14.bch_decode
  tobytes       | toBytesBE / toBytesLE (integer argument)        | C11.toBytes_overflow_iff: `.overflow` iff it does not fit — not a decoder
  frombytes     | Bytes.toNatBE / toNatLE                         | total
  tobin         | toBinStr                                        | total
  scalecuint    | scaleCompact                                    | C14.scale_compact
  scalecuintdec | scaleCompactDecode (spec decoder)               | Option
  scaleuint     | scaleUint                                       | C14.scale_uint
  scalebytes    | scaleBytes                                      | C14.scale_bytes
  cborenc       | cborIndefEncode (integer list)                  | NEW cbor_indef_encode_errors (`.overflow` only, iff an item ≥ 2^64: modelling bound)
  cbordec       | cborIndefDecode cborLoadsUint                   | C14.cbor_indef_decode
  Driver/Bip32.lean (14)
  master        | slip10Master                                    | C14.master_partial, C14.master_ed25519
  derive        | slip10Master, deriveSplit slip10ChildKey        | NEW slip10_child_key_partial, derive_split_errors
  childpriv     | nodeOfPriv, slip10ChildKey                      | NEW node_of_priv, slip10_child_key_partial
  childpub      | nodeOfPub, slip10ChildKey                       | NEW node_of_pub, slip10_child_key_partial
  serkey        | serializeKey (integer depth / index)            | C14.serialize_key_total, C05.serializeKey_error_iff
  deserkey      | deserializeKey                                  | C14.deserialize_key
  fromxkey      | fromExtendedKey, toExtendedPub / toExtendedPriv | C14.from_extended_key, NEW to_extended_pub / to_extended_priv
  xkeys         | slip10Master, slip10ChildKey, toExtended*       | as above
  parsepath     | parsePath                                       | C14.parse_path
  printpath     | printPath                                       | total
  derivepathstr | slip10Master, parsePath, derivePath             | C14.parse_path, NEW derive_path_partial
  nodepath      | nodeOfPriv, parsePath, derivePath               | NEW node_of_priv, derive_path_partial
  wifenc        | wifEncode                                       | C14.wif_encode
  wifdec        | wifDecode                                       | C14.wif_decode
  Driver/Mnemonic.lean (14)
  bip39enc      | bip39Encode                                     | C14.bip39_encode
  bip39dec      | bip39Sentence, bip39Decode, …WithChecksum       | C14.bip39_decode, NEW bip39_sentence, bip39_decode_with_checksum
  bip39seed     | bip39Sentence, bip39Seed                        | C14.bip39_seed, NEW bip39_sentence
  subseed       | bip39Sentence, substrateSeed                    | C14.substrate_seed, NEW bip39_sentence
  monenc        | moneroEncode                                    | C14.monero_encode
  mondec        | moneroDecode                                    | C14.monero_decode
  algoenc       | algoEncode                                      | C14.algorand_encode
  algodec       | bip39Sentence, algoDecode                       | C14.algorand_decode, NEW bip39_sentence
  ev1enc        | electrumV1Encode                                | C14.electrumV1_encode
  ev1dec        | bip39Sentence, electrumV1Decode                 | C14.electrumV1_decode, NEW bip39_sentence
  ev1seed       | bip39Sentence, electrumV1Seed                   | C14.electrumV1_seed, NEW bip39_sentence
  ev2enc        | electrumV2EncodeIdx                             | C14.electrumV2_encode
  ev2dec        | bip39Sentence, electrumV2DecodeIdx              | C14.electrumV2_decode, NEW bip39_sentence
  ev2seed       | bip39Sentence, electrumV2Seed                   | C14.electrumV2_seed, NEW bip39_sentence
  Driver/Addr.lean (4)
  addrenc       | the 36 address encoders                         | C14A.*_encode
  addrdec       | the 36 address decoders                         | C14A.*_decode
  pubkey        | pubFromBytes                                    | Option
  privkey       | privValid, pubOfPriv                            | Option
  Driver/Bip44.lean (1)
  bip44         | masterOf, b44Admit, parsePath, b44Run,          | C14.bip44_ctor, C14.parse_path, NEW master_of_partial,
                | byronIcarusEncode (rowAddress)                  | b44_step_errors, b44_step_partial, b44_run_errors, byron_icarus_encode
  Driver/Bip38.lean (5)
  b38noecenc    | bip38NoEcEncrypt                                | C14W.bip38_encrypt_no_ec
  b38noecdec    | bip38NoEcDecrypt                                | C14W.bip38_decrypt_no_ec
  b38int        | bip38Intermediate                               | NEW bip38_intermediate
  b38ecgen      | bip38EcGenerate                                 | NEW bip38_ec_generate
  b38ecdec      | bip38EcDecrypt                                  | C14W.bip38_decrypt_ec
  Driver/Monero.lean (1)
  xmrwallet     | xmrFromSeed / xmrFromSpend / xmrWatchOnly,      | C14W.monero_from_seed / _from_spend_key / _watch_only,
                | xmrFromBip44Priv, xmrPrivateSpend,              | NEW monero_from_bip44_priv, monero_private_spend,
                | xmrPrimaryAddress, xmrSubaddress, xmrIntegrated | monero_primary_address, monero_subaddress, monero_integrated_address
  Driver/Electrum.lean (5)
  ev1wallet     | ev1FromPriv / ev1FromPub, ev1PrivateKey,        | C14W.electrum_v1_key, NEW electrum_v1_from_priv, electrum_v1_from_pub,
                | ev1PublicKey, ev1Address                        | electrum_v1_public_key, electrum_v1_address
  ev2wallet     | slip10Master, ev2Derive, ev2Address             | NEW electrum_v2_derive_partial, electrum_v2_address
  brain         | brainKey (total), secpPubOfPriv                 | NEW brainwallet_key
  findpda       | findPda                                         | C14W.spl_find_pda (loop only), NEW spl_find_pda
  splata        | associatedTokenAddress                          | NEW spl_associated_token_address
  Driver/Cardano.lean (7)
  kholawderive  | kholawMaster, deriveSplit kholawChildKey        | C14W.cardano_*_master_partial (generators), NEW kholaw_master_partial,
                |                                                 | icarus_master, byron_legacy_master_partial, kholaw_child_key, derive_split_errors
  kholawraw     | nodeOfPriv, deriveSplit kholawChildKey          | NEW node_of_priv, kholaw_child_key
  byronaddr     | byronLegacyAddress, byronRecoverPath            | NEW byron_legacy_address, byron_recover_path
  byrondec      | byronDecode                                     | NEW byron_decode
  byronrecover  | kholawMaster, byronRecoverPath                  | NEW byron_recover_path
  shelley       | masterOf, b44Run, derivePathWith childKey,      | NEW master_of_partial, b44_run_errors, child_key_partial,
                | shelleyEncode / StakingEncode / Decode / …      | shelley_encode, shelley_staking_encode, shelley_decode, shelley_staking_decode
  adaseed       | cborBytesItem                                   | total
  Driver/Ecc.lean (4)
  ptfrombytes   | Driver.ptFromBytes                              | NEW point_from_bytes
  ptadd         | Driver.ptFromBytes, Driver.ptAdd                | NEW point_add (`.type` only for points of two curve families: unreachable from one op)
  ptmul         | Driver.ptFromBytes, Driver.ptMul                | NEW point_mul
  ptmulg        | Driver.ptMul                                    | NEW point_mul
  Driver/Substrate.lean (3)
  subpath       | subParsePath                                    | C14.substrate_parse_path
  subcc         | subElemOf, subChainCode                         | C14.substrate_path_elem, C14.substrate_chain_code
  substrate     | subFromSeed / subFromPriv / subFromPub,         | C14.substrate_parse_path, NEW substrate_from_seed, substrate_from_priv,
                | subParsePath, subDerivePath, subAddress         | substrate_from_pub, substrate_child_key, substrate_derive_path, substrate_address

Totals: 85 operations.  13 run only total / `Option` functions.  Of the other 72, 33 were completely
covered by C14 / C14A / C14W (or C11 / C05 for the two integer encoders); 39 ran at least one model
function without an error-kind theorem (8 of them only the sentence tokeniser `bip39Sentence`); all of
those functions are covered below (58 theorems).

Kinds outside the documented family that the *models* can return (each stated exactly below):
  * `.fuel` — the bounded re-hash loops of SLIP-0010 master / child keys and of the Khovratovich-Law /
    Byron-legacy master generators (already `…_partial` in C14 / C14W): `slip10_child_key_partial`,
    `child_key_partial`, `derive_path_partial`, `master_of_partial`, `kholaw_master_partial`,
    `byron_legacy_master_partial`, `electrum_v2_derive_partial`, `b44_step_errors`, `b44_run_errors`.
  * `.type` — `Bip44.Change(x)` with a non-member (already `C14.bip44_change_type_is_type_error`), and
    `Driver.ptAdd` on points of different curve families (not reachable from a driver operation).
  * `.overflow` — `cborIndefEncode` for an integer ≥ 2^64 (modelling bound of `cborUint`; the library's
    callers pass derivation indices < 2^32) and `toExtendedPub/Priv` for a node with depth ≥ 256 or
    index ≥ 2^32 (no constructor or derivation produces one, `C05.serializeKey_error_iff`).
  * `.oracleMiss` — `byronDecode` outside the modelled CBOR fragment, `bip39Sentence` for a non-ASCII
    token without oracle answer, the Substrate sr25519 oracle: harness conditions, never verdicts.
  * `.keyErr` — `masterOf` / `Driver.ptFromBytes` for a class name outside the table (malformed request).
-/
import BipVerif.Lemmas.C14More
import BipVerif.Props.C05
import BipVerif.Driver.Cardano
import BipVerif.Driver.Ecc

namespace BipVerif.Props.C14More
open BipVerif BipVerif.Prim BipVerif.Model BipVerif.Model.C14MoreLemmas

/-! ### the documented classes -/

theorem doc_value {e : Err} (h : e = .value) : e.documented = true := by subst h; rfl
theorem doc_key {e : Err} (h : e = .key) : e.documented = true := by subst h; rfl
theorem doc_kv {e : Err} (h : e = .key ∨ e = .value) : e.documented = true := by
  rcases h with rfl | rfl <;> rfl
theorem doc_vc {e : Err} (h : e = .value ∨ e = .checksum) : e.documented = true := by
  rcases h with rfl | rfl <;> rfl
theorem doc_pkv {e : Err} (h : e = .path ∨ e = .key ∨ e = .value) : e.documented = true := by
  rcases h with rfl | rfl | rfl <;> rfl

theorem kvf_partial {e : Err} (h : e = .key ∨ e = .value ∨ e = .fuel) :
    e.documented = true ∨ e = .fuel := by
  rcases h with rfl | rfl | rfl
  · exact Or.inl rfl
  · exact Or.inl rfl
  · exact Or.inr rfl

/-! ## 1. codecs -/

/-- `Bech32Encoder.Encode`: `ValueError` only -/
theorem bech32_encode (hrp : List Char) (data : Bytes) (e : Err)
    (h : bech32Encode hrp data = .error e) : e = .value ∧ e.documented = true :=
  have hv := (bech32Encode_ov hrp data).h e h
  ⟨hv, doc_value hv⟩

/-- `SegwitBech32Encoder.Encode`: `ValueError` only -/
theorem segwit_encode (hrp : List Char) (v : Nat) (prog : Bytes) (e : Err)
    (h : segwitEncode hrp v prog = .error e) : e = .value ∧ e.documented = true :=
  have hv := (segwitEncode_ov hrp v prog).h e h
  ⟨hv, doc_value hv⟩

/-- `BchBech32Encoder.Encode`: `ValueError` only -/
theorem bch_encode (hrp : List Char) (netVer data : Bytes) (e : Err)
    (h : bchEncode hrp netVer data = .error e) : e = .value ∧ e.documented = true :=
  have hv := (bchEncode_ov hrp netVer data).h e h
  ⟨hv, doc_value hv⟩

/-- `CborIndefiniteLenArrayEncoder.Encode` (integer list): the model's only failure is `.overflow`,
for an item ≥ 2^64 (`cborUint` models major type 0 only) — **not** in the documented family; with all
items below 2^64 it cannot fail -/
theorem cbor_indef_encode_errors (l : List Nat) (e : Err) (h : cborIndefEncode l = .error e) :
    e = .overflow ∧ ∃ n ∈ l, 2 ^ 64 ≤ n := by
  refine ⟨(cborIndefEncode_only l).h e h, ?_⟩
  by_contra hc
  have hall : ∀ n ∈ l, n < 2 ^ 64 := by
    intro n hn
    by_contra hlt
    exact hc ⟨n, hn, by omega⟩
  rw [cborIndefEncode_ok hall] at h
  cases h

/-! ## 2. BIP-32 objects -/

/-- `Bip32Base.FromPrivateKey` / `Bip32PrivateKey.FromBytes`: `Bip32KeyError` or `ValueError` -/
theorem node_of_priv (c : CurveT) (s : Scheme) (priv : Bytes) (depth index : Nat) (cc fp : Bytes)
    (e : Err) (h : nodeOfPriv c s priv depth index cc fp = .error e) :
    (e = .key ∨ e = .value) ∧ e.documented = true :=
  have hv := (nodeOfPriv_only c s priv depth index cc fp).h e h
  ⟨hv, doc_kv hv⟩

/-- `Bip32Base.FromPublicKey` / `Bip32PublicKey.FromBytes`: `Bip32KeyError` only -/
theorem node_of_pub (c : CurveT) (s : Scheme) (pub : Bytes) (depth index : Nat) (cc fp : Bytes)
    (e : Err) (h : nodeOfPub c s pub depth index cc fp = .error e) :
    e = .key ∧ e.documented = true :=
  have hv := (nodeOfPub_only c s pub depth index cc fp).h e h
  ⟨hv, doc_key hv⟩

/-- `Bip32Slip10*.ChildKey(index)`, any node and index.  **Partial**: `.fuel` is the bounded SLIP-0010
re-hash loop (see `C14.master_partial`); everything else is `Bip32KeyError` / `ValueError` -/
theorem slip10_child_key_partial (nd : Node) (idx : Nat) (e : Err)
    (h : slip10ChildKey nd idx = .error e) : e.documented = true ∨ e = .fuel :=
  kvf_partial ((slip10ChildKey_only nd idx).h e h)

/-- `Bip32KholawEd25519.ChildKey` / `CardanoByronLegacyBip32.ChildKey`, any node and index:
`Bip32KeyError` or `ValueError` — no `OverflowError` from the four `int.to_bytes` calls, no fuel -/
theorem kholaw_child_key (nd : Node) (idx : Nat) (e : Err) (h : kholawChildKey nd idx = .error e) :
    (e = .key ∨ e = .value) ∧ e.documented = true :=
  have hv := (kholawChildKey_only nd idx).h e h
  ⟨hv, doc_kv hv⟩

/-- `Bip32Base.ChildKey` of any scheme (the dispatch BIP-44 / CIP-1852 use).  **Partial** (`.fuel`) -/
theorem child_key_partial (nd : Node) (idx : Nat) (e : Err) (h : childKey nd idx = .error e) :
    e.documented = true ∨ e = .fuel :=
  kvf_partial ((childKey_only nd idx).h e h)

/-- `Bip32Base.DerivePath(path)` (SLIP-0010 classes) with a parsed path.  **Partial** (`.fuel`) -/
theorem derive_path_partial (nd : Node) (p : Path) (e : Err) (h : derivePath nd p = .error e) :
    e.documented = true ∨ e = .fuel :=
  kvf_partial ((derivePathWith_only slip10ChildKey slip10ChildKey_only KVF.value nd p).h e h)

/-- `Bip32Base.DerivePath(path)` for the Khovratovich-Law / Byron-legacy classes -/
theorem kholaw_derive_path (nd : Node) (p : Path) (e : Err)
    (h : derivePathWith kholawChildKey nd p = .error e) :
    (e = .key ∨ e = .value) ∧ e.documented = true :=
  have hv := (derivePathWith_only kholawChildKey kholawChildKey_only (Or.inr rfl) nd p).h e h
  ⟨hv, doc_kv hv⟩

/-- the driver's "derive privately, neuter, derive publicly" walk adds no error kind -/
theorem derive_split_errors {P : Err → Prop} (child : Node → Nat → R Node)
    (hc : ∀ nd i e, child nd i = .error e → P e) (m : Node) (elems : List Nat) (k : Nat) (e : Err)
    (h : Driver.deriveSplit child m elems k = .error e) : P e := by
  have hf : ∀ l nd, Only P (List.foldlM child nd l) :=
    fun l nd => Only.foldlM (fun nd i => ⟨hc nd i⟩) l nd
  have : Only P (Driver.deriveSplit child m elems k) := by
    unfold Driver.deriveSplit
    only_auto [hf]
  exact this.h e h

/-- `Bip32Base.PublicKey().ToExtended()`: fails only with `.overflow`, only for depth ≥ 256 or index ≥ 2³² -/
theorem to_extended_pub (H : Bytes → Bytes) (kv : KeyNetVer) (n : Node) (e : Err)
    (h : n.toExtendedPub H kv = .error e) : e = .overflow ∧ ¬ (n.depth < 256 ∧ n.index < 2 ^ 32) :=
  (C05.serializeKey_error_iff H kv.pub n.depth n.parentFp n.index n.chainCode n.pub e).mp h

/-- `Bip32Base.PrivateKey().ToExtended()`: `Bip32KeyError` on a public-only object; within the ranges
every node satisfies nothing else -/
theorem to_extended_priv (H : Bytes → Bytes) (kv : KeyNetVer) (n : Node) (hd : n.depth < 256)
    (hi : n.index < 2 ^ 32) (e : Err) (h : n.toExtendedPriv H kv = .error e) :
    e = .key ∧ n.priv = none ∧ e.documented = true := by
  unfold Node.toExtendedPriv at h
  cases hp : n.priv with
  | none => rw [hp] at h; cases h; exact ⟨rfl, rfl, rfl⟩
  | some k =>
    rw [hp] at h
    exact absurd ⟨hd, hi⟩ ((C05.serializeKey_error_iff H kv.priv n.depth n.parentFp n.index n.chainCode
      ([0] ++ k) e).mp h).2

/-! ## 3. master keys behind `Bip44Base.FromSeed` / the Cardano classes -/

/-- `Bip44Base.FromSeed` → `Bip32Class().FromSeed(seed)` for the six classes of the coin table.
**Partial** (`.fuel`, see `C14.master_partial`) -/
theorem master_of_partial (cls : String) (hc : (bip32ClassOf cls).isSome = true) (seed : Bytes)
    (e : Err) (h : masterOf cls seed = .error e) : e.documented = true ∨ e = .fuel :=
  kvf_partial ((masterOf_only cls hc seed).h e h)

/-- `Bip32KholawEd25519.FromSeed` (= `CardanoIcarusBip32` with the Khovratovich-Law generator).
**Partial** (`.fuel`: the "third highest bit" re-hash loop) -/
theorem kholaw_master_partial (seed : Bytes) (e : Err)
    (h : kholawMaster .kholaw kholawMasterKey seed = .error e) : e.documented = true ∨ e = .fuel :=
  kvf_partial ((kholawMaster_only _ _ kholawMasterKey_only KVF.key KVF.value seed).h e h)

/-- `CardanoIcarusBip32.FromSeed`: `ValueError` or `Bip32KeyError`, no loop -/
theorem icarus_master (seed : Bytes) (e : Err)
    (h : kholawMaster .kholaw icarusMasterKey seed = .error e) :
    (e = .key ∨ e = .value) ∧ e.documented = true :=
  have hv := (kholawMaster_only (P := KV) _ _
    (fun s => (icarusMasterKey_only s).mono (fun _ h => Or.inr h)) (Or.inl rfl) (Or.inr rfl) seed).h e h
  ⟨hv, doc_kv hv⟩

/-- `CardanoByronLegacyBip32.FromSeed`.  **Partial** (`.fuel`) -/
theorem byron_legacy_master_partial (seed : Bytes) (e : Err)
    (h : kholawMaster .byronLegacy byronLegacyMasterKey seed = .error e) :
    e.documented = true ∨ e = .fuel :=
  kvf_partial ((kholawMaster_only _ _ byronLegacyMasterKey_only KVF.key KVF.value seed).h e h)

/-! ## 4. BIP-44 hierarchy, any operation -/

/-- one `Bip44Base` operation (`Purpose`, `Coin`, `Account`, `Change`, `AddressIndex`, `DeriveDefaultPath`,
`ConvertToPublic`, re-import) on any object: documented, or `.fuel` (partial, as above), or the `TypeError`
of `Change(x)` (`C14.bip44_change_type_is_type_error`) -/
theorem b44_step_errors (purpose coinIdx : Nat) (defPath : Path) (nd : Node) (op : B44Op) (e : Err)
    (h : b44Step purpose coinIdx defPath nd op = .error e) :
    e.documented = true ∨ e = .fuel ∨ e = .type :=
  (b44Step_only purpose coinIdx defPath nd op).h e h

/-- … and any sequence of them -/
theorem b44_run_errors (purpose coinIdx : Nat) (defPath : Path) (nd : Node) (ops : List B44Op)
    (e : Err) (h : b44Run purpose coinIdx defPath nd ops = .error e) :
    e.documented = true ∨ e = .fuel ∨ e = .type :=
  (b44Run_only purpose coinIdx defPath nd ops).h e h

/-- with every `Change` argument a `Bip44Changes` member, no `TypeError`: documented or `.fuel` (partial) -/
theorem b44_step_partial (purpose coinIdx : Nat) (defPath : Path) (nd : Node) (op : B44Op)
    (hop : ∀ c, op = .change c → c ≤ 1) (e : Err)
    (h : b44Step purpose coinIdx defPath nd op = .error e) : e.documented = true ∨ e = .fuel := by
  have hchild : ∀ nd i, Only DF (b44Child nd i) := b44Child_only
  have hadm : ∀ nd, Only DF (b44Admit nd) := fun nd => (b44Admit_only nd).mono (fun e h => h ▸ DF.depth)
  have hd : DF .depth := DF.depth
  have : Only DF (b44Step purpose coinIdx defPath nd op) := by
    cases op with
    | purpose => unfold b44Step; exact Only.ite (fun _ => Only.throw hd) (fun _ => hchild _ _)
    | coin => unfold b44Step; exact Only.ite (fun _ => Only.throw hd) (fun _ => hchild _ _)
    | account i => unfold b44Step; exact Only.ite (fun _ => Only.throw hd) (fun _ => hchild _ _)
    | change c =>
      have hc := hop c rfl
      unfold b44Step
      exact Only.ite (fun hgt => absurd hgt (by omega))
        (fun _ => Only.ite (fun _ => Only.throw hd) (fun _ => hchild _ _))
    | addrIdx i => unfold b44Step; exact Only.ite (fun _ => Only.throw hd) (fun _ => hchild _ _)
    | deriveDefault =>
      have hdp : ∀ b, Only DF (derivePathWith childKey b defPath) := fun b =>
        derivePathWith_only childKey (fun nd i => (childKey_only nd i).mono (fun _ h => h.toDF)) DF.value b defPath
      unfold b44Step
      only_auto [hchild, hadm, hdp]
    | neuter => unfold b44Step; exact Only.pure _
    | reimportX => unfold b44Step; exact hadm _
    | reimportRaw d => unfold b44Step; exact hadm _
  exact this.h e h

/-! ## 5. BIP-38 with EC multiplication -/

/-- `Bip38EcKeysGenerator.GenerateIntermediatePassphrase`: `ValueError` only (lot / sequence range,
pass factor ≡ 0) -/
theorem bip38_intermediate (pass salt : Bytes) (lotSeq : Option (Nat × Nat)) (e : Err)
    (h : bip38Intermediate pass salt lotSeq = .error e) : e = .value ∧ e.documented = true :=
  have hv := (bip38Intermediate_only pass salt lotSeq).h e h
  ⟨hv, doc_value hv⟩

/-- `Bip38EcKeysGenerator.GeneratePrivateKey(int_passphrase, …)`: `ValueError` / `Base58ChecksumError` -/
theorem bip38_ec_generate (intPass : List Char) (seedb : Bytes) (compressed : Bool) (e : Err)
    (h : bip38EcGenerate intPass seedb compressed = .error e) :
    (e = .value ∨ e = .checksum) ∧ e.documented = true :=
  have hv := (bip38EcGenerate_only intPass seedb compressed).h e h
  ⟨hv, doc_vc hv⟩

/-! ## 6. Electrum, brainwallet, SPL token -/

/-- `ElectrumV1.FromPrivateKey`: `ValueError` only -/
theorem electrum_v1_from_priv (k : Bytes) (e : Err) (h : ev1FromPriv k = .error e) :
    e = .value ∧ e.documented = true :=
  have hv := (ev1FromPriv_only k).h e h
  ⟨hv, doc_value hv⟩

/-- `ElectrumV1.FromPublicKey`: `ValueError` only -/
theorem electrum_v1_from_pub (b : Bytes) (e : Err) (h : ev1FromPub b = .error e) :
    e = .value ∧ e.documented = true :=
  have hv := (ev1FromPub_only b).h e h
  ⟨hv, doc_value hv⟩

/-- `ElectrumV1.GetPublicKey(change, addr)`: `ValueError` only -/
theorem electrum_v1_public_key (w : Ev1) (change addr : Nat) (e : Err)
    (h : ev1PublicKey w change addr = .error e) : e = .value ∧ e.documented = true :=
  have hv := (ev1PublicKey_only w change addr).h e h
  ⟨hv, doc_value hv⟩

/-- `ElectrumV1.GetAddress(change, addr)`: `ValueError` only -/
theorem electrum_v1_address (w : Ev1) (change addr : Nat) (e : Err)
    (h : ev1Address w change addr = .error e) : e = .value ∧ e.documented = true :=
  have hv := (ev1Address_only w change addr).h e h
  ⟨hv, doc_value hv⟩

/-- `ElectrumV2Standard/Segwit.GetPrivateKey(change, addr)` (the derivation).  **Partial** (`.fuel`) -/
theorem electrum_v2_derive_partial (segwit : Bool) (master : Node) (change addr : Nat) (e : Err)
    (h : ev2Derive segwit master change addr = .error e) : e.documented = true ∨ e = .fuel := by
  rcases (ev2Derive_only segwit master change addr).h e h with rfl | rfl | rfl | rfl
  · exact Or.inl rfl
  · exact Or.inl rfl
  · exact Or.inl rfl
  · exact Or.inr rfl

/-- `ElectrumV2Standard/Segwit.GetAddress`: `ValueError` only -/
theorem electrum_v2_address (segwit : Bool) (nd : Node) (e : Err) (h : ev2Address segwit nd = .error e) :
    e = .value ∧ e.documented = true :=
  have hv := (ev2Address_only segwit nd).h e h
  ⟨hv, doc_value hv⟩

/-- `Brainwallet.Generate` → `Bip44.FromPrivateKey(digest)`: the key derivation of a valid digest
fails with `ValueError` only -/
theorem brainwallet_key (a : BrainAlgo) (pass : Bytes) (e : Err)
    (h : secpPubOfPriv (brainKey a pass) = .error e) : e = .value ∧ e.documented = true :=
  have hv := (secpPubOfPriv_only _).h e h
  ⟨hv, doc_value hv⟩

/-- `SplToken.FindPda(seeds, program_id)` with the argument checks and the address decoder:
`ValueError` only -/
theorem spl_find_pda (seeds : List Bytes) (prog : List Char) (e : Err)
    (h : findPda seeds prog = .error e) : e = .value ∧ e.documented = true :=
  have hv := (findPda_only seeds prog).h e h
  ⟨hv, doc_value hv⟩

/-- `SplToken.GetAssociatedTokenAddress(wallet, mint, token_program)`: `ValueError` only -/
theorem spl_associated_token_address (w m t : List Char) (e : Err)
    (h : associatedTokenAddress w m t = .error e) : e = .value ∧ e.documented = true :=
  have hv := (associatedTokenAddress_only w m t).h e h
  ⟨hv, doc_value hv⟩

/-! ## 7. Monero -/

/-- `Monero.FromBip44PrivateKey`: `MoneroKeyError` or `ValueError` -/
theorem monero_from_bip44_priv (k : Bytes) (e : Err) (h : xmrFromBip44Priv k = .error e) :
    (e = .key ∨ e = .value) ∧ e.documented = true :=
  have hv := (xmrFromBip44Priv_only k).h e h
  ⟨hv, doc_kv hv⟩

/-- `Monero.PrivateSpendKey()` on a watch-only object: `MoneroKeyError` -/
theorem monero_private_spend (w : XmrWallet) (e : Err) (h : xmrPrivateSpend w = .error e) :
    e = .key ∧ e.documented = true :=
  have hv := (xmrPrivateSpend_only w).h e h
  ⟨hv, doc_key hv⟩

/-- `Monero.PrimaryAddress()`: `ValueError` only -/
theorem monero_primary_address (w : XmrWallet) (nv : Bytes) (e : Err)
    (h : xmrPrimaryAddress w nv = .error e) : e = .value ∧ e.documented = true :=
  have hv := (xmrPrimaryAddress_only w nv).h e h
  ⟨hv, doc_value hv⟩

/-- `Monero.Subaddress(minor, major)`: `ValueError` only -/
theorem monero_subaddress (w : XmrWallet) (nv snv : Bytes) (minor major : Nat) (e : Err)
    (h : xmrSubaddress w nv snv minor major = .error e) : e = .value ∧ e.documented = true :=
  have hv := (xmrSubaddress_only w nv snv minor major).h e h
  ⟨hv, doc_value hv⟩

/-- `Monero.IntegratedAddress(payment_id)`: `ValueError` only -/
theorem monero_integrated_address (w : XmrWallet) (nv pid : Bytes) (e : Err)
    (h : xmrIntegratedAddress w nv pid = .error e) : e = .value ∧ e.documented = true :=
  have hv := (xmrIntegratedAddress_only w nv pid).h e h
  ⟨hv, doc_value hv⟩

/-! ## 8. Substrate (sr25519 answered by the request's oracle table) -/

/-- `Substrate.FromSeed`: `ValueError`, or the harness shipped no `sr_pair` answer -/
theorem substrate_from_seed (o : Oracle) (seed : Bytes) (e : Err) (h : subFromSeed o seed = .error e)
    (hm : e ≠ .oracleMiss) : e = .value ∧ e.documented = true := by
  rcases (subFromSeed_only o seed).h e h with hv | hv
  · exact ⟨hv, doc_value hv⟩
  · exact absurd hv hm

/-- `Substrate.FromPrivateKey`: `SubstrateKeyError`, or the harness shipped no `sr_pub` answer -/
theorem substrate_from_priv (o : Oracle) (priv : Bytes) (e : Err) (h : subFromPriv o priv = .error e)
    (hm : e ≠ .oracleMiss) : e = .key ∧ e.documented = true := by
  rcases (subFromPriv_only o priv).h e h with hv | hv
  · exact ⟨hv, doc_key hv⟩
  · exact absurd hv hm

/-- `Substrate.FromPublicKey`: `SubstrateKeyError` only -/
theorem substrate_from_pub (pub : Bytes) (e : Err) (h : subFromPub pub = .error e) :
    e = .key ∧ e.documented = true :=
  have hv := (subFromPub_only pub).h e h
  ⟨hv, doc_key hv⟩

/-- `Substrate.ChildKey(path_elem)`: `SubstratePathError`, `ValueError`, `SubstrateKeyError` (or an
unanswered oracle query) -/
theorem substrate_child_key (o : Oracle) (nd : SubNode) (el : SubElem) (e : Err)
    (h : subChildKey o nd el = .error e) (hm : e ≠ .oracleMiss) :
    (e = .path ∨ e = .value ∨ e = .key) ∧ e.documented = true := by
  rcases (subChildKey_only o nd el).h e h with rfl | rfl | rfl | hv
  · exact ⟨Or.inl rfl, rfl⟩
  · exact ⟨Or.inr (Or.inl rfl), rfl⟩
  · exact ⟨Or.inr (Or.inr rfl), rfl⟩
  · exact absurd hv hm

/-- `Substrate.DerivePath(path)` with a parsed path -/
theorem substrate_derive_path (o : Oracle) (nd : SubNode) (p : List SubElem) (e : Err)
    (h : subDerivePath o nd p = .error e) (hm : e ≠ .oracleMiss) :
    (e = .path ∨ e = .value ∨ e = .key) ∧ e.documented = true := by
  rcases (subDerivePath_only o nd p).h e h with rfl | rfl | rfl | hv
  · exact ⟨Or.inl rfl, rfl⟩
  · exact ⟨Or.inr (Or.inl rfl), rfl⟩
  · exact ⟨Or.inr (Or.inr rfl), rfl⟩
  · exact absurd hv hm

/-- `SubstratePublicKey.ToAddress()`: `ValueError` only -/
theorem substrate_address (fmt : Nat) (nd : SubNode) (e : Err) (h : subAddress fmt nd = .error e) :
    e = .value ∧ e.documented = true :=
  have hv := (subAddress_only fmt nd).h e h
  ⟨hv, doc_value hv⟩

/-! ## 9. mnemonic sentences -/

/-- `Bip39Mnemonic.FromString` (split / lower / NFKD): never a library error — the model's only
failure is a non-ASCII token the harness shipped no NFKD answer for -/
theorem bip39_sentence (o : List (List Char × List Char)) (s : List Char) (e : Err)
    (h : bip39Sentence o s = .error e) : e = .oracleMiss :=
  (bip39Sentence_only o s).h e h

/-- `Bip39Mnemonic.FromString` in C14 form: apart from the harness's oracle miss there is no error at all -/
theorem bip39_sentence_ascii (o : List (List Char × List Char)) (s : List Char) (e : Err)
    (h : bip39Sentence o s = .error e) (hm : e ≠ .oracleMiss) : e.documented = true :=
  absurd (bip39_sentence o s e h) hm

/-- `Bip39MnemonicDecoder.DecodeWithChecksum`: `ValueError` / `MnemonicChecksumError` only — the
`int.to_bytes` of the padded bit string cannot overflow -/
theorem bip39_decode_with_checksum (H : Bytes → Bytes) (hH : ∀ x, (H x).length = 32)
    (langs : List (List Nat)) (hlangs : ∀ L ∈ langs, L.length ≤ 2048) (lang : Option (List Nat))
    (hlang : ∀ L, lang = some L → L.length ≤ 2048) (ws : List Nat) (e : Err)
    (h : bip39DecodeWithChecksum H langs lang ws = .error e) :
    (e = .value ∨ e = .checksum) ∧ e.documented = true :=
  have hv := (bip39DecodeWithChecksum_only H hH langs hlangs lang hlang ws).h e h
  ⟨hv, doc_vc hv⟩

/-! ## 10. Cardano addresses and the Byron-legacy wallet -/

/-- `AdaShelleyAddrEncoder.EncodeKey`: `ValueError` only -/
theorem shelley_encode (hrp : List Char) (netTag : Nat) (pub stake : Bytes) (e : Err)
    (h : shelleyEncode hrp netTag pub stake = .error e) : e = .value ∧ e.documented = true :=
  have hv := (shelleyEncode_ov hrp netTag pub stake).h e h
  ⟨hv, doc_value hv⟩

/-- `AdaShelleyAddrDecoder.DecodeAddr`: `ValueError` only (the Bech32 checksum error is converted) -/
theorem shelley_decode (hrp : List Char) (netTag : Nat) (addr : List Char) (e : Err)
    (h : shelleyDecode hrp netTag addr = .error e) : e = .value ∧ e.documented = true :=
  have hv := (shelleyDecode_ov hrp netTag addr).h e h
  ⟨hv, doc_value hv⟩

/-- `AdaShelleyStakingAddrEncoder.EncodeKey`: `ValueError` only -/
theorem shelley_staking_encode (hrp : List Char) (netTag : Nat) (pub : Bytes) (e : Err)
    (h : shelleyStakingEncode hrp netTag pub = .error e) : e = .value ∧ e.documented = true :=
  have hv := (shelleyStakingEncode_ov hrp netTag pub).h e h
  ⟨hv, doc_value hv⟩

/-- `AdaShelleyStakingAddrDecoder.DecodeAddr`: `ValueError` only -/
theorem shelley_staking_decode (hrp : List Char) (netTag : Nat) (addr : List Char) (e : Err)
    (h : shelleyStakingDecode hrp netTag addr = .error e) : e = .value ∧ e.documented = true :=
  have hv := (shelleyStakingDecode_ov hrp netTag addr).h e h
  ⟨hv, doc_value hv⟩

/-- `AdaByronIcarusAddrEncoder.EncodeKey`: `ValueError` only -/
theorem byron_icarus_encode (pub cc : Bytes) (e : Err) (h : byronIcarusEncode pub cc = .error e) :
    e = .value ∧ e.documented = true :=
  have hv := (byronIcarusEncode_ov pub cc).h e h
  ⟨hv, doc_value hv⟩

/-- `AdaByronLegacyAddrEncoder.EncodeKey` with a `Bip32Path` (elements < 2⁶⁴; the class guarantees
< 2³²): `ValueError` only -/
theorem byron_legacy_encode (aead : Aead) (pub cc : Bytes) (path : List Nat)
    (hp : ∀ n ∈ path, n < 2 ^ 64) (hdKey : Option Bytes) (e : Err)
    (h : byronLegacyEncode aead pub cc path hdKey = .error e) : e = .value ∧ e.documented = true :=
  have hv := (byronLegacyEncode_ov aead pub cc path hp hdKey).h e h
  ⟨hv, doc_value hv⟩

/-- `AdaByronAddrDecoder.DecodeAddr`: every error the model itself decides is a `ValueError`;
`.oracleMiss` marks an input outside the modelled fragment of `cbor2.loads` (no verdict) -/
theorem byron_decode (addr : List Char) (e : Err) (h : byronDecode addr = .error e)
    (hm : e ≠ .oracleMiss) : e = .value ∧ e.documented = true := by
  rcases (byronDecode_only addr).h e h with hv | hv
  · exact ⟨hv, doc_value hv⟩
  · exact absurd hv hm

/-- `CardanoByronLegacy.GetAddress(first, second)`: `Bip32PathError`, `Bip32KeyError` or `ValueError` -/
theorem byron_legacy_address (aead : Aead) (master : Node) (first second : Nat) (e : Err)
    (h : byronLegacyAddress aead master first second = .error e) :
    (e = .path ∨ e = .key ∨ e = .value) ∧ e.documented = true :=
  have hv := (byronLegacyAddress_only aead master first second).h e h
  ⟨hv, doc_pkv hv⟩

/-- `CardanoByronLegacy.HdPathFromAddress(address)`: `ValueError` (Base58 / CBOR shape / CRC / AEAD tag /
array framing) or `Bip32PathError` (non-integer or out-of-range element); `.oracleMiss` as in `byron_decode` -/
theorem byron_recover_path (master : Node) (addr : List Char) (e : Err)
    (h : Driver.byronRecoverPath master addr = .error e) (hm : e ≠ .oracleMiss) :
    (e = .value ∨ e = .path) ∧ e.documented = true := by
  have h1 : Only (fun e => e = .value ∨ e = .path ∨ e = .oracleMiss) (byronDecode addr) :=
    (byronDecode_only addr).mono (fun _ h => h.elim Or.inl (fun h => Or.inr (Or.inr h)))
  have h2 : ∀ b, Only (fun e => e = .value ∨ e = .path ∨ e = .oracleMiss) (cborIndefDecode cborLoadsUint b) :=
    fun b => ⟨fun _ h => Or.inl (EscapeLemmas.cborIndefDecode_error cborLoadsUint
      (fun _ _ he => EscapeLemmas.cborLoadsUint_error he) h)⟩
  have : Only (fun e => e = .value ∨ e = .path ∨ e = .oracleMiss) (Driver.byronRecoverPath master addr) := by
    unfold Driver.byronRecoverPath
    only_auto [h1, h2]
    apply Only.mapM
    intro it
    cases it with
    | uint n => exact Only.pure _
    | other => exact Only.throw (Or.inr (Or.inl rfl))
  rcases this.h e h with hv | hv | hv
  · exact ⟨Or.inl hv, doc_value hv⟩
  · exact ⟨Or.inr hv, by subst hv; rfl⟩
  · exact absurd hv hm

/-! ## 11. point classes (`Driver/Ecc.lean`) -/

/-- `IPoint.FromBytes` of the six adapter classes (known curve name): `ValueError` only -/
theorem point_from_bytes (curve : String) (hc : (Driver.ptCurveW curve).isSome = true ∨ Driver.isEdName curve = true)
    (b : Bytes) (e : Err) (h : Driver.ptFromBytes curve b = .error e) :
    e = .value ∧ e.documented = true := by
  have : Only (fun e => e = .value) (Driver.ptFromBytes curve b) := by
    unfold Driver.ptFromBytes
    cases hw : Driver.ptCurveW curve with
    | some c =>
      dsimp only
      only_auto
    | none =>
      rw [hw] at hc
      have hed : Driver.isEdName curve = true := by
        rcases hc with hc | hc
        · cases hc
        · exact hc
      dsimp only
      rw [if_pos hed]
      only_auto
  have hv := this.h e h
  exact ⟨hv, doc_value hv⟩

/-- `IPoint.__mul__` / `__rmul__`: `ValueError` only (identity result / refused operand) -/
theorem point_mul (a : Driver.Pt) (k : Nat) (e : Err) (h : Driver.ptMul a k = .error e) :
    e = .value ∧ e.documented = true := by
  have : Only (fun e => e = .value) (Driver.ptMul a k) := by
    unfold Driver.ptMul
    only_auto
  have hv := this.h e h
  exact ⟨hv, doc_value hv⟩

/-- `IPoint.__add__`: `ValueError` for an identity sum; the model's `.type` arises only for operands of
two different curve families, which no driver operation (both operands are read with one curve name)
and no library call site produces -/
theorem point_add (a b : Driver.Pt) (e : Err) (h : Driver.ptAdd a b = .error e) :
    e = .value ∨ (e = .type ∧ ((∃ c p q, a = .w c p ∧ b = .ed q) ∨ (∃ c p q, a = .ed q ∧ b = .w c p))) := by
  cases a with
  | w c p =>
    cases b with
    | w c' q =>
      left
      have : Only (fun e => e = .value) (Driver.ptAdd (.w c p) (.w c' q)) := by
        unfold Driver.ptAdd
        only_auto
      exact this.h e h
    | ed q =>
      right
      unfold Driver.ptAdd at h
      cases h
      exact ⟨rfl, Or.inl ⟨c, p, q, rfl, rfl⟩⟩
  | ed p =>
    cases b with
    | w c' q =>
      right
      unfold Driver.ptAdd at h
      cases h
      exact ⟨rfl, Or.inr ⟨c', q, p, rfl, rfl⟩⟩
    | ed q =>
      unfold Driver.ptAdd at h
      cases h

end BipVerif.Props.C14More
