/-
C13 (WIF part) — Wallet Import Format for secp256k1 private keys: round trip in both modes,
canonicity, error kinds.  `H` is an arbitrary checksum hash with at least 4 output bytes.
Helper lemmas: `BipVerif/Lemmas/Wif.lean`.
-/
import BipVerif.Lemmas.Wif
import BipVerif.Prim.Sha256

namespace BipVerif.Props.C13Wif
open BipVerif BipVerif.Model

/-- the encoder refuses exactly the invalid keys, with `ValueError`. -/
theorem wif_encode_invalid (H : Bytes → Bytes) (k netVer : Bytes) (c : Bool)
    (hk : privValid .secp256k1 k = false) : wifEncode H k netVer c = .error .value := by
  unfold wifEncode; simp [hk, throw, throwThe, MonadExceptOf.throw]

theorem wif_encode_valid (H : Bytes → Bytes) (k netVer : Bytes) (c : Bool)
    (hk : privValid .secp256k1 k = true) :
    wifEncode H k netVer c
      = .ok (b58CheckEncode H btcAlphabet (netVer ++ k ++ (if c then [1] else []))) := by
  unfold wifEncode; simp [hk, pure, Except.pure]

theorem wif_encode_ok_iff (H : Bytes → Bytes) (k netVer : Bytes) (c : Bool) :
    (∃ s, wifEncode H k netVer c = .ok s) ↔ privValid .secp256k1 k = true := by
  cases hk : privValid .secp256k1 k
  · rw [wif_encode_invalid H k netVer c hk]; simp
  · rw [wif_encode_valid H k netVer c hk]; simp

/-- **WIF round trip**: decoding the encoding of a valid key returns the key and the mode,
for every version byte, compressed and uncompressed. -/
theorem wif_roundtrip (H : Bytes → Bytes) (hH : ∀ x, (H x).length ≥ 4) (k : Bytes)
    (hk : privValid .secp256k1 k = true) (v : UInt8) (c : Bool) :
    (wifEncode H k [v] c >>= fun s => wifDecode H s v) = .ok (k, c) := by
  have hlen := XK.privValid_secp_length k hk
  rw [wif_encode_valid H k [v] c hk]
  show wifDecode H _ v = _
  rw [XK.wifDecode_eq, XK.b58CheckDecode_btc_encode H hH]
  show XK.wifParse v (v :: (k ++ (if c then [1] else []))) = _
  rw [XK.wifParse_cons]
  cases c
  · have h31 : privValid .secp256k1 (dropLast (k ++ []) 1) = false := by
      apply XK.privValid_secp_of_length_ne
      unfold dropLast; simp [hlen]
    simp only [Bool.false_eq_true, if_false, ne_eq, not_true_eq_false, h31]
    rw [List.append_nil, if_pos hk]
  · simp only [if_true, ne_eq, not_true_eq_false, if_false, XK.dropLast_append_singleton, hk]
    rw [if_pos (by simp)]

/-- **error kinds** of the decoder: `ValueError` or the Base58 checksum error, nothing else. -/
theorem wif_decode_errors (H : Bytes → Bytes) (s : List Char) (v : UInt8) (e : Err)
    (h : wifDecode H s v = .error e) : e = .value ∨ e = .checksum := by
  rw [XK.wifDecode_eq] at h
  cases hdec : b58CheckDecode H btcAlphabet s with
  | error e' =>
    rw [hdec] at h
    have : e' = e := Except.error.inj h
    subst this
    exact XK.b58CheckDecode_error H btcAlphabet s e' hdec
  | ok dec =>
    rw [hdec] at h
    exact Or.inl (XK.wifParse_error v dec e h)

/-- checksum error ⇔ the string is Base58 but its last four bytes are not the hash prefix. -/
theorem wif_decode_checksum_iff (H : Bytes → Bytes) (s : List Char) (v : UInt8) :
    wifDecode H s v = .error .checksum ↔
      ∃ dec, b58Decode btcAlphabet s = .ok dec ∧ takeLast dec 4 ≠ (H (dropLast dec 4)).take 4 := by
  rw [← XK.b58CheckDecode_checksum_iff H, XK.wifDecode_eq]
  cases hdec : b58CheckDecode H btcAlphabet s with
  | error e' => simp [bind, Except.bind]
  | ok dec =>
    constructor
    · intro h; have := XK.wifParse_error v dec _ h; cases this
    · intro h; cases h

/-- what the decoder accepts: the payload is `v ‖ k` or `v ‖ k ‖ 01` with `k` a valid key. -/
theorem wif_decode_ok (H : Bytes → Bytes) (s : List Char) (v : UInt8) (k : Bytes) (c : Bool)
    (h : wifDecode H s v = .ok (k, c)) :
    privValid .secp256k1 k = true ∧
      b58CheckDecode H btcAlphabet s = .ok ([v] ++ k ++ (if c then [1] else [])) := by
  rw [XK.wifDecode_eq] at h
  cases hdec : b58CheckDecode H btcAlphabet s with
  | error e' => rw [hdec] at h; cases h
  | ok dec =>
    rw [hdec] at h
    replace h : XK.wifParse v dec = .ok (k, c) := h
    cases dec with
    | nil => cases h
    | cons v' rest =>
      rw [XK.wifParse_cons] at h
      by_cases hv : v' = v
      · subst hv
        rw [if_neg (by simp)] at h
        by_cases h1 : privValid .secp256k1 (dropLast rest 1) = true
        · rw [if_pos h1] at h
          by_cases h2 : rest.getLast? = some 1
          · rw [if_pos h2] at h
            cases h
            refine ⟨h1, ?_⟩
            simp only [if_true, List.cons_append, List.nil_append]
            rw [XK.dropLast_append_of_getLast? rest 1 h2]
          · rw [if_neg h2] at h; cases h
        · rw [if_neg h1] at h
          by_cases h2 : privValid .secp256k1 rest = true
          · rw [if_pos h2] at h
            cases h
            exact ⟨h2, by simp⟩
          · rw [if_neg h2] at h; cases h
      · rw [if_pos hv] at h; cases h

/-- **canonicity** (print ∘ parse = id): an accepted WIF string is exactly the encoding of
the key and mode it decodes to. -/
theorem wif_canon (H : Bytes → Bytes) (hH : ∀ x, (H x).length ≥ 4) (s : List Char) (v : UInt8)
    (k : Bytes) (c : Bool) (h : wifDecode H s v = .ok (k, c)) :
    wifEncode H k [v] c = .ok s := by
  obtain ⟨hk, hdec⟩ := wif_decode_ok H s v k c h
  rw [wif_encode_valid H k [v] c hk]
  have hb58 := (XK.b58CheckDecode_ok_iff H btcAlphabet hH s _).mp hdec
  exact congrArg Except.ok (XK.b58_encode_decode btcAlphabet XK.btcAlphabet_length s _ hb58)

/-! ### the library's instance: `H` = double SHA-256 -/

theorem sha256d_ge4 : ∀ x, (Prim.sha256d x).length ≥ 4 := by
  intro x; rw [Prim.sha256d_length]; omega

theorem wif_roundtrip_sha256d (k : Bytes) (hk : privValid .secp256k1 k = true) (v : UInt8) (c : Bool) :
    (wifEncode Prim.sha256d k [v] c >>= fun s => wifDecode Prim.sha256d s v) = .ok (k, c) :=
  wif_roundtrip Prim.sha256d sha256d_ge4 k hk v c

theorem wif_canon_sha256d (s : List Char) (v : UInt8) (k : Bytes) (c : Bool)
    (h : wifDecode Prim.sha256d s v = .ok (k, c)) : wifEncode Prim.sha256d k [v] c = .ok s :=
  wif_canon Prim.sha256d sha256d_ge4 s v k c h

end BipVerif.Props.C13Wif
