/-
C09 — "the published version byte / HRP / prefix of every format": the raw coin parameter table and the
protocol-valued public enumerations (Tezos prefixes, Stellar version bytes, Cardano network tags and
address types, Ergo network types, BIP-44 change and level numbers, mnemonic lengths) regenerated from
/repo on this run contain every pinned constant with its pinned value (a coin or member added later does not disturb the statement).  The address models read their parameters from the
regenerated table, so together with the round-trip theorems of `C09` this fixes the constants every
encoder writes and every decoder demands.
-/
import BipVerif.Gen.Consts
import BipVerif.Golden.Consts

namespace BipVerif.Props.C09Tables
open BipVerif

set_option synthInstance.maxSize 2000 in
/-- every raw coin parameter (HRPs, net version bytes, prefixes, SS58 formats, coin names) is the registered one -/
theorem coins_conf_registered : ∀ g ∈ Golden.coinsConf, g ∈ Gen.coinsConf := by decide +kernel

set_option synthInstance.maxSize 2000 in
/-- every protocol-valued enumeration member has its registered value -/
theorem proto_enums_registered : ∀ g ∈ Golden.protoEnums, g ∈ Gen.protoEnums := by decide +kernel

/-- the pinned tables are not empty -/
theorem registry_nonempty : Golden.coinsConf ≠ [] ∧ Golden.protoEnums ≠ [] := by decide

end BipVerif.Props.C09Tables
