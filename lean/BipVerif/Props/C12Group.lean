/-
C12 — the group-law half: the executable short-Weierstrass arithmetic of `Prim/Weierstrass.lean`
(the code the model driver runs and that is compared with coincurve / python-ecdsa on every run)
**is** the elliptic-curve group law of Mathlib (`WeierstrassCurve.Affine.Point`, an `AddCommGroup`)
on secp256k1 and NIST P-256: affine addition, Jacobian double-and-add scalar multiplication,
`k ↦ k·G`, the order of `G`, and SEC1 compression followed by decoding.  Primality of the four
256-bit constants is proved by Pratt certificates (`Lemmas/Pratt.lean`), `n·G = ∞` by kernel
evaluation.  No hypothesis about the curve arithmetic remains for these two curves.
Proofs in `BipVerif/Lemmas/WGroup/*`.
-/
import BipVerif.Lemmas.WGroup

namespace BipVerif.Props.C12Group
open BipVerif BipVerif.Prim BipVerif.Model BipVerif.WGroup

/-! ### 0. the constants are what the standards say they are: primes -/

theorem secp256k1_p_prime : Nat.Prime secp256k1.p := Pratt.secp256k1_p_prime
theorem secp256k1_n_prime : Nat.Prime secp256k1.n := Pratt.secp256k1_n_prime
theorem nist256p1_p_prime : Nat.Prime nist256p1.p := Pratt.nist256p1_p_prime
theorem nist256p1_n_prime : Nat.Prime nist256p1.n := Pratt.nist256p1_n_prime
theorem p25519_prime : Nat.Prime p25519 := Pratt.p25519_prime

/-- the binary square-and-multiply of `Prim/Modular.lean` is modular exponentiation -/
theorem powMod_spec (b e m : ℕ) : powMod b e m ≡ b ^ e [MOD m] := Pratt.powMod_modEq b e m

/-- the Fermat inverse is the field inverse (`0 ↦ 0`) -/
theorem invMod_spec {p : ℕ} [Fact p.Prime] (hp2 : 2 < p) (a : ℕ) :
    ((invMod a p : ℕ) : ZMod p) = (a : ZMod p)⁻¹ := cast_invMod hp2 a

/-! ### 1. point addition and scalar multiplication equal reference group arithmetic
(`c` any curve with prime `p > 2` and non-zero discriminant; `toM` maps on-curve model points
injectively into Mathlib's group) -/

theorem toM_injective {c : WCurve} [Valid c] {P Q : WPoint} (hP : c.onCurve P = true)
    (hQ : c.onCurve Q = true) (h : toM (c := c) P = toM Q) : P = Q := toM_injOn hP hQ h

/-- `WCurve.add` stays on the curve and is Mathlib's `+` -/
theorem add_is_group_add {c : WCurve} [Valid c] {P Q : WPoint} (hP : c.onCurve P = true)
    (hQ : c.onCurve Q = true) :
    c.onCurve (c.add P Q) = true ∧ toM (c := c) (c.add P Q) = toM P + toM Q :=
  add_correct hP hQ

/-- the Jacobian double-and-add `WCurve.mul` stays on the curve and is `k • ·`, for every `k : ℕ` -/
theorem mul_is_nsmul {c : WCurve} [Valid c] (k : ℕ) {P : WPoint} (hP : c.onCurve P = true) :
    c.onCurve (c.mul k P) = true ∧ toM (c := c) (c.mul k P) = k • toM P :=
  mul_correct k hP

/-- the public point of the scalar `k` is `k·G` -/
theorem mulG_is_nsmul_G {c : WCurve} [Valid c] (k : ℕ) (hG : c.onCurve c.G = true) :
    toM (c := c) (c.mulG k) = k • toM c.G := toM_mulG k hG

/-- consequently the model's operations satisfy the group laws themselves -/
theorem add_comm' {c : WCurve} [Valid c] {P Q : WPoint} (hP : c.onCurve P = true)
    (hQ : c.onCurve Q = true) : c.add P Q = c.add Q P :=
  toM_injOn (onCurve_add hP hQ) (onCurve_add hQ hP) (by rw [toM_add hP hQ, toM_add hQ hP, add_comm])

theorem add_assoc' {c : WCurve} [Valid c] {P Q R : WPoint} (hP : c.onCurve P = true)
    (hQ : c.onCurve Q = true) (hR : c.onCurve R = true) :
    c.add (c.add P Q) R = c.add P (c.add Q R) :=
  toM_injOn (onCurve_add (onCurve_add hP hQ) hR) (onCurve_add hP (onCurve_add hQ hR))
    (by rw [toM_add (onCurve_add hP hQ) hR, toM_add hP hQ, toM_add hP (onCurve_add hQ hR),
          toM_add hQ hR, add_assoc])

/-- scalar multiplication distributes over scalar addition: `(a+b)·P = a·P + b·P` -/
theorem mul_add_scalar {c : WCurve} [Valid c] (a b : ℕ) {P : WPoint} (hP : c.onCurve P = true) :
    c.mul (a + b) P = c.add (c.mul a P) (c.mul b P) :=
  toM_injOn (onCurve_mul (a + b) hP) (onCurve_add (onCurve_mul a hP) (onCurve_mul b hP))
    (by rw [toM_mul (a + b) hP, toM_add (onCurve_mul a hP) (onCurve_mul b hP), toM_mul a hP,
          toM_mul b hP, add_nsmul])

/-- `a·(b·P) = (a·b)·P` -/
theorem mul_mul_scalar {c : WCurve} [Valid c] (a b : ℕ) {P : WPoint} (hP : c.onCurve P = true) :
    c.mul a (c.mul b P) = c.mul (a * b) P :=
  toM_injOn (onCurve_mul a (onCurve_mul b hP)) (onCurve_mul (a * b) hP)
    (by rw [toM_mul a (onCurve_mul b hP), toM_mul b hP, toM_mul (a * b) hP, mul_comm a b, mul_nsmul])

/-! ### 2. the two concrete curves -/

theorem secp256k1_valid : Valid secp256k1 := inferInstance
theorem nist256p1_valid : Valid nist256p1 := inferInstance

theorem secp256k1_G_onCurve : secp256k1.onCurve secp256k1.G = true := WGroup.secp256k1_G_onCurve
theorem nist256p1_G_onCurve : nist256p1.onCurve nist256p1.G = true := WGroup.nist256p1_G_onCurve

/-- `G` generates a group of order exactly `n`: `k·G = ∞ ↔ n ∣ k` -/
theorem secp256k1_order (k : ℕ) : k • secp256k1G = 0 ↔ secp256k1.n ∣ k := secp256k1_hasOrder k
theorem nist256p1_order (k : ℕ) : k • nist256p1G = 0 ↔ nist256p1.n ∣ k := nist256p1_hasOrder k

/-- in terms of the executable model only: `k·G` is the point at infinity exactly for multiples of `n` -/
theorem secp256k1_mulG_inf_iff (k : ℕ) : secp256k1.mulG k = .inf ↔ secp256k1.n ∣ k := by
  rw [← secp256k1_hasOrder k, secp256k1G, ← toM_mulG k WGroup.secp256k1_G_onCurve,
    toM_eq_zero_iff (onCurve_mulG k WGroup.secp256k1_G_onCurve)]

theorem nist256p1_mulG_inf_iff (k : ℕ) : nist256p1.mulG k = .inf ↔ nist256p1.n ∣ k := by
  rw [← nist256p1_hasOrder k, nist256p1G, ← toM_mulG k WGroup.nist256p1_G_onCurve,
    toM_eq_zero_iff (onCurve_mulG k WGroup.nist256p1_G_onCurve)]

/-- every valid private key has a public key (never the point at infinity) -/
theorem secp256k1_pub_exists (k : Bytes) (hv : privValid .secp256k1 k = true) :
    ∃ P, pubOfPriv .secp256k1 k = some P := by
  have h := (EccLemmas.priv_valid_iff_secp256k1 k).mp hv
  cases hp : pubOfPriv .secp256k1 k with
  | some P => exact ⟨P, rfl⟩
  | none =>
    exfalso
    have h1 : secp256k1.compress (secp256k1.mulG (Bytes.toNatBE k)) = none := hp
    rw [compress_eq_none_iff, secp256k1_mulG_inf_iff] at h1
    exact absurd (Nat.le_of_dvd h.2.1 h1) (Nat.not_le.mpr h.2.2)

/-! ### 3. encodings round-trip to the same point -/

/-- SEC1: decoding the compressed encoding of an on-curve point returns that point (`p ≡ 3 mod 4`;
correctness of the square root `a^((p+1)/4)` and of the parity selection) -/
theorem decode_compress {c : WCurve} [Valid c] (h34 : c.p % 4 = 3) {Q : WPoint} {P : Bytes}
    (hQ : c.onCurve Q = true) (h : c.compress Q = some P) : c.decode P = some Q :=
  decode_of_compress h34 hQ h

/-- the public key of a valid private key is accepted by the public-key class as it is -/
theorem secp256k1_pub_canonical (k : Bytes) (P : Bytes) (hv : privValid .secp256k1 k = true)
    (h : pubOfPriv .secp256k1 k = some P) : pubFromBytes .secp256k1 P = some P :=
  ecdsaLaw_secp256k1.pub_canon k P hv h

theorem nist256p1_pub_canonical (k : Bytes) (P : Bytes) (hv : privValid .nist256p1 k = true)
    (h : pubOfPriv .nist256p1 k = some P) : pubFromBytes .nist256p1 P = some P :=
  ecdsaLaw_nist256p1.pub_canon k P hv h

/-! ### 4. the key layer of the model is a faithful encoding of the group — no hypothesis left -/

theorem groupModel_secp256k1 :
    GroupModel.EcdsaGroupModel .secp256k1 secp256k1G (enc secp256k1) := ecdsaGroupModel_secp256k1
theorem groupModel_nist256p1 :
    GroupModel.EcdsaGroupModel .nist256p1 nist256p1G (enc nist256p1) := ecdsaGroupModel_nist256p1

theorem ecdsaLaw_secp256k1 : EcdsaLaw .secp256k1 := WGroup.ecdsaLaw_secp256k1
theorem ecdsaLaw_nist256p1 : EcdsaLaw .nist256p1 := WGroup.ecdsaLaw_nist256p1
theorem ecdsaInfLaw_secp256k1 : EcdsaInfLaw .secp256k1 := WGroup.ecdsaInfLaw_secp256k1
theorem ecdsaInfLaw_nist256p1 : EcdsaInfLaw .nist256p1 := WGroup.ecdsaInfLaw_nist256p1

/-- non-vacuity: the generator itself, `1·G = G`, and `2·G = G + G` computed by the kernel -/
example : secp256k1.mulG 1 = secp256k1.G := by decide +kernel
example : secp256k1.mulG 2 = secp256k1.add secp256k1.G secp256k1.G := by decide +kernel
example : nist256p1.mulG 2 = nist256p1.add nist256p1.G nist256p1.G := by decide +kernel

end BipVerif.Props.C12Group
