import BipVerif.Model.Base58
namespace BipVerif.Props.C11
theorem placeholder : True := trivial
end BipVerif.Props.C11
