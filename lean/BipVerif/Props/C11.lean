/-
C11 — binary-to-text and wire codecs are exact inverses on their whole domain.
Property theorems only; the proofs live in `BipVerif/Lemmas/*`.
-/
import BipVerif.Lemmas.Base58
import BipVerif.Lemmas.ConvertBits
import BipVerif.Lemmas.IntBytes
import BipVerif.Lemmas.Base58Check
import BipVerif.Lemmas.Base58Xmr
import BipVerif.Lemmas.SS58
import BipVerif.Lemmas.Scale
import BipVerif.Lemmas.Base32

namespace BipVerif.Props.C11
open BipVerif BipVerif.Model

/-- Base58, any 58-symbol alphabet without repetitions (Bitcoin and Ripple below):
`decode (encode b) = b` for every byte string, including empty and leading-zero ones. -/
theorem base58_decode_encode (alph : List Char) (hn : alph.Nodup) (hl : alph.length = 58) (b : Bytes) :
    b58Decode alph (b58Encode alph b) = .ok b :=
  b58_decode_encode alph hn hl b

theorem base58_btc_decode_encode (b : Bytes) : b58Decode btcAlphabet (b58Encode btcAlphabet b) = .ok b :=
  b58_decode_encode btcAlphabet (by decide) (by decide) b

theorem base58_xrp_decode_encode (b : Bytes) : b58Decode xrpAlphabet (b58Encode xrpAlphabet b) = .ok b :=
  b58_decode_encode xrpAlphabet (by decide) (by decide) b

/-- Bech32 8→5→8 bit regrouping is the identity on every byte string. -/
theorem bech32_regroup_roundtrip (b : Bytes) :
    (toBase32 (bytesToNats b) >>= fromBase32) = .ok (bytesToNats b) :=
  convertBits_8_5_8 b

/-- `ConvertBits` with padding *is* MSB-first bit regrouping (the standard definition). -/
theorem convertBits_is_regroup (f t : Nat) (ht : 0 < t) (data : List Nat) (h : ∀ v ∈ data, v < 2 ^ f) :
    convertBits data f t true = some (regroup f t data) :=
  convertBits_pad f t ht data h

/-- without padding it succeeds exactly when the leftover bits are fewer than `f` and all zero. -/
theorem convertBits_nopad_strict (f t : Nat) (ht : 0 < t) (data : List Nat) (h : ∀ v ∈ data, v < 2 ^ f) :
    convertBits data f t false =
      if (f * data.length) % t ≥ f ∨ ∃ b ∈ chunkRem t (symbolBits f data), b = true then none
      else some ((fullChunks t (symbolBits f data)).map ofBitsBE) :=
  convertBits_nopad f t ht data h

/-- the encoded text *is* the standard encoding: Base58 has no second spelling of a byte string —
every accepted string is the encoding of its decoding (so `encode` is the unique standard form). -/
theorem base58_encode_decode (alph : List Char) (hn : alph.Nodup) (hl : alph.length = 58) (s : List Char)
    (b : Bytes) (h : b58Decode alph s = .ok b) : b58Encode alph b = s :=
  b58_encode_decode alph hn hl s b h

/-- Base58Check, any checksum hash of at least 4 bytes (double SHA-256 in the library). -/
theorem base58check_decode_encode (H : Bytes → Bytes) (hH : ∀ x, 4 ≤ (H x).length) (data : Bytes) :
    b58CheckDecode H btcAlphabet (b58CheckEncode H btcAlphabet data) = .ok data :=
  b58Check_decode_encode H hH btcAlphabet btcAlphabet_nodup btcAlphabet_length data

/-- Monero block Base58, every length (all last-block sizes). -/
theorem xmr_base58_decode_encode (b : Bytes) : xmrDecode (xmrEncode b) = .ok b := xmr_decode_encode b

/-- Base32 with padding, without padding, and with any duplicate-free 32-symbol custom alphabet
that does not contain the padding character. -/
theorem base32_roundtrip (b : Bytes) : base32Decode (base32Encode b none) none = .ok b :=
  base32_decode_encode b
theorem base32_nopad_roundtrip (b : Bytes) : base32Decode (base32EncodeNoPad b none) none = .ok b :=
  base32_decode_encodeNoPad b
theorem base32_custom_roundtrip (b : Bytes) (a : List Char) (ha : Base32AlphabetOk a) :
    base32Decode (base32Encode b (some a)) (some a) = .ok b :=
  base32_decode_encode_custom b a ha
theorem base32_custom_nopad_roundtrip (b : Bytes) (a : List Char) (ha : Base32AlphabetOk a) :
    base32Decode (base32EncodeNoPad b (some a)) (some a) = .ok b :=
  base32_decode_encodeNoPad_custom b a ha

/-- hex and the integer/byte helpers -/
theorem hex_roundtrip (b : Bytes) : Bytes.ofHex (Bytes.toHex b) = some b := ofHex_toHex b
theorem toBytes_fromBytes_be (b : Bytes) : toBytesBE (Bytes.toNatBE b) b.length = .ok b := toBytesBE_of_toNatBE b
theorem toBytes_fromBytes_le (b : Bytes) : toBytesLE (Bytes.toNatLE b) b.length = .ok b := toBytesLE_of_toNatLE b
theorem fromBytes_toBytes_be {v n : Nat} {b : Bytes} (h : toBytesBE v n = .ok b) : Bytes.toNatBE b = v ∧ b.length = n :=
  toBytesBE_toNatBE h
theorem toBytes_overflow_iff (v n : Nat) : toBytesBE v n = .error .overflow ↔ 256 ^ n ≤ v := toBytesBE_error_iff v n
theorem binStr_roundtrip (v pad : Nat) : ofBinStr (toBinStr v pad) = v := ofBinStr_toBinStr v pad

/-- SS58: every format 0..16383 except the reserved 46/47, every 32-byte payload. -/
theorem ss58_roundtrip (H : Bytes → Bytes) (hH : ∀ x, 2 ≤ (H x).length) (data : Bytes) (fmt : Nat)
    (hd : data.length = 32) (hf : fmt ≤ 16383) (h46 : fmt ≠ 46) (h47 : fmt ≠ 47) :
    (ss58Encode H data fmt >>= ss58Decode H) = .ok (fmt, data) :=
  ss58_decode_encode H hH data fmt hd hf h46 h47

/-- SCALE compact integers against the specification decoder, whole range `[0, 2^536)`. -/
theorem scale_compact_roundtrip {v : Nat} (h : v < 2 ^ 536) :
    ∃ b, scaleCompact v = .ok b ∧ scaleCompactDecode b = some (v, b.length) := scaleCompact_roundtrip h
theorem scale_compact_out_of_range {v : Nat} (h : 2 ^ 536 ≤ v) : scaleCompact v = .error .value := scaleCompact_error h
theorem scale_uint_roundtrip {v n : Nat} (h : v < 256 ^ n) :
    ∃ b, scaleUint v n = .ok b ∧ b.length = n ∧ Bytes.toNatLE b = v := scaleUint_roundtrip h

/-- CBOR indefinite-length arrays of unsigned integers below 2^64 (non-empty: the library's decoder
refuses the 2-byte encoding `9f ff` of the empty list, see `cbor_empty_not_roundtrip`). -/
theorem cbor_indef_roundtrip {l : List Nat} (hne : l ≠ []) (h : ∀ n ∈ l, n < 2 ^ 64) :
    (cborIndefEncode l >>= cborIndefDecode cborLoadsUint) = .ok (l.map .uint) := cborIndef_roundtrip hne h
theorem cbor_empty_not_roundtrip : (cborIndefEncode [] >>= cborIndefDecode cborLoadsUint) = .error .value :=
  cborIndef_empty

/-- non-vacuity: the hypotheses are met by a concrete non-trivial input. -/
example : b58Decode btcAlphabet (b58Encode btcAlphabet [0, 0, 1, 2, 255]) = .ok [0, 0, 1, 2, 255] := by
  decide +kernel

end BipVerif.Props.C11
