import BipVerif.Model.Memo
namespace BipVerif.Props.C15
theorem placeholder : True := trivial
end BipVerif.Props.C15
