/-
C15 — memoisation (`functools.lru_cache`) and lazy singletons are transparent.

* sequential: a memoised method on an object whose state is only mutated in ways the body does not
  observe is indistinguishable from the method that always recomputes; a single observable mutation
  is enough to tell them apart (the shape of the stale-cache defects);
* concurrent: under every interleaving of the atomic `lookup / compute / store` steps every finished
  call returns the reference value of the argument it was called with;
* table: every `lru_cache` method of the package (generated list) reads no mutable attribute, up to
  two justified entries.
-/
import BipVerif.Lemmas.Memo
import BipVerif.Gen.Caches

namespace BipVerif.Props.C15
open BipVerif.Model.Memo

variable {St Arg Out : Type} [DecidableEq Arg]

/-! ### 1–4: the sequential machine -/

/-- **Transparency.**  Starting from the empty cache, on a history all of whose mutations leave the
method's result unchanged, the memoising machine returns exactly what the always-computing
reference machine returns, call by call. -/
theorem memo_transparent (m : Method St Arg Out) (st : St) (h : List (Op St Arg)) :
    HistoryIndependent m h → runMemo m ⟨st, []⟩ h = runPure m st h :=
  runMemo_eq_runPure m h ⟨st, []⟩ (cacheOk_empty m st)

/-- transparency from any cache that is consistent with the current state -/
theorem memo_transparent_from (m : Method St Arg Out) (s : MState St Arg Out)
    (h : List (Op St Arg)) (hs : ∀ a o, (a, o) ∈ s.cache → o = m.pureOut s.st a) :
    HistoryIndependent m h → runMemo m s h = runPure m s.st h :=
  runMemo_eq_runPure m h s hs

/-- **Stale-cache witness.**  If a mutation changes the result at some argument, then
"call, mutate, call again" tells the memoising machine from the reference machine. -/
theorem memo_stale_witness (m : Method St Arg Out) (st : St) (f : St → St) (a : Arg)
    (hne : m.pureOut (f st) a ≠ m.pureOut st a) :
    runMemo m ⟨st, []⟩ [.call a, .mutate f, .call a]
      ≠ runPure m st [.call a, .mutate f, .call a] := by
  rw [runMemo_stale, runPure_stale]
  intro h
  injection h with _ h
  injection h with _ h
  injection h with h _
  injection h with h
  exact hne h.symm

/-- what the memoising machine answers on the witness history: the *old* value, twice -/
theorem memo_stale_value (m : Method St Arg Out) (st : St) (f : St → St) (a : Arg) :
    runMemo m ⟨st, []⟩ [.call a, .mutate f, .call a]
      = [some (m.pureOut st a), none, some (m.pureOut st a)] :=
  runMemo_stale m st f a

/-- **Characterisation.**  For a set `F` of available mutations: every mutation of `F` is invisible
to the body iff the memoising machine is transparent on every history built from `F`
(from every initial state). -/
theorem memo_transparent_iff (m : Method St Arg Out) (F : (St → St) → Prop) :
    (∀ f, F f → Independent m f) ↔
      ∀ (st : St) (h : List (Op St Arg)), BuiltFrom F h → runMemo m ⟨st, []⟩ h = runPure m st h := by
  constructor
  · intro hF st h hb
    exact memo_transparent m st h (historyIndependent_of_builtFrom m F hF h hb)
  · intro hT f hf st a
    have hb : BuiltFrom F ([.call a, .mutate f, .call a] : List (Op St Arg)) := by
      intro g hg
      simp only [List.mem_cons, List.not_mem_nil, or_false, reduceCtorEq, false_or] at hg
      cases hg; exact hf
    have h := hT st _ hb
    rw [runMemo_stale, runPure_stale] at h
    injection h with _ h
    injection h with _ h
    injection h with h _
    injection h with h
    exact h.symm

/-- **Idempotence.**  A second call with the same argument returns the same answer and leaves the
machine state (in particular the cache) exactly as the first call left it — whatever the cache was. -/
theorem memo_call_idempotent (m : Method St Arg Out) (s : MState St Arg Out) (a : Arg) :
    stepMemo m (stepMemo m s (.call a)).1 (.call a)
      = ((stepMemo m s (.call a)).1, (stepMemo m s (.call a)).2) := by
  cases hl : s.cache.lookup a with
  | some o =>
    rw [stepMemo_call_hit m s hl]
    exact stepMemo_call_hit m s hl
  | none =>
    rw [stepMemo_call_miss m s hl]
    exact stepMemo_call_hit m _ (lookup_cons_self a _ s.cache)

/-- the same as a two-call run: equal answers, and the cache does not grow the second time -/
theorem memo_call_twice (m : Method St Arg Out) (s : MState St Arg Out) (a : Arg) :
    ∃ o, runMemo m s [.call a, .call a] = [some o, some o] ∧
      (stepMemo m (stepMemo m s (.call a)).1 (.call a)).1.cache.length
        = (stepMemo m s (.call a)).1.cache.length := by
  have h2 := memo_call_idempotent m s a
  cases hl : s.cache.lookup a with
  | some o =>
    refine ⟨o, ?_, by rw [h2]⟩
    show [(stepMemo m s (.call a)).2, (stepMemo m (stepMemo m s (.call a)).1 (.call a)).2] = _
    rw [h2, stepMemo_call_hit m s hl]
  | none =>
    refine ⟨m.pureOut s.st a, ?_, by rw [h2]⟩
    show [(stepMemo m s (.call a)).2, (stepMemo m (stepMemo m s (.call a)).1 (.call a)).2] = _
    rw [h2, stepMemo_call_miss m s hl]

/-! ### 4b: hand-rolled memos keyed by only PART of the argument

`self.m_wif = ...` (one slot, whatever `pub_key_mode` is), `self.m_addrs[index] = ...` (keyed by
`index`, whatever `change` is): the cache is indexed by `key a`, not by `a`.  The static analysis
reports the arguments the key ignores; these theorems say what that report means: the memo is
transparent exactly when the result is a function of the key (`KeyRespects`), and otherwise two
calls that differ only in an ignored argument tell it from the reference. -/

section Keyed

omit [DecidableEq Arg]
variable {K : Type} [DecidableEq K]

/-- **Transparency of a keyed memo.**  If the result is a function of the key, then from the empty
cache, on a history whose mutations the body does not observe, the keyed machine answers exactly
like the always-computing reference machine. -/
theorem keyed_transparent (m : KMethod St Arg K Out) (st : St) (h : List (Op St Arg))
    (hk : KeyRespects m) :
    HistoryIndependent (⟨m.pureOut⟩ : Method St Arg Out) h →
      runKeyed m ⟨st, []⟩ h = runPure ⟨m.pureOut⟩ st h :=
  runKeyed_eq_runPure m hk h ⟨st, []⟩ (kcacheOk_empty m st)

/-- the same from any cache in which every stored `(k, o)` is the current result of every argument
with key `k` -/
theorem keyed_transparent_from (m : KMethod St Arg K Out) (s : KState St K Out)
    (h : List (Op St Arg)) (hk : KeyRespects m)
    (hs : ∀ k o, (k, o) ∈ s.cache → ∀ a, m.key a = k → o = m.pureOut s.st a) :
    HistoryIndependent (⟨m.pureOut⟩ : Method St Arg Out) h →
      runKeyed m s h = runPure ⟨m.pureOut⟩ s.st h :=
  runKeyed_eq_runPure m hk h s hs

/-- what the keyed machine answers on two calls whose arguments share a key: the value of the FIRST
argument, twice -/
theorem keyed_stale_value (m : KMethod St Arg K Out) (st : St) (a b : Arg)
    (hab : m.key a = m.key b) :
    runKeyed m ⟨st, []⟩ [.call a, .call b] = [some (m.pureOut st a), some (m.pureOut st a)] :=
  runKeyed_collide m st hab

/-- **Stale-answer witness.**  Two arguments with the same key and different results: calling the
method on one and then on the other tells the keyed machine from the reference machine — no
mutation needed. -/
theorem keyed_stale_witness (m : KMethod St Arg K Out) (st : St) (a b : Arg)
    (hab : m.key a = m.key b) (hne : m.pureOut st a ≠ m.pureOut st b) :
    runKeyed m ⟨st, []⟩ [.call a, .call b] ≠ runPure ⟨m.pureOut⟩ st [.call a, .call b] := by
  rw [runKeyed_collide m st hab]
  intro h
  have h' := h.trans (runPure_two_calls m st a b)
  injection h' with _ h'
  injection h' with h' _
  injection h' with h'
  exact hne h'

/-- conversely: if the two machines agree on `[call a, call b]` and the keys collide, the results
are equal -/
theorem keyed_agree_imp_eq (m : KMethod St Arg K Out) (st : St) (a b : Arg)
    (hab : m.key a = m.key b)
    (h : runKeyed m ⟨st, []⟩ [.call a, .call b] = runPure ⟨m.pureOut⟩ st [.call a, .call b]) :
    m.pureOut st a = m.pureOut st b := by
  rw [runKeyed_collide m st hab] at h
  have h' := h.trans (runPure_two_calls m st a b)
  injection h' with _ h'
  injection h' with h' _
  injection h' with h'

/-- **Characterisation (no mutation at all).**  The result is a function of the key iff the keyed
machine is transparent on every sequence of calls from every state. -/
theorem keyed_transparent_iff (m : KMethod St Arg K Out) :
    KeyRespects m ↔
      ∀ (st : St) (as : List Arg),
        runKeyed m ⟨st, []⟩ (as.map Op.call) = runPure ⟨m.pureOut⟩ st (as.map Op.call) := by
  constructor
  · intro hk st as
    exact keyed_transparent m st _ hk (historyIndependent_map_call _ as)
  · intro hT st a b hab
    exact keyed_agree_imp_eq m st a b hab (hT st [a, b])

/-- **Characterisation with mutations.**  For a set `F` of available mutations: (the result is a
function of the key AND every mutation of `F` is invisible to the body) iff the keyed machine is
transparent on every history built from `F`.  This is `memo_transparent_iff` plus the key clause. -/
theorem keyed_transparent_iff_builtFrom (m : KMethod St Arg K Out) (F : (St → St) → Prop) :
    (KeyRespects m ∧ ∀ f, F f → Independent (⟨m.pureOut⟩ : Method St Arg Out) f) ↔
      ∀ (st : St) (h : List (Op St Arg)), BuiltFrom F h →
        runKeyed m ⟨st, []⟩ h = runPure ⟨m.pureOut⟩ st h := by
  constructor
  · rintro ⟨hk, hF⟩ st h hb
    exact keyed_transparent m st h hk (historyIndependent_of_builtFrom _ F hF h hb)
  · intro hT
    refine ⟨fun st a b hab => ?_, fun f hf st a => ?_⟩
    · have hb : BuiltFrom F ([.call a, .call b] : List (Op St Arg)) := by
        intro g hg
        simp only [List.mem_cons, List.not_mem_nil, or_false, reduceCtorEq] at hg
      exact keyed_agree_imp_eq m st a b hab (hT st _ hb)
    · have hb : BuiltFrom F ([.call a, .mutate f, .call a] : List (Op St Arg)) := by
        intro g hg
        simp only [List.mem_cons, List.not_mem_nil, or_false, reduceCtorEq, false_or] at hg
        cases hg; exact hf
      have h := hT st _ hb
      rw [runKeyed_stale] at h
      have h' := h.trans (runPure_stale ⟨m.pureOut⟩ st f a)
      injection h' with _ h'
      injection h' with _ h'
      injection h' with h' _
      injection h' with h'
      exact h'.symm

/-- **(a) `key := id` is the whole-argument machine** of sections 1–4, on every history and from
every cache. -/
theorem keyed_id_eq_memo [DecidableEq Arg] (f : St → Arg → Out) (st : St) (c : List (Arg × Out))
    (h : List (Op St Arg)) :
    runKeyed (⟨f, id⟩ : KMethod St Arg Arg Out) ⟨st, c⟩ h = runMemo ⟨f⟩ ⟨st, c⟩ h :=
  runKeyed_id_eq_runMemo f h st c

/-- `key := id` always respects the key: `keyed_transparent` then specialises to `memo_transparent` -/
theorem keyRespects_id (f : St → Arg → Out) : KeyRespects (⟨f, id⟩ : KMethod St Arg Arg Out) := by
  intro st a b hab
  cases (show a = b from hab)
  rfl

/-- **(b) The single-slot memo** (`if self.m_x is None: self.m_x = f(arg)`; `K := Unit`) is
transparent iff the result does not depend on the argument. -/
theorem single_slot_transparent_iff (f : St → Arg → Out) :
    (∀ st a b, f st a = f st b) ↔
      ∀ (st : St) (as : List Arg),
        runKeyed (⟨f, fun _ => ()⟩ : KMethod St Arg Unit Out) ⟨st, []⟩ (as.map Op.call)
          = runPure ⟨f⟩ st (as.map Op.call) := by
  rw [← keyed_transparent_iff]
  exact ⟨fun h st a b _ => h st a b, fun h st a b => h st a b rfl⟩

/-- **The report of the static analysis.**  The argument is a pair (kept part, ignored part) and the
key is the kept part: the memo is transparent iff the result does not depend on the ignored part. -/
theorem ignored_part_transparent_iff {A B : Type} [DecidableEq A] (f : St → A × B → Out) :
    (∀ st x y y', f st (x, y) = f st (x, y')) ↔
      ∀ (st : St) (as : List (A × B)),
        runKeyed (⟨f, Prod.fst⟩ : KMethod St (A × B) A Out) ⟨st, []⟩ (as.map Op.call)
          = runPure ⟨f⟩ st (as.map Op.call) := by
  rw [← keyed_transparent_iff]
  constructor
  · rintro h st ⟨x, y⟩ ⟨x', y'⟩ hxy
    cases (show x = x' from hxy)
    exact h st x y y'
  · intro h st x y y'
    exact h st (x, y) (x, y') rfl

/-- (c) non-vacuity: `GetAddress(change, index)` memoised under `index` only.  The second call
returns the answer of the first. -/
def exampleKeyed : KMethod Unit (Bool × Nat) Nat Nat :=
  ⟨fun _ a => if a.1 then a.2 + 1 else a.2, Prod.snd⟩

example : runKeyed exampleKeyed ⟨(), []⟩ [.call (false, 5), .call (true, 5)] = [some 5, some 5] := by
  decide

example : runPure (⟨exampleKeyed.pureOut⟩ : Method Unit (Bool × Nat) Nat) ()
    [.call (false, 5), .call (true, 5)] = [some 5, some 6] := by
  decide

example : runKeyed exampleKeyed ⟨(), []⟩ [.call (false, 5), .call (true, 5)]
    ≠ runPure ⟨exampleKeyed.pureOut⟩ () [.call (false, 5), .call (true, 5)] :=
  keyed_stale_witness exampleKeyed () (false, 5) (true, 5) rfl (by decide)

example : ¬ KeyRespects exampleKeyed := fun h => absurd (h () (false, 5) (true, 5) rfl) (by decide)

end Keyed

/-! ### 5–6: interleavings -/

/-- one atomic step of any thread preserves the invariant -/
theorem cstep_inv (m : Method St Arg Out) (st : St) (s : CState Arg Out) (x : Atom Arg) :
    CInv m st s → CInv m st (cstep m st s x) :=
  cstep_preserves m st s x

/-- **Soundness under every interleaving.**  From the empty cache with all threads idle, after ANY
schedule of atomic steps: every cache entry, every computed-but-not-yet-stored value and every value
returned to a finished call is a value of the reference function (this covers two threads that both
miss, both compute and both store). -/
theorem interleaving_sound (m : Method St Arg Out) (st : St) (sched : List (Atom Arg)) :
    CInv m st (crun m st (cinit : CState Arg Out) sched) :=
  crun_preserves m st sched cinit (cinv_cinit m st)

/-- **The finished call returns the value for *its* argument.**  If after the schedule thread `t` is
`done o`, then `t` did perform a lookup, and `o` is the reference value at the argument `a` of the
last lookup `t` performed (the call that has just finished), whatever the other threads did. -/
theorem done_value (m : Method St Arg Out) (st : St) (sched : List (Atom Arg)) (t : Nat) (o : Out)
    (h : (crun m st (cinit : CState Arg Out) sched).phase t = .done o) :
    ∃ a, lastLookup t sched = some a ∧ o = m.pureOut st a := by
  have := (crun_sinv m st sched).2 t
  rw [h] at this
  exact this


/-- the same without the ghost function: if the schedule is `pre ++ lookup t a :: post`, thread `t`
performs no further lookup in `post`, and `t` ends up `done o`, then `o` is the reference value at
`a` — whatever `pre`, `post` and the other threads are -/
theorem done_value_of_split (m : Method St Arg Out) (st : St) (t : Nat) (a : Arg)
    (pre post : List (Atom Arg)) (hpost : ∀ b, Atom.lookup t b ∉ post) (o : Out)
    (h : (crun m st (cinit : CState Arg Out) (pre ++ Atom.lookup t a :: post)).phase t = .done o) :
    o = m.pureOut st a := by
  obtain ⟨a', ha', ho⟩ := done_value m st _ t o h
  rw [lastLookup_of_split t a pre post hpost] at ha'
  cases ha'
  exact ho

/-- non-vacuity: the model does allow two threads to miss, compute and store the same argument;
the cache then holds the entry twice and both callers hold the reference value -/
theorem double_miss_example (m : Method St Arg Out) (st : St) (a : Arg) :
    let s := crun m st (cinit : CState Arg Out)
      [.lookup 0 a, .lookup 1 a, .compute 0, .compute 1, .store 0, .store 1]
    s.cache = [(a, m.pureOut st a), (a, m.pureOut st a)] ∧
      s.phase 0 = .done (m.pureOut st a) ∧ s.phase 1 = .done (m.pureOut st a) := by
  simp [crun, cstep, cinit, List.lookup]

/-- a pending (missed / computed) call also still talks about its own argument -/
theorem computed_value (m : Method St Arg Out) (st : St) (sched : List (Atom Arg)) (t : Nat)
    (a : Arg) (o : Out)
    (h : (crun m st (cinit : CState Arg Out) sched).phase t = .computed a o) :
    lastLookup t sched = some a ∧ o = m.pureOut st a := by
  have := (crun_sinv m st sched).2 t
  rw [h] at this
  exact this

/-- the stored cache is always a fragment of the graph of the reference function -/
theorem cache_sound (m : Method St Arg Out) (st : St) (sched : List (Atom Arg)) (a : Arg) (o : Out)
    (h : (a, o) ∈ (crun m st (cinit : CState Arg Out) sched).cache) : o = m.pureOut st a :=
  (interleaving_sound m st sched).1 a o h

/-- **Lazy singleton.**  A lazily initialised singleton is the case `Arg := Unit`: whatever the
interleaving, every caller that has finished got the one value `pureOut st ()`. -/
theorem singleton_value {St Out : Type} (m : Method St Unit Out) (st : St)
    (sched : List (Atom Unit)) (t : Nat) (o : Out)
    (h : (crun m st (cinit : CState Unit Out) sched).phase t = .done o) : o = m.pureOut st () := by
  obtain ⟨a, _, ho⟩ := done_value m st sched t o h
  exact ho

/-- any two finished callers — in the same or in different (e.g. earlier / later) schedules — hold the
same value -/
theorem singleton_idempotent {St Out : Type} (m : Method St Unit Out) (st : St)
    (sched sched' : List (Atom Unit)) (t u : Nat) (o o' : Out)
    (h : (crun m st (cinit : CState Unit Out) sched).phase t = .done o)
    (h' : (crun m st (cinit : CState Unit Out) sched').phase u = .done o') : o = o' := by
  rw [singleton_value m st sched t o h, singleton_value m st sched' u o' h']

/-! ### 7: the generated table of `lru_cache` methods -/

/-- Entries of `Gen.cachedMethods` whose reachable-mutable-attribute list is not empty but which are
nevertheless pure.

The static analysis resolves the annotated type `BipCoinConf` of `m_coin_conf` to all its
subclasses, two of which (Bitcoin Cash, Litecoin) have address toggles; the Shelley encoders called
here only read `net_tag`, which no toggle changes. -/
def justified : List (String × String) :=
  [("CardanoShelleyPublicKeys", "ToAddress"), ("CardanoShelleyPublicKeys", "ToStakingAddress")]

/-- every memoised method of the package reads no attribute that is ever assigned outside
`__init__`, or is one of the two justified entries -/
theorem table_all_pure : ∀ m ∈ Gen.cachedMethods, m.2.2 = [] ∨ (m.1, m.2.1) ∈ justified := by
  decide

/-- **the library never mutates caller-supplied inputs** (static half): the translator found no in-place change — mutating method call,
item assignment, `del x[…]`, `x += [...]` — of a parameter, or of a local name that is a plain alias of one, anywhere in the package -/
theorem no_argument_mutation : Gen.argMutations = [] := by
  decide

/-- the generator did find the memoised methods (an empty table would make `table_all_pure` vacuous) -/
theorem cached_methods_nonempty : Gen.cachedMethods ≠ [] := by
  decide

end BipVerif.Props.C15
