/-
BIP-44/49/84/86 and CIP-1852 hierarchy — model of bip_utils/bip/bip44_base/bip44_base.py
(`Bip44Base` and its five subclasses differ only in the purpose constant and the configuration
getter).  A wrapped object is its `Node` plus the coin row.
-/
import BipVerif.Model.Kholaw
import BipVerif.Model.CoinRow

namespace BipVerif.Model
open BipVerif

/-- curve, derivation scheme and master-key generator selected by `coin_conf.Bip32Class()` -/
def bip32ClassOf (s : String) : Option (CurveT × Scheme) :=
  match s with
  | "secp256k1" => some (.secp256k1, .slip10)
  | "nist256p1" => some (.nist256p1, .slip10)
  | "ed25519" => some (.ed25519, .slip10)
  | "ed25519blake2b" => some (.ed25519Blake2b, .slip10)
  | "kholaw" | "icarus" => some (.ed25519Kholaw, .kholaw)
  | _ => none

def masterOf (bip32 : String) (seed : Bytes) : R Node :=
  match bip32 with
  | "secp256k1" => slip10Master .secp256k1 seed
  | "nist256p1" => slip10Master .nist256p1 seed
  | "ed25519" => slip10Master .ed25519 seed
  | "ed25519blake2b" => slip10Master .ed25519Blake2b seed
  | "kholaw" => kholawMaster .kholaw kholawMasterKey seed
  | "icarus" => kholawMaster .kholaw icarusMasterKey seed
  | _ => throw .keyErr

/-- `IsPublicDerivationSupported()` of the derivator -/
def pubDerivationSupported (nd : Node) : Bool :=
  match nd.scheme with
  | .slip10 => nd.curve.isEcdsa
  | _ => true

/-- `Bip44Base.__init__`: depth admissibility of the wrapped object -/
def b44Admit (nd : Node) : R Node :=
  if nd.isPublicOnly then
    if nd.depth < 3 || nd.depth > 5 then throw .depth else pure nd
  else if nd.depth > 5 then throw .depth else pure nd

inductive B44Op
  | purpose | coin | account (i : Nat) | change (c : Nat) | addrIdx (i : Nat) | deriveDefault
  | neuter                      -- `Bip32Object().ConvertToPublic()` (mutates the wrapped object)
  | reimportX                   -- FromExtendedKey(ToExtended()) of the current key (private if any)
  | reimportRaw (depth : Nat)   -- FromPrivateKey / FromPublicKey with arbitrary depth metadata
  deriving Repr, DecidableEq

def b44Child (nd : Node) (idx : Nat) : R Node := do b44Admit (← childKey nd idx)

/-- one hierarchy operation; `purpose` is the class constant (44, 49, 84, 86, 1852), `coinIdx` the
SLIP-44 index, `defPath` the parsed default path of the coin. -/
def b44Step (purpose coinIdx : Nat) (defPath : Path) (nd : Node) (op : B44Op) : R Node :=
  match op with
  | .purpose => if nd.depth ≠ 0 then throw .depth else b44Child nd (harden purpose)
  | .coin => if nd.depth ≠ 1 then throw .depth else b44Child nd (harden coinIdx)
  | .account i => if nd.depth ≠ 2 then throw .depth else b44Child nd (harden i)
  | .change c =>
    if c > 1 then throw .type
    else if nd.depth ≠ 3 then throw .depth
    else b44Child nd (if pubDerivationSupported nd then c else harden c)
  | .addrIdx i =>
    if nd.depth ≠ 4 then throw .depth
    else b44Child nd (if pubDerivationSupported nd then i else harden i)
  | .deriveDefault => do
    if nd.depth ≠ 0 then throw .depth
    let a ← b44Child nd (harden purpose)
    let b ← b44Child a (harden coinIdx)
    b44Admit (← derivePathWith childKey b defPath)
  | .neuter => pure nd.neuter
  | .reimportX => b44Admit nd        -- serialise/parse round trip keeps every field (C05)
  | .reimportRaw d => b44Admit { nd with depth := d, index := 0, parentFp := [0, 0, 0, 0] }

def b44Run (purpose coinIdx : Nat) (defPath : Path) (nd : Node) (ops : List B44Op) : R Node :=
  ops.foldlM (b44Step purpose coinIdx defPath) nd

end BipVerif.Model
