/- WIF — model of bip_utils/wif/wif.py (secp256k1 private keys). -/
import BipVerif.Model.Ecc
import BipVerif.Model.Base58

namespace BipVerif.Model
open BipVerif

/-- `WifEncoder.Encode(priv_key bytes, net_ver, mode)`; `netVer` is the one-byte version. -/
def wifEncode (H : Bytes → Bytes) (priv : Bytes) (netVer : Bytes) (compressed : Bool) : R (List Char) :=
  if !privValid .secp256k1 priv then throw .value
  else pure (b58CheckEncode H btcAlphabet (netVer ++ priv ++ (if compressed then [1] else [])))

/-- `WifDecoder.Decode(wif_str, net_ver)` → (key bytes, compressed?) -/
def wifDecode (H : Bytes → Bytes) (s : List Char) (netVer : UInt8) : R (Bytes × Bool) := do
  let dec ← b58CheckDecode H btcAlphabet s
  match dec with
  | [] => throw .value
  | v :: rest =>
    if v ≠ netVer then throw .value
    if privValid .secp256k1 (dropLast rest 1) then
      if rest.getLast? ≠ some 1 then throw .value
      pure (dropLast rest 1, true)
    else
      if !privValid .secp256k1 rest then throw .value
      pure (rest, false)

end BipVerif.Model
