/-
Kernel-fast checkers for large generated tables of natural numbers (word lists of 2048 / 1626
entries, every entry a big `Nat` literal that encodes the UTF-8 bytes of a word).

Everything in this file is Mathlib-free and written with *raw recursors* (`List.rec`, `Nat.rec`,
`Bool.rec`, `Prod.rec`) instead of the equation compiler.  Measured in the Lean 4.33 kernel
(`decide +kernel`): a function compiled by structural recursion (`brecOn` + matchers) costs
100-150 us per recursion step, the same loop over a raw recursor 5-50 us.  The price is that the
definitions are `noncomputable` (the code generator has no recursor support) - they are meant to
be evaluated by the kernel only - and that they read a little unusual; the `rfl` equation lemmas
below give the readable recursive equations and are what the soundness proofs
(`BipVerif.Lemmas.Table`) use.

Small non-recursive helpers such as `bsel` are deliberately ordinary definitions: the kernel's
`whnf_core` handles beta/iota steps by C++ recursion but returns to the iterative `whnf` loop
for every delta step, so one definition unfolding per loop iteration keeps the kernel's stack
flat ("deep recursion detected" otherwise at a few thousand iterations).

Word encoding (fixed by the table generator): a word `w` is the `Nat` whose big-endian bytes are
`0x01 ‖ utf8(w)`; see `encodeBytes` / `wordBytesNat`.
-/
namespace BipVerif.Table

/-! ### Boolean helpers (one delta step each) -/

/-- `if c then a else b` on lists -/
noncomputable def bsel (c : Bool) (a b : List Nat) : List Nat := @Bool.rec (fun _ => List Nat) b a c
/-- `c && a`, lazy in `a` -/
noncomputable def band (c : Bool) (a : Bool) : Bool := @Bool.rec (fun _ => Bool) false a c

@[simp] theorem bsel_true (a b : List Nat) : bsel true a b = a := rfl
@[simp] theorem bsel_false (a b : List Nat) : bsel false a b = b := rfl
@[simp] theorem band_true (a : Bool) : band true a = a := rfl
@[simp] theorem band_false (a : Bool) : band false a = false := rfl
theorem band_eq_and (c a : Bool) : band c a = (c && a) := by cases c <;> rfl
theorem bsel_eq_cond (c : Bool) (a b : List Nat) : bsel c a b = bif c then a else b := by
  cases c <;> rfl

/-! ### Merge sort -/

/-- merge of two lists (lazy stream merge; for sorted inputs the output is sorted, but the
soundness proof only needs that it is a permutation of `xs ++ ys`) -/
noncomputable def merge : List Nat → List Nat → List Nat :=
  @List.rec Nat (fun _ => List Nat → List Nat) (fun ys => ys)
    (fun x xs ihxs ys =>
      @List.rec Nat (fun _ => List Nat) (x :: xs)
        (fun y ys' ihys => bsel (Nat.ble x y) (x :: ihxs (y :: ys')) (y :: ihys)) ys)

theorem merge_nil (ys : List Nat) : merge [] ys = ys := rfl
theorem merge_cons_nil (x : Nat) (xs : List Nat) : merge (x :: xs) [] = x :: xs := rfl
theorem merge_cons_cons (x : Nat) (xs : List Nat) (y : Nat) (ys : List Nat) :
    merge (x :: xs) (y :: ys) =
      bsel (Nat.ble x y) (x :: merge xs (y :: ys)) (y :: merge (x :: xs) ys) := rfl

/-- `sortD d l` sorts (at most) the first `2^d` elements of `l` and returns them together with
the untouched rest -/
noncomputable def sortD : Nat → List Nat → List Nat × List Nat :=
  @Nat.rec (fun _ => List Nat → List Nat × List Nat)
    (fun l => @List.rec Nat (fun _ => List Nat × List Nat) ([], []) (fun x xs _ => (x :: [], xs)) l)
    (fun _ ih l =>
      @Prod.rec (List Nat) (List Nat) (fun _ => List Nat × List Nat)
        (fun a r =>
          @List.rec Nat (fun _ => List Nat × List Nat) (a, [])
            (fun y ys _ =>
              @Prod.rec (List Nat) (List Nat) (fun _ => List Nat × List Nat)
                (fun b r' => (merge a b, r')) (ih (y :: ys))) r)
        (ih l))

theorem sortD_zero_nil : sortD 0 [] = ([], []) := rfl
theorem sortD_zero_cons (x : Nat) (xs : List Nat) : sortD 0 (x :: xs) = ([x], xs) := rfl
theorem sortD_succ (d : Nat) (l : List Nat) :
    sortD (d + 1) l =
      match (sortD d l).2 with
      | [] => ((sortD d l).1, [])
      | y :: ys => (merge (sortD d l).1 (sortD d (y :: ys)).1, (sortD d (y :: ys)).2) := by
  show
    @Prod.rec (List Nat) (List Nat) (fun _ => List Nat × List Nat)
        (fun a r =>
          @List.rec Nat (fun _ => List Nat × List Nat) (a, [])
            (fun y ys _ =>
              @Prod.rec (List Nat) (List Nat) (fun _ => List Nat × List Nat)
                (fun b r' => (merge a b, r')) (sortD d (y :: ys))) r)
        (sortD d l) = _
  rcases sortD d l with ⟨a, r⟩
  cases r with
  | nil => rfl
  | cons y ys => rcases h : sortD d (y :: ys) with ⟨b, r'⟩; simp [h]

/-- `sortGo fuel d a r`: `a` holds the `2^d` elements sorted so far; sort the next `2^d`
elements of `r`, merge, double.  `fuel` bounds the number of doublings (64 in `msort`); when it
runs out the rest is merged in unsorted, which keeps the result a permutation, so soundness does
not depend on the fuel. -/
noncomputable def sortGo : Nat → Nat → List Nat → List Nat → List Nat :=
  @Nat.rec (fun _ => Nat → List Nat → List Nat → List Nat)
    (fun _ a r => merge a r)
    (fun _ ih d a r =>
      @List.rec Nat (fun _ => List Nat) a
        (fun y ys _ =>
          @Prod.rec (List Nat) (List Nat) (fun _ => List Nat)
            (fun b r' => ih (Nat.succ d) (merge a b) r') (sortD d (y :: ys))) r)

theorem sortGo_zero (d : Nat) (a r : List Nat) : sortGo 0 d a r = merge a r := rfl
theorem sortGo_succ_nil (f d : Nat) (a : List Nat) : sortGo (f + 1) d a [] = a := rfl
theorem sortGo_succ_cons (f d : Nat) (a : List Nat) (y : Nat) (ys : List Nat) :
    sortGo (f + 1) d a (y :: ys) =
      sortGo f (d + 1) (merge a (sortD d (y :: ys)).1) (sortD d (y :: ys)).2 := by
  show
    @Prod.rec (List Nat) (List Nat) (fun _ => List Nat)
        (fun b r' => sortGo f (Nat.succ d) (merge a b) r') (sortD d (y :: ys)) = _
  rcases sortD d (y :: ys) with ⟨b, r'⟩; rfl

/-- merge sort (bottom-up by doubling, no length computation, at most `2^64` elements sorted) -/
noncomputable def msort (l : List Nat) : List Nat :=
  @List.rec Nat (fun _ => List Nat) [] (fun x xs _ => sortGo 64 0 (x :: []) xs) l

theorem msort_nil : msort [] = [] := rfl
theorem msort_cons (x : Nat) (xs : List Nat) : msort (x :: xs) = sortGo 64 0 [x] xs := rfl

/-- `strictFrom l a`: `a < l₀ < l₁ < …` -/
noncomputable def strictFrom : List Nat → Nat → Bool :=
  @List.rec Nat (fun _ => Nat → Bool) (fun _ => true)
    (fun b _ ih a => band (Nat.blt a b) (ih b))

theorem strictFrom_nil (a : Nat) : strictFrom [] a = true := rfl
theorem strictFrom_cons (b : Nat) (t : List Nat) (a : Nat) :
    strictFrom (b :: t) a = band (Nat.blt a b) (strictFrom t b) := rfl

/-- strictly increasing -/
noncomputable def strictSorted : List Nat → Bool :=
  @List.rec Nat (fun _ => Bool) true (fun a t _ => strictFrom t a)

theorem strictSorted_nil : strictSorted [] = true := rfl
theorem strictSorted_cons (a : Nat) (t : List Nat) : strictSorted (a :: t) = strictFrom t a := rfl

/-- duplicate-freeness checker: sort, then test that the result is strictly increasing -/
noncomputable def nodupCheck (l : List Nat) : Bool := strictSorted (msort l)

/-! ### Element-wise checks -/

/-- every element satisfies `p` -/
noncomputable def allB (p : Nat → Bool) : List Nat → Bool :=
  @List.rec Nat (fun _ => Bool) true (fun x _ ih => band (p x) ih)

theorem allB_nil (p : Nat → Bool) : allB p [] = true := rfl
theorem allB_cons (p : Nat → Bool) (x : Nat) (t : List Nat) :
    allB p (x :: t) = band (p x) (allB p t) := rfl

/-- every element is below `bound` -/
noncomputable def allLt (bound : Nat) (l : List Nat) : Bool := allB (fun x => Nat.blt x bound) l

/-- length, raw recursor version of `List.length` -/
noncomputable def lengthR : List Nat → Nat :=
  @List.rec Nat (fun _ => Nat) 0 (fun _ _ ih => Nat.succ ih)

/-- `List.map`, raw recursor version -/
noncomputable def mapR (f : Nat → Nat) : List Nat → List Nat :=
  @List.rec Nat (fun _ => List Nat) [] (fun x _ ih => f x :: ih)

theorem mapR_nil (f : Nat → Nat) : mapR f [] = [] := rfl
theorem mapR_cons (f : Nat → Nat) (x : Nat) (t : List Nat) : mapR f (x :: t) = f x :: mapR f t := rfl

/-- list equality -/
noncomputable def listEqCheck : List Nat → List Nat → Bool :=
  @List.rec Nat (fun _ => List Nat → Bool)
    (fun b => @List.rec Nat (fun _ => Bool) true (fun _ _ _ => false) b)
    (fun x _ ih b => @List.rec Nat (fun _ => Bool) false (fun y ys _ => band (Nat.beq x y) (ih ys)) b)

theorem listEqCheck_nil_nil : listEqCheck [] [] = true := rfl
theorem listEqCheck_nil_cons (y : Nat) (ys : List Nat) : listEqCheck [] (y :: ys) = false := rfl
theorem listEqCheck_cons_nil (x : Nat) (xs : List Nat) : listEqCheck (x :: xs) [] = false := rfl
theorem listEqCheck_cons_cons (x : Nat) (xs : List Nat) (y : Nat) (ys : List Nat) :
    listEqCheck (x :: xs) (y :: ys) = band (Nat.beq x y) (listEqCheck xs ys) := rfl

/-! ### Word encoding and code-point prefixes -/

/-- `encodeFrom a bs`: append the base-256 digits `bs` (big-endian) to the number `a` -/
noncomputable def encodeFrom : List Nat → Nat → Nat :=
  @List.rec Nat (fun _ => Nat → Nat) (fun a => a) (fun b _ ih a => ih (Nat.add (Nat.mul a 256) b))

theorem encodeFrom_nil (a : Nat) : encodeFrom [] a = a := rfl
theorem encodeFrom_cons (b : Nat) (t : List Nat) (a : Nat) :
    encodeFrom (b :: t) a = encodeFrom t (a * 256 + b) := rfl

/-- the table encoding of a byte string: big-endian value of `0x01 ‖ bs`
(Python: `int.from_bytes(b"\x01" + bs, "big")`) -/
noncomputable def encodeBytes (bs : List Nat) : Nat := encodeFrom bs 1

/-- `bytesAux fuel n acc`: push the base-256 digits of `n` (most significant first) in front of
`acc`, stopping at the `0x01` marker (`n ≤ 1`).  `fuel` only has to be at least the number of
digits; `wordBytesNat` uses `n` itself (the kernel peels one `Nat.succ` off a literal per step,
and the loop stops long before the fuel matters). -/
noncomputable def bytesAux : Nat → Nat → List Nat → List Nat :=
  @Nat.rec (fun _ => Nat → List Nat → List Nat) (fun _ acc => acc)
    (fun _ ih n acc => bsel (Nat.ble n 1) acc (ih (Nat.div n 256) (Nat.mod n 256 :: acc)))

theorem bytesAux_zero (n : Nat) (acc : List Nat) : bytesAux 0 n acc = acc := rfl
theorem bytesAux_succ (f n : Nat) (acc : List Nat) :
    bytesAux (f + 1) n acc = bsel (Nat.ble n 1) acc (bytesAux f (n / 256) (n % 256 :: acc)) := rfl

/-- decoding of a table entry: the big-endian bytes of `n` without the leading `0x01` marker
(`Nat.log2` is *not* accelerated by the kernel - 28 ms per call on 33-byte numbers - hence the
marker-terminated loop instead of a length computation) -/
noncomputable def wordBytesNat (n : Nat) : List Nat := bytesAux n n []

/-- `utf8PrefixAux bytes k`: the bytes of the first `k` code points of a UTF-8 byte string.
A code point starts at every byte that is not a continuation byte `10xxxxxx` (`b / 64 ≠ 2`);
continuation bytes belong to the code point in progress.  (Only for input that is not UTF-8:
continuation bytes in front of the first start byte are kept as well.) -/
noncomputable def utf8PrefixAux : List Nat → Nat → List Nat :=
  @List.rec Nat (fun _ => Nat → List Nat) (fun _ => [])
    (fun b _ ih k =>
      bsel (Nat.beq (Nat.div b 64) 2) (b :: ih k)
        (@Nat.rec (fun _ => List Nat) [] (fun k' _ => b :: ih k') k))

/-- the bytes of the first `k` code points -/
noncomputable def utf8Prefix (k : Nat) (bytes : List Nat) : List Nat := utf8PrefixAux bytes k

theorem utf8Prefix_nil (k : Nat) : utf8Prefix k [] = [] := rfl
theorem utf8Prefix_cons_cont (k b : Nat) (t : List Nat) (h : b / 64 = 2) :
    utf8Prefix k (b :: t) = b :: utf8Prefix k t := by
  show bsel (Nat.beq (b / 64) 2) _ _ = _
  rw [h]; rfl
theorem utf8Prefix_zero_cons_start (b : Nat) (t : List Nat) (h : b / 64 ≠ 2) :
    utf8Prefix 0 (b :: t) = [] := by
  show bsel (Nat.beq (b / 64) 2) _ _ = _
  have : Nat.beq (b / 64) 2 = false := by
    cases hb : Nat.beq (b / 64) 2 with
    | false => rfl
    | true => exact absurd (Nat.eq_of_beq_eq_true hb) h
  rw [this]; rfl
theorem utf8Prefix_succ_cons_start (k b : Nat) (t : List Nat) (h : b / 64 ≠ 2) :
    utf8Prefix (k + 1) (b :: t) = b :: utf8Prefix k t := by
  show bsel (Nat.beq (b / 64) 2) _ _ = _
  have : Nat.beq (b / 64) 2 = false := by
    cases hb : Nat.beq (b / 64) 2 with
    | false => rfl
    | true => exact absurd (Nat.eq_of_beq_eq_true hb) h
  rw [this]; rfl

/-- `prefEnc bytes k a`: fused `encodeFrom (utf8Prefix k bytes) a` (one pass, no intermediate
list; see `prefEnc_eq` in `BipVerif.Lemmas.Table`) -/
noncomputable def prefEnc : List Nat → Nat → Nat → Nat :=
  @List.rec Nat (fun _ => Nat → Nat → Nat) (fun _ a => a)
    (fun b _ ih k a =>
      @Bool.rec (fun _ => Nat)
        (@Nat.rec (fun _ => Nat) a (fun k' _ => ih k' (Nat.add (Nat.mul a 256) b)) k)
        (ih k (Nat.add (Nat.mul a 256) b))
        (Nat.beq (Nat.div b 64) 2))

theorem prefEnc_nil (k a : Nat) : prefEnc [] k a = a := rfl
theorem prefEnc_cons (b : Nat) (t : List Nat) (k a : Nat) :
    prefEnc (b :: t) k a =
      @Bool.rec (fun _ => Nat)
        (@Nat.rec (fun _ => Nat) a (fun k' _ => prefEnc t k' (a * 256 + b)) k)
        (prefEnc t k (a * 256 + b))
        (Nat.beq (b / 64) 2) := rfl

/-- sort key: the table encoding of the first `k` code points of the word encoded by `w`,
i.e. `encodeBytes (utf8Prefix k (wordBytesNat w))` (`prefixKey_eq`) -/
noncomputable def prefixKey (k : Nat) (w : Nat) : Nat := prefEnc (wordBytesNat w) k 1

/-- the first `k` code points of the words are pairwise distinct -/
noncomputable def prefixNodupCheck (k : Nat) (l : List Nat) : Bool := nodupCheck (mapR (prefixKey k) l)

end BipVerif.Table
