/- SS58 — model of bip_utils/ss58/ss58.py.  `H` = BLAKE2b-512. -/
import BipVerif.Model.Base58

namespace BipVerif.Model
open BipVerif

def ss58Prefix : Bytes := "SS58PRE".toUTF8.toList

def ss58Checksum (H : Bytes → Bytes) (data : Bytes) : Bytes := (H (ss58Prefix ++ data)).take 2

def ss58FormatBytes (fmt : Nat) : Bytes :=
  if fmt ≤ 63 then toBytesAuto fmt
  else [UInt8.ofNat (((fmt &&& 252) >>> 2) ||| 64), UInt8.ofNat ((fmt >>> 8) ||| ((fmt &&& 3) <<< 6))]

def ss58Encode (H : Bytes → Bytes) (data : Bytes) (fmt : Nat) : R (List Char) := do
  if data.length ≠ 32 then throw .value
  if fmt > 16383 then throw .value
  if fmt = 46 || fmt = 47 then throw .value
  let payload := ss58FormatBytes fmt ++ data
  pure (b58Encode btcAlphabet (payload ++ ss58Checksum H payload))

/-- `SS58Decoder.Decode` (after the repair: empty input, reserved first bytes 0x80.. and
non-canonical two-byte prefixes are rejected with `ValueError`). -/
def ss58Decode (H : Bytes → Bytes) (s : List Char) : R (Nat × Bytes) := do
  let dec ← b58Decode btcAlphabet s
  if dec.length < 2 then throw .value
  let b0 ← pyIdx dec 0
  if b0.toNat &&& 128 ≠ 0 then throw .value
  let (fmtLen, fmt) ← if b0.toNat &&& 64 ≠ 0 then do
      let b1 ← pyIdx dec 1
      let f := ((b0.toNat &&& 63) <<< 2) ||| (b1.toNat >>> 6) ||| ((b1.toNat &&& 63) <<< 8)
      if f ≤ 63 then throw .value
      pure (2, f)
    else pure (1, b0.toNat)
  if fmt = 46 || fmt = 47 then throw .value
  let dataBytes := dropLast (dec.drop fmtLen) 2
  -- dec[fmtLen:-2]: when fewer than fmtLen+2 bytes the slice is empty either way
  let dataBytes := if dec.length < fmtLen + 2 then [] else dataBytes
  let ck := takeLast dec 2
  if dataBytes.length ≠ 32 then throw .value
  if ck != ss58Checksum H (dropLast dec 2) then throw .checksum
  pure (fmt, dataBytes)

end BipVerif.Model
