/-
Monero, Algorand, Electrum v1 and Electrum v2 mnemonic codecs — models of
bip_utils/{monero,algorand,electrum}/mnemonic*/ and utils/mnemonic/mnemonic_utils.py.
Words are `Nat` codes as in `Model/Bip39.lean`.
-/
import BipVerif.Model.Bip39

namespace BipVerif.Model
open BipVerif

/-- `MnemonicUtils.BytesChunkToWords` on the chunk value -/
def chunkToIdx (n : Nat) (x : Nat) : List Nat :=
  let w1 := x % n
  let w2 := (x / n + w1) % n
  let w3 := (x / n / n + w2) % n
  [w1, w2, w3]

/-- `MnemonicUtils.WordsToBytesChunk` on indices (repaired arithmetic: a triple packing to
≥ 2^32 is refused). -/
def idxToChunk (n : Nat) (w1 w2 w3 : Nat) : R Nat :=
  let x := w1 + n * ((w2 % n + n - w1 % n) % n) + n * n * ((w3 % n + n - w2 % n) % n)
  if x > 0xFFFFFFFF then throw .value else pure x

def chunkBytes (little : Bool) (x : Nat) : Bytes :=
  if little then Bytes.ofNatLE 4 x else Bytes.ofNatBE 4 x
def chunkValue (little : Bool) (b : Bytes) : Nat :=
  if little then Bytes.toNatLE b else Bytes.toNatBE b

/-- encode a byte string (length multiple of 4) chunk by chunk -/
def chunksEncode (wl : List Nat) (little : Bool) (ent : Bytes) : R (List Nat) := do
  let idxs := (chunksOf 4 ent).flatMap fun c => chunkToIdx wl.length (chunkValue little c)
  idxs.mapM (pyIdx wl)

def chunksDecode (wl : List Nat) (little : Bool) (ws : List Nat) : R Bytes := do
  let parts ← (chunksOf 3 (ws.take (ws.length / 3 * 3))).mapM fun t =>
    match t with
    | [a, b, c] => do
      let i ← wordIdx wl a
      let j ← wordIdx wl b
      let k ← wordIdx wl c
      let x ← idxToChunk wl.length i j k
      pure (chunkBytes little x)
    | _ => throw .fuel
  pure parts.flatten

/-! ### Monero -/

/-- first `k` code points of a word given as its code (UTF-8 aware) -/
def wordPrefixBytes (k : Nat) (w : Nat) : Bytes :=
  let bytes := (natToBytesMin w).drop 1
  let rec go (bs : Bytes) (cnt : Nat) (acc : Bytes) : Bytes :=
    match bs with
    | [] => acc.reverse
    | b :: rest =>
      let isStart := b.toNat / 64 ≠ 2
      if isStart && cnt = k then acc.reverse
      else go rest (if isStart then cnt + 1 else cnt) (b :: acc)
  go bytes 0 []

/-- `MoneroMnemonicUtils.ComputeChecksum`; `crc` = CRC-32 -/
def moneroChecksumWord (crc : Bytes → Nat) (k : Nat) (ws : List Nat) : R Nat :=
  let pre := ws.flatMap (wordPrefixBytes k)
  if ws.isEmpty then throw .assert   -- modulo by zero cannot happen for legal word counts
  else pyIdx ws (crc pre % ws.length)

def moneroEncode (crc : Bytes → Nat) (wl : List Nat) (k : Nat) (withChecksum : Bool) (ent : Bytes) : R (List Nat) := do
  if !(ent.length = 16 || ent.length = 32) then throw .value
  let ws ← chunksEncode wl true ent
  if withChecksum then pure (ws ++ [← moneroChecksumWord crc k ws]) else pure ws

/-- `langs` carries the unique-prefix length of each language -/
def moneroDecode (crc : Bytes → Nat) (langs : List (List Nat × Nat)) (lang : Option (List Nat × Nat)) (ws : List Nat) :
    R Bytes := do
  if !([12, 13, 24, 25].contains ws.length) then throw .value
  let (wl, k) ← match lang with
    | some l => pure l
    | none => match langs.find? (fun l => ws.all (fun w => l.1.contains w)) with
      | some l => pure l
      | none => throw .value
  if ws.length = 13 || ws.length = 25 then
    let ck ← moneroChecksumWord crc k (dropLast ws 1)
    if ws.getLast? ≠ some ck then throw .checksum
  chunksDecode wl true ws

/-! ### Electrum v1 -/

def electrumV1Encode (wl : List Nat) (ent : Bytes) : R (List Nat) := do
  if ent.length ≠ 16 then throw .value
  chunksEncode wl false ent

def electrumV1Decode (wl : List Nat) (ws : List Nat) : R Bytes := do
  if ws.length ≠ 12 then throw .value
  chunksDecode wl false ws

/-! ### Algorand -/

/-- `AlgorandMnemonicUtils.ConvertBits` (little-endian accumulator, final partial group kept) -/
def algoConvertBits (data : List Nat) (fromBits toBits : Nat) : Option (List Nat) :=
  let maxOut := (1 <<< toBits) - 1
  let rec drain (fuel acc bits : Nat) (ret : List Nat) : Nat × Nat × List Nat :=
    match fuel with
    | 0 => (acc, bits, ret)
    | fuel+1 =>
      if bits ≥ toBits ∧ toBits > 0 then drain fuel (acc >>> toBits) (bits - toBits) (ret ++ [acc &&& maxOut])
      else (acc, bits, ret)
  let rec go (data : List Nat) (acc bits : Nat) (ret : List Nat) : Option (List Nat) :=
    match data with
    | [] => if bits ≠ 0 then some (ret ++ [acc &&& maxOut]) else some ret
    | v :: rest =>
      if v >>> fromBits ≠ 0 then none
      else
        let acc := acc ||| (v <<< bits)
        let bits := bits + fromBits
        let (acc, bits, ret) := drain (bits + 1) acc bits ret
        go rest acc bits ret
  go data 0 0 []

/-- `ComputeChecksumWordIndex`; `H` = SHA-512/256 -/
def algoChecksumIdx (H : Bytes → Bytes) (ent : Bytes) : R Nat :=
  match algoConvertBits ((H ent).take 2 |>.map UInt8.toNat) 8 11 with
  | some (x :: _) => pure x
  | _ => throw .assert

def algoEncode (H : Bytes → Bytes) (wl : List Nat) (ent : Bytes) : R (List Nat) := do
  if ent.length ≠ 32 then throw .value
  let ck ← algoChecksumIdx H ent
  match algoConvertBits (ent.map UInt8.toNat) 8 11 with
  | some idxs => (idxs ++ [ck]).mapM (pyIdx wl)
  | none => throw .assert

def algoDecode (H : Bytes → Bytes) (langs : List (List Nat)) (lang : Option (List Nat)) (ws : List Nat) : R Bytes := do
  if ws.length ≠ 25 then throw .value
  let wl ← match lang with
    | some wl => pure wl
    | none => findLanguage langs ws
  let idxs ← ws.mapM (wordIdx wl)
  match algoConvertBits (dropLast idxs 1) 11 8 with
  | none => throw .assert
  | some el =>
    if el.getLast? ≠ some 0 then throw .value
    let ent : Bytes := (dropLast el 1).map UInt8.ofNat
    let ck ← algoChecksumIdx H ent
    if some ck ≠ idxs.getLast? then throw .checksum
    pure ent

/-! ### Electrum v2 -/

inductive V2Type | standard | segwit | standard2fa | segwit2fa
  deriving DecidableEq, Repr

def V2Type.prefixHex : V2Type → List Char
  | .standard => "01".toList | .segwit => "100".toList
  | .standard2fa => "101".toList | .segwit2fa => "102".toList

/-- the facts about the sentence that need hashing / other decoders, supplied by the caller:
`hmacHex` = hex of HMAC-SHA512("Seed version", sentence), `isBip39OrV1` = the sentence is a valid
BIP-39 or Electrum-v1 mnemonic. -/
def v2IsValid (hmacHex : List Char) (isBip39OrV1 : Bool) (t : Option V2Type) : Bool :=
  if isBip39OrV1 then false
  else match t with
    | some t => t.prefixHex.isPrefixOf hmacHex
    | none => [V2Type.standard, .segwit, .standard2fa, .segwit2fa].any (fun t => t.prefixHex.isPrefixOf hmacHex)

/-- `AreEntropyBitsEnough` (repaired: exact, exclusive upper bound) -/
def v2BitsEnough (v : Nat) : Bool :=
  let f := if v = 0 then 0 else Nat.log2 v
  (121 ≤ f && f < 132) || (253 ≤ f && f < 264)

/-- little-endian base-`n` digits (`while v > 0: append(v % n); v //= n`) -/
def digitsLE (n : Nat) (v : Nat) : List Nat := (digitsBE n v []).reverse

def electrumV2EncodeIdx (wl : List Nat) (ent : Bytes) : R (List Nat) := do
  let v := Bytes.toNatBE ent
  if !v2BitsEnough v then throw .value
  (digitsLE wl.length v).mapM (pyIdx wl)

def electrumV2DecodeIdx (langs : List (List Nat)) (lang : Option (List Nat)) (ws : List Nat) : R Bytes := do
  let wl ← match lang with
    | some wl => pure wl
    | none => findLanguage langs ws
  let idxs ← ws.mapM (wordIdx wl)
  let v := idxs.reverse.foldl (fun acc i => acc * wl.length + i) 0
  pure (toBytesAuto v)

end BipVerif.Model
