/-
BIP32-Ed25519 (Khovratovich-Law) and the Cardano variants — models of
bip_utils/bip/bip32/kholaw/*.py and bip_utils/cardano/bip32/*.py.
-/
import BipVerif.Model.Bip32
import BipVerif.Prim.Pbkdf2
import BipVerif.Prim.Sha512

namespace BipVerif.Model
open BipVerif BipVerif.Prim

def setByte (b : Bytes) (i : Nat) (f : Nat → Nat) : Bytes :=
  b.mapIdx fun j x => if j = i then UInt8.ofNat (f x.toNat) else x

/-- clear the 3 low bits of byte 0, clear `clearMask` and set bit 6 of byte 31 -/
def tweakMasterBits (clearMask : Nat) (k : Bytes) : Bytes :=
  let k := setByte k 0 (fun x => x / 8 * 8)
  setByte k 31 (fun x => (x % 256 - (x &&& clearMask)) ||| 64)

def kholawHmacKey : Bytes := "ed25519 seed".toUTF8.toList

def kholawHashRepeatedly : Nat → Bytes → R (Bytes × Bytes)
  | 0, _ => throw .fuel
  | fuel+1, data =>
    let (kl, kr) := hmacSha512Halves kholawHmacKey data
    if (kl.getD 31 0).toNat &&& 32 ≠ 0 then kholawHashRepeatedly fuel (kl ++ kr) else pure (kl, kr)

/-- `Bip32KholawEd25519MstKeyGenerator.GenerateFromSeed` → (64-byte key, chain code) -/
def kholawMasterKey (seed : Bytes) : R (Bytes × Bytes) := do
  if seed.length < 16 then throw .value
  let (kl, kr) ← kholawHashRepeatedly 4096 seed
  pure (tweakMasterBits 128 kl ++ kr, hmacSha256 kholawHmacKey ([1] ++ seed))

/-- `CardanoIcarusMstKeyGenerator.GenerateFromSeed` -/
def icarusMasterKey (seed : Bytes) : R (Bytes × Bytes) := do
  if seed.length < 16 then throw .value
  let k := pbkdf2HmacSha512 [] seed 4096 96
  let k := tweakMasterBits 224 k
  pure (k.take 64, k.drop 64)

/-- `cbor2.dumps(bytes)` for a 32-byte string -/
def cborBytes32 (b : Bytes) : Bytes := [0x58, 0x20] ++ b

def byronLegacyHashRepeatedly (data : Bytes) : Nat → Nat → R (Bytes × Bytes)
  | 0, _ => throw .fuel
  | fuel+1, itr =>
    let msg := ("Root Seed Chain " ++ toString itr).toUTF8.toList
    let (il, ir) := hmacSha512Halves data msg
    let k := tweakMasterBits 128 (sha512 il)
    if (k.getD 31 0).toNat &&& 32 ≠ 0 then byronLegacyHashRepeatedly data fuel (itr + 1) else pure (k, ir)

/-- `CardanoByronLegacyMstKeyGenerator.GenerateFromSeed` -/
def byronLegacyMasterKey (seed : Bytes) : R (Bytes × Bytes) := do
  if seed.length ≠ 32 then throw .value
  byronLegacyHashRepeatedly (cborBytes32 seed) 4096 1

def kholawMaster (s : Scheme) (gen : Bytes → R (Bytes × Bytes)) (seed : Bytes) : R Node := do
  let (k, cc) ← gen seed
  nodeOfPriv .ed25519Kholaw s k 0 0 cc [0,0,0,0]

/-- byte-wise ×8 without carry -/
def mulNoCarry8 (b : Bytes) : Bytes := b.map fun x => UInt8.ofNat (x.toNat * 8 % 256)
def addNoCarry (a b : Bytes) : Bytes := (a.zip b).map fun (x, y) => UInt8.ofNat ((x.toNat + y.toNat) % 256)

def kholawIndexBytes (s : Scheme) (idx : Nat) : Bytes :=
  if s = .byronLegacy then Bytes.ofNatBE 4 idx else Bytes.ofNatLE 4 idx

/-- `_NewPrivateKeyLeftPart`.  BIP32-Ed25519 (Khovratovich-Law / Icarus): `Bip32KeyError` when the
sum `kL + 8·zL[:28]` is `≡ 0 (mod L)`, and also `Bip32KeyError` when the sum is `≥ 2^255`; the
`mod L` test comes first.  History of the size test: originally there was none and a sum `≥ 2^256`
escaped as `OverflowError` from `int.to_bytes`; a first repair refused `≥ 2^256` with
`Bip32KeyError`; a second repair lowered the bound to `2^255`.  Reason: `2^255` is the range of
scalars of libsodium's no-clamp base-point multiplication (it ignores bit 255); with a larger left
half the public key computed from the private child — which the model computes from
`edNoClampScalar` = value mod `2^255` — would differ from the publicly derived child key. -/
def kholawNewLeft (s : Scheme) (zl kl : Bytes) : R Bytes :=
  if s = .byronLegacy then
    toBytesLE ((Bytes.toNatLE (mulNoCarry8 zl) + Bytes.toNatLE kl) % edL) 32
  else
    let v := Bytes.toNatLE (zl.take 28) * 8 + Bytes.toNatLE kl
    if v % edL = 0 then throw .key
    else if 2 ^ 255 ≤ v then throw .key
    else toBytesLE v 32

def kholawNewRight (s : Scheme) (zr kr : Bytes) : R Bytes :=
  if s = .byronLegacy then pure (addNoCarry zr kr)
  else toBytesLE ((Bytes.toNatLE zr + Bytes.toNatLE kr) % 2 ^ 256) 32

def kholawCkdPriv (nd : Node) (priv : Bytes) (idx : Nat) : R (Bytes × Bytes) := do
  let ib := kholawIndexBytes nd.scheme idx
  let cc := nd.chainCode
  let pub := nd.pub.drop 1
  let (z, cc') :=
    if isHardened idx then
      (hmacSha512 cc ([0] ++ priv ++ ib), (hmacSha512Halves cc ([1] ++ priv ++ ib)).2)
    else
      (hmacSha512 cc ([2] ++ pub ++ ib), (hmacSha512Halves cc ([3] ++ pub ++ ib)).2)
  let kl ← kholawNewLeft nd.scheme (z.take 32) (priv.take 32)
  let kr ← kholawNewRight nd.scheme (z.drop 32) (priv.drop 32)
  pure (kl ++ kr, cc')

/-- scalar the public side multiplies the base point by -/
def kholawPubScalar (s : Scheme) (zl : Bytes) : Nat :=
  if s = .byronLegacy then Bytes.toNatLE (mulNoCarry8 zl) else Bytes.toNatLE (zl.take 28) * 8

def kholawCkdPub (nd : Node) (idx : Nat) : R (Bytes × Bytes) := do
  let ib := kholawIndexBytes nd.scheme idx
  let cc := nd.chainCode
  let pub := nd.pub.drop 1
  let z := hmacSha512 cc ([2] ++ pub ++ ib)
  let cc' := (hmacSha512Halves cc ([3] ++ pub ++ ib)).2
  match edDecodeLenient pub with
  | none => throw .key
  | some p =>
    -- libsodium's no-clamp base multiplication clears bit 255 of the 32-byte scalar (this is what
    -- breaks public/private commutation for the Byron-legacy scalar, finding F-byron-pubder)
    let q := edAdd p (edMulBase (kholawPubScalar nd.scheme (z.take 32) % 2 ^ 255))
    if q = edIdentity then throw .key
    pure (0 :: edEncode q, cc')

def kholawChildKey (nd : Node) (idx : Nat) : R Node := do
  if idx > 2 ^ 32 - 1 then throw .value
  match nd.priv with
  | some priv =>
    let (k, cc) ← kholawCkdPriv nd priv idx
    if nd.depth ≥ 255 then throw .value
    nodeOfPriv nd.curve nd.scheme k (nd.depth + 1) idx cc nd.fingerprint
  | none =>
    if isHardened idx then throw .key
    let (p, cc) ← kholawCkdPub nd idx
    if nd.depth ≥ 255 then throw .value
    nodeOfPub nd.curve nd.scheme p (nd.depth + 1) idx cc nd.fingerprint

/-- `ChildKey` dispatch on the object's scheme -/
def childKey (nd : Node) (idx : Nat) : R Node :=
  match nd.scheme with
  | .slip10 => slip10ChildKey nd idx
  | _ => kholawChildKey nd idx

end BipVerif.Model
