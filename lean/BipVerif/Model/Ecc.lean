/-
Elliptic-curve key layer: models of the adapter classes in bip_utils/ecc (validity predicates,
encodings, public key of a private key) on top of the reference arithmetic in `Prim`.
The arithmetic of the C libraries is *not* verified; it is differentially tested (C12).
-/
import BipVerif.Model.Basic
import BipVerif.Prim.Weierstrass
import BipVerif.Prim.Edwards
import BipVerif.Prim.Sha512
import BipVerif.Prim.Blake2b

namespace BipVerif.Model
open BipVerif BipVerif.Prim

inductive CurveT
  | secp256k1 | nist256p1 | ed25519 | ed25519Blake2b | ed25519Kholaw | ed25519Monero
  deriving DecidableEq, Repr, Inhabited

def CurveT.isEcdsa : CurveT → Bool
  | .secp256k1 | .nist256p1 => true
  | _ => false

def CurveT.wcurve : CurveT → WCurve
  | .nist256p1 => Prim.nist256p1
  | _ => Prim.secp256k1

/-- group order used by the derivators (`curve.Order()`). -/
def CurveT.order : CurveT → Nat
  | .secp256k1 => Prim.secp256k1.n
  | .nist256p1 => Prim.nist256p1.n
  | _ => edL

def CurveT.privLen : CurveT → Nat
  | .ed25519Kholaw => 64
  | _ => 32

/-! ### private keys -/

/-- `PrivateKeyClass().FromBytes` succeeds (`IsValidBytes`). -/
def privValid (c : CurveT) (b : Bytes) : Bool :=
  match c with
  | .secp256k1 | .nist256p1 =>
    b.length = 32 && 0 < Bytes.toNatBE b && Bytes.toNatBE b < c.order
  | .ed25519 | .ed25519Blake2b => b.length = 32
  | .ed25519Kholaw => b.length = 64
  | .ed25519Monero => b.length = 32 && Bytes.toNatLE b < edL

/-- RFC 8032 clamping of the first 32 bytes of a hash (little-endian scalar). -/
def edClamp (h : Bytes) : Nat :=
  let a := Bytes.toNatLE (h.take 32)
  (a % 2 ^ 254) / 8 * 8 + 2 ^ 254

/-- the scalar libsodium's `*_noclamp` multiplies by: 32 little-endian bytes, bit 255 cleared. -/
def edNoClampScalar (b : Bytes) : Nat := Bytes.toNatLE (b.take 32) % 2 ^ 255

/-- compressed public key (`RawCompressed`) of a valid private key. For the ed25519 family the
result carries the library's `0x00` prefix (33 bytes) except for the Monero flavour (32 bytes).
`none` where the library raises (identity result of a no-clamp multiplication). -/
def pubOfPriv (c : CurveT) (priv : Bytes) : Option Bytes :=
  match c with
  | .secp256k1 | .nist256p1 => c.wcurve.compress (c.wcurve.mulG (Bytes.toNatBE priv))
  | .ed25519 => some (0 :: edEncode (edMulBase (edClamp (sha512 priv))))
  | .ed25519Blake2b => some (0 :: edEncode (edMulBase (edClamp (blake2b512 priv))))
  | .ed25519Kholaw =>
    let p := edMulBase (edNoClampScalar priv)
    if p = edIdentity then none else some (0 :: edEncode p)
  | .ed25519Monero =>
    let p := edMulBase (edNoClampScalar priv)
    if p = edIdentity then none else some (edEncode p)

/-! ### public keys -/

/-- Besides SEC1 compressed/uncompressed, both ECDSA back ends (libsecp256k1 via coincurve,
python-ecdsa for NIST P-256) accept the hybrid encodings 06/07 (y parity must match the prefix);
python-ecdsa additionally accepts the raw 64-byte encoding `x ‖ y` (no prefix, on-curve check
included); libsecp256k1 refuses it. -/
def wDecodePub (c : CurveT) (b : Bytes) : Option WPoint :=
  match c.wcurve.decode b with
  | some p => some p
  | none =>
    if (c = .secp256k1 || c = .nist256p1) && b.length = 65 then
      match b with
      | pfx :: rest =>
        if pfx = 6 || pfx = 7 then
          match c.wcurve.decode (4 :: rest) with
          | some (.aff x y) => if (y % 2 = 1) = (pfx = 7) then some (.aff x y) else none
          | _ => none
        else none
      | [] => none
    else if c = .nist256p1 && b.length = 64 then c.wcurve.decode (4 :: b)
    else none

/-- strip the optional `0x00` prefix of the ed25519 public key classes. -/
def edStripPrefix (b : Bytes) : Bytes :=
  if b.length = 33 && b.head? = some 0 then b.drop 1 else b

/-- `ed25519_lib.point_is_on_curve(bytes)`; `none` = the library raises `ValueError`
(length neither 32 nor 64). -/
def edBytesOnCurve (b : Bytes) : Option Bool :=
  if b.length = 64 then
    -- both coordinates must be reduced (since the F-ed-unreduced repair; the library raises `ValueError` otherwise, which the callers
    -- of this function map to "not valid")
    if Bytes.toNatLE (b.take 32) < edP ∧ Bytes.toNatLE (b.drop 32) < edP then
      some (edOnCurveModP ⟨Bytes.toNatLE (b.take 32), Bytes.toNatLE (b.drop 32)⟩)
    else some false
  else if b.length = 32 then (edDecodeNoCheck b).map edOnCurveModP
  else none

/-- `PublicKeyClass().FromBytes(b)`: the canonical compressed encoding on success. -/
def pubFromBytes (c : CurveT) (b : Bytes) : Option Bytes :=
  match c with
  | .secp256k1 | .nist256p1 =>
    match wDecodePub c b with
    | some p => c.wcurve.compress p
    | none => none
  | .ed25519Monero =>
    let k := edStripPrefix b
    if edBytesOnCurve k = some true && k.length = 32 then some k else none
  | _ =>
    let k := edStripPrefix b
    if edBytesOnCurve k = some true && k.length = 32 then some (0 :: k) else none

def pubValid (c : CurveT) (b : Bytes) : Bool := (pubFromBytes c b).isSome

/-- `RawUncompressed` of a public key given by its canonical compressed bytes. -/
def pubUncompressed (c : CurveT) (comp : Bytes) : Option Bytes :=
  match c with
  | .secp256k1 | .nist256p1 =>
    match c.wcurve.decode comp with
    | some p => c.wcurve.uncompressed p
    | none => none
  | _ => some comp

/-- `point(K) + il·G` as compressed bytes; `none` for the point at infinity (both ECDSA
libraries refuse to build a key from it). -/
def pubAddMulG (c : CurveT) (comp : Bytes) (il : Nat) : Option Bytes :=
  match c.wcurve.decode comp with
  | some p => c.wcurve.compress (c.wcurve.add p (c.wcurve.mulG il))
  | none => none

end BipVerif.Model
