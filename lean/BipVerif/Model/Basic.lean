/-
Shared vocabulary of the code-shaped models: the error enum, Python slice semantics,
radix digit loops, integer <-> bytes helpers (`IntegerUtils.ToBytes`, `BytesUtils.ToInteger`).
Mathlib-free (the driver links this).
-/
import BipVerif.Prim.Bytes

namespace BipVerif.Model
open BipVerif

/-- Error *classes* observable at the public API.  Python exceptions are mapped to the same enum
by `harness/canon.py`; messages are never compared. -/
inductive Err
  | value       -- ValueError (and subclasses without an own class below)
  | checksum    -- Base58ChecksumError, Bech32ChecksumError, SS58ChecksumError, MnemonicChecksumError
  | key         -- Bip32KeyError, MoneroKeyError, SubstrateKeyError
  | path        -- Bip32PathError, SubstratePathError
  | depth       -- Bip44DepthError
  | type        -- TypeError
  | index       -- IndexError
  | keyErr      -- KeyError
  | overflow    -- OverflowError
  | attr        -- AttributeError
  | assert      -- AssertionError
  | thirdParty  -- an exception class of a third-party package
  | oracleMiss  -- the harness did not ship an oracle answer (harness error, never a verdict)
  | fuel        -- a fuel-bounded loop ran out (never observed; distinct on purpose)
  deriving DecidableEq, Repr, Inhabited

def Err.name : Err → String
  | .value => "Value" | .checksum => "Checksum" | .key => "Key" | .path => "Path"
  | .depth => "Depth" | .type => "Type" | .index => "Index" | .keyErr => "KeyErr"
  | .overflow => "Overflow" | .attr => "Attr" | .assert => "Assert"
  | .thirdParty => "ThirdParty" | .oracleMiss => "OracleMiss" | .fuel => "Fuel"

/-- The documented exception family of C14: `ValueError` and subclasses plus the library's own. -/
def Err.documented : Err → Bool
  | .value | .checksum | .key | .path | .depth => true
  | _ => false

abbrev R := Except Err

/-! ### Python slicing -/

/-- normalise a Python slice bound `i` for a sequence of length `n` (step 1). -/
def pyBound (n : Nat) (i : Int) : Nat :=
  if i < 0 then (if i + n < 0 then 0 else (i + n).toNat) else (if i.toNat > n then n else i.toNat)

/-- `l[a:b]` with arbitrary (possibly negative) integer bounds. -/
def pySlice {α} (l : List α) (a b : Int) : List α :=
  let s := pyBound l.length a
  let e := pyBound l.length b
  (l.take e).drop s

/-- `l[:-k]` -/
def dropLast {α} (l : List α) (k : Nat) : List α := l.take (l.length - k)
/-- `l[-k:]` for `k > 0` -/
def takeLast {α} (l : List α) (k : Nat) : List α := l.drop (l.length - k)

/-- `l[i]` with Python's `IndexError` (non-negative index). -/
def pyIdx {α} (l : List α) (i : Nat) : R α :=
  match l[i]? with
  | some x => pure x
  | none => throw .index

/-! ### radix loops -/

/-- Most-significant-first digits of `v` in radix `r`, pushed in front of `acc` – the shape of
`while val > 0: val, mod = divmod(val, r); out = [mod] + out`. -/
def digitsBE (r : Nat) (v : Nat) (acc : List Nat) : List Nat :=
  if h : v = 0 ∨ r < 2 then acc
  else digitsBE r (v / r) (v % r :: acc)
termination_by v
decreasing_by
  have h1 : v ≠ 0 := fun e => h (Or.inl e)
  have h2 : ¬ r < 2 := fun e => h (Or.inr e)
  exact Nat.div_lt_self (Nat.pos_of_ne_zero h1) (by omega)

/-- value of most-significant-first digits. -/
def ofDigitsBE (r : Nat) (ds : List Nat) : Nat := ds.foldl (fun acc d => acc * r + d) 0

/-- minimal big-endian bytes of `v`; empty for 0. -/
def natToBytesMin (v : Nat) : Bytes := (digitsBE 256 v []).map UInt8.ofNat

/-- `IntegerUtils.GetBytesNumber` -/
def bytesNumber (v : Nat) : Nat := (natToBytesMin v).length.max 1

/-- `int.to_bytes(n, 'big')`: `OverflowError` when it does not fit. -/
def toBytesBE (v : Nat) (n : Nat) : R Bytes :=
  let m := natToBytesMin v
  if m.length ≤ n then pure (List.replicate (n - m.length) 0 ++ m) else throw .overflow

def toBytesLE (v : Nat) (n : Nat) : R Bytes := (toBytesBE v n).map List.reverse

/-- `IntegerUtils.ToBytes(v)` with `bytes_num=None` (so at least one byte). -/
def toBytesAuto (v : Nat) : Bytes :=
  let m := natToBytesMin v
  if m.isEmpty then [0] else m

def leadingCount {α} [BEq α] (x : α) (l : List α) : Nat := (l.takeWhile (· == x)).length

/-! ### binary strings (`bin(n)[2:].zfill(k)`, `int(s, 2)`) -/

def toBinStr (v : Nat) (pad : Nat) : List Bool :=
  let d := (digitsBE 2 v []).map (· == 1)
  let d := if d.isEmpty then [false] else d   -- bin(0) = '0b0'
  List.replicate (pad - d.length) false ++ d

def ofBinStr (bs : List Bool) : Nat := bs.foldl (fun acc b => acc * 2 + (if b then 1 else 0)) 0

/-- chunks of `n` (last one may be shorter); fuel = length. -/
def chunksOf {α} (n : Nat) (l : List α) : List (List α) :=
  let rec go (fuel : Nat) (l : List α) : List (List α) :=
    match fuel with
    | 0 => []
    | fuel+1 => if l.isEmpty then [] else l.take n :: go fuel (l.drop n)
  if n = 0 then [] else go l.length l

end BipVerif.Model
