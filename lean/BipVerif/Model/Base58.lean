/-
Base58 (both alphabets), Base58Check, Monero block-Base58 — models of
bip_utils/base58/base58.py and base58_xmr.py, in the code's own order.
-/
import BipVerif.Model.Basic

namespace BipVerif.Model
open BipVerif

def btcAlphabet : List Char := "123456789ABCDEFGHJKLMNPQRSTUVWXYZabcdefghijkmnopqrstuvwxyz".toList
def xrpAlphabet : List Char := "rpshnaf39wBUDNEGHJKLM4PQRST7VWXYZ2bcdeCg65jkm8oFqi1tuvAxyz".toList

/-- `alphabet.index(c)`; `ValueError` when absent. -/
def alphaIndex (alph : List Char) (c : Char) : R Nat :=
  match alph.idxOf? c with
  | some i => pure i
  | none => throw .value

def b58Encode (alph : List Char) (data : Bytes) : List Char :=
  let v := data.toNatBE
  let enc := (digitsBE 58 v []).map (fun d => alph.getD d 'x')
  let n := leadingCount (0 : UInt8) data
  List.replicate n (alph.getD 0 'x') ++ enc

def b58Decode (alph : List Char) (s : List Char) : R Bytes := do
  let ds ← s.mapM (alphaIndex alph)
  let v := ofDigitsBE 58 ds
  let pad := leadingCount (alph.getD 0 'x') s
  pure (List.replicate pad 0 ++ natToBytesMin v)

/-- `H` is the checksum hash (double SHA-256 in the library). -/
def b58CheckEncode (H : Bytes → Bytes) (alph : List Char) (data : Bytes) : List Char :=
  b58Encode alph (data ++ (H data).take 4)

def b58CheckDecode (H : Bytes → Bytes) (alph : List Char) (s : List Char) : R Bytes := do
  let dec ← b58Decode alph s
  let data := dropLast dec 4
  let ck := takeLast dec 4
  if ck != (H data).take 4 then throw .checksum
  pure data

/-! ### Monero block Base58 -/

def xmrBlockEncLens : List Nat := [0, 2, 3, 5, 6, 7, 9, 10, 11]

/-- `str.rjust(n, '1')` -/
def rjust (n : Nat) (c : Char) (s : List Char) : List Char := List.replicate (n - s.length) c ++ s

def xmrEncode (data : Bytes) : List Char :=
  (chunksOf 8 data).flatMap fun blk =>
    rjust (xmrBlockEncLens.getD blk.length 0) '1' (b58Encode btcAlphabet blk)

/-- `dec_bytes[len(dec_bytes) - unpad_len : len(dec_bytes)]` (Python slice semantics, including
the negative start index when the block decodes to fewer bytes than expected). -/
def xmrUnPad (dec : Bytes) (k : Nat) : Bytes :=
  pySlice dec ((dec.length : Int) - k) dec.length

def xmrDecode (s : List Char) : R Bytes := do
  let lastEnc := s.length % 11
  let lastDec ← match xmrBlockEncLens.idxOf? lastEnc with
    | some i => pure i
    | none => throw .value
  let blocks := chunksOf 11 s
  let decs ← blocks.mapM fun blk => do
    let d ← b58Decode btcAlphabet blk
    let k := if blk.length = 11 then 8 else lastDec
    -- repaired behaviour: a block whose value does not fit `k` bytes is refused (no truncation)
    if (d.dropWhile (· == 0)).length > k then throw .value
    pure (xmrUnPad d k)
  pure decs.flatten

end BipVerif.Model
