/-
BIP-39 mnemonic codec — model of bip_utils/bip/bip39/{bip39_mnemonic_encoder,bip39_mnemonic_decoder,
bip39_mnemonic}.py and utils/mnemonic/mnemonic_utils.py.  Words are `Nat` codes
(big-endian value of 0x01 ‖ utf8(word)); a word list is a `List Nat`.
-/
import BipVerif.Model.Basic
import BipVerif.Gen.Unicode

namespace BipVerif.Model
open BipVerif

/-- `MnemonicWordsList.GetWordIdx` -/
def wordIdx (wl : List Nat) (w : Nat) : R Nat :=
  match wl.idxOf? w with
  | some i => pure i
  | none => throw .value

def bip39EntLens : List Nat := [16, 20, 24, 28, 32]
def bip39WordNums : List Nat := [12, 15, 18, 21, 24]

/-- bits of a byte string, zero-padded to 8·len (`BytesUtils.ToBinaryStr(b, len*8)`). -/
def bytesToBits (b : Bytes) : List Bool := toBinStr (Bytes.toNatBE b) (b.length * 8)

/-- `Bip39MnemonicEncoder.Encode`; `H` = SHA-256. -/
def bip39Encode (H : Bytes → Bytes) (wl : List Nat) (ent : Bytes) : R (List Nat) := do
  if !bip39EntLens.contains ent.length then throw .value
  let bits := bytesToBits ent ++ (toBinStr (Bytes.toNatBE (H ent)) 256).take (ent.length / 4)
  (List.range (bits.length / 11)).mapM fun i =>
    pyIdx wl (ofBinStr ((bits.drop (i * 11)).take 11))

/-- `_FindLanguageGeneric`: the first language (enumeration order) containing every word. -/
def findLanguage (langs : List (List Nat)) (ws : List Nat) : R (List Nat) :=
  match langs.find? (fun wl => ws.all (fun w => wl.contains w)) with
  | some wl => pure wl
  | none => throw .value

/-- `__DecodeAndVerifyBinaryStr`: the verified bit string of the sentence. -/
def bip39DecodeBits (H : Bytes → Bytes) (langs : List (List Nat)) (lang : Option (List Nat)) (ws : List Nat) :
    R (List Bool) := do
  if !bip39WordNums.contains ws.length then throw .value
  let wl ← match lang with
    | some wl => pure wl
    | none => findLanguage langs ws
  let idxs ← ws.mapM (wordIdx wl)
  let bits := idxs.flatMap (fun i => toBinStr i 11)
  let ckLen := bits.length / 33
  let ck := takeLast bits ckLen
  let entBits := dropLast bits ckLen
  let ent ← toBytesBE (ofBinStr entBits) (ckLen * 4)
  let ckGot := (toBinStr (Bytes.toNatBE (H ent)) 256).take ckLen
  if ck != ckGot then throw .checksum
  pure bits

/-- `Bip39MnemonicDecoder.Decode` -/
def bip39Decode (H : Bytes → Bytes) (langs : List (List Nat)) (lang : Option (List Nat)) (ws : List Nat) : R Bytes := do
  let bits ← bip39DecodeBits H langs lang ws
  let ckLen := bits.length / 33
  toBytesBE (ofBinStr (dropLast bits ckLen)) (ckLen * 4)

/-- `Bip39MnemonicDecoder.DecodeWithChecksum` -/
def bip39DecodeWithChecksum (H : Bytes → Bytes) (langs : List (List Nat)) (lang : Option (List Nat)) (ws : List Nat) :
    R Bytes := do
  let bits ← bip39DecodeBits H langs lang ws
  let n := bits.length
  let padBits := if n % 8 = 0 then n else n + (8 - n % 8)
  toBytesBE (ofBinStr bits) (padBits / 8)

/-! ### sentence level: `str.split()`, `lower()`, NFKD -/

/-- `str.split()` with no separator: split on runs of whitespace, no empty tokens. -/
def splitWs (s : List Char) : List (List Char) :=
  let rec go (s : List Char) (cur : List Char) (acc : List (List Char)) : List (List Char) :=
    match s with
    | [] => (if cur.isEmpty then acc else cur.reverse :: acc).reverse
    | c :: rest =>
      if isSpace c then go rest [] (if cur.isEmpty then acc else cur.reverse :: acc)
      else go rest (c :: cur) acc
  go s [] []
where isSpace (c : Char) : Bool := Gen.spaceChars.contains c.toNat

def asciiLower (c : Char) : Char := if 'A' ≤ c ∧ c ≤ 'Z' then Char.ofNat (c.toNat + 32) else c

/-- `NormalizeNfkd(tok.lower())`: computed natively for ASCII tokens, otherwise looked up in the
oracle table shipped with the request (answers computed by `unicodedata` directly). -/
def normToken (oracle : List (List Char × List Char)) (tok : List Char) : R (List Char) :=
  if tok.all (fun c => c.toNat < 128) then pure (tok.map asciiLower)
  else match oracle.lookup tok with
    | some t => pure t
    | none => throw .oracleMiss

def wordCode (w : List Char) : Nat := Bytes.toNatBE (1 :: (String.ofList w).toUTF8.toList)

def codeToWord (n : Nat) : List Char :=
  match String.fromUTF8? (ByteArray.mk ((natToBytesMin n).drop 1).toArray) with
  | some s => s.toList
  | none => []

/-- `Bip39Mnemonic.FromString(...)`: tokens after split / lower / NFKD, as word codes. -/
def bip39Sentence (oracle : List (List Char × List Char)) (s : List Char) : R (List Nat) := do
  let toks ← (splitWs s).mapM (normToken oracle)
  pure (toks.map wordCode)

end BipVerif.Model
