/-
Mnemonic → seed generators — models of bip39_seed_generator.py, substrate_bip39_seed_generator.py,
electrum_v2_seed_generator.py, electrum_v1_seed_generator.py.  `U` supplies the Unicode facts:
`normSentence` = split / lower / NFKD of the sentence into word codes (native for ASCII, oracle
otherwise, see `bip39Sentence`), `saltNfkd` = UTF-8 of NFKD(prefix ++ passphrase).
-/
import BipVerif.Model.Mnemonics
import BipVerif.Prim.Pbkdf2
import BipVerif.Prim.Sha256

namespace BipVerif.Model
open BipVerif BipVerif.Prim

/-- UTF-8 of the normalised words joined by single spaces (`Mnemonic.ToStr()`) -/
def sentenceBytes (ws : List Nat) : Bytes :=
  (String.ofList ((ws.map codeToWord).intersperse [' ']).flatten).toUTF8.toList

/-- `Bip39SeedGenerator(mnemonic, lang).Generate(passphrase)` with `saltNfkd = NFKD("mnemonic" ++ passphrase)` -/
def bip39Seed (H : Bytes → Bytes) (langs : List (List Nat)) (lang : Option (List Nat)) (ws : List Nat) (saltNfkd : Bytes) : R Bytes := do
  let _ ← bip39Decode H langs lang ws
  pure (pbkdf2HmacSha512 (sentenceBytes ws) saltNfkd 2048 64)

/-- Substrate: the *entropy* is the PBKDF2 password -/
def substrateSeed (H : Bytes → Bytes) (langs : List (List Nat)) (lang : Option (List Nat)) (ws : List Nat) (saltNfkd : Bytes) : R Bytes := do
  let ent ← bip39Decode H langs lang ws
  pure (pbkdf2HmacSha512 ent saltNfkd 2048 64)

/-- Electrum v1: 100000 × `h := sha256(h ‖ hex(entropy))` starting from `hex(entropy)` -/
def electrumV1Seed (wl : List Nat) (ws : List Nat) : R Bytes := do
  let ent ← electrumV1Decode wl ws
  let hexb : Bytes := (Bytes.toHex ent).toUTF8.toList
  pure ((List.range 100000).foldl (fun h _ => sha256 (h ++ hexb)) hexb)

/-- Electrum v2 (`valid` = `ElectrumV2MnemonicUtils.IsValidMnemonic`, decided by the caller) -/
def electrumV2Seed (valid : List Nat → Bool) (langs : List (List Nat)) (lang : Option (List Nat)) (ws : List Nat) (saltNfkd : Bytes) : R Bytes := do
  if !(ws.length = 12 || ws.length = 24) then throw .value
  if !valid ws then throw .value
  let _ ← electrumV2DecodeIdx langs lang ws
  pure (pbkdf2HmacSha512 (sentenceBytes ws) saltNfkd 2048 64)

end BipVerif.Model
