/-
Substrate junctions and wallets — model of bip_utils/substrate/{substrate,substrate_path}.py.
The sr25519 operations (third-party Rust) are an oracle: a table of (function, input, output)
triples shipped with the request; a missing entry is reported, never defaulted.
-/
import BipVerif.Model.Addr
import BipVerif.Model.Scale

namespace BipVerif.Model
open BipVerif BipVerif.Prim

/-- oracle table: (function name, input bytes, output bytes) -/
abbrev Oracle := List (String × Bytes × Bytes)

def Oracle.ask (o : Oracle) (fn : String) (inp : Bytes) : Option Bytes :=
  (o.find? fun e => e.1 == fn && e.2.1 == inp).map (·.2.2)

structure SubElem where
  text : List Char      -- without slashes
  hard : Bool
  deriving DecidableEq, Repr

/-- `re.findall(r"\/+[^/]+", path)`: maximal runs of slashes followed by a maximal run of non-slashes -/
def subTokens (s : List Char) : List (List Char) :=
  let rec go (fuel : Nat) (s : List Char) (acc : List (List Char)) : List (List Char) :=
    match fuel with
    | 0 => acc.reverse
    | fuel+1 =>
      let s := s.dropWhile (· ≠ '/')          -- skip text not preceded by a slash (cannot match)
      if s.isEmpty then acc.reverse
      else
        let sl := s.takeWhile (· == '/')
        let rest := s.dropWhile (· == '/')
        let body := rest.takeWhile (· ≠ '/')
        if body.isEmpty then acc.reverse      -- trailing slashes: no match
        else go fuel (rest.dropWhile (· ≠ '/')) ((sl ++ body) :: acc)
  go (s.length + 1) s []

/-- `SubstratePathElem(elem)` -/
def subElemOf (e : List Char) : R SubElem :=
  let nsl := (e.takeWhile (· == '/')).length
  let body := e.filter (· ≠ '/')
  -- startswith("/") ∧ rfind("/") < 2 ∧ something besides slashes
  let lastSlash := (rfind e '/').getD 0
  if nsl ≥ 1 && lastSlash < 2 && !body.isEmpty then pure { text := body, hard := nsl ≥ 2 }
  else throw .path

/-- `SubstratePathParser.Parse` (repaired: the matches must cover the whole string) -/
def subParsePath (s : List Char) : R (List SubElem) := do
  if !s.isEmpty && s.head? ≠ some '/' then throw .path
  let toks := subTokens s
  if toks.flatten ≠ s then throw .path
  toks.mapM subElemOf

def subPrintElem (e : SubElem) : List Char := (if e.hard then ['/', '/'] else ['/']) ++ e.text
def subPrintPath (p : List SubElem) : List Char := (p.map subPrintElem).flatten

/-- `SubstratePathElem.ChainCode()` -/
def subChainCode (e : SubElem) : R Bytes := do
  let enc ← match parseDecimal e.text with
    | some v =>
      let bits := if v = 0 then 0 else Nat.log2 v + 1
      let width ← if bits ≤ 8 then pure 1 else if bits ≤ 16 then pure 2 else if bits ≤ 32 then pure 4
        else if bits ≤ 64 then pure 8 else if bits ≤ 128 then pure 16 else if bits ≤ 256 then pure 32
        else throw Err.path
      scaleUint v width
    | none => scaleBytes (String.ofList e.text).toUTF8.toList
  if enc.length > 32 then pure (blake2b256 enc) else pure (enc ++ List.replicate (32 - enc.length) 0)

structure SubNode where
  priv : Option Bytes
  pub : Bytes
  path : List SubElem
  deriving DecidableEq, Repr

def askOr (o : Oracle) (fn : String) (inp : Bytes) : R Bytes :=
  match o.ask fn inp with
  | some b => pure b
  | none => throw .oracleMiss

def subFromSeed (o : Oracle) (seed : Bytes) : R SubNode := do
  if seed.length < 32 then throw .value
  let r ← askOr o "sr_pair" (seed.take 32)
  pure { priv := some (r.drop 32), pub := r.take 32, path := [] }

def subFromPriv (o : Oracle) (priv : Bytes) : R SubNode := do
  if priv.length ≠ 64 then throw .key
  pure { priv := some priv, pub := ← askOr o "sr_pub" priv, path := [] }

def subFromPub (pub : Bytes) : R SubNode :=
  if pub.length ≠ 32 then throw .key else pure { priv := none, pub := pub, path := [] }

/-- `Substrate.ChildKey(path_elem)` -/
def subChildKey (o : Oracle) (nd : SubNode) (e : SubElem) : R SubNode := do
  match nd.priv with
  | some priv =>
    let cc ← subChainCode e
    let r ← askOr o (if e.hard then "sr_hard" else "sr_soft") (cc ++ nd.pub ++ priv)
    pure { priv := some (r.drop 32), pub := r.take 32, path := nd.path ++ [e] }
  | none =>
    if e.hard then throw .key
    let cc ← subChainCode e
    let r ← askOr o "sr_softpub" (cc ++ nd.pub)
    pure { priv := none, pub := r, path := nd.path ++ [e] }

def subDerivePath (o : Oracle) (nd : SubNode) (p : List SubElem) : R SubNode := p.foldlM (subChildKey o) nd

/-- `SubstratePublicKey.ToAddress()` -/
def subAddress (fmt : Nat) (nd : SubNode) : R (List Char) := ss58Encode blake2b512 nd.pub fmt

end BipVerif.Model
