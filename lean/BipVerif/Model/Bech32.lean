/-
Bech32 / Bech32m / SegWit / CashAddr — models of bip_utils/bech32/*.py.
-/
import BipVerif.Model.Basic

namespace BipVerif.Model
open BipVerif

def bech32Charset : List Char := "qpzry9x8gf2tvdw0s3jn54khce6mua7l".toList

/-- `Bech32BaseUtils.ConvertBits` on a list of naturals. `none` mirrors Python's `None`. -/
def convertBits (data : List Nat) (fromBits toBits : Nat) (pad : Bool) : Option (List Nat) :=
  let maxOut := (1 <<< toBits) - 1
  let maxAcc := (1 <<< (fromBits + toBits - 1)) - 1
  let rec drain (fuel acc bits : Nat) (ret : List Nat) : Nat × List Nat :=
    match fuel with
    | 0 => (bits, ret)
    | fuel+1 =>
      if bits ≥ toBits ∧ toBits > 0 then
        let bits' := bits - toBits
        drain fuel acc bits' (ret ++ [(acc >>> bits') &&& maxOut])
      else (bits, ret)
  let rec go (data : List Nat) (acc bits : Nat) (ret : List Nat) : Option (List Nat) :=
    match data with
    | [] =>
      if pad then
        if bits ≠ 0 then some (ret ++ [(acc <<< (toBits - bits)) &&& maxOut]) else some ret
      else if bits ≥ fromBits ∨ ((acc <<< (toBits - bits)) &&& maxOut) ≠ 0 then none
      else some ret
    | v :: rest =>
      if v >>> fromBits ≠ 0 then none
      else
        let acc := ((acc <<< fromBits) ||| v) &&& maxAcc
        let bits := bits + fromBits
        let (bits, ret) := drain (bits + 1) acc bits ret
        go rest acc bits ret
  go data 0 0 []

def bech32Generator : List Nat := [996825010, 642813549, 513874426, 1027748829, 705979059]

def bech32PolyMod (values : List Nat) : Nat :=
  values.foldl (fun chk value =>
    let top := chk >>> 25
    let chk := ((chk &&& 33554431) <<< 5) ^^^ value
    (List.range 5).foldl (fun chk i =>
      if (top >>> i) &&& 1 = 1 then chk ^^^ bech32Generator.getD i 0 else chk) chk) 1

def bech32HrpExpand (hrp : List Char) : List Nat :=
  hrp.map (fun c => c.toNat >>> 5) ++ [0] ++ hrp.map (fun c => c.toNat &&& 31)

/-- `1` for Bech32, `0x2bc830a3` for Bech32m. -/
def bech32Const (m : Bool) : Nat := if m then 734539939 else 1

def bech32Checksum (hrp : List Char) (data : List Nat) (m : Bool) : List Nat :=
  let pm := bech32PolyMod (bech32HrpExpand hrp ++ data ++ [0,0,0,0,0,0]) ^^^ bech32Const m
  (List.range 6).map fun i => (pm >>> (5 * (5 - i))) &&& 31

def bech32Verify (hrp : List Char) (data : List Nat) (m : Bool) : Bool :=
  bech32PolyMod (bech32HrpExpand hrp ++ data) == bech32Const m

def bchGenerator : List (Nat × Nat) :=
  [(1, 656907472481), (2, 522768456162), (4, 1044723512260), (8, 748107326120), (16, 130178868336)]

def bchPolyMod (values : List Nat) : Nat :=
  (values.foldl (fun chk value =>
    let top := chk >>> 35
    let chk := ((chk &&& 34359738367) <<< 5) ^^^ value
    bchGenerator.foldl (fun chk g => if top &&& g.1 ≠ 0 then chk ^^^ g.2 else chk) chk) 1) ^^^ 1

def bchHrpExpand (hrp : List Char) : List Nat := hrp.map (fun c => c.toNat &&& 31) ++ [0]

def bchChecksum (hrp : List Char) (data : List Nat) : List Nat :=
  let pm := bchPolyMod (bchHrpExpand hrp ++ data ++ [0,0,0,0,0,0,0,0])
  (List.range 8).map fun i => (pm >>> (5 * (7 - i))) &&& 31

def bchVerify (hrp : List Char) (data : List Nat) : Bool := bchPolyMod (bchHrpExpand hrp ++ data) == 0

/-- which of the three checksum flavours a coder uses -/
inductive BechKind | bech32 | segwit | bch
  deriving DecidableEq, Repr

def BechKind.sep : BechKind → Char
  | .bch => ':' | _ => '1'
def BechKind.ckLen : BechKind → Nat
  | .bch => 8 | _ => 6
def BechKind.checksum (k : BechKind) (hrp : List Char) (data : List Nat) : List Nat :=
  match k with
  | .bech32 => bech32Checksum hrp data false
  | .segwit => bech32Checksum hrp data (data.head? != some 0)
  | .bch => bchChecksum hrp data
/-- `_VerifyChecksum`; the SegWit flavour reads `data[0]` (IndexError on empty data cannot happen:
the data part has at least `ckLen + 1` symbols). -/
def BechKind.verify (k : BechKind) (hrp : List Char) (data : List Nat) : Bool :=
  match k with
  | .bech32 => bech32Verify hrp data false
  | .segwit => bech32Verify hrp data (data.head? != some 0)
  | .bch => bchVerify hrp data

/-- `_EncodeBech32` -/
def bechEncodeRaw (k : BechKind) (hrp : List Char) (data : List Nat) : List Char :=
  let d := data ++ k.checksum hrp data
  hrp ++ [k.sep] ++ d.map (fun x => bech32Charset.getD x '?')

/-- Unicode facts used by `_DecodeBech32` as parameters (`str.islower/isupper/lower`). -/
structure CaseOracle where
  isLower : Char → Bool
  isUpper : Char → Bool
  lower : Char → List Char

/-- ASCII instance extended with the single non-ASCII code point whose `lower()` is ASCII
(KELVIN SIGN U+212A → `k`); every other non-ASCII character lower-cases to non-ASCII text and is
therefore rejected by the HRP / charset tests whatever its exact image is. The harness checks this
table against `str.lower` on every run (the case oracle differential). -/
def asciiCase : CaseOracle where
  isLower c := ('a' ≤ c ∧ c ≤ 'z')
  isUpper c := ('A' ≤ c ∧ c ≤ 'Z') ∨ c.toNat = 0x212A
  lower c := if 'A' ≤ c ∧ c ≤ 'Z' then [Char.ofNat (c.toNat + 32)]
             else if c.toNat = 0x212A then ['k'] else [c]

/-- last position of `sep` (`str.rfind`). -/
def rfind (s : List Char) (sep : Char) : Option Nat :=
  let n := s.length
  match (s.reverse.idxOf? sep) with
  | some i => some (n - 1 - i)
  | none => none

/-- `_DecodeBech32`: returns `(hrp, data without checksum)`.
`hasLower/hasUpper` are supplied by the caller for non-ASCII text (Unicode oracle); for ASCII they
are computed. -/
def bechDecodeRaw (U : CaseOracle) (k : BechKind) (s : List Char) (mixedNonAscii : Bool := false) :
    R (List Char × List Nat) := do
  if s.any (fun c => c.toNat ≥ 128) then throw .value     -- `str.isascii()` guard (non-ASCII text is refused before lower-casing)
  if (s.any U.isLower && s.any U.isUpper) || mixedNonAscii then throw .value
  let s := s.flatMap U.lower
  let sepPos ← match rfind s k.sep with
    | some p => pure p
    | none => throw .value
  let hrp := s.take sepPos
  if hrp.length = 0 || hrp.any (fun x => x.toNat < 33 || x.toNat > 126) then throw .value
  let dataPart := s.drop (sepPos + 1)
  if dataPart.length < k.ckLen + 1 || !(dataPart.all (fun x => bech32Charset.contains x)) then
    throw .value
  let intData := dataPart.map (fun x => (bech32Charset.idxOf? x).getD 0)
  if !(k.verify hrp intData) then throw .checksum
  pure (hrp, dropLast intData k.ckLen)

def natsToBytes (l : List Nat) : Bytes := l.map UInt8.ofNat
def bytesToNats (b : Bytes) : List Nat := b.map UInt8.toNat

/-- `ConvertToBase32` / `ConvertFromBase32` (a `None` becomes `ValueError`). -/
def toBase32 (data : List Nat) : R (List Nat) :=
  match convertBits data 8 5 true with | some r => pure r | none => throw .value
def fromBase32 (data : List Nat) : R (List Nat) :=
  match convertBits data 5 8 false with | some r => pure r | none => throw .value

def bech32Encode (hrp : List Char) (data : Bytes) : R (List Char) := do
  pure (bechEncodeRaw .bech32 hrp (← toBase32 (bytesToNats data)))

def bech32Decode (U : CaseOracle) (hrp : List Char) (addr : List Char) : R Bytes := do
  let (hrpGot, data) ← bechDecodeRaw U .bech32 addr
  if hrp != hrpGot then throw .value
  pure (natsToBytes (← fromBase32 data))

def segwitEncode (hrp : List Char) (witVer : Nat) (prog : Bytes) : R (List Char) := do
  pure (bechEncodeRaw .segwit hrp (witVer :: (← toBase32 (bytesToNats prog))))

def segwitDecode (U : CaseOracle) (hrp : List Char) (addr : List Char) : R (Nat × Bytes) := do
  let (hrpGot, data) ← bechDecodeRaw U .segwit addr
  if hrp != hrpGot then throw .value
  let conv ← fromBase32 (data.drop 1)
  if conv.length < 2 || conv.length > 40 then throw .value
  let witVer ← pyIdx data 0
  if witVer > 16 then throw .value
  if witVer = 0 && !(conv.length = 20 || conv.length = 32) then throw .value
  pure (witVer, natsToBytes conv)

def bchEncode (hrp : List Char) (netVer data : Bytes) : R (List Char) := do
  pure (bechEncodeRaw .bch hrp (← toBase32 (bytesToNats (netVer ++ data))))

def bchDecode (U : CaseOracle) (hrp : List Char) (addr : List Char) : R (Bytes × Bytes) := do
  let (hrpGot, data) ← bechDecodeRaw U .bch addr
  if hrp != hrpGot then throw .value
  let conv ← fromBase32 data
  let v ← pyIdx conv 0
  pure (toBytesAuto v, natsToBytes (conv.drop 1))

end BipVerif.Model
