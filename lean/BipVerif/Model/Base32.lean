/-
Base32 — model of bip_utils/utils/misc/base32.py on top of CPython's base64.b32encode/b32decode
(the stdlib algorithm is modelled step by step, including its padding rules).
-/
import BipVerif.Model.Basic

namespace BipVerif.Model
open BipVerif

def b32Std : List Char := "ABCDEFGHIJKLMNOPQRSTUVWXYZ234567".toList

/-- `str.translate(str.maketrans(frm, to))`: characters outside `frm` pass through unchanged. -/
def translate (frm to : List Char) (s : List Char) : List Char :=
  s.map fun c => match frm.idxOf? c with
    | some i => to.getD i c
    | none => c

/-- `base64.b32encode` (standard alphabet, with `=` padding). -/
def b32encodeStd (data : Bytes) : List Char :=
  let leftover := data.length % 5
  let s := if leftover ≠ 0 then data ++ List.replicate (5 - leftover) 0 else data
  let enc := (chunksOf 5 s).flatMap fun blk =>
    let c := Bytes.toNatBE blk
    (List.range 8).map fun i => b32Std.getD ((c >>> (5 * (7 - i))) &&& 31) '?'
  let npad := match leftover with | 1 => 6 | 2 => 4 | 3 => 3 | 4 => 1 | _ => 0
  enc.take (enc.length - npad) ++ List.replicate npad '='

/-- `Base32Encoder.Encode` -/
def base32Encode (data : Bytes) (custom : Option (List Char)) : List Char :=
  let e := b32encodeStd data
  match custom with
  | some a => translate b32Std a e
  | none => e

def rstripChar (c : Char) (s : List Char) : List Char := (s.reverse.dropWhile (· == c)).reverse

/-- `Base32Encoder.EncodeNoPadding` -/
def base32EncodeNoPad (data : Bytes) (custom : Option (List Char)) : List Char :=
  rstripChar '=' (base32Encode data custom)

/-- `base64.b32decode` on text (standard alphabet, no casefold).  `binascii.Error` and the
non-ASCII `ValueError` both surface as `ValueError` through `Base32Decoder.Decode`. -/
def b32decodeStd (s : List Char) : R Bytes := do
  if s.any (fun c => c.toNat ≥ 128) then throw .value
  if s.length % 8 ≠ 0 then throw .value
  let l := s.length
  let s := rstripChar '=' s
  let padchars := l - s.length
  let quanta := chunksOf 8 s
  let accs ← quanta.mapM fun q =>
    q.foldlM (fun acc c => match b32Std.idxOf? c with
      | some i => pure (acc * 32 + i)
      | none => throw Err.value) 0
  let decoded : Bytes := accs.flatMap fun acc => Bytes.ofNatBE 5 acc
  if !(padchars = 0 || padchars = 1 || padchars = 3 || padchars = 4 || padchars = 6) then throw .value
  if padchars ≠ 0 && !decoded.isEmpty then
    let acc := (accs.getLast?.getD 0) <<< (5 * padchars)
    let last := Bytes.ofNatBE 5 acc
    let leftover := (43 - 5 * padchars) / 8
    pure (dropLast decoded 5 ++ last.take leftover)
  else pure decoded

def addPadding (s : List Char) : List Char :=
  let w := s.length % 8
  if w ≠ 0 then s ++ List.replicate (8 - w) '=' else s

/-- `Base32Decoder.Decode` (repaired: only the canonical encoding is accepted — the decoded bytes
must re-encode to the input without its `=` padding). -/
def base32Decode (s : List Char) (custom : Option (List Char)) : R Bytes := do
  let d := addPadding s
  let d := match custom with
    | some a => translate a b32Std d
    | none => d
  let dec ← b32decodeStd d
  if base32EncodeNoPad dec custom != rstripChar '=' s then throw .value
  pure dec

end BipVerif.Model
