/-
BIP-38 — models of bip_utils/bip/bip38/{bip38_no_ec,bip38_ec,bip38_addr}.py.
The passphrase arrives already NFC-normalised (the harness computes NFC with `unicodedata`
directly, so a missing normalisation in the library shows up as a disagreement); the random
owner salt and `seedb` drawn inside the library are explicit inputs.
-/
import BipVerif.Model.Addr
import BipVerif.Prim.Scrypt
import BipVerif.Prim.Aes

namespace BipVerif.Model
open BipVerif BipVerif.Prim

def xorBytes (a b : Bytes) : Bytes := (a.zip b).map fun (x, y) => x ^^^ y

/-- `Bip38Addr.AddressHash`: first 4 bytes of SHA-256d of the Bitcoin main-net P2PKH address text -/
def bip38AddrHash (pubComp : Bytes) (compressed : Bool) : R Bytes := do
  let addr ← p2pkhEncode [0] btcAlphabet compressed pubComp
  pure ((sha256d (String.ofList addr).toUTF8.toList).take 4)

def secpPubOfPriv (k : Bytes) : R Bytes :=
  if !privValid .secp256k1 k then throw .value
  else match pubOfPriv .secp256k1 k with
    | some p => pure p
    | none => throw .value

/-- scalar multiplication as the point adapters do it: the scalar is reduced modulo `n`; a zero
result (point at infinity) is refused -/
def secpMul (pubComp : Bytes) (s : Nat) : R Bytes :=
  let s := s % Prim.secp256k1.n
  if s = 0 then throw .value
  else match Prim.secp256k1.decode pubComp with
    | some p => match Prim.secp256k1.compress (Prim.secp256k1.mul s p) with
      | some c => pure c
      | none => throw .value
    | none => throw .value

def secpMulG (s : Nat) : R Bytes :=
  let s := s % Prim.secp256k1.n
  if s = 0 then throw .value
  else match Prim.secp256k1.compress (Prim.secp256k1.mulG s) with
    | some c => pure c
    | none => throw .value

/-! ### without EC multiplication -/

def bip38NoEcEncrypt (priv passNfc : Bytes) (compressed : Bool) : R (List Char) := do
  let pub ← secpPubOfPriv priv
  let ah ← bip38AddrHash pub compressed
  let key := scrypt passNfc ah 16384 8 8 64
  let (dh1, dh2) := (key.take 32, key.drop 32)
  let e1 := aes256EncryptBlock dh2 (xorBytes (priv.take 16) (dh1.take 16))
  let e2 := aes256EncryptBlock dh2 (xorBytes (priv.drop 16) (dh1.drop 16))
  let flag : UInt8 := if compressed then 0xe0 else 0xc0
  pure (b58CheckEncode sha256d btcAlphabet ([0x01, 0x42, flag] ++ ah ++ e1 ++ e2))

def bip38NoEcDecrypt (enc : List Char) (passNfc : Bytes) : R (Bytes × Bool) := do
  let b ← b58CheckDecode sha256d btcAlphabet enc
  if b.length ≠ 39 then throw .value
  let flag ← pyIdx b 2
  let ah := (b.drop 3).take 4
  let e1 := (b.drop 7).take 16
  let e2 := b.drop 23
  if b.take 2 ≠ [0x01, 0x42] then throw .value
  if !(flag = 0xe0 || flag = 0xc0) then throw .value
  let key := scrypt passNfc ah 16384 8 8 64
  let (dh1, dh2) := (key.take 32, key.drop 32)
  let priv := xorBytes (aes256DecryptBlock dh2 e1 ++ aes256DecryptBlock dh2 e2) dh1
  let compressed := flag = 0xe0
  let pub ← secpPubOfPriv priv
  let ah' ← bip38AddrHash pub compressed
  if ah ≠ ah' then throw .value
  pure (priv, compressed)

/-! ### with EC multiplication -/

def magicLotSeq : Bytes := [0x2c, 0xe9, 0xb3, 0xe1, 0xff, 0x39, 0xe2, 0x51]
def magicNoLotSeq : Bytes := [0x2c, 0xe9, 0xb3, 0xe1, 0xff, 0x39, 0xe2, 0x53]

def bip38PassFactor (passNfc ownerEntropy : Bytes) (hasLotSeq : Bool) : Bytes :=
  let salt := if hasLotSeq then ownerEntropy.take 4 else ownerEntropy
  let pre := scrypt passNfc salt 16384 8 8 32
  if hasLotSeq then sha256d (pre ++ ownerEntropy) else pre

/-- `GenerateIntermediatePassphrase`; `salt` = the bytes `os.urandom` returned (4 with lot/sequence,
8 without). -/
def bip38Intermediate (passNfc salt : Bytes) (lotSeq : Option (Nat × Nat)) : R (List Char) := do
  let oe ← match lotSeq with
    | some (lot, seq) => do
      if lot > 1048575 then throw .value
      if seq > 4095 then throw .value
      pure (salt.take 4 ++ Bytes.ofNatBE 4 (lot * 4096 + seq))
    | none => pure salt
  let pf := bip38PassFactor passNfc oe lotSeq.isSome
  let pp ← secpMulG (Bytes.toNatBE pf)
  pure (b58CheckEncode sha256d btcAlphabet ((if lotSeq.isSome then magicLotSeq else magicNoLotSeq) ++ oe ++ pp))

/-- `GeneratePrivateKey`; `seedb` = the 24 bytes `os.urandom` returned. -/
def bip38EcGenerate (intPass : List Char) (seedb : Bytes) (compressed : Bool) : R (List Char) := do
  let b ← b58CheckDecode sha256d btcAlphabet intPass
  if b.length ≠ 49 then throw .value
  let magic := b.take 8
  let oe := (b.drop 8).take 8
  let pp ← addrKey .secp256k1 (b.drop 16)
  if !(magic = magicNoLotSeq || magic = magicLotSeq) then throw .value
  let factorb := sha256d seedb
  let pt ← secpMul pp (Bytes.toNatBE factorb)
  let ah ← bip38AddrHash pt compressed
  let key := scrypt pp (ah ++ oe) 1024 1 1 64
  let (dh1, dh2) := (key.take 32, key.drop 32)
  let e1 := aes256EncryptBlock dh2 (xorBytes (seedb.take 16) (dh1.take 16))
  let e2 := aes256EncryptBlock dh2 (xorBytes (e1.drop 8 ++ seedb.drop 16) (dh1.drop 16))
  let flag : Nat := (if compressed then 32 else 0) + (if magic = magicLotSeq then 4 else 0)
  pure (b58CheckEncode sha256d btcAlphabet ([0x01, 0x43] ++ toBytesAuto flag ++ ah ++ oe ++ e1.take 8 ++ e2))

def bip38EcDecrypt (enc : List Char) (passNfc : Bytes) : R (Bytes × Bool) := do
  let b ← b58CheckDecode sha256d btcAlphabet enc
  if b.length ≠ 39 then throw .value
  let flag ← pyIdx b 2
  let ah := (b.drop 3).take 4
  let oe := (b.drop 7).take 8
  let e1lo := (b.drop 15).take 8
  let e2 := b.drop 23
  if b.take 2 ≠ [0x01, 0x43] then throw .value
  let f := flag.toNat
  let hasLotSeq := (f / 4) % 2 = 1
  let compressed := (f / 32) % 2 = 1
  if f - (if hasLotSeq then 4 else 0) - (if compressed then 32 else 0) ≠ 0 then throw .value
  let pf := bip38PassFactor passNfc oe hasLotSeq
  let pp ← secpMulG (Bytes.toNatBE pf)
  let key := scrypt pp (ah ++ oe) 1024 1 1 64
  let (dh1, dh2) := (key.take 32, key.drop 32)
  let d2 := xorBytes (aes256DecryptBlock dh2 e2) (dh1.drop 16)
  let e1hi := d2.take 8
  let seedb2 := d2.drop 8
  let seedb1 := xorBytes (aes256DecryptBlock dh2 (e1lo ++ e1hi)) (dh1.take 16)
  let factorb := sha256d (seedb1 ++ seedb2)
  let privInt := (Bytes.toNatBE pf * Bytes.toNatBE factorb) % Prim.secp256k1.n
  let priv ← toBytesBE privInt 32
  let pub ← secpPubOfPriv priv
  let ah' ← bip38AddrHash pub compressed
  if ah ≠ ah' then throw .value
  pure (priv, compressed)

end BipVerif.Model
