/-
A generic model of memoised methods (`functools.lru_cache` on a method, keyed by `self` and the
arguments) on objects whose state can be mutated (`ConvertToPublic`, option toggles), and of
concurrent calls as interleavings of atomic `lookup / compute / store` steps (dictionary operations
are atomic under the GIL).  Mathlib-free.
-/
namespace BipVerif.Model.Memo

/-- a memoised method: its result as a function of the (mutable) state it can see and its argument -/
structure Method (St Arg Out : Type) where
  pureOut : St → Arg → Out

/-- object state plus the cache (most recent entry first) -/
structure MState (St Arg Out : Type) where
  st : St
  cache : List (Arg × Out)

inductive Op (St Arg : Type)
  | call (a : Arg)
  | mutate (f : St → St)

variable {St Arg Out : Type} [DecidableEq Arg]

/-- the memoising machine: a hit returns the stored value, a miss computes and stores it -/
def stepMemo (m : Method St Arg Out) (s : MState St Arg Out) : Op St Arg → MState St Arg Out × Option Out
  | .call a =>
    match s.cache.lookup a with
    | some o => (s, some o)
    | none => let o := m.pureOut s.st a; ({ s with cache := (a, o) :: s.cache }, some o)
  | .mutate f => ({ s with st := f s.st }, none)

/-- the reference machine: always computes -/
def stepPure (m : Method St Arg Out) (st : St) : Op St Arg → St × Option Out
  | .call a => (st, some (m.pureOut st a))
  | .mutate f => (f st, none)

def runMemo (m : Method St Arg Out) (s : MState St Arg Out) : List (Op St Arg) → List (Option Out)
  | [] => []
  | op :: rest => let (s', o) := stepMemo m s op; o :: runMemo m s' rest

def runPure (m : Method St Arg Out) (st : St) : List (Op St Arg) → List (Option Out)
  | [] => []
  | op :: rest => let (st', o) := stepPure m st op; o :: runPure m st' rest

/-- the memoised body does not read what the mutation `f` changes -/
def Independent (m : Method St Arg Out) (f : St → St) : Prop := ∀ st a, m.pureOut (f st) a = m.pureOut st a

/-- every mutation occurring in the history leaves the method's result unchanged -/
def HistoryIndependent (m : Method St Arg Out) : List (Op St Arg) → Prop
  | [] => True
  | .call _ :: rest => HistoryIndependent m rest
  | .mutate f :: rest => Independent m f ∧ HistoryIndependent m rest

/-! ### concurrency: calls split into atomic steps -/

/-- one atomic step of thread `t`: look the argument up, compute the body, store the result -/
inductive Atom (Arg : Type)
  | lookup (t : Nat) (a : Arg)
  | compute (t : Nat)
  | store (t : Nat)

/-- per-thread progress of one call -/
inductive Phase (Arg Out : Type)
  | idle
  | missed (a : Arg)            -- looked up, not found
  | computed (a : Arg) (o : Out)
  | done (o : Out)

structure CState (Arg Out : Type) where
  cache : List (Arg × Out)
  phase : Nat → Phase Arg Out

def cstep (m : Method St Arg Out) (st : St) (s : CState Arg Out) : Atom Arg → CState Arg Out
  | .lookup t a =>
    match s.cache.lookup a with
    | some o => { s with phase := fun u => if u = t then .done o else s.phase u }
    | none => { s with phase := fun u => if u = t then .missed a else s.phase u }
  | .compute t =>
    match s.phase t with
    | .missed a => { s with phase := fun u => if u = t then .computed a (m.pureOut st a) else s.phase u }
    | _ => s
  | .store t =>
    match s.phase t with
    | .computed a o => { cache := (a, o) :: s.cache, phase := fun u => if u = t then .done o else s.phase u }
    | _ => s

def crun (m : Method St Arg Out) (st : St) (s : CState Arg Out) (sched : List (Atom Arg)) : CState Arg Out :=
  sched.foldl (cstep m st) s

/-! ### memos keyed by only part of the argument

Hand-rolled memos (`if self.m_x is None: self.m_x = ...`, `self.m_cache[index] = ...`) store the
result under a *key computed from the argument* — possibly not the whole argument.  `key := id` is
the whole-argument machine above; `K := Unit` is the single-slot memo. -/

section Keyed

variable {St Arg K Out : Type} [DecidableEq K]

/-- a memoised method together with the key its cache is indexed by -/
structure KMethod (St Arg K Out : Type) where
  pureOut : St → Arg → Out
  key : Arg → K

/-- the underlying (un-memoised) method -/
def KMethod.toMethod (m : KMethod St Arg K Out) : Method St Arg Out := ⟨m.pureOut⟩

/-- object state plus the cache indexed by keys (most recent entry first) -/
structure KState (St K Out : Type) where
  st : St
  cache : List (K × Out)

/-- the keyed memoising machine: a call looks `key a` up; a hit returns the stored value, a miss
computes the body and stores the result under `key a`; mutations keep the cache -/
def stepKeyed (m : KMethod St Arg K Out) (s : KState St K Out) : Op St Arg → KState St K Out × Option Out
  | .call a =>
    match s.cache.lookup (m.key a) with
    | some o => (s, some o)
    | none => let o := m.pureOut s.st a; ({ s with cache := (m.key a, o) :: s.cache }, some o)
  | .mutate f => ({ s with st := f s.st }, none)

def runKeyed (m : KMethod St Arg K Out) (s : KState St K Out) : List (Op St Arg) → List (Option Out)
  | [] => []
  | op :: rest => let (s', o) := stepKeyed m s op; o :: runKeyed m s' rest

/-- the result is a function of the key: arguments the key does not distinguish give equal results -/
def KeyRespects (m : KMethod St Arg K Out) : Prop :=
  ∀ st a b, m.key a = m.key b → m.pureOut st a = m.pureOut st b

end Keyed

end BipVerif.Model.Memo
