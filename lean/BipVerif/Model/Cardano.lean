/-
Cardano addresses (Byron Icarus / Byron legacy, Shelley payment and staking) and the Byron-legacy
wallet — models of bip_utils/addr/ada_byron_addr.py, ada_shelley_addr.py and
bip_utils/cardano/byron/cardano_byron_legacy.py.  CBOR is produced for exactly the shapes
`cbor2.dumps` emits here (definite lengths, shortest integer heads).
-/
import BipVerif.Model.Addr
import BipVerif.Model.Kholaw
import BipVerif.Model.Scale

namespace BipVerif.Model
open BipVerif BipVerif.Prim

/-- CBOR head: major type and argument in shortest form -/
def cborHead (major n : Nat) : Bytes :=
  let m := major * 32
  if n < 24 then [UInt8.ofNat (m + n)]
  else if n < 2 ^ 8 then UInt8.ofNat (m + 24) :: Bytes.ofNatBE 1 n
  else if n < 2 ^ 16 then UInt8.ofNat (m + 25) :: Bytes.ofNatBE 2 n
  else if n < 2 ^ 32 then UInt8.ofNat (m + 26) :: Bytes.ofNatBE 4 n
  else UInt8.ofNat (m + 27) :: Bytes.ofNatBE 8 n

def cborBytesItem (b : Bytes) : Bytes := cborHead 2 b.length ++ b

/-- `_AdaByronAddrAttrs.ToDict()` serialised: `{1: dumps(hd_path_enc)}` or `{}` -/
def byronAttrs (hdEnc : Option Bytes) : Bytes :=
  match hdEnc with
  | some e => cborHead 5 1 ++ cborHead 0 1 ++ cborBytesItem (cborBytesItem e)
  | none => cborHead 5 0

/-- `_AdaByronAddrUtils.EncodeKey` (address type PUBLIC_KEY = 0) -/
def byronAddrBytes (pubNoPrefix cc : Bytes) (hdEnc : Option Bytes) : Bytes :=
  let attrs := byronAttrs hdEnc
  let root := cborHead 4 3 ++ cborHead 0 0 ++ (cborHead 4 2 ++ cborHead 0 0 ++ cborBytesItem (pubNoPrefix ++ cc)) ++ attrs
  let rootHash := blake2b224 (sha3_256 root)
  let payload := cborHead 4 3 ++ cborBytesItem rootHash ++ attrs ++ cborHead 0 0
  cborHead 4 2 ++ (cborHead 6 24 ++ cborBytesItem payload) ++ cborHead 0 (crc32 payload)

def byronIcarusEncode (pub cc : Bytes) : R (List Char) := do
  let k ← addrKey .ed25519 pub
  if cc.length ≠ 32 then throw .value
  pure (b58Encode btcAlphabet (byronAddrBytes (k.drop 1) cc none))

/-- AEAD used for the derivation path: (key, nonce, aad, plaintext) ↦ ciphertext ‖ tag -/
abbrev Aead := Bytes → Bytes → Bytes → Bytes → Bytes

def byronNonce : Bytes := "serokellfore".toUTF8.toList

def byronLegacyEncode (aead : Aead) (pub cc : Bytes) (path : List Nat) (hdKey : Option Bytes) : R (List Char) := do
  match hdKey with
  | some k => if k.length ≠ 32 then throw .value
  | none => pure ()
  let k ← addrKey .ed25519 pub
  if cc.length ≠ 32 then throw .value
  let hdEnc ← match hdKey with
    | some key => do
      let plain ← cborIndefEncode path
      pure (some (aead key byronNonce [] plain))
    | none => pure none
  pure (b58Encode btcAlphabet (byronAddrBytes (k.drop 1) cc hdEnc))

/-! a reader for exactly the address shape produced above (used to check `decode ∘ encode` and the
recovered path); anything else is outside the modelled fragment of `cbor2.loads`. -/

def cborReadHead (b : Bytes) : Option (Nat × Nat × Bytes) :=
  match b with
  | [] => none
  | b0 :: rest =>
    let major := b0.toNat / 32
    let info := b0.toNat % 32
    if info < 24 then some (major, info, rest)
    else if info ≤ 27 then
      let n := 1 <<< (info - 24)
      if rest.length < n then none else some (major, Bytes.toNatBE (rest.take n), rest.drop n)
    else none

def cborReadBytes (b : Bytes) : Option (Bytes × Bytes) := do
  let (mj, n, rest) ← cborReadHead b
  if mj ≠ 2 || rest.length < n then none else some (rest.take n, rest.drop n)

/-- `AdaByronAddrDecoder.DecodeAddr` on the canonical shape: root hash ‖ encrypted path.
`oracleMiss` = input outside the fragment (the harness then only checks the error family). -/
def byronDecode (addr : List Char) : R Bytes := do
  let raw ← b58Decode btcAlphabet addr
  let miss : R Bytes := throw .oracleMiss
  match cborReadHead raw with
  | some (4, 2, r1) =>
    match cborReadHead r1 with
    | some (6, 24, r2) =>
      match cborReadBytes r2 with
      | some (payload, r3) =>
        match cborReadHead r3 with
        | some (1, _, []) => throw .value      -- a negative CBOR integer is never the CRC-32 of the payload
        | some (0, _, _ :: _) => throw .value   -- bytes after the outer item: refused (every CBOR item must span its whole string)
        | some (0, crc, []) =>
          if crc ≠ crc32 payload then throw .value
          match cborReadHead payload with
          | some (4, 3, p1) =>
            match cborReadBytes p1 with
            | some (rootHash, p2) =>
              if rootHash.length ≠ 28 then throw .value
              match cborReadHead p2 with
              | some (5, 0, p3) =>
                if p3 = [0] then pure rootHash else if (match p3 with | 0 :: _ :: _ => true | _ => false) then throw .value else miss
              | some (5, 1, p3) =>
                match cborReadHead p3 with
                | some (0, 1, p4) =>
                  match cborReadBytes p4 with
                  | some (inner, p5) =>
                    match cborReadBytes inner with
                    | some (hdEnc, []) =>
                      if p5 = [0] then pure (rootHash ++ hdEnc)
                      else if (match p5 with | 0 :: _ :: _ => true | _ => false) then throw .value else miss
                    | some (_, _ :: _) => throw .value   -- bytes after the byte string inside attribute 1
                    | _ => miss
                  | none => miss
                | _ => miss
              | _ => miss
            | none => miss
          | _ => miss
        | _ => miss
      | none => miss
    | _ => miss
  | _ => miss

/-! ### Shelley -/

def shelleyPrefix (hdrType netTag : Nat) : Bytes := toBytesAuto (hdrType * 16 + netTag)

def shelleyEncode (hrp : List Char) (netTag : Nat) (pub stake : Bytes) : R (List Char) := do
  let k ← addrKey .ed25519 pub
  let s ← addrKey .ed25519 stake
  bech32Encode hrp (shelleyPrefix 0 netTag ++ blake2b224 (k.drop 1) ++ blake2b224 (s.drop 1))

def shelleyDecode (hrp : List Char) (netTag : Nat) (addr : List Char) : R Bytes := do
  let dec ← ckToValue (bech32Decode asciiCase hrp addr)
  validateLength dec 57
  removePrefix dec (shelleyPrefix 0 netTag)

def shelleyStakingEncode (hrp : List Char) (netTag : Nat) (pub : Bytes) : R (List Char) := do
  let k ← addrKey .ed25519 pub
  bech32Encode hrp (shelleyPrefix 14 netTag ++ blake2b224 (k.drop 1))

def shelleyStakingDecode (hrp : List Char) (netTag : Nat) (addr : List Char) : R Bytes := do
  let dec ← ckToValue (bech32Decode asciiCase hrp addr)
  validateLength dec 29
  removePrefix dec (shelleyPrefix 14 netTag)

/-! ### Byron-legacy wallet -/

def byronHdPathKey (master : Node) : Bytes :=
  pbkdf2HmacSha512 (master.pub.drop 1 ++ master.chainCode) "address-hashing".toUTF8.toList 500 32

/-- `CardanoByronLegacy.GetAddress(first, second)` with integer indices -/
def byronLegacyAddress (aead : Aead) (master : Node) (first second : Nat) : R (List Char) := do
  if first > 2 ^ 32 - 1 || second > 2 ^ 32 - 1 then throw .path
  let path := [harden first, harden second]
  let nd ← path.foldlM kholawChildKey master
  byronLegacyEncode aead nd.pub nd.chainCode path (some (byronHdPathKey master))

end BipVerif.Model
