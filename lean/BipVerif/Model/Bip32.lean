/-
BIP-32 / SLIP-0010: key data, extended-key (de)serialisation, master key generation, child key
derivation (private and public), path parsing/printing and path derivation.
Models of bip_utils/bip/bip32/{bip32_key_data,bip32_key_ser,bip32_path,bip32_keys}.py,
base/bip32_base.py and slip10/*.py in the code's own order of checks.
-/
import BipVerif.Model.Ecc
import BipVerif.Model.Base58
import BipVerif.Prim.Hmac
import BipVerif.Prim.Sha256
import BipVerif.Prim.Ripemd160
import BipVerif.Gen.Unicode

namespace BipVerif.Model
open BipVerif BipVerif.Prim

def hash160 (b : Bytes) : Bytes := ripemd160 (sha256 b)

structure KeyNetVer where
  pub : Bytes
  priv : Bytes
  deriving DecidableEq, Repr

/-- which derivation scheme a `Bip32Base` subclass uses -/
inductive Scheme | slip10 | kholaw | byronLegacy
  deriving DecidableEq, Repr

/-- a `Bip32Base` object, reduced to its observables. `pub` is the canonical compressed key. -/
structure Node where
  curve : CurveT
  scheme : Scheme := .slip10
  priv : Option Bytes
  pub : Bytes
  depth : Nat
  index : Nat
  chainCode : Bytes
  parentFp : Bytes
  deriving DecidableEq, Repr

def hardenedBit : Nat := 2 ^ 31
def isHardened (i : Nat) : Bool := i % 2 ^ 32 ≥ 2 ^ 31
def harden (i : Nat) : Nat := if (i / 2 ^ 31) % 2 = 1 then i else i + 2 ^ 31
def unharden (i : Nat) : Nat := if (i / 2 ^ 31) % 2 = 1 then i - 2 ^ 31 else i

def ser32 (i : Nat) : Bytes := Bytes.ofNatBE 4 i

/-- `Bip32KeyData(...)` construction checks on chain code and fingerprint. -/
def keyDataOk (chainCode parentFp : Bytes) : Bool := chainCode.length = 32 && parentFp.length ≥ 4

/-- `Bip32Base.__init__` from private key bytes (invalid key ⇒ `Bip32KeyError`). -/
def nodeOfPriv (c : CurveT) (s : Scheme) (priv : Bytes) (depth index : Nat) (cc fp : Bytes) : R Node :=
  if !privValid c priv then throw .key
  else match pubOfPriv c priv with
    | some pub => pure { curve := c, scheme := s, priv := some priv, pub := pub, depth := depth,
                         index := index, chainCode := cc, parentFp := fp.take 4 }
    | none => throw .value        -- libsodium refuses the identity point: plain ValueError from PublicKey()

def nodeOfPub (c : CurveT) (s : Scheme) (pubBytes : Bytes) (depth index : Nat) (cc fp : Bytes) : R Node :=
  match pubFromBytes c pubBytes with
  | some pub => pure { curve := c, scheme := s, priv := none, pub := pub, depth := depth,
                       index := index, chainCode := cc, parentFp := fp.take 4 }
  | none => throw .key

def Node.fingerprint (n : Node) : Bytes := (hash160 n.pub).take 4
def Node.isPublicOnly (n : Node) : Bool := n.priv.isNone
def Node.neuter (n : Node) : Node := { n with priv := none }

/-! ### master key (SLIP-0010) -/

def slip10HmacKey : CurveT → Bytes
  | .secp256k1 => "Bitcoin seed".toUTF8.toList
  | .nist256p1 => "Nist256p1 seed".toUTF8.toList
  | _ => "ed25519 seed".toUTF8.toList

/-- validity test used by the master-key loop (the ed25519-blake2b class tests with the plain
ed25519 key class). -/
def mstValid (c : CurveT) (il : Bytes) : Bool :=
  match c with
  | .ed25519Blake2b => privValid .ed25519 il
  | c => privValid c il

def slip10MasterLoop (c : CurveT) : Nat → Bytes → R (Bytes × Bytes)
  | 0, _ => throw .fuel
  | fuel+1, data =>
    let h := hmacSha512 (slip10HmacKey c) data
    if mstValid c (h.take 32) then pure (h.take 32, h.drop 32)
    else slip10MasterLoop c fuel h

def slip10Master (c : CurveT) (seed : Bytes) : R Node := do
  if seed.length < 16 then throw .value
  let (k, cc) ← slip10MasterLoop c 4096 seed
  nodeOfPriv c .slip10 k 0 0 cc [0,0,0,0]

/-! ### child keys (SLIP-0010) -/

/-- the re-hash loop of SLIP-0010 for ECDSA curves: returns `(IL, IR)` with `IL < n` and, on the
private side, a non-zero child key. `kpar = none` on the public side. -/
def slip10Retry (n : Nat) (cc : Bytes) (idx : Nat) (kpar : Option Nat) : Nat → Bytes × Bytes → R (Nat × Bytes)
  | 0, _ => throw .fuel
  | fuel+1, (il, ir) =>
    let ilInt := Bytes.toNatBE il
    let bad := ilInt ≥ n || (match kpar with | some k => (ilInt + k) % n = 0 | none => false)
    if bad then slip10Retry n cc idx kpar fuel (hmacSha512Halves cc ([1] ++ ir ++ ser32 idx))
    else pure (ilInt, ir)

def slip10CkdPriv (nd : Node) (priv : Bytes) (idx : Nat) : R (Bytes × Bytes) :=
  if nd.curve.isEcdsa then do
    let data := if isHardened idx then [0] ++ priv ++ ser32 idx else nd.pub ++ ser32 idx
    let k := Bytes.toNatBE priv
    let (il, ir) ← slip10Retry nd.curve.order nd.chainCode idx (some k) 4096 (hmacSha512Halves nd.chainCode data)
    let newKey ← toBytesBE ((il + k) % nd.curve.order) 32
    pure (newKey, ir)
  else
    if !isHardened idx then throw .key
    else pure (hmacSha512Halves nd.chainCode ([0] ++ priv ++ ser32 idx))

def slip10CkdPub (nd : Node) (idx : Nat) : R (Bytes × Bytes) :=
  if nd.curve.isEcdsa then do
    let (il, ir) ← slip10Retry nd.curve.order nd.chainCode idx none 4096
      (hmacSha512Halves nd.chainCode (nd.pub ++ ser32 idx))
    match pubAddMulG nd.curve nd.pub il with
    | some p => pure (p, ir)
    | none => throw .key
  else throw .key

/-- `Bip32Base.ChildKey(index)` for SLIP-0010 classes (index already an integer). -/
def slip10ChildKey (nd : Node) (idx : Nat) : R Node := do
  if idx > 2 ^ 32 - 1 then throw .value          -- Bip32KeyIndex(idx)
  match nd.priv with
  | some priv =>
    let (k, cc) ← slip10CkdPriv nd priv idx
    if nd.depth ≥ 255 then throw .value        -- `Depth().Increase()`: the depth is one byte
    nodeOfPriv nd.curve nd.scheme k (nd.depth + 1) idx cc nd.fingerprint
  | none =>
    if isHardened idx then throw .key
    let (p, cc) ← slip10CkdPub nd idx
    if nd.depth ≥ 255 then throw .value
    nodeOfPub nd.curve nd.scheme p (nd.depth + 1) idx cc nd.fingerprint

/-! ### paths -/

structure Path where
  elems : List Nat
  absolute : Bool
  deriving DecidableEq, Repr

def splitOnChar (sep : Char) (s : List Char) : List (List Char) :=
  let rec go (s : List Char) (cur : List Char) : List (List Char) :=
    match s with
    | [] => [cur.reverse]
    | c :: rest => if c = sep then cur.reverse :: go rest [] else go rest (c :: cur)
  go s []

def isSpaceChar (c : Char) : Bool := Gen.spaceChars.contains c.toNat

def stripSpaces (s : List Char) : List Char :=
  ((s.dropWhile isSpaceChar).reverse.dropWhile isSpaceChar).reverse

/-- decimal value of a character with `str.isdecimal()` (any `Nd` block). -/
def decimalDigit (c : Char) : Option Nat :=
  let n := c.toNat
  if 48 ≤ n ∧ n ≤ 57 then some (n - 48)
  else match Gen.digitZeros.find? (fun z => z ≤ n ∧ n < z + 10) with
    | some z => some (n - z)
    | none => none

/-- `s.isdecimal()` then `int(s)` -/
def parseDecimal (s : List Char) : Option Nat :=
  if s.isEmpty then none
  else (s.mapM decimalDigit).map (fun ds => ds.foldl (fun acc d => acc * 10 + d) 0)

/-- `Bip32PathParser.__ParseElem` (after the `isdecimal` repair of F-path-super). -/
def parsePathElem (e : List Char) : R Nat :=
  let e := stripSpaces e
  let hard := match e.getLast? with
    | some c => c = '\'' || c = 'h' || c = 'p'
    | none => false
  let e := if hard then e.dropLast else e
  match parseDecimal e with
  | some v => pure (if hard then harden v else v)
  | none => throw .path

/-- `Bip32PathParser.Parse` followed by the `Bip32Path` constructor's range check. -/
def parsePath (s : List Char) : R Path := do
  let s := if s.getLast? = some '/' then s.dropLast else s
  let elems := (splitOnChar '/' s).filter (fun e => !e.isEmpty)
  let (elems, abs) := match elems with
    | ['m'] :: rest => (rest, true)
    | l => (l, false)
  let vals ← elems.mapM parsePathElem
  if vals.any (fun v => v > 2 ^ 32 - 1) then throw .path
  pure { elems := vals, absolute := abs }

def natToDec (n : Nat) : List Char := (toString n).toList

/-- `Bip32Path.ToStr` -/
def printPath (p : Path) : List Char :=
  let body := p.elems.map fun e =>
    if isHardened e then natToDec (unharden e) ++ ['\''] else natToDec e
  let parts := (if p.absolute then [['m']] else []) ++ body
  (parts.intersperse ['/']).flatten

/-- `Bip32Base.DerivePath` with a parsed path; `child` is the scheme's `ChildKey`. -/
def derivePathWith (child : Node → Nat → R Node) (nd : Node) (p : Path) : R Node := do
  if nd.depth > 0 && p.absolute then throw .value
  p.elems.foldlM child nd

def derivePath := derivePathWith slip10ChildKey

/-! ### extended keys -/

/-- `_Bip32KeySerializer.Serialize` (depth is written with `int.to_bytes(1)`: 256 overflows). -/
def serializeKey (H : Bytes → Bytes) (ver : Bytes) (depth : Nat) (fp : Bytes) (idx : Nat) (cc keyBytes : Bytes) :
    R (List Char) := do
  let d ← toBytesBE depth 1
  let i ← toBytesBE idx 4
  pure (b58CheckEncode H btcAlphabet (ver ++ d ++ fp ++ i ++ cc ++ keyBytes))

def Node.toExtendedPub (H : Bytes → Bytes) (kv : KeyNetVer) (n : Node) : R (List Char) :=
  serializeKey H kv.pub n.depth n.parentFp n.index n.chainCode n.pub

def Node.toExtendedPriv (H : Bytes → Bytes) (kv : KeyNetVer) (n : Node) : R (List Char) :=
  match n.priv with
  | some k => serializeKey H kv.priv n.depth n.parentFp n.index n.chainCode ([0] ++ k)
  | none => throw .key

structure DeserKey where
  keyBytes : Bytes
  depth : Nat
  index : Nat
  chainCode : Bytes
  parentFp : Bytes
  isPublic : Bool
  deriving DecidableEq, Repr

/-- `Bip32KeyDeserializer.DeserializeKey` -/
def deserializeKey (H : Bytes → Bytes) (kv : KeyNetVer) (s : List Char) : R DeserKey := do
  let ser ← b58CheckDecode H btcAlphabet s
  let ver := ser.take 4
  let isPub ← if ver = kv.pub then pure true else if ver = kv.priv then pure false else throw .key
  if isPub && ser.length ≠ 78 then throw .key
  if !isPub && !(ser.length = 78 || ser.length = 110) then throw .key
  let depth ← pyIdx ser 4
  let fp := (ser.drop 5).take 4
  let idx := Bytes.toNatBE ((ser.drop 9).take 4)
  let cc := (ser.drop 13).take 32
  let key := ser.drop 45
  if !isPub then
    let k0 ← pyIdx key 0
    if k0 ≠ 0 then throw .key
    pure { keyBytes := key.drop 1, depth := depth.toNat, index := idx, chainCode := cc, parentFp := fp, isPublic := false }
  else
    pure { keyBytes := key, depth := depth.toNat, index := idx, chainCode := cc, parentFp := fp, isPublic := true }

/-- `Bip32Base.FromExtendedKey` -/
def fromExtendedKey (H : Bytes → Bytes) (c : CurveT) (sch : Scheme) (kv : KeyNetVer) (s : List Char) : R Node := do
  let d ← deserializeKey H kv s
  if d.depth = 0 then
    if d.parentFp ≠ [0,0,0,0] then throw .key
    if d.index ≠ 0 then throw .key
  if d.isPublic then nodeOfPub c sch d.keyBytes d.depth d.index d.chainCode d.parentFp
  else nodeOfPriv c sch d.keyBytes d.depth d.index d.chainCode d.parentFp

end BipVerif.Model
