/- One row of the regenerated coin table (a snapshot of a `BipCoinConf` through its public accessors). -/
namespace BipVerif.Model

structure CoinRow where
  family : String
  member : String
  variant : String
  confId : Nat
  coinName : String
  abbr : String
  coinIdx : Nat
  isTestnet : Bool
  defPath : String
  keyNetPub : List Nat
  keyNetPriv : List Nat
  wifNetVer : Option (List Nat)
  bip32 : String
  addrFmt : String
  addrParams : List (String × String)
  purpose : Nat
  deriving Repr, DecidableEq

end BipVerif.Model
