/-
Electrum v1/v2 wallets, brainwallets and SPL token addresses — models of
bip_utils/electrum/{electrum_v1,electrum_v2}.py, brainwallet/*.py and solana/spl_token.py.
-/
import BipVerif.Model.Addr
import BipVerif.Model.Bip38
import BipVerif.Prim.Pbkdf2

namespace BipVerif.Model
open BipVerif BipVerif.Prim

/-! ### Electrum v1 -/

structure Ev1 where
  priv : Option Bytes
  pub : Bytes            -- compressed
  deriving DecidableEq, Repr

def ev1FromPriv (k : Bytes) : R Ev1 := do
  let p ← secpPubOfPriv k
  pure { priv := some k, pub := p }

def ev1FromPub (b : Bytes) : R Ev1 := do
  pure { priv := none, pub := ← addrKey .secp256k1 b }

/-- `sha256d(f"{addr_idx}:{change_idx}:" ‖ master_public_key_uncompressed[1:])` -/
def ev1Sequence (w : Ev1) (change addr : Nat) : R Nat := do
  let u ← uncompressedOf .secp256k1 w.pub
  let pre := (toString addr ++ ":" ++ toString change ++ ":").toUTF8.toList
  pure (Bytes.toNatBE (sha256d (pre ++ u.drop 1)))

def ev1PrivateKey (w : Ev1) (change addr : Nat) : R Bytes := do
  let m ← match w.priv with
    | some k => pure k
    | none => throw Err.value
  if change > 2 ^ 32 - 1 || addr > 2 ^ 32 - 1 then throw .value
  let s ← ev1Sequence w change addr
  let k ← toBytesBE ((Bytes.toNatBE m + s) % Prim.secp256k1.n) 32
  if !privValid .secp256k1 k then throw .value
  pure k

def ev1PublicKey (w : Ev1) (change addr : Nat) : R Bytes :=
  match w.priv with
  | some _ => do secpPubOfPriv (← ev1PrivateKey w change addr)
  | none => do
    if change > 2 ^ 32 - 1 || addr > 2 ^ 32 - 1 then throw .value
    let s ← ev1Sequence w change addr
    if s % Prim.secp256k1.n = 0 then throw .value
    match pubAddMulG .secp256k1 w.pub (s % Prim.secp256k1.n) with
    | some p => pure p
    | none => throw .value

def ev1Address (w : Ev1) (change addr : Nat) : R (List Char) := do
  p2pkhEncode [0] btcAlphabet false (← ev1PublicKey w change addr)

/-! ### Electrum v2 -/

/-- standard: `m/change/index`; segwit: `m/0'/change/index` -/
def ev2Derive (segwit : Bool) (master : Node) (change addr : Nat) : R Node := do
  if master.depth > 0 then throw .value
  let acc ← if segwit then slip10ChildKey master (harden 0) else pure master
  if change > 2 ^ 32 - 1 || addr > 2 ^ 32 - 1 then throw .path
  let c ← slip10ChildKey acc change
  slip10ChildKey c addr

def ev2Address (segwit : Bool) (nd : Node) : R (List Char) :=
  if segwit then p2wpkhEncode "bc".toList nd.pub else p2pkhEncode [0] btcAlphabet true nd.pub

/-! ### brainwallet -/

inductive BrainAlgo | sha256 | doubleSha256 | pbkdf2 (salt : Bytes) (iters : Nat) | scrypt (salt : Bytes) (n r p : Nat)

def brainKey (a : BrainAlgo) (pass : Bytes) : Bytes :=
  match a with
  | .sha256 => Prim.sha256 pass
  | .doubleSha256 => sha256d pass
  | .pbkdf2 salt iters => pbkdf2HmacSha512 pass salt iters 32
  | .scrypt salt n r p => Prim.scrypt pass salt n r p 32

/-! ### SPL token -/

/-- `__CreatePda`: `none` when the digest is a valid ed25519 public key (on the curve) -/
def createPda (seeds : List Bytes) (program : Bytes) : Option Bytes :=
  let d := Prim.sha256 (seeds.flatten ++ program ++ "ProgramDerivedAddress".toUTF8.toList)
  if pubValid .ed25519 d then none else some d

def findPdaLoop (seeds : List Bytes) (program : Bytes) : Nat → Nat → R Bytes
  | 0, _ => throw .value
  | fuel+1, bump =>
    match createPda (seeds ++ [toBytesAuto bump]) program with
    | some d => pure d
    | none => findPdaLoop seeds program fuel (bump - 1)

/-- `SplToken.FindPda(seeds, program_id)`: bumps 255 downward, 255 attempts (bump 0 is never tried) -/
def findPda (seeds : List Bytes) (programAddr : List Char) : R (List Char) := do
  if seeds.length > 16 then throw .value
  if seeds.any (fun s => s.length > 32) then throw .value
  let prog ← solDecode programAddr
  let d ← findPdaLoop seeds prog 255 255
  pure (b58Encode btcAlphabet d)

def splDefaultProgram : List Char := "ATokenGPvbdGVxr1b2hvZbsiqW5xWH25efTNsLJA8knL".toList
def splDefaultTokenProgram : List Char := "TokenkegQfeZyiNwAJbNbGKPFXCWuBvf9Ss623VQ5DA".toList

def associatedTokenAddress (wallet mint tokenProgram : List Char) : R (List Char) := do
  let w ← solDecode wallet
  let t ← solDecode tokenProgram
  let m ← solDecode mint
  findPda [w, t, m] splDefaultProgram

end BipVerif.Model
