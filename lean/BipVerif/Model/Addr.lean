/-
Address encoders and decoders — models of bip_utils/addr/*.py, each in the code's own order of
checks.  Hashes come from `Prim`; coin constants (prefixes, HRPs) are explicit arguments supplied
from the regenerated table `Gen.coinsConf` by the driver.
All decoders convert checksum errors into `ValueError`, so they only ever return `.value`.
-/
import BipVerif.Model.Ecc
import BipVerif.Model.Bip32
import BipVerif.Model.Base58
import BipVerif.Model.Bech32
import BipVerif.Model.Base32
import BipVerif.Model.SS58
import BipVerif.Prim.Keccak
import BipVerif.Prim.Crc

namespace BipVerif.Model
open BipVerif BipVerif.Prim

/-- `except XChecksumError: raise ValueError` -/
def ckToValue {α} (r : R α) : R α :=
  match r with
  | .error .checksum => .error .value
  | r => r

def validateLength {α} (a : List α) (n : Nat) : R Unit := if a.length ≠ n then throw .value else pure ()

def removePrefix {α} [DecidableEq α] (a pre : List α) : R (List α) :=
  if a.take pre.length ≠ pre then throw .value else pure (a.drop pre.length)

/-- `SplitPartsByChecksum(addr, n)` with the checksum at the end: `(addr[:-n], addr[-n:])` -/
def splitCkEnd {α} (a : List α) (n : Nat) : List α × List α := (dropLast a n, takeLast a n)

/-- `AddrKeyValidator.ValidateAndGet…Key(bytes)`: canonical compressed key or `ValueError` -/
def addrKey (c : CurveT) (pub : Bytes) : R Bytes :=
  match pubFromBytes c pub with
  | some k => pure k
  | none => throw .value

/-- `AddrDecUtils.ValidatePubKey` -/
def validatePubKey (c : CurveT) (pub : Bytes) : R Unit := if pubValid c pub then pure () else throw .value

def uncompressedOf (c : CurveT) (comp : Bytes) : R Bytes :=
  match pubUncompressed c comp with
  | some u => pure u
  | none => throw .value

def hexOfBytes (b : Bytes) : List Char := (Bytes.toHex b).toList

/-- `BytesUtils.FromHexString(str)`: `binascii.Error` (a `ValueError`) on odd length / non-hex;
non-ASCII text fails in `str.encode`→`unhexlify` with `ValueError` as well. -/
def bytesOfHex (s : List Char) : R Bytes :=
  match Bytes.ofHexChars s with
  | some b => pure b
  | none => throw .value

/-! ### Bitcoin family -/

def p2pkhEncode (netVer : Bytes) (alph : List Char) (compressed : Bool) (pub : Bytes) : R (List Char) := do
  let k ← addrKey .secp256k1 pub
  let kb ← if compressed then pure k else uncompressedOf .secp256k1 k
  pure (b58CheckEncode sha256d alph (netVer ++ hash160 kb))

def p2pkhDecode (netVer : Bytes) (alph : List Char) (addr : List Char) : R Bytes := do
  let dec ← ckToValue (b58CheckDecode sha256d alph addr)
  validateLength dec (20 + netVer.length)
  removePrefix dec netVer

def p2shScriptHash (k : Bytes) : Bytes := hash160 ([0x00, 0x14] ++ hash160 k)

def p2shEncode (netVer : Bytes) (pub : Bytes) : R (List Char) := do
  let k ← addrKey .secp256k1 pub
  pure (b58CheckEncode sha256d btcAlphabet (netVer ++ p2shScriptHash k))

def bchP2pkhEncode (hrp : List Char) (netVer : Bytes) (pub : Bytes) : R (List Char) := do
  let k ← addrKey .secp256k1 pub
  bchEncode hrp netVer (hash160 k)

def bchP2shEncode (hrp : List Char) (netVer : Bytes) (pub : Bytes) : R (List Char) := do
  let k ← addrKey .secp256k1 pub
  bchEncode hrp netVer (p2shScriptHash k)

def bchAddrDecode (hrp : List Char) (netVer : Bytes) (addr : List Char) : R Bytes := do
  let (nv, dec) ← ckToValue (bchDecode asciiCase hrp addr)
  if netVer ≠ nv then throw .value
  validateLength dec 20
  pure dec

def p2wpkhEncode (hrp : List Char) (pub : Bytes) : R (List Char) := do
  let k ← addrKey .secp256k1 pub
  segwitEncode hrp 0 (hash160 k)

def p2wpkhDecode (hrp : List Char) (addr : List Char) : R Bytes := do
  let (v, dec) ← ckToValue (segwitDecode asciiCase hrp addr)
  if v ≠ 0 then throw .value
  validateLength dec 20
  pure dec

def tapTweakTag : Bytes :=
  (Bytes.ofHex "e80fe1639c9ca050e3af1b39c143c63e429cbceb15d940fbb5c5a1f4af57c5e9").getD []

/-- BIP-341 key-path output key (x-only, fixed 32 bytes) -/
def p2trTweak (k : Bytes) : R Bytes := do
  let c := Prim.secp256k1
  match c.decode k with
  | some (.aff x _) =>
    let xb := Bytes.ofNatBE 32 x
    let h := sha256 (tapTweakTag ++ tapTweakTag ++ xb)
    -- lift_x: the point with this x and even y
    let even ← match c.decode (2 :: xb) with
      | some p => pure p
      | none => throw Err.value
    match c.add even (c.mulG (Bytes.toNatBE h)) with
    | .aff ox _ => pure (Bytes.ofNatBE 32 ox)
    | .inf => throw .value
  | _ => throw .value

def p2trEncode (hrp : List Char) (pub : Bytes) : R (List Char) := do
  let k ← addrKey .secp256k1 pub
  segwitEncode hrp 1 (← p2trTweak k)

def p2trDecode (hrp : List Char) (addr : List Char) : R Bytes := do
  let (v, dec) ← ckToValue (segwitDecode asciiCase hrp addr)
  validateLength dec 32
  if v ≠ 1 then throw .value
  pure dec

/-! ### Cosmos family (Bech32 of HASH160) -/

def atomEncode (hrp : List Char) (pub : Bytes) : R (List Char) := do
  let k ← addrKey .secp256k1 pub
  bech32Encode hrp (hash160 k)

def atomDecode (hrp : List Char) (addr : List Char) : R Bytes := do
  let dec ← ckToValue (bech32Decode asciiCase hrp addr)
  validateLength dec 20
  pure dec

def avaxEncode (pfx hrp : List Char) (pub : Bytes) : R (List Char) := do pure (pfx ++ (← atomEncode hrp pub))
def avaxDecode (pfx hrp : List Char) (addr : List Char) : R Bytes := do atomDecode hrp (← removePrefix addr pfx)

/-! ### Ethereum family -/

def ethChecksumEncode (addr : List Char) : List Char :=
  let lower := addr.flatMap asciiCase.lower
  let digest := hexOfBytes (keccak256 (String.ofList lower).toUTF8.toList)
  (addr.zipIdx).map fun (c, i) =>
    match Bytes.hexVal (digest.getD i '0') with
    | some v => if v ≥ 8 then asciiUpper c else (asciiCase.lower c).headD c
    | none => c
where asciiUpper (c : Char) : Char := if 'a' ≤ c ∧ c ≤ 'z' then Char.ofNat (c.toNat - 32) else c

def ethRaw (k : Bytes) : R (List Char) := do
  let u ← uncompressedOf .secp256k1 k
  pure ((hexOfBytes (keccak256 (u.drop 1))).drop 24)

def ethEncode (pfx : List Char) (skipChk : Bool) (pub : Bytes) : R (List Char) := do
  let k ← addrKey .secp256k1 pub
  let a ← ethRaw k
  pure (pfx ++ (if skipChk then a else ethChecksumEncode a))

def ethDecode (pfx : List Char) (skipChk : Bool) (addr : List Char) : R Bytes := do
  let a ← removePrefix addr pfx
  validateLength a 40
  if !skipChk && a ≠ ethChecksumEncode a then throw .value
  bytesOfHex a

def ethBech32Encode (hrp : List Char) (pub : Bytes) : R (List Char) := do
  let k ← addrKey .secp256k1 pub
  let a ← ethRaw k
  bech32Encode hrp (← bytesOfHex (ethChecksumEncode a))

def ethBech32Decode (hrp : List Char) (addr : List Char) : R Bytes := do
  let dec ← ckToValue (bech32Decode asciiCase hrp addr)
  validateLength (hexOfBytes dec) 40
  pure dec

def injDecode (hrp : List Char) (addr : List Char) : R Bytes := do
  let dec ← ckToValue (bech32Decode asciiCase hrp addr)
  validateLength dec 20
  pure dec

def trxEncode (pfx : Bytes) (pub : Bytes) : R (List Char) := do
  let k ← addrKey .secp256k1 pub
  let a ← ethRaw k
  pure (b58CheckEncode sha256d btcAlphabet (pfx ++ (← bytesOfHex (ethChecksumEncode a))))

def trxDecode (pfx : Bytes) (addr : List Char) : R Bytes := do
  let dec ← ckToValue (b58CheckDecode sha256d btcAlphabet addr)
  validateLength dec (20 + pfx.length)
  let a ← removePrefix dec pfx
  validateLength (hexOfBytes a) 40
  pure a

/-! ### hashed hex addresses -/

def aptosEncode (pfx : List Char) (trim : Bool) (pub : Bytes) : R (List Char) := do
  let k ← addrKey .ed25519 pub
  let h := hexOfBytes (sha3_256 (k.drop 1 ++ [0]))
  pure (pfx ++ (if trim then h.dropWhile (· == '0') else h))

def aptosDecode (pfx : List Char) (addr : List Char) : R Bytes := do
  let a ← removePrefix addr pfx
  let a := rjust 64 '0' a
  validateLength a 64
  bytesOfHex a

def suiEncode (pfx : List Char) (pub : Bytes) : R (List Char) := do
  let k ← addrKey .ed25519 pub
  pure (pfx ++ hexOfBytes (blake2b256 ([0] ++ k.drop 1)))

def suiDecode (pfx : List Char) (addr : List Char) : R Bytes := do
  let a ← removePrefix addr pfx
  validateLength a 64
  bytesOfHex a

def icxEncode (pfx : List Char) (pub : Bytes) : R (List Char) := do
  let k ← addrKey .secp256k1 pub
  let u ← uncompressedOf .secp256k1 k
  pure (pfx ++ hexOfBytes (takeLast (sha3_256 (u.drop 1)) 20))

def icxDecode (pfx : List Char) (addr : List Char) : R Bytes := do
  let a ← removePrefix addr pfx
  let b ← bytesOfHex a
  validateLength b 20
  pure b

def nearEncode (pub : Bytes) : R (List Char) := do
  let k ← addrKey .ed25519 pub
  pure (hexOfBytes (k.drop 1))

def nearDecode (addr : List Char) : R Bytes := do
  let b ← bytesOfHex addr
  validateLength b 32
  validatePubKey .ed25519 b
  pure b

/-! ### Base58 with own checksums -/

def eosEncode (pfx : List Char) (pub : Bytes) : R (List Char) := do
  let k ← addrKey .secp256k1 pub
  pure (pfx ++ b58Encode btcAlphabet (k ++ (ripemd160 k).take 4))

def eosDecode (pfx : List Char) (addr : List Char) : R Bytes := do
  let a ← removePrefix addr pfx
  let dec ← b58Decode btcAlphabet a
  validateLength dec 37
  let (k, ck) := splitCkEnd dec 4
  if ck ≠ (ripemd160 k).take 4 then throw .value
  validatePubKey .secp256k1 k
  pure k

/-- Ergo: `netType` = 0 (mainnet) or 16 (testnet); address type P2PKH = 1 -/
def ergoEncode (netType : Nat) (pub : Bytes) : R (List Char) := do
  let k ← addrKey .secp256k1 pub
  let p := toBytesAuto (1 + netType) ++ k
  pure (b58Encode btcAlphabet (p ++ (blake2b256 p).take 4))

def ergoDecode (netType : Nat) (addr : List Char) : R Bytes := do
  let dec ← b58Decode btcAlphabet addr
  validateLength dec 38
  let (p, ck) := splitCkEnd dec 4
  if ck ≠ (blake2b256 p).take 4 then throw .value
  let k ← removePrefix p (toBytesAuto (1 + netType))
  validatePubKey .secp256k1 k
  pure k

def solEncode (pub : Bytes) : R (List Char) := do
  let k ← addrKey .ed25519 pub
  pure (b58Encode btcAlphabet (k.drop 1))

def solDecode (addr : List Char) : R Bytes := do
  let dec ← b58Decode btcAlphabet addr
  validateLength dec 32
  validatePubKey .ed25519 dec
  pure dec

def xtzEncode (pfx : Bytes) (pub : Bytes) : R (List Char) := do
  let k ← addrKey .ed25519 pub
  pure (b58CheckEncode sha256d btcAlphabet (pfx ++ blake2b160 (k.drop 1)))

def xtzDecode (pfx : Bytes) (addr : List Char) : R Bytes := do
  let dec ← ckToValue (b58CheckDecode sha256d btcAlphabet addr)
  validateLength dec (pfx.length + 20)
  removePrefix dec pfx

def neoEncode (ver pfx sfx : Bytes) (pub : Bytes) : R (List Char) := do
  let k ← addrKey .nist256p1 pub
  pure (b58CheckEncode sha256d btcAlphabet (ver ++ hash160 (pfx ++ k ++ sfx)))

def neoDecode (ver : Bytes) (addr : List Char) : R Bytes := do
  let dec ← ckToValue (b58CheckDecode sha256d btcAlphabet addr)
  validateLength dec (20 + ver.length)
  let v0 ← pyIdx dec 0
  if ver ≠ toBytesAuto v0.toNat then throw .value
  pure (dec.drop 1)

/-! ### Base32 family -/

def algoEncodeAddr (pub : Bytes) : R (List Char) := do
  let k ← addrKey .ed25519 pub
  let kb := k.drop 1
  pure (base32EncodeNoPad (kb ++ takeLast (sha512_256 kb) 4) none)

def algoDecodeAddr (addr : List Char) : R Bytes := do
  if addr.contains '=' then throw .value
  let dec ← base32Decode addr none
  validateLength dec 36
  let (k, ck) := splitCkEnd dec 4
  if ck ≠ takeLast (sha512_256 k) 4 then throw .value
  validatePubKey .ed25519 k
  pure k

def xlmCrc (p : Bytes) : Bytes := (Bytes.ofNatBE 2 (crc16Xmodem p)).reverse

/-- `addrType`: 48 public key, 144 private key -/
def xlmEncode (addrType : Nat) (pub : Bytes) : R (List Char) := do
  let k ← addrKey .ed25519 pub
  let p := toBytesAuto addrType ++ k.drop 1
  pure (base32EncodeNoPad (p ++ xlmCrc p) none)

def xlmDecode (addrType : Nat) (addr : List Char) : R Bytes := do
  let dec ← base32Decode addr none
  validateLength dec 35
  let (p, ck) := splitCkEnd dec 2
  let t ← pyIdx p 0
  if addrType ≠ t.toNat then throw .value
  if ck ≠ xlmCrc p then throw .value
  let k := p.drop 1
  validatePubKey .ed25519 k
  pure k

def filAlphabet : List Char := "abcdefghijklmnopqrstuvwxyz234567".toList

/-- Filecoin secp256k1 (address type 1) -/
def filEncode (pfx : List Char) (pub : Bytes) : R (List Char) := do
  let k ← addrKey .secp256k1 pub
  let u ← uncompressedOf .secp256k1 k
  let h := blake2b160 u
  let ck := blake2b32 ([1] ++ h)
  pure (pfx ++ ['1'] ++ base32EncodeNoPad (h ++ ck) (some filAlphabet))

def filDecode (pfx : List Char) (addr : List Char) : R Bytes := do
  let a ← removePrefix addr pfx
  if a.isEmpty || a.contains '=' then throw .value
  let t := (a.headD '0').toNat
  if (1 : Int) ≠ (t : Int) - 48 then throw .value
  let dec ← base32Decode (a.drop 1) (some filAlphabet)
  validateLength dec 24
  let (h, ck) := splitCkEnd dec 4
  if ck ≠ blake2b32 ([1] ++ h) then throw .value
  pure h

def nanoAlphabet : List Char := "13456789abcdefghijkmnopqrstuwxyz".toList

def nanoEncode (pfx : List Char) (pub : Bytes) : R (List Char) := do
  let k ← addrKey .ed25519Blake2b pub
  let kb := k.drop 1
  let p := [0, 0, 0] ++ kb ++ (blake2b40 kb).reverse
  pure (pfx ++ (base32EncodeNoPad p (some nanoAlphabet)).drop 4)

def nanoDecode (pfx : List Char) (addr : List Char) : R Bytes := do
  let a ← removePrefix addr pfx
  let dec ← base32Decode ("1111".toList ++ a) (some nanoAlphabet)
  validateLength dec 40
  let body ← removePrefix dec [0, 0, 0]
  let (k, ck) := splitCkEnd body 5
  if ck ≠ (blake2b40 k).reverse then throw .value
  validatePubKey .ed25519Blake2b k
  pure k

def nimAlphabet : List Char := "0123456789ABCDEFGHJKLMNPQRSTUVXY".toList

/-- Nimiq IBAN-style checksum. `isDigit` is `str.isdigit()` (ASCII digits natively, other
characters via the caller-supplied predicate). -/
def nimAddChecksum (checksum val : Nat) : Nat :=
  if val = 0 then checksum * 10 % 97
  else
    let nd := (toString val).length
    (checksum * 10 ^ nd + val) % 97

def nimChecksum (isDigitNonAscii : Char → Bool) (s : List Char) : List Char :=
  let ck := s.foldl (fun ck c =>
    let isD := ('0' ≤ c ∧ c ≤ '9') || (c.toNat ≥ 128 && isDigitNonAscii c)
    -- ord(c) - ord('0') / ord(c) - ord('7'): negative values never occur for accepted inputs; a
    -- negative `val` makes Python's loop a no-op and adds `val` (modelled through Int)
    let v : Int := if isD then (c.toNat : Int) - 48 else (c.toNat : Int) - 55
    if v ≥ 0 then nimAddChecksum ck v.toNat else ((ck : Int) + v).emod 97 |>.toNat) 0
  let fin := 98 - nimAddChecksum ck 232600
  [Char.ofNat (48 + fin / 10), Char.ofNat (48 + fin % 10)]

def nimEncode (pfx : List Char) (pub : Bytes) : R (List Char) := do
  let k ← addrKey .ed25519 pub
  let h := (blake2b256 (k.drop 1)).take 20
  let enc := base32EncodeNoPad h (some nimAlphabet)
  let grouped := ((chunksOf 4 enc).intersperse [' ']).flatten
  pure (pfx ++ nimChecksum (fun _ => false) enc ++ [' '] ++ grouped)

def nimDecode (isDigitNonAscii : Char → Bool) (pfx : List Char) (addr : List Char) : R Bytes := do
  let a := addr.filter (· ≠ ' ')
  let a ← removePrefix a pfx
  validateLength a 34
  let ck := a.take 2
  let enc := a.drop 2
  if ck ≠ nimChecksum isDigitNonAscii enc then throw .value
  let dec ← base32Decode enc (some nimAlphabet)
  validateLength dec 20
  pure dec

/-! ### Bech32 of raw keys / hashes -/

def egldEncode (hrp : List Char) (pub : Bytes) : R (List Char) := do
  let k ← addrKey .ed25519 pub
  bech32Encode hrp (k.drop 1)

def egldDecode (hrp : List Char) (addr : List Char) : R Bytes := do
  let dec ← ckToValue (bech32Decode asciiCase hrp addr)
  validateLength dec 32
  validatePubKey .ed25519 dec
  pure dec

def zilEncode (hrp : List Char) (pub : Bytes) : R (List Char) := do
  let k ← addrKey .secp256k1 pub
  bech32Encode hrp (takeLast (sha256 k) 20)

/-! ### Substrate (ed25519 flavour; sr25519 keys are opaque 32-byte strings) -/

def substrateEdEncode (fmt : Nat) (pub : Bytes) : R (List Char) := do
  let k ← addrKey .ed25519 pub
  ss58Encode blake2b512 (k.drop 1) fmt

def substrateEdDecode (fmt : Nat) (addr : List Char) : R Bytes := do
  let (f, dec) ← ckToValue (ss58Decode blake2b512 addr)
  if fmt ≠ f then throw .value
  validatePubKey .ed25519 dec
  pure dec

/-! ### Monero -/

def xmrAddrEncode (netVer : Bytes) (payId : Option Bytes) (spend view : Bytes) : R (List Char) := do
  match payId with
  | some p => if p.length ≠ 8 then throw .value
  | none => pure ()
  let s ← addrKey .ed25519Monero spend
  let v ← addrKey .ed25519Monero view
  let payload := netVer ++ s ++ v ++ payId.getD []
  pure (xmrEncode (payload ++ (keccak256 payload).take 4))

def xmrAddrDecode (netVer : Bytes) (payId : Option Bytes) (addr : List Char) : R Bytes := do
  let dec ← xmrDecode addr
  let (payload, ck) := splitCkEnd dec 4
  if ck ≠ (keccak256 payload).take 4 then throw .value
  let p ← removePrefix payload netVer
  match payId with
  | none => validateLength p 64
  | some pid =>
    validateLength p 72
    if pid.length ≠ 8 then throw .value
    if pid ≠ takeLast p 8 then throw .value
  let s := p.take 32
  validatePubKey .ed25519Monero s
  let v := (p.drop 32).take 32
  validatePubKey .ed25519Monero v
  pure (s ++ v)

end BipVerif.Model
