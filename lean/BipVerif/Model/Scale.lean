/- SCALE encoders (bip_utils/substrate/scale) and the CBOR indefinite-length array of
bip_utils/utils/misc/cbor_indefinite_len_array.py (unsigned integers only). -/
import BipVerif.Model.Basic

namespace BipVerif.Model
open BipVerif

/-- `SubstrateScaleCUintEncoder.Encode` -/
def scaleCompact (v : Nat) : R Bytes :=
  if v ≤ 2^6 - 1 then toBytesLE (v <<< 2) 1
  else if v ≤ 2^14 - 1 then toBytesLE ((v <<< 2) ||| 1) 2
  else if v ≤ 2^30 - 1 then toBytesLE ((v <<< 2) ||| 2) 4
  else if v ≤ 2^536 - 1 then do
    let vb := (toBytesAuto v).reverse
    let lb ← toBytesLE (((vb.length - 4) <<< 2) ||| 3) 1
    pure (lb ++ vb)
  else throw .value

/-- specification decoder for compact integers (the repository has no decoder): returns the value
and the number of bytes consumed. -/
def scaleCompactDecode (b : Bytes) : Option (Nat × Nat) :=
  match b with
  | [] => none
  | b0 :: rest =>
    match b0.toNat % 4 with
    | 0 => some (b0.toNat / 4, 1)
    | 1 => if b.length < 2 then none else some (Bytes.toNatLE (b.take 2) / 4, 2)
    | 2 => if b.length < 4 then none else some (Bytes.toNatLE (b.take 4) / 4, 4)
    | _ =>
      let n := b0.toNat / 4 + 4
      if rest.length < n then none else some (Bytes.toNatLE (rest.take n), n + 1)

/-- `SubstrateScaleUintEncoder._EncodeWithBytesLength` (value already an int). -/
def scaleUint (v : Nat) (bytesLen : Nat) : R Bytes :=
  if v > (1 <<< (bytesLen * 8)) - 1 then throw .value else toBytesLE v bytesLen

/-- `SubstrateScaleBytesEncoder.Encode` -/
def scaleBytes (b : Bytes) : R Bytes := do
  pure ((← scaleCompact b.length) ++ b)

/-! ### CBOR -/

/-- `cbor2.dumps(n)` for `0 ≤ n < 2^64` (major type 0, shortest form). Larger values are bignums
(tag 2), which the library never produces for derivation indices; modelled as `overflow`. -/
def cborUint (n : Nat) : R Bytes :=
  if n < 24 then pure [UInt8.ofNat n]
  else if n < 2^8 then pure (24 :: Bytes.ofNatBE 1 n)
  else if n < 2^16 then pure (25 :: Bytes.ofNatBE 2 n)
  else if n < 2^32 then pure (26 :: Bytes.ofNatBE 4 n)
  else if n < 2^64 then pure (27 :: Bytes.ofNatBE 8 n)
  else throw .overflow

def cborIndefEncode (l : List Nat) : R Bytes := do
  let parts ← l.mapM cborUint
  pure ([159] ++ parts.flatten ++ [255])

/-- `cbor2.loads` restricted to what `CborIndefiniteLenArrayDecoder` feeds it: a slice that starts
with an initial byte and has (up to) the matching number of argument bytes.  Non-integer items are
returned as `none` payload (the library appends whatever `loads` returns; the harness canonicalises
non-int items as `x`). -/
inductive CborItem | uint (n : Nat) | other
  deriving DecidableEq, Repr

/-- the decoding loop, fuel = input length. `loads` is the third-party oracle for initial bytes
outside major type 0. -/
def cborIndefDecode (loads : Bytes → R CborItem) (enc : Bytes) : R (List CborItem) := do
  if enc.length < 3 then throw .value
  if enc.head? != some 159 then throw .value
  if enc.getLast? != some 255 then throw .value
  let rec go (fuel i : Nat) (acc : List CborItem) : R (List CborItem) :=
    match fuel with
    | 0 => throw .fuel
    | fuel+1 =>
      if i ≥ enc.length then throw .value
      else
        let cur := enc.getD i 0
        if cur = 255 then pure acc.reverse
        else
          let len := if cur = 24 then 2 else if cur = 25 then 3 else if cur = 26 then 5
                     else if cur = 27 then 9 else 1
          match loads ((enc.drop i).take len) with
          | .ok item => go fuel (i + len) (item :: acc)
          | .error e => throw e
  go (enc.length + 1) 1 []

/-- `cbor2.loads` of one element slice, as the repaired decoder uses it: unsigned integers are
returned, negative integers (major type 1) too (as `.other`, the harness prints them), a truncated
argument is `ValueError`, every other item is refused with `ValueError` (the decoder hands `loads`
a one-byte slice for every initial byte other than 0x18..0x1b, so tags and strings are either
non-integers or truncated). -/
def cborLoadsUint (b : Bytes) : R CborItem :=
  match b with
  | [] => throw .value
  | b0 :: rest =>
    if b0.toNat < 24 then pure (.uint b0.toNat)
    else if b0.toNat ≤ 27 then
      let n := 1 <<< (b0.toNat - 24)
      if rest.length < n then throw .value
      else pure (.uint (Bytes.toNatBE (rest.take n)))
    else if 32 ≤ b0.toNat ∧ b0.toNat < 56 then pure .other    -- small negative integers
    else throw .value

end BipVerif.Model
