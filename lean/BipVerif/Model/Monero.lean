/-
Monero wallets — model of bip_utils/monero/{monero,monero_keys,monero_subaddr}.py.
-/
import BipVerif.Model.Addr

namespace BipVerif.Model
open BipVerif BipVerif.Prim

/-- `Ed25519Utils.ScalarReduce`: little-endian value modulo the group order, 32 bytes -/
def scReduce (b : Bytes) : Bytes := Bytes.ofNatLE 32 (Bytes.toNatLE b % edL)

structure XmrWallet where
  privSpend : Option Bytes
  privView : Bytes
  pubSpend : Bytes
  pubView : Bytes
  deriving DecidableEq, Repr

/-- `MoneroPrivateKey.FromBytes` then `.PublicKey()` -/
def xmrPubOfPriv (k : Bytes) : R Bytes :=
  if !privValid .ed25519Monero k then throw .key
  else match pubOfPriv .ed25519Monero k with
    | some p => pure p
    | none => throw .value           -- libsodium refuses the identity point (scalar 0): plain ValueError

def xmrFromSpend (spend : Bytes) : R XmrWallet := do
  if !privValid .ed25519Monero spend then throw .key
  let view := scReduce (keccak256 spend)
  if !privValid .ed25519Monero view then throw .key
  let ps ← xmrPubOfPriv spend
  let pv ← xmrPubOfPriv view
  pure { privSpend := some spend, privView := view, pubSpend := ps, pubView := pv }

def xmrFromSeed (seed : Bytes) : R XmrWallet :=
  xmrFromSpend (scReduce (if seed.length = 32 then seed else keccak256 seed))

def xmrFromBip44Priv (k : Bytes) : R XmrWallet := xmrFromSpend (scReduce (keccak256 k))

def xmrWatchOnly (view pubSpend : Bytes) : R XmrWallet := do
  if !privValid .ed25519Monero view then throw .key
  let ps ← match pubFromBytes .ed25519Monero pubSpend with
    | some p => pure p
    | none => throw Err.key
  let pv ← xmrPubOfPriv view
  pure { privSpend := none, privView := view, pubSpend := ps, pubView := pv }

def xmrPrivateSpend (w : XmrWallet) : R Bytes :=
  match w.privSpend with
  | some k => pure k
  | none => throw .key

/-- `MoneroSubaddress.ComputeKeys(minor, major)` -/
def xmrSubaddrKeys (w : XmrWallet) (minor major : Nat) : R (Bytes × Bytes) := do
  if minor > 2 ^ 32 - 1 then throw .value
  if major > 2 ^ 32 - 1 then throw .value
  if minor = 0 && major = 0 then pure (w.pubSpend, w.pubView)
  else
    let m := keccak256 ("SubAddr".toUTF8.toList ++ [0] ++ w.privView ++ Bytes.ofNatLE 4 major ++ Bytes.ofNatLE 4 minor)
    let mInt := Bytes.toNatLE (scReduce m)
    match edDecodeLenient w.pubSpend with
    | none => throw .value
    | some b =>
      if mInt = 0 then throw .value
      let d := edAdd b (edMulBase mInt)
      let a := Bytes.toNatLE w.privView % 2 ^ 255
      -- libsodium `crypto_scalarmult_ed25519_noclamp`: refuses `D` outside the prime-order subgroup
      -- (and the identity), and an identity result
      match edMulNoclamp a d with
      | none => throw .value
      | some c => pure (edEncode d, edEncode c)

def xmrPrimaryAddress (w : XmrWallet) (netVer : Bytes) : R (List Char) :=
  xmrAddrEncode netVer none w.pubSpend w.pubView

def xmrSubaddress (w : XmrWallet) (netVer subNetVer : Bytes) (minor major : Nat) : R (List Char) := do
  if minor = 0 && major = 0 then xmrPrimaryAddress w netVer
  else
    let (s, v) ← xmrSubaddrKeys w minor major
    xmrAddrEncode subNetVer none s v

def xmrIntegratedAddress (w : XmrWallet) (intNetVer payId : Bytes) : R (List Char) :=
  xmrAddrEncode intNetVer (some payId) w.pubSpend w.pubView

end BipVerif.Model
