/-
scrypt (RFC 7914): PBKDF2-HMAC-SHA256 → `p` × ROMix (Salsa20/8 BlockMix) → PBKDF2-HMAC-SHA256.
Mathlib-free, total, executable.

Performance design: one ROMix works on a single flat `Array UInt32` (used linearly, so every
update is in place) that holds `n + 2` slots of `32·r` little-endian words:
slots `0 … n-1` are the table `V`, slots `n` and `n+1` are the working block `X` and the BlockMix
output buffer (they swap roles after every BlockMix).  The first phase writes `V[i+1] :=
BlockMix V[i]` directly into the next slot, so filling `V` needs no copying at all.
The Salsa20/8 core runs on 16 unboxed `UInt32` locals.

Parameter conventions: `n` should be a power of two `> 1` (RFC 7914); this is not checked, the
function computes `Integerify(X) mod n` for any `n` (with `n = 0` no mixing happens).  The
reference implementations reject invalid parameters - callers guard.
-/
import BipVerif.Prim.Bytes
import BipVerif.Prim.Pbkdf2

namespace BipVerif.Prim

namespace Salsa

@[inline] def rotl (x n : UInt32) : UInt32 := (x <<< n) ||| (x >>> (32 - n))

/-- `n` Salsa20 double rounds on `x0 … x15`, then the feed-forward addition of `t0 … t15`;
the 16 result words are stored at `a[doff …]`. -/
def rounds : Nat → Array UInt32 → Nat →
    UInt32 → UInt32 → UInt32 → UInt32 → UInt32 → UInt32 → UInt32 → UInt32 →
    UInt32 → UInt32 → UInt32 → UInt32 → UInt32 → UInt32 → UInt32 → UInt32 →
    UInt32 → UInt32 → UInt32 → UInt32 → UInt32 → UInt32 → UInt32 → UInt32 →
    UInt32 → UInt32 → UInt32 → UInt32 → UInt32 → UInt32 → UInt32 → UInt32 → Array UInt32
  | 0, a, doff, t0, t1, t2, t3, t4, t5, t6, t7, t8, t9, t10, t11, t12, t13, t14, t15,
      x0, x1, x2, x3, x4, x5, x6, x7, x8, x9, x10, x11, x12, x13, x14, x15 =>
    let a := a.setIfInBounds doff (x0 + t0)
    let a := a.setIfInBounds (doff + 1) (x1 + t1)
    let a := a.setIfInBounds (doff + 2) (x2 + t2)
    let a := a.setIfInBounds (doff + 3) (x3 + t3)
    let a := a.setIfInBounds (doff + 4) (x4 + t4)
    let a := a.setIfInBounds (doff + 5) (x5 + t5)
    let a := a.setIfInBounds (doff + 6) (x6 + t6)
    let a := a.setIfInBounds (doff + 7) (x7 + t7)
    let a := a.setIfInBounds (doff + 8) (x8 + t8)
    let a := a.setIfInBounds (doff + 9) (x9 + t9)
    let a := a.setIfInBounds (doff + 10) (x10 + t10)
    let a := a.setIfInBounds (doff + 11) (x11 + t11)
    let a := a.setIfInBounds (doff + 12) (x12 + t12)
    let a := a.setIfInBounds (doff + 13) (x13 + t13)
    let a := a.setIfInBounds (doff + 14) (x14 + t14)
    a.setIfInBounds (doff + 15) (x15 + t15)
  | n+1, a, doff, t0, t1, t2, t3, t4, t5, t6, t7, t8, t9, t10, t11, t12, t13, t14, t15,
      x0, x1, x2, x3, x4, x5, x6, x7, x8, x9, x10, x11, x12, x13, x14, x15 =>
    -- column round
    let x4 := x4 ^^^ rotl (x0 + x12) 7;    let x8 := x8 ^^^ rotl (x4 + x0) 9
    let x12 := x12 ^^^ rotl (x8 + x4) 13;  let x0 := x0 ^^^ rotl (x12 + x8) 18
    let x9 := x9 ^^^ rotl (x5 + x1) 7;     let x13 := x13 ^^^ rotl (x9 + x5) 9
    let x1 := x1 ^^^ rotl (x13 + x9) 13;   let x5 := x5 ^^^ rotl (x1 + x13) 18
    let x14 := x14 ^^^ rotl (x10 + x6) 7;  let x2 := x2 ^^^ rotl (x14 + x10) 9
    let x6 := x6 ^^^ rotl (x2 + x14) 13;   let x10 := x10 ^^^ rotl (x6 + x2) 18
    let x3 := x3 ^^^ rotl (x15 + x11) 7;   let x7 := x7 ^^^ rotl (x3 + x15) 9
    let x11 := x11 ^^^ rotl (x7 + x3) 13;  let x15 := x15 ^^^ rotl (x11 + x7) 18
    -- row round
    let x1 := x1 ^^^ rotl (x0 + x3) 7;     let x2 := x2 ^^^ rotl (x1 + x0) 9
    let x3 := x3 ^^^ rotl (x2 + x1) 13;    let x0 := x0 ^^^ rotl (x3 + x2) 18
    let x6 := x6 ^^^ rotl (x5 + x4) 7;     let x7 := x7 ^^^ rotl (x6 + x5) 9
    let x4 := x4 ^^^ rotl (x7 + x6) 13;    let x5 := x5 ^^^ rotl (x4 + x7) 18
    let x11 := x11 ^^^ rotl (x10 + x9) 7;  let x8 := x8 ^^^ rotl (x11 + x10) 9
    let x9 := x9 ^^^ rotl (x8 + x11) 13;   let x10 := x10 ^^^ rotl (x9 + x8) 18
    let x12 := x12 ^^^ rotl (x15 + x14) 7; let x13 := x13 ^^^ rotl (x12 + x15) 9
    let x14 := x14 ^^^ rotl (x13 + x12) 13; let x15 := x15 ^^^ rotl (x14 + x13) 18
    rounds n a doff t0 t1 t2 t3 t4 t5 t6 t7 t8 t9 t10 t11 t12 t13 t14 t15
      x0 x1 x2 x3 x4 x5 x6 x7 x8 x9 x10 x11 x12 x13 x14 x15

theorem rounds_size (n : Nat) (a : Array UInt32) (doff : Nat)
    (t0 t1 t2 t3 t4 t5 t6 t7 t8 t9 t10 t11 t12 t13 t14 t15 : UInt32)
    (x0 x1 x2 x3 x4 x5 x6 x7 x8 x9 x10 x11 x12 x13 x14 x15 : UInt32) :
    (rounds n a doff t0 t1 t2 t3 t4 t5 t6 t7 t8 t9 t10 t11 t12 t13 t14 t15
      x0 x1 x2 x3 x4 x5 x6 x7 x8 x9 x10 x11 x12 x13 x14 x15).size = a.size := by
  induction n generalizing x0 x1 x2 x3 x4 x5 x6 x7 x8 x9 x10 x11 x12 x13 x14 x15 with
  | zero => simp [rounds]
  | succ n ih => simp only [rounds]; exact ih ..

/-- `a[doff … doff+16) := Salsa20/8 (a[xoff … xoff+16) xor a[soff … soff+16))`. -/
def xorCore (a : Array UInt32) (xoff soff doff : Nat) : Array UInt32 :=
  let t0 := a.getD xoff 0 ^^^ a.getD soff 0
  let t1 := a.getD (xoff + 1) 0 ^^^ a.getD (soff + 1) 0
  let t2 := a.getD (xoff + 2) 0 ^^^ a.getD (soff + 2) 0
  let t3 := a.getD (xoff + 3) 0 ^^^ a.getD (soff + 3) 0
  let t4 := a.getD (xoff + 4) 0 ^^^ a.getD (soff + 4) 0
  let t5 := a.getD (xoff + 5) 0 ^^^ a.getD (soff + 5) 0
  let t6 := a.getD (xoff + 6) 0 ^^^ a.getD (soff + 6) 0
  let t7 := a.getD (xoff + 7) 0 ^^^ a.getD (soff + 7) 0
  let t8 := a.getD (xoff + 8) 0 ^^^ a.getD (soff + 8) 0
  let t9 := a.getD (xoff + 9) 0 ^^^ a.getD (soff + 9) 0
  let t10 := a.getD (xoff + 10) 0 ^^^ a.getD (soff + 10) 0
  let t11 := a.getD (xoff + 11) 0 ^^^ a.getD (soff + 11) 0
  let t12 := a.getD (xoff + 12) 0 ^^^ a.getD (soff + 12) 0
  let t13 := a.getD (xoff + 13) 0 ^^^ a.getD (soff + 13) 0
  let t14 := a.getD (xoff + 14) 0 ^^^ a.getD (soff + 14) 0
  let t15 := a.getD (xoff + 15) 0 ^^^ a.getD (soff + 15) 0
  rounds 4 a doff t0 t1 t2 t3 t4 t5 t6 t7 t8 t9 t10 t11 t12 t13 t14 t15
    t0 t1 t2 t3 t4 t5 t6 t7 t8 t9 t10 t11 t12 t13 t14 t15

theorem xorCore_size (a : Array UInt32) (xoff soff doff : Nat) :
    (xorCore a xoff soff doff).size = a.size := by
  simp [xorCore, rounds_size]

end Salsa

namespace Scrypt

/-- steps `i, i+1, …` (`k` of them) of scryptBlockMix from the block at word offset `src` to the
block at `dst`; `xoff` is where the previous Salsa output `X` lives.  Output block `i` goes to
position `i/2` (even `i`) or `r + i/2` (odd `i`). -/
def blockMixLoop (r src dst : Nat) : Nat → Nat → Nat → Array UInt32 → Array UInt32
  | 0, _, _, a => a
  | k+1, i, xoff, a =>
    let doff := dst + 16 * (if i % 2 = 0 then i / 2 else r + i / 2)
    blockMixLoop r src dst k (i + 1) doff (Salsa.xorCore a xoff (src + 16 * i) doff)

/-- RFC 7914 §4 scryptBlockMix: `a[dst … dst+32r) := BlockMix (a[src … src+32r))`
(the two ranges must not overlap). -/
def blockMixAt (a : Array UInt32) (r src dst : Nat) : Array UInt32 :=
  blockMixLoop r src dst (2 * r) 0 (src + 16 * (2 * r - 1)) a

theorem blockMixLoop_size (r src dst k i xoff : Nat) (a : Array UInt32) :
    (blockMixLoop r src dst k i xoff a).size = a.size := by
  induction k generalizing i xoff a with
  | zero => simp [blockMixLoop]
  | succ k ih => simp [blockMixLoop, ih, Salsa.xorCore_size]

theorem blockMixAt_size (a : Array UInt32) (r src dst : Nat) :
    (blockMixAt a r src dst).size = a.size := blockMixLoop_size ..

/-- `a[dst+i] ^= a[src+i]` for `i < len`, written as a countdown from `dst+len`. -/
def xorAt (src dst : Nat) : Nat → Array UInt32 → Array UInt32
  | 0, a => a
  | k+1, a => xorAt src dst k (a.setIfInBounds (dst + k) (a.getD (dst + k) 0 ^^^ a.getD (src + k) 0))

/-- first ROMix phase: `V[i+1] := BlockMix V[i]` for `k` consecutive slots starting at slot `i`. -/
def fillLoop (r len : Nat) : Nat → Nat → Array UInt32 → Array UInt32
  | 0, _, a => a
  | k+1, i, a => fillLoop r len k (i + 1) (blockMixAt a r (i * len) ((i + 1) * len))

/-- second ROMix phase, `k` iterations; `xs` / `ys` are the word offsets of `X` and of the
scratch slot.  Returns the array and the final offset of `X`. -/
def mixLoop (n r len : Nat) : Nat → Nat → Nat → Array UInt32 → Array UInt32 × Nat
  | 0, xs, _, a => (a, xs)
  | k+1, xs, ys, a =>
    -- Integerify: the first 8 bytes of the last 64-byte sub-block, little-endian
    let w := xs + 16 * (2 * r - 1)
    let j := ((a.getD w 0).toNat + (a.getD (w + 1) 0).toNat * 4294967296) % n
    let a := xorAt (j * len) xs len a
    mixLoop n r len k ys xs (blockMixAt a r xs ys)

/-- little-endian word at byte offset `i` (bytes past the end read as `0`). -/
@[inline] def le32 (b : Array UInt8) (i : Nat) : UInt32 :=
  (b.getD i 0).toUInt32 ||| ((b.getD (i+1) 0).toUInt32 <<< 8) |||
  ((b.getD (i+2) 0).toUInt32 <<< 16) ||| ((b.getD (i+3) 0).toUInt32 <<< 24)

def wordBytes (x : UInt32) : Bytes :=
  [x.toUInt8, (x >>> 8).toUInt8, (x >>> 16).toUInt8, (x >>> 24).toUInt8]

/-- copy `k` words of the byte string `b` (from byte offset `boff`) to `a[0 … k)`, countdown. -/
def loadLoop (b : Array UInt8) (boff : Nat) : Nat → Array UInt32 → Array UInt32
  | 0, a => a
  | k+1, a => loadLoop b boff k (a.setIfInBounds k (le32 b (boff + 4 * k)))

/-- RFC 7914 §5 scryptROMix on the `128·r`-byte block of `b` starting at byte offset `boff`. -/
def romix (b : Array UInt8) (boff n r : Nat) : Bytes :=
  let len := 32 * r
  let a := loadLoop b boff len (Array.replicate ((n + 2) * len) (0 : UInt32))
  let a := fillLoop r len n 0 a
  let (a, xs) := mixLoop n r len n (n * len) ((n + 1) * len) a
  (List.range len).flatMap fun k => wordBytes (a.getD (xs + k) 0)

private theorem length_flatMap_const {α β} (f : α → List β) (k : Nat) (h : ∀ x, (f x).length = k) :
    ∀ l : List α, (l.flatMap f).length = k * l.length
  | [] => by simp
  | x :: xs => by
    simp [List.flatMap_cons, h, length_flatMap_const f k h xs, Nat.mul_succ, Nat.add_comm]

theorem romix_length (b : Array UInt8) (boff n r : Nat) : (romix b boff n r).length = 128 * r := by
  simp only [romix]
  rw [length_flatMap_const _ 4 (fun _ => rfl), List.length_range]; omega

end Scrypt

/-- RFC 7914 §6: `scrypt(P, S, N, r, p, dkLen)`. -/
def scrypt (password salt : Bytes) (n r p dkLen : Nat) : Bytes :=
  let b := (pbkdf2HmacSha256 password salt 1 (p * (128 * r))).toArray
  let b' := (List.range p).flatMap fun i => Scrypt.romix b (i * (128 * r)) n r
  pbkdf2HmacSha256 password b' 1 dkLen

@[simp] theorem scrypt_length (password salt : Bytes) (n r p dkLen : Nat) :
    (scrypt password salt n r p dkLen).length = dkLen := by
  simp [scrypt, pbkdf2HmacSha256_length]

end BipVerif.Prim
