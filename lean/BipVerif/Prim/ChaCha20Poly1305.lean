/-
ChaCha20, Poly1305 and the ChaCha20-Poly1305 AEAD (RFC 8439).  Mathlib-free, total, executable.

* `chacha20Block key counter nonce`: 32-byte key, 12-byte nonce, 32-bit block counter
  (`counter` is reduced mod 2^32); 64-byte key-stream block.  Short keys / nonces are read as if
  zero-padded, surplus bytes are ignored (callers guard the lengths).
* `chacha20Xor key counter nonce data`: data xor key stream, block `j` of the data uses the
  counter `counter + j` (mod 2^32).
* `poly1305 key msg`: 32-byte one-time key `r ‖ s`, 16-byte tag, plain `Nat` arithmetic mod 2^130-5.
* `chacha20Poly1305Encrypt/Decrypt`: the AEAD of RFC 8439 §2.8 (12-byte nonce, 16-byte tag).
-/
import BipVerif.Prim.Bytes

namespace BipVerif.Prim

namespace ChaCha

@[inline] def rotl (x n : UInt32) : UInt32 := (x <<< n) ||| (x >>> (32 - n))

/-- little-endian 32-bit word at byte offset `i` (bytes past the end read as `0`). -/
@[inline] def le32 (b : Array UInt8) (i : Nat) : UInt32 :=
  (b.getD i 0).toUInt32 ||| ((b.getD (i+1) 0).toUInt32 <<< 8) |||
  ((b.getD (i+2) 0).toUInt32 <<< 16) ||| ((b.getD (i+3) 0).toUInt32 <<< 24)

/-- the four little-endian bytes of a word. -/
def wordBytes (x : UInt32) : Bytes :=
  [x.toUInt8, (x >>> 8).toUInt8, (x >>> 16).toUInt8, (x >>> 24).toUInt8]

/-- `n` double rounds (column round then diagonal round) on unboxed working variables;
returns the sixteen words in order. -/
def rounds : Nat →
    UInt32 → UInt32 → UInt32 → UInt32 → UInt32 → UInt32 → UInt32 → UInt32 →
    UInt32 → UInt32 → UInt32 → UInt32 → UInt32 → UInt32 → UInt32 → UInt32 → List UInt32
  | 0, x0, x1, x2, x3, x4, x5, x6, x7, x8, x9, x10, x11, x12, x13, x14, x15 =>
    [x0, x1, x2, x3, x4, x5, x6, x7, x8, x9, x10, x11, x12, x13, x14, x15]
  | n+1, x0, x1, x2, x3, x4, x5, x6, x7, x8, x9, x10, x11, x12, x13, x14, x15 =>
    -- column round: QR(0,4,8,12) QR(1,5,9,13) QR(2,6,10,14) QR(3,7,11,15)
    let x0 := x0 + x4; let x12 := rotl (x12 ^^^ x0) 16
    let x8 := x8 + x12; let x4 := rotl (x4 ^^^ x8) 12
    let x0 := x0 + x4; let x12 := rotl (x12 ^^^ x0) 8
    let x8 := x8 + x12; let x4 := rotl (x4 ^^^ x8) 7
    let x1 := x1 + x5; let x13 := rotl (x13 ^^^ x1) 16
    let x9 := x9 + x13; let x5 := rotl (x5 ^^^ x9) 12
    let x1 := x1 + x5; let x13 := rotl (x13 ^^^ x1) 8
    let x9 := x9 + x13; let x5 := rotl (x5 ^^^ x9) 7
    let x2 := x2 + x6; let x14 := rotl (x14 ^^^ x2) 16
    let x10 := x10 + x14; let x6 := rotl (x6 ^^^ x10) 12
    let x2 := x2 + x6; let x14 := rotl (x14 ^^^ x2) 8
    let x10 := x10 + x14; let x6 := rotl (x6 ^^^ x10) 7
    let x3 := x3 + x7; let x15 := rotl (x15 ^^^ x3) 16
    let x11 := x11 + x15; let x7 := rotl (x7 ^^^ x11) 12
    let x3 := x3 + x7; let x15 := rotl (x15 ^^^ x3) 8
    let x11 := x11 + x15; let x7 := rotl (x7 ^^^ x11) 7
    -- diagonal round: QR(0,5,10,15) QR(1,6,11,12) QR(2,7,8,13) QR(3,4,9,14)
    let x0 := x0 + x5; let x15 := rotl (x15 ^^^ x0) 16
    let x10 := x10 + x15; let x5 := rotl (x5 ^^^ x10) 12
    let x0 := x0 + x5; let x15 := rotl (x15 ^^^ x0) 8
    let x10 := x10 + x15; let x5 := rotl (x5 ^^^ x10) 7
    let x1 := x1 + x6; let x12 := rotl (x12 ^^^ x1) 16
    let x11 := x11 + x12; let x6 := rotl (x6 ^^^ x11) 12
    let x1 := x1 + x6; let x12 := rotl (x12 ^^^ x1) 8
    let x11 := x11 + x12; let x6 := rotl (x6 ^^^ x11) 7
    let x2 := x2 + x7; let x13 := rotl (x13 ^^^ x2) 16
    let x8 := x8 + x13; let x7 := rotl (x7 ^^^ x8) 12
    let x2 := x2 + x7; let x13 := rotl (x13 ^^^ x2) 8
    let x8 := x8 + x13; let x7 := rotl (x7 ^^^ x8) 7
    let x3 := x3 + x4; let x14 := rotl (x14 ^^^ x3) 16
    let x9 := x9 + x14; let x4 := rotl (x4 ^^^ x9) 12
    let x3 := x3 + x4; let x14 := rotl (x14 ^^^ x3) 8
    let x9 := x9 + x14; let x4 := rotl (x4 ^^^ x9) 7
    rounds n x0 x1 x2 x3 x4 x5 x6 x7 x8 x9 x10 x11 x12 x13 x14 x15

theorem rounds_length (n : Nat) (x0 x1 x2 x3 x4 x5 x6 x7 x8 x9 x10 x11 x12 x13 x14 x15 : UInt32) :
    (rounds n x0 x1 x2 x3 x4 x5 x6 x7 x8 x9 x10 x11 x12 x13 x14 x15).length = 16 := by
  induction n generalizing x0 x1 x2 x3 x4 x5 x6 x7 x8 x9 x10 x11 x12 x13 x14 x15 with
  | zero => simp [rounds]
  | succ n ih => simp only [rounds]; exact ih ..

/-- the initial state: constants, 8 key words, counter, 3 nonce words. -/
def initState (key : Array UInt8) (counter : UInt32) (nonce : Array UInt8) : List UInt32 :=
  [0x61707865, 0x3320646e, 0x79622d32, 0x6b206574,
   le32 key 0, le32 key 4, le32 key 8, le32 key 12,
   le32 key 16, le32 key 20, le32 key 24, le32 key 28,
   counter, le32 nonce 0, le32 nonce 4, le32 nonce 8]

/-- the 16 output words of the block function. -/
def blockWords (key : Array UInt8) (counter : UInt32) (nonce : Array UInt8) : List UInt32 :=
  let k0 := le32 key 0; let k1 := le32 key 4; let k2 := le32 key 8; let k3 := le32 key 12
  let k4 := le32 key 16; let k5 := le32 key 20; let k6 := le32 key 24; let k7 := le32 key 28
  let n0 := le32 nonce 0; let n1 := le32 nonce 4; let n2 := le32 nonce 8
  List.zipWith (· + ·) (initState key counter nonce)
    (rounds 10 0x61707865 0x3320646e 0x79622d32 0x6b206574 k0 k1 k2 k3 k4 k5 k6 k7 counter n0 n1 n2)

theorem blockWords_length (key : Array UInt8) (counter : UInt32) (nonce : Array UInt8) :
    (blockWords key counter nonce).length = 16 := by
  simp [blockWords, initState, rounds_length]

/-- key-stream block for array-converted key and nonce. -/
def block (key : Array UInt8) (counter : UInt32) (nonce : Array UInt8) : Bytes :=
  (blockWords key counter nonce).flatMap wordBytes

private theorem length_flatMap_const {α β} (f : α → List β) (k : Nat) (h : ∀ x, (f x).length = k) :
    ∀ l : List α, (l.flatMap f).length = k * l.length
  | [] => by simp
  | x :: xs => by
    simp [List.flatMap_cons, h, length_flatMap_const f k h xs, Nat.mul_succ, Nat.add_comm]

theorem block_length (key : Array UInt8) (counter : UInt32) (nonce : Array UInt8) :
    (block key counter nonce).length = 64 := by
  simp only [block]
  rw [length_flatMap_const wordBytes 4 (fun _ => rfl), blockWords_length]

/-- xor `data` with the key stream starting at block `counter`; `k` bounds the number of blocks. -/
def xorLoop (key nonce : Array UInt8) : Nat → Nat → Bytes → Bytes
  | 0, _, _ => []
  | k+1, counter, data =>
    List.zipWith (· ^^^ ·) (data.take 64) (block key (UInt32.ofNat counter) nonce) ++
      xorLoop key nonce k (counter + 1) (data.drop 64)

end ChaCha

/-- RFC 8439 §2.3: the ChaCha20 block function (64-byte key-stream block). -/
def chacha20Block (key : Bytes) (counter : Nat) (nonce : Bytes) : Bytes :=
  ChaCha.block key.toArray (UInt32.ofNat counter) nonce.toArray

/-- RFC 8439 §2.4: ChaCha20 encryption (= decryption) with initial block counter `counter`. -/
def chacha20Xor (key : Bytes) (counter : Nat) (nonce : Bytes) (data : Bytes) : Bytes :=
  ChaCha.xorLoop key.toArray nonce.toArray ((data.length + 63) / 64) counter data

@[simp] theorem chacha20Block_length (key : Bytes) (counter : Nat) (nonce : Bytes) :
    (chacha20Block key counter nonce).length = 64 := ChaCha.block_length ..

namespace Poly1305

/-- the prime 2^130 - 5. -/
def P : Nat := 2 ^ 130 - 5

/-- the clamp mask for `r`. -/
def clampMask : Nat := 0x0ffffffc0ffffffc0ffffffc0fffffff

/-- absorb `k` 16-byte chunks (the last one possibly short) into the accumulator. -/
def loop (r : Nat) : Nat → Bytes → Nat → Nat
  | 0, _, acc => acc
  | k+1, m, acc =>
    loop r k (m.drop 16) ((acc + Bytes.toNatLE (m.take 16 ++ [1])) * r % P)

end Poly1305

/-- RFC 8439 §2.5: Poly1305 with the 32-byte one-time key `r ‖ s`; 16-byte tag.
(Short keys are read as if zero-padded; bytes past 32 are ignored.) -/
def poly1305 (key msg : Bytes) : Bytes :=
  let r := Bytes.toNatLE (key.take 16) &&& Poly1305.clampMask
  let s := Bytes.toNatLE ((key.drop 16).take 16)
  let acc := Poly1305.loop r ((msg.length + 15) / 16) msg 0
  Bytes.ofNatLE 16 (acc + s)

namespace ChaCha

/-- zero padding up to a multiple of 16 bytes. -/
def pad16 (b : Bytes) : Bytes := List.replicate ((16 - b.length % 16) % 16) 0

/-- RFC 8439 §2.8: the byte string that is authenticated. -/
def macData (aad cipher : Bytes) : Bytes :=
  aad ++ pad16 aad ++ cipher ++ pad16 cipher ++
    Bytes.ofNatLE 8 aad.length ++ Bytes.ofNatLE 8 cipher.length

/-- RFC 8439 §2.6: the Poly1305 one-time key (first 32 bytes of block 0). -/
def polyKey (key nonce : Bytes) : Bytes := (chacha20Block key 0 nonce).take 32

/-- the AEAD tag of a ciphertext. -/
def aeadTag (key nonce aad cipher : Bytes) : Bytes :=
  poly1305 (polyKey key nonce) (macData aad cipher)

end ChaCha

/-- RFC 8439 §2.8 AEAD_CHACHA20_POLY1305 encryption: `(ciphertext, 16-byte tag)`. -/
def chacha20Poly1305Encrypt (key nonce aad plain : Bytes) : Bytes × Bytes :=
  let cipher := chacha20Xor key 1 nonce plain
  (cipher, ChaCha.aeadTag key nonce aad cipher)

/-- RFC 8439 §2.8 AEAD decryption: `none` when the tag does not verify. -/
def chacha20Poly1305Decrypt (key nonce aad cipher tag : Bytes) : Option Bytes :=
  if ChaCha.aeadTag key nonce aad cipher = tag then some (chacha20Xor key 1 nonce cipher) else none

end BipVerif.Prim
