/-
Keccak-f[1600] sponge: original Keccak-256 (pad byte 0x01, Ethereum/Monero) and
FIPS-202 SHA3-256 / SHA3-512 (pad byte 0x06).  Mathlib-free, total, executable.
-/
import BipVerif.Prim.Bytes

namespace BipVerif.Prim
namespace Keccak

@[inline] def rol (x : UInt64) (n : UInt64) : UInt64 := (x <<< n) ||| (x >>> (64 - n))

def rc : Array UInt64 := #[
  0x0000000000000001, 0x0000000000008082, 0x800000000000808a, 0x8000000080008000,
  0x000000000000808b, 0x0000000080000001, 0x8000000080008081, 0x8000000000008009,
  0x000000000000008a, 0x0000000000000088, 0x0000000080008009, 0x000000008000000a,
  0x000000008000808b, 0x800000000000008b, 0x8000000000008089, 0x8000000000008003,
  0x8000000000008002, 0x8000000000000080, 0x000000000000800a, 0x800000008000000a,
  0x8000000080008081, 0x8000000000008080, 0x0000000080000001, 0x8000000080008008]

/-- rho rotation amounts, in the order lanes are visited by the pi walk starting at lane 1. -/
def rotc : Array UInt64 := #[
  1, 3, 6, 10, 15, 21, 28, 36, 45, 55, 2, 14, 27, 41, 56, 8, 25, 43, 62, 18, 39, 61, 20, 44]

/-- pi walk: destination lane indices. -/
def piln : Array Nat := #[
  10, 7, 11, 17, 18, 3, 5, 16, 8, 21, 24, 4, 15, 23, 19, 13, 12, 2, 20, 14, 22, 9, 6, 1]

/-- one round of Keccak-f[1600] on a 25-lane state (`lane (x,y) = s[x + 5y]`). -/
def round (s : Array UInt64) (rcon : UInt64) : Array UInt64 := Id.run do
  let g (a : Array UInt64) (i : Nat) : UInt64 := a.getD i 0
  -- theta
  let c : Array UInt64 := Array.ofFn (n := 5) fun x =>
    g s x.val ^^^ g s (x.val + 5) ^^^ g s (x.val + 10) ^^^ g s (x.val + 15) ^^^ g s (x.val + 20)
  let mut s : Array UInt64 := Array.ofFn (n := 25) fun i =>
    g s i.val ^^^ g c ((i.val + 4) % 5) ^^^ rol (g c ((i.val + 1) % 5)) 1
  -- rho and pi
  let mut t := g s 1
  for i in List.range 24 do
    let j := piln.getD i 0
    let u := g s j
    s := s.setIfInBounds j (rol t (rotc.getD i 0))
    t := u
  -- chi
  let b := s
  s := Array.ofFn (n := 25) fun i =>
    let y := i.val / 5 * 5
    let x := i.val % 5
    g b i.val ^^^ (~~~ g b (y + (x + 1) % 5) &&& g b (y + (x + 2) % 5))
  -- iota
  return s.setIfInBounds 0 (g s 0 ^^^ rcon)

def keccakF (s : Array UInt64) : Array UInt64 := rc.foldl round s

/-- multi-rate padding `m ‖ suffix … 0x80` up to a multiple of `rate` bytes. -/
def pad (rate : Nat) (suffix : UInt8) (m : Bytes) : Bytes :=
  let k := rate - m.length % rate
  if k ≤ 1 then m ++ [suffix ||| 0x80]
  else m ++ suffix :: List.replicate (k - 2) 0 ++ [0x80]

/-- little-endian 64-bit lane at byte offset `o`. -/
@[inline] def lane (p : Array UInt8) (o : Nat) : UInt64 :=
  (List.range 8).foldl (fun acc i => acc ||| ((p.getD (o + i) 0).toUInt64 <<< (8 * i).toUInt64)) 0

def le64 (x : UInt64) : Bytes :=
  [x.toUInt8, (x >>> 8).toUInt8, (x >>> 16).toUInt8, (x >>> 24).toUInt8,
   (x >>> 32).toUInt8, (x >>> 40).toUInt8, (x >>> 48).toUInt8, (x >>> 56).toUInt8]

def lanesLE : List UInt64 → Bytes
  | [] => []
  | x :: xs => le64 x ++ lanesLE xs

theorem lanesLE_length (l : List UInt64) : (lanesLE l).length = 8 * l.length := by
  induction l with
  | nil => rfl
  | cons x xs ih => simp [lanesLE, le64, ih]; omega

/-- absorb the padded message with the given rate (bytes, multiple of 8, ≤ 200) and return
the first `outLanes` lanes of the final state (`8 * outLanes ≤ rate` for all uses here, so a
single squeeze suffices). -/
def sponge (rate : Nat) (suffix : UInt8) (outLanes : Nat) (m : Bytes) : Bytes :=
  let p := (pad rate suffix m).toArray
  let s := (List.range (p.size / rate)).foldl (fun (s : Array UInt64) b =>
    keccakF (Array.ofFn (n := 25) fun i =>
      if i.val < rate / 8 then s.getD i.val 0 ^^^ lane p (rate * b + 8 * i.val) else s.getD i.val 0))
    (Array.replicate 25 0)
  lanesLE ((List.range outLanes).map fun i => s.getD i 0)

theorem sponge_length (rate : Nat) (suffix : UInt8) (n : Nat) (m : Bytes) :
    (sponge rate suffix n m).length = 8 * n := by
  simp [sponge, lanesLE_length]

end Keccak

/-- original Keccak-256 (Ethereum / Monero), 32 bytes. -/
def keccak256 (m : Bytes) : Bytes := Keccak.sponge 136 0x01 4 m

/-- FIPS-202 SHA3-256, 32 bytes. -/
def sha3_256 (m : Bytes) : Bytes := Keccak.sponge 136 0x06 4 m

/-- FIPS-202 SHA3-512, 64 bytes. -/
def sha3_512 (m : Bytes) : Bytes := Keccak.sponge 72 0x06 8 m

theorem keccak256_length (m : Bytes) : (keccak256 m).length = 32 := by
  simp [keccak256, Keccak.sponge_length]

theorem sha3_256_length (m : Bytes) : (sha3_256 m).length = 32 := by
  simp [sha3_256, Keccak.sponge_length]

theorem sha3_512_length (m : Bytes) : (sha3_512 m).length = 64 := by
  simp [sha3_512, Keccak.sponge_length]

end BipVerif.Prim
