/-
ed25519: twisted Edwards curve `-x² + y² = 1 + d·x²·y²` over `F_p`, `p = 2^255 - 19`.
`edAdd` is the affine complete addition law (the specification); `edMul` runs an MSB-first
double-and-add in extended coordinates `(X:Y:Z:T)`, `x = X/Z`, `y = Y/Z`, `T = XY/Z`.
-/
import BipVerif.Prim.Bytes
import BipVerif.Prim.Modular

namespace BipVerif.Prim
open BipVerif

/-- Field prime (same as `p25519`). -/
def edP : Nat := p25519

/-- `d = -121665/121666 mod p`. -/
def edD : Nat := 37095705934669439343138083508754565189542113879843219016388785533085940283555

/-- Order of the base point. -/
def edL : Nat := 2 ^ 252 + 27742317777372353535851937790883648493

structure EdPoint where (x y : Nat)
  deriving DecidableEq, Repr

def edIdentity : EdPoint := ⟨0, 1⟩

def edBase : EdPoint :=
  ⟨15112221349535400772501151409588531511454012693041857206046113283949847762202,
   46316835694926478169428394003475163141307993866256225615783033603165251855960⟩

/-- Curve equation only, coordinates taken mod `p`
(exactly `ed25519_lib.point_is_on_curve`, which does no range check). -/
def edOnCurveModP (P : EdPoint) : Bool :=
  let xx := P.x * P.x % edP
  let yy := P.y * P.y % edP
  subMod yy xx edP == (1 + edD * (xx * yy % edP)) % edP

/-- Reduced coordinates and the curve equation. -/
def edOnCurve (P : EdPoint) : Bool := P.x < edP && P.y < edP && edOnCurveModP P

def edNeg (P : EdPoint) : EdPoint := ⟨negMod P.x edP, P.y⟩

/-- Complete affine addition law (`a = -1`):
`x₃ = (x₁y₂ + x₂y₁)/(1 + d·x₁x₂y₁y₂)`, `y₃ = (y₁y₂ + x₁x₂)/(1 - d·x₁x₂y₁y₂)`. -/
def edAdd (P Q : EdPoint) : EdPoint :=
  let p := edP
  let xy := P.x * Q.y % p
  let yx := P.y * Q.x % p
  let t  := edD * (xy * yx % p) % p
  ⟨(xy + yx) * invMod (1 + t) p % p,
   (P.y * Q.y + P.x * Q.x) % p * invMod (subMod 1 t p) p % p⟩

/-! ### extended-coordinate internals -/

structure EdExt where (X Y Z T : Nat)

def edExtId : EdExt := ⟨0, 1, 1, 0⟩

def edExtOfAffine (P : EdPoint) : EdExt :=
  let x := P.x % edP
  let y := P.y % edP
  ⟨x, y, 1, x * y % edP⟩

def edExtToAffine (P : EdExt) : EdPoint :=
  let zi := invMod P.Z edP
  ⟨P.X * zi % edP, P.Y * zi % edP⟩

/-- Unified (complete) addition, Hisil–Wong–Carter–Dawson `add-2008-hwcd-3`. -/
def edExtAdd (P Q : EdExt) : EdExt :=
  let p := edP
  let a := subMod P.Y P.X p * subMod Q.Y Q.X p % p
  let b := (P.Y + P.X) * (Q.Y + Q.X) % p
  let c := 2 * edD * (P.T * Q.T % p) % p
  let d := 2 * P.Z * Q.Z % p
  let e := subMod b a p
  let f := subMod d c p
  let g := (d + c) % p
  let h := (b + a) % p
  ⟨e * f % p, g * h % p, f * g % p, e * h % p⟩

/-- Doubling, `dbl-2008-hwcd` with `a = -1`. -/
def edExtDouble (P : EdExt) : EdExt :=
  let p := edP
  let a := P.X * P.X % p
  let b := P.Y * P.Y % p
  let c := 2 * P.Z * P.Z % p
  let e := subMod ((P.X + P.Y) * (P.X + P.Y)) (a + b) p
  let g := subMod b a p
  let f := subMod g c p
  let h := negMod (a + b) p
  ⟨e * f % p, g * h % p, f * g % p, e * h % p⟩

def edMulLoop (k : Nat) (P : EdExt) : Nat → EdExt → EdExt
  | 0, acc => acc
  | i+1, acc =>
    let d := edExtDouble acc
    edMulLoop k P i (if k / 2 ^ i % 2 = 1 then edExtAdd d P else d)

/-- Scalar multiplication `k • P` for any `k`; `0 • P = (0, 1)`. -/
def edMul (k : Nat) (P : EdPoint) : EdPoint :=
  if k = 0 then edIdentity
  else edExtToAffine (edMulLoop k (edExtOfAffine P) (Nat.log2 k + 1) edExtId)

def edMulBase (k : Nat) : EdPoint := edMul k edBase

/-- Both coordinates reduced mod `p`. -/
def edNorm (P : EdPoint) : EdPoint := ⟨P.x % edP, P.y % edP⟩

/-- libsodium `crypto_scalarmult_ed25519_noclamp(k, P)` (behind `Ed25519Point.__mul__` for a point
other than the generator, and behind the Monero sub-address step `C = a·D`).  `none` is where the
library returns `-1` (bip_utils then raises `ValueError`):
* `P` (coordinates reduced) is the identity;
* `P` is not in the prime-order subgroup, `L·P ≠ (0, 1)` — this also refuses the seven small-order
  points other than the identity: their order is 2, 4 or 8 and `L` is odd, so `L·T ≠ (0, 1)`
  (checked point by point in `BipVerif.Model.MoneroLemmas.edMulNoclamp_small_order`);
* the result `(k mod 2^255)·P` is the identity (in the subgroup: `k mod 2^255` a multiple of `L`).
Base-point multiplication (`edMulBase`, libsodium `…_base_noclamp`) does not go through here. -/
def edMulNoclamp (k : Nat) (P : EdPoint) : Option EdPoint :=
  let Q := edNorm P
  if Q = edIdentity then none
  else if edMul edL Q ≠ edIdentity then none
  else
    let r := edMul (k % 2 ^ 255) Q
    if r = edIdentity then none else some r

/-! ### RFC 8032 §5.1.2 / §5.1.3 encoding -/

/-- 32 bytes: little-endian low 255 bits of `y`, parity of `x` in bit 255.  Equals
`ed25519_lib.point_encode` whenever `y < 2^255` (always the case for reduced points and decoder
outputs; for larger `y` the library would raise or keep bit 255 of `y`). -/
def edEncode (P : EdPoint) : Bytes := Bytes.ofNatLE 32 (P.y % 2 ^ 255 + P.x % 2 * 2 ^ 255)

/-- `x² = (y² - 1)/(d·y² + 1) mod p` for a candidate `y` (any size). -/
def edXSquared (y : Nat) : Nat :=
  let yy := y * y % edP
  subMod yy 1 edP * invMod ((edD * yy + 1) % edP) edP % edP

/-- `ed25519_lib._x_recover` followed by the sign fix-up of `point_decode_no_check`: the root candidate
of `edXSquared y` with parity `sign` (0/1), as a value in `[0, p]`.  When the candidate is 0 and
`sign = 1` the result is `p` (unreduced), exactly as in the library. -/
def edXRecoverRaw (y sign : Nat) : Nat :=
  let r := sqrtCand5mod8 (edXSquared y) edP
  let even := if r % 2 = 0 then r else edP - r
  if sign = 0 then even else edP - even

/-- Literal model of `ed25519_lib.point_decode_no_check`: `y` = low 255 bits **unreduced** (may be
`p … 2^255-1`), `x = edXRecoverRaw …` (garbage when `x²` is a non-residue).  `none` iff length ≠ 32. -/
def edDecodeNoCheck (b : Bytes) : Option EdPoint :=
  if b.length ≠ 32 then none
  else
    let v := Bytes.toNatLE b
    let y := v % 2 ^ 255
    some ⟨edXRecoverRaw y (v / 2 ^ 255), y⟩

/-- Literal model of `ed25519_lib.point_decode` = `point_decode_no_check` + `point_is_on_curve`
(`none` where the library raises `ValueError`).  Output is *not* canonical: `y` may be `≥ p` and
`x = p` when the root is 0 and the sign bit is set. -/
def edDecodeLib (b : Bytes) : Option EdPoint :=
  (edDecodeNoCheck b).bind fun P => if edOnCurveModP P then some P else none

/-- Lenient decoding (libsodium-like acceptance set, canonical output): `edDecodeLib` with both
coordinates reduced mod `p`.  Non-canonical `y ≥ p` is accepted and reduced; `x = 0` with the sign
bit set is accepted as `x = 0`. -/
def edDecodeLenient (b : Bytes) : Option EdPoint :=
  (edDecodeLib b).map fun P => ⟨P.x % edP, P.y % edP⟩

/-- Strict RFC 8032 §5.1.3 decoding: rejects `y ≥ p`, non-residue `x²`, and `x = 0` with sign bit 1. -/
def edDecodeStrict (b : Bytes) : Option EdPoint :=
  match edDecodeLib b with
  | none => none
  | some P => if P.x < edP ∧ P.y < edP then some P else none

end BipVerif.Prim
