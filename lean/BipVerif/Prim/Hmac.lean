/-
HMAC-SHA256 / HMAC-SHA512 (RFC 2104) on top of the exposed compression functions.
`keyStates` computes the inner/outer midstates once per key; `outer` finishes the outer
hash with a single compression (the inner digest plus padding is exactly one block).
-/
import BipVerif.Prim.Bytes
import BipVerif.Prim.Sha256
import BipVerif.Prim.Sha512

namespace BipVerif.Prim

namespace Sha256

/-- the block `digest ‖ 0x80 ‖ 0… ‖ bitlen(64 + 32)`: a 32-byte digest hashed after one
already-absorbed 64-byte block. -/
def digestBlock (s : State) : Array UInt32 :=
  #[s.a, s.b, s.c, s.d, s.e, s.f, s.g, s.h, 0x80000000, 0, 0, 0, 0, 0, 0, 768]

/-- HMAC midstates `(inner, outer)`: the states after absorbing `K' ⊕ ipad` / `K' ⊕ opad`. -/
def keyStates (key : Bytes) : State × State :=
  let kb := (if key.length > 64 then (hashFrom iv 0 key.toByteArray).toBytes else key).toByteArray
  let blk (p : UInt32) : Array UInt32 := Array.ofFn (n := 16) fun j => be32 kb (4 * j.val) ^^^ p
  (compress iv (blk 0x36363636), compress iv (blk 0x5c5c5c5c))

/-- outer hash: `H(K' ⊕ opad ‖ innerDigest)` given the outer midstate. -/
@[inline] def outer (o : State) (innerDigest : State) : State := compress o (digestBlock innerDigest)

/-- HMAC as a state, given the key midstates. -/
def hmacWith (ks : State × State) (msg : ByteArray) : State := outer ks.2 (hashFrom ks.1 64 msg)

end Sha256

namespace Sha512

/-- the block `digest ‖ 0x80 ‖ 0… ‖ bitlen(128 + 64)`. -/
def digestBlock (s : State) : Array UInt64 :=
  #[s.a, s.b, s.c, s.d, s.e, s.f, s.g, s.h, 0x8000000000000000, 0, 0, 0, 0, 0, 0, 1536]

/-- HMAC midstates `(inner, outer)`. -/
def keyStates (key : Bytes) : State × State :=
  let kb := (if key.length > 128 then (hashFrom iv 0 key.toByteArray).toBytes else key).toByteArray
  let blk (p : UInt64) : Array UInt64 := Array.ofFn (n := 16) fun j => be64 kb (8 * j.val) ^^^ p
  (compress iv (blk 0x3636363636363636), compress iv (blk 0x5c5c5c5c5c5c5c5c))

@[inline] def outer (o : State) (innerDigest : State) : State := compress o (digestBlock innerDigest)

def hmacWith (ks : State × State) (msg : ByteArray) : State := outer ks.2 (hashFrom ks.1 128 msg)

end Sha512

def hmacSha256 (key msg : Bytes) : Bytes :=
  (Sha256.hmacWith (Sha256.keyStates key) msg.toByteArray).toBytes

def hmacSha512 (key msg : Bytes) : Bytes :=
  (Sha512.hmacWith (Sha512.keyStates key) msg.toByteArray).toBytes

/-- HMAC-SHA512 split into (first 32 bytes, last 32 bytes), the BIP32 `I_L, I_R`. -/
def hmacSha512Halves (key msg : Bytes) : Bytes × Bytes :=
  let h := hmacSha512 key msg
  (h.take 32, h.drop 32)

@[simp] theorem hmacSha256_length (key msg : Bytes) : (hmacSha256 key msg).length = 32 := by
  simp [hmacSha256]

@[simp] theorem hmacSha512_length (key msg : Bytes) : (hmacSha512 key msg).length = 64 := by
  simp [hmacSha512]

@[simp] theorem hmacSha512Halves_fst_length (key msg : Bytes) :
    (hmacSha512Halves key msg).1.length = 32 := by simp [hmacSha512Halves]

@[simp] theorem hmacSha512Halves_snd_length (key msg : Bytes) :
    (hmacSha512Halves key msg).2.length = 32 := by simp [hmacSha512Halves]

theorem hmacSha512Halves_append (key msg : Bytes) :
    (hmacSha512Halves key msg).1 ++ (hmacSha512Halves key msg).2 = hmacSha512 key msg := by
  simp [hmacSha512Halves]

end BipVerif.Prim
