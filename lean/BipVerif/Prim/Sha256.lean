/-
SHA-256 (FIPS 180-4).  Mathlib-free, total, executable.
Internals live in `BipVerif.Prim.Sha256`; the state is a fixed 8-field structure so that
output lengths are provable by `simp`, and `compress` works on 16 big-endian words so
HMAC / PBKDF2 can reuse midstates without going through bytes.
-/
import BipVerif.Prim.Bytes

namespace BipVerif.Prim
namespace Sha256

/-- chaining value / digest as eight 32-bit words. -/
structure State where
  a : UInt32
  b : UInt32
  c : UInt32
  d : UInt32
  e : UInt32
  f : UInt32
  g : UInt32
  h : UInt32
  deriving Repr, BEq, DecidableEq

def iv : State :=
  ⟨0x6a09e667, 0xbb67ae85, 0x3c6ef372, 0xa54ff53a, 0x510e527f, 0x9b05688c, 0x1f83d9ab, 0x5be0cd19⟩

def K : Array UInt32 := #[
  0x428a2f98, 0x71374491, 0xb5c0fbcf, 0xe9b5dba5, 0x3956c25b, 0x59f111f1, 0x923f82a4, 0xab1c5ed5,
  0xd807aa98, 0x12835b01, 0x243185be, 0x550c7dc3, 0x72be5d74, 0x80deb1fe, 0x9bdc06a7, 0xc19bf174,
  0xe49b69c1, 0xefbe4786, 0x0fc19dc6, 0x240ca1cc, 0x2de92c6f, 0x4a7484aa, 0x5cb0a9dc, 0x76f988da,
  0x983e5152, 0xa831c66d, 0xb00327c8, 0xbf597fc7, 0xc6e00bf3, 0xd5a79147, 0x06ca6351, 0x14292967,
  0x27b70a85, 0x2e1b2138, 0x4d2c6dfc, 0x53380d13, 0x650a7354, 0x766a0abb, 0x81c2c92e, 0x92722c85,
  0xa2bfe8a1, 0xa81a664b, 0xc24b8b70, 0xc76c51a3, 0xd192e819, 0xd6990624, 0xf40e3585, 0x106aa070,
  0x19a4c116, 0x1e376c08, 0x2748774c, 0x34b0bcb5, 0x391c0cb3, 0x4ed8aa4a, 0x5b9cca4f, 0x682e6ff3,
  0x748f82ee, 0x78a5636f, 0x84c87814, 0x8cc70208, 0x90befffa, 0xa4506ceb, 0xbef9a3f7, 0xc67178f2]

@[inline] def rotr (x n : UInt32) : UInt32 := (x >>> n) ||| (x <<< (32 - n))

/-- byte at `i`, `0` past the end (so short keys are zero-padded for free). -/
@[inline] def byteAt (b : ByteArray) (i : Nat) : UInt8 := if h : i < b.size then b[i] else 0

/-- big-endian 32-bit word at byte offset `i`. -/
@[inline] def be32 (b : ByteArray) (i : Nat) : UInt32 :=
  ((byteAt b i).toUInt32 <<< 24) ||| ((byteAt b (i+1)).toUInt32 <<< 16) |||
  ((byteAt b (i+2)).toUInt32 <<< 8) ||| (byteAt b (i+3)).toUInt32

/-- the 16 message words of the 64-byte block starting at byte offset `off`. -/
def blockWords (b : ByteArray) (off : Nat) : Array UInt32 :=
  Array.ofFn (n := 16) fun j => be32 b (off + 4 * j.val)

/-- extend a message schedule by `n` words. -/
def expand : Nat → Array UInt32 → Array UInt32
  | 0, w => w
  | n+1, w =>
    let i := w.size
    let x := w.getD (i - 15) 0
    let y := w.getD (i - 2) 0
    let s0 := rotr x 7 ^^^ rotr x 18 ^^^ (x >>> 3)
    let s1 := rotr y 17 ^^^ rotr y 19 ^^^ (y >>> 10)
    expand n (w.push (s1 + w.getD (i - 7) 0 + s0 + w.getD (i - 16) 0))

/-- `n` rounds starting at round `i`, on unboxed working variables. -/
def rounds (w : Array UInt32) :
    Nat → Nat → UInt32 → UInt32 → UInt32 → UInt32 → UInt32 → UInt32 → UInt32 → UInt32 → State
  | 0, _, a, b, c, d, e, f, g, h => ⟨a, b, c, d, e, f, g, h⟩
  | n+1, i, a, b, c, d, e, f, g, h =>
    let t1 := h + (rotr e 6 ^^^ rotr e 11 ^^^ rotr e 25) + ((e &&& f) ^^^ (~~~e &&& g))
                + K.getD i 0 + w.getD i 0
    let t2 := (rotr a 2 ^^^ rotr a 13 ^^^ rotr a 22) + ((a &&& b) ^^^ (a &&& c) ^^^ (b &&& c))
    rounds w n (i+1) (t1 + t2) a b c (d + t1) e f g

/-- the SHA-256 compression function on a block given as 16 big-endian words. -/
def compress (s : State) (blk : Array UInt32) : State :=
  let r := rounds (expand 48 blk) 64 0 s.a s.b s.c s.d s.e s.f s.g s.h
  ⟨s.a + r.a, s.b + r.b, s.c + r.c, s.d + r.d, s.e + r.e, s.f + r.f, s.g + r.g, s.h + r.h⟩

/-- Merkle–Damgård padding of the tail `m` of a message whose first `prefixLen` bytes
(a multiple of 64) have already been absorbed. -/
def pad (prefixLen : Nat) (m : ByteArray) : ByteArray :=
  let total := prefixLen + m.size
  let b := Nat.repeat (fun b => b.push 0) ((119 - total % 64) % 64) (m.push 0x80)
  let bits : UInt64 := (total * 8).toUInt64
  Nat.fold 8 (fun j _ b => b.push (bits >>> (56 - 8 * j).toUInt64).toUInt8) b

/-- absorb all whole 64-byte blocks of `p`. -/
def absorb (s : State) (p : ByteArray) : State :=
  Nat.fold (p.size / 64) (fun i _ s => compress s (blockWords p (64 * i))) s

/-- finish a hash from midstate `s` (which absorbed `prefixLen` bytes) on remaining input `m`. -/
def hashFrom (s : State) (prefixLen : Nat) (m : ByteArray) : State :=
  absorb s (pad prefixLen m)

def wordBytes (x : UInt32) : Bytes :=
  [(x >>> 24).toUInt8, (x >>> 16).toUInt8, (x >>> 8).toUInt8, x.toUInt8]

def State.toBytes (s : State) : Bytes :=
  wordBytes s.a ++ wordBytes s.b ++ wordBytes s.c ++ wordBytes s.d ++
  wordBytes s.e ++ wordBytes s.f ++ wordBytes s.g ++ wordBytes s.h

def State.xor (s t : State) : State :=
  ⟨s.a ^^^ t.a, s.b ^^^ t.b, s.c ^^^ t.c, s.d ^^^ t.d, s.e ^^^ t.e, s.f ^^^ t.f, s.g ^^^ t.g, s.h ^^^ t.h⟩

@[simp] theorem State.toBytes_length (s : State) : s.toBytes.length = 32 := by
  simp [State.toBytes, wordBytes]

end Sha256

def sha256 (m : Bytes) : Bytes := (Sha256.hashFrom Sha256.iv 0 m.toByteArray).toBytes

def sha256d (m : Bytes) : Bytes := sha256 (sha256 m)

@[simp] theorem sha256_length (m : Bytes) : (sha256 m).length = 32 := by simp [sha256]

@[simp] theorem sha256d_length (m : Bytes) : (sha256d m).length = 32 := by simp [sha256d]

end BipVerif.Prim
