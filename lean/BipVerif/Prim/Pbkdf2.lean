/-
PBKDF2-HMAC-SHA512 / PBKDF2-HMAC-SHA256 (RFC 8018 §5.2).
The password midstates are computed once; every iteration after the first is exactly two
compression calls (inner digest block, outer digest block), with no byte conversions.
`iters = 0` is treated like `iters = 1` (hashlib rejects it); callers should guard.
-/
import BipVerif.Prim.Bytes
import BipVerif.Prim.Hmac

namespace BipVerif.Prim

namespace Sha256

/-- `n` further PBKDF2 iterations: `u` is the last `U_j`, `t` the running xor. -/
def pbkdf2Loop (ks : State × State) : Nat → State → State → State
  | 0, _, t => t
  | n+1, u, t =>
    let u' := outer ks.2 (compress ks.1 (digestBlock u))
    pbkdf2Loop ks n u' (t.xor u')

/-- block `T_idx` of PBKDF2 (`idx` is 1-based). -/
def pbkdf2Block (ks : State × State) (salt : Bytes) (iters : Nat) (idx : Nat) : State :=
  let u1 := hmacWith ks (salt ++ Bytes.ofNatBE 4 idx).toByteArray
  pbkdf2Loop ks (iters - 1) u1 u1

end Sha256

namespace Sha512

def pbkdf2Loop (ks : State × State) : Nat → State → State → State
  | 0, _, t => t
  | n+1, u, t =>
    let u' := outer ks.2 (compress ks.1 (digestBlock u))
    pbkdf2Loop ks n u' (t.xor u')

def pbkdf2Block (ks : State × State) (salt : Bytes) (iters : Nat) (idx : Nat) : State :=
  let u1 := hmacWith ks (salt ++ Bytes.ofNatBE 4 idx).toByteArray
  pbkdf2Loop ks (iters - 1) u1 u1

end Sha512

def pbkdf2HmacSha256 (password salt : Bytes) (iters dkLen : Nat) : Bytes :=
  let ks := Sha256.keyStates password
  ((List.range ((dkLen + 31) / 32)).flatMap fun j =>
    (Sha256.pbkdf2Block ks salt iters (j + 1)).toBytes).take dkLen

def pbkdf2HmacSha512 (password salt : Bytes) (iters dkLen : Nat) : Bytes :=
  let ks := Sha512.keyStates password
  ((List.range ((dkLen + 63) / 64)).flatMap fun j =>
    (Sha512.pbkdf2Block ks salt iters (j + 1)).toBytes).take dkLen

private theorem length_flatMap_const {α β} (f : α → List β) (k : Nat) (h : ∀ x, (f x).length = k) :
    ∀ l : List α, (l.flatMap f).length = k * l.length
  | [] => by simp
  | x :: xs => by simp [List.flatMap_cons, h, length_flatMap_const f k h xs, Nat.mul_succ, Nat.add_comm]

theorem pbkdf2HmacSha256_length (password salt : Bytes) (iters dkLen : Nat) :
    (pbkdf2HmacSha256 password salt iters dkLen).length = dkLen := by
  simp only [pbkdf2HmacSha256, List.length_take]
  rw [length_flatMap_const _ 32 (fun _ => Sha256.State.toBytes_length _), List.length_range]
  omega

theorem pbkdf2HmacSha512_length (password salt : Bytes) (iters dkLen : Nat) :
    (pbkdf2HmacSha512 password salt iters dkLen).length = dkLen := by
  simp only [pbkdf2HmacSha512, List.length_take]
  rw [length_flatMap_const _ 64 (fun _ => Sha512.State.toBytes_length _), List.length_range]
  omega

end BipVerif.Prim
