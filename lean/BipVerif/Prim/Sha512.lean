/-
SHA-512 and SHA-512/256 (FIPS 180-4).  Mathlib-free, total, executable.
Same layout as `Sha256`: internals in `BipVerif.Prim.Sha512`, fixed 8-field state,
`compress` on 16 big-endian 64-bit words.
-/
import BipVerif.Prim.Bytes

namespace BipVerif.Prim
namespace Sha512

/-- chaining value / digest as eight 64-bit words. -/
structure State where
  a : UInt64
  b : UInt64
  c : UInt64
  d : UInt64
  e : UInt64
  f : UInt64
  g : UInt64
  h : UInt64
  deriving Repr, BEq, DecidableEq

def iv : State :=
  ⟨0x6a09e667f3bcc908, 0xbb67ae8584caa73b, 0x3c6ef372fe94f82b, 0xa54ff53a5f1d36f1,
   0x510e527fade682d1, 0x9b05688c2b3e6c1f, 0x1f83d9abfb41bd6b, 0x5be0cd19137e2179⟩

/-- FIPS 180-4 §5.3.6.2 initial value of SHA-512/256. -/
def iv256 : State :=
  ⟨0x22312194fc2bf72c, 0x9f555fa3c84c64c2, 0x2393b86b6f53b151, 0x963877195940eabd,
   0x96283ee2a88effe3, 0xbe5e1e2553863992, 0x2b0199fc2c85b8aa, 0x0eb72ddc81c52ca2⟩

def K : Array UInt64 := #[
  0x428a2f98d728ae22, 0x7137449123ef65cd, 0xb5c0fbcfec4d3b2f, 0xe9b5dba58189dbbc,
  0x3956c25bf348b538, 0x59f111f1b605d019, 0x923f82a4af194f9b, 0xab1c5ed5da6d8118,
  0xd807aa98a3030242, 0x12835b0145706fbe, 0x243185be4ee4b28c, 0x550c7dc3d5ffb4e2,
  0x72be5d74f27b896f, 0x80deb1fe3b1696b1, 0x9bdc06a725c71235, 0xc19bf174cf692694,
  0xe49b69c19ef14ad2, 0xefbe4786384f25e3, 0x0fc19dc68b8cd5b5, 0x240ca1cc77ac9c65,
  0x2de92c6f592b0275, 0x4a7484aa6ea6e483, 0x5cb0a9dcbd41fbd4, 0x76f988da831153b5,
  0x983e5152ee66dfab, 0xa831c66d2db43210, 0xb00327c898fb213f, 0xbf597fc7beef0ee4,
  0xc6e00bf33da88fc2, 0xd5a79147930aa725, 0x06ca6351e003826f, 0x142929670a0e6e70,
  0x27b70a8546d22ffc, 0x2e1b21385c26c926, 0x4d2c6dfc5ac42aed, 0x53380d139d95b3df,
  0x650a73548baf63de, 0x766a0abb3c77b2a8, 0x81c2c92e47edaee6, 0x92722c851482353b,
  0xa2bfe8a14cf10364, 0xa81a664bbc423001, 0xc24b8b70d0f89791, 0xc76c51a30654be30,
  0xd192e819d6ef5218, 0xd69906245565a910, 0xf40e35855771202a, 0x106aa07032bbd1b8,
  0x19a4c116b8d2d0c8, 0x1e376c085141ab53, 0x2748774cdf8eeb99, 0x34b0bcb5e19b48a8,
  0x391c0cb3c5c95a63, 0x4ed8aa4ae3418acb, 0x5b9cca4f7763e373, 0x682e6ff3d6b2b8a3,
  0x748f82ee5defb2fc, 0x78a5636f43172f60, 0x84c87814a1f0ab72, 0x8cc702081a6439ec,
  0x90befffa23631e28, 0xa4506cebde82bde9, 0xbef9a3f7b2c67915, 0xc67178f2e372532b,
  0xca273eceea26619c, 0xd186b8c721c0c207, 0xeada7dd6cde0eb1e, 0xf57d4f7fee6ed178,
  0x06f067aa72176fba, 0x0a637dc5a2c898a6, 0x113f9804bef90dae, 0x1b710b35131c471b,
  0x28db77f523047d84, 0x32caab7b40c72493, 0x3c9ebe0a15c9bebc, 0x431d67c49c100d4c,
  0x4cc5d4becb3e42b6, 0x597f299cfc657e2a, 0x5fcb6fab3ad6faec, 0x6c44198c4a475817]

@[inline] def rotr (x n : UInt64) : UInt64 := (x >>> n) ||| (x <<< (64 - n))

/-- byte at `i`, `0` past the end (so short keys are zero-padded for free). -/
@[inline] def byteAt (b : ByteArray) (i : Nat) : UInt8 := if h : i < b.size then b[i] else 0

/-- big-endian 64-bit word at byte offset `i`. -/
@[inline] def be64 (b : ByteArray) (i : Nat) : UInt64 :=
  ((byteAt b i).toUInt64 <<< 56) ||| ((byteAt b (i+1)).toUInt64 <<< 48) |||
  ((byteAt b (i+2)).toUInt64 <<< 40) ||| ((byteAt b (i+3)).toUInt64 <<< 32) |||
  ((byteAt b (i+4)).toUInt64 <<< 24) ||| ((byteAt b (i+5)).toUInt64 <<< 16) |||
  ((byteAt b (i+6)).toUInt64 <<< 8) ||| (byteAt b (i+7)).toUInt64

/-- the 16 message words of the 128-byte block starting at byte offset `off`. -/
def blockWords (b : ByteArray) (off : Nat) : Array UInt64 :=
  Array.ofFn (n := 16) fun j => be64 b (off + 8 * j.val)

/-- extend a message schedule by `n` words. -/
def expand : Nat → Array UInt64 → Array UInt64
  | 0, w => w
  | n+1, w =>
    let i := w.size
    let x := w.getD (i - 15) 0
    let y := w.getD (i - 2) 0
    let s0 := rotr x 1 ^^^ rotr x 8 ^^^ (x >>> 7)
    let s1 := rotr y 19 ^^^ rotr y 61 ^^^ (y >>> 6)
    expand n (w.push (s1 + w.getD (i - 7) 0 + s0 + w.getD (i - 16) 0))

/-- `n` rounds starting at round `i`, on unboxed working variables. -/
def rounds (w : Array UInt64) :
    Nat → Nat → UInt64 → UInt64 → UInt64 → UInt64 → UInt64 → UInt64 → UInt64 → UInt64 → State
  | 0, _, a, b, c, d, e, f, g, h => ⟨a, b, c, d, e, f, g, h⟩
  | n+1, i, a, b, c, d, e, f, g, h =>
    let t1 := h + (rotr e 14 ^^^ rotr e 18 ^^^ rotr e 41) + ((e &&& f) ^^^ (~~~e &&& g))
                + K.getD i 0 + w.getD i 0
    let t2 := (rotr a 28 ^^^ rotr a 34 ^^^ rotr a 39) + ((a &&& b) ^^^ (a &&& c) ^^^ (b &&& c))
    rounds w n (i+1) (t1 + t2) a b c (d + t1) e f g

/-- the SHA-512 compression function on a block given as 16 big-endian words. -/
def compress (s : State) (blk : Array UInt64) : State :=
  let r := rounds (expand 64 blk) 80 0 s.a s.b s.c s.d s.e s.f s.g s.h
  ⟨s.a + r.a, s.b + r.b, s.c + r.c, s.d + r.d, s.e + r.e, s.f + r.f, s.g + r.g, s.h + r.h⟩

/-- Merkle–Damgård padding of the tail `m` of a message whose first `prefixLen` bytes
(a multiple of 128) have already been absorbed.  The 128-bit length field is written as
eight zero bytes plus a 64-bit count (inputs are < 2^61 bytes). -/
def pad (prefixLen : Nat) (m : ByteArray) : ByteArray :=
  let total := prefixLen + m.size
  let b := Nat.repeat (fun b => b.push 0) ((239 - total % 128) % 128 + 8) (m.push 0x80)
  let bits : UInt64 := (total * 8).toUInt64
  Nat.fold 8 (fun j _ b => b.push (bits >>> (56 - 8 * j).toUInt64).toUInt8) b

/-- absorb all whole 128-byte blocks of `p`. -/
def absorb (s : State) (p : ByteArray) : State :=
  Nat.fold (p.size / 128) (fun i _ s => compress s (blockWords p (128 * i))) s

/-- finish a hash from midstate `s` (which absorbed `prefixLen` bytes) on remaining input `m`. -/
def hashFrom (s : State) (prefixLen : Nat) (m : ByteArray) : State :=
  absorb s (pad prefixLen m)

def wordBytes (x : UInt64) : Bytes :=
  [(x >>> 56).toUInt8, (x >>> 48).toUInt8, (x >>> 40).toUInt8, (x >>> 32).toUInt8,
   (x >>> 24).toUInt8, (x >>> 16).toUInt8, (x >>> 8).toUInt8, x.toUInt8]

def State.toBytes (s : State) : Bytes :=
  wordBytes s.a ++ wordBytes s.b ++ wordBytes s.c ++ wordBytes s.d ++
  wordBytes s.e ++ wordBytes s.f ++ wordBytes s.g ++ wordBytes s.h

/-- first 32 bytes of the digest (the SHA-512/256 truncation). -/
def State.toBytes256 (s : State) : Bytes :=
  wordBytes s.a ++ wordBytes s.b ++ wordBytes s.c ++ wordBytes s.d

def State.xor (s t : State) : State :=
  ⟨s.a ^^^ t.a, s.b ^^^ t.b, s.c ^^^ t.c, s.d ^^^ t.d, s.e ^^^ t.e, s.f ^^^ t.f, s.g ^^^ t.g, s.h ^^^ t.h⟩

@[simp] theorem State.toBytes_length (s : State) : s.toBytes.length = 64 := by
  simp [State.toBytes, wordBytes]

@[simp] theorem State.toBytes256_length (s : State) : s.toBytes256.length = 32 := by
  simp [State.toBytes256, wordBytes]

end Sha512

def sha512 (m : Bytes) : Bytes := (Sha512.hashFrom Sha512.iv 0 m.toByteArray).toBytes

/-- SHA-512/256: SHA-512 with its own IV, truncated to the leftmost 256 bits. -/
def sha512_256 (m : Bytes) : Bytes := (Sha512.hashFrom Sha512.iv256 0 m.toByteArray).toBytes256

@[simp] theorem sha512_length (m : Bytes) : (sha512 m).length = 64 := by simp [sha512]

@[simp] theorem sha512_256_length (m : Bytes) : (sha512_256 m).length = 32 := by simp [sha512_256]

end BipVerif.Prim
