/-
RIPEMD-160 (Dobbertin, Bosselaers, Preneel 1996).  Mathlib-free, total, executable.
-/
import BipVerif.Prim.Bytes

namespace BipVerif.Prim
namespace Ripemd160

/-- the five chaining words (also used for each of the two parallel lines). -/
structure St where
  a : UInt32
  b : UInt32
  c : UInt32
  d : UInt32
  e : UInt32

@[inline] def rol (x : UInt32) (n : UInt32) : UInt32 := (x <<< n) ||| (x >>> (32 - n))

/-- round function number `i` (0..4). -/
@[inline] def f (i : Nat) (x y z : UInt32) : UInt32 :=
  match i with
  | 0 => x ^^^ y ^^^ z
  | 1 => (x &&& y) ||| (~~~x &&& z)
  | 2 => (x ||| ~~~y) ^^^ z
  | 3 => (x &&& z) ||| (y &&& ~~~z)
  | _ => x ^^^ (y ||| ~~~z)

def kL : Array UInt32 := #[0x00000000, 0x5A827999, 0x6ED9EBA1, 0x8F1BBCDC, 0xA953FD4E]
def kR : Array UInt32 := #[0x50A28BE6, 0x5C4DD124, 0x6D703EF3, 0x7A6D76E9, 0x00000000]

def rL : Array Nat := #[
  0, 1, 2, 3, 4, 5, 6, 7, 8, 9, 10, 11, 12, 13, 14, 15,
  7, 4, 13, 1, 10, 6, 15, 3, 12, 0, 9, 5, 2, 14, 11, 8,
  3, 10, 14, 4, 9, 15, 8, 1, 2, 7, 0, 6, 13, 11, 5, 12,
  1, 9, 11, 10, 0, 8, 12, 4, 13, 3, 7, 15, 14, 5, 6, 2,
  4, 0, 5, 9, 7, 12, 2, 10, 14, 1, 3, 8, 11, 6, 15, 13]

def rR : Array Nat := #[
  5, 14, 7, 0, 9, 2, 11, 4, 13, 6, 15, 8, 1, 10, 3, 12,
  6, 11, 3, 7, 0, 13, 5, 10, 14, 15, 8, 12, 4, 9, 1, 2,
  15, 5, 1, 3, 7, 14, 6, 9, 11, 8, 12, 2, 10, 0, 4, 13,
  8, 6, 4, 1, 3, 11, 15, 0, 5, 12, 2, 13, 9, 7, 10, 14,
  12, 15, 10, 4, 1, 5, 8, 7, 6, 2, 13, 14, 0, 3, 9, 11]

def sL : Array UInt32 := #[
  11, 14, 15, 12, 5, 8, 7, 9, 11, 13, 14, 15, 6, 7, 9, 8,
  7, 6, 8, 13, 11, 9, 7, 15, 7, 12, 15, 9, 11, 7, 13, 12,
  11, 13, 6, 7, 14, 9, 13, 15, 14, 8, 13, 6, 5, 12, 7, 5,
  11, 12, 14, 15, 14, 15, 9, 8, 9, 14, 5, 6, 8, 6, 5, 12,
  9, 15, 5, 11, 6, 8, 13, 12, 5, 12, 13, 14, 11, 8, 5, 6]

def sR : Array UInt32 := #[
  8, 9, 9, 11, 13, 15, 15, 5, 7, 7, 8, 11, 14, 14, 12, 6,
  9, 13, 15, 7, 12, 8, 9, 11, 7, 7, 12, 7, 6, 15, 13, 11,
  9, 7, 15, 11, 8, 6, 6, 14, 12, 13, 5, 14, 13, 13, 7, 5,
  15, 5, 8, 11, 14, 14, 6, 14, 6, 9, 12, 9, 12, 5, 15, 8,
  8, 5, 12, 9, 12, 5, 14, 6, 8, 13, 6, 5, 15, 13, 11, 11]

/-- one step of one line: `fi` selects the boolean function, `k` the constant,
`x` the message word and `s` the rotation. -/
@[inline] def step (fi : Nat) (k x s : UInt32) (t : St) : St :=
  { a := t.e
    b := rol (t.a + f fi t.b t.c t.d + x + k) s + t.e
    c := t.b
    d := rol t.c 10
    e := t.d }

/-- compression function; `w` holds the sixteen little-endian message words. -/
def compress (h : St) (w : Array UInt32) : St :=
  let lr := (List.range 80).foldl (fun (lr : St × St) j =>
    let i := j / 16
    (step i (kL.getD i 0) (w.getD (rL.getD j 0) 0) (sL.getD j 0) lr.1,
     step (4 - i) (kR.getD i 0) (w.getD (rR.getD j 0) 0) (sR.getD j 0) lr.2)) (h, h)
  let l := lr.1
  let r := lr.2
  { a := h.b + l.c + r.d
    b := h.c + l.d + r.e
    c := h.d + l.e + r.a
    d := h.e + l.a + r.b
    e := h.a + l.b + r.c }

def init : St :=
  { a := 0x67452301, b := 0xEFCDAB89, c := 0x98BADCFE, d := 0x10325476, e := 0xC3D2E1F0 }

/-- `m ‖ 0x80 ‖ 0…0 ‖ bitlen (64-bit little-endian)`, a multiple of 64 bytes. -/
def pad (m : Bytes) : Bytes :=
  let n := m.length
  m ++ 0x80 :: List.replicate ((119 - n % 64) % 64) 0 ++ Bytes.ofNatLE 8 (8 * n)

/-- little-endian 32-bit word at byte offset `o`. -/
@[inline] def word (p : Array UInt8) (o : Nat) : UInt32 :=
  (p.getD o 0).toUInt32 ||| ((p.getD (o + 1) 0).toUInt32 <<< 8) |||
  ((p.getD (o + 2) 0).toUInt32 <<< 16) ||| ((p.getD (o + 3) 0).toUInt32 <<< 24)

def le32 (x : UInt32) : Bytes :=
  [x.toUInt8, (x >>> 8).toUInt8, (x >>> 16).toUInt8, (x >>> 24).toUInt8]

def out (h : St) : Bytes := le32 h.a ++ le32 h.b ++ le32 h.c ++ le32 h.d ++ le32 h.e

theorem out_length (h : St) : (out h).length = 20 := by simp [out, le32]

end Ripemd160

open Ripemd160 in
/-- RIPEMD-160 digest (20 bytes). -/
def ripemd160 (m : Bytes) : Bytes :=
  let p := (pad m).toArray
  out <| (List.range (p.size / 64)).foldl (fun h b =>
    compress h (Array.ofFn (n := 16) fun i => word p (64 * b + 4 * i.val))) init

theorem ripemd160_length (m : Bytes) : (ripemd160 m).length = 20 := by
  simp [ripemd160, Ripemd160.out_length]

end BipVerif.Prim
