/-
BLAKE2b (RFC 7693) with optional key and salt, sequential mode, no personalisation.
Mathlib-free, total, executable.
-/
import BipVerif.Prim.Bytes

namespace BipVerif.Prim
namespace Blake2b

@[inline] def ror (x : UInt64) (n : UInt64) : UInt64 := (x >>> n) ||| (x <<< (64 - n))

def iv : Array UInt64 := #[
  0x6a09e667f3bcc908, 0xbb67ae8584caa73b, 0x3c6ef372fe94f82b, 0xa54ff53a5f1d36f1,
  0x510e527fade682d1, 0x9b05688c2b3e6c1f, 0x1f83d9abfb41bd6b, 0x5be0cd19137e2179]

def sigma : Array (Array Nat) := #[
  #[0, 1, 2, 3, 4, 5, 6, 7, 8, 9, 10, 11, 12, 13, 14, 15],
  #[14, 10, 4, 8, 9, 15, 13, 6, 1, 12, 0, 2, 11, 7, 5, 3],
  #[11, 8, 12, 0, 5, 2, 15, 13, 10, 14, 3, 6, 7, 1, 9, 4],
  #[7, 9, 3, 1, 13, 12, 11, 14, 2, 6, 5, 10, 4, 0, 15, 8],
  #[9, 0, 5, 7, 2, 4, 10, 15, 14, 1, 11, 12, 6, 8, 3, 13],
  #[2, 12, 6, 10, 0, 11, 8, 3, 4, 13, 7, 5, 15, 14, 1, 9],
  #[12, 5, 1, 15, 14, 13, 4, 10, 0, 7, 6, 3, 9, 2, 8, 11],
  #[13, 11, 7, 14, 12, 1, 3, 9, 5, 0, 15, 4, 8, 6, 2, 10],
  #[6, 15, 14, 9, 11, 3, 0, 8, 12, 2, 13, 7, 1, 4, 10, 5],
  #[10, 2, 8, 4, 7, 6, 1, 5, 15, 11, 9, 14, 3, 12, 13, 0]]

/-- the mixing function G on positions `a b c d` of the work vector. -/
@[inline] def mix (v : Array UInt64) (a b c d : Nat) (x y : UInt64) : Array UInt64 :=
  let va := v.getD a 0; let vb := v.getD b 0; let vc := v.getD c 0; let vd := v.getD d 0
  let va := va + vb + x
  let vd := ror (vd ^^^ va) 32
  let vc := vc + vd
  let vb := ror (vb ^^^ vc) 24
  let va := va + vb + y
  let vd := ror (vd ^^^ va) 16
  let vc := vc + vd
  let vb := ror (vb ^^^ vc) 63
  (((v.setIfInBounds a va).setIfInBounds b vb).setIfInBounds c vc).setIfInBounds d vd

def round (m : Array UInt64) (v : Array UInt64) (r : Nat) : Array UInt64 :=
  let s := sigma.getD (r % 10) #[]
  let w (i : Nat) : UInt64 := m.getD (s.getD i 0) 0
  let v := mix v 0 4 8 12 (w 0) (w 1)
  let v := mix v 1 5 9 13 (w 2) (w 3)
  let v := mix v 2 6 10 14 (w 4) (w 5)
  let v := mix v 3 7 11 15 (w 6) (w 7)
  let v := mix v 0 5 10 15 (w 8) (w 9)
  let v := mix v 1 6 11 12 (w 10) (w 11)
  let v := mix v 2 7 8 13 (w 12) (w 13)
  mix v 3 4 9 14 (w 14) (w 15)

/-- compression function F: `h` 8 words, `m` 16 message words, `t` byte counter (low 64 bits;
the high word is always 0 for inputs below 2^64 bytes), `last` the finalisation flag. -/
def compress (h m : Array UInt64) (t : UInt64) (last : Bool) : Array UInt64 :=
  let v : Array UInt64 := Array.ofFn (n := 16) fun i =>
    if i.val < 8 then h.getD i.val 0
    else
      let x := iv.getD (i.val - 8) 0
      if i.val = 12 then x ^^^ t else if i.val = 14 && last then ~~~x else x
  let v := (List.range 12).foldl (round m) v
  Array.ofFn (n := 8) fun i => h.getD i.val 0 ^^^ v.getD i.val 0 ^^^ v.getD (i.val + 8) 0

/-- little-endian 64-bit word at byte offset `o` (bytes past the end read as 0). -/
@[inline] def word (p : Array UInt8) (o : Nat) : UInt64 :=
  (List.range 8).foldl (fun acc i => acc ||| ((p.getD (o + i) 0).toUInt64 <<< (8 * i).toUInt64)) 0

def le64 (x : UInt64) : Bytes :=
  [x.toUInt8, (x >>> 8).toUInt8, (x >>> 16).toUInt8, (x >>> 24).toUInt8,
   (x >>> 32).toUInt8, (x >>> 40).toUInt8, (x >>> 48).toUInt8, (x >>> 56).toUInt8]

def out (h : Array UInt64) : Bytes :=
  le64 (h.getD 0 0) ++ le64 (h.getD 1 0) ++ le64 (h.getD 2 0) ++ le64 (h.getD 3 0) ++
  le64 (h.getD 4 0) ++ le64 (h.getD 5 0) ++ le64 (h.getD 6 0) ++ le64 (h.getD 7 0)

theorem out_length (h : Array UInt64) : (out h).length = 64 := by simp [out, le64]

/-- pad to exactly `n` bytes with zeros (truncating if longer). -/
def zeroPad (n : Nat) (b : Bytes) : Bytes := (b ++ List.replicate n 0).take n

/-- final chaining value for the given parameters. -/
def core (outLen : Nat) (key salt m : Bytes) : Array UInt64 :=
  let s := (zeroPad 16 salt).toArray
  -- parameter block: digest length, key length, fanout = depth = 1; salt in words 4 and 5
  let p0 : UInt64 := (0x01010000 : UInt64) ^^^ (UInt64.ofNat key.length <<< 8) ^^^ UInt64.ofNat outLen
  let h : Array UInt64 := Array.ofFn (n := 8) fun i =>
    let x := iv.getD i.val 0
    if i.val = 0 then x ^^^ p0
    else if i.val = 4 then x ^^^ word s 0
    else if i.val = 5 then x ^^^ word s 8
    else x
  let d := ((if key.isEmpty then [] else zeroPad 128 key) ++ m).toArray
  let n := d.size
  let nb := if n = 0 then 1 else (n + 127) / 128
  (List.range nb).foldl (fun h b =>
    let w : Array UInt64 := Array.ofFn (n := 16) fun i => word d (128 * b + 8 * i.val)
    if b + 1 = nb then compress h w (UInt64.ofNat n) true
    else compress h w (UInt64.ofNat (128 * (b + 1))) false) h

end Blake2b

/-- BLAKE2b with digest length `outLen` (1..64), key of 0..64 bytes, salt of 0..16 bytes
(shorter salts are zero-padded as in `hashlib`; empty = none), no personalisation. -/
def blake2b (outLen : Nat) (key salt : Bytes) (m : Bytes) : Bytes :=
  (Blake2b.out (Blake2b.core outLen key salt m)).take outLen

theorem blake2b_length (n : Nat) (key salt m : Bytes) (h : n ≤ 64) :
    (blake2b n key salt m).length = n := by
  simp [blake2b, Blake2b.out_length, Nat.min_eq_left h]

def blake2b32 (m : Bytes) : Bytes := blake2b 4 [] [] m
def blake2b40 (m : Bytes) : Bytes := blake2b 5 [] [] m
def blake2b160 (m : Bytes) : Bytes := blake2b 20 [] [] m
def blake2b224 (m : Bytes) : Bytes := blake2b 28 [] [] m
def blake2b256 (m : Bytes) : Bytes := blake2b 32 [] [] m
def blake2b512 (m : Bytes) : Bytes := blake2b 64 [] [] m

theorem blake2b32_length (m : Bytes) : (blake2b32 m).length = 4 := blake2b_length 4 _ _ _ (by decide)
theorem blake2b40_length (m : Bytes) : (blake2b40 m).length = 5 := blake2b_length 5 _ _ _ (by decide)
theorem blake2b160_length (m : Bytes) : (blake2b160 m).length = 20 := blake2b_length 20 _ _ _ (by decide)
theorem blake2b224_length (m : Bytes) : (blake2b224 m).length = 28 := blake2b_length 28 _ _ _ (by decide)
theorem blake2b256_length (m : Bytes) : (blake2b256 m).length = 32 := blake2b_length 32 _ _ _ (by decide)
theorem blake2b512_length (m : Bytes) : (blake2b512 m).length = 64 := blake2b_length 64 _ _ _ (by decide)

end BipVerif.Prim
