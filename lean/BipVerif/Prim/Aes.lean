/-
AES-256 (FIPS 197): single-block encryption / decryption and ECB mode.  Mathlib-free, total,
executable.  The state is kept as an `Array UInt8` of 16 bytes in FIPS order (`s[r + 4c]`, i.e.
the same order as the input block); the key schedule is 60 big-endian words.

Lengths are not checked: a short key / block is read as if zero-padded and surplus bytes are
ignored; the ECB functions process the `data.length / 16` whole blocks and DROP a trailing
partial block (the reference implementations raise instead - callers must guard).
-/
import BipVerif.Prim.Bytes

namespace BipVerif.Prim

namespace Aes

def sbox : Array UInt8 := #[
  0x63, 0x7c, 0x77, 0x7b, 0xf2, 0x6b, 0x6f, 0xc5, 0x30, 0x01, 0x67, 0x2b, 0xfe, 0xd7, 0xab, 0x76,
  0xca, 0x82, 0xc9, 0x7d, 0xfa, 0x59, 0x47, 0xf0, 0xad, 0xd4, 0xa2, 0xaf, 0x9c, 0xa4, 0x72, 0xc0,
  0xb7, 0xfd, 0x93, 0x26, 0x36, 0x3f, 0xf7, 0xcc, 0x34, 0xa5, 0xe5, 0xf1, 0x71, 0xd8, 0x31, 0x15,
  0x04, 0xc7, 0x23, 0xc3, 0x18, 0x96, 0x05, 0x9a, 0x07, 0x12, 0x80, 0xe2, 0xeb, 0x27, 0xb2, 0x75,
  0x09, 0x83, 0x2c, 0x1a, 0x1b, 0x6e, 0x5a, 0xa0, 0x52, 0x3b, 0xd6, 0xb3, 0x29, 0xe3, 0x2f, 0x84,
  0x53, 0xd1, 0x00, 0xed, 0x20, 0xfc, 0xb1, 0x5b, 0x6a, 0xcb, 0xbe, 0x39, 0x4a, 0x4c, 0x58, 0xcf,
  0xd0, 0xef, 0xaa, 0xfb, 0x43, 0x4d, 0x33, 0x85, 0x45, 0xf9, 0x02, 0x7f, 0x50, 0x3c, 0x9f, 0xa8,
  0x51, 0xa3, 0x40, 0x8f, 0x92, 0x9d, 0x38, 0xf5, 0xbc, 0xb6, 0xda, 0x21, 0x10, 0xff, 0xf3, 0xd2,
  0xcd, 0x0c, 0x13, 0xec, 0x5f, 0x97, 0x44, 0x17, 0xc4, 0xa7, 0x7e, 0x3d, 0x64, 0x5d, 0x19, 0x73,
  0x60, 0x81, 0x4f, 0xdc, 0x22, 0x2a, 0x90, 0x88, 0x46, 0xee, 0xb8, 0x14, 0xde, 0x5e, 0x0b, 0xdb,
  0xe0, 0x32, 0x3a, 0x0a, 0x49, 0x06, 0x24, 0x5c, 0xc2, 0xd3, 0xac, 0x62, 0x91, 0x95, 0xe4, 0x79,
  0xe7, 0xc8, 0x37, 0x6d, 0x8d, 0xd5, 0x4e, 0xa9, 0x6c, 0x56, 0xf4, 0xea, 0x65, 0x7a, 0xae, 0x08,
  0xba, 0x78, 0x25, 0x2e, 0x1c, 0xa6, 0xb4, 0xc6, 0xe8, 0xdd, 0x74, 0x1f, 0x4b, 0xbd, 0x8b, 0x8a,
  0x70, 0x3e, 0xb5, 0x66, 0x48, 0x03, 0xf6, 0x0e, 0x61, 0x35, 0x57, 0xb9, 0x86, 0xc1, 0x1d, 0x9e,
  0xe1, 0xf8, 0x98, 0x11, 0x69, 0xd9, 0x8e, 0x94, 0x9b, 0x1e, 0x87, 0xe9, 0xce, 0x55, 0x28, 0xdf,
  0x8c, 0xa1, 0x89, 0x0d, 0xbf, 0xe6, 0x42, 0x68, 0x41, 0x99, 0x2d, 0x0f, 0xb0, 0x54, 0xbb, 0x16]

def invSbox : Array UInt8 := #[
  0x52, 0x09, 0x6a, 0xd5, 0x30, 0x36, 0xa5, 0x38, 0xbf, 0x40, 0xa3, 0x9e, 0x81, 0xf3, 0xd7, 0xfb,
  0x7c, 0xe3, 0x39, 0x82, 0x9b, 0x2f, 0xff, 0x87, 0x34, 0x8e, 0x43, 0x44, 0xc4, 0xde, 0xe9, 0xcb,
  0x54, 0x7b, 0x94, 0x32, 0xa6, 0xc2, 0x23, 0x3d, 0xee, 0x4c, 0x95, 0x0b, 0x42, 0xfa, 0xc3, 0x4e,
  0x08, 0x2e, 0xa1, 0x66, 0x28, 0xd9, 0x24, 0xb2, 0x76, 0x5b, 0xa2, 0x49, 0x6d, 0x8b, 0xd1, 0x25,
  0x72, 0xf8, 0xf6, 0x64, 0x86, 0x68, 0x98, 0x16, 0xd4, 0xa4, 0x5c, 0xcc, 0x5d, 0x65, 0xb6, 0x92,
  0x6c, 0x70, 0x48, 0x50, 0xfd, 0xed, 0xb9, 0xda, 0x5e, 0x15, 0x46, 0x57, 0xa7, 0x8d, 0x9d, 0x84,
  0x90, 0xd8, 0xab, 0x00, 0x8c, 0xbc, 0xd3, 0x0a, 0xf7, 0xe4, 0x58, 0x05, 0xb8, 0xb3, 0x45, 0x06,
  0xd0, 0x2c, 0x1e, 0x8f, 0xca, 0x3f, 0x0f, 0x02, 0xc1, 0xaf, 0xbd, 0x03, 0x01, 0x13, 0x8a, 0x6b,
  0x3a, 0x91, 0x11, 0x41, 0x4f, 0x67, 0xdc, 0xea, 0x97, 0xf2, 0xcf, 0xce, 0xf0, 0xb4, 0xe6, 0x73,
  0x96, 0xac, 0x74, 0x22, 0xe7, 0xad, 0x35, 0x85, 0xe2, 0xf9, 0x37, 0xe8, 0x1c, 0x75, 0xdf, 0x6e,
  0x47, 0xf1, 0x1a, 0x71, 0x1d, 0x29, 0xc5, 0x89, 0x6f, 0xb7, 0x62, 0x0e, 0xaa, 0x18, 0xbe, 0x1b,
  0xfc, 0x56, 0x3e, 0x4b, 0xc6, 0xd2, 0x79, 0x20, 0x9a, 0xdb, 0xc0, 0xfe, 0x78, 0xcd, 0x5a, 0xf4,
  0x1f, 0xdd, 0xa8, 0x33, 0x88, 0x07, 0xc7, 0x31, 0xb1, 0x12, 0x10, 0x59, 0x27, 0x80, 0xec, 0x5f,
  0x60, 0x51, 0x7f, 0xa9, 0x19, 0xb5, 0x4a, 0x0d, 0x2d, 0xe5, 0x7a, 0x9f, 0x93, 0xc9, 0x9c, 0xef,
  0xa0, 0xe0, 0x3b, 0x4d, 0xae, 0x2a, 0xf5, 0xb0, 0xc8, 0xeb, 0xbb, 0x3c, 0x83, 0x53, 0x99, 0x61,
  0x17, 0x2b, 0x04, 0x7e, 0xba, 0x77, 0xd6, 0x26, 0xe1, 0x69, 0x14, 0x63, 0x55, 0x21, 0x0c, 0x7d]

def rcon : Array UInt32 := #[0x00, 0x01, 0x02, 0x04, 0x08, 0x10, 0x20, 0x40, 0x80, 0x1b, 0x36]

@[inline] def sub (x : UInt8) : UInt8 := sbox.getD x.toNat 0
@[inline] def invSub (x : UInt8) : UInt8 := invSbox.getD x.toNat 0

/-- multiplication by `x` in GF(2^8) modulo `x^8 + x^4 + x^3 + x + 1`. -/
@[inline] def xtime (x : UInt8) : UInt8 := (x <<< 1) ^^^ (if x &&& 0x80 = 0 then 0 else 0x1b)

@[inline] def mul2 (x : UInt8) : UInt8 := xtime x
@[inline] def mul3 (x : UInt8) : UInt8 := xtime x ^^^ x
@[inline] def mul9 (x : UInt8) : UInt8 := xtime (xtime (xtime x)) ^^^ x
@[inline] def mul11 (x : UInt8) : UInt8 := xtime (xtime (xtime x)) ^^^ xtime x ^^^ x
@[inline] def mul13 (x : UInt8) : UInt8 := xtime (xtime (xtime x)) ^^^ xtime (xtime x) ^^^ x
@[inline] def mul14 (x : UInt8) : UInt8 := xtime (xtime (xtime x)) ^^^ xtime (xtime x) ^^^ xtime x

/-- `SubWord` on a big-endian word. -/
def subWord (w : UInt32) : UInt32 :=
  ((sub (w >>> 24).toUInt8).toUInt32 <<< 24) ||| ((sub (w >>> 16).toUInt8).toUInt32 <<< 16) |||
  ((sub (w >>> 8).toUInt8).toUInt32 <<< 8) ||| (sub w.toUInt8).toUInt32

/-- `RotWord`: `[a0,a1,a2,a3] ↦ [a1,a2,a3,a0]`. -/
@[inline] def rotWord (w : UInt32) : UInt32 := (w <<< 8) ||| (w >>> 24)

/-- big-endian word at byte offset `i` of the key (bytes past the end read as `0`). -/
@[inline] def be32 (b : Array UInt8) (i : Nat) : UInt32 :=
  ((b.getD i 0).toUInt32 <<< 24) ||| ((b.getD (i+1) 0).toUInt32 <<< 16) |||
  ((b.getD (i+2) 0).toUInt32 <<< 8) ||| (b.getD (i+3) 0).toUInt32

/-- extend an AES-256 key schedule (`Nk = 8`) by `n` words. -/
def expand : Nat → Array UInt32 → Array UInt32
  | 0, w => w
  | n+1, w =>
    let i := w.size
    let t := w.getD (i - 1) 0
    let t := if i % 8 = 0 then subWord (rotWord t) ^^^ (rcon.getD (i / 8) 0 <<< 24)
             else if i % 8 = 4 then subWord t else t
    expand n (w.push (w.getD (i - 8) 0 ^^^ t))

/-- the 240 round-key bytes (15 round keys of 16 bytes) of a 32-byte key. -/
def roundKeys (key : Bytes) : Array UInt8 :=
  let kb := key.toArray
  let w := expand 52 (Array.ofFn (n := 8) fun j => be32 kb (4 * j.val))
  Array.ofFn (n := 240) fun i =>
    ((w.getD (i.val / 4) 0) >>> (UInt32.ofNat (24 - 8 * (i.val % 4)))).toUInt8

abbrev St := Array UInt8

@[inline] def addRoundKey (rk : Array UInt8) (round : Nat) (s : St) : St :=
  Array.ofFn (n := 16) fun i => s.getD i.val 0 ^^^ rk.getD (16 * round + i.val) 0

@[inline] def subBytes (s : St) : St := Array.ofFn (n := 16) fun i => sub (s.getD i.val 0)
@[inline] def invSubBytes (s : St) : St := Array.ofFn (n := 16) fun i => invSub (s.getD i.val 0)

/-- row `r` is rotated left by `r`: `s'[r + 4c] = s[r + 4((c + r) mod 4)]`. -/
@[inline] def shiftRows (s : St) : St :=
  Array.ofFn (n := 16) fun i => s.getD (i.val % 4 + 4 * ((i.val / 4 + i.val % 4) % 4)) 0

/-- row `r` is rotated right by `r`. -/
@[inline] def invShiftRows (s : St) : St :=
  Array.ofFn (n := 16) fun i => s.getD (i.val % 4 + 4 * ((i.val / 4 + 4 - i.val % 4) % 4)) 0

/-- `s'[r,c] = 2·s[r,c] ⊕ 3·s[r+1,c] ⊕ s[r+2,c] ⊕ s[r+3,c]` (row indices mod 4). -/
@[inline] def mixColumns (s : St) : St :=
  Array.ofFn (n := 16) fun i =>
    let c := 4 * (i.val / 4); let r := i.val % 4
    mul2 (s.getD (c + r) 0) ^^^ mul3 (s.getD (c + (r + 1) % 4) 0) ^^^
      s.getD (c + (r + 2) % 4) 0 ^^^ s.getD (c + (r + 3) % 4) 0

/-- `s'[r,c] = 14·s[r,c] ⊕ 11·s[r+1,c] ⊕ 13·s[r+2,c] ⊕ 9·s[r+3,c]`. -/
@[inline] def invMixColumns (s : St) : St :=
  Array.ofFn (n := 16) fun i =>
    let c := 4 * (i.val / 4); let r := i.val % 4
    mul14 (s.getD (c + r) 0) ^^^ mul11 (s.getD (c + (r + 1) % 4) 0) ^^^
      mul13 (s.getD (c + (r + 2) % 4) 0) ^^^ mul9 (s.getD (c + (r + 3) % 4) 0)

/-- `n` full encryption rounds starting with round number `round`. -/
def encRounds (rk : Array UInt8) : Nat → Nat → St → St
  | 0, _, s => s
  | n+1, round, s =>
    encRounds rk n (round + 1) (addRoundKey rk round (mixColumns (shiftRows (subBytes s))))

/-- `n` full decryption rounds, going down from round number `round`. -/
def decRounds (rk : Array UInt8) : Nat → Nat → St → St
  | 0, _, s => s
  | n+1, round, s =>
    decRounds rk n (round - 1) (invMixColumns (addRoundKey rk round (invSubBytes (invShiftRows s))))

/-- the cipher (FIPS 197 §5.1) for `Nr = 14` on a 16-byte state. -/
def encryptState (rk : Array UInt8) (s : St) : St :=
  let s := encRounds rk 13 1 (addRoundKey rk 0 s)
  addRoundKey rk 14 (shiftRows (subBytes s))

/-- the inverse cipher (FIPS 197 §5.3) for `Nr = 14`. -/
def decryptState (rk : Array UInt8) (s : St) : St :=
  let s := decRounds rk 13 13 (addRoundKey rk 14 s)
  addRoundKey rk 0 (invSubBytes (invShiftRows s))

/-- load a block: exactly 16 bytes, zero-padded / truncated. -/
def loadBlock (block : Bytes) : St :=
  let b := block.toArray
  Array.ofFn (n := 16) fun i => b.getD i.val 0

theorem addRoundKey_size (rk : Array UInt8) (round : Nat) (s : St) :
    (addRoundKey rk round s).size = 16 := by simp [addRoundKey]

theorem encryptState_size (rk : Array UInt8) (s : St) : (encryptState rk s).size = 16 := by
  simp [encryptState, addRoundKey]

theorem decryptState_size (rk : Array UInt8) (s : St) : (decryptState rk s).size = 16 := by
  simp [decryptState, addRoundKey]

/-- apply a block function to the `k` leading 16-byte blocks of `data`. -/
def ecbLoop (f : St → St) : Nat → Bytes → Bytes
  | 0, _ => []
  | k+1, data => (f (loadBlock (data.take 16))).toList ++ ecbLoop f k (data.drop 16)

theorem ecbLoop_length (f : St → St) (hf : ∀ s, (f s).size = 16) (k : Nat) (data : Bytes) :
    (ecbLoop f k data).length = 16 * k := by
  induction k generalizing data with
  | zero => simp [ecbLoop]
  | succ k ih => simp [ecbLoop, ih, hf]; omega

end Aes

/-- AES-256 encryption of one 16-byte block under a 32-byte key. -/
def aes256EncryptBlock (key block : Bytes) : Bytes :=
  (Aes.encryptState (Aes.roundKeys key) (Aes.loadBlock block)).toList

/-- AES-256 decryption of one 16-byte block under a 32-byte key. -/
def aes256DecryptBlock (key block : Bytes) : Bytes :=
  (Aes.decryptState (Aes.roundKeys key) (Aes.loadBlock block)).toList

/-- AES-256-ECB encryption without padding (`data.length` must be a multiple of 16; a trailing
partial block is dropped). -/
def aes256EcbEncrypt (key data : Bytes) : Bytes :=
  let rk := Aes.roundKeys key
  Aes.ecbLoop (Aes.encryptState rk) (data.length / 16) data

/-- AES-256-ECB decryption without padding (same length convention). -/
def aes256EcbDecrypt (key data : Bytes) : Bytes :=
  let rk := Aes.roundKeys key
  Aes.ecbLoop (Aes.decryptState rk) (data.length / 16) data

@[simp] theorem aes256EncryptBlock_length (key block : Bytes) :
    (aes256EncryptBlock key block).length = 16 := by
  simp [aes256EncryptBlock, Aes.encryptState_size]

@[simp] theorem aes256DecryptBlock_length (key block : Bytes) :
    (aes256DecryptBlock key block).length = 16 := by
  simp [aes256DecryptBlock, Aes.decryptState_size]

theorem aes256EcbEncrypt_length (key data : Bytes) :
    (aes256EcbEncrypt key data).length = 16 * (data.length / 16) :=
  Aes.ecbLoop_length _ (Aes.encryptState_size _) _ _

theorem aes256EcbDecrypt_length (key data : Bytes) :
    (aes256EcbDecrypt key data).length = 16 * (data.length / 16) :=
  Aes.ecbLoop_length _ (Aes.decryptState_size _) _ _

end BipVerif.Prim
