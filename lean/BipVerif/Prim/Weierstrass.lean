/-
Short-Weierstrass curves `y² = x³ + a·x + b` over `F_p` (secp256k1, NIST P-256).
`WCurve.add` is the affine group law (the specification); `WCurve.mul` runs a Jacobian
MSB-first double-and-add with mixed additions and one final inversion.
-/
import BipVerif.Prim.Bytes
import BipVerif.Prim.Modular

namespace BipVerif.Prim
open BipVerif

structure WCurve where (p a b gx gy n : Nat)
  deriving Repr

def secp256k1 : WCurve where
  p  := 0xFFFFFFFFFFFFFFFFFFFFFFFFFFFFFFFFFFFFFFFFFFFFFFFFFFFFFFFEFFFFFC2F
  a  := 0
  b  := 7
  gx := 0x79BE667EF9DCBBAC55A06295CE870B07029BFCDB2DCE28D959F2815B16F81798
  gy := 0x483ADA7726A3C4655DA4FBFC0E1108A8FD17B448A68554199C47D08FFB10D4B8
  n  := 0xFFFFFFFFFFFFFFFFFFFFFFFFFFFFFFFEBAAEDCE6AF48A03BBFD25E8CD0364141

def nist256p1 : WCurve where
  p  := 0xFFFFFFFF00000001000000000000000000000000FFFFFFFFFFFFFFFFFFFFFFFF
  a  := 0xFFFFFFFF00000001000000000000000000000000FFFFFFFFFFFFFFFFFFFFFFFC
  b  := 0x5AC635D8AA3A93E7B3EBBD55769886BC651D06B0CC53B0F63BCE3C3E27D2604B
  gx := 0x6B17D1F2E12C4247F8BCE6E563A440F277037D812DEB33A0F4A13945D898C296
  gy := 0x4FE342E2FE1A7F9B8EE7EB4A7C0F9E162BCE33576B315ECECBB6406837BF51F5
  n  := 0xFFFFFFFF00000000FFFFFFFFFFFFFFFFBCE6FAADA7179E84F3B9CAC2FC632551

inductive WPoint | inf | aff (x y : Nat)
  deriving DecidableEq, Repr

namespace WCurve

/-- `x³ + a·x + b mod p`. -/
def rhs (c : WCurve) (x : Nat) : Nat := (x * x * x + c.a * x + c.b) % c.p

/-- `inf` is on the curve; an affine point needs reduced coordinates and the curve equation. -/
def onCurve (c : WCurve) : WPoint → Bool
  | .inf => true
  | .aff x y => x < c.p && y < c.p && y * y % c.p == c.rhs x

def G (c : WCurve) : WPoint := .aff c.gx c.gy

def neg (c : WCurve) : WPoint → WPoint
  | .inf => .inf
  | .aff x y => .aff x (negMod y c.p)

/-- Affine group law, complete: handles `inf`, `P = Q` (tangent) and `P = -Q` (incl. 2-torsion).
Coordinates are expected reduced mod `p`. -/
def add (c : WCurve) (P Q : WPoint) : WPoint :=
  match P, Q with
  | .inf, Q => Q
  | P, .inf => P
  | .aff x1 y1, .aff x2 y2 =>
    let p := c.p
    if x1 = x2 ∧ (y1 + y2) % p = 0 then .inf
    else
      let l := if x1 = x2 then (3 * x1 * x1 + c.a) % p * invMod (2 * y1) p % p
               else subMod y2 y1 p * invMod (subMod x2 x1 p) p % p
      let x3 := subMod (l * l) (x1 + x2) p
      .aff x3 (subMod (l * subMod x1 x3 p) y1 p)

/-! ### Jacobian internals: `(X, Y, Z)` ↦ `(X/Z², Y/Z³)`, `Z = 0` is infinity -/

structure JPoint where (X Y Z : Nat)

def jInf : JPoint := ⟨1, 1, 0⟩

def jDouble (c : WCurve) (P : JPoint) : JPoint :=
  let p := c.p
  if P.Z = 0 ∨ P.Y = 0 then jInf
  else
    let yy := P.Y * P.Y % p
    let s  := 4 * P.X * yy % p
    let zz := P.Z * P.Z % p
    let m  := (3 * P.X * P.X + c.a * (zz * zz % p)) % p
    let x3 := subMod (m * m) (2 * s) p
    ⟨x3, subMod (m * subMod s x3 p) (8 * (yy * yy % p)) p, 2 * P.Y * P.Z % p⟩

/-- Mixed addition `P + (x2, y2)`; `P.X P.Y x2 y2` reduced mod `p`. -/
def jAddAff (c : WCurve) (P : JPoint) (x2 y2 : Nat) : JPoint :=
  let p := c.p
  if P.Z = 0 then ⟨x2, y2, 1⟩
  else
    let zz := P.Z * P.Z % p
    let u2 := x2 * zz % p
    let s2 := y2 * (zz * P.Z % p) % p
    if u2 = P.X then (if s2 = P.Y then c.jDouble P else jInf)
    else
      let h  := subMod u2 P.X p
      let r  := subMod s2 P.Y p
      let hh := h * h % p
      let h3 := hh * h % p
      let v  := P.X * hh % p
      let x3 := subMod (r * r) (h3 + 2 * v) p
      ⟨x3, subMod (r * subMod v x3 p) (P.Y * h3) p, P.Z * h % p⟩

def jToAffine (c : WCurve) (P : JPoint) : WPoint :=
  if P.Z = 0 then .inf
  else
    let zi := invMod P.Z c.p
    let zi2 := zi * zi % c.p
    .aff (P.X * zi2 % c.p) (P.Y * (zi2 * zi % c.p) % c.p)

/-- Bits `i-1 … 0` of `k`, MSB first: `acc ↦ 2·acc (+ P if bit set)`. -/
def mulLoop (c : WCurve) (k x y : Nat) : Nat → JPoint → JPoint
  | 0, acc => acc
  | i+1, acc =>
    let d := c.jDouble acc
    mulLoop c k x y i (if k / 2 ^ i % 2 = 1 then c.jAddAff d x y else d)

/-- Scalar multiplication `k • P` for any `k` (no reduction mod `n` needed); `0 • P = inf`. -/
def mul (c : WCurve) (k : Nat) (P : WPoint) : WPoint :=
  match P with
  | .inf => .inf
  | .aff x y =>
    if k = 0 then .inf
    else c.jToAffine (c.mulLoop k (x % c.p) (y % c.p) (Nat.log2 k + 1) jInf)

def mulG (c : WCurve) (k : Nat) : WPoint := c.mul k c.G

/-! ### SEC1 encodings -/

/-- Byte length of a field element (32 for both curves). -/
def coordLen (c : WCurve) : Nat := Bytes.byteLen c.p

/-- `02/03 ‖ x` (33 bytes); `none` for infinity. -/
def compress (c : WCurve) : WPoint → Option Bytes
  | .inf => none
  | .aff x y => some (UInt8.ofNat (2 + y % 2) :: Bytes.ofNatBE c.coordLen x)

/-- `04 ‖ x ‖ y` (65 bytes); `none` for infinity. -/
def uncompressed (c : WCurve) : WPoint → Option Bytes
  | .inf => none
  | .aff x y => some (4 :: Bytes.ofNatBE c.coordLen x ++ Bytes.ofNatBE c.coordLen y)

/-- SEC1 decoding.  Compressed: prefix 02/03, `x < p`, `y = √(x³+ax+b)` with the requested parity
(needs `p ≡ 3 mod 4`).  Uncompressed: prefix 04 and `onCurve`.  Everything else (incl. `00`,
hybrid 06/07, wrong lengths) is `none`. -/
def decode (c : WCurve) (b : Bytes) : Option WPoint :=
  let n := c.coordLen
  match b with
  | [] => none
  | t :: rest =>
    if (t = 2 ∨ t = 3) ∧ rest.length = n then
      let x := Bytes.toNatBE rest
      if x < c.p then
        match sqrtMod3mod4 (c.rhs x) c.p with
        | none => none
        | some y =>
          let y' := if y % 2 = t.toNat % 2 then y else c.p - y
          if y' < c.p then some (.aff x y') else none   -- `y = 0` with odd parity requested
      else none
    else if t = 4 ∧ rest.length = 2 * n then
      let P := WPoint.aff (Bytes.toNatBE (rest.take n)) (Bytes.toNatBE (rest.drop n))
      if c.onCurve P then some P else none
    else none

end WCurve
end BipVerif.Prim
