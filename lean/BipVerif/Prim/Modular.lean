/-
Modular arithmetic over `Nat` (executable reference, Mathlib-free).
All functions are total; "p prime" etc. are preconditions for the *meaning*, not for termination.
-/
namespace BipVerif.Prim

/-- `acc * b^e mod m` by LSB-first square-and-multiply; `fuel` must be ≥ the bit length of `e`. -/
def powModAux (m : Nat) : Nat → Nat → Nat → Nat → Nat
  | 0, _, _, acc => acc
  | fuel+1, b, e, acc =>
    if e = 0 then acc
    else powModAux m fuel (b * b % m) (e / 2) (if e % 2 = 1 then acc * b % m else acc)

/-- `b^e mod m` (`pow(b, e, m)`; `m = 0` gives `b^e`-like garbage, `m = 1` gives 0). -/
def powMod (b e m : Nat) : Nat := powModAux m (Nat.log2 e + 1) (b % m) e (1 % m)

/-- `(a - b) mod p` for arbitrary `a b`. -/
def subMod (a b p : Nat) : Nat := (a % p + (p - b % p)) % p

/-- `(-a) mod p`. -/
def negMod (a p : Nat) : Nat := (p - a % p) % p

/-- Fermat inverse `a^(p-2) mod p` (`p` prime; returns 0 for `a ≡ 0`). -/
def invMod (a p : Nat) : Nat := powMod a (p - 2) p

/-- Square root for `p ≡ 3 (mod 4)`: `a^((p+1)/4)`, checked.  `none` iff `a` is a non-residue. -/
def sqrtMod3mod4 (a p : Nat) : Option Nat :=
  let a := a % p
  let r := powMod a ((p + 1) / 4) p
  if r * r % p = a then some r else none

/-- Root *candidate* for `p ≡ 5 (mod 8)` (RFC 8032 §5.1.3 step 3): `r = a^((p+3)/8)`, replaced by
`r·√-1` (`√-1 = 2^((p-1)/4)`) when `r² ≠ a`.  It is a root of `a` iff `a` is a residue. -/
def sqrtCand5mod8 (a p : Nat) : Nat :=
  let a := a % p
  let r := powMod a ((p + 3) / 8) p
  if r * r % p = a then r else r * powMod 2 ((p - 1) / 4) p % p

/-- Square root for `p ≡ 5 (mod 8)`, checked.  `none` iff `a` is a non-residue.  No parity normalisation. -/
def sqrtMod5mod8 (a p : Nat) : Option Nat :=
  let r := sqrtCand5mod8 a p
  if r * r % p = a % p then some r else none

/-- The ed25519 field prime `2^255 - 19`. -/
def p25519 : Nat := 2 ^ 255 - 19

/-- Square root modulo `2^255 - 19`. -/
def sqrtMod25519 (a : Nat) : Option Nat := sqrtMod5mod8 a p25519

end BipVerif.Prim
