/-
Byte-string basics shared by every primitive and model.  Mathlib-free.
`Bytes` is a plain `List UInt8` so that models stay easy to reason about; the hash
primitives convert to arrays internally for speed.
-/
namespace BipVerif

abbrev Bytes := List UInt8

namespace Bytes

/-- big-endian natural number value of a byte string (`int.from_bytes(b, "big")`). -/
def toNatBE (b : Bytes) : Nat := b.foldl (fun acc x => acc * 256 + x.toNat) 0

/-- little-endian value (`int.from_bytes(b, "little")`). -/
def toNatLE (b : Bytes) : Nat := toNatBE b.reverse

/-- little-endian digits of `v` in base 256, exactly `len` of them (value truncated mod 256^len). -/
def ofNatLE : (len : Nat) → Nat → Bytes
  | 0, _ => []
  | len+1, v => UInt8.ofNat (v % 256) :: ofNatLE len (v / 256)

/-- fixed-width big-endian encoding (value truncated mod 256^len). -/
def ofNatBE (len : Nat) (v : Nat) : Bytes := (ofNatLE len v).reverse

/-- number of bytes needed for `v` (`(v.bit_length() + 7) // 8`), 0 for 0. -/
def byteLen (v : Nat) : Nat := if v = 0 then 0 else (Nat.log2 v) / 8 + 1

def hexDigit (n : Nat) : Char :=
  if n < 10 then Char.ofNat (48 + n) else Char.ofNat (87 + n)

def toHex (b : Bytes) : String :=
  String.ofList (b.flatMap fun x => [hexDigit (x.toNat / 16), hexDigit (x.toNat % 16)])

def hexVal (c : Char) : Option Nat :=
  if '0' ≤ c ∧ c ≤ '9' then some (c.toNat - 48)
  else if 'a' ≤ c ∧ c ≤ 'f' then some (c.toNat - 87)
  else if 'A' ≤ c ∧ c ≤ 'F' then some (c.toNat - 55)
  else none

def ofHexChars : List Char → Option Bytes
  | [] => some []
  | [_] => none
  | a :: b :: rest => do
    let x ← hexVal a
    let y ← hexVal b
    let r ← ofHexChars rest
    pure (UInt8.ofNat (x * 16 + y) :: r)

def ofHex (s : String) : Option Bytes := ofHexChars s.toList

def ofAscii (s : String) : Bytes := s.toUTF8.toList

end Bytes
end BipVerif
