/-
CRC-32 (zlib / `binascii.crc32`) and CRC-16/XMODEM (`binascii.crc_hqx(m, 0)`), bitwise.
Mathlib-free, total, executable.
-/
import BipVerif.Prim.Bytes

namespace BipVerif.Prim
namespace Crc

/-- one bit of the reflected CRC-32 register update (poly 0xEDB88320). -/
@[inline] def crc32Bit (c : UInt32) : UInt32 :=
  if c &&& 1 = 1 then (c >>> 1) ^^^ 0xEDB88320 else c >>> 1

@[inline] def crc32Byte (c : UInt32) (b : UInt8) : UInt32 :=
  crc32Bit <| crc32Bit <| crc32Bit <| crc32Bit <| crc32Bit <| crc32Bit <| crc32Bit <| crc32Bit
    (c ^^^ b.toUInt32)

/-- one bit of the MSB-first CRC-16 register update (poly 0x1021). -/
@[inline] def crc16Bit (c : UInt16) : UInt16 :=
  if c &&& 0x8000 = 0x8000 then (c <<< 1) ^^^ 0x1021 else c <<< 1

@[inline] def crc16Byte (c : UInt16) (b : UInt8) : UInt16 :=
  crc16Bit <| crc16Bit <| crc16Bit <| crc16Bit <| crc16Bit <| crc16Bit <| crc16Bit <| crc16Bit
    (c ^^^ (b.toUInt16 <<< 8))

end Crc

/-- `binascii.crc32(m)` / `zlib.crc32(m)`: reflected, init and xor-out 0xFFFFFFFF. -/
def crc32 (m : Bytes) : Nat := (m.foldl Crc.crc32Byte 0xFFFFFFFF ^^^ 0xFFFFFFFF).toNat

/-- CRC-16/XMODEM = `binascii.crc_hqx(m, 0)`: poly 0x1021, init 0, no reflection, no xor-out. -/
def crc16Xmodem (m : Bytes) : Nat := (m.foldl Crc.crc16Byte 0).toNat

theorem crc32_lt (m : Bytes) : crc32 m < 2 ^ 32 := UInt32.toNat_lt _
theorem crc16Xmodem_lt (m : Bytes) : crc16Xmodem m < 2 ^ 16 := UInt16.toNat_lt _

end BipVerif.Prim
