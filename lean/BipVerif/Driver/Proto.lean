/- Line protocol helpers for the model driver. -/
import BipVerif.Model.Basic

namespace BipVerif.Driver
open BipVerif BipVerif.Model

def argBytes (s : String) : Option Bytes := if s == "-" then some [] else Bytes.ofHex s

def argText (s : String) : Option (List Char) := do
  let b ← argBytes s
  let str ← String.fromUTF8? (ByteArray.mk b.toArray)
  pure str.toList

def argNat (s : String) : Option Nat := s.toNat?

def argBool (s : String) : Option Bool :=
  if s == "1" then some true else if s == "0" then some false else none

def argNats (s : String) : Option (List Nat) :=
  if s == "-" then some [] else (s.splitOn ",").mapM String.toNat?

def outBytes (b : Bytes) : String := if b.isEmpty then "-" else Bytes.toHex b
def outText (s : List Char) : String := outBytes (String.ofList s).toUTF8.toList
def outNats (l : List Nat) : String := if l.isEmpty then "-" else ",".intercalate (l.map toString)
def outBool (b : Bool) : String := if b then "1" else "0"

def reply {α} (r : R α) (f : α → String) : String :=
  match r with
  | .ok v => "ok " ++ f v
  | .error e => "err " ++ e.name

/-- an operation: argument strings → reply; `none` = malformed request (harness bug). -/
abbrev Op := List String → Option String

end BipVerif.Driver
