/- Driver operations for BIP-38 (C13). -/
import BipVerif.Driver.Proto
import BipVerif.Model.Bip38

namespace BipVerif.Driver
open BipVerif BipVerif.Model

def outKeyMode (r : Bytes × Bool) : String := s!"{outBytes r.1} {outBool r.2}"

def bip38Ops : List (String × Op) := [
  ("b38noecenc", fun a => match a with          -- priv nfc(pass) compressed
    | [k, p, c] => do pure (reply (bip38NoEcEncrypt (← argBytes k) (← argBytes p) (← argBool c)) outText)
    | _ => none),
  ("b38noecdec", fun a => match a with          -- enc nfc(pass)
    | [e, p] => do pure (reply (bip38NoEcDecrypt (← argText e) (← argBytes p)) outKeyMode)
    | _ => none),
  ("b38int", fun a => match a with              -- nfc(pass) salt lot|- seq|-
    | [p, s, lot, seq] => do
      let ls ← if lot == "-" then some none else do pure (some (← argNat lot, ← argNat seq))
      pure (reply (bip38Intermediate (← argBytes p) (← argBytes s) ls) outText)
    | _ => none),
  ("b38ecgen", fun a => match a with            -- intpass seedb compressed
    | [i, s, c] => do pure (reply (bip38EcGenerate (← argText i) (← argBytes s) (← argBool c)) outText)
    | _ => none),
  ("b38ecdec", fun a => match a with
    | [e, p] => do pure (reply (bip38EcDecrypt (← argText e) (← argBytes p)) outKeyMode)
    | _ => none)
]

end BipVerif.Driver
