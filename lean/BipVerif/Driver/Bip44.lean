/- Driver operations for the BIP-44 family (C07, C08). -/
import BipVerif.Driver.Addr
import BipVerif.Driver.Bip32
import BipVerif.Model.Bip44
import BipVerif.Model.Cardano
import BipVerif.Gen.Coins

namespace BipVerif.Driver
open BipVerif BipVerif.Model

def findRow (fam mem var : String) : Option CoinRow :=
  Gen.coinRows.find? fun r => r.family == fam && r.member == mem && r.variant == var

def parseOp (s : String) : Option B44Op :=
  match s.toList with
  | ['P'] => some .purpose
  | ['C'] => some .coin
  | ['D'] => some .deriveDefault
  | ['N'] => some .neuter
  | ['R', 'X'] => some .reimportX
  | 'R' :: 'R' :: d => (String.ofList d).toNat?.map .reimportRaw
  | 'A' :: d => (String.ofList d).toNat?.map .account
  | 'X' :: d => (String.ofList d).toNat?.map .change
  | 'I' :: d => (String.ofList d).toNat?.map .addrIdx
  | _ => none

def bytesOfNats (l : List Nat) : Bytes := l.map UInt8.ofNat

/-- `Bip44PublicKey.ToAddress()` for the row's address class -/
def rowAddress (row : CoinRow) (nd : Node) : R (List Char) :=
  if row.addrFmt == "adashelley" || row.addrFmt == "xmr" then throw .value
  else if row.addrFmt == "adabyronicarus" then byronIcarusEncode nd.pub nd.chainCode
  else
    match addrEncode row.addrFmt nd.pub row.addrParams with
    | some r => r
    | none => throw .oracleMiss

def rowKeyNet (row : CoinRow) : KeyNetVer := ⟨bytesOfNats row.keyNetPub, bytesOfNats row.keyNetPriv⟩

def optField {α} (r : R α) (f : α → String) : String :=
  match r with
  | .ok v => f v
  | .error e => "!" ++ e.name

def outB44 (row : CoinRow) (nd : Node) : String :=
  let kv := rowKeyNet row
  let wif : String := match nd.priv, row.wifNetVer with
    | some k, some v =>
      optField (wifEncode Prim.sha256d k (bytesOfNats v) true) outText   -- raw bytes are re-read as a secp256k1 key
    | some _, none => "-"
    | none, _ => "!Key"
  s!"{outNode nd} {optField (rowAddress row nd) outText} {optField (nd.toExtendedPub Prim.sha256d kv) outText} {optField (nd.toExtendedPriv Prim.sha256d kv) outText} {wif}"

def bip44Ops : List (String × Op) := [
  ("bip44", fun a => match a with      -- bip44 family member variant seed ops
    | [fam, mem, var, seed, ops] => do
      let row ← findRow fam mem (if var == "-" then "" else var)
      let seed ← argBytes seed
      let ops ← if ops == "-" then some [] else (ops.splitOn ",").mapM parseOp
      let r : R Node := do
        let m ← masterOf row.bip32 seed
        let m ← b44Admit m
        let dp ← parsePath row.defPath.toList
        b44Run row.purpose row.coinIdx dp m ops
      pure (reply r (outB44 row))
    | _ => none)
]

end BipVerif.Driver
