/- Driver operations for Monero wallets (C16). -/
import BipVerif.Driver.Proto
import BipVerif.Driver.Bip44
import BipVerif.Model.Monero
import BipVerif.Gen.Coins

namespace BipVerif.Driver
open BipVerif BipVerif.Model

def moneroNetVers (coin : String) : Option (Bytes × Bytes × Bytes) := do
  let (_, _, _, _, ps) ← Gen.otherCoins.find? fun c => c.1 == "Monero" && c.2.1 == coin
  let a ← ps.lookup "addr_net_ver" >>= argBytes
  let i ← ps.lookup "int_addr_net_ver" >>= argBytes
  let s ← ps.lookup "subaddr_net_ver" >>= argBytes
  pure (a, i, s)

def moneroOps : List (String × Op) := [
  -- xmrwallet kind a b coin minor major payid → privSpend|!Key privView pubSpend pubView primary sub integrated
  ("xmrwallet", fun a => match a with
    | [kind, x, y, coin, minor, major, pid] => do
      let x ← argBytes x
      let y ← argBytes y
      let (nv, inv, snv) ← moneroNetVers coin
      let minor ← argNat minor
      let major ← argNat major
      let pid ← argBytes pid
      let w : R XmrWallet := match kind with
        | "seed" => xmrFromSeed x
        | "spend" => xmrFromSpend x
        | "bip44" => xmrFromBip44Priv x
        | _ => xmrWatchOnly x y
      pure (reply w fun w =>
        s!"{optField (xmrPrivateSpend w) outBytes} {outBytes w.privView} {outBytes w.pubSpend} {outBytes w.pubView} {optField (xmrPrimaryAddress w nv) outText} {optField (xmrSubaddress w nv snv minor major) outText} {optField (xmrIntegratedAddress w inv pid) outText}")
    | _ => none)
]

end BipVerif.Driver
