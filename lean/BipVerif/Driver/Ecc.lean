/- Driver operations for the elliptic-curve key layer (C12): point decoding / encoding / group
operations of the adapter classes, on the reference arithmetic of `Prim`. -/
import BipVerif.Driver.Proto
import BipVerif.Model.Ecc

namespace BipVerif.Driver
open BipVerif BipVerif.Model BipVerif.Prim

inductive Pt | w (c : WCurve) (p : WPoint) | ed (p : EdPoint)

def ptCurveW (s : String) : Option WCurve :=
  match s with
  | "secp256k1" => some Prim.secp256k1
  | "nist256p1" => some Prim.nist256p1
  | _ => none

def isEdName (s : String) : Bool := s == "ed25519" || s == "ed25519blake2b" || s == "ed25519kholaw" || s == "ed25519monero"

/-- `PointClass.FromBytes`: accepted forms per adapter -/
def ptFromBytes (curve : String) (b : Bytes) : R Pt :=
  match ptCurveW curve with
  | some c =>
    let wrap (o : Option WPoint) : R Pt := match o with
      | some (.aff x y) => pure (.w c (.aff x y))
      | _ => throw .value
    -- every ECDSA point class (coincurve and python-ecdsa): raw x‖y, compressed, uncompressed, hybrid 06/07 with matching parity
    if b.length = 64 then wrap (c.decode (4 :: b))
    else
      match c.decode b with
      | some p => wrap (some p)
      | none =>
        if b.length = 65 then
          match b with
          | pfx :: rest =>
            if pfx = 6 || pfx = 7 then
              match c.decode (4 :: rest) with
              | some (.aff x y) => if (y % 2 = 1) = (pfx = 7) then wrap (some (.aff x y)) else throw .value
              | _ => throw .value
            else throw .value
          | [] => throw .value
        else throw .value
  | none =>
    if isEdName curve then
      match edBytesOnCurve b with
      | some true =>
        if b.length = 64 then pure (.ed ⟨Bytes.toNatLE (b.take 32), Bytes.toNatLE (b.drop 32)⟩)
        else match edDecodeNoCheck b with
          | some p => pure (.ed p)
          | none => throw .value
      | _ => throw .value
    else throw .keyErr

def ptOut (p : Pt) : String :=
  match p with
  | .w c (.aff x y) => s!"{x} {y} {outBytes ((c.compress (.aff x y)).getD [])}"
  | .w _ .inf => "inf"
  | .ed q => s!"{q.x % edP} {q.y % edP} {outBytes (edEncode ⟨q.x % edP, q.y % edP⟩)}"

def ptAdd (a b : Pt) : R Pt :=
  match a, b with
  | .w c p, .w _ q => match c.add p q with
    | .inf => throw .value
    | r => pure (.w c r)
  | .ed p, .ed q => pure (.ed (edAdd ⟨p.x % edP, p.y % edP⟩ ⟨q.x % edP, q.y % edP⟩))
  | _, _ => throw .type

def ptMul (a : Pt) (k : Nat) : R Pt :=
  match a with
  | .w c p => match c.mul k p with
    | .inf => throw .value
    | r => pure (.w c r)
  | .ed p => match edMulNoclamp k p with   -- libsodium refuses small-order / mixed-order operands and an identity result
    | none => throw .value
    | some r => pure (.ed r)

def eccOps : List (String × Op) := [
  ("ptfrombytes", fun a => match a with
    | [c, b] => do pure (reply (ptFromBytes c (← argBytes b)) ptOut)
    | _ => none),
  ("ptadd", fun a => match a with
    | [c, p, q] => do
      let p ← argBytes p
      let q ← argBytes q
      pure (reply (do ptAdd (← ptFromBytes c p) (← ptFromBytes c q)) ptOut)
    | _ => none),
  ("ptmul", fun a => match a with
    | [c, p, k] => do
      let p ← argBytes p
      let k ← argNat k
      pure (reply (do ptMul (← ptFromBytes c p) k) ptOut)
    | _ => none),
  ("ptmulg", fun a => match a with
    | [c, k] => do
      let k ← argNat k
      match ptCurveW c with
      | some w => pure (reply (ptMul (.w w w.G) k) ptOut)
      | none => if isEdName c then pure (reply (ptMul (.ed edBase) k) ptOut) else none
    | _ => none)
]

end BipVerif.Driver
