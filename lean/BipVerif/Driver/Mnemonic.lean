/- Driver operations for mnemonics (C01, C02, C17). -/
import BipVerif.Driver.Proto
import BipVerif.Model.Mnemonics
import BipVerif.Model.Seed
import BipVerif.Gen.Words
import BipVerif.Prim.Sha256
import BipVerif.Prim.Sha512
import BipVerif.Prim.Hmac
import BipVerif.Prim.Pbkdf2
import BipVerif.Prim.Crc

namespace BipVerif.Driver
open BipVerif BipVerif.Model

def argOracle (s : String) : Option (List (List Char × List Char)) :=
  if s == "-" then some []
  else (s.splitOn ",").mapM fun kv =>
    match kv.splitOn ":" with
    | [k, v] => do pure (← argText k, ← argText v)
    | _ => none

def bip39Langs : List (List Nat) := Gen.bip39Langs.map (·.2)

/-- the lists auto-detection of an Electrum-v2 sentence may end in (since the F-ev2-foreign-language repair): the four languages Electrum v2
defines, in the order of the BIP-39 enumeration the finder walks.  Detecting over all nine lists and refusing a foreign result is the same
function: the only lists sharing a complete sentence are English/French and the two Chinese ones, and in both pairs the allowed list comes first. -/
def v2DetectLangs : List (List Nat) :=
  (Gen.bip39Langs.filter fun l => l.1 == "CHINESE_SIMPLIFIED" || l.1 == "ENGLISH" || l.1 == "PORTUGUESE" || l.1 == "SPANISH").map (·.2)

/-- `some none` = auto-detect -/
def argLang (tbl : List (String × List Nat)) (s : String) : Option (Option (List Nat)) :=
  if s == "auto" then some none else (tbl.lookup s).map some

def outWords (ws : List Nat) : String := outText ((ws.map codeToWord).intersperse [' ']).flatten

def moneroLangs : List (List Nat × Nat) :=
  Gen.moneroLangs.map fun (n, wl) => (wl, (Gen.moneroPrefixLen.lookup n).getD 0)

def argMoneroLang (s : String) : Option (Option (List Nat × Nat)) :=
  if s == "auto" then some none
  else do
    let wl ← Gen.moneroLangs.lookup s
    let k ← Gen.moneroPrefixLen.lookup s
    pure (some (wl, k))

def crc32b (b : Bytes) : Nat := Prim.crc32 b

def electrumV1List : List Nat := (Gen.electrumV1Langs.head?.map (·.2)).getD []

def v2Langs : List (String × List Nat) :=
  Gen.bip39Langs.filter fun (n, _) => ["CHINESE_SIMPLIFIED", "ENGLISH", "PORTUGUESE", "SPANISH"].contains n

def argV2Type (s : String) : Option (Option V2Type) :=
  match s with
  | "any" => some none
  | "STANDARD" => some (some .standard)
  | "SEGWIT" => some (some .segwit)
  | "STANDARD_2FA" => some (some .standard2fa)
  | "SEGWIT_2FA" => some (some .segwit2fa)
  | _ => none

def sentenceStr (ws : List Nat) : Bytes :=
  (String.ofList ((ws.map codeToWord).intersperse [' ']).flatten).toUTF8.toList

def hexChars (b : Bytes) : List Char := (Bytes.toHex b).toList

/-- `ElectrumV2MnemonicUtils.IsValidMnemonic` on word codes -/
def v2Valid (ws : List Nat) (t : Option V2Type) : Bool :=
  let isBip39 := (bip39Decode Prim.sha256 bip39Langs none ws).toOption.isSome
  let isV1 := (electrumV1Decode electrumV1List ws).toOption.isSome
  v2IsValid (hexChars (Prim.hmacSha512 "Seed version".toUTF8.toList (sentenceStr ws))) (isBip39 || isV1) t

def mnemonicOps : List (String × Op) := [
  ("bip39enc", fun a => match a with
    | [l, e] => do
      let wl ← Gen.bip39Langs.lookup l
      pure (reply (bip39Encode Prim.sha256 wl (← argBytes e)) outWords)
    | _ => none),
  ("bip39dec", fun a => match a with       -- bip39dec lang|auto mode(plain|ck|valid) sentence oracle
    | [l, mode, s, o] => do
      let lang ← argLang Gen.bip39Langs l
      let s ← argText s
      let o ← argOracle o
      let r : R String := do
        let ws ← bip39Sentence o s
        match mode with
        | "ck" => pure (outBytes (← bip39DecodeWithChecksum Prim.sha256 bip39Langs lang ws))
        | _ => pure (outBytes (← bip39Decode Prim.sha256 bip39Langs lang ws))
      pure (reply r id)
    | _ => none),
  ("bip39seed", fun a => match a with      -- bip39seed lang|auto sentence oracle nfkd(salt)
    | [l, s, o, salt] => do
      let lang ← argLang Gen.bip39Langs l
      let s ← argText s
      let o ← argOracle o
      let salt ← argBytes salt
      let r : R String := do
        let ws ← bip39Sentence o s
        pure (outBytes (← bip39Seed Prim.sha256 bip39Langs lang ws salt))
      pure (reply r id)
    | _ => none),
  ("subseed", fun a => match a with        -- Substrate: PBKDF2 with the entropy as password
    | [l, s, o, salt] => do
      let lang ← argLang Gen.bip39Langs l
      let s ← argText s
      let o ← argOracle o
      let salt ← argBytes salt
      let r : R String := do
        let ws ← bip39Sentence o s
        pure (outBytes (← substrateSeed Prim.sha256 bip39Langs lang ws salt))
      pure (reply r id)
    | _ => none),
  ("monenc", fun a => match a with
    | [l, e, ck] => do
      let (wl, k) ← (← argMoneroLang l)
      pure (reply (moneroEncode crc32b wl k (← argBool ck) (← argBytes e)) outWords)
    | _ => none),
  ("mondec", fun a => match a with
    | [l, s] => do
      let lang ← argMoneroLang l
      let s ← argText s
      pure (reply (moneroDecode crc32b moneroLangs lang ((splitWs s).map wordCode)) outBytes)
    | _ => none),
  ("algoenc", fun a => match a with
    | [e] => do
      let wl ← Gen.bip39Langs.lookup "ENGLISH"
      pure (reply (algoEncode Prim.sha512_256 wl (← argBytes e)) outWords)
    | _ => none),
  ("algodec", fun a => match a with
    | [l, s, o] => do
      let lang ← argLang (Gen.bip39Langs.filter (·.1 == "ENGLISH")) l
      let s ← argText s
      let o ← argOracle o
      let r : R String := do
        let ws ← bip39Sentence o s
        pure (outBytes (← algoDecode Prim.sha512_256 bip39Langs lang ws))
      pure (reply r id)
    | _ => none),
  ("ev1enc", fun a => match a with
    | [e] => do pure (reply (electrumV1Encode electrumV1List (← argBytes e)) outWords)
    | _ => none),
  ("ev1dec", fun a => match a with
    | [s, o] => do
      let s ← argText s
      let o ← argOracle o
      let r : R String := do
        let ws ← bip39Sentence o s
        pure (outBytes (← electrumV1Decode electrumV1List ws))
      pure (reply r id)
    | _ => none),
  ("ev1seed", fun a => match a with
    | [s, o] => do
      let s ← argText s
      let o ← argOracle o
      let r : R String := do
        let ws ← bip39Sentence o s
        pure (outBytes (← electrumV1Seed electrumV1List ws))
      pure (reply r id)
    | _ => none),
  ("ev2enc", fun a => match a with          -- ev2enc lang type ent
    | [l, t, e] => do
      let wl ← v2Langs.lookup l
      let t ← argV2Type t
      let e ← argBytes e
      let r : R String := do
        let ws ← electrumV2EncodeIdx wl e
        if !v2Valid ws t then throw Err.value
        pure (outWords ws)
      pure (reply r id)
    | _ => none),
  ("ev2dec", fun a => match a with          -- ev2dec lang|auto type|any sentence oracle
    | [l, t, s, o] => do
      let lang ← argLang v2Langs l
      let t ← argV2Type t
      let s ← argText s
      let o ← argOracle o
      let r : R String := do
        let ws ← bip39Sentence o s
        if !(ws.length = 12 || ws.length = 24) then throw Err.value
        if !v2Valid ws t then throw Err.value
        pure (outBytes (← electrumV2DecodeIdx v2DetectLangs lang ws))
      pure (reply r id)
    | _ => none),
  ("ev2seed", fun a => match a with          -- ev2seed lang|auto sentence oracle nfkd(salt)
    | [l, s, o, salt] => do
      let lang ← argLang v2Langs l
      let s ← argText s
      let o ← argOracle o
      let salt ← argBytes salt
      let r : R String := do
        let ws ← bip39Sentence o s
        pure (outBytes (← electrumV2Seed (fun ws => v2Valid ws none) v2DetectLangs lang ws salt))
      pure (reply r id)
    | _ => none)
]

end BipVerif.Driver
