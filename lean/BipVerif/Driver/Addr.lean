/- Driver operations for address encoders/decoders (C08, C09, C10, C14). Parameters are passed
as `key=value` fields after the fixed arguments. -/
import BipVerif.Driver.Proto
import BipVerif.Model.Addr
import BipVerif.Gen.Consts
import BipVerif.Gen.Unicode

namespace BipVerif.Driver
open BipVerif BipVerif.Model

abbrev Kw := List (String × String)

def parseKw (args : List String) : Option Kw :=
  args.mapM fun a => match a.splitOn "=" with
    | [k, v] => some (k, v)
    | _ => none

def kwBytes (kw : Kw) (k : String) : Option Bytes := kw.lookup k >>= argBytes
def kwText (kw : Kw) (k : String) : Option (List Char) := kw.lookup k >>= argText
def kwNat (kw : Kw) (k : String) : Option Nat := kw.lookup k >>= argNat
def kwBool (kw : Kw) (k : String) (dflt : Bool) : Option Bool :=
  match kw.lookup k with | some v => argBool v | none => some dflt

/-- coin constants from the regenerated CoinsConf table -/
def confVal (coin key : String) : Option (Nat × List Nat) := do
  let (_, _, _, ps) ← Gen.coinsConf.find? (fun c => c.1 == coin)
  let (_, kind, v) ← ps.find? (fun p => p.1 == key)
  pure (kind, v)

def confText (coin key : String) : Option (List Char) := do
  let (_, v) ← confVal coin key
  let s ← String.fromUTF8? (ByteArray.mk (v.map UInt8.ofNat).toArray)
  pure s.toList

def confBytes (coin key : String) : Option Bytes := do
  let (_, v) ← confVal coin key
  pure (v.map UInt8.ofNat)

def argAlph (kw : Kw) : Option (List Char) :=
  match kw.lookup "alph" with
  | some "xrp" => some xrpAlphabet
  | some "btc" => some btcAlphabet
  | none => some btcAlphabet
  | _ => none

def isDigitNonAscii (c : Char) : Bool := Gen.isdigitRanges.any fun (a, b) => a ≤ c.toNat ∧ c.toNat ≤ b

/-- `addrenc <format> <pubkey> k=v…` -/
def addrEncode (fmt : String) (pub : Bytes) (kw : Kw) : Option (R (List Char)) :=
  match fmt with
  | "p2pkh" => do pure (p2pkhEncode (← kwBytes kw "net_ver") (← argAlph kw) (← kwBool kw "compressed" true) pub)
  | "p2sh" => do pure (p2shEncode (← kwBytes kw "net_ver") pub)
  | "bchp2pkh" => do pure (bchP2pkhEncode (← kwText kw "hrp") (← kwBytes kw "net_ver") pub)
  | "bchp2sh" => do pure (bchP2shEncode (← kwText kw "hrp") (← kwBytes kw "net_ver") pub)
  | "p2wpkh" => do pure (p2wpkhEncode (← kwText kw "hrp") pub)
  | "p2tr" => do pure (p2trEncode (← kwText kw "hrp") pub)
  | "atom" => do pure (atomEncode (← kwText kw "hrp") pub)
  | "avaxp" => do pure (avaxEncode (← confText "AvaxPChain" "addr_prefix") (← confText "AvaxPChain" "addr_hrp") pub)
  | "avaxx" => do pure (avaxEncode (← confText "AvaxXChain" "addr_prefix") (← confText "AvaxXChain" "addr_hrp") pub)
  | "eth" => do pure (ethEncode (← confText "Ethereum" "addr_prefix") (← kwBool kw "skip_chksum_enc" false) pub)
  | "inj" => do pure (ethBech32Encode (← confText "Injective" "addr_hrp") pub)
  | "okex" => do pure (ethBech32Encode (← confText "OkexChain" "addr_hrp") pub)
  | "one" => do pure (ethBech32Encode (← confText "HarmonyOne" "addr_hrp") pub)
  | "trx" => do pure (trxEncode (← confBytes "Tron" "addr_prefix") pub)
  | "aptos" => do pure (aptosEncode (← confText "Aptos" "addr_prefix") (← kwBool kw "trim_zeroes" false) pub)
  | "sui" => do pure (suiEncode (← confText "Sui" "addr_prefix") pub)
  | "icx" => do pure (icxEncode (← confText "Icon" "addr_prefix") pub)
  | "near" => some (nearEncode pub)
  | "eos" => do pure (eosEncode (← confText "Eos" "addr_prefix") pub)
  | "ergo" => do pure (ergoEncode (← kwNat kw "net_type") pub)
  | "sol" => some (solEncode pub)
  | "xtz" => do pure (xtzEncode (← kwBytes kw "prefix") pub)
  | "neo" => do pure (neoEncode (← kwBytes kw "ver") (← kwBytes kw "prefix") (← kwBytes kw "suffix") pub)
  | "neolegacy" => do pure (neoEncode (← kwBytes kw "ver") (← confBytes "NeoLegacy" "addr_prefix") (← confBytes "NeoLegacy" "addr_suffix") pub)
  | "neon3" => do pure (neoEncode (← kwBytes kw "ver") (← confBytes "NeoN3" "addr_prefix") (← confBytes "NeoN3" "addr_suffix") pub)
  | "algo" => some (algoEncodeAddr pub)
  | "xlm" => do pure (xlmEncode (← kwNat kw "addr_type") pub)
  | "fil" => do pure (filEncode (← confText "Filecoin" "addr_prefix") pub)
  | "nano" => do pure (nanoEncode (← confText "Nano" "addr_prefix") pub)
  | "nim" => do pure (nimEncode (← confText "Nimiq" "addr_prefix") pub)
  | "egld" => do pure (egldEncode (← confText "Elrond" "addr_hrp") pub)
  | "zil" => do pure (zilEncode (← confText "Zilliqa" "addr_hrp") pub)
  | "xrp" => do pure (p2pkhEncode (← confBytes "Ripple" "p2pkh_net_ver") xrpAlphabet true pub)
  | "substrateed" => do pure (substrateEdEncode (← kwNat kw "ss58_format") pub)
  | "xmr" => do pure (xmrAddrEncode (← kwBytes kw "net_ver") none pub (← kwBytes kw "pub_vkey"))
  | "xmrint" => do pure (xmrAddrEncode (← kwBytes kw "net_ver") (some (← kwBytes kw "payment_id")) pub (← kwBytes kw "pub_vkey"))
  | _ => none

/-- `addrdec <format> <address> k=v…` -/
def addrDecode (fmt : String) (addr : List Char) (kw : Kw) : Option (R Bytes) :=
  match fmt with
  | "p2pkh" => do pure (p2pkhDecode (← kwBytes kw "net_ver") (← argAlph kw) addr)
  | "p2sh" => do pure (p2pkhDecode (← kwBytes kw "net_ver") btcAlphabet addr)
  | "bchp2pkh" | "bchp2sh" => do pure (bchAddrDecode (← kwText kw "hrp") (← kwBytes kw "net_ver") addr)
  | "p2wpkh" => do pure (p2wpkhDecode (← kwText kw "hrp") addr)
  | "p2tr" => do pure (p2trDecode (← kwText kw "hrp") addr)
  | "atom" => do pure (atomDecode (← kwText kw "hrp") addr)
  | "avaxp" => do pure (avaxDecode (← confText "AvaxPChain" "addr_prefix") (← confText "AvaxPChain" "addr_hrp") addr)
  | "avaxx" => do pure (avaxDecode (← confText "AvaxXChain" "addr_prefix") (← confText "AvaxXChain" "addr_hrp") addr)
  | "eth" => do pure (ethDecode (← confText "Ethereum" "addr_prefix") (← kwBool kw "skip_chksum_enc" false) addr)
  | "inj" => do pure (injDecode (← confText "Injective" "addr_hrp") addr)
  | "okex" => do pure (ethBech32Decode (← confText "OkexChain" "addr_hrp") addr)
  | "one" => do pure (ethBech32Decode (← confText "HarmonyOne" "addr_hrp") addr)
  | "trx" => do pure (trxDecode (← confBytes "Tron" "addr_prefix") addr)
  | "aptos" => do pure (aptosDecode (← confText "Aptos" "addr_prefix") addr)
  | "sui" => do pure (suiDecode (← confText "Sui" "addr_prefix") addr)
  | "icx" => do pure (icxDecode (← confText "Icon" "addr_prefix") addr)
  | "near" => some (nearDecode addr)
  | "eos" => do pure (eosDecode (← confText "Eos" "addr_prefix") addr)
  | "ergo" => do pure (ergoDecode (← kwNat kw "net_type") addr)
  | "sol" => some (solDecode addr)
  | "xtz" => do pure (xtzDecode (← kwBytes kw "prefix") addr)
  | "neo" | "neolegacy" | "neon3" => do pure (neoDecode (← kwBytes kw "ver") addr)
  | "algo" => some (algoDecodeAddr addr)
  | "xlm" => do pure (xlmDecode (← kwNat kw "addr_type") addr)
  | "fil" => do pure (filDecode (← confText "Filecoin" "addr_prefix") addr)
  | "nano" => do pure (nanoDecode (← confText "Nano" "addr_prefix") addr)
  | "nim" => do pure (nimDecode isDigitNonAscii (← confText "Nimiq" "addr_prefix") addr)
  | "egld" => do pure (egldDecode (← confText "Elrond" "addr_hrp") addr)
  | "zil" => do pure (atomDecode (← confText "Zilliqa" "addr_hrp") addr)
  | "xrp" => do pure (p2pkhDecode (← confBytes "Ripple" "p2pkh_net_ver") xrpAlphabet addr)
  | "substrateed" => do pure (substrateEdDecode (← kwNat kw "ss58_format") addr)
  | "xmr" => do pure (xmrAddrDecode (← kwBytes kw "net_ver") none addr)
  | "xmrint" => do pure (xmrAddrDecode (← kwBytes kw "net_ver") (some (← kwBytes kw "payment_id")) addr)
  | _ => none

def addrOps : List (String × Op) := [
  ("addrenc", fun a => match a with
    | fmt :: pub :: rest => do
      let r ← addrEncode fmt (← argBytes pub) (← parseKw rest)
      pure (reply r outText)
    | _ => none),
  ("addrdec", fun a => match a with
    | fmt :: addr :: rest => do
      let r ← addrDecode fmt (← argText addr) (← parseKw rest)
      pure (reply r outBytes)
    | _ => none),
  ("pubkey", fun a => match a with        -- pubkey curve bytes → canonical compressed, uncompressed
    | [c, b] => do
      let c ← argCurve' c
      let b ← argBytes b
      match pubFromBytes c b with
      | some k => pure s!"ok {outBytes k} {outBytes ((pubUncompressed c k).getD [])}"
      | none => pure "err Value"
    | _ => none),
  ("privkey", fun a => match a with       -- privkey curve bytes → raw, public compressed
    | [c, b] => do
      let c ← argCurve' c
      let b ← argBytes b
      if !privValid c b then pure "err Value"
      else match pubOfPriv c b with
        | some k => pure s!"ok {outBytes b} {outBytes k}"
        | none => pure "err Value"
    | _ => none)
]
where argCurve' (s : String) : Option CurveT :=
  match s with
  | "secp256k1" => some .secp256k1 | "nist256p1" => some .nist256p1 | "ed25519" => some .ed25519
  | "ed25519blake2b" => some .ed25519Blake2b | "ed25519kholaw" => some .ed25519Kholaw
  | "ed25519monero" => some .ed25519Monero | _ => none

end BipVerif.Driver
