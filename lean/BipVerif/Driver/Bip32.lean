/- Driver operations for BIP-32 derivation, extended keys, paths and WIF (C03–C06, C13). -/
import BipVerif.Driver.Proto
import BipVerif.Model.Bip32
import BipVerif.Model.Wif

namespace BipVerif.Driver
open BipVerif BipVerif.Model

def argCurve (s : String) : Option CurveT :=
  match s with
  | "secp256k1" => some .secp256k1
  | "nist256p1" => some .nist256p1
  | "ed25519" => some .ed25519
  | "ed25519blake2b" => some .ed25519Blake2b
  | "ed25519kholaw" => some .ed25519Kholaw
  | "ed25519monero" => some .ed25519Monero
  | _ => none

def outNode (n : Node) : String :=
  s!"{outBytes (n.priv.getD [])} {outBytes n.pub} {outBytes n.chainCode} {n.depth} {n.index} {outBytes n.parentFp} {outBytes n.fingerprint}"

def sha256d := Prim.sha256d

/-- derive `path` from the master of `seed`; the first `k` elements privately, then the object is
converted to public-only and the rest is derived publicly (k ≥ path length: all private). -/
def deriveSplit (child : Node → Nat → R Node) (m : Node) (elems : List Nat) (k : Nat) : R Node := do
  let a ← (elems.take k).foldlM child m
  if k ≥ elems.length then pure a
  else (elems.drop k).foldlM child a.neuter

def bip32Ops : List (String × Op) := [
  ("master", fun a => match a with
    | [c, seed] => do pure (reply (slip10Master (← argCurve c) (← argBytes seed)) outNode)
    | _ => none),
  ("derive", fun a => match a with     -- derive curve seed elems k
    | [c, seed, elems, k] => do
      let c ← argCurve c
      let seed ← argBytes seed
      let elems ← argNats elems
      let k ← argNat k
      let r : R Node := do
        let m ← slip10Master c seed
        deriveSplit slip10ChildKey m elems k
      pure (reply r outNode)
    | _ => none),
  ("childpriv", fun a => match a with  -- childpriv curve priv cc depth idx
    | [c, priv, cc, depth, idx] => do
      let c ← argCurve c
      let priv ← argBytes priv
      let depth ← argNat depth
      let cc ← argBytes cc
      let idx ← argNat idx
      let r : R Node := do
        let n ← nodeOfPriv c .slip10 priv depth 0 cc [0,0,0,0]
        slip10ChildKey n idx
      pure (reply r outNode)
    | _ => none),
  ("childpub", fun a => match a with   -- childpub curve pub cc depth idx
    | [c, pub, cc, depth, idx] => do
      let c ← argCurve c
      let pub ← argBytes pub
      let depth ← argNat depth
      let cc ← argBytes cc
      let idx ← argNat idx
      let r : R Node := do
        let n ← nodeOfPub c .slip10 pub depth 0 cc [0,0,0,0]
        slip10ChildKey n idx
      pure (reply r outNode)
    | _ => none),
  ("serkey", fun a => match a with     -- serkey ver depth fp idx cc keybytes
    | [ver, depth, fp, idx, cc, key] => do
      pure (reply (serializeKey sha256d (← argBytes ver) (← argNat depth) (← argBytes fp) (← argNat idx)
        (← argBytes cc) (← argBytes key)) outText)
    | _ => none),
  ("deserkey", fun a => match a with   -- deserkey pubver privver str
    | [pv, sv, s] => do
      pure (reply (deserializeKey sha256d ⟨← argBytes pv, ← argBytes sv⟩ (← argText s)) fun d =>
        s!"{outBytes d.keyBytes} {d.depth} {d.index} {outBytes d.chainCode} {outBytes d.parentFp} {outBool d.isPublic}")
    | _ => none),
  ("fromxkey", fun a => match a with   -- fromxkey curve pubver privver str
    | [c, pv, sv, s] => do
      let c ← argCurve c
      let kv : KeyNetVer := ⟨← argBytes pv, ← argBytes sv⟩
      let s ← argText s
      let r : R String := do
        let n ← fromExtendedKey sha256d c .slip10 kv s
        let xpub ← n.toExtendedPub sha256d kv
        let xprv := match n.toExtendedPriv sha256d kv with | .ok x => outText x | .error _ => "-"
        pure s!"{outNode n} {outText xpub} {xprv}"
      pure (reply r id)
    | _ => none),
  ("xkeys", fun a => match a with      -- xkeys curve seed elems pubver privver → xpub xprv of the derived node
    | [c, seed, elems, pv, sv] => do
      let c ← argCurve c
      let kv : KeyNetVer := ⟨← argBytes pv, ← argBytes sv⟩
      let seed ← argBytes seed
      let elems ← argNats elems
      let r : R String := do
        let m ← slip10Master c seed
        let n ← elems.foldlM slip10ChildKey m
        let xpub ← n.toExtendedPub sha256d kv
        let xprv ← n.toExtendedPriv sha256d kv
        pure s!"{outText xpub} {outText xprv}"
      pure (reply r id)
    | _ => none),
  ("parsepath", fun a => match a with
    | [s] => do pure (reply (parsePath (← argText s)) fun p => s!"{outBool p.absolute} {outNats p.elems}")
    | _ => none),
  ("printpath", fun a => match a with
    | [ab, elems] => do pure ("ok " ++ outText (printPath ⟨← argNats elems, ← argBool ab⟩))
    | _ => none),
  ("derivepathstr", fun a => match a with   -- derivepathstr curve seed pathstr
    | [c, seed, s] => do
      let c ← argCurve c
      let seed ← argBytes seed
      let s ← argText s
      let r : R Node := do
        let m ← slip10Master c seed
        let p ← parsePath s
        derivePath m p
      pure (reply r outNode)
    | _ => none),
  ("nodepath", fun a => match a with   -- nodepath curve priv cc depth idx fp pathstr : key from raw fields, then DerivePath
    | [c, priv, cc, depth, idx, fp, s] => do
      let c ← argCurve c
      let priv ← argBytes priv
      let cc ← argBytes cc
      let depth ← argNat depth
      let idx ← argNat idx
      let fp ← argBytes fp
      let s ← argText s
      let r : R Node := do
        let n ← nodeOfPriv c .slip10 priv depth idx cc fp
        let p ← parsePath s
        derivePath n p
      pure (reply r outNode)
    | _ => none),
  ("wifenc", fun a => match a with
    | [k, v, comp] => do pure (reply (wifEncode sha256d (← argBytes k) (← argBytes v) (← argBool comp)) outText)
    | _ => none),
  ("wifdec", fun a => match a with
    | [s, v] => do
      let v ← argBytes v
      match v with
      | [vb] => pure (reply (wifDecode sha256d (← argText s) vb) fun r => s!"{outBytes r.1} {outBool r.2}")
      | _ => none
    | _ => none)
]

end BipVerif.Driver
