/- Driver operations for Electrum wallets, brainwallets and SPL token addresses (C20). -/
import BipVerif.Driver.Proto
import BipVerif.Driver.Bip44
import BipVerif.Model.Electrum

namespace BipVerif.Driver
open BipVerif BipVerif.Model

def electrumOps : List (String × Op) := [
  ("ev1wallet", fun a => match a with        -- ev1wallet priv|pub key change addr
    | [kind, key, ch, ad] => do
      let key ← argBytes key
      let ch ← argNat ch
      let ad ← argNat ad
      let w := if kind == "priv" then ev1FromPriv key else ev1FromPub key
      pure (reply w fun w =>
        s!"{optField (ev1PrivateKey w ch ad) outBytes} {optField (ev1PublicKey w ch ad) outBytes} {optField (ev1Address w ch ad) outText}")
    | _ => none),
  ("ev2wallet", fun a => match a with        -- ev2wallet std|segwit seed change addr
    | [kind, seed, ch, ad] => do
      let seed ← argBytes seed
      let ch ← argNat ch
      let ad ← argNat ad
      let seg := kind == "segwit"
      let r : R String := do
        let m ← slip10Master .secp256k1 seed
        let nd ← ev2Derive seg m ch ad
        pure s!"{outBytes (nd.priv.getD [])} {outBytes nd.pub} {optField (ev2Address seg nd) outText}"
      pure (reply r id)
    | _ => none),
  ("brain", fun a => match a with            -- brain algo pass salt n r p  (unused numeric fields = 0)
    | [algo, pass, salt, n, r, p] => do
      let pass ← argBytes pass
      let salt ← argBytes salt
      let n ← argNat n
      let r ← argNat r
      let p ← argNat p
      let al ← match algo with
        | "SHA256" => some BrainAlgo.sha256
        | "DOUBLE_SHA256" => some .doubleSha256
        | "PBKDF2_HMAC_SHA512" => some (.pbkdf2 salt n)
        | "SCRYPT" => some (.scrypt salt n r p)
        | _ => none
      let k := brainKey al pass
      let res : R String := do
        -- Bip44.FromPrivateKey(key, coin): the key must be a valid secp256k1 key
        if !privValid .secp256k1 k then throw Err.key
        let pub ← (secpPubOfPriv k)
        pure s!"{outBytes k} {outBytes pub}"
      pure (reply res id)
    | _ => none),
  ("findpda", fun a => match a with          -- findpda seeds(hex;hex;…) program
    | [seeds, prog] => do
      let ss ← if seeds == "-" then some [] else (seeds.splitOn ";").mapM argBytes
      pure (reply (findPda ss (← argText prog)) outText)
    | _ => none),
  ("splata", fun a => match a with           -- splata wallet mint tokenprogram
    | [w, m, t] => do pure (reply (associatedTokenAddress (← argText w) (← argText m) (← argText t)) outText)
    | _ => none)
]

end BipVerif.Driver
