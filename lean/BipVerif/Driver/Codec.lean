/- Driver operations for the codec layer (C10/C11). Hash-dependent operations take the hash
from `Prim` in `Main`. -/
import BipVerif.Driver.Proto
import BipVerif.Model.Base58
import BipVerif.Model.Bech32
import BipVerif.Model.Base32
import BipVerif.Model.SS58
import BipVerif.Model.Scale
import BipVerif.Prim.Sha256
import BipVerif.Prim.Blake2b

namespace BipVerif.Driver
open BipVerif BipVerif.Model

def alph (s : String) : Option (List Char) :=
  if s == "btc" then some btcAlphabet else if s == "xrp" then some xrpAlphabet else none

def optAlpha (s : String) : Option (Option (List Char)) :=
  if s == "none" then some none else (argText s).map some

def codecOps : List (String × Op) := [
  ("b58enc", fun a => match a with
    | [al, d] => do pure ("ok " ++ outText (b58Encode (← alph al) (← argBytes d)))
    | _ => none),
  ("b58dec", fun a => match a with
    | [al, s] => do pure (reply (b58Decode (← alph al) (← argText s)) outBytes)
    | _ => none),
  ("b58chkenc", fun a => match a with
    | [al, d] => do pure ("ok " ++ outText (b58CheckEncode Prim.sha256d (← alph al) (← argBytes d)))
    | _ => none),
  ("b58chkdec", fun a => match a with
    | [al, s] => do pure (reply (b58CheckDecode Prim.sha256d (← alph al) (← argText s)) outBytes)
    | _ => none),
  ("ss58enc", fun a => match a with
    | [d, f] => do pure (reply (ss58Encode Prim.blake2b512 (← argBytes d) (← argNat f)) outText)
    | _ => none),
  ("ss58dec", fun a => match a with
    | [s] => do pure (reply (ss58Decode Prim.blake2b512 (← argText s)) (fun r => s!"{r.1} {outBytes r.2}"))
    | _ => none),
  ("xmrenc", fun a => match a with
    | [d] => do pure ("ok " ++ outText (xmrEncode (← argBytes d)))
    | _ => none),
  ("xmrdec", fun a => match a with
    | [s] => do pure (reply (xmrDecode (← argText s)) outBytes)
    | _ => none),
  ("convbits", fun a => match a with
    | [d, f, t, p] => do
      match convertBits (← argNats d) (← argNat f) (← argNat t) (← argBool p) with
      | some r => pure ("ok " ++ outNats r)
      | none => pure "ok none"
    | _ => none),
  ("b32enc", fun a => match a with
    | [d, c] => do pure ("ok " ++ outText (base32Encode (← argBytes d) (← optAlpha c)))
    | _ => none),
  ("b32encnp", fun a => match a with
    | [d, c] => do pure ("ok " ++ outText (base32EncodeNoPad (← argBytes d) (← optAlpha c)))
    | _ => none),
  ("b32dec", fun a => match a with
    | [s, c] => do pure (reply (base32Decode (← argText s) (← optAlpha c)) outBytes)
    | _ => none),
  ("bech32enc", fun a => match a with
    | [h, d] => do pure (reply (bech32Encode (← argText h) (← argBytes d)) outText)
    | _ => none),
  ("bech32dec", fun a => match a with
    | [h, s] => do pure (reply (bech32Decode asciiCase (← argText h) (← argText s)) outBytes)
    | _ => none),
  ("segwitenc", fun a => match a with
    | [h, v, d] => do pure (reply (segwitEncode (← argText h) (← argNat v) (← argBytes d)) outText)
    | _ => none),
  ("segwitdec", fun a => match a with
    | [h, s] => do pure (reply (segwitDecode asciiCase (← argText h) (← argText s))
        (fun r => s!"{r.1} {outBytes r.2}"))
    | _ => none),
  ("bchenc", fun a => match a with
    | [h, v, d] => do pure (reply (bchEncode (← argText h) (← argBytes v) (← argBytes d)) outText)
    | _ => none),
  ("bchdec", fun a => match a with
    | [h, s] => do pure (reply (bchDecode asciiCase (← argText h) (← argText s))
        (fun r => s!"{outBytes r.1} {outBytes r.2}"))
    | _ => none),
  ("tobytes", fun a => match a with   -- IntegerUtils.ToBytes(v, n or None, endianness)
    | [v, n, e] => do
      let v ← argNat v
      let le := e == "little"
      if n == "none" then
        let b := toBytesAuto v
        pure ("ok " ++ outBytes (if le then b.reverse else b))
      else
        let n ← argNat n
        pure (reply (if le then toBytesLE v n else toBytesBE v n) outBytes)
    | _ => none),
  ("frombytes", fun a => match a with
    | [d, e] => do
      let b ← argBytes d
      pure s!"ok {if e == "little" then Bytes.toNatLE b else Bytes.toNatBE b}"
    | _ => none),
  ("tobin", fun a => match a with     -- BytesUtils.ToBinaryStr(bytes, pad)
    | [d, p] => do
      let s := toBinStr (Bytes.toNatBE (← argBytes d)) (← argNat p)
      pure ("ok " ++ String.ofList (s.map fun b => if b then '1' else '0'))
    | _ => none),
  ("scalecuint", fun a => match a with
    | [v] => do pure (reply (scaleCompact (← argNat v)) outBytes)
    | _ => none),
  ("scalecuintdec", fun a => match a with   -- spec decoder, used for the round trip on impl output
    | [d] => do match scaleCompactDecode (← argBytes d) with
      | some (v, n) => pure s!"ok {v} {n}"
      | none => pure "ok none"
    | _ => none),
  ("scaleuint", fun a => match a with
    | [v, n] => do pure (reply (scaleUint (← argNat v) (← argNat n)) outBytes)
    | _ => none),
  ("scalebytes", fun a => match a with
    | [d] => do pure (reply (scaleBytes (← argBytes d)) outBytes)
    | _ => none),
  ("cborenc", fun a => match a with
    | [l] => do pure (reply (cborIndefEncode (← argNats l)) outBytes)
    | _ => none),
  ("cbordec", fun a => match a with
    | [d] => do pure (reply (cborIndefDecode cborLoadsUint (← argBytes d))
        (fun l => if l.isEmpty then "-" else ",".intercalate (l.map fun
          | .uint n => toString n
          | .other => "x")))
    | _ => none)
]

end BipVerif.Driver
