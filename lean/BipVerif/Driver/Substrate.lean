/- Driver operations for Substrate (C19); sr25519 answers come from the request's oracle section. -/
import BipVerif.Driver.Proto
import BipVerif.Model.Substrate
import BipVerif.Gen.Coins

namespace BipVerif.Driver
open BipVerif BipVerif.Model

def substrateFormat (coin : String) : Option Nat := do
  let (_, _, _, _, ps) ← Gen.otherCoins.find? fun c => c.1 == "Substrate" && c.2.1 == coin
  ps.lookup "ss58_format" >>= argNat

def parseOracle (s : String) : Option Oracle :=
  if s.trimAscii.toString == "" then some []
  else ((s.trimAscii.toString.splitOn " ").filter (· ≠ "")).mapM fun e =>
    match e.splitOn ":" with
    | [fn, kv] => match kv.splitOn "=" with
      | [i, o] => do pure (fn, ← argBytes i, ← argBytes o)
      | _ => none
    | _ => none

/-- the first oracle query the computation misses, as `fn:hexinput` (so the harness can answer it) -/
def firstMiss (o : Oracle) (queries : List (String × Bytes)) : Option String :=
  (queries.find? fun q => (o.ask q.1 q.2).isNone).map fun q => s!"{q.1}:{outBytes q.2}"

def substrateOpsO : List (String × (Oracle → Op)) := [
  ("subpath", fun _ a => match a with        -- parse / print
    | [s] => do pure (reply (subParsePath (← argText s)) fun p =>
        s!"{outText (subPrintPath p)} {if p.isEmpty then "-" else ",".intercalate (p.map fun e => (if e.hard then "H" else "S") ++ outText e.text)}")
    | _ => none),
  ("subcc", fun _ a => match a with          -- chain code of one junction (text with its slashes)
    | [s] => do
      let s ← argText s
      pure (reply (do let e ← subElemOf s; subChainCode e) outBytes)
    | _ => none),
  ("substrate", fun o a => match a with      -- substrate kind key coin path neuterAt
    | [kind, key, coin, path, k] => do
      let key ← argBytes key
      let fmt ← substrateFormat coin
      let path ← argText path
      let k ← argNat k
      -- evaluate step by step so that the first missing oracle query can be reported
      let start : R SubNode := match kind with
        | "seed" => subFromSeed o key
        | "priv" => subFromPriv o key
        | _ => subFromPub key
      let r : R SubNode := do
        let nd ← start
        let p ← subParsePath path
        let a ← subDerivePath o nd (p.take k)
        if k ≥ p.length then pure a
        else subDerivePath o { a with priv := none } (p.drop k)
      match r with
      | .error .oracleMiss =>
        -- recompute the pending query
        let q : Option String := (do
          match kind with
          | "seed" => if (o.ask "sr_pair" (key.take 32)).isNone then some s!"sr_pair:{outBytes (key.take 32)}" else none
          | "priv" => if (o.ask "sr_pub" key).isNone then some s!"sr_pub:{outBytes key}" else none
          | _ => none) <|> (do
          let nd ← start.toOption
          let p ← (subParsePath path).toOption
          let rec walk (fuel : Nat) (nd : SubNode) (p : List SubElem) (i : Nat) : Option String :=
            match fuel, p with
            | 0, _ => none
            | _, [] => none
            | fuel+1, e :: rest =>
              let nd := if i = k then { nd with priv := none } else nd
              match subChainCode e with
              | .error _ => none
              | .ok cc =>
                let (fn, inp) := match nd.priv with
                  | some priv => ((if e.hard then "sr_hard" else "sr_soft"), cc ++ nd.pub ++ priv)
                  | none => ("sr_softpub", cc ++ nd.pub)
                match o.ask fn inp with
                | none => some s!"{fn}:{outBytes inp}"
                | some _ => match subChildKey o nd e with
                  | .ok nd' => walk fuel nd' rest (i + 1)
                  | .error _ => none
          walk (p.length + 1) nd p 0)
        pure ("err OracleMiss " ++ q.getD "?")
      | r => pure (reply r fun nd =>
          s!"{outBytes ((nd.priv.getD []).take 32)} {outBytes nd.pub} {outText (subPrintPath nd.path)} {optF (subAddress fmt nd)}")
    | _ => none)
]
where optF (r : R (List Char)) : String := match r with | .ok v => outText v | .error e => "!" ++ e.name

end BipVerif.Driver
