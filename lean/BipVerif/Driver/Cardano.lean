/- Driver operations for BIP32-Ed25519 / Cardano (C04, C18). -/
import BipVerif.Driver.Proto
import BipVerif.Driver.Bip32
import BipVerif.Driver.Bip44
import BipVerif.Model.Cardano
import BipVerif.Prim.ChaCha20Poly1305

namespace BipVerif.Driver
open BipVerif BipVerif.Model

def chachaAead : Aead := fun key nonce aad plain =>
  let (c, t) := Prim.chacha20Poly1305Encrypt key nonce aad plain
  c ++ t

def kholawMasterOf (kind : String) (seed : Bytes) : Option (R Node) :=
  match kind with
  | "kholaw" => some (kholawMaster .kholaw kholawMasterKey seed)
  | "icarus" => some (kholawMaster .kholaw icarusMasterKey seed)
  | "byronlegacy" => some (kholawMaster .byronLegacy byronLegacyMasterKey seed)
  | _ => none

/-- `CardanoByronLegacy.HdPathFromAddress`: decode, split off the 28-byte root hash, decrypt, read
the indefinite-length array -/
def byronRecoverPath (master : Node) (addr : List Char) : R (List Nat) := do
  let dec ← byronDecode addr
  let enc := dec.drop 28
  let key := byronHdPathKey master
  match Prim.chacha20Poly1305Decrypt key byronNonce [] (dropLast enc 16) (takeLast enc 16) with
  | none => throw .value
  | some plain =>
    let items ← cborIndefDecode cborLoadsUint plain
    let vals ← items.mapM fun it => match it with
      | .uint n => pure n
      | .other => throw Err.path
    if vals.any (· > 2 ^ 32 - 1) then throw .path
    pure vals

def cardanoOps : List (String × Op) := [
  ("kholawderive", fun a => match a with       -- kholawderive kind seed elems k
    | [kind, seed, elems, k] => do
      let seed ← argBytes seed
      let elems ← argNats elems
      let k ← argNat k
      let m ← kholawMasterOf kind seed
      let r : R Node := do deriveSplit kholawChildKey (← m) elems k
      pure (reply r outNode)
    | _ => none),
  ("kholawraw", fun a => match a with          -- kholawraw priv(64) chaincode elems k: a hand-supplied BIP32-Ed25519 parent (FromPrivateKey)
    | [priv, cc, elems, k] => do
      let priv ← argBytes priv
      let cc ← argBytes cc
      let elems ← argNats elems
      let k ← argNat k
      let r : R Node := do
        let n ← nodeOfPriv .ed25519Kholaw .kholaw priv 0 0 cc [0, 0, 0, 0]
        deriveSplit kholawChildKey n elems k
      pure (reply r outNode)
    | _ => none),
  ("byronaddr", fun a => match a with          -- byronaddr seed first second → address, recovered path
    | [seed, f, s] => do
      let seed ← argBytes seed
      let f ← argNat f
      let s ← argNat s
      let r : R String := do
        let m ← kholawMaster .byronLegacy byronLegacyMasterKey seed
        let addr ← byronLegacyAddress chachaAead m f s
        let back ← byronRecoverPath m addr
        pure s!"{outText addr} {outNats back} {outBytes (byronHdPathKey m)}"
      pure (reply r id)
    | _ => none),
  ("byrondec", fun a => match a with           -- byrondec address → root hash ‖ encrypted path (AdaByronAddrDecoder.DecodeAddr)
    | [addr] => do
      let addr ← argText addr
      pure (reply (byronDecode addr) outBytes)
    | _ => none),
  ("byronrecover", fun a => match a with       -- byronrecover seed address
    | [seed, addr] => do
      let seed ← argBytes seed
      let addr ← argText addr
      let r : R (List Nat) := do
        let m ← kholawMaster .byronLegacy byronLegacyMasterKey seed
        byronRecoverPath m addr
      pure (reply r outNats)
    | _ => none),
  ("shelley", fun a => match a with            -- shelley member seed account change index
    | [mem, seed, acc, ch, ix] => do
      let row ← findRow "Cip1852" mem ""
      let seed ← argBytes seed
      let acc ← argNat acc
      let ch ← argNat ch
      let ix ← argNat ix
      let netTag ← (row.addrParams.lookup "net_tag") >>= argNat
      let coin := if netTag = 1 then "CardanoMainNet" else "CardanoTestNet"
      let hrp ← confText coin "addr_hrp"
      let shrp ← confText coin "staking_addr_hrp"
      let r : R String := do
        let m ← masterOf row.bip32 seed
        let dp ← parsePath row.defPath.toList
        let accNode ← b44Run row.purpose row.coinIdx dp m [.purpose, .coin, .account acc]
        let sk ← derivePathWith childKey accNode ⟨[2, 0], false⟩
        let sk ← b44Admit sk
        let addrNode ← b44Run row.purpose row.coinIdx dp accNode [.change ch, .addrIdx ix]
        let a ← shelleyEncode hrp netTag addrNode.pub sk.pub
        let s ← shelleyStakingEncode shrp netTag sk.pub
        let da ← shelleyDecode hrp netTag a
        let ds ← shelleyStakingDecode shrp netTag s
        pure s!"{outBytes addrNode.pub} {outBytes sk.pub} {outText a} {outText s} {outBytes da} {outBytes ds}"
      pure (reply r id)
    | _ => none),
  ("adaseed", fun a => match a with            -- adaseed legacy|icarus entropy
    | [kind, ent] => do
      let ent ← argBytes ent
      if kind == "legacy" then pure ("ok " ++ outBytes (Prim.blake2b256 (cborBytesItem ent)))
      else pure ("ok " ++ outBytes ent)
    | _ => none)
]

end BipVerif.Driver
