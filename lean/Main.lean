import BipVerif.Driver.Codec
import BipVerif.Driver.Bip32
import BipVerif.Driver.Mnemonic
import BipVerif.Driver.Addr
import BipVerif.Driver.Bip44
import BipVerif.Driver.Bip38
import BipVerif.Driver.Monero
import BipVerif.Driver.Substrate
import BipVerif.Driver.Electrum
import BipVerif.Driver.Cardano
import BipVerif.Driver.Ecc
open BipVerif.Driver

def allOps : List (String × Op) := codecOps ++ bip32Ops ++ mnemonicOps ++ addrOps ++ bip44Ops ++ bip38Ops ++ moneroOps ++ electrumOps ++ cardanoOps ++ eccOps

def handle (line : String) : String :=
  -- request [ " | " oracle entries ]
  let (req, ora) := match line.splitOn " | " with
    | [r] => (r, "")
    | r :: rest => (r, " ".intercalate rest)
    | [] => ("", "")
  match (req.trimAscii.toString.splitOn " ").filter (· ≠ "") with
  | [] => "bad-op"
  | op :: args =>
    match allOps.lookup op with
    | some f => (f args).getD "bad-args"
    | none =>
      match substrateOpsO.lookup op with
      | none => "bad-op"
      | some f => match parseOracle ora with
        | none => "bad-oracle"
        | some o => (f o args).getD "bad-args"

partial def loop (h : IO.FS.Stream) (out : IO.FS.Stream) : IO Unit := do
  let line ← h.getLine
  if line.isEmpty then return ()
  out.putStrLn (handle line)
  loop h out

def main : IO Unit := do
  let out ← IO.getStdout
  loop (← IO.getStdin) out
  out.flush
