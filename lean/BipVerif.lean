-- root of the library: every property module (their imports pull in models, lemmas, tables)
import BipVerif.Props.C01
import BipVerif.Props.C01Tables
import BipVerif.Props.C02
import BipVerif.Props.C03
import BipVerif.Props.C04
import BipVerif.Props.C05
import BipVerif.Props.C06
import BipVerif.Props.C07
import BipVerif.Props.C08
import BipVerif.Props.C09
import BipVerif.Props.C10Codec
import BipVerif.Props.C11
import BipVerif.Props.C13Wif
import BipVerif.Props.C17
import BipVerif.Props.C17Tables
